(* C13 -- NON-VACUITY of the theorems of Props/C13.v.  Witness execution: Elem/SchedExamples.v, [spx_acts] (SP with
   flow2class {0 -> 10, 1 -> 10, 2 -> 11}, priorities {10: 1, 11: 2}; 128-byte packets at 1024 bit/s = 1 s each):
   a0 (flow 0), a1 (flow 1) at 0; b0 (flow 2, the urgent class 11) at 1/2 during the transmission of a0; b1 (flow 2) at 2,
   exactly when b0's transmission ends; b2 (flow 2) at 3, right after run() committed to a1 and before a1's timer starts.
   Two priority levels are backlogged simultaneously from 1/2 to 3.  Departure order a0 b0 b1 a1 b2.

   Coverage (theorem of Props/C13.v -> witness):
     C13_sp_strict              -> C13_ex_sp_strict              (the commit to a1 at 3: class 11 holds nothing)
     C13_sp_strict_at_start     -> C13_ex_sp_strict_at_start     (a1's timer starts at 3 with b2 present: b2 was put at 3)
     C13_sp_commit_same_instant -> C13_ex_sp_commit_same_instant (both forms of "committed")
     C13_sp_non_preemptive      -> C13_ex_sp_non_preemptive      (b0 arrives while a0 is being transmitted)
   Unconditional: none.  Already a witness: C13_sp_strict_refuted_before_fix. *)
From Coq Require Import ZArith QArith List Lia.
From ONL Require Import Elem.Packet Elem.StoreQ Elem.SchedBase Elem.SchedBaseProofs Elem.SP Elem.SPProofs Elem.SchedExamples.
From ONL Require Import Props.C13.
Import ListNotations.

(* state after 26 actions (instant 3): the transmission of b1 has ended (child CEnded), a1 has been waiting in the store of class
   10 since 0, class 11 is empty.  SChildEnd: run() rescans from the top: class 11 empty, takes a1 of class 10. *)
Theorem C13_ex_sp_strict :
  (* hypotheses *)
  0 < spx_r /\ NoDup (map fst spx_tbl) /\
  sp_run spx_r spx_cm spx_fl spx_tbl (firstn 26 spx_acts) = Some (spx_state 26, spx_trace 26) /\
  sp_act spx_r spx_cm spx_fl spx_tbl (spx_state 26) SChildEnd = Some (spx_state 27, [OVisit 11 false; OVisit 10 true]) /\
  In (OVisit 10 true) [OVisit 11 false; OVisit 10 true] /\ higher spx_tbl 10 11 /\
  (* the situation: a1 waited since 0 and was overtaken twice by class 11 (b0 put at 1/2, b1 put at 2) *)
  items (mstores (spx_state 26) 10) = [(0, spx_a1)] /\ tr_fwds (spx_trace 26) = [spx_a0; spx_b0; spx_b1] /\
  (* conclusion *)
  sq_held (mstores (spx_state 27) 11) = [] /\ items (mstores (spx_state 26) 11) = [] /\
  mpc (spx_state 27) = PGet 10 [] /\ (exists rem, mpc (spx_state 27) = PGet 10 rem) /\
  mnow (spx_state 27) = mnow (spx_state 26) /\ mnow (spx_state 27) = 3 /\
  get (mstores (spx_state 27) 10) = GGranted (0, spx_a1).
Proof.
  assert (Hr : 0 < spx_r) by reflexivity.
  assert (ND : NoDup (map fst spx_tbl)) by (repeat constructor; cbn; intuition discriminate).
  assert (H26 : sp_run spx_r spx_cm spx_fl spx_tbl (firstn 26 spx_acts) = Some (spx_state 26, spx_trace 26)) by (vm_compute; reflexivity).
  assert (A26 : sp_act spx_r spx_cm spx_fl spx_tbl (spx_state 26) SChildEnd = Some (spx_state 27, [OVisit 11 false; OVisit 10 true])) by (vm_compute; reflexivity).
  assert (IN : In (OVisit 10 true) [OVisit 11 false; OVisit 10 true]) by (right; left; reflexivity).
  assert (HI : higher spx_tbl 10 11) by (exists 1%Z, 2%Z; cbn; intuition lia).
  split; [exact Hr|]. split; [exact ND|]. split; [exact H26|]. split; [exact A26|]. split; [exact IN|]. split; [exact HI|].
  split; [vm_compute; reflexivity|]. split; [vm_compute; reflexivity|].
  destruct (C13_sp_strict _ _ _ _ _ _ _ _ _ _ _ _ Hr ND H26 A26 IN HI) as (C1 & C2 & C3 & C4).
  split; [exact C1|]. split; [exact C2|]. split; [vm_compute; reflexivity|]. split; [exact C3|]. split; [exact C4|].
  split; vm_compute; reflexivity.
Qed.
Print Assumptions C13_ex_sp_strict.

(* state after 29 actions (instant 3): run() holds a1 (child CInit a1); b2 of the urgent class 11 was put at 3 AFTER the
   commit.  SChildInit starts a1's transmission although class 11 is non-empty: everything class 11 holds was put at this instant. *)
Theorem C13_ex_sp_strict_at_start :
  0 < spx_r /\ NoDup (map fst spx_tbl) /\
  sp_run spx_r spx_cm spx_fl spx_tbl (firstn 29 spx_acts) = Some (spx_state 29, spx_trace 29) /\
  sp_act spx_r spx_cm spx_fl spx_tbl (spx_state 29) SChildInit = Some (spx_state 30, [OStart spx_a1]) /\
  In (OStart spx_a1) [OStart spx_a1] /\ higher spx_tbl (spx_cm (flow spx_a1)) 11 /\
  (* the situation: class 11 is NOT empty *)
  sq_held (mstores (spx_state 29) 11) = [(3, spx_b2)] /\ mnow (spx_state 29) = 3 /\
  (* conclusion *)
  Forall (fun x => fst x = mnow (spx_state 29)) (sq_held (mstores (spx_state 29) 11)).
Proof.
  assert (Hr : 0 < spx_r) by reflexivity.
  assert (ND : NoDup (map fst spx_tbl)) by (repeat constructor; cbn; intuition discriminate).
  assert (H29 : sp_run spx_r spx_cm spx_fl spx_tbl (firstn 29 spx_acts) = Some (spx_state 29, spx_trace 29)) by (vm_compute; reflexivity).
  assert (A29 : sp_act spx_r spx_cm spx_fl spx_tbl (spx_state 29) SChildInit = Some (spx_state 30, [OStart spx_a1])) by (vm_compute; reflexivity).
  assert (IN : In (OStart spx_a1) [OStart spx_a1]) by (left; reflexivity).
  assert (HI : higher spx_tbl (spx_cm (flow spx_a1)) 11) by (exists 1%Z, 2%Z; cbn; intuition lia).
  split; [exact Hr|]. split; [exact ND|]. split; [exact H29|]. split; [exact A29|]. split; [exact IN|]. split; [exact HI|].
  split; [vm_compute; reflexivity|]. split; [vm_compute; reflexivity|].
  exact (C13_sp_strict_at_start _ _ _ _ _ _ _ _ _ _ _ Hr ND H29 A29 IN HI).
Qed.
Print Assumptions C13_ex_sp_strict_at_start.

(* committed, first form (state after 27 actions: run() waits for the granted get on class 10) and second form (state after 29
   actions: the child holding a1 is created, its Initialize pending): the clock cannot move, whatever the target instant *)
Theorem C13_ex_sp_commit_same_instant :
  0 < spx_r /\
  sp_run spx_r spx_cm spx_fl spx_tbl (firstn 27 spx_acts) = Some (spx_state 27, spx_trace 27) /\
  committed spx_cfg (spx_state 27) 10 /\ mpc (spx_state 27) = PGet 10 [] /\
  sp_run spx_r spx_cm spx_fl spx_tbl (firstn 29 spx_acts) = Some (spx_state 29, spx_trace 29) /\
  committed spx_cfg (spx_state 29) 10 /\ mchild (spx_state 29) = CInit spx_a1 /\
  (* conclusion *)
  (forall t, sp_act spx_r spx_cm spx_fl spx_tbl (spx_state 27) (SAdvance t) = None) /\
  (forall t, sp_act spx_r spx_cm spx_fl spx_tbl (spx_state 29) (SAdvance t) = None) /\
  sp_act spx_r spx_cm spx_fl spx_tbl (spx_state 29) (SAdvance 4) = None.
Proof.
  assert (Hr : 0 < spx_r) by reflexivity.
  assert (H27 : sp_run spx_r spx_cm spx_fl spx_tbl (firstn 27 spx_acts) = Some (spx_state 27, spx_trace 27)) by (vm_compute; reflexivity).
  assert (P27 : mpc (spx_state 27) = PGet 10 []) by (vm_compute; reflexivity).
  assert (C27 : committed spx_cfg (spx_state 27) 10) by (left; exists []; exact P27).
  assert (H29 : sp_run spx_r spx_cm spx_fl spx_tbl (firstn 29 spx_acts) = Some (spx_state 29, spx_trace 29)) by (vm_compute; reflexivity).
  assert (M29 : mchild (spx_state 29) = CInit spx_a1) by (vm_compute; reflexivity).
  assert (C29 : committed spx_cfg (spx_state 29) 10) by (right; exists spx_a1; split; [exact M29|reflexivity]).
  split; [exact Hr|]. split; [exact H27|]. split; [exact C27|]. split; [exact P27|]. split; [exact H29|]. split; [exact C29|].
  split; [exact M29|].
  split; [intros t; exact (C13_sp_commit_same_instant _ _ _ _ _ _ _ _ t Hr H27 C27)|].
  split; [intros t; exact (C13_sp_commit_same_instant _ _ _ _ _ _ _ _ t Hr H29 C29)|].
  exact (C13_sp_commit_same_instant _ _ _ _ _ _ _ _ 4 Hr H29 C29).
Qed.
Print Assumptions C13_ex_sp_commit_same_instant.

(* the whole execution: b0 of the urgent class arrives at 1/2 while a0 (low priority) is being transmitted; a0 is forwarded at 1,
   exactly 1 s after its start, and only then b0 starts *)
Theorem C13_ex_sp_non_preemptive :
  0 < spx_r /\
  sp_run spx_r spx_cm spx_fl spx_tbl spx_acts = Some (spx_state 39, spx_trace 39) /\
  (* the execution: arrival of b0 (entry 10) at 1/2 inside the transmission of a0 (started at 0 by entry 8, ended at 1 by entry 13) *)
  nth_error (spx_trace 39) 8 = Some (0, SChildInit, [OStart spx_a0]) /\
  nth_error (spx_trace 39) 10 = Some (1 # 2, SPut spx_b0, []) /\
  nth_error (spx_trace 39) 13 = Some (1, SChildTimer, [OForward spx_a0]) /\
  nth_error (spx_trace 39) 16 = Some (1, SChildInit, [OStart spx_b0]) /\
  tr_starts (spx_trace 39) = [spx_a0; spx_b0; spx_b1; spx_a1; spx_b2] /\
  tr_fwds (spx_trace 39) = [spx_a0; spx_b0; spx_b1; spx_a1; spx_b2] /\
  (* conclusion *)
  tx_wf spx_cfg None (spx_trace 39).
Proof.
  assert (Hr : 0 < spx_r) by reflexivity.
  assert (HF : sp_run spx_r spx_cm spx_fl spx_tbl spx_acts = Some (spx_state 39, spx_trace 39)) by (vm_compute; reflexivity).
  split; [exact Hr|]. split; [exact HF|].
  split; [vm_compute; reflexivity|]. split; [vm_compute; reflexivity|]. split; [vm_compute; reflexivity|].
  split; [vm_compute; reflexivity|]. split; [vm_compute; reflexivity|]. split; [vm_compute; reflexivity|].
  exact (C13_sp_non_preemptive _ _ _ _ _ _ _ Hr HF).
Qed.
Print Assumptions C13_ex_sp_non_preemptive.
