(* C04, second tie -- NON-VACUITY of the theorems of Props/C04_Bridge.v (kept apart from Props/C04_Examples.v because this file
   depends on the GENERATED Gen/Extracted_kernel.v).  Instance: family F of Kernel/IntrWitness.v.

   Coverage:
     C04_gen_interruption_init (get_event e s = Some ev /\ kind ev = KProcess p) ... C04_ex_gen_interruption_init: in f_at 3, e = 0 (the
         live victim: accepted, event 9 is created) and e = 2 (the ended interrupter: RuntimeError)
     C04_gen_interrupt_cb (get_event i s = Some iev /\ kind iev = KInterruption p /\ get_proc p s = Some pr /\ get_event (pev pr) s =
         Some pe /\ ptarget pr = Some t /\ get_event t s = Some tev) ... C04_ex_gen_interrupt_cb: the state in which the callback of
         interruption 6 runs (popped from f_at 3), the victim alive and waiting for event 4
   Unconditional: C04_gen_process_interrupt. *)
From Coq Require Import ZArith QArith List Bool Lia.
From ONL Require Import Kernel.Model Kernel.Keys Kernel.Script Kernel.IntrBase Kernel.IntrInv Kernel.IntrStep Kernel.Intr Kernel.IntrExamples
  Kernel.IntrWitness Gen.Extracted_kernel Kernel.LeafBridge.
Import ListNotations.

Theorem C04_ex_gen_interruption_init :
  exists ev ev2, get_event 0%nat (f_at 3) = Some ev /\ kind ev = KProcess 0%nat /\
    get_event 2%nat (f_at 3) = Some ev2 /\ kind ev2 = KProcess 1%nat /\
    option_map snd (ctor_fx (KInterruption 0%nat) 0%nat VNone (VInt 10) build0 (f_at 3) (interruption_gen ev 0%nat (f_at 3)))
      = Some (Ok (VEv 9%nat)) /\
    snd (call_interrupt 0%nat (VInt 10) (f_at 3)) = Ok VNone /\
    ctor_fx (KInterruption 1%nat) 1%nat VNone (VInt 10) build0 (f_at 3) (interruption_gen ev2 1%nat (f_at 3))
      = Some (f_at 3, Fail (kexn ERuntime M_terminated)) /\
    call_interrupt 2%nat (VInt 10) (f_at 3) = (f_at 3, Fail (kexn ERuntime M_terminated)).
Proof.
  eexists _, _. split; [vm_compute; reflexivity|]. split; [reflexivity|]. split; [vm_compute; reflexivity|]. split; [reflexivity|].
  split; [vm_compute; reflexivity|]. split; [vm_compute; reflexivity|]. split; vm_compute; reflexivity.
Qed.
Print Assumptions C04_ex_gen_interruption_init.

Theorem C04_ex_gen_interrupt_cb :
  let s := popped f_x6 f_rest6 (f_at 3) in
  exists iev pr pe tev, get_event 6%nat s = Some iev /\ kind iev = KInterruption 0%nat /\ get_proc 0%nat s = Some pr /\
    get_event (pev pr) s = Some pe /\ ptarget pr = Some 4%nat /\ get_event 4%nat s = Some tev /\
    is_triggered pe = false /\ cbs tev = Some [CbResume 0%nat] /\
    gen_Interruption_interrupt (is_triggered pe) = [FxRemoveResumeFromTarget; FxResumeProcess] /\
    interrupt_cb_fx 10 f_codes 6%nat 0%nat pr s (gen_Interruption_interrupt (is_triggered pe)) = Some (do_interruption 10 f_codes 6%nat s).
Proof.
  cbn zeta. set (s := popped f_x6 f_rest6 (f_at 3)).
  assert (Ei : exists iev, get_event 6%nat s = Some iev /\ kind iev = KInterruption 0%nat) by (eexists; split; [vm_compute; reflexivity|reflexivity]).
  destruct Ei as (iev & Ei & Ki).
  destruct (get_proc 0%nat s) as [pr|] eqn:Hp; [|vm_compute in Hp; discriminate].
  assert (Pe : pev pr = 0%nat) by (apply (opt_proj pev _ _ _ Hp); vm_compute; reflexivity).
  assert (Pt : ptarget pr = Some 4%nat) by (apply (opt_proj ptarget _ _ _ Hp); vm_compute; reflexivity).
  assert (Ep : exists pe, get_event 0%nat s = Some pe /\ is_triggered pe = false) by (eexists; split; [vm_compute; reflexivity|reflexivity]).
  destruct Ep as (pe & Ep & Tp).
  assert (Et : exists tev, get_event 4%nat s = Some tev /\ cbs tev = Some [CbResume 0%nat]) by (eexists; split; [vm_compute; reflexivity|reflexivity]).
  destruct Et as (tev & Et & Ct).
  assert (Ep' : get_event (pev pr) s = Some pe) by (rewrite Pe; exact Ep).
  exists iev, pr, pe, tev. split; [exact Ei|]. split; [exact Ki|]. split; [reflexivity|]. split; [exact Ep'|]. split; [exact Pt|].
  split; [exact Et|]. split; [exact Tp|]. split; [exact Ct|]. split; [rewrite Tp; reflexivity|].
  exact (bridge_interrupt_cb 10 f_codes 6%nat s iev 0%nat pr pe 4%nat tev Ei Ki Hp Ep' Pt Et).
Qed.
Print Assumptions C04_ex_gen_interrupt_cb.
