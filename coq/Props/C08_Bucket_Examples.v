(* C08, share of TokenBucket and TwoRateTokenBucket -- NON-VACUITY of Props/C08_Bucket.v.
   Witnesses: (Elem/BucketProofs.v, ex_c / ex_acts) rate 1024, bucket 256 B, peak 4096: a 256-byte and a 128-byte packet at 0 (the
   second waits for tokens, both are spaced by the peak rate); (Elem/TwoRateProofs.v, rx_c / rx_acts) CIR 1024 / CBS 256 / PIR 2048 /
   PBS 512: green, yellow, red (waits for peak tokens), green; and a bucket without PIR whose second packet waits for committed tokens.
     C08_ex_tb_run              covers C08_tb_conserves, C08_tb_counters, C08_tb_flow_fifo       (rate > 0, admissible execution)
     C08_ex_tb_drained          covers C08_tb_drained   (+ peak > 0, sizes >= 0, idle phase, nothing but put / advance enabled)
     C08_ex_tb_timer_enabled    covers C08_tb_timer_enabled, once in phase PPeak and once in phase PTok at its deadline
     C08_ex_trtb_run            covers C08_trtb_conserves, C08_trtb_counters, C08_trtb_flow_fifo (trwf, admissible execution)
     C08_ex_trtb_drained        covers C08_trtb_drained
     C08_ex_trtb_timer_enabled  covers C08_trtb_timer_enabled, once in RWaitPeak and once in RWaitCommit at its deadline
   No theorem of Props/C08_Bucket.v is unconditional.
   The conclusions are obtained by applying the theorem to the witness.  Statement files are compiled independently (and in
   parallel) by the pipeline, so one statement file cannot import another: [C08_x] below is a LOCAL abbreviation of the proof
   term that closes theorem C08_x in Props/C08_Bucket.v (there: `Proof. exact <that term>. Qed.`), hence has the same statement.
   Helper facts are stated with `Fact` (they are not obligations); every `Theorem` is a witness and is followed by
   Print Assumptions. *)
From Coq Require Import ZArith QArith List.
From ONL Require Import Elem.Packet Elem.StoreQ Elem.Bucket Elem.BucketProofs Elem.TwoRate Elem.TwoRateProofs.
Import ListNotations.

Local Notation C08_tb_conserves := tb_conserves.
Local Notation C08_tb_counters := tb_counters.
Local Notation C08_tb_flow_fifo := tb_flow_fifo.
Local Notation C08_tb_drained := tb_drained.
Local Notation C08_tb_timer_enabled := tb_timer_enabled.
Local Notation C08_trtb_conserves := trtb_conserves.
Local Notation C08_trtb_counters := trtb_counters.
Local Notation C08_trtb_flow_fifo := trtb_flow_fifo.
Local Notation C08_trtb_drained := trtb_drained.
Local Notation C08_trtb_timer_enabled := trtb_timer_enabled.

Fact bx_peak : forall k, peak_on ex_c = Some k -> 0 < k.
Proof. intros k H. vm_compute in H. injection H as <-. reflexivity. Qed.

(* covers: C08_tb_conserves, C08_tb_counters, C08_tb_flow_fifo *)
Theorem C08_ex_tb_run :
  exists s tr, 0 < rate ex_c /\ tb_run ex_c (tb0 true ex_c 0) ex_acts = Some (s, tr) /\
    map snd (puts tr) = [ex_p0; ex_p1] /\ map snd (fwds tr) = [ex_p0; ex_p1] /\ tb_held s = [] /\
    nrecv s = 2%Z /\ nsent s = 2%Z /\
    (exists rest, of_flow 1 (map snd (puts tr)) = of_flow 1 (map snd (fwds tr)) ++ rest) /\
    of_flow 1 (map snd (fwds tr)) = [ex_p1].
Proof.
  destruct (tb_run ex_c (tb0 true ex_c 0) ex_acts) as [[s tr]|] eqn:E; [|vm_compute in E; discriminate].
  exists s, tr. split; [reflexivity|]. split; [reflexivity|].
  pose proof (C08_tb_flow_fifo ex_c 0 _ _ _ eq_refl E 1%Z) as HF.
  vm_compute in E. injection E as <- <-.
  repeat (split; [reflexivity|]). split; [exact HF|reflexivity].
Qed.
Print Assumptions C08_ex_tb_run.

(* covers: C08_tb_drained *)
Theorem C08_ex_tb_drained :
  exists s tr, 0 < rate ex_c /\ tb_run ex_c (tb0 true ex_c 0) ex_acts = Some (s, tr) /\
    (forall k, peak_on ex_c = Some k -> 0 < k) /\ Forall (fun x => 0 <= sz (snd x)) (puts tr) /\
    phase s = PIdle /\
    (forall a, (forall p, a <> TPut p) -> (forall t, a <> TAdvance t) -> tb_act ex_c s a = None) /\
    length (puts tr) = 2%nat /\ tb_held s = [] /\ map snd (fwds tr) = map snd (puts tr).
Proof.
  destruct (tb_run ex_c (tb0 true ex_c 0) ex_acts) as [[s tr]|] eqn:E; [|vm_compute in E; discriminate].
  exists s, tr. split; [reflexivity|]. split; [reflexivity|]. split; [exact bx_peak|].
  vm_compute in E. injection E as <- <-.
  split; [repeat constructor; vm_compute; discriminate|]. split; [reflexivity|].
  split; [|repeat split; reflexivity].
  intros a HP HA. destruct a; try reflexivity; [exfalso; eapply HP; reflexivity|exfalso; eapply HA; reflexivity].
Qed.
Print Assumptions C08_ex_tb_drained.

(* covers: C08_tb_timer_enabled -- after 6 actions p0 is debited and spaced (PPeak, due at 1/2); after 10 actions p1 waits for tokens (PTok) and its timeout is due now *)
Theorem C08_ex_tb_timer_enabled :
  (exists s tr dl, 0 < rate ex_c /\ tb_run ex_c (tb0 true ex_c 0) (firstn 6 ex_acts) = Some (s, tr) /\
     (forall k, peak_on ex_c = Some k -> 0 < k) /\ Forall (fun x => 0 <= sz (snd x)) (puts tr) /\
     phase s = PPeak ex_p0 dl /\ dl == 1 # 2 /\ tb_held s = [ex_p0; ex_p1] /\
     tnow s <= dl /\ (dl == tnow s -> exists s' o, tb_act ex_c s TTimer = Some (s', o))) /\
  (exists s tr dl, 0 < rate ex_c /\ tb_run ex_c (tb0 true ex_c 0) (firstn 10 ex_acts) = Some (s, tr) /\
     (forall k, peak_on ex_c = Some k -> 0 < k) /\ Forall (fun x => 0 <= sz (snd x)) (puts tr) /\
     phase s = PTok ex_p1 dl /\ dl == 1 /\ tb_held s = [ex_p1] /\ tnow s == 1 /\
     exists s' o, tb_act ex_c s TTimer = Some (s', o)).
Proof.
  split.
  - destruct (tb_run ex_c (tb0 true ex_c 0) (firstn 6 ex_acts)) as [[s tr]|] eqn:E; [|vm_compute in E; discriminate].
    pose proof (fun Sz p dl Ph => C08_tb_timer_enabled ex_c 0 _ _ _ eq_refl E bx_peak Sz p dl Ph) as HT.
    vm_compute in E. injection E as <- <-.
    eexists _, _, _. split; [reflexivity|]. split; [reflexivity|]. split; [exact bx_peak|].
    assert (Sz : Forall (fun x : Q * pkt => 0 <= sz (snd x)) (puts
      [(0, TInit, []); (0, TPut ex_p0, []); (0, TPut ex_p1, []); (0, TStoreCb, []); (0, TStoreCb, []);
       (0, TGet, [OHead ex_p0; ODebit ex_p0])])).
    { repeat constructor; vm_compute; discriminate. }
    split; [exact Sz|]. split; [vm_compute; reflexivity|]. split; [reflexivity|]. split; [reflexivity|].
    eapply (HT Sz). right. vm_compute. reflexivity.
  - destruct (tb_run ex_c (tb0 true ex_c 0) (firstn 10 ex_acts)) as [[s tr]|] eqn:E; [|vm_compute in E; discriminate].
    pose proof (fun Sz p dl Ph => C08_tb_timer_enabled ex_c 0 _ _ _ eq_refl E bx_peak Sz p dl Ph) as HT.
    vm_compute in E. injection E as <- <-.
    eexists _, _, _. split; [reflexivity|]. split; [reflexivity|]. split; [exact bx_peak|].
    match type of HT with ?A -> _ => assert (Sz : A) by (repeat constructor; vm_compute; discriminate) end.
    split; [exact Sz|]. split; [vm_compute; reflexivity|]. split; [reflexivity|]. split; [reflexivity|].
    split; [reflexivity|].
    eapply (HT Sz); [left; vm_compute; reflexivity|reflexivity].
Qed.
Print Assumptions C08_ex_tb_timer_enabled.

Fact rx_wf : trwf rx_c.
Proof. apply trwf_pir; reflexivity. Qed.

(* covers: C08_trtb_conserves, C08_trtb_counters, C08_trtb_flow_fifo *)
Theorem C08_ex_trtb_run :
  exists s tr, trwf rx_c /\ tr_run true true rx_c (tr0 true rx_c 0) rx_acts = Some (s, tr) /\
    map snd (rputs tr) = [rx_p 0 256; rx_p 1 256; rx_p 2 256; rx_p 3 128] /\
    map snd (rfwds tr) = [rx_p 0 256; rx_p 1 256; rx_p 2 256; rx_p 3 128] /\ rcols tr = [Green; Yellow; Red; Green] /\
    tr_held s = [] /\ rrecv s = 4%Z /\ rsent s = 4%Z /\
    (exists rest, of_flow 0 (map snd (rputs tr)) = of_flow 0 (map snd (rfwds tr)) ++ rest).
Proof.
  destruct (tr_run true true rx_c (tr0 true rx_c 0) rx_acts) as [[s tr]|] eqn:E; [|vm_compute in E; discriminate].
  exists s, tr. split; [exact rx_wf|]. split; [reflexivity|].
  pose proof (C08_trtb_flow_fifo rx_c 0 _ _ _ rx_wf E 0%Z) as HF.
  vm_compute in E. injection E as <- <-.
  repeat (split; [reflexivity|]). exact HF.
Qed.
Print Assumptions C08_ex_trtb_run.

(* covers: C08_trtb_drained *)
Theorem C08_ex_trtb_drained :
  exists s tr, trwf rx_c /\ tr_run true true rx_c (tr0 true rx_c 0) rx_acts = Some (s, tr) /\
    rphase_ s = RIdle /\
    (forall a, (forall p, a <> RPut p) -> (forall t, a <> RAdvance t) -> tr_act true true rx_c s a = None) /\
    length (rputs tr) = 4%nat /\ tr_held s = [] /\ map snd (rfwds tr) = map snd (rputs tr).
Proof.
  destruct (tr_run true true rx_c (tr0 true rx_c 0) rx_acts) as [[s tr]|] eqn:E; [|vm_compute in E; discriminate].
  exists s, tr. split; [exact rx_wf|]. split; [reflexivity|].
  vm_compute in E. injection E as <- <-.
  split; [reflexivity|]. split; [|repeat split; reflexivity].
  intros a HP HA. destruct a; try reflexivity; [exfalso; eapply HP; reflexivity|exfalso; eapply HA; reflexivity].
Qed.
Print Assumptions C08_ex_trtb_drained.

Definition rc_c : trcfg := {| cir := 1024; cbs := 256; pk := None |}.
Definition rc_acts : list raction := [RInit; RPut (rx_p 0 256); RPut (rx_p 1 256); RStoreCb; RStoreCb; RGet; RGet; RAdvance 2].
Fact rc_wf : trwf rc_c.
Proof. split; [reflexivity|]. intros pir pbs H. discriminate H. Qed.

(* covers: C08_trtb_timer_enabled -- RWaitPeak (the red packet, due at 1) and RWaitCommit (no PIR, due now at 2) *)
Theorem C08_ex_trtb_timer_enabled :
  (exists s tr dl, trwf rx_c /\ tr_run true true rx_c (tr0 true rx_c 0) (firstn 10 rx_acts) = Some (s, tr) /\
     rphase_ s = RWaitPeak (rx_p 2 256) dl /\ dl == 1 /\ tr_held s = [rx_p 2 256] /\
     rnow s <= dl /\ (dl == rnow s -> exists s' o, tr_act true true rx_c s RTimer = Some (s', o))) /\
  (exists s tr dl, trwf rc_c /\ tr_run true true rc_c (tr0 true rc_c 0) rc_acts = Some (s, tr) /\
     rphase_ s = RWaitCommit (rx_p 1 256) dl /\ dl == 2 /\ tr_held s = [rx_p 1 256] /\ rnow s == 2 /\
     exists s' o, tr_act true true rc_c s RTimer = Some (s', o)).
Proof.
  split.
  - destruct (tr_run true true rx_c (tr0 true rx_c 0) (firstn 10 rx_acts)) as [[s tr]|] eqn:E; [|vm_compute in E; discriminate].
    pose proof (C08_trtb_timer_enabled rx_c 0 _ _ _ rx_wf E) as HT.
    vm_compute in E. injection E as <- <-.
    eexists _, _, _. split; [exact rx_wf|]. split; [reflexivity|].
    split; [vm_compute; reflexivity|]. split; [reflexivity|]. split; [reflexivity|].
    eapply HT. left. vm_compute. reflexivity.
  - destruct (tr_run true true rc_c (tr0 true rc_c 0) rc_acts) as [[s tr]|] eqn:E; [|vm_compute in E; discriminate].
    pose proof (C08_trtb_timer_enabled rc_c 0 _ _ _ rc_wf E) as HT.
    vm_compute in E. injection E as <- <-.
    eexists _, _, _. split; [exact rc_wf|]. split; [reflexivity|].
    split; [vm_compute; reflexivity|]. split; [reflexivity|]. split; [reflexivity|]. split; [reflexivity|].
    eapply HT; [right; vm_compute; reflexivity|reflexivity].
Qed.
Print Assumptions C08_ex_trtb_timer_enabled.
