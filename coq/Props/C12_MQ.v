(* C12 -- schedulers are work-conserving, non-preemptive, rate-exact and per-flow FIFO: the share of SP, RR, WRR and of the
   scheduler Monitor.  Only statements, closed by the lemma that proves them, and their assumptions.
   X_run ... acts = Some (s, tr): acts is an admissible execution (any interleaving of put() calls and kernel steps, clock
   moves only when nothing is due) from the initial state, s the state reached, tr the timed trace.
   SP: cm is flow2class (ANY function: several flows may share a class), tbl the priority table keyed by class, fl the flows
   the Monitor reports; put(p) is admissible when the class of p's flow is in the table.  RR, WRR: identity class map.
   held_class c s k: packets of class k in transmission ++ in the granted get ++ in the store of k, oldest first;
   held_flow c s f = the packets of flow f among held_class c s (cls f). *)
From Coq Require Import ZArith QArith List.
From ONL Require Import Elem.Packet Elem.StoreQ Elem.SchedBase Elem.SchedBaseProofs Elem.SP Elem.SPProofs Elem.RR Elem.RRProofs Elem.WRR Elem.WRRProofs.
Import ListNotations.

(* ================= SP ================= *)
(* never idle with a backlog: whenever the clock may move (SAdvance admissible) a transmission is in progress and not yet due, or no packet is held at all (no class queue, no granted get, no child holds one) *)
Theorem C12_sp_work_conserving : forall (r : Q) (cm : Z -> Z) (fl : list Z) (tbl : list (Z * Z)) acts s tr t x,
  0 < r -> (forall k p, In (k, p) tbl -> (0 < p)%Z) ->
  sp_run r cm fl tbl acts = Some (s, tr) -> sp_act r cm fl tbl s (SAdvance t) = Some x ->
  (exists p dl, mchild s = CTx p dl /\ mcur s = Some p /\ mnow s < dl) \/ (forall k, held_class (sp_cfg true r cm fl tbl) s k = []).
Proof. exact sp_work_conserving. Qed.
Print Assumptions C12_sp_work_conserving.

(* tx_wf: along the timed trace a transmission starts only when none is in progress; it ends exactly 8*size/rate later by forwarding the very packet that was started; no other action ends it and the clock never passes its end *)
Theorem C12_sp_one_at_a_time_tx_time : forall (r : Q) (cm : Z -> Z) (fl : list Z) (tbl : list (Z * Z)) acts s tr,
  0 < r ->
  sp_run r cm fl tbl acts = Some (s, tr) -> tx_wf (sp_cfg true r cm fl tbl) None tr.
Proof. exact sp_one_at_a_time_tx_time. Qed.
Print Assumptions C12_sp_one_at_a_time_tx_time.

(* if a packet is held when a transmission ends, a transmission starts (OStart) at that same instant before the clock can move *)
Theorem C12_sp_back_to_back : forall (r : Q) (cm : Z -> Z) (fl : list Z) (tbl : list (Z * Z)) acts1 s1 tr1 s2 o acts2 s3 tr2 t x,
  0 < r -> (forall k p, In (k, p) tbl -> (0 < p)%Z) ->
  sp_run r cm fl tbl acts1 = Some (s1, tr1) -> sp_act r cm fl tbl s1 SChildTimer = Some (s2, o) -> (exists k, held_class (sp_cfg true r cm fl tbl) s2 k <> []) ->
  mq_run (sp_cfg true r cm fl tbl) s2 acts2 = Some (s3, tr2) -> (forall t', ~ In (SAdvance t') acts2) -> sp_act r cm fl tbl s3 (SAdvance t) = Some x ->
  exists e p, In e tr2 /\ In (OStart p) (snd e) /\ fst (fst e) = mnow s2.
Proof. exact sp_back_to_back. Qed.
Print Assumptions C12_sp_back_to_back.

(* packets of one FLOW are forwarded in the order they were put in (the forwarded ones are a prefix of the arrivals of that flow), also when several flows share a class *)
Theorem C12_sp_flow_fifo : forall (r : Q) (cm : Z -> Z) (fl : list Z) (tbl : list (Z * Z)) acts s tr f,
  0 < r ->
  sp_run r cm fl tbl acts = Some (s, tr) ->
  exists rest, filter (is_flow f) (tr_puts tr) = filter (is_flow f) (tr_fwds tr) ++ rest.
Proof. exact sp_flow_fifo. Qed.
Print Assumptions C12_sp_flow_fifo.

(* every packet put in is forwarded or held in the queue of its class, and the multiplicities add up: nothing is lost, duplicated or invented *)
Theorem C12_sp_exactly_once : forall (r : Q) (cm : Z -> Z) (fl : list Z) (tbl : list (Z * Z)) acts s tr p,
  0 < r ->
  sp_run r cm fl tbl acts = Some (s, tr) ->
  count_occ pkt_eq_dec (tr_puts tr) p
  = (count_occ pkt_eq_dec (tr_fwds tr) p + count_occ pkt_eq_dec (held_class (sp_cfg true r cm fl tbl) s (cm (flow p))) p)%nat.
Proof. exact sp_exactly_once. Qed.
Print Assumptions C12_sp_exactly_once.

(* queue_count[f] / queue_byte_size[f] = number / bytes of the packets of FLOW f in the store of its class, in a granted get or in transmission; total_packets is the number of packets held; current_packet is the packet in transmission; packets_received counts the puts *)
Theorem C12_sp_counters : forall (r : Q) (cm : Z -> Z) (fl : list Z) (tbl : list (Z * Z)) acts s tr,
  0 < r ->
  sp_run r cm fl tbl acts = Some (s, tr) ->
  (forall f, mqc s f = Z.of_nat (length (held_flow (sp_cfg true r cm fl tbl) s f)) /\ mqb s f = sumsz (held_flow (sp_cfg true r cm fl tbl) s f))
  /\ mtotal s = zsum (fun k => Z.of_nat (length (held_class (sp_cfg true r cm fl tbl) s k))) (dclasses (sp_cfg true r cm fl tbl))
  /\ mcur s = match mchild s with CTx p _ => Some p | _ => None end
  /\ mrecv s = Z.of_nat (length (tr_puts tr)).
Proof. exact sp_counters. Qed.
Print Assumptions C12_sp_counters.

(* run() never enters a pass that finds nothing while packets are counted (the state in which the real code would loop without yielding -- what SP did before a131332 when flow id != class id) *)
Theorem C12_sp_never_spins : forall (r : Q) (cm : Z -> Z) (fl : list Z) (tbl : list (Z * Z)) acts s tr,
  0 < r -> (forall k p, In (k, p) tbl -> (0 < p)%Z) ->
  sp_run r cm fl tbl acts = Some (s, tr) -> mpc s <> PSpin.
Proof. exact sp_never_spins. Qed.
Print Assumptions C12_sp_never_spins.

(* a Monitor sample is, per flow, the number and bytes of the packets waiting or in transmission (service_included) resp. waiting only *)
Theorem C12_sp_monitor_samples : forall (r : Q) (cm : Z -> Z) (fl : list Z) (tbl : list (Z * Z)) acts s tr incl,
  0 < r ->
  sp_run r cm fl tbl acts = Some (s, tr) ->
  sp_act r cm fl tbl s (SSample incl) =
    Some (s, [OSample (map (fun f => let l := if incl then held_flow (sp_cfg true r cm fl tbl) s f else waiting_flow (sp_cfg true r cm fl tbl) s f in
                                     (f, Z.of_nat (length l), sumsz l)) (sflows (sp_cfg true r cm fl tbl)))]).
Proof. exact sp_monitor_samples. Qed.
Print Assumptions C12_sp_monitor_samples.

(* ================= RR ================= *)
Theorem C12_rr_work_conserving : forall (r : Q) (fl : list Z) acts s tr t x,
  0 < r ->
  rr_run r fl acts = Some (s, tr) -> rr_act r fl s (SAdvance t) = Some x ->
  (exists p dl, mchild s = CTx p dl /\ mcur s = Some p /\ mnow s < dl) \/ (forall k, held_class (rr_cfg r fl) s k = []).
Proof. exact rr_work_conserving. Qed.
Print Assumptions C12_rr_work_conserving.

Theorem C12_rr_one_at_a_time_tx_time : forall (r : Q) (fl : list Z) acts s tr,
  0 < r ->
  rr_run r fl acts = Some (s, tr) -> tx_wf (rr_cfg r fl) None tr.
Proof. exact rr_one_at_a_time_tx_time. Qed.
Print Assumptions C12_rr_one_at_a_time_tx_time.

Theorem C12_rr_back_to_back : forall (r : Q) (fl : list Z) acts1 s1 tr1 s2 o acts2 s3 tr2 t x,
  0 < r ->
  rr_run r fl acts1 = Some (s1, tr1) -> rr_act r fl s1 SChildTimer = Some (s2, o) -> (exists k, held_class (rr_cfg r fl) s2 k <> []) ->
  mq_run (rr_cfg r fl) s2 acts2 = Some (s3, tr2) -> (forall t', ~ In (SAdvance t') acts2) -> rr_act r fl s3 (SAdvance t) = Some x ->
  exists e p, In e tr2 /\ In (OStart p) (snd e) /\ fst (fst e) = mnow s2.
Proof. exact rr_back_to_back. Qed.
Print Assumptions C12_rr_back_to_back.

Theorem C12_rr_flow_fifo : forall (r : Q) (fl : list Z) acts s tr f,
  0 < r ->
  rr_run r fl acts = Some (s, tr) ->
  exists rest, filter (is_flow f) (tr_puts tr) = filter (is_flow f) (tr_fwds tr) ++ rest.
Proof. exact rr_flow_fifo. Qed.
Print Assumptions C12_rr_flow_fifo.

Theorem C12_rr_exactly_once : forall (r : Q) (fl : list Z) acts s tr p,
  0 < r ->
  rr_run r fl acts = Some (s, tr) ->
  count_occ pkt_eq_dec (tr_puts tr) p
  = (count_occ pkt_eq_dec (tr_fwds tr) p + count_occ pkt_eq_dec (held_class (rr_cfg r fl) s ((flow p))) p)%nat.
Proof. exact rr_exactly_once. Qed.
Print Assumptions C12_rr_exactly_once.

Theorem C12_rr_counters : forall (r : Q) (fl : list Z) acts s tr,
  0 < r ->
  rr_run r fl acts = Some (s, tr) ->
  (forall f, mqc s f = Z.of_nat (length (held_flow (rr_cfg r fl) s f)) /\ mqb s f = sumsz (held_flow (rr_cfg r fl) s f))
  /\ mtotal s = zsum (fun k => Z.of_nat (length (held_class (rr_cfg r fl) s k))) (dclasses (rr_cfg r fl))
  /\ mcur s = match mchild s with CTx p _ => Some p | _ => None end
  /\ mrecv s = Z.of_nat (length (tr_puts tr)).
Proof. exact rr_counters. Qed.
Print Assumptions C12_rr_counters.

Theorem C12_rr_never_spins : forall (r : Q) (fl : list Z) acts s tr,
  0 < r ->
  rr_run r fl acts = Some (s, tr) -> mpc s <> PSpin.
Proof. exact rr_never_spins. Qed.
Print Assumptions C12_rr_never_spins.

Theorem C12_rr_monitor_samples : forall (r : Q) (fl : list Z) acts s tr incl,
  0 < r ->
  rr_run r fl acts = Some (s, tr) ->
  rr_act r fl s (SSample incl) =
    Some (s, [OSample (map (fun f => let l := if incl then held_flow (rr_cfg r fl) s f else waiting_flow (rr_cfg r fl) s f in
                                     (f, Z.of_nat (length l), sumsz l)) (sflows (rr_cfg r fl)))]).
Proof. exact rr_monitor_samples. Qed.
Print Assumptions C12_rr_monitor_samples.

(* ================= WRR ================= *)
Theorem C12_wrr_work_conserving : forall (r : Q) (ws : list (Z * Z)) acts s tr t x,
  0 < r -> (forall f w, In (f, w) ws -> (0 < w)%Z) ->
  wrr_run r ws acts = Some (s, tr) -> wrr_act r ws s (SAdvance t) = Some x ->
  (exists p dl, mchild s = CTx p dl /\ mcur s = Some p /\ mnow s < dl) \/ (forall k, held_class (wrr_cfg r ws) s k = []).
Proof. exact wrr_work_conserving. Qed.
Print Assumptions C12_wrr_work_conserving.

Theorem C12_wrr_one_at_a_time_tx_time : forall (r : Q) (ws : list (Z * Z)) acts s tr,
  0 < r ->
  wrr_run r ws acts = Some (s, tr) -> tx_wf (wrr_cfg r ws) None tr.
Proof. exact wrr_one_at_a_time_tx_time. Qed.
Print Assumptions C12_wrr_one_at_a_time_tx_time.

Theorem C12_wrr_back_to_back : forall (r : Q) (ws : list (Z * Z)) acts1 s1 tr1 s2 o acts2 s3 tr2 t x,
  0 < r -> (forall f w, In (f, w) ws -> (0 < w)%Z) ->
  wrr_run r ws acts1 = Some (s1, tr1) -> wrr_act r ws s1 SChildTimer = Some (s2, o) -> (exists k, held_class (wrr_cfg r ws) s2 k <> []) ->
  mq_run (wrr_cfg r ws) s2 acts2 = Some (s3, tr2) -> (forall t', ~ In (SAdvance t') acts2) -> wrr_act r ws s3 (SAdvance t) = Some x ->
  exists e p, In e tr2 /\ In (OStart p) (snd e) /\ fst (fst e) = mnow s2.
Proof. exact wrr_back_to_back. Qed.
Print Assumptions C12_wrr_back_to_back.

Theorem C12_wrr_flow_fifo : forall (r : Q) (ws : list (Z * Z)) acts s tr f,
  0 < r ->
  wrr_run r ws acts = Some (s, tr) ->
  exists rest, filter (is_flow f) (tr_puts tr) = filter (is_flow f) (tr_fwds tr) ++ rest.
Proof. exact wrr_flow_fifo. Qed.
Print Assumptions C12_wrr_flow_fifo.

Theorem C12_wrr_exactly_once : forall (r : Q) (ws : list (Z * Z)) acts s tr p,
  0 < r ->
  wrr_run r ws acts = Some (s, tr) ->
  count_occ pkt_eq_dec (tr_puts tr) p
  = (count_occ pkt_eq_dec (tr_fwds tr) p + count_occ pkt_eq_dec (held_class (wrr_cfg r ws) s ((flow p))) p)%nat.
Proof. exact wrr_exactly_once. Qed.
Print Assumptions C12_wrr_exactly_once.

Theorem C12_wrr_counters : forall (r : Q) (ws : list (Z * Z)) acts s tr,
  0 < r ->
  wrr_run r ws acts = Some (s, tr) ->
  (forall f, mqc s f = Z.of_nat (length (held_flow (wrr_cfg r ws) s f)) /\ mqb s f = sumsz (held_flow (wrr_cfg r ws) s f))
  /\ mtotal s = zsum (fun k => Z.of_nat (length (held_class (wrr_cfg r ws) s k))) (dclasses (wrr_cfg r ws))
  /\ mcur s = match mchild s with CTx p _ => Some p | _ => None end
  /\ mrecv s = Z.of_nat (length (tr_puts tr)).
Proof. exact wrr_counters. Qed.
Print Assumptions C12_wrr_counters.

Theorem C12_wrr_never_spins : forall (r : Q) (ws : list (Z * Z)) acts s tr,
  0 < r -> (forall f w, In (f, w) ws -> (0 < w)%Z) ->
  wrr_run r ws acts = Some (s, tr) -> mpc s <> PSpin.
Proof. exact wrr_never_spins. Qed.
Print Assumptions C12_wrr_never_spins.

Theorem C12_wrr_monitor_samples : forall (r : Q) (ws : list (Z * Z)) acts s tr incl,
  0 < r ->
  wrr_run r ws acts = Some (s, tr) ->
  wrr_act r ws s (SSample incl) =
    Some (s, [OSample (map (fun f => let l := if incl then held_flow (wrr_cfg r ws) s f else waiting_flow (wrr_cfg r ws) s f in
                                     (f, Z.of_nat (length l), sumsz l)) (sflows (wrr_cfg r ws)))]).
Proof. exact wrr_monitor_samples. Qed.
Print Assumptions C12_wrr_monitor_samples.
