(* C08 -- packet conservation: the share of SP, RR, WRR.  Only statements + exact + assumptions. *)
From Coq Require Import ZArith QArith List.
From ONL Require Import Elem.Packet Elem.StoreQ Elem.SchedBase Elem.SchedBaseProofs Elem.SP Elem.SPProofs Elem.RR Elem.RRProofs Elem.WRR Elem.WRRProofs.
Import ListNotations.

(* ================= SP ================= *)
(* forwarded packets of one flow are in arrival order *)
Theorem C08_sp_flow_fifo : forall (r : Q) (cm : Z -> Z) (fl : list Z) (tbl : list (Z * Z)) acts s tr f,
  0 < r ->
  sp_run r cm fl tbl acts = Some (s, tr) ->
  exists rest, filter (is_flow f) (tr_puts tr) = filter (is_flow f) (tr_fwds tr) ++ rest.
Proof. exact sp_flow_fifo. Qed.
Print Assumptions C08_sp_flow_fifo.

(* per class and per flow, as lists in order: packets put in = packets forwarded ++ packets held (hence as multisets over all flows; each forwarded packet is the very record that was put in); only packets whose class is configured are accepted *)
Theorem C08_sp_conserves : forall (r : Q) (cm : Z -> Z) (fl : list Z) (tbl : list (Z * Z)) acts s tr,
  0 < r ->
  sp_run r cm fl tbl acts = Some (s, tr) ->
  (forall k, filter (is_class (sp_cfg true r cm fl tbl) k) (tr_puts tr) = filter (is_class (sp_cfg true r cm fl tbl) k) (tr_fwds tr) ++ held_class (sp_cfg true r cm fl tbl) s k)
  /\ (forall f, filter (is_flow f) (tr_puts tr) = filter (is_flow f) (tr_fwds tr) ++ held_flow (sp_cfg true r cm fl tbl) s f)
  /\ (forall p, In p (tr_puts tr) -> In (cm (flow p)) (classes (sp_cfg true r cm fl tbl))).
Proof. exact sp_conserves. Qed.
Print Assumptions C08_sp_conserves.

(* in a state with nothing enabled and no deadline nothing is held, all counters are 0, everything put in was forwarded, and the loop is not in its error state *)
Theorem C08_sp_drained : forall (r : Q) (cm : Z -> Z) (fl : list Z) (tbl : list (Z * Z)) acts s tr,
  0 < r -> (forall k p, In (k, p) tbl -> (0 < p)%Z) ->
  sp_run r cm fl tbl acts = Some (s, tr) -> urgent (sp_cfg true r cm fl tbl) s = false -> (forall p dl, mchild s <> CTx p dl) ->
  (forall k, held_class (sp_cfg true r cm fl tbl) s k = []) /\ (forall f, mqc s f = 0%Z /\ mqb s f = 0%Z) /\ mcur s = None /\
  (forall f, filter (is_flow f) (tr_puts tr) = filter (is_flow f) (tr_fwds tr)) /\ mpc s <> PSpin.
Proof. exact sp_drained. Qed.
Print Assumptions C08_sp_drained.

(* ================= RR ================= *)
Theorem C08_rr_flow_fifo : forall (r : Q) (fl : list Z) acts s tr f,
  0 < r ->
  rr_run r fl acts = Some (s, tr) ->
  exists rest, filter (is_flow f) (tr_puts tr) = filter (is_flow f) (tr_fwds tr) ++ rest.
Proof. exact rr_flow_fifo. Qed.
Print Assumptions C08_rr_flow_fifo.

Theorem C08_rr_conserves : forall (r : Q) (fl : list Z) acts s tr,
  0 < r ->
  rr_run r fl acts = Some (s, tr) ->
  (forall k, filter (is_class (rr_cfg r fl) k) (tr_puts tr) = filter (is_class (rr_cfg r fl) k) (tr_fwds tr) ++ held_class (rr_cfg r fl) s k)
  /\ (forall f, filter (is_flow f) (tr_puts tr) = filter (is_flow f) (tr_fwds tr) ++ held_flow (rr_cfg r fl) s f)
  /\ (forall p, In p (tr_puts tr) -> In ((flow p)) (classes (rr_cfg r fl))).
Proof. exact rr_conserves. Qed.
Print Assumptions C08_rr_conserves.

Theorem C08_rr_drained : forall (r : Q) (fl : list Z) acts s tr,
  0 < r ->
  rr_run r fl acts = Some (s, tr) -> urgent (rr_cfg r fl) s = false -> (forall p dl, mchild s <> CTx p dl) ->
  (forall k, held_class (rr_cfg r fl) s k = []) /\ (forall f, mqc s f = 0%Z /\ mqb s f = 0%Z) /\ mcur s = None /\
  (forall f, filter (is_flow f) (tr_puts tr) = filter (is_flow f) (tr_fwds tr)) /\ mpc s <> PSpin.
Proof. exact rr_drained. Qed.
Print Assumptions C08_rr_drained.

(* ================= WRR ================= *)
Theorem C08_wrr_flow_fifo : forall (r : Q) (ws : list (Z * Z)) acts s tr f,
  0 < r ->
  wrr_run r ws acts = Some (s, tr) ->
  exists rest, filter (is_flow f) (tr_puts tr) = filter (is_flow f) (tr_fwds tr) ++ rest.
Proof. exact wrr_flow_fifo. Qed.
Print Assumptions C08_wrr_flow_fifo.

Theorem C08_wrr_conserves : forall (r : Q) (ws : list (Z * Z)) acts s tr,
  0 < r ->
  wrr_run r ws acts = Some (s, tr) ->
  (forall k, filter (is_class (wrr_cfg r ws) k) (tr_puts tr) = filter (is_class (wrr_cfg r ws) k) (tr_fwds tr) ++ held_class (wrr_cfg r ws) s k)
  /\ (forall f, filter (is_flow f) (tr_puts tr) = filter (is_flow f) (tr_fwds tr) ++ held_flow (wrr_cfg r ws) s f)
  /\ (forall p, In p (tr_puts tr) -> In ((flow p)) (classes (wrr_cfg r ws))).
Proof. exact wrr_conserves. Qed.
Print Assumptions C08_wrr_conserves.

Theorem C08_wrr_drained : forall (r : Q) (ws : list (Z * Z)) acts s tr,
  0 < r -> (forall f w, In (f, w) ws -> (0 < w)%Z) ->
  wrr_run r ws acts = Some (s, tr) -> urgent (wrr_cfg r ws) s = false -> (forall p dl, mchild s <> CTx p dl) ->
  (forall k, held_class (wrr_cfg r ws) s k = []) /\ (forall f, mqc s f = 0%Z /\ mqb s f = 0%Z) /\ mcur s = None /\
  (forall f, filter (is_flow f) (tr_puts tr) = filter (is_flow f) (tr_fwds tr)) /\ mpc s <> PSpin.
Proof. exact wrr_drained. Qed.
Print Assumptions C08_wrr_drained.
