(* C10 -- placeholder until WireProofs.v lands: no theorem yet (the check then reports 0 obligations). *)
From ONL Require Import Elem.Wire.
