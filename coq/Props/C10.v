(* C10 -- a wire delays each packet by its drawn delay, keeps order, loses only by rate; a cable is two
   independent wires.  Only statements, closed by the lemma that proves them, and their assumptions.

   Vocabulary (Elem/Wire.v): an execution is any action list accepted by wire_run from wire0 t0 (every
   interleaving of puts and kernel steps inside an instant); its trace tr gives arrivals tr (WPut entries
   with their instants), draws tr ((u, d) of the WGet entries), tgets tr (instants of the WGet entries),
   tdeliv tr / tlost tr (timed deliveries / losses).  wire_rec is the property's recurrence:
   F_0 = t0, s_k = max(a_k, F_(k-1)); lost iff loss_rate truthy and u_k < loss_rate, then F_k = s_k;
   otherwise delivered at T_k = deliver_at s_k a_k d_k (= max(a_k + d_k, F_(k-1)) for d_k >= 0), F_k = T_k. *)
From Coq Require Import ZArith QArith Qminmax List Bool Sorted.
From ONL Require Import Elem.Packet Elem.StoreQ Elem.Wire Elem.WireProofs Elem.Cable Elem.CableProofs.
Import ListNotations.

(* The core: for every loss configuration, every admissible execution and all draws, the recurrence is
   defined on the trace's arrivals and draws (one outcome per WGet); the k-th WGet concerns the k-th
   arrival (FIFO) and happens at s_k; the reported losses are the recurrence's; the timed deliveries are
   exactly the recurrence's deliveries, in order, minus at most the packet still propagating, whose
   stored deadline equals its T_k. *)
Theorem C10_wire_spec : forall loss t0 acts w tr,
  wire_run loss (wire0 t0) acts = Some (w, tr) ->
  exists R, wire_rec loss t0 (arrivals tr) (draws tr) = Some R
    /\ arrivals tr = map o_ap R ++ sq_held (wq w)
    /\ Forall2 Qeq (tgets tr) (map o_start R)
    /\ tp_equiv (tlost tr) (exp_lost R)
    /\ match hold w with
       | None => tp_equiv (tdeliv tr) (exp_deliv R)
       | Some (p, dl) =>
           exists R' o T, R = R' ++ [o] /\ o_pkt o = p /\ o_fate o = Deliv T /\ T == dl /\
                          tp_equiv (tdeliv tr) (exp_deliv R')
       end.
Proof. exact wire_spec. Qed.
Print Assumptions C10_wire_spec.

(* Every delivery seen in the trace (instant t, packet p): p is the i-th arrival (instant a), its draws
   gave the delay dd; t is never before a + dd; for dd >= 0, t = max(a + dd, completion of packet i-1). *)
Theorem C10_wire_delivery_time : forall loss t0 acts w tr,
  wire_run loss (wire0 t0) acts = Some (w, tr) ->
  forall R, wire_rec loss t0 (arrivals tr) (draws tr) = Some R ->
  forall k t p, nth_error (tdeliv tr) k = Some (t, p) ->
  exists i a u dd,
    nth_error (arrivals tr) i = Some (a, p) /\ nth_error (draws tr) i = Some (u, Some dd) /\
    a + dd <= t /\
    (0 <= dd -> t == Qmax (a + dd) (last_fin t0 (firstn i R))) /\
    t == deliver_at (Qmax a (last_fin t0 (firstn i R))) a dd.
Proof. exact wire_delivery_time. Qed.
Print Assumptions C10_wire_delivery_time.

(* Deliveries are never reordered: the delivered packets are, in order, a subsequence of the packets put
   in; and delivery instants never decrease. *)
Theorem C10_wire_fifo : forall loss t0 acts w tr,
  wire_run loss (wire0 t0) acts = Some (w, tr) ->
  subseq (map snd (tdeliv tr)) (map snd (arrivals tr)).
Proof. exact wire_fifo. Qed.
Print Assumptions C10_wire_fifo.

Theorem C10_wire_delivery_instants_sorted : forall loss t0 acts w tr,
  wire_run loss (wire0 t0) acts = Some (w, tr) ->
  StronglySorted (fun x y : Q * pkt => fst x <= fst y) (tdeliv tr).
Proof. exact wire_delivery_instants_sorted. Qed.
Print Assumptions C10_wire_delivery_instants_sorted.

(* Loss rate None or 0: nothing is lost and the packets put in are, as a list in arrival order, the
   packets delivered followed by the packets still inside: each exactly once. *)
Theorem C10_wire_no_loss_exactly_once : forall loss t0 acts w tr,
  (loss = None \/ exists r, loss = Some r /\ r == 0) ->
  wire_run loss (wire0 t0) acts = Some (w, tr) ->
  tlost tr = [] /\ map snd (arrivals tr) = map snd (tdeliv tr) ++ wheld w.
Proof. exact wire_no_loss_exactly_once. Qed.
Print Assumptions C10_wire_no_loss_exactly_once.

(* A packet reported lost is never delivered and is not inside any more (distinct packets put in). *)
Theorem C10_wire_lost_never_delivered : forall loss t0 acts w tr,
  wire_run loss (wire0 t0) acts = Some (w, tr) ->
  NoDup (map uid (map snd (arrivals tr))) ->
  forall t p, In (t, p) (tlost tr) -> ~ In p (map snd (tdeliv tr)) /\ ~ In p (wheld w).
Proof. exact wire_lost_never_delivered. Qed.
Print Assumptions C10_wire_lost_never_delivered.

(* A lost packet delays nobody: the next packet is dequeued at max(its arrival, the lost packet's
   dequeue instant), in the recurrence and at the instants of the trace's WGet entries. *)
Theorem C10_wire_lost_delays_nobody : forall loss t0 acts w tr,
  wire_run loss (wire0 t0) acts = Some (w, tr) ->
  forall R, wire_rec loss t0 (arrivals tr) (draws tr) = Some R ->
  forall i o o', nth_error R i = Some o -> o_fate o = Lost -> nth_error R (S i) = Some o' ->
    o_start o' = Qmax (o_arr o') (o_start o) /\
    exists ti ti', nth_error (tgets tr) i = Some ti /\ nth_error (tgets tr) (S i) = Some ti' /\
                   ti == o_start o /\ ti' == Qmax (o_arr o') ti.
Proof. exact wire_lost_delays_nobody. Qed.
Print Assumptions C10_wire_lost_delays_nobody.

(* Lost iff the loss rate is truthy and the uniform draw is below it. *)
Theorem C10_wire_loss_iff : forall loss t0 acts w tr,
  wire_run loss (wire0 t0) acts = Some (w, tr) ->
  forall R, wire_rec loss t0 (arrivals tr) (draws tr) = Some R ->
  tp_equiv (tlost tr) (exp_lost R) /\
  forall i o, nth_error R i = Some o ->
    exists u d, nth_error (draws tr) i = Some (u, d) /\
      (o_fate o = Lost <-> exists r x, loss = Some r /\ ~ r == 0 /\ u = Some x /\ x < r).
Proof. exact wire_loss_iff. Qed.
Print Assumptions C10_wire_loss_iff.

(* Never held longer: in every reachable state a pending deadline has not been passed, the clock cannot
   be advanced beyond it, and whenever the clock may advance the server is propagating a packet or the
   wire holds nothing (work conservation). *)
Theorem C10_wire_never_late : forall loss t0 w,
  (exists acts tr, wire_run loss (wire0 t0) acts = Some (w, tr)) ->
  (forall p dl, hold w = Some (p, dl) -> wnow w <= dl) /\
  (forall t w' outs, wire_act loss w (WAdvance t) = Some (w', outs) ->
     wnow w < t /\ (forall p dl, hold w = Some (p, dl) -> t <= dl) /\ (hold w <> None \/ wheld w = [])) /\
  (forall p dl t, hold w = Some (p, dl) -> dl < t -> wire_act loss w (WAdvance t) = None).
Proof. exact wire_never_late. Qed.
Print Assumptions C10_wire_never_late.

(* A cable is two independent wires.  An action of one direction leaves the other direction's state
   untouched, hands packets only to the device at its far end, and is that wire's own action; ... *)
Theorem C10_cable_independent_frame : forall loss c d a c' outs,
  cable_act loss c (CA d a) = Some (c', outs) ->
  cget c' (other d) = cget c (other d) /\
  Forall (fun o : cout => fst o = dir_dest d) outs /\
  wire_act loss (cget c d) a = Some (cget c' d, map snd outs).
Proof. exact cable_frame. Qed.
Print Assumptions C10_cable_independent_frame.

(* ... what one direction sees of ANY cable execution is an admissible execution of a single wire with
   the same states, instants and outputs (so all theorems above hold per direction); ... *)
Theorem C10_cable_independent : forall loss d acts c c' tr,
  cable_run loss c acts = Some (c', tr) ->
  wire_run loss (cget c d) (proj_acts d acts) = Some (cget c' d, proj_tr d tr).
Proof. exact cable_projection. Qed.
Print Assumptions C10_cable_independent.

(* ... actions of the two directions commute; ... *)
Theorem C10_cable_commute : forall loss c a b c1 o1 c2 o2,
  cable_act loss c (CA D1 a) = Some (c1, o1) -> cable_act loss c1 (CA D2 b) = Some (c2, o2) ->
  exists c1', cable_act loss c (CA D2 b) = Some (c1', o2) /\ cable_act loss c1' (CA D1 a) = Some (c2, o1).
Proof. exact cable_commute. Qed.
Print Assumptions C10_cable_commute.

(* ... and set_endpoints wires dev1 -> wire1 -> dev2 and dev2 -> wire2 -> dev1: every output of
   direction d is handed to the device at the far end. *)
Theorem C10_cable_wiring :
  cable_out Dev1 = NW1 /\ cable_out NW1 = Dev2 /\ cable_out Dev2 = NW2 /\ cable_out NW2 = Dev1 /\
  dir_dest D1 = Dev2 /\ dir_dest D2 = Dev1 /\
  (forall d, cable_out (dir_source d) = wire_node d /\ dir_dest d = dir_source (other d)).
Proof. exact cable_wiring. Qed.
Print Assumptions C10_cable_wiring.

Theorem C10_cable_outputs_go_across : forall loss acts c c' tr,
  cable_run loss c acts = Some (c', tr) ->
  Forall (fun e : ctev => match e with
                          | (_, CA d _, outs) => Forall (fun o : cout => fst o = dir_dest d) outs
                          | (_, CAdvance _, outs) => outs = []
                          end) tr.
Proof. exact cable_outputs_go_across. Qed.
Print Assumptions C10_cable_outputs_go_across.
