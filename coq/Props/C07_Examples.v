(* C07 -- NON-VACUITY of the theorems of Props/C07.v (and Props/C07_Bridge.v).

   "Beside each theorem prove an Example that a concrete non-trivial state meets its hypotheses; an implication no
   reachable state satisfies means nothing."  Every theorem below instantiates ALL hypotheses of one or several
   theorems of Props/C07.v at closed terms -- one history per kind of resource, each with blocked puts, blocked gets,
   coinciding operations, clock advances, and (Container) a cancel that lets the next request through -- proves them
   together, and states the concrete content of the instantiated conclusions (level, items held, grant log, who
   waits), obtained by running the model and by applying the very lemmas that close the theorems.
   All histories run the repaired code (fixed = true), so they also witness the theorems stated for both variants.

   Coverage (hypothesis-carrying theorems of Props/C07.v -> witness):
     C07_level_bounds, C07_level_conservation, C07_triggered_at_most_once, C07_puts_fcfs     -> C07_ex_container
     C07_heads_blocked_at_advance (gblock = true), C07_heads_blocked_container               -> C07_ex_container_advance
     C07_store_bounded, C07_delivered_exactly_once_store, C07_store_fifo, C07_gets_fcfs      -> C07_ex_store
     C07_heads_blocked_store                                                                 -> C07_ex_store_advance
     C07_prio_store_bounded, C07_delivered_exactly_once_prio, C07_prio_store_min             -> C07_ex_prio
     C07_heads_blocked_prio                                                                  -> C07_ex_prio_advance
     C07_filter_store_bounded, C07_delivered_exactly_once_filter, C07_filter_put_ids_exactly_once,
       C07_filter_store_first_match, C07_filter_store_put_appends                            -> C07_ex_filter
     C07_filter_overtake_only_nonmatching                                                    -> C07_ex_filter_overtake
     C07_heads_blocked_filter, C07_heads_blocked_at_advance (gblock = false)                 -> C07_ex_filter_advance
     C07_heappop_min_and_multiset, C07_heappush_multiset                                     -> C07_ex_heap
   Already witnesses (existential statements): C07_store_bounded_refuted_before_fix,
     C07_filter_delivered_once_refuted_before_fix, C07_heads_blocked_refuted_before_fix.
   Unconditional (nothing to witness): C07_laws_container, C07_laws_store, C07_laws_prio, C07_laws_filter;
     C07_heap_total (its only premise, h <> [], sits inside the conclusion; C07_ex_heap has such an h);
     all of Props/C07_Bridge.v (C07_gen_container_do_put, C07_gen_container_do_get, C07_gen_store_do_put,
     C07_gen_store_do_get, C07_gen_pstore_do_put, C07_gen_pstore_do_get: equations for all arguments). *)
From Coq Require Import ZArith QArith List Bool Arith Sorted Permutation Lia.
From ONL Require Import Res.Heap Res.HeapProofs Res.ContainerStore Res.ContainerStoreProofs
                        Res.ContainerProofs Res.StoreProofs.
Import ListNotations.
Local Open Scope nat_scope.

(* ================================================================================================================ *)
(* Container(capacity 10, init 5).
     t=0  put(4) -> request 0 granted, level 9      put(3) -> request 1 waits (room 1)
          put(1) -> request 2 waits BEHIND request 1 although it would fit (first come first served)
          get(12) -> request 3 waits                the kernel processes the event of request 0
     t=1  get(2) -> request 4 waits behind request 3 although the level suffices
          request 3 is cancelled -> rescan: request 4 granted, level 7
          its event is processed -> rescan of the puts: request 1 granted, level 10; request 2 (amount 1) still blocked
          the event of request 1 is processed
     t=2                                                                                                          *)
Definition C07_KCo : kind := Container (Some 10%Q).
Definition C07_ex_co_acts : list (action C07_KCo) :=
  [ APut (K:=C07_KCo) 4%Q; APut (K:=C07_KCo) 3%Q; APut (K:=C07_KCo) 1%Q; AGet (K:=C07_KCo) 12%Q; AProcess (K:=C07_KCo) 0;
    AAdvance (K:=C07_KCo) 1%Q; AGet (K:=C07_KCo) 2%Q; ACancel (K:=C07_KCo) 3; AProcess (K:=C07_KCo) 4;
    AProcess (K:=C07_KCo) 1; AAdvance (K:=C07_KCo) 2%Q ].
Definition C07_ex_co_end : state C07_KCo :=
  mkst (K:=C07_KCo) 10%Q [(2, 1%Q)] [] [] [GPut (K:=C07_KCo) 0 4%Q; GGet (K:=C07_KCo) 4 2%Q tt; GPut (K:=C07_KCo) 1 3%Q] 5 2%Q.
(* the state at the end of instant 0 (after the first five actions) *)
Definition C07_ex_co_t0 : state C07_KCo :=
  mkst (K:=C07_KCo) 9%Q [(1, 3%Q); (2, 1%Q)] [(3, 12%Q)] [] [GPut (K:=C07_KCo) 0 4%Q] 4 0%Q.

(* hypotheses: `0 <= init_level <= cap`, `run fixed (init init_level t0) acts = Some s`, `laws K gblock`
   covers C07_level_bounds, C07_level_conservation, C07_triggered_at_most_once, C07_puts_fcfs *)
Theorem C07_ex_container :
  ((0 <= 5)%Q /\ (5 <= 10)%Q)
  /\ run true (init (K:=C07_KCo) 5%Q 0%Q) C07_ex_co_acts = Some C07_ex_co_end
  /\ laws C07_KCo true
  (* what the theorems say here *)
  /\ ((0 <= content C07_ex_co_end)%Q /\ (content C07_ex_co_end <= 10)%Q)
  /\ (content C07_ex_co_end == 5 + put_sum (log C07_ex_co_end) - get_sum (log C07_ex_co_end))%Q
  /\ (put_sum (log C07_ex_co_end) == 7)%Q /\ (get_sum (log C07_ex_co_end) == 2)%Q
  /\ NoDup (map grant_id (log C07_ex_co_end))
  /\ StronglySorted lt (put_ids C07_KCo (log C07_ex_co_end) ++ ids (putq C07_ex_co_end))
  /\ put_ids C07_KCo (log C07_ex_co_end) ++ ids (putq C07_ex_co_end) = [0; 1; 2].
Proof.
  assert (H0 : (0 <= 5)%Q /\ (5 <= 10)%Q) by (split; unfold Qle; simpl; lia).
  assert (Hr : run true (init (K:=C07_KCo) 5%Q 0%Q) C07_ex_co_acts = Some C07_ex_co_end) by (vm_compute; reflexivity).
  assert (L : laws C07_KCo true) by exact (container_laws _).
  split; [exact H0|]. split; [exact Hr|]. split; [exact L|].
  split; [exact (level_bounds (Some 10%Q) true C07_ex_co_acts 5%Q 0%Q C07_ex_co_end H0 Hr)|].
  split; [exact (level_conservation (Some 10%Q) true C07_ex_co_acts 5%Q 0%Q C07_ex_co_end Hr)|].
  split; [vm_compute; reflexivity|]. split; [vm_compute; reflexivity|].
  split; [exact (proj1 (triggered_once C07_KCo true C07_ex_co_acts 5%Q 0%Q C07_ex_co_end Hr))|].
  split; [exact (puts_fcfs_generic C07_KCo true L true C07_ex_co_acts 5%Q 0%Q C07_ex_co_end Hr)|].
  reflexivity.
Qed.
Print Assumptions C07_ex_container.

(* hypotheses: `laws K gblock`, `run true (init c0 t0) acts = Some s`, `step true s (AAdvance t) = Some s'`
   covers C07_heads_blocked_at_advance (gblock = true), C07_heads_blocked_container.
   At the end of instant 0 both queues are non-empty and the clock may move: the oldest put (3) exceeds the room
   10 - 9, the oldest get (12) exceeds the level 9. *)
Theorem C07_ex_container_advance :
  laws C07_KCo true
  /\ run true (init (K:=C07_KCo) 5%Q 0%Q) (firstn 5 C07_ex_co_acts) = Some C07_ex_co_t0
  /\ step true C07_ex_co_t0 (AAdvance (K:=C07_KCo) 1%Q)
     = Some (mkst (K:=C07_KCo) 9%Q [(1, 3%Q); (2, 1%Q)] [(3, 12%Q)] [] [GPut (K:=C07_KCo) 0 4%Q] 4 1%Q)
  (* conclusions *)
  /\ putq C07_ex_co_t0 = (1, 3%Q) :: [(2, 1%Q)] /\ (10 - content C07_ex_co_t0 < 3)%Q
  /\ getq C07_ex_co_t0 = (3, 12%Q) :: [] /\ (content C07_ex_co_t0 < 12)%Q
  /\ r_val (k_do_put C07_KCo (content C07_ex_co_t0) 3%Q) = None
  /\ r_val (k_do_get C07_KCo (content C07_ex_co_t0) 12%Q) = None.
Proof.
  assert (Hr : run true (init (K:=C07_KCo) 5%Q 0%Q) (firstn 5 C07_ex_co_acts) = Some C07_ex_co_t0) by (vm_compute; reflexivity).
  assert (Hs : step true C07_ex_co_t0 (AAdvance (K:=C07_KCo) 1%Q)
               = Some (mkst (K:=C07_KCo) 9%Q [(1, 3%Q); (2, 1%Q)] [(3, 12%Q)] [] [GPut (K:=C07_KCo) 0 4%Q] 4 1%Q)) by (vm_compute; reflexivity).
  split; [exact (container_laws _)|]. split; [exact Hr|]. split; [exact Hs|].
  destruct (container_heads_blocked (Some 10%Q) _ 5%Q 0%Q _ _ _ Hr Hs) as [Hp Hg].
  split; [reflexivity|]. split; [exact (Hp 1 3%Q [(2, 1%Q)] eq_refl)|].
  split; [reflexivity|]. split; [exact (Hg 3 12%Q [] eq_refl)|].
  destruct (heads_blocked_at_advance C07_KCo true (container_laws _) _ 5%Q 0%Q _ _ _ Hr Hs) as [Hp' Hg'].
  split; [exact Hp'|exact Hg'].
Qed.
Print Assumptions C07_ex_container_advance.

(* ================================================================================================================ *)
(* Store(capacity 5/2) of integers.
     t=0  put 10, put 20 accepted; put 30 (request 2) waits: 2 + 1 > 5/2      events 0, 1 processed
     t=1  get (request 3) receives 10; its event is processed -> request 2 accepted; its event processed
          get (request 4) receives 20; processed
     t=2  [extension] get (request 5) receives 30, get (request 6) waits on the empty store; event 5 processed   *)
Definition C07_KSt : kind := Store Z (Some (5 # 2)%Q).
Definition C07_ex_st_acts : list (action C07_KSt) :=
  [ APut (K:=C07_KSt) 10%Z; APut (K:=C07_KSt) 20%Z; APut (K:=C07_KSt) 30%Z; AProcess (K:=C07_KSt) 0; AProcess (K:=C07_KSt) 1;
    AAdvance (K:=C07_KSt) 1%Q; AGet (K:=C07_KSt) tt; AProcess (K:=C07_KSt) 3; AProcess (K:=C07_KSt) 2;
    AGet (K:=C07_KSt) tt; AProcess (K:=C07_KSt) 4; AAdvance (K:=C07_KSt) 2%Q ].
Definition C07_ex_st_acts2 : list (action C07_KSt) :=
  C07_ex_st_acts ++ [ AGet (K:=C07_KSt) tt; AGet (K:=C07_KSt) tt; AProcess (K:=C07_KSt) 5 ].
Definition C07_ex_st_end : state C07_KSt :=
  mkst (K:=C07_KSt) [30%Z] [] [] [] [GPut (K:=C07_KSt) 0 10%Z; GPut (K:=C07_KSt) 1 20%Z; GGet (K:=C07_KSt) 3 tt 10%Z; GPut (K:=C07_KSt) 2 30%Z; GGet (K:=C07_KSt) 4 tt 20%Z] 5 2%Q.
Definition C07_ex_st_end2 : state C07_KSt :=
  mkst (K:=C07_KSt) [] [] [(6, tt)] []
       [GPut (K:=C07_KSt) 0 10%Z; GPut (K:=C07_KSt) 1 20%Z; GGet (K:=C07_KSt) 3 tt 10%Z; GPut (K:=C07_KSt) 2 30%Z; GGet (K:=C07_KSt) 4 tt 20%Z; GGet (K:=C07_KSt) 5 tt 30%Z] 7 2%Q.
Definition C07_ex_st_t0 : state C07_KSt :=
  mkst (K:=C07_KSt) [10%Z; 20%Z] [(2, 30%Z)] [] [] [GPut (K:=C07_KSt) 0 10%Z; GPut (K:=C07_KSt) 1 20%Z] 3 0%Q.

(* hypotheses: `cap_pos cap`, `run fixed (init [] t0) acts = Some s`, `laws K gblock`, `gblock = true`
   covers C07_store_bounded, C07_delivered_exactly_once_store, C07_store_fifo, C07_gets_fcfs *)
Theorem C07_ex_store :
  cap_pos (Some (5 # 2)%Q)
  /\ run true (init (K:=C07_KSt) [] 0%Q) C07_ex_st_acts = Some C07_ex_st_end
  /\ run true (init (K:=C07_KSt) [] 0%Q) C07_ex_st_acts2 = Some C07_ex_st_end2
  /\ laws C07_KSt true /\ true = true
  (* what the theorems say here *)
  /\ (inject_Z (Z.of_nat (length (content C07_ex_st_end))) <= 5 # 2)%Q
  /\ Permutation (accepted (K:=C07_KSt) (fun x => x) (log C07_ex_st_end))
                 (content C07_ex_st_end ++ delivered (K:=C07_KSt) (fun x => x) (log C07_ex_st_end))
  /\ accepted (K:=C07_KSt) (fun x => x) (log C07_ex_st_end)
     = delivered (K:=C07_KSt) (fun x => x) (log C07_ex_st_end) ++ content C07_ex_st_end
  /\ accepted (K:=C07_KSt) (fun x => x) (log C07_ex_st_end) = [10; 20; 30]%Z
  /\ delivered (K:=C07_KSt) (fun x => x) (log C07_ex_st_end) = [10; 20]%Z
  /\ StronglySorted lt (get_ids C07_KSt (log C07_ex_st_end2) ++ ids (getq C07_ex_st_end2))
  /\ get_ids C07_KSt (log C07_ex_st_end2) ++ ids (getq C07_ex_st_end2) = [3; 4; 5; 6].
Proof.
  assert (Hc : cap_pos (Some (5 # 2)%Q)) by (unfold cap_pos, Qlt; simpl; lia).
  assert (Hr : run true (init (K:=C07_KSt) [] 0%Q) C07_ex_st_acts = Some C07_ex_st_end) by (vm_compute; reflexivity).
  assert (Hr2 : run true (init (K:=C07_KSt) [] 0%Q) C07_ex_st_acts2 = Some C07_ex_st_end2) by (vm_compute; reflexivity).
  assert (L : laws C07_KSt true) by exact (store_laws _ _).
  split; [exact Hc|]. split; [exact Hr|]. split; [exact Hr2|]. split; [exact L|]. split; [reflexivity|].
  split; [exact (store_bounded Z (Some (5 # 2)%Q) Hc true C07_ex_st_acts 0%Q C07_ex_st_end Hr)|].
  split; [exact (store_delivered_once Z (Some (5 # 2)%Q) true C07_ex_st_acts 0%Q C07_ex_st_end Hr)|].
  split; [exact (store_fifo Z (Some (5 # 2)%Q) true C07_ex_st_acts 0%Q C07_ex_st_end Hr)|].
  split; [reflexivity|]. split; [reflexivity|].
  split; [exact (gets_fcfs_generic C07_KSt true L true C07_ex_st_acts2 [] 0%Q C07_ex_st_end2 eq_refl Hr2)|].
  reflexivity.
Qed.
Print Assumptions C07_ex_store.

(* hypotheses: `run true (init [] t0) acts = Some s`, `step true s (AAdvance t) = Some s'`
   covers C07_heads_blocked_store -- once with a waiting put (the store is full: 5/2 < 2 + 1), once with a waiting get
   (the store is empty) *)
Theorem C07_ex_store_advance :
  run true (init (K:=C07_KSt) [] 0%Q) (firstn 5 C07_ex_st_acts) = Some C07_ex_st_t0
  /\ step true C07_ex_st_t0 (AAdvance (K:=C07_KSt) 1%Q)
     = Some (mkst (K:=C07_KSt) [10%Z; 20%Z] [(2, 30%Z)] [] [] [GPut (K:=C07_KSt) 0 10%Z; GPut (K:=C07_KSt) 1 20%Z] 3 1%Q)
  /\ run true (init (K:=C07_KSt) [] 0%Q) C07_ex_st_acts2 = Some C07_ex_st_end2
  /\ step true C07_ex_st_end2 (AAdvance (K:=C07_KSt) 3%Q)
     = Some (mkst (K:=C07_KSt) [] [] [(6, tt)] [] (log C07_ex_st_end2) 7 3%Q)
  (* conclusions *)
  /\ putq C07_ex_st_t0 <> []
  /\ (exists c, Some (5 # 2)%Q = Some c /\ (c < inject_Z (Z.of_nat (length (content C07_ex_st_t0))) + 1)%Q)
  /\ getq C07_ex_st_end2 <> [] /\ content C07_ex_st_end2 = [].
Proof.
  assert (Hr : run true (init (K:=C07_KSt) [] 0%Q) (firstn 5 C07_ex_st_acts) = Some C07_ex_st_t0) by (vm_compute; reflexivity).
  assert (Hs : step true C07_ex_st_t0 (AAdvance (K:=C07_KSt) 1%Q)
     = Some (mkst (K:=C07_KSt) [10%Z; 20%Z] [(2, 30%Z)] [] [] [GPut (K:=C07_KSt) 0 10%Z; GPut (K:=C07_KSt) 1 20%Z] 3 1%Q)) by (vm_compute; reflexivity).
  assert (Hr2 : run true (init (K:=C07_KSt) [] 0%Q) C07_ex_st_acts2 = Some C07_ex_st_end2) by (vm_compute; reflexivity).
  assert (Hs2 : step true C07_ex_st_end2 (AAdvance (K:=C07_KSt) 3%Q)
     = Some (mkst (K:=C07_KSt) [] [] [(6, tt)] [] (log C07_ex_st_end2) 7 3%Q)) by (vm_compute; reflexivity).
  assert (Hp : putq C07_ex_st_t0 <> []) by discriminate.
  assert (Hg : getq C07_ex_st_end2 <> []) by discriminate.
  split; [exact Hr|]. split; [exact Hs|]. split; [exact Hr2|]. split; [exact Hs2|].
  split; [exact Hp|].
  split; [exact (proj1 (store_heads_blocked Z (Some (5 # 2)%Q) _ 0%Q _ _ _ Hr Hs) Hp)|].
  split; [exact Hg|].
  exact (proj2 (store_heads_blocked Z (Some (5 # 2)%Q) _ 0%Q _ _ _ Hr2 Hs2) Hg).
Qed.
Print Assumptions C07_ex_store_advance.

(* ================================================================================================================ *)
(* PriorityStore(capacity 3) of integers ordered by value.
     t=0  put 5, put 2, put 7 accepted (heap [2; 5; 7]); put 1 (request 3) waits; events 0, 1, 2 processed
     t=1  get (request 4) receives 2, the smallest; its event processed -> put 1 accepted; its event processed
          get (request 5) receives 1; processed
     t=2                                                                                                          *)
Definition C07_KPr : kind := PriorityStore Z (fun x => x) (Some 3%Q).
Definition C07_ex_pr_acts : list (action C07_KPr) :=
  [ APut (K:=C07_KPr) 5%Z; APut (K:=C07_KPr) 2%Z; APut (K:=C07_KPr) 7%Z; APut (K:=C07_KPr) 1%Z;
    AProcess (K:=C07_KPr) 0; AProcess (K:=C07_KPr) 1; AProcess (K:=C07_KPr) 2; AAdvance (K:=C07_KPr) 1%Q;
    AGet (K:=C07_KPr) tt; AProcess (K:=C07_KPr) 4; AProcess (K:=C07_KPr) 3; AGet (K:=C07_KPr) tt; AProcess (K:=C07_KPr) 5;
    AAdvance (K:=C07_KPr) 2%Q ].
Definition C07_ex_pr_end : state C07_KPr :=
  mkst (K:=C07_KPr) [5%Z; 7%Z] [] [] []
       [GPut (K:=C07_KPr) 0 5%Z; GPut (K:=C07_KPr) 1 2%Z; GPut (K:=C07_KPr) 2 7%Z; GGet (K:=C07_KPr) 4 tt 2%Z; GPut (K:=C07_KPr) 3 1%Z; GGet (K:=C07_KPr) 5 tt 1%Z] 6 2%Q.
Definition C07_ex_pr_t0 : state C07_KPr :=
  mkst (K:=C07_KPr) [2%Z; 5%Z; 7%Z] [(3, 1%Z)] [] [] [GPut (K:=C07_KPr) 0 5%Z; GPut (K:=C07_KPr) 1 2%Z; GPut (K:=C07_KPr) 2 7%Z] 4 0%Q.

(* hypotheses: `cap_pos cap`, `run fixed (init [] t0) acts = Some s`, `log s = l1 ++ GGet i g x :: l2`
   covers C07_prio_store_bounded, C07_delivered_exactly_once_prio, C07_prio_store_min (for the first get: it received 2
   while the store held 2, 5, 7) *)
Theorem C07_ex_prio :
  let l1 := [GPut (K:=C07_KPr) 0 5%Z; GPut (K:=C07_KPr) 1 2%Z; GPut (K:=C07_KPr) 2 7%Z] in
  let l2 := [GPut (K:=C07_KPr) 3 1%Z; GGet (K:=C07_KPr) 5 tt 1%Z] in
  cap_pos (Some 3%Q)
  /\ run true (init (K:=C07_KPr) [] 0%Q) C07_ex_pr_acts = Some C07_ex_pr_end
  /\ log C07_ex_pr_end = l1 ++ GGet (K:=C07_KPr) 4 tt 2%Z :: l2
  (* what the theorems say here *)
  /\ (inject_Z (Z.of_nat (length (content C07_ex_pr_end))) <= 3)%Q
  /\ Permutation (accepted (K:=C07_KPr) (fun x => x) (log C07_ex_pr_end))
                 (content C07_ex_pr_end ++ delivered (K:=C07_KPr) (fun x => x) (log C07_ex_pr_end))
  /\ accepted (K:=C07_KPr) (fun x => x) (log C07_ex_pr_end) = [5; 2; 7; 1]%Z
  /\ content C07_ex_pr_end ++ delivered (K:=C07_KPr) (fun x => x) (log C07_ex_pr_end) = [5; 7; 2; 1]%Z
  /\ (exists c1, path C07_KPr [] l1 c1 /\ In 2%Z c1 /\ forall y, In y c1 -> (2 <= y)%Z)
  /\ path C07_KPr [] l1 [2; 5; 7]%Z.
Proof.
  intros l1 l2.
  assert (Hc : cap_pos (Some 3%Q)) by (unfold cap_pos, Qlt; simpl; lia).
  assert (Hr : run true (init (K:=C07_KPr) [] 0%Q) C07_ex_pr_acts = Some C07_ex_pr_end) by (vm_compute; reflexivity).
  assert (Hl : log C07_ex_pr_end = l1 ++ GGet (K:=C07_KPr) 4 tt 2%Z :: l2) by reflexivity.
  split; [exact Hc|]. split; [exact Hr|]. split; [exact Hl|].
  split; [exact (prio_bounded Z (fun x => x) (Some 3%Q) Hc true C07_ex_pr_acts 0%Q C07_ex_pr_end Hr)|].
  split; [exact (prio_delivered_once Z (fun x => x) (Some 3%Q) true C07_ex_pr_acts 0%Q C07_ex_pr_end Hr)|].
  split; [reflexivity|]. split; [reflexivity|].
  split; [exact (prio_min Z (fun x => x) (Some 3%Q) true C07_ex_pr_acts 0%Q C07_ex_pr_end l1 4 tt 2%Z l2 Hr Hl)|].
  unfold l1. apply path_put; [vm_compute; reflexivity|]. apply path_put; [vm_compute; reflexivity|].
  apply path_put; [vm_compute; reflexivity|]. apply path_nil.
Qed.
Print Assumptions C07_ex_prio.

(* covers C07_heads_blocked_prio: at the end of instant 0 the put of 1 waits and the store is full (3 < 3 + 1) *)
Theorem C07_ex_prio_advance :
  run true (init (K:=C07_KPr) [] 0%Q) (firstn 7 C07_ex_pr_acts) = Some C07_ex_pr_t0
  /\ step true C07_ex_pr_t0 (AAdvance (K:=C07_KPr) 1%Q)
     = Some (mkst (K:=C07_KPr) [2%Z; 5%Z; 7%Z] [(3, 1%Z)] [] [] (log C07_ex_pr_t0) 4 1%Q)
  (* conclusions *)
  /\ putq C07_ex_pr_t0 <> []
  /\ (exists c, Some 3%Q = Some c /\ (c < inject_Z (Z.of_nat (length (content C07_ex_pr_t0))) + 1)%Q).
Proof.
  assert (Hr : run true (init (K:=C07_KPr) [] 0%Q) (firstn 7 C07_ex_pr_acts) = Some C07_ex_pr_t0) by (vm_compute; reflexivity).
  assert (Hs : step true C07_ex_pr_t0 (AAdvance (K:=C07_KPr) 1%Q)
     = Some (mkst (K:=C07_KPr) [2%Z; 5%Z; 7%Z] [(3, 1%Z)] [] [] (log C07_ex_pr_t0) 4 1%Q)) by (vm_compute; reflexivity).
  assert (Hp : putq C07_ex_pr_t0 <> []) by discriminate.
  split; [exact Hr|]. split; [exact Hs|]. split; [exact Hp|].
  exact (proj1 (prio_heads_blocked Z (fun x => x) (Some 3%Q) _ 0%Q _ _ _ Hr Hs) Hp).
Qed.
Print Assumptions C07_ex_prio_advance.

(* ================================================================================================================ *)
(* FilterStore(capacity 2) of items (value, put-id).
     t=0  get(value = 7) (request 0) waits; get(value odd) (request 1) waits
          put (4, #100) accepted, event processed: neither filter matches
          put (3, #101) accepted, event processed: request 0 does not match, request 1 -- the YOUNGER one -- receives
            (3, #101); its event processed
          put (4, #102) accepted (same value as #100, a different item); put (9, #103) (request 5) waits: store full
          event of request 4 processed
     t=1  get(put-id = 102) (request 6) receives (4, #102) -- not the equal-valued (4, #100) in front of it;
          its event processed -> request 5 accepted; its event processed                                         *)
Definition C07_KFi : kind := FilterStore (Z * nat) (Some 2%Q).
Definition C07_f7 (x : Z * nat) : bool := (fst x =? 7)%Z.
Definition C07_fodd (x : Z * nat) : bool := Z.odd (fst x).
Definition C07_f102 (x : Z * nat) : bool := snd x =? 102.
Definition C07_ex_fi_acts : list (action C07_KFi) :=
  [ AGet (K:=C07_KFi) C07_f7; AGet (K:=C07_KFi) C07_fodd; APut (K:=C07_KFi) (4%Z, 100); AProcess (K:=C07_KFi) 2;
    APut (K:=C07_KFi) (3%Z, 101); AProcess (K:=C07_KFi) 3; AProcess (K:=C07_KFi) 1; APut (K:=C07_KFi) (4%Z, 102);
    APut (K:=C07_KFi) (9%Z, 103); AProcess (K:=C07_KFi) 4; AAdvance (K:=C07_KFi) 1%Q; AGet (K:=C07_KFi) C07_f102;
    AProcess (K:=C07_KFi) 6; AProcess (K:=C07_KFi) 5 ].
Definition C07_ex_fi_log : list (grant C07_KFi) :=
  [ GPut (K:=C07_KFi) 2 (4%Z, 100); GPut (K:=C07_KFi) 3 (3%Z, 101); GGet (K:=C07_KFi) 1 C07_fodd (3%Z, 101); GPut (K:=C07_KFi) 4 (4%Z, 102); GGet (K:=C07_KFi) 6 C07_f102 (4%Z, 102);
    GPut (K:=C07_KFi) 5 (9%Z, 103) ].
Definition C07_ex_fi_end : state C07_KFi :=
  mkst (K:=C07_KFi) [(4%Z, 100); (9%Z, 103)] [] [(0, C07_f7)] [] C07_ex_fi_log 7 1%Q.

(* hypotheses: `cap_pos cap`, `run … = Some s`, `NoDup (map snd (accepted … (log s)))`,
   `log s = l1 ++ GGet i f x :: l2`, `log s = l1 ++ GPut i p :: l2`
   covers C07_filter_store_bounded, C07_delivered_exactly_once_filter, C07_filter_put_ids_exactly_once,
   C07_filter_store_first_match (the get with filter put-id = 102), C07_filter_store_put_appends (the put of #102) *)
Theorem C07_ex_filter :
  let l1 := firstn 4 C07_ex_fi_log in
  let l2 := [GPut (K:=C07_KFi) 5 (9%Z, 103)] in
  let l1' := firstn 3 C07_ex_fi_log in
  let l2' := skipn 4 C07_ex_fi_log in
  cap_pos (Some 2%Q)
  /\ run true (init (K:=C07_KFi) [] 0%Q) C07_ex_fi_acts = Some C07_ex_fi_end
  /\ NoDup (map snd (accepted (K:=C07_KFi) (fun x => x) (log C07_ex_fi_end)))
  /\ log C07_ex_fi_end = l1 ++ GGet (K:=C07_KFi) 6 C07_f102 (4%Z, 102) :: l2
  /\ log C07_ex_fi_end = l1' ++ GPut (K:=C07_KFi) 4 (4%Z, 102) :: l2'
  (* what the theorems say here *)
  /\ (inject_Z (Z.of_nat (length (content C07_ex_fi_end))) <= 2)%Q
  /\ Permutation (accepted (K:=C07_KFi) (fun x => x) (log C07_ex_fi_end))
                 (content C07_ex_fi_end ++ delivered (K:=C07_KFi) (fun x => x) (log C07_ex_fi_end))
  /\ map snd (accepted (K:=C07_KFi) (fun x => x) (log C07_ex_fi_end)) = [100; 101; 102; 103]
  /\ map snd (content C07_ex_fi_end ++ delivered (K:=C07_KFi) (fun x => x) (log C07_ex_fi_end)) = [100; 103; 101; 102]
  /\ NoDup (map snd (content C07_ex_fi_end ++ delivered (K:=C07_KFi) (fun x => x) (log C07_ex_fi_end)))
  /\ (exists a b, path C07_KFi [] l1 (a ++ (4%Z, 102) :: b) /\ C07_f102 (4%Z, 102) = true
                  /\ (forall y, In y a -> C07_f102 y = false) /\ path C07_KFi (a ++ b) l2 (content C07_ex_fi_end))
  /\ path C07_KFi [] l1 ([(4%Z, 100)] ++ (4%Z, 102) :: [])
  /\ (exists c1, path C07_KFi [] l1' c1 /\ path C07_KFi (c1 ++ [(4%Z, 102)]) l2' (content C07_ex_fi_end)).
Proof.
  intros l1 l2 l1' l2'.
  assert (Hc : cap_pos (Some 2%Q)) by (unfold cap_pos, Qlt; simpl; lia).
  assert (Hr : run true (init (K:=C07_KFi) [] 0%Q) C07_ex_fi_acts = Some C07_ex_fi_end) by (vm_compute; reflexivity).
  assert (Hn : NoDup (map snd (accepted (K:=C07_KFi) (fun x => x) (log C07_ex_fi_end)))).
  { change (NoDup [100; 101; 102; 103]). repeat constructor; simpl; intuition discriminate. }
  assert (Hl : log C07_ex_fi_end = l1 ++ GGet (K:=C07_KFi) 6 C07_f102 (4%Z, 102) :: l2) by reflexivity.
  assert (Hl' : log C07_ex_fi_end = l1' ++ GPut (K:=C07_KFi) 4 (4%Z, 102) :: l2') by reflexivity.
  split; [exact Hc|]. split; [exact Hr|]. split; [exact Hn|]. split; [exact Hl|]. split; [exact Hl'|].
  split; [exact (filter_bounded (Z * nat) (Some 2%Q) Hc true C07_ex_fi_acts 0%Q C07_ex_fi_end Hr)|].
  split; [exact (filter_delivered_once (Z * nat) (Some 2%Q) true C07_ex_fi_acts 0%Q C07_ex_fi_end Hr)|].
  split; [reflexivity|]. split; [reflexivity|].
  split; [exact (proj1 (filter_put_ids_exactly_once Z nat (Some 2%Q) true C07_ex_fi_acts 0%Q C07_ex_fi_end Hr Hn))|].
  split; [exact (filter_first_match (Z * nat) (Some 2%Q) true C07_ex_fi_acts 0%Q C07_ex_fi_end l1 6 C07_f102 (4%Z, 102) l2 Hr Hl)|].
  split.
  { unfold l1. cbn [firstn C07_ex_fi_log].
    apply path_put; [vm_compute; reflexivity|]. apply path_put; [vm_compute; reflexivity|].
    apply path_get; [vm_compute; reflexivity|]. apply path_put; [vm_compute; reflexivity|]. apply path_nil. }
  exact (put_appends_filter (Z * nat) (Some 2%Q) true C07_ex_fi_acts 0%Q C07_ex_fi_end l1' 4 (4%Z, 102) l2' Hr Hl').
Qed.
Print Assumptions C07_ex_filter.

(* hypotheses: `run … = Some s`, `step fixed s a = Some s'`, `log s' = log s ++ news`, `In (GGet b fb x) news`,
   `In (o, fo) (getq s')`, `o < b`
   covers C07_filter_overtake_only_nonmatching.
   s = after the put of (3, #101), a = its event is processed: the younger request 1 (value odd) receives (3, #101)
   while the older request 0 (value = 7) keeps waiting -- its filter rejects (3, #101). *)
Definition C07_ex_fi_s5 : state C07_KFi :=
  mkst (K:=C07_KFi) [(4%Z, 100); (3%Z, 101)] [] [(0, C07_f7); (1, C07_fodd)] [(3, EvPut)]
       [GPut (K:=C07_KFi) 2 (4%Z, 100); GPut (K:=C07_KFi) 3 (3%Z, 101)] 4 0%Q.
Definition C07_ex_fi_s6 : state C07_KFi :=
  mkst (K:=C07_KFi) [(4%Z, 100)] [] [(0, C07_f7)] [(1, EvGet)]
       [GPut (K:=C07_KFi) 2 (4%Z, 100); GPut (K:=C07_KFi) 3 (3%Z, 101); GGet (K:=C07_KFi) 1 C07_fodd (3%Z, 101)] 4 0%Q.

Theorem C07_ex_filter_overtake :
  let news := [GGet (K:=C07_KFi) 1 C07_fodd (3%Z, 101)] in
  run true (init (K:=C07_KFi) [] 0%Q) (firstn 5 C07_ex_fi_acts) = Some C07_ex_fi_s5
  /\ step true C07_ex_fi_s5 (AProcess (K:=C07_KFi) 3) = Some C07_ex_fi_s6
  /\ log C07_ex_fi_s6 = log C07_ex_fi_s5 ++ news
  /\ In (GGet (K:=C07_KFi) 1 C07_fodd (3%Z, 101)) news
  /\ In (0, C07_f7) (getq C07_ex_fi_s6)
  /\ 0 < 1
  (* conclusion *)
  /\ C07_f7 (3%Z, 101) = false.
Proof.
  intros news.
  assert (Hr : run true (init (K:=C07_KFi) [] 0%Q) (firstn 5 C07_ex_fi_acts) = Some C07_ex_fi_s5) by (vm_compute; reflexivity).
  assert (Hs : step true C07_ex_fi_s5 (AProcess (K:=C07_KFi) 3) = Some C07_ex_fi_s6) by (vm_compute; reflexivity).
  assert (Hl : log C07_ex_fi_s6 = log C07_ex_fi_s5 ++ news) by reflexivity.
  assert (Hi : In (GGet (K:=C07_KFi) 1 C07_fodd (3%Z, 101)) news) by (left; reflexivity).
  assert (Ho : In (0, C07_f7) (getq C07_ex_fi_s6)) by (left; reflexivity).
  split; [exact Hr|]. split; [exact Hs|]. split; [exact Hl|]. split; [exact Hi|]. split; [exact Ho|]. split; [lia|].
  exact (filter_overtake_only_nonmatching (Z * nat) (Some 2%Q) true _ 0%Q _ _ _ news Hr Hs Hl 1 C07_fodd (3%Z, 101) Hi
                                          0 C07_f7 Ho (le_n 1)).
Qed.
Print Assumptions C07_ex_filter_overtake.

(* hypotheses: `laws K gblock`, `run true … = Some s`, `step true s (AAdvance t) = Some s'`
   covers C07_heads_blocked_filter, C07_heads_blocked_at_advance (gblock = false).
   End of instant 0: the put of (9, #103) waits on the full store, the get(value = 7) waits and its filter rejects both
   items held. *)
Definition C07_ex_fi_t0 : state C07_KFi :=
  mkst (K:=C07_KFi) [(4%Z, 100); (4%Z, 102)] [(5, (9%Z, 103))] [(0, C07_f7)] []
       [GPut (K:=C07_KFi) 2 (4%Z, 100); GPut (K:=C07_KFi) 3 (3%Z, 101); GGet (K:=C07_KFi) 1 C07_fodd (3%Z, 101); GPut (K:=C07_KFi) 4 (4%Z, 102)] 6 0%Q.

Theorem C07_ex_filter_advance :
  laws C07_KFi false
  /\ run true (init (K:=C07_KFi) [] 0%Q) (firstn 10 C07_ex_fi_acts) = Some C07_ex_fi_t0
  /\ step true C07_ex_fi_t0 (AAdvance (K:=C07_KFi) 1%Q)
     = Some (mkst (K:=C07_KFi) (content C07_ex_fi_t0) (putq C07_ex_fi_t0) (getq C07_ex_fi_t0) [] (log C07_ex_fi_t0) 6 1%Q)
  (* conclusions *)
  /\ putq C07_ex_fi_t0 <> []
  /\ (exists c, Some 2%Q = Some c /\ (c < inject_Z (Z.of_nat (length (content C07_ex_fi_t0))) + 1)%Q)
  /\ In (0, C07_f7) (getq C07_ex_fi_t0)
  /\ (forall y, In y (content C07_ex_fi_t0) -> C07_f7 y = false)
  /\ r_val (k_do_put C07_KFi (content C07_ex_fi_t0) (9%Z, 103)) = None
  /\ (forall r, In r (getq C07_ex_fi_t0) -> r_val (k_do_get C07_KFi (content C07_ex_fi_t0) (snd r)) = None).
Proof.
  assert (L : laws C07_KFi false) by exact (filter_laws _ _).
  assert (Hr : run true (init (K:=C07_KFi) [] 0%Q) (firstn 10 C07_ex_fi_acts) = Some C07_ex_fi_t0) by (vm_compute; reflexivity).
  assert (Hs : step true C07_ex_fi_t0 (AAdvance (K:=C07_KFi) 1%Q)
     = Some (mkst (K:=C07_KFi) (content C07_ex_fi_t0) (putq C07_ex_fi_t0) (getq C07_ex_fi_t0) [] (log C07_ex_fi_t0) 6 1%Q))
    by (vm_compute; reflexivity).
  assert (Hp : putq C07_ex_fi_t0 <> []) by discriminate.
  assert (Hg : In (0, C07_f7) (getq C07_ex_fi_t0)) by (left; reflexivity).
  split; [exact L|]. split; [exact Hr|]. split; [exact Hs|]. split; [exact Hp|].
  destruct (filter_heads_blocked (Z * nat) (Some 2%Q) _ 0%Q _ _ _ Hr Hs) as [H1 H2].
  split; [exact (H1 Hp)|]. split; [exact Hg|]. split; [exact (H2 0 C07_f7 Hg)|].
  destruct (heads_blocked_at_advance C07_KFi false L _ [] 0%Q _ _ _ Hr Hs) as [H3 H4].
  split; [exact H3|exact H4].
Qed.
Print Assumptions C07_ex_filter_advance.

(* ================================================================================================================ *)
(* heapq: hypotheses `h <> []`, `heap_ok A key h`
   covers C07_heappop_min_and_multiset, C07_heappush_multiset (and the premise inside C07_heap_total).
   h = [1; 3; 2; 7; 4] is a heap (3, 2 above 1; 7, 4 above 3) of five integers ordered by value. *)
Definition C07_ex_heap_h : list Z := [1; 3; 2; 7; 4]%Z.

Theorem C07_ex_heap :
  C07_ex_heap_h <> []
  /\ heap_ok Z (fun x => x) C07_ex_heap_h
  (* conclusions *)
  /\ heappop (fun x : Z => x) C07_ex_heap_h = Some (1%Z, [2; 3; 4; 7]%Z)
  /\ heap_ok Z (fun x => x) [2; 3; 4; 7]%Z
  /\ Permutation C07_ex_heap_h (1%Z :: [2; 3; 4; 7]%Z)
  /\ heappush (fun x : Z => x) C07_ex_heap_h 0%Z = Some [0; 3; 1; 7; 4; 2]%Z
  /\ heap_ok Z (fun x => x) [0; 3; 1; 7; 4; 2]%Z
  /\ Permutation (0%Z :: C07_ex_heap_h) [0; 3; 1; 7; 4; 2]%Z.
Proof.
  assert (Hne : C07_ex_heap_h <> []) by discriminate.
  assert (Hok : heap_ok Z (fun x => x) C07_ex_heap_h).
  { intros i x p Hi Hx Hp.
    do 5 (destruct i as [|i]; [try lia; vm_compute in Hx, Hp; injection Hx as <-; injection Hp as <-; lia|]).
    destruct i; discriminate Hx. }
  split; [exact Hne|]. split; [exact Hok|].
  destruct (heappop_spec Z (fun x => x) C07_ex_heap_h Hne Hok) as (x & h' & Hpop & Hok' & Hperm & _).
  assert (E : heappop (fun x : Z => x) C07_ex_heap_h = Some (1%Z, [2; 3; 4; 7]%Z)) by (vm_compute; reflexivity).
  rewrite E in Hpop. injection Hpop as <- <-.
  split; [exact E|]. split; [exact Hok'|]. split; [exact Hperm|].
  destruct (heappush_spec Z (fun x => x) C07_ex_heap_h 0%Z Hok) as (h2 & Hpush & Hok2 & Hperm2).
  assert (E2 : heappush (fun x : Z => x) C07_ex_heap_h 0%Z = Some [0; 3; 1; 7; 4; 2]%Z) by (vm_compute; reflexivity).
  rewrite E2 in Hpush. injection Hpush as <-.
  split; [exact E2|]. split; [exact Hok2|exact Hperm2].
Qed.
Print Assumptions C07_ex_heap.
