(* C15 -- NON-VACUITY of the theorems of Props/C15_RR.v (RR and WRR).  Witness executions: Elem/SchedExamples.v
   ([rrx_acts]: RR over flows [0; 1; 2]; [wrx_acts]: WRR with weights {0: 3, 1: 1, 2: 1}; 128-byte packets at 1024 bit/s):
   x0, x1 (flow 0) and y0 (flow 2) arrive at 0, z0 (flow 1) at 1/2 while x0 is being transmitted: class 1 is empty when the
   round starts and backlogged when its turn comes.  RR serves x0 z0 y0 x1 and its last pass finds classes 1 and 2 empty;
   WRR lets class 0 send up to 3 per visit, it holds only 2 (the visit ends on the empty queue): x0 x1 z0 y0.

   Coverage (theorem of Props/C15_RR.v -> witness), X = rr / wrr:
     C15_X_visit, C15_X_starts_follow_visits  -> C15_ex_X_visiting      (the whole run, and a state with a commit pending)
     C15_X_visit_meaning                      -> C15_ex_X_visit_meaning (a visit that takes a packet, a visit that skips)
   Unconditional: none. *)
From Coq Require Import ZArith QArith List.
From ONL Require Import Elem.Packet Elem.StoreQ Elem.SchedBase Elem.SchedBaseProofs Elem.SP Elem.SPProofs Elem.RR Elem.RRProofs
  Elem.WRR Elem.WRRProofs Elem.SchedExamples.
From ONL Require Import Props.C15_RR.
Import ListNotations.

(* ================= RR ================= *)
Theorem C15_ex_rr_visiting :
  0 < rrx_r /\
  rr_run rrx_r rrx_fl rrx_acts = Some (rrx_state 32, rrx_trace 32) /\
  rr_run rrx_r rrx_fl (firstn 22 rrx_acts) = Some (rrx_state 22, rrx_trace 22) /\
  (* the execution: the classes run() tested, in order, with the outcome; the transmission starts *)
  tr_visits (rrx_trace 32) = [(0, false); (1, false); (2, false); (0, true); (1, true); (2, true); (0, true); (1, false); (2, false)]%Z /\
  tr_starts (rrx_trace 32) = [rrx_x0; rrx_z0; rrx_y0; rrx_x1] /\
  (* conclusions: the visit sequence is a walk of the cyclic specification ending at the scheduler's cursor; the classes of the
     starts are the visits that took a packet -- in the state after 22 actions with one commit still pending *)
  (exists k, walk (pass rrx_cfg) (pass rrx_cfg) (tr_visits (rrx_trace 32)) = Some k /\
             norm (pass rrx_cfg) k = norm (pass rrx_cfg) (cursor rrx_cfg (rrx_state 32))) /\
  served (tr_visits (rrx_trace 32)) = map (pclass rrx_cfg) (tr_starts (rrx_trace 32)) ++ pending rrx_cfg (rrx_state 32) /\
  pending rrx_cfg (rrx_state 32) = [] /\
  served (tr_visits (rrx_trace 22)) = map (pclass rrx_cfg) (tr_starts (rrx_trace 22)) ++ pending rrx_cfg (rrx_state 22) /\
  served (tr_visits (rrx_trace 22)) = [0; 1; 2]%Z /\ tr_starts (rrx_trace 22) = [rrx_x0; rrx_z0] /\
  pending rrx_cfg (rrx_state 22) = [2]%Z.
Proof.
  assert (Hr : 0 < rrx_r) by reflexivity.
  assert (HF : rr_run rrx_r rrx_fl rrx_acts = Some (rrx_state 32, rrx_trace 32)) by (vm_compute; reflexivity).
  assert (HM : rr_run rrx_r rrx_fl (firstn 22 rrx_acts) = Some (rrx_state 22, rrx_trace 22)) by (vm_compute; reflexivity).
  split; [exact Hr|]. split; [exact HF|]. split; [exact HM|].
  split; [vm_compute; reflexivity|]. split; [vm_compute; reflexivity|].
  split; [exact (C15_rr_visit _ _ _ _ _ Hr HF)|].
  split; [exact (C15_rr_starts_follow_visits _ _ _ _ _ Hr HF)|]. split; [vm_compute; reflexivity|].
  split; [exact (C15_rr_starts_follow_visits _ _ _ _ _ Hr HM)|].
  split; [vm_compute; reflexivity|]. split; vm_compute; reflexivity.
Qed.
Print Assumptions C15_ex_rr_visiting.

(* a visit that takes a packet: state after 16 actions, SChildEnd emits [OVisit 1 true]: the head of the queue of class 1 is handed over;
   a visit that skips: state after 31 actions, SChildEnd emits [OVisit 1 false; OVisit 2 false]: class 2 holds nothing at all *)
Theorem C15_ex_rr_visit_meaning :
  0 < rrx_r /\
  rr_run rrx_r rrx_fl (firstn 16 rrx_acts) = Some (rrx_state 16, rrx_trace 16) /\
  rr_act rrx_r rrx_fl (rrx_state 16) SChildEnd = Some (rrx_state 17, [OVisit 1 true]) /\
  In (OVisit 1 true) [OVisit 1 true] /\
  rr_run rrx_r rrx_fl (firstn 31 rrx_acts) = Some (rrx_state 31, rrx_trace 31) /\
  rr_act rrx_r rrx_fl (rrx_state 31) SChildEnd = Some (rrx_state 32, [OVisit 1 false; OVisit 2 false]) /\
  In (OVisit 2 false) [OVisit 1 false; OVisit 2 false] /\
  (* conclusions *)
  (exists x rest, items (mstores (rrx_state 16) 1) = x :: rest /\ get (mstores (rrx_state 17) 1) = GGranted x /\
                  items (mstores (rrx_state 17) 1) = rest /\ x = (1 # 2, rrx_z0)) /\
  (items (mstores (rrx_state 31) 2) = [] /\ held_class rrx_cfg (rrx_state 31) 2 = []).
Proof.
  assert (Hr : 0 < rrx_r) by reflexivity.
  assert (HT : rr_run rrx_r rrx_fl (firstn 16 rrx_acts) = Some (rrx_state 16, rrx_trace 16)) by (vm_compute; reflexivity).
  assert (AT : rr_act rrx_r rrx_fl (rrx_state 16) SChildEnd = Some (rrx_state 17, [OVisit 1 true])) by (vm_compute; reflexivity).
  assert (IT : In (OVisit 1 true) [OVisit 1 true]) by (cbn; tauto).
  assert (HF : rr_run rrx_r rrx_fl (firstn 31 rrx_acts) = Some (rrx_state 31, rrx_trace 31)) by (vm_compute; reflexivity).
  assert (AF : rr_act rrx_r rrx_fl (rrx_state 31) SChildEnd = Some (rrx_state 32, [OVisit 1 false; OVisit 2 false])) by (vm_compute; reflexivity).
  assert (IF' : In (OVisit 2 false) [OVisit 1 false; OVisit 2 false]) by (cbn; tauto).
  split; [exact Hr|]. split; [exact HT|]. split; [exact AT|]. split; [exact IT|]. split; [exact HF|]. split; [exact AF|].
  split; [exact IF'|].
  split.
  { pose proof (C15_rr_visit_meaning _ _ _ _ _ _ _ _ _ _ Hr HT AT IT) as (x & rest & A & B & C).
    exists x, rest. split; [exact A|]. split; [exact B|]. split; [exact C|].
    assert (E : items (mstores (rrx_state 16) 1) = (1 # 2, rrx_z0) :: rest).
    { rewrite A. f_equal. assert (G : get (mstores (rrx_state 17) 1) = GGranted (1 # 2, rrx_z0)) by (vm_compute; reflexivity).
      rewrite G in B. injection B as <-. reflexivity. }
    rewrite A in E. injection E as E. exact E. }
  exact (C15_rr_visit_meaning _ _ _ _ _ _ _ _ _ _ Hr HF AF IF').
Qed.
Print Assumptions C15_ex_rr_visit_meaning.

(* ================= WRR ================= *)
Theorem C15_ex_wrr_visiting :
  0 < wrx_r /\
  wrr_run wrx_r wrx_ws wrx_acts = Some (wrx_state 32, wrx_trace 32) /\
  wrr_run wrx_r wrx_ws (firstn 22 wrx_acts) = Some (wrx_state 22, wrx_trace 22) /\
  (* the execution: the classes run() tested, in order, with the outcome; the transmission starts *)
  tr_visits (wrx_trace 32) = [(0, false); (1, false); (2, false); (0, true); (0, true); (0, false); (1, true); (2, true)]%Z /\
  tr_starts (wrx_trace 32) = [rrx_x0; rrx_x1; rrx_z0; rrx_y0] /\
  (* conclusions: the visit sequence is a walk of the cyclic specification ending at the scheduler's cursor; the classes of the
     starts are the visits that took a packet -- in the state after 22 actions with one commit still pending *)
  (exists k, walk (pass wrx_cfg) (pass wrx_cfg) (tr_visits (wrx_trace 32)) = Some k /\
             norm (pass wrx_cfg) k = norm (pass wrx_cfg) (cursor wrx_cfg (wrx_state 32))) /\
  served (tr_visits (wrx_trace 32)) = map (pclass wrx_cfg) (tr_starts (wrx_trace 32)) ++ pending wrx_cfg (wrx_state 32) /\
  pending wrx_cfg (wrx_state 32) = [] /\
  served (tr_visits (wrx_trace 22)) = map (pclass wrx_cfg) (tr_starts (wrx_trace 22)) ++ pending wrx_cfg (wrx_state 22) /\
  served (tr_visits (wrx_trace 22)) = [0; 0; 1]%Z /\ tr_starts (wrx_trace 22) = [rrx_x0; rrx_x1] /\
  pending wrx_cfg (wrx_state 22) = [1]%Z.
Proof.
  assert (Hr : 0 < wrx_r) by reflexivity.
  assert (HF : wrr_run wrx_r wrx_ws wrx_acts = Some (wrx_state 32, wrx_trace 32)) by (vm_compute; reflexivity).
  assert (HM : wrr_run wrx_r wrx_ws (firstn 22 wrx_acts) = Some (wrx_state 22, wrx_trace 22)) by (vm_compute; reflexivity).
  split; [exact Hr|]. split; [exact HF|]. split; [exact HM|].
  split; [vm_compute; reflexivity|]. split; [vm_compute; reflexivity|].
  split; [exact (C15_wrr_visit _ _ _ _ _ Hr HF)|].
  split; [exact (C15_wrr_starts_follow_visits _ _ _ _ _ Hr HF)|]. split; [vm_compute; reflexivity|].
  split; [exact (C15_wrr_starts_follow_visits _ _ _ _ _ Hr HM)|].
  split; [vm_compute; reflexivity|]. split; vm_compute; reflexivity.
Qed.
Print Assumptions C15_ex_wrr_visiting.

(* a visit that takes a packet: state after 16 actions, SChildEnd emits [OVisit 0 true]: the head of the queue of class 0 is handed over;
   a visit that skips: state after 21 actions, SChildEnd emits [OVisit 0 false; OVisit 1 true]: class 0 holds nothing at all *)
Theorem C15_ex_wrr_visit_meaning :
  0 < wrx_r /\
  wrr_run wrx_r wrx_ws (firstn 16 wrx_acts) = Some (wrx_state 16, wrx_trace 16) /\
  wrr_act wrx_r wrx_ws (wrx_state 16) SChildEnd = Some (wrx_state 17, [OVisit 0 true]) /\
  In (OVisit 0 true) [OVisit 0 true] /\
  wrr_run wrx_r wrx_ws (firstn 21 wrx_acts) = Some (wrx_state 21, wrx_trace 21) /\
  wrr_act wrx_r wrx_ws (wrx_state 21) SChildEnd = Some (wrx_state 22, [OVisit 0 false; OVisit 1 true]) /\
  In (OVisit 0 false) [OVisit 0 false; OVisit 1 true] /\
  (* conclusions *)
  (exists x rest, items (mstores (wrx_state 16) 0) = x :: rest /\ get (mstores (wrx_state 17) 0) = GGranted x /\
                  items (mstores (wrx_state 17) 0) = rest /\ x = (0, rrx_x1)) /\
  (items (mstores (wrx_state 21) 0) = [] /\ held_class wrx_cfg (wrx_state 21) 0 = []).
Proof.
  assert (Hr : 0 < wrx_r) by reflexivity.
  assert (HT : wrr_run wrx_r wrx_ws (firstn 16 wrx_acts) = Some (wrx_state 16, wrx_trace 16)) by (vm_compute; reflexivity).
  assert (AT : wrr_act wrx_r wrx_ws (wrx_state 16) SChildEnd = Some (wrx_state 17, [OVisit 0 true])) by (vm_compute; reflexivity).
  assert (IT : In (OVisit 0 true) [OVisit 0 true]) by (cbn; tauto).
  assert (HF : wrr_run wrx_r wrx_ws (firstn 21 wrx_acts) = Some (wrx_state 21, wrx_trace 21)) by (vm_compute; reflexivity).
  assert (AF : wrr_act wrx_r wrx_ws (wrx_state 21) SChildEnd = Some (wrx_state 22, [OVisit 0 false; OVisit 1 true])) by (vm_compute; reflexivity).
  assert (IF' : In (OVisit 0 false) [OVisit 0 false; OVisit 1 true]) by (cbn; tauto).
  split; [exact Hr|]. split; [exact HT|]. split; [exact AT|]. split; [exact IT|]. split; [exact HF|]. split; [exact AF|].
  split; [exact IF'|].
  split.
  { pose proof (C15_wrr_visit_meaning _ _ _ _ _ _ _ _ _ _ Hr HT AT IT) as (x & rest & A & B & C).
    exists x, rest. split; [exact A|]. split; [exact B|]. split; [exact C|].
    assert (E : items (mstores (wrx_state 16) 0) = (0, rrx_x1) :: rest).
    { rewrite A. f_equal. assert (G : get (mstores (wrx_state 17) 0) = GGranted (0, rrx_x1)) by (vm_compute; reflexivity).
      rewrite G in B. injection B as <-. reflexivity. }
    rewrite A in E. injection E as E. exact E. }
  exact (C15_wrr_visit_meaning _ _ _ _ _ _ _ _ _ _ Hr HF AF IF').
Qed.
Print Assumptions C15_ex_wrr_visit_meaning.
