(* C09 -- a port serialises at its line rate and tail-drops exactly at its limit; PortMonitor; REDPort.
   Only statements, closed by the lemma that proves them, and their assumptions.
   Vocabulary (Elem/Port.v, Elem/PortProofs.v): [port_run c s0 acts = Some (s, tr)] = acts is an admissible
   execution from s0 ending in s with timed trace tr (every interleaving of puts and kernel micro-steps inside
   an instant is an execution); [accepted tr] / [departures tr] = accepted arrivals / packets handed downstream,
   with their instants; [dep_spec f arr] = the recurrence d_1 = a_1 + f p_1, d_k = max(a_k, d_(k-1)) + f p_k;
   [txe c p] = 8*size/rate, 0 when rate <= 0; [tl_eq] = same packets in the same order, instants equal as
   rationals; [port_held s] = packet in transmission ++ packet travelling in a granted get ++ store items.
   The theorems about an arbitrary configuration c hold for every drop policy, in particular for
   [port_cfg all_fixed ..] (Port) and [red_cfg all_fixed ..] (REDPort). *)
From Coq Require Import ZArith QArith Qminmax List Bool.
From ONL Require Import Elem.Packet Elem.StoreQ Elem.Port Elem.Red Elem.PortProofs Elem.RedProofs.
Import ListNotations.

(* The k-th accepted packet leaves at max(arrival_k, departure_(k-1)) + 8*size_k/rate, first in first out:
   the departures so far, followed by one further departure per packet still held, are the recurrence. *)
Theorem C09_port_departure_recurrence : forall (c : pcfg) (t0 : Q) (acts : list paction) (s : port) (tr : list pev),
  port_run c (port0 t0) acts = Some (s, tr) ->
  exists rest, tl_eq (dep_spec (txe c) (accepted tr)) (departures tr ++ rest) /\ map snd rest = port_held s.
Proof. exact port_departure_recurrence. Qed.
Print Assumptions C09_port_departure_recurrence.

(* ... immediately (at its arrival instant) when the rate is 0 *)
Theorem C09_port_rate0_departs_at_arrival : forall (c : pcfg) (t0 : Q) (acts : list paction) (s : port) (tr : list pev),
  c_rate c <= 0 -> port_run c (port0 t0) acts = Some (s, tr) ->
  exists rest, tl_eq (accepted tr) (departures tr ++ rest) /\ map snd rest = port_held s.
Proof. exact port_rate0_departs_at_arrival. Qed.
Print Assumptions C09_port_rate0_departs_at_arrival.

(* a pending transmission deadline is never passed; the clock can advance only while the port transmits or is empty *)
Theorem C09_port_never_late : forall (c : pcfg) (t0 : Q) (acts : list paction) (s : port) (tr : list pev),
  Forall put_nonneg acts -> port_run c (port0 t0) acts = Some (s, tr) ->
  forall p dl, psvc s = Some (p, dl) -> pnow s <= dl.
Proof. exact port_never_late. Qed.
Print Assumptions C09_port_never_late.

Theorem C09_port_work_conserving : forall (c : pcfg) (t0 : Q) (acts : list paction) (s : port) (tr : list pev) (t : Q) s' outs,
  port_run c (port0 t0) acts = Some (s, tr) -> port_act c s (PAdvance t) = Some (s', outs) ->
  (exists p dl, psvc s = Some (p, dl) /\ t <= dl) \/ port_held s = [].
Proof. exact port_work_conserving. Qed.
Print Assumptions C09_port_work_conserving.

(* Tail drop.  Byte limit: refused iff bytes held (waiting + in transmission) + size > qlimit; packet limit:
   refused iff at least qlimit - 1 packets are waiting in the store; never when qlimit = None; a refusal changes
   nothing but the counters, an acceptance enqueues the packet and adds its size. *)
Theorem C09_port_drop_iff : forall rate qlimit lb eid t0 acts s tr p u s' outs,
  let c := port_cfg all_fixed rate qlimit lb eid in
  port_run c (port0 t0) acts = Some (s, tr) ->
  port_act c s (PPut p u) = Some (s', outs) ->
  (In (ODrop p) outs <->
     match qlimit with
     | None => False
     | Some q => if lb then (sum_sizes (port_held s) + psize p > q)%Z
                 else (Z.of_nat (length (items (pq s))) >= q - 1)%Z
     end)
  /\ (In (ODrop p) outs -> pq s' = pq s /\ pbytes s' = pbytes s /\ pdrop s' = (pdrop s + 1)%Z)
  /\ (~ In (ODrop p) outs ->
        pq s' = sq_put fifo_push (pnow s) p (pq s) /\ pbytes s' = (pbytes s + psize p)%Z /\ pdrop s' = pdrop s).
Proof. exact port_drop_iff. Qed.
Print Assumptions C09_port_drop_iff.

Theorem C09_port_unlimited_never_drops : forall rate lb eid t0 acts s tr p u s' outs,
  let c := port_cfg all_fixed rate None lb eid in
  port_run c (port0 t0) acts = Some (s, tr) -> port_act c s (PPut p u) = Some (s', outs) -> ~ In (ODrop p) outs.
Proof. exact port_unlimited_never_drops. Qed.
Print Assumptions C09_port_unlimited_never_drops.

(* hence occupancy never exceeds the limit (one place of a packet limit is the packet in transmission) *)
Theorem C09_port_occupancy_le_limit : forall rate q lb eid t0 acts s tr,
  let c := port_cfg all_fixed rate (Some q) lb eid in
  Forall put_nonneg acts -> port_run c (port0 t0) acts = Some (s, tr) ->
  if lb then (sum_sizes (port_held s) <= Z.max q 0)%Z
  else (Z.of_nat (length (items (pq s))) <= Z.max (q - 1) 0)%Z /\ (Z.of_nat (length (port_held s)) <= Z.max q 0)%Z.
Proof. exact port_occupancy_le_limit. Qed.
Print Assumptions C09_port_occupancy_le_limit.

(* packets_received = accepted + packets_dropped, in every reachable state *)
Theorem C09_port_counters : forall (c : pcfg) (t0 : Q) (acts : list paction) (s : port) (tr : list pev),
  port_run c (port0 t0) acts = Some (s, tr) ->
  precv s = Z.of_nat (length (puts tr)) /\ pdrop s = Z.of_nat (length (dropped tr)) /\
  precv s = (Z.of_nat (length (accepted tr)) + pdrop s)%Z.
Proof. exact port_counters. Qed.
Print Assumptions C09_port_counters.

(* the advertised byte occupancy equals the bytes actually held, in every reachable state, for every rate *)
Theorem C09_port_bytes_exact : forall (c : pcfg) (t0 : Q) (acts : list paction) (s : port) (tr : list pev),
  c_fix_rate0 c = true -> port_run c (port0 t0) acts = Some (s, tr) -> pbytes s = sum_sizes (port_held s).
Proof. exact port_bytes_exact. Qed.
Print Assumptions C09_port_bytes_exact.

(* PortMonitor: bytes with the packet in service = bytes held; without = bytes held minus the packet in
   transmission; packets = len(store.items) (+ busy); outside the instant in which a granted packet travels to
   the server these are the numbers of packets held / waiting *)
Theorem C09_monitor_samples : forall (c : pcfg) (t0 : Q) (acts : list paction) (s : port) (tr : list pev) (incl : bool),
  c_fix_rate0 c = true -> c_fix_mon c = true -> port_run c (port0 t0) acts = Some (s, tr) ->
  exists n b, port_act c s (PSample incl) = Some (s, [OSample n b]) /\
    b = (if incl then sum_sizes (port_held s) else sum_sizes (map snd (W s))) /\
    n = (Z.of_nat (length (items (pq s))) + (if incl then busy_flag s else 0))%Z /\
    ((forall x, get (pq s) <> GGranted x) ->
       n = Z.of_nat (length (if incl then port_held s else map snd (W s)))).
Proof. exact monitor_samples. Qed.
Print Assumptions C09_monitor_samples.

(* every put() stamps perhop_time[element id] = the instant of the put, accepted or refused; nothing else stamps *)
Theorem C09_port_perhop_stamp : forall rate qlimit lb eid s0 acts s tr,
  port_run (port_cfg all_fixed rate qlimit lb eid) s0 acts = Some (s, tr) -> Forall (stamped_as eid) tr.
Proof. exact port_perhop_stamp_eid. Qed.
Print Assumptions C09_port_perhop_stamp.

Theorem C09_red_perhop_stamp : forall rate rc eid s0 acts s tr,
  port_run (red_cfg all_fixed rate rc eid) s0 acts = Some (s, tr) -> Forall (stamped_as eid) tr.
Proof. exact red_perhop_stamp_eid. Qed.
Print Assumptions C09_red_perhop_stamp.

(* REDPort: the average follows the EWMA recurrence with gain 2^-w on every arrival and only then *)
Theorem C09_red_avg : forall f rate rc eid s p u s' outs,
  port_act (red_cfg f rate rc eid) s (PPut p u) = Some (s', outs) ->
  pavg s' == pavg s * (1 - Qpower 2 (- r_w rc)) + red_cur rc s * Qpower 2 (- r_w rc).
Proof. exact red_avg. Qed.
Print Assumptions C09_red_avg.

Theorem C09_red_avg_unchanged : forall c s a s' outs,
  port_act c s a = Some (s', outs) -> (forall p u, a <> PPut p u) -> pavg s' = pavg s.
Proof. exact red_avg_unchanged. Qed.
Print Assumptions C09_red_avg_unchanged.

Theorem C09_red_no_drop_below_min : forall f rate rc eid s p u s' outs,
  red_wf rc -> port_act (red_cfg f rate rc eid) s (PPut p u) = Some (s', outs) ->
  pavg s' < r_min rc -> ~ In (ODrop p) outs /\ u = None.
Proof. exact red_no_drop_below_min. Qed.
Print Assumptions C09_red_no_drop_below_min.

Theorem C09_red_drop_at_limit : forall f rate rc eid s p u s' outs,
  port_act (red_cfg f rate rc eid) s (PPut p u) = Some (s', outs) ->
  r_qlimit rc <= pavg s' -> In (ODrop p) outs /\ u = None.
Proof. exact red_drop_at_limit. Qed.
Print Assumptions C09_red_drop_at_limit.

(* in between one uniform draw u is consumed and the packet is refused iff u <= p(avg), p the RED curve *)
Theorem C09_red_curve : forall f rate rc eid s p u s' outs,
  red_wf rc -> port_act (red_cfg f rate rc eid) s (PPut p u) = Some (s', outs) ->
  r_min rc <= pavg s' -> pavg s' < r_qlimit rc ->
  exists x, u = Some x /\
    (In (ODrop p) outs <->
     x <= (if Qlt_le_dec (pavg s') (r_max rc)
           then r_maxp rc * ((pavg s' - r_min rc) / (r_max rc - r_min rc)) else r_maxp rc)).
Proof. exact red_curve_rule. Qed.
Print Assumptions C09_red_curve.

(* the step configuration min_threshold = max_threshold is covered by C09_red_curve (its hypothesis is min <= max);
   spelled out, with no quotient by max - min = 0 anywhere: one draw, refused iff u <= max_probability *)
Theorem C09_red_step : forall f rate rc eid s p u s' outs,
  r_min rc == r_max rc -> r_max rc <= r_qlimit rc ->
  port_act (red_cfg f rate rc eid) s (PPut p u) = Some (s', outs) ->
  r_min rc <= pavg s' -> pavg s' < r_qlimit rc ->
  exists x, u = Some x /\ (In (ODrop p) outs <-> x <= r_maxp rc).
Proof. exact red_step_rule. Qed.
Print Assumptions C09_red_step.

(* ... and its hypotheses are met by a reachable state (non-vacuity) *)
Theorem C09_ex_red_step :
  exists s tr s' outs,
    port_run (red_cfg all_fixed 64 step_rc None) (port0 0) [PInit; PPut (exP 0 0 8 0) None] = Some (s, tr) /\
    port_act (red_cfg all_fixed 64 step_rc None) s (PPut (exP 1 0 8 0) (Some (1 # 2))) = Some (s', outs) /\
    r_min step_rc == r_max step_rc /\ r_max step_rc <= r_qlimit step_rc /\
    r_min step_rc <= pavg s' /\ pavg s' < r_qlimit step_rc /\ In (ODrop (exP 1 0 8 0)) outs.
Proof. exact red_step_witness. Qed.
Print Assumptions C09_ex_red_step.

(* the model takes the linear branch (the only place with a quotient by max - min) only when min < max *)
Theorem C09_red_linear_branch_needs_gap : forall rc s p x r a,
  red_policy rc s p (Some x) = Some (r, a) -> a < r_max rc -> r_min rc < r_max rc.
Proof. exact red_linear_branch_needs_gap. Qed.
Print Assumptions C09_red_linear_branch_needs_gap.

(* ---- the code as found, one repair withheld at a time, violates the statements ---- *)
Theorem C09_port_drop_rule_refuted_before_fix :
  exists acts s tr p s' outs,
    let c := port_cfg without_qlimit_fix 64 (Some 2%Z) false (Some 1%Z) in
    port_run c (port0 0) acts = Some (s, tr) /\ port_act c s (PPut p None) = Some (s', outs) /\
    ~ In (ODrop p) outs /\ tail_refuses (Some 2%Z) false s p.
Proof. exact port_drop_rule_refuted_unfixed. Qed.
Print Assumptions C09_port_drop_rule_refuted_before_fix.

Theorem C09_port_unlimited_raises_before_fix :
  forall rate lb eid s p, port_act (port_cfg without_qlimit_fix rate None lb eid) s (PPut p None) = None.
Proof. exact port_unlimited_raises_unfixed. Qed.
Print Assumptions C09_port_unlimited_raises_before_fix.

Theorem C09_port_bytes_exact_refuted_before_fix :
  exists acts s tr,
    port_run (port_cfg without_rate0_fix 0 (Some 100%Z) true (Some 1%Z)) (port0 0) acts = Some (s, tr) /\
    port_held s = [] /\ pbytes s = 10%Z.
Proof. exact port_bytes_exact_refuted_unfixed. Qed.
Print Assumptions C09_port_bytes_exact_refuted_before_fix.

Theorem C09_port_perhop_stamp_refuted_before_fix :
  exists acts s tr,
    port_run (port_cfg without_stamp_fix 64 None false (Some 1%Z)) (port0 0) acts = Some (s, tr) /\
    ~ Forall (stamped_as (Some 1%Z)) tr.
Proof. exact port_perhop_stamp_refuted_unfixed. Qed.
Print Assumptions C09_port_perhop_stamp_refuted_before_fix.

Theorem C09_red_perhop_stamp_refuted_before_fix :
  exists acts s tr,
    port_run (red_cfg without_stamp_fix 64 {| r_min := 1; r_max := 3; r_maxp := 1 # 2; r_qlimit := 4; r_w := 0; r_lb := false |}
                (Some 1%Z)) (port0 0) acts = Some (s, tr) /\
    ~ Forall (stamped_as (Some 1%Z)) tr.
Proof. exact red_perhop_stamp_refuted_unfixed. Qed.
Print Assumptions C09_red_perhop_stamp_refuted_before_fix.

Theorem C09_monitor_samples_refuted_before_fix :
  exists acts s tr,
    let c := port_cfg without_mon_fix 8 (Some 4%Z) false (Some 1%Z) in
    port_run c (port0 0) acts = Some (s, tr) /\ sum_sizes (port_held s) = 8%Z /\
    port_act c s (PSample true) = Some (s, [OSample 2 12]) /\ port_act c s (PSample false) = Some (s, [OSample 1 8]).
Proof. exact monitor_samples_refuted_unfixed. Qed.
Print Assumptions C09_monitor_samples_refuted_before_fix.
