(* C09 -- placeholder until PortProofs.v lands. *)
From ONL Require Import Elem.Port Elem.Red.
