(* C19 -- "invokes its callback with the given arguments ... never with the wrong arguments": the normalisation of
   `args` in Timer.__init__ (model Elem/TimerArgs.v, over an inductive of the shapes of Python objects).
   Only statements, closed by the lemma that proves them, and their assumptions.
   Together with C19_no_double_fire (every invocation carries exactly the normalised arguments) this is the
   argument clause; the model is compared with `self.args` of the real Timer on every generated case, and the monitor
   checks what the callback received (values, types and object identity). *)
From Coq Require Import ZArith QArith List.
From ONL Require Import Elem.Timer Elem.TimerArgs Elem.TimerArgsProofs.
Import ListNotations.

(* args is None -> no positional argument; an instance of list or tuple -> its elements (self.args is that very
   object); anything else -> exactly one positional argument, the object itself *)
Theorem C19_args_normalised : forall v : pyval,
  (v = VNone -> py_norm_args v = []) /\
  (is_list_or_tuple v = true -> py_norm_args v = elements v /\ py_stored_args v = v) /\
  (v <> VNone -> is_list_or_tuple v = false -> py_norm_args v = [v]).
Proof. exact args_normalised. Qed.
Print Assumptions C19_args_normalised.

(* in particular strings / bytes of any length, falsy scalars and non-list containers are ONE argument *)
Theorem C19_scalar_args_one_argument :
  (forall s, py_norm_args (VStr s) = [VStr s]) /\ (forall s, py_norm_args (VBytes s) = [VBytes s]) /\
  (forall s, py_norm_args (VByteArray s) = [VByteArray s]) /\
  (forall z, py_norm_args (VInt z) = [VInt z]) /\ (forall b, py_norm_args (VBool b) = [VBool b]) /\
  (forall q, py_norm_args (VFloat q) = [VFloat q]) /\ (forall q, py_norm_args (VFrac q) = [VFrac q]) /\
  (forall kv, py_norm_args (VDict kv) = [VDict kv]) /\ (forall l, py_norm_args (VSet l) = [VSet l]) /\
  (forall l, py_norm_args (VFrozenSet l) = [VFrozenSet l]) /\ (forall l, py_norm_args (VDeque l) = [VDeque l]) /\
  (forall a b c, py_norm_args (VRange a b c) = [VRange a b c]) /\ py_norm_args VGen = [VGen] /\
  (forall n, py_norm_args (VOther n) = [VOther n]).
Proof. exact scalar_args_one_argument. Qed.
Print Assumptions C19_scalar_args_one_argument.

Theorem C19_list_args_are_the_arguments : forall l : list pyval,
  py_norm_args (VList l) = l /\ py_norm_args (VTuple l) = l /\ py_norm_args (VNamedTuple l) = l /\
  py_norm_args (VListSub l) = l.
Proof. exact list_args_are_the_arguments. Qed.
Print Assumptions C19_list_args_are_the_arguments.

(* the argument tokens of the automaton (Elem/Timer.v, `cargs`, what C19_no_double_fire speaks about) are this
   normalisation *)
Theorem C19_automaton_args_link : forall (a : targs) (l : list Z),
  norm_args fixed a = Some l -> py_norm_args (emb a) = map VInt l.
Proof. exact automaton_args_link. Qed.
Print Assumptions C19_automaton_args_link.
