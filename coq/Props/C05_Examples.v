(* C05 -- NON-VACUITY of the theorems of Props/C05.v: for every theorem that has hypotheses, a concrete non-trivial state / step /
   execution on which ALL its hypotheses hold together, with the concrete content of its conclusion there.

   The instances (Kernel/CondWitness.v; module-level code only, [codes] = [], event ids are creation indices):
     family M   0: a = timeout(1, 11)  1: b = timeout(2, 22)  2: d = timeout(3, 33)  3: x = event(), x.succeed(44) (explicit trigger)
                4: call = all_of [a; b]   5: cany = any_of [a; b]   6: cn = all_of [call; d; x] (nested)
                [m_at k] = k steps later: 1 x processed (t = 0) / 2 a processed (t = 1): cany triggers, call counts 1 / 3 cany processed,
                value {a: 11} / 4 b processed (t = 2): call triggers / 5 call processed, value {a: 11, b: 22} / 6 d processed (t = 3): cn
                triggers / 7 cn processed, value {a: 11, b: 22, d: 33, x: 44}, agenda empty
     family N   0: a = timeout(1, 11)  1: x = event(), x.fail(E)  2: all_of [a; x]  3: any_of [a; x];  n_at 1: x processed, both failed
     family L   0: a = timeout(0, 11)  1: x = event()  2: cl = any_of [a; x];  x.fail(E);  l_at 1: a processed, cl triggered, the
                failed x is the next entry and carries only the late _check of cl

   Coverage (theorem of Props/C05.v -> witness below):
     C05_executions_covered, C05_clean_executions_covered, C05_invariant, C05_count_le_operands,
       C05_build_value_never_broken ................................... C05_ex_reach
     C05_pending_boundary .............................................. C05_ex_pending_boundary
     C05_trigger_at_construction, C05_any_of_at_construction, C05_all_of_at_construction ... C05_ex_at_construction
     C05_construction_refused .......................................... C05_ex_construction_refused
     C05_cond_step, C05_never_earlier, C05_any_of_first, C05_all_of_last  C05_ex_cond_step (pending / first-of-any / not an operand),
                                                                         C05_ex_all_of_last (last-of-all), C05_ex_operand_fails (failure)
     C05_check_fails_with_operand ...................................... C05_ex_operand_fails
     C05_check_succeeds_when ........................................... C05_ex_check_succeeds_when
     C05_value_exact, C05_value_unique ................................. C05_ex_value_exact
     C05_late_check_ignored, C05_late_failure_surfaces ................. C05_ex_late
     C05_outcome_final ................................................. C05_ex_outcome_final
   Unconditional (only typing binders / let): C05_empty_operands_immediate.
   Already a witness (exists ...): C05_all_of_refuted_when_detached.

   The list X of explicitly triggered events of [reach] / [creach] is produced by the lemmas that build the execution
   ([creach_exec_top], [creach_step_ok]) and stays existential here; what the steps do to the conditions is shown on the computed
   successor states.  "Not detached" is decided by [anc_free] (Kernel/CondWitness.v): no processed condition above c.
   Proofs: computation on closed terms, constructors, and the lemma that closes the covered theorem where needed. *)
From Coq Require Import ZArith QArith List Bool Lia.
From ONL Require Import Kernel.Model Kernel.Cond Kernel.CondInv Kernel.CondProofs Kernel.CondWitness.
Import ListNotations.

Ltac nd := apply (anc_free_not_detached 5); vm_compute; reflexivity.
Ltac ge := eexists; split; [vm_compute; reflexivity|].

(* ---- C05_executions_covered, C05_invariant (reach codes X s), C05_clean_executions_covered (creach codes X s),
   C05_count_le_operands (creach /\ get_event c s = Some cev /\ kind cev = KCond all ops n), C05_build_value_never_broken (reach /\
   get_event /\ is_cond cev = true /\ out cev <> None): m_at 2, cany has just triggered on its first operand ------------------------ *)
Theorem C05_ex_reach :
  exists X cev, creach [] X (m_at 2) /\ reach [] X (m_at 2) /\ cinv X (m_at 2) /\
    get_event 5%nat (m_at 2) = Some cev /\ kind cev = KCond false [0; 1]%nat 1 /\ is_cond cev = true /\ out cev = Some (Ok VNone) /\
    out cev <> None /\ procpos (m_at 2) [0; 1]%nat = 1%nat /\ snd (cond_build 5%nat (m_at 2)) = ROk /\ now (m_at 2) == 1.
Proof.
  destruct (m_creach 2) as (X & C); [vm_compute; reflexivity|].
  pose proof (creach_reach _ _ _ C) as R.
  exists X. eexists. split; [exact C|]. split; [exact R|]. split; [apply (reach_cinv _ _ _ R)|]. split; [vm_compute; reflexivity|].
  split; [reflexivity|]. split; [reflexivity|]. split; [reflexivity|]. split; [intros H; discriminate H|].
  split; [vm_compute; reflexivity|]. split; vm_compute; reflexivity.
Qed.
Print Assumptions C05_ex_reach.

(* ---- C05_pending_boundary (creach /\ get_event c s = Some cev /\ kind cev = KCond all ops n /\ out cev = None /\ ~ detached s c):
   m_at 3 -- cany (5) has been PROCESSED, call (4: one of two operands processed) and the nested cn (6: x processed, call and d not)
   are pending and not detached: no processed condition has them as (transitive) operands ------------------------------------------ *)
Theorem C05_ex_pending_boundary :
  exists X c4 c6, creach [] X (m_at 3) /\ is_proc (m_at 3) 5%nat = true /\
    get_event 4%nat (m_at 3) = Some c4 /\ kind c4 = KCond true [0; 1]%nat 1 /\ out c4 = None /\ ~ detached (m_at 3) 4%nat /\
    get_event 6%nat (m_at 3) = Some c6 /\ kind c6 = KCond true [4; 2; 3]%nat 1 /\ out c6 = None /\ ~ detached (m_at 3) 6%nat /\
    procpos (m_at 3) [0; 1]%nat = 1%nat /\ procpos (m_at 3) [4; 2; 3]%nat = 1%nat /\ cond_evaluate true 3 1 = false.
Proof.
  destruct (m_creach 3) as (X & C); [vm_compute; reflexivity|].
  exists X. eexists _, _. split; [exact C|]. split; [vm_compute; reflexivity|].
  split; [vm_compute; reflexivity|]. split; [reflexivity|]. split; [reflexivity|]. split; [nd|].
  split; [vm_compute; reflexivity|]. split; [reflexivity|]. split; [reflexivity|]. split; [nd|].
  split; [vm_compute; reflexivity|]. split; vm_compute; reflexivity.
Qed.
Print Assumptions C05_ex_pending_boundary.

(* ---- C05_trigger_at_construction (reach /\ all_valid es s = true), C05_any_of_at_construction (all_valid /\ es <> [] /\ get_event
   (length (events s)) (fst (call_cond false es s)) = Some cev /\ kind cev = KCond false es n), C05_all_of_at_construction: conditions
   built in m_at 4, where a, b, x are processed and d is not: any_of [d; a] and all_of [a; b; x] trigger AT CONSTRUCTION, all_of [a; d]
   stays pending having counted a ---------------------------------------------------------------------------------------------------- *)
Theorem C05_ex_at_construction :
  exists X c1 c2 c3, reach [] X (m_at 4) /\ length (events (m_at 4)) = 7%nat /\
    all_valid [2; 0]%nat (m_at 4) = true /\ [2; 0]%nat <> [] /\ procpos (m_at 4) [2; 0]%nat = 1%nat /\
    get_event 7%nat (fst (call_cond false [2; 0]%nat (m_at 4))) = Some c1 /\ kind c1 = KCond false [2; 0]%nat 1 /\ out c1 = Some (Ok VNone) /\
    all_valid [0; 1; 3]%nat (m_at 4) = true /\ procpos (m_at 4) [0; 1; 3]%nat = 3%nat /\
    get_event 7%nat (fst (call_cond true [0; 1; 3]%nat (m_at 4))) = Some c2 /\ kind c2 = KCond true [0; 1; 3]%nat 3 /\ out c2 = Some (Ok VNone) /\
    all_valid [0; 2]%nat (m_at 4) = true /\ procpos (m_at 4) [0; 2]%nat = 1%nat /\
    get_event 7%nat (fst (call_cond true [0; 2]%nat (m_at 4))) = Some c3 /\ kind c3 = KCond true [0; 2]%nat 1 /\ out c3 = None /\
    snd (call_cond true [0; 2]%nat (m_at 4)) = Ok (VEv 7%nat).
Proof.
  destruct (m_creach 4) as (X & C); [vm_compute; reflexivity|].
  exists X. eexists _, _, _. split; [apply creach_reach, C|]. split; [vm_compute; reflexivity|].
  split; [vm_compute; reflexivity|]. split; [intros H; discriminate H|]. split; [vm_compute; reflexivity|].
  split; [vm_compute; reflexivity|]. split; [reflexivity|]. split; [reflexivity|].
  split; [vm_compute; reflexivity|]. split; [vm_compute; reflexivity|].
  split; [vm_compute; reflexivity|]. split; [reflexivity|]. split; [reflexivity|].
  split; [vm_compute; reflexivity|]. split; [vm_compute; reflexivity|].
  split; [vm_compute; reflexivity|]. split; [reflexivity|]. split; [reflexivity|]. vm_compute. reflexivity.
Qed.
Print Assumptions C05_ex_at_construction.

(* ---- C05_construction_refused (all_valid es s = false): an operand that is not an event of this environment ------------------- *)
Theorem C05_ex_construction_refused :
  all_valid [0; 99]%nat (m_at 1) = false /\
  call_cond true [0; 99]%nat (m_at 1) = (m_at 1, Fail (kexn EAttribute M_not_an_event)) /\
  do_call [] (CAnyOf [0; 99]%nat) (m_at 1) = (m_at 1, Fail (kexn EAttribute M_not_an_event)).
Proof.
  assert (V : all_valid [0; 99]%nat (m_at 1) = false) by (vm_compute; reflexivity).
  destruct (cond_construction_refused [] true _ _ V) as [H1 _]. destruct (cond_construction_refused [] false _ _ V) as [_ H2].
  split; [exact V|]. split; [exact H1|exact H2].
Qed.
Print Assumptions C05_ex_construction_refused.

(* ---- C05_cond_step (creach /\ clean_step fuel codes s s' e /\ get_event c s = Some cev /\ kind cev = KCond all ops n /\ out cev = None
   /\ ~ detached s c), C05_never_earlier (.. /\ ~ In e ops), C05_any_of_first (all = false, In e ops), C05_all_of_last (all = true,
   In e ops): the step m_at 1 -> m_at 2 processes a (event 0) at t = 1.  cany (5) = any_of [a; b] TRIGGERS (no operand was processed
   before), call (4) = all_of [a; b] counts one and stays pending, the nested cn (6) = all_of [call; d; x] does not have a among its
   operands and is untouched ---------------------------------------------------------------------------------------------------------- *)
Theorem C05_ex_cond_step :
  exists X c4 c5 c6, creach [] X (m_at 1) /\ pop_min (agenda (m_at 1)) = Some (m_e0, [m_e1; m_e2]) /\
    clean_step 50 [] (m_at 1) (m_at 2) 0%nat /\
    get_event 4%nat (m_at 1) = Some c4 /\ kind c4 = KCond true [0; 1]%nat 0 /\ out c4 = None /\ ~ detached (m_at 1) 4%nat /\ In 0%nat [0; 1]%nat /\
    get_event 5%nat (m_at 1) = Some c5 /\ kind c5 = KCond false [0; 1]%nat 0 /\ out c5 = None /\ ~ detached (m_at 1) 5%nat /\
    get_event 6%nat (m_at 1) = Some c6 /\ kind c6 = KCond true [4; 2; 3]%nat 1 /\ out c6 = None /\ ~ detached (m_at 1) 6%nat /\
    ~ In 0%nat [4; 2; 3]%nat /\ procpos (m_at 1) [0; 1]%nat = 0%nat /\
    (* after the step *)
    option_map (fun e => (kind e, out e)) (get_event 4%nat (m_at 2)) = Some (KCond true [0; 1]%nat 1, None) /\
    option_map (fun e => (kind e, out e)) (get_event 5%nat (m_at 2)) = Some (KCond false [0; 1]%nat 1, Some (Ok VNone)) /\
    option_map (fun e => (kind e, out e)) (get_event 6%nat (m_at 2)) = Some (KCond true [4; 2; 3]%nat 1, None) /\
    In m_e5 (agenda (m_at 2)) /\ now (m_at 2) == 1.
Proof.
  destruct (m_creach 1) as (X & C); [vm_compute; reflexivity|].
  assert (P : pop_min (agenda (m_at 1)) = Some (m_e0, [m_e1; m_e2])) by (vm_compute; reflexivity).
  assert (CS : clean_step 50 [] (m_at 1) (m_at 2) 0%nat).
  { rewrite (m_at_S 1). apply (clean_step_of_ok (m_at 1) m_e0 [m_e1; m_e2]); [vm_compute; reflexivity|exact P]. }
  exists X. eexists _, _, _. split; [exact C|]. split; [exact P|]. split; [exact CS|].
  split; [vm_compute; reflexivity|]. split; [reflexivity|]. split; [reflexivity|]. split; [nd|]. split; [left; reflexivity|].
  split; [vm_compute; reflexivity|]. split; [reflexivity|]. split; [reflexivity|]. split; [nd|].
  split; [vm_compute; reflexivity|]. split; [reflexivity|]. split; [reflexivity|]. split; [nd|].
  split; [intros [H|[H|[H|[]]]]; discriminate H|]. split; [vm_compute; reflexivity|].
  split; [vm_compute; reflexivity|]. split; [vm_compute; reflexivity|]. split; [vm_compute; reflexivity|].
  split; [vm_compute; tauto|vm_compute; reflexivity].
Qed.
Print Assumptions C05_ex_cond_step.

(* ---- C05_all_of_last, C05_cond_step, the branch in which the condition triggers: the step m_at 3 -> m_at 4 processes b (event 1), the
   LAST unprocessed operand of call (4); cany (5), which has the same operands, is processed already ---------------------------------- *)
Theorem C05_ex_all_of_last :
  exists X c4, creach [] X (m_at 3) /\ pop_min (agenda (m_at 3)) = Some (m_e1, [m_e2]) /\ clean_step 50 [] (m_at 3) (m_at 4) 1%nat /\
    get_event 4%nat (m_at 3) = Some c4 /\ kind c4 = KCond true [0; 1]%nat 1 /\ out c4 = None /\ ~ detached (m_at 3) 4%nat /\
    In 1%nat [0; 1]%nat /\ procpos (m_at 3) [0; 1]%nat = 1%nat /\ is_proc (m_at 3) 0%nat = true /\
    option_map (fun e => (kind e, out e)) (get_event 4%nat (m_at 4)) = Some (KCond true [0; 1]%nat 2, Some (Ok VNone)) /\
    now (m_at 4) == 2.
Proof.
  destruct (m_creach 3) as (X & C); [vm_compute; reflexivity|].
  assert (P : pop_min (agenda (m_at 3)) = Some (m_e1, [m_e2])) by (vm_compute; reflexivity).
  assert (CS : clean_step 50 [] (m_at 3) (m_at 4) 1%nat).
  { rewrite (m_at_S 3). apply (clean_step_of_ok (m_at 3) m_e1 [m_e2]); [vm_compute; reflexivity|exact P]. }
  exists X. eexists. split; [exact C|]. split; [exact P|]. split; [exact CS|].
  split; [vm_compute; reflexivity|]. split; [reflexivity|]. split; [reflexivity|]. split; [nd|]. split; [right; left; reflexivity|].
  split; [vm_compute; reflexivity|]. split; [vm_compute; reflexivity|]. split; vm_compute; reflexivity.
Qed.
Print Assumptions C05_ex_all_of_last.

(* ---- C05_cond_step / C05_any_of_first / C05_all_of_last, the branch in which the condition FAILS, and C05_check_fails_with_operand
   (get_event c s = Some cev /\ kind cev = KCond all ops n /\ out cev = None /\ get_event o s = Some oev /\ out oev = Some (Fail x) /\
   c <> o): family N, the step n_at 0 -> n_at 1 processes the failed x (event 1) at t = 0 while a is pending: all_of [a; x] (2) and
   any_of [a; x] (3) fail with x's exception, x is defused; the _check in isolation, in the state where x has been popped ------------- *)
Theorem C05_ex_operand_fails :
  let s := popped n_e1 [n_e0] (n_at 0) in
  exists X c2 c3 x1 x1', creach [] X (n_at 0) /\ pop_min (agenda (n_at 0)) = Some (n_e1, [n_e0]) /\ clean_step 50 [] (n_at 0) (n_at 1) 1%nat /\
    get_event 2%nat (n_at 0) = Some c2 /\ kind c2 = KCond true [0; 1]%nat 0 /\ out c2 = None /\ ~ detached (n_at 0) 2%nat /\
    get_event 3%nat (n_at 0) = Some c3 /\ kind c3 = KCond false [0; 1]%nat 0 /\ out c3 = None /\ ~ detached (n_at 0) 3%nat /\
    In 1%nat [0; 1]%nat /\ get_event 1%nat (n_at 0) = Some x1 /\ out x1 = Some (Fail (EUser 1, [VInt 5])) /\ defused x1 = false /\
    (* _check of condition 2 on operand 1, in isolation *)
    get_event 2%nat s = Some c2 /\ get_event 1%nat s = Some x1' /\ out x1' = Some (Fail (EUser 1, [VInt 5])) /\ 2%nat <> 1%nat /\
    option_map (fun e => (kind e, out e)) (get_event 2%nat (cond_check 2%nat 1%nat s)) =
      Some (KCond true [0; 1]%nat 1, Some (Fail (EUser 1, [VInt 5]))) /\
    (* after the step *)
    option_map (fun e => (kind e, out e)) (get_event 2%nat (n_at 1)) = Some (KCond true [0; 1]%nat 1, Some (Fail (EUser 1, [VInt 5]))) /\
    option_map (fun e => (kind e, out e)) (get_event 3%nat (n_at 1)) = Some (KCond false [0; 1]%nat 1, Some (Fail (EUser 1, [VInt 5]))) /\
    option_map (fun e => (cbs e, defused e)) (get_event 1%nat (n_at 1)) = Some (None, true) /\
    is_proc (n_at 1) 0%nat = false.
Proof.
  cbn zeta. destruct (n_creach 0) as (X & C); [vm_compute; reflexivity|].
  assert (P : pop_min (agenda (n_at 0)) = Some (n_e1, [n_e0])) by (vm_compute; reflexivity).
  assert (CS : clean_step 50 [] (n_at 0) (n_at 1) 1%nat).
  { rewrite (n_at_S 0). apply (clean_step_of_ok (n_at 0) n_e1 [n_e0]); [vm_compute; reflexivity|exact P]. }
  exists X. eexists _, _, _, _. split; [exact C|]. split; [exact P|]. split; [exact CS|].
  split; [vm_compute; reflexivity|]. split; [reflexivity|]. split; [reflexivity|]. split; [nd|].
  split; [vm_compute; reflexivity|]. split; [reflexivity|]. split; [reflexivity|]. split; [nd|].
  split; [right; left; reflexivity|]. split; [vm_compute; reflexivity|]. split; [reflexivity|]. split; [reflexivity|].
  split; [vm_compute; reflexivity|]. split; [vm_compute; reflexivity|]. split; [reflexivity|]. split; [intros H; discriminate H|].
  split; [vm_compute; reflexivity|]. split; [vm_compute; reflexivity|]. split; [vm_compute; reflexivity|].
  split; vm_compute; reflexivity.
Qed.
Print Assumptions C05_ex_operand_fails.

(* ---- C05_check_succeeds_when (get_event c s = Some cev /\ kind cev = KCond all ops n /\ out cev = None /\ get_event o s = Some oev /\
   is_failed oev = false /\ c <> o): the _check callbacks of a in the state where a has been popped from m_at 1: any_of (5) succeeds,
   all_of (4) counts and stays pending ------------------------------------------------------------------------------------------------ *)
Theorem C05_ex_check_succeeds_when :
  let s := popped m_e0 [m_e1; m_e2] (m_at 1) in
  exists c4 c5 a0, get_event 4%nat s = Some c4 /\ kind c4 = KCond true [0; 1]%nat 0 /\ out c4 = None /\
    get_event 5%nat s = Some c5 /\ kind c5 = KCond false [0; 1]%nat 0 /\ out c5 = None /\
    get_event 0%nat s = Some a0 /\ is_failed a0 = false /\ cbs a0 = None /\ 4%nat <> 0%nat /\ 5%nat <> 0%nat /\
    option_map (fun e => (kind e, out e)) (get_event 4%nat (cond_check 4%nat 0%nat s)) = Some (KCond true [0; 1]%nat 1, None) /\
    option_map (fun e => (kind e, out e)) (get_event 5%nat (cond_check 5%nat 0%nat s)) = Some (KCond false [0; 1]%nat 1, Some (Ok VNone)).
Proof.
  cbn zeta. eexists _, _, _. split; [vm_compute; reflexivity|]. split; [reflexivity|]. split; [reflexivity|].
  split; [vm_compute; reflexivity|]. split; [reflexivity|]. split; [reflexivity|].
  split; [vm_compute; reflexivity|]. split; [reflexivity|]. split; [reflexivity|]. split; [intros H; discriminate H|].
  split; [intros H; discriminate H|]. split; vm_compute; reflexivity.
Qed.
Print Assumptions C05_ex_check_succeeds_when.

(* ---- C05_value_exact (creach /\ clean_step fuel codes s s' c /\ get_event c s = Some cev /\ kind cev = KCond all ops n /\ ops <> [] /\
   out cev = Some (Ok v0)), C05_value_unique (leaves evs ops items /\ leaves evs ops items').  (i) m_at 2 -> m_at 3 processes cany (5)
   = any_of [a; b], triggered by a: b is NOT processed yet, the value is {a: 11} only.  (ii) m_at 6 -> m_at 7 processes the nested cn
   (6) = all_of [call; d; x]: the value is the flattened {a: 11, b: 22, d: 33, x: 44}, in operand order -------------------------------- *)
Theorem C05_ex_value_exact :
  exists X X' c5 c6, creach [] X (m_at 2) /\ pop_min (agenda (m_at 2)) = Some (m_e5, [m_e1; m_e2]) /\
    clean_step 50 [] (m_at 2) (m_at 3) 5%nat /\
    get_event 5%nat (m_at 2) = Some c5 /\ kind c5 = KCond false [0; 1]%nat 1 /\ [0; 1]%nat <> [] /\ out c5 = Some (Ok VNone) /\
    is_proc (m_at 2) 1%nat = false /\
    leaves (events (m_at 2)) [0; 1]%nat [(0%nat, VInt 11)] /\
    option_map out (get_event 5%nat (m_at 3)) = Some (Some (Ok (VCond [(0%nat, VInt 11)]))) /\
    creach [] X' (m_at 6) /\ pop_min (agenda (m_at 6)) = Some (m_e6, []) /\ clean_step 50 [] (m_at 6) (m_at 7) 6%nat /\
    get_event 6%nat (m_at 6) = Some c6 /\ kind c6 = KCond true [4; 2; 3]%nat 3 /\ [4; 2; 3]%nat <> [] /\ out c6 = Some (Ok VNone) /\
    leaves (events (m_at 6)) [4; 2; 3]%nat [(0%nat, VInt 11); (1%nat, VInt 22); (2%nat, VInt 33); (3%nat, VInt 44)] /\
    option_map out (get_event 6%nat (m_at 7)) =
      Some (Some (Ok (VCond [(0%nat, VInt 11); (1%nat, VInt 22); (2%nat, VInt 33); (3%nat, VInt 44)]))).
Proof.
  destruct (m_creach 2) as (X & C); [vm_compute; reflexivity|].
  destruct (m_creach 6) as (X' & C'); [vm_compute; reflexivity|].
  assert (P : pop_min (agenda (m_at 2)) = Some (m_e5, [m_e1; m_e2])) by (vm_compute; reflexivity).
  assert (P' : pop_min (agenda (m_at 6)) = Some (m_e6, [])) by (vm_compute; reflexivity).
  assert (CS : clean_step 50 [] (m_at 2) (m_at 3) 5%nat).
  { rewrite (m_at_S 2). apply (clean_step_of_ok (m_at 2) m_e5 [m_e1; m_e2]); [vm_compute; reflexivity|exact P]. }
  assert (CS' : clean_step 50 [] (m_at 6) (m_at 7) 6%nat).
  { rewrite (m_at_S 6). apply (clean_step_of_ok (m_at 6) m_e6 []); [vm_compute; reflexivity|exact P']. }
  exists X, X'. eexists _, _. split; [exact C|]. split; [exact P|]. split; [exact CS|].
  split; [vm_compute; reflexivity|]. split; [reflexivity|]. split; [intros H; discriminate H|]. split; [reflexivity|].
  split; [vm_compute; reflexivity|]. split; [apply (leaves_of 10); vm_compute; reflexivity|]. split; [vm_compute; reflexivity|].
  split; [exact C'|]. split; [exact P'|]. split; [exact CS'|].
  split; [vm_compute; reflexivity|]. split; [reflexivity|]. split; [intros H; discriminate H|]. split; [reflexivity|].
  split; [apply (leaves_of 10); vm_compute; reflexivity|]. vm_compute. reflexivity.
Qed.
Print Assumptions C05_ex_value_exact.

(* ---- C05_late_check_ignored (get_event c s = Some cev /\ out cev <> None), C05_late_failure_surfaces (pop_min (agenda s) = Some (m,
   rest) /\ get_event (e_ev m) s = Some ev /\ cbs ev = Some l /\ out ev = Some (Fail x) /\ defused ev = false /\ forall c, In c l ->
   late_cb s c): family L in l_at 1 -- cl (2) = any_of [a; x] has been triggered by a and waits BEHIND the failed x on the agenda; x's
   only callback is the late _check of cl: it changes nothing, nobody defuses x, step() raises x's exception ---------------------------- *)
Theorem C05_ex_late :
  exists X ev c2, creach [] X (l_at 1) /\ pop_min (agenda (l_at 1)) = Some (l_e1, [l_e2]) /\
    get_event (e_ev l_e1) (l_at 1) = Some ev /\ cbs ev = Some [CbCheck 2%nat] /\ out ev = Some (Fail (EUser 1, [VInt 5])) /\
    defused ev = false /\ (forall c, In c [CbCheck 2%nat] -> late_cb (l_at 1) c) /\
    get_event 2%nat (l_at 1) = Some c2 /\ out c2 = Some (Ok VNone) /\ out c2 <> None /\
    cond_check 2%nat 1%nat (popped l_e1 [l_e2] (l_at 1)) = popped l_e1 [l_e2] (l_at 1) /\
    snd (step 50 [] (l_at 1)) = RRaise (EUser 1, [VInt 5]) /\
    option_map out (get_event 2%nat (l_at 2)) = Some (Some (Ok VNone)) /\ agenda (l_at 2) = [l_e2].
Proof.
  destruct (l_creach 1) as (X & C); [vm_compute; reflexivity|].
  assert (E2 : exists c2, get_event 2%nat (l_at 1) = Some c2 /\ out c2 = Some (Ok VNone)) by (eexists; split; [vm_compute; reflexivity|reflexivity]).
  destruct E2 as (c2 & E2 & O2).
  assert (N2 : out c2 <> None) by (rewrite O2; intros H; discriminate H).
  exists X. eexists. exists c2. split; [exact C|]. split; [vm_compute; reflexivity|]. split; [vm_compute; reflexivity|].
  split; [reflexivity|]. split; [reflexivity|]. split; [reflexivity|].
  split; [intros c [<-|[]]; exists c2; split; [exact E2|exact N2]|].
  split; [exact E2|]. split; [exact O2|]. split; [exact N2|].
  split; [apply (late_check_ignored 2%nat 1%nat _ c2); [vm_compute; rewrite <- E2; vm_compute; reflexivity|exact N2]|].
  split; [vm_compute; reflexivity|]. split; vm_compute; reflexivity.
Qed.
Print Assumptions C05_ex_late.

(* ---- C05_outcome_final (ptrace X s s' /\ get_event c s = Some cev /\ is_cond cev = true): from m_at 2, where cany (5) is triggered
   (Ok), to m_at 7 five steps later, where everything is processed: its outcome is still Ok (now with the value filled in) ---------- *)
Theorem C05_ex_outcome_final :
  exists X cev, ptrace X (m_at 2) (m_at 7) /\ get_event 5%nat (m_at 2) = Some cev /\ is_cond cev = true /\ out cev = Some (Ok VNone) /\
    option_map out (get_event 5%nat (m_at 7)) = Some (Some (Ok (VCond [(0%nat, VInt 11)]))) /\ agenda (m_at 7) = [].
Proof.
  destruct (m_creach 2) as (X0 & C); [vm_compute; reflexivity|].
  destruct (ptrace_c_run 5 X0 (m_at 2) C) as (X & T); [vm_compute; reflexivity|].
  assert (E : c_run 5 (m_at 2) = m_at 7) by (unfold m_at; rewrite <- c_run_add; reflexivity). rewrite E in T.
  exists X. eexists. split; [exact T|]. split; [vm_compute; reflexivity|]. split; [reflexivity|]. split; [reflexivity|].
  split; vm_compute; reflexivity.
Qed.
Print Assumptions C05_ex_outcome_final.
