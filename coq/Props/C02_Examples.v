(* C02 -- NON-VACUITY of the statements of Props/C02.v and Props/C02_Bridge.v.

   Every theorem of these files that has hypotheses is listed above a witness below: a machine-checked statement that ALL
   its hypotheses hold simultaneously at concrete closed terms, followed by what its conclusion then says about them
   (obtained by applying the very lemma that closes the theorem in Props/C02.v, or by computation).  The concrete
   executions are those of Kernel/DeliverWitness.v, run on the real kernel model ([step], [run], [run_cb], [resume_loop]):
     scenario x  a shared event G0 (event 0) with two waiters -- A (process 0) catches what it gets, B (process 1) lets it
                 propagate --, T fails G0 with User1(7) and is refused a second trigger, a parent joins a child that
                 returns 0.  [xS n] = state after n steps; xS 5 -> xS 6 processes G0 (callbacks [CbResume 0; CbResume 1]);
                 [xmid] = the state between the two callbacks; the ninth step raises B's unhandled failure.
                 [xU]/[xR n]: the same under run(until = 5).
     scenario y  Late yields an event that is ALREADY processed (G0, succeeded with 11) and goes on at once; a condition
                 AllOf[G1] takes over (defuses) the failure of G1; G2 fails with only a probe listening: step() raises.
                 [yS n] = state after n steps.

   Unconditional theorems (only typing binders, no witness needed): C02_cnt_In, C02_feed_defuses; C02_gen_defused_set.
   Hypothesis-carrying theorems and the witness that covers each:
     C02_callbacks_exactly_once, C02_processed_during_loop, C02_normal_step_is_clean,
       C02_failure_never_lost (defused: step returns), C02_failure_leaves_clean_state      C02_ex_step_processing_G0
     C02_waiter_invariant_inside_loop, C02_resume_gets_outcome, C02_value_stable_in_loop,
       C02_delivered_is_triggered_outcome, C02_wellformed_inside_step                      C02_ex_between_two_callbacks
     C02_waiter_unique, C02_waiter_registered, C02_resumed_exactly_once, C02_not_resumed_by_other_events,
       C02_clean_states_wellformed, C02_clean_executions_are_executions                    C02_ex_two_waiters
     C02_processed_forever, C02_no_append_after_processing, C02_value_stable,
       C02_triggered_forever, C02_wellformed_always                                        C02_ex_later_states
     C02_creach_run, C02_failure_propagates_from_run, C02_run_returns_a_step_result        C02_ex_run_until
     C02_resume_turn, C02_process_event_outcome                                            C02_ex_resumption_that_raises
     C02_yield_pending_waits                                                               C02_ex_yield_pending_waits
     C02_yield_processed_continues                                                         C02_ex_yield_processed_continues
     C02_succeed_once, C02_fail_once; C02_gen_succeed, C02_gen_fail, C02_gen_defused_get   C02_ex_triggered_event
     C02_fail_non_exception, C02_first_trigger (and the C02_gen_* again, other branch)     C02_ex_pending_event
     C02_timeout_carries_value                                                             C02_ex_timeout_carries_value
     C02_cond_check_defuses                                                                C02_ex_cond_check_defuses
     C02_only_handlers_defuse                                                              C02_ex_only_handlers_defuse
     C02_undefused_without_handler, C02_failure_never_lost (undefused: step raises),
       C02_failure_leaves_clean_state                                                      C02_ex_unhandled_failure
     C02_gen_step                                                                          C02_ex_gen_step *)
From Coq Require Import ZArith QArith List Lia.
From ONL Require Import Kernel.Model Kernel.Script Kernel.Keys Kernel.Deliver Kernel.DeliverInv Kernel.DeliverWf Kernel.DeliverThm
  Kernel.DeliverVal Kernel.DeliverMore Kernel.DeliverExamples Kernel.DeliverWitness Gen.Extracted_kernel Kernel.LeafBridge.
Import ListNotations.
Local Open Scope nat_scope.

(* covers C02_callbacks_exactly_once (step = .., pop_min = .., get_event = .., cbs = ..), C02_processed_during_loop (cb_chain,
   the event processed at the start of the loop), C02_normal_step_is_clean (step = (s', ROk)), C02_failure_never_lost (later
   from init, the chain ran through, no stop callback) and C02_failure_leaves_clean_state (creach + chain): the step that
   processes the failed G0 with its two waiters *)
Theorem C02_ex_step_processing_G0 :
  creach xcodes (xS 5) /\ later xcodes (init_state 0) (xS 5) /\
  step 50 xcodes (xS 5) = (xS 6, ROk) /\ pop_min (agenda (xS 5)) = Some (xm, xrest) /\
  get_event (e_ev xm) (xS 5) = Some xevG0 /\ cbs xevG0 = Some [CbResume 0; CbResume 1] /\
  cb_chain 50 xcodes (e_ev xm) [CbResume 0; CbResume 1] (loop_start xm xrest (xS 5)) (xS 6) /\
  (forall c, In c [CbResume 0; CbResume 1] -> is_stop_cb c = false) /\
  get_event (e_ev xm) (loop_start xm xrest (xS 5)) = Some (ev_set_cbs None xevG0) /\ cbs (ev_set_cbs None xevG0) = None /\
  (* what the theorems say *)
  (forall s'', later xcodes (xS 6) s'' -> exists ev'', get_event (e_ev xm) s'' = Some ev'' /\ cbs ev'' = None) /\
  (exists ev', get_event (e_ev xm) (xS 6) = Some ev' /\ cbs ev' = None) /\
  step_clean 50 xcodes (xS 5) /\
  (exists ev', get_event (e_ev xm) (xS 6) = Some ev' /\
     match out ev' with
     | Some (Fail x) => if defused ev' then ROk = ROk else ROk = RRaise x
     | Some (Ok _) => ROk = ROk
     | None => False
     end) /\
  get_event 0 (xS 6) = Some (mkEvent None (Some (Fail xexn)) true KPlain) /\
  (fst (step 50 xcodes (xS 5)) = xS 6 /\ creach xcodes (xS 6)).
Proof.
  assert (R : creach xcodes (xS 5)) by (apply xS_creach; vm_compute; reflexivity).
  assert (L : later xcodes (init_state 0) (xS 5)) by apply xS_later.
  assert (St : step 50 xcodes (xS 5) = (xS 6, ROk)) by (vm_compute; reflexivity).
  assert (P : pop_min (agenda (xS 5)) = Some (xm, xrest)) by (vm_compute; reflexivity).
  assert (G : get_event (e_ev xm) (xS 5) = Some xevG0) by (vm_compute; reflexivity).
  assert (C : cbs xevG0 = Some [CbResume 0; CbResume 1]) by reflexivity.
  assert (Ch := x_chain_AB).
  assert (NS : forall c, In c [CbResume 0; CbResume 1] -> is_stop_cb c = false)
    by (intros c [<-|[<-|[]]]; reflexivity).
  assert (G' : get_event (e_ev xm) (loop_start xm xrest (xS 5)) = Some (ev_set_cbs None xevG0))
    by (vm_compute; reflexivity).
  assert (C' : cbs (ev_set_cbs None xevG0) = None) by reflexivity.
  split; [exact R|]. split; [exact L|]. split; [exact St|]. split; [exact P|]. split; [exact G|]. split; [exact C|].
  split; [exact Ch|]. split; [exact NS|]. split; [exact G'|]. split; [exact C'|].
  split; [exact (proj2 (proj2 (callbacks_exactly_once _ _ _ _ _ _ _ _ _ St P G C)))|].
  split; [exact (cb_chain_processed _ _ _ _ _ _ _ Ch G' C')|].
  split; [exact (step_ok_clean _ _ _ _ St)|].
  split; [exact (failure_never_lost _ _ _ _ _ _ _ _ _ _ L St P G C Ch NS)|].
  split; [vm_compute; reflexivity|].
  exact (failure_leaves_clean_state _ _ _ _ _ _ _ _ R P G C Ch).
Qed.
Print Assumptions C02_ex_step_processing_G0.

(* covers C02_waiter_invariant_inside_loop, C02_resume_gets_outcome, C02_value_stable_in_loop,
   C02_delivered_is_triggered_outcome, C02_wellformed_inside_step (creach / later / uinv of the state before the step, the popped
   entry, the event and its list split as pre ++ CbResume p :: post, the chain over pre): after A's callback, before B's *)
Theorem C02_ex_between_two_callbacks :
  creach xcodes (xS 5) /\ later xcodes (init_state 0) (xS 5) /\ uinv (xS 5) /\
  pop_min (agenda (xS 5)) = Some (xm, xrest) /\ get_event (e_ev xm) (xS 5) = Some xevG0 /\
  cbs xevG0 = Some ([CbResume 0] ++ CbResume 1 :: []) /\
  cb_chain (S 49) xcodes (e_ev xm) [CbResume 0] (loop_start xm xrest (xS 5)) xmid /\
  stable_kind (kind xevG0) = true /\ out xevG0 = Some (Fail xexn) /\
  (* what the theorems say: B (process 1) is still registered, waits for G0, and is fed exactly Fail User1(7) at G0's time *)
  winv (Some (e_ev xm, [CbResume 1])) None xmid /\
  (exists pr, get_proc 1 xmid = Some pr /\ ptarget pr = Some (e_ev xm) /\ now xmid = e_time xm /\
     run_cb (S 49) xcodes (e_ev xm) (CbResume 1) xmid =
       after_frag 49 xcodes 1 pr
         (run_frag xcodes (resume (pcode pr) (pst pr) (Fail xexn))
            (feed_state (e_ev xm) (Fail xexn) (set_active (Some 1) xmid)))) /\
  (exists ev' o pr,
     get_event (e_ev xm) xmid = Some ev' /\ out ev' = Some o /\
     get_proc 1 xmid = Some pr /\ ptarget pr = Some (e_ev xm) /\
     run_cb (S 49) xcodes (e_ev xm) (CbResume 1) xmid =
       after_frag 49 xcodes 1 pr
         (run_frag xcodes (resume (pcode pr) (pst pr) o) (feed_state (e_ev xm) o (set_active (Some 1) xmid))) /\
     (forall x, o = Fail x ->
        exists ev1, get_event (e_ev xm) (feed_state (e_ev xm) o (set_active (Some 1) xmid)) = Some ev1 /\
                    defused ev1 = true /\ out ev1 = Some (Fail x))) /\
  (now xmid = e_time xm /\
   forall e ev o, get_event e (xS 5) = Some ev -> stable_kind (kind ev) = true -> out ev = Some o ->
                  exists ev', get_event e xmid = Some ev' /\ out ev' = Some o) /\
  uinv (set_active (Some 1) xmid) /\
  (* A has already received and caught the exception *)
  In (OLog (Some 0) 0 (VList [VInt 1; VInt 1; VList [VInt 1; VExn (EUser 1) [VInt 7]]])) (obs xmid).
Proof.
  assert (R : creach xcodes (xS 5)) by (apply xS_creach; vm_compute; reflexivity).
  assert (L : later xcodes (init_state 0) (xS 5)) by apply xS_later.
  assert (U : uinv (xS 5)) by exact (wellformed_always _ _ _ L).
  assert (P : pop_min (agenda (xS 5)) = Some (xm, xrest)) by (vm_compute; reflexivity).
  assert (G : get_event (e_ev xm) (xS 5) = Some xevG0) by (vm_compute; reflexivity).
  assert (C : cbs xevG0 = Some ([CbResume 0] ++ CbResume 1 :: [])) by reflexivity.
  assert (Ch : cb_chain (S 49) xcodes (e_ev xm) [CbResume 0] (loop_start xm xrest (xS 5)) xmid) by exact x_chain_A.
  assert (K : stable_kind (kind xevG0) = true) by reflexivity.
  assert (O : out xevG0 = Some (Fail xexn)) by reflexivity.
  split; [exact R|]. split; [exact L|]. split; [exact U|]. split; [exact P|]. split; [exact G|]. split; [exact C|].
  split; [exact Ch|]. split; [exact K|]. split; [exact O|].
  split; [exact (waiter_invariant_inside_loop _ _ _ _ _ _ [CbResume 0] [CbResume 1] _ R G C Ch)|].
  split; [exact (delivered_is_triggered_outcome _ _ _ _ _ _ _ _ _ _ _ R P G C Ch K O)|].
  split; [exact (resume_gets_outcome _ _ _ _ _ _ _ _ _ _ R P G C Ch)|].
  split; [exact (value_stable_in_loop _ _ _ _ _ _ _ _ L P Ch)|].
  split; [exact (wellformed_inside_step _ _ _ _ _ _ _ 1 U P Ch)|].
  vm_compute. repeat ((left; reflexivity) || right).
Qed.
Print Assumptions C02_ex_between_two_callbacks.

(* covers C02_waiter_unique, C02_waiter_registered, C02_resumed_exactly_once, C02_not_resumed_by_other_events,
   C02_clean_states_wellformed, C02_clean_executions_are_executions (a clean state, a suspended process with its target, an
   event with a callback list, the entry popped next): in xS 5 A and B wait for G0 (event 0), the parent (process 3) waits for
   its child's Process event 9, and G0 is popped next *)
Theorem C02_ex_two_waiters :
  creach xcodes (xS 5) /\
  get_proc 0 (xS 5) = Some (getp 0 (xS 5)) /\ ptarget (getp 0 (xS 5)) = Some 0 /\
  get_proc 3 (xS 5) = Some (getp 3 (xS 5)) /\ ptarget (getp 3 (xS 5)) = Some 9 /\
  get_event 0 (xS 5) = Some xevG0 /\ cbs xevG0 = Some [CbResume 0; CbResume 1] /\ In (CbResume 1) [CbResume 0; CbResume 1] /\
  pop_min (agenda (xS 5)) = Some (xm, xrest) /\ get_event (e_ev xm) (xS 5) = Some xevG0 /\
  e_ev xm <> 9 /\ (forall c, In c [CbResume 0; CbResume 1] -> is_interrupt_cb c = false) /\
  (* what the theorems say *)
  (exists tev l, get_event 0 (xS 5) = Some tev /\ cbs tev = Some l /\ cnt 0 l = 1 /\
     forall x xev xl, x <> 0 -> get_event x (xS 5) = Some xev -> cbs xev = Some xl -> cnt 0 xl = 0) /\
  (exists pr, get_proc 1 (xS 5) = Some pr /\ ptarget pr = Some 0 /\ cnt 1 [CbResume 0; CbResume 1] = 1) /\
  cnt 0 [CbResume 0; CbResume 1] = (if Nat.eqb (e_ev xm) 0 then 1 else 0) /\
  cnt 3 [CbResume 0; CbResume 1] = (if Nat.eqb (e_ev xm) 9 then 1 else 0) /\
  get_proc 3 (fst (step 50 xcodes (xS 5))) = Some (getp 3 (xS 5)) /\
  (winv None None (xS 5) /\ uinv (xS 5)) /\
  (exists t0, later xcodes (init_state t0) (xS 5)).
Proof.
  assert (R : creach xcodes (xS 5)) by (apply xS_creach; vm_compute; reflexivity).
  assert (P0 : get_proc 0 (xS 5) = Some (getp 0 (xS 5))) by (vm_compute; reflexivity).
  assert (T0 : ptarget (getp 0 (xS 5)) = Some 0) by (vm_compute; reflexivity).
  assert (P3 : get_proc 3 (xS 5) = Some (getp 3 (xS 5))) by (vm_compute; reflexivity).
  assert (T3 : ptarget (getp 3 (xS 5)) = Some 9) by (vm_compute; reflexivity).
  assert (G : get_event 0 (xS 5) = Some xevG0) by (vm_compute; reflexivity).
  assert (C : cbs xevG0 = Some [CbResume 0; CbResume 1]) by reflexivity.
  assert (I : In (CbResume 1) [CbResume 0; CbResume 1]) by (cbn; tauto).
  assert (P : pop_min (agenda (xS 5)) = Some (xm, xrest)) by (vm_compute; reflexivity).
  assert (Gm : get_event (e_ev xm) (xS 5) = Some xevG0) by exact G.
  assert (N : e_ev xm <> 9) by discriminate.
  assert (NI : forall c, In c [CbResume 0; CbResume 1] -> is_interrupt_cb c = false)
    by (intros c [<-|[<-|[]]]; reflexivity).
  split; [exact R|]. split; [exact P0|]. split; [exact T0|]. split; [exact P3|]. split; [exact T3|]. split; [exact G|].
  split; [exact C|]. split; [exact I|]. split; [exact P|]. split; [exact Gm|]. split; [exact N|]. split; [exact NI|].
  split; [exact (waiter_unique _ _ _ _ _ R P0 T0)|].
  split; [exact (waiter_registered _ _ _ _ _ _ R G C I)|].
  split; [exact (resumed_exactly_once _ _ _ _ _ _ _ _ _ R P0 T0 P Gm C)|].
  split; [exact (resumed_exactly_once _ _ _ _ _ _ _ _ _ R P3 T3 P Gm C)|].
  split; [exact (not_resumed_by_other_events 50 _ _ _ _ _ _ _ _ _ R P3 T3 P Gm C N NI)|].
  split; [exact (clean_states_wellformed _ _ R)|exact (creach_later _ _ R)].
Qed.
Print Assumptions C02_ex_two_waiters.

(* covers C02_processed_forever, C02_no_append_after_processing, C02_value_stable, C02_triggered_forever,
   C02_wellformed_always (later ..; an event that is processed / triggered / of a stable kind with an outcome): G0 after its
   step, and the state in which a following run() stops (it raises B's unhandled failure) *)
Theorem C02_ex_later_states :
  later xcodes (init_state 0) (xS 6) /\ later xcodes (xS 6) (fst (run 50 xcodes UNone (xS 6))) /\
  get_event 0 (xS 6) = Some (mkEvent None (Some (Fail xexn)) true KPlain) /\
  cbs (mkEvent None (Some (Fail xexn)) true KPlain) = None /\
  out (mkEvent None (Some (Fail xexn)) true KPlain) <> None /\
  stable_kind (kind (mkEvent None (Some (Fail xexn)) true KPlain)) = true /\
  out (mkEvent None (Some (Fail xexn)) true KPlain) = Some (Fail xexn) /\
  snd (run 50 xcodes UNone (xS 6)) = RRaise xexn /\
  (* what the theorems say *)
  (exists ev', get_event 0 (fst (run 50 xcodes UNone (xS 6))) = Some ev' /\ cbs ev' = None) /\
  add_callback 0 (CbResume 2) (xS 6) = xS 6 /\
  (exists ev', get_event 0 (fst (run 50 xcodes UNone (xS 6))) = Some ev' /\ out ev' = Some (Fail xexn)) /\
  (exists ev', get_event 0 (fst (run 50 xcodes UNone (xS 6))) = Some ev' /\ out ev' <> None) /\
  uinv (fst (run 50 xcodes UNone (xS 6))).
Proof.
  assert (L0 : later xcodes (init_state 0) (xS 6)) by apply xS_later.
  assert (L1 : later xcodes (xS 6) (fst (run 50 xcodes UNone (xS 6)))) by apply later_run, later_refl.
  assert (G : get_event 0 (xS 6) = Some (mkEvent None (Some (Fail xexn)) true KPlain)) by (vm_compute; reflexivity).
  assert (C : cbs (mkEvent None (Some (Fail xexn)) true KPlain) = None) by reflexivity.
  assert (N : out (mkEvent None (Some (Fail xexn)) true KPlain) <> None) by discriminate.
  assert (K : stable_kind (kind (mkEvent None (Some (Fail xexn)) true KPlain)) = true) by reflexivity.
  assert (O : out (mkEvent None (Some (Fail xexn)) true KPlain) = Some (Fail xexn)) by reflexivity.
  split; [exact L0|]. split; [exact L1|]. split; [exact G|]. split; [exact C|]. split; [exact N|]. split; [exact K|].
  split; [exact O|]. split; [vm_compute; reflexivity|].
  split; [exact (processed_forever _ _ _ _ _ L1 G C)|].
  split; [exact (add_callback_processed _ _ _ _ G C)|].
  split; [exact (value_stable _ _ _ _ _ _ _ L0 L1 G K O)|].
  split; [exact (triggered_forever _ _ _ _ _ L1 G N)|].
  exact (wellformed_always _ _ _ (later_run _ _ _ 50 UNone L0)).
Qed.
Print Assumptions C02_ex_later_states.

(* covers C02_creach_run (creach s, run_clean), C02_failure_propagates_from_run (run_prelude = inr, ok_steps, a raising step),
   C02_run_returns_a_step_result (run_loop = ..): run(until = 5) from x0: eight normal steps, the ninth raises User1(7) *)
Theorem C02_ex_run_until :
  creach xcodes x0 /\ run_clean 50 xcodes (UNum 5) x0 /\
  run_prelude (UNum 5) x0 = inr xU /\ ok_steps 50 xcodes xU (xR 8) /\ step 50 xcodes (xR 8) = (xR 9, RRaise xexn) /\
  run_loop 50 50 xcodes (UNum 5) xU = (xR 9, RRaise xexn) /\
  (* what the theorems say *)
  creach xcodes (fst (run 50 xcodes (UNum 5) x0)) /\
  (exists k, forall n, k <= n -> run_loop n 50 xcodes (UNum 5) xU = (xR 9, RRaise xexn)) /\
  ((RRaise xexn = RFuel /\ ok_steps 50 xcodes xU (xR 9)) \/
   (exists sk rk, ok_steps 50 xcodes xU sk /\ step 50 xcodes sk = (xR 9, rk) /\ rk <> ROk /\
                  RRaise xexn = match rk with REmpty => run_empty (UNum 5) (xR 9) | _ => rk end)) /\
  run 50 xcodes (UNum 5) x0 = (xR 9, RRaise xexn) /\ (now (xR 9) == 0)%Q.
Proof.
  assert (P : run_prelude (UNum 5) x0 = inr xU) by (vm_compute; reflexivity).
  assert (O : ok_steps 50 xcodes xU (xR 8)) by (apply xR_ok_steps; vm_compute; reflexivity).
  assert (St : step 50 xcodes (xR 8) = (xR 9, RRaise xexn)) by (vm_compute; reflexivity).
  assert (RL : run_loop 50 50 xcodes (UNum 5) xU = (xR 9, RRaise xexn)) by (vm_compute; reflexivity).
  split; [exact x0_creach|]. split; [exact x_run_clean|]. split; [exact P|]. split; [exact O|]. split; [exact St|].
  split; [exact RL|].
  split; [exact (creach_run _ _ _ _ x0_creach x_run_clean)|].
  split; [exact (failure_propagates_from_run _ _ _ _ _ _ _ _ P O St)|].
  split; [exact (run_loop_spec _ _ _ _ _ _ _ RL)|].
  split; vm_compute; reflexivity.
Qed.
Print Assumptions C02_ex_run_until.

(* covers C02_resume_turn (get_event, get_proc, out) and C02_process_event_outcome (+ uinv s, the automaton's fragment ends):
   B resumed with the failure of G0 re-raises it; its Process event 3 gets exactly Fail User1(7), scheduled NORMAL behind
   everything else *)
Theorem C02_ex_resumption_that_raises :
  uinv xsB /\ get_event 0 xsB = Some (gete 0 xsB) /\ get_proc 1 xsB = Some xprB /\ out (gete 0 xsB) = Some (Fail xexn) /\
  run_frag xcodes (resume (pcode xprB) (pst xprB) (Fail xexn)) (feed_state 0 (Fail xexn) xsB) = (fst xfragB, FrRaise xexn) /\
  fres_outcome (@FrRaise (St (pcode xprB)) xexn) = Some (Fail xexn) /\
  (* what the theorems say *)
  resume_loop (S 49) xcodes 1 0 xsB =
    after_frag 49 xcodes 1 xprB
      (run_frag xcodes (resume (pcode xprB) (pst xprB) (Fail xexn)) (feed_state 0 (Fail xexn) xsB)) /\
  (exists pe,
     resume_loop (S 49) xcodes 1 0 xsB = (proc_finish 1 xprB (Fail xexn) (fst xfragB), ROk) /\
     get_event (pev xprB) (fst xfragB) = Some pe /\
     let s' := proc_finish 1 xprB (Fail xexn) (fst xfragB) in
     get_event (pev xprB) s' = Some (ev_set_out (Some (Fail xexn)) pe) /\
     agenda s' = agenda (fst xfragB) ++ [mkEntry (Qred (now (fst xfragB) + 0)%Q) NORMAL (next_eid (fst xfragB)) (pev xprB)] /\
     get_proc 1 s' = Some (proc_set_target None xprB) /\ active s' = None) /\
  pev xprB = 3 /\ agenda (proc_finish 1 xprB (Fail xexn) (fst xfragB)) = xrest ++ [mkEntry 0 NORMAL 8 1; mkEntry 0 NORMAL 9 3].
Proof.
  assert (U : uinv xsB).
  { unfold xsB. refine (wellformed_inside_step 50 xcodes (xS 5) xm xrest [CbResume 0] xmid 1 _ _ x_chain_A).
    - exact (wellformed_always _ _ _ (xS_later 5)).
    - vm_compute. reflexivity. }
  assert (G : get_event 0 xsB = Some (gete 0 xsB)) by (vm_compute; reflexivity).
  assert (P : get_proc 1 xsB = Some xprB) by (vm_compute; reflexivity).
  assert (O : out (gete 0 xsB) = Some (Fail xexn)) by (vm_compute; reflexivity).
  assert (F : run_frag xcodes (resume (pcode xprB) (pst xprB) (Fail xexn)) (feed_state 0 (Fail xexn) xsB)
              = (fst xfragB, FrRaise xexn)) by (vm_compute; reflexivity).
  assert (FO : fres_outcome (@FrRaise (St (pcode xprB)) xexn) = Some (Fail xexn)) by reflexivity.
  split; [exact U|]. split; [exact G|]. split; [exact P|]. split; [exact O|]. split; [exact F|]. split; [exact FO|].
  split; [exact (resume_loop_eq 49 xcodes 1 0 xsB _ xprB _ G P O)|].
  split; [exact (process_event_outcome 49 xcodes 1 0 xsB _ xprB _ _ _ _ U G P O F FO)|].
  split; vm_compute; reflexivity.
Qed.
Print Assumptions C02_ex_resumption_that_raises.

(* covers C02_yield_pending_waits (get_event, get_proc, out, the fragment yields an event whose callbacks are a list): the
   Initialize of A: A yields the pending G0 and is appended to its (empty) callback list *)
Theorem C02_ex_yield_pending_waits :
  pop_min (agenda x0) = Some (xmI, xrestI) /\
  get_event 2 xsI = Some (gete 2 xsI) /\ get_proc 0 xsI = Some xprA /\ out (gete 2 xsI) = Some (Ok VNone) /\
  run_frag xcodes (resume (pcode xprA) (pst xprA) (Ok VNone)) (feed_state 2 (Ok VNone) xsI)
    = (fst xfragI, FrYield (VEv 0) xaI) /\
  get_event 0 (put_proc 0 (proc_set_st xprA xaI) (fst xfragI)) = Some (mkEvent (Some []) None false KPlain) /\
  cbs (mkEvent (Some []) None false KPlain) = Some [] /\
  (* what the theorem says *)
  resume_loop (S 49) xcodes 0 2 xsI = (proc_wait 0 0 (put_proc 0 (proc_set_st xprA xaI) (fst xfragI)), ROk) /\
  get_event 0 (proc_wait 0 0 (put_proc 0 (proc_set_st xprA xaI) (fst xfragI)))
    = Some (mkEvent (Some [CbResume 0]) None false KPlain).
Proof.
  assert (G : get_event 2 xsI = Some (gete 2 xsI)) by (vm_compute; reflexivity).
  assert (P : get_proc 0 xsI = Some xprA) by (vm_compute; reflexivity).
  assert (O : out (gete 2 xsI) = Some (Ok VNone)) by (vm_compute; reflexivity).
  assert (F : run_frag xcodes (resume (pcode xprA) (pst xprA) (Ok VNone)) (feed_state 2 (Ok VNone) xsI)
              = (fst xfragI, FrYield (VEv 0) xaI)) by (vm_compute; reflexivity).
  assert (G' : get_event 0 (put_proc 0 (proc_set_st xprA xaI) (fst xfragI)) = Some (mkEvent (Some []) None false KPlain))
    by (vm_compute; reflexivity).
  assert (C' : cbs (mkEvent (Some []) None false KPlain) = Some []) by reflexivity.
  split; [vm_compute; reflexivity|]. split; [exact G|]. split; [exact P|]. split; [exact O|]. split; [exact F|].
  split; [exact G'|]. split; [exact C'|].
  split; [exact (resume_yield_pending 49 xcodes 0 2 xsI _ xprA _ _ 0 xaI _ _ G P O F G' C')|].
  vm_compute. reflexivity.
Qed.
Print Assumptions C02_ex_yield_pending_waits.

(* covers C02_yield_processed_continues (.., the fragment yields an event that is processed and has an outcome): Late, resumed
   by its timeout (event 9, value 4) at instant 1, yields G0 (event 0), processed at instant 0 with value 11: no callback is
   registered, the loop goes round and the automaton is fed Ok 11 in the same resumption *)
Theorem C02_ex_yield_processed_continues :
  pop_min (agenda (yS 7)) = Some (ymT, yrestT) /\
  get_event 9 ysT = Some (gete 9 ysT) /\ get_proc 0 ysT = Some yprL /\ out (gete 9 ysT) = Some (Ok (VInt 4)) /\
  run_frag ycodes (resume (pcode yprL) (pst yprL) (Ok (VInt 4))) (feed_state 9 (Ok (VInt 4)) ysT)
    = (fst yfragT, FrYield (VEv 0) yaT) /\
  get_event 0 (put_proc 0 (proc_set_st yprL yaT) (fst yfragT)) = Some (mkEvent None (Some (Ok (VInt 11))) false KPlain) /\
  cbs (mkEvent None (Some (Ok (VInt 11))) false KPlain) = None /\
  out (mkEvent None (Some (Ok (VInt 11))) false KPlain) = Some (Ok (VInt 11)) /\
  (* what the theorem says *)
  (let s3 := put_proc 0 (proc_set_st yprL yaT) (fst yfragT) in
   resume_loop (S (S 48)) ycodes 0 9 ysT = resume_loop (S 48) ycodes 0 0 s3 /\
   resume_loop (S 48) ycodes 0 0 s3 =
     after_frag 48 ycodes 0 (proc_set_st yprL yaT)
       (run_frag ycodes (resume (pcode yprL) yaT (Ok (VInt 11))) (feed_state 0 (Ok (VInt 11)) s3))) /\
  (* Late logged what it received from the two yields, both at instant 1 *)
  In (OLog (Some 0) 1 (VList [VInt 1; VInt 1; VList [VInt 0; VInt 4]])) (obs (yS 8)) /\
  In (OLog (Some 0) 1 (VList [VInt 1; VInt 2; VList [VInt 0; VInt 11]])) (obs (yS 8)).
Proof.
  assert (G : get_event 9 ysT = Some (gete 9 ysT)) by (vm_compute; reflexivity).
  assert (P : get_proc 0 ysT = Some yprL) by (vm_compute; reflexivity).
  assert (O : out (gete 9 ysT) = Some (Ok (VInt 4))) by (vm_compute; reflexivity).
  assert (F : run_frag ycodes (resume (pcode yprL) (pst yprL) (Ok (VInt 4))) (feed_state 9 (Ok (VInt 4)) ysT)
              = (fst yfragT, FrYield (VEv 0) yaT)) by (vm_compute; reflexivity).
  assert (G' : get_event 0 (put_proc 0 (proc_set_st yprL yaT) (fst yfragT))
               = Some (mkEvent None (Some (Ok (VInt 11))) false KPlain)) by (vm_compute; reflexivity).
  assert (C' : cbs (mkEvent None (Some (Ok (VInt 11))) false KPlain) = None) by reflexivity.
  assert (O' : out (mkEvent None (Some (Ok (VInt 11))) false KPlain) = Some (Ok (VInt 11))) by reflexivity.
  split; [vm_compute; reflexivity|]. split; [exact G|]. split; [exact P|]. split; [exact O|]. split; [exact F|].
  split; [exact G'|]. split; [exact C'|]. split; [exact O'|].
  split; [exact (yield_processed_continues 48 ycodes 0 9 ysT _ yprL _ _ 0 yaT _ _ G P O F G' C' O')|].
  split; vm_compute; repeat ((left; reflexivity) || right).
Qed.
Print Assumptions C02_ex_yield_processed_continues.

(* covers C02_succeed_once, C02_fail_once (get_event e s = Some ev, out ev <> None) and, of Props/C02_Bridge.v, C02_gen_succeed,
   C02_gen_fail, C02_gen_defused_get (get_event e s = Some ev): G0 in xS 5, failed by T and not yet processed *)
Theorem C02_ex_triggered_event :
  get_event 0 (xS 5) = Some xevG0 /\ out xevG0 <> None /\
  call_succeed 0 (VInt 0) (xS 5) = (xS 5, Fail (kexn ERuntime M_already_triggered)) /\
  call_fail 0 (VExn (EUser 9) []) (xS 5) = (xS 5, Fail (kexn ERuntime M_already_triggered)) /\
  trigger_fx 0 (VInt 0) None None (xS 5) (gen_Event_succeed (is_triggered xevG0)) = Some (call_succeed 0 (VInt 0) (xS 5)) /\
  trigger_fx 0 (VInt 3) None None (xS 5) (gen_Event_fail (is_triggered xevG0) (LeafBridge.is_exn_val (VInt 3)))
    = Some (call_fail 0 (VInt 3) (xS 5)) /\
  (call_query QDefused 0 (xS 5) = (xS 5, Ok (vbool (snd (gen_Event_defused_get (defused xevG0))))) /\
   fst (gen_Event_defused_get (defused xevG0)) = []) /\
  (* T's own second trigger, inside the run, was refused in the same way: it logged the RuntimeError *)
  In (OLog (Some 2) 0 (VList [VInt 2; VExn ERuntime [VInt M_already_triggered]])) (obs (xS 5)).
Proof.
  assert (G : get_event 0 (xS 5) = Some xevG0) by (vm_compute; reflexivity).
  assert (N : out xevG0 <> None) by discriminate.
  split; [exact G|]. split; [exact N|].
  split; [exact (succeed_triggered _ _ _ _ G N)|]. split; [exact (fail_triggered _ _ _ _ G N)|].
  split; [exact (bridge_succeed _ _ _ _ G)|]. split; [exact (bridge_fail _ _ _ _ G)|].
  split; [exact (bridge_defused_get _ _ _ G)|].
  vm_compute. repeat ((left; reflexivity) || right).
Qed.
Print Assumptions C02_ex_triggered_event.

(* covers C02_fail_non_exception (get_event, out ev = None, not an exception), C02_first_trigger (get_event) and the other
   branch of C02_gen_succeed / C02_gen_fail: G0 in x0, still pending *)
Theorem C02_ex_pending_event :
  get_event 0 x0 = Some (mkEvent (Some []) None false KPlain) /\ out (mkEvent (Some []) None false KPlain) = None /\
  Deliver.is_exn_val (VInt 3) = false /\
  call_fail 0 (VInt 3) x0 = (x0, Fail (kexn EValue M_not_exception)) /\
  (let s' := trigger_event 0 (Fail xexn) x0 in
   get_event 0 s' = Some (ev_set_out (Some (Fail xexn)) (mkEvent (Some []) None false KPlain)) /\
   agenda s' = agenda x0 ++ [mkEntry (Qred (now x0 + 0)%Q) NORMAL (next_eid x0) 0] /\
   next_eid s' = S (next_eid x0) /\ now s' = now x0 /\ procs s' = procs x0 /\
   (forall x, x <> 0 -> get_event x s' = get_event x x0)) /\
  trigger_fx 0 (VInt 1) None None x0 (gen_Event_succeed (is_triggered (mkEvent (Some []) None false KPlain)))
    = Some (call_succeed 0 (VInt 1) x0) /\
  snd (call_succeed 0 (VInt 1) x0) = Ok (VEv 0) /\
  trigger_fx 0 (VExn (EUser 1) [VInt 7]) None None x0
    (gen_Event_fail (is_triggered (mkEvent (Some []) None false KPlain)) (LeafBridge.is_exn_val (VExn (EUser 1) [VInt 7])))
    = Some (call_fail 0 (VExn (EUser 1) [VInt 7]) x0) /\
  fst (call_fail 0 (VExn (EUser 1) [VInt 7]) x0) = trigger_event 0 (Fail xexn) x0.
Proof.
  assert (G : get_event 0 x0 = Some (mkEvent (Some []) None false KPlain)) by (vm_compute; reflexivity).
  assert (O : out (mkEvent (Some []) None false KPlain) = None) by reflexivity.
  assert (X : Deliver.is_exn_val (VInt 3) = false) by reflexivity.
  split; [exact G|]. split; [exact O|]. split; [exact X|].
  split; [exact (fail_non_exception _ _ _ _ G O X)|].
  split; [exact (trigger_event_spec _ (Fail xexn) _ _ G)|].
  split; [exact (bridge_succeed _ _ _ _ G)|]. split; [vm_compute; reflexivity|].
  split; [exact (bridge_fail _ _ _ _ G)|]. vm_compute. reflexivity.
Qed.
Print Assumptions C02_ex_pending_event.

(* covers C02_timeout_carries_value (neg_delay d = false): timeout(3/2, 42) created in xS 5 *)
Theorem C02_ex_timeout_carries_value :
  neg_delay (3 # 2) = false /\
  (let e := length (events (xS 5)) in
   exists s', call_timeout (3 # 2) (VInt 42) (xS 5) = (s', Ok (VEv e)) /\
     get_event e s' = Some (mkEvent (Some []) (Some (Ok (VInt 42))) false KTimeout) /\
     agenda s' = agenda (xS 5) ++ [mkEntry (Qred (now (xS 5) + (3 # 2))%Q) NORMAL (next_eid (xS 5)) e]) /\
  length (events (xS 5)) = 12 /\ Qred (now (xS 5) + (3 # 2))%Q = (3 # 2)%Q.
Proof.
  assert (H : neg_delay (3 # 2) = false) by reflexivity.
  split; [exact H|]. split; [exact (timeout_carries_value _ (VInt 42) (xS 5) H)|]. split; vm_compute; reflexivity.
Qed.
Print Assumptions C02_ex_timeout_carries_value.

(* covers C02_cond_check_defuses (the check changes some `defused` mark): the step that processes G1 (event 1, failed with
   User2(3), callbacks [CbCheck 10]): the check of condition 10 takes the failure over and defuses G1 *)
Theorem C02_ex_cond_check_defuses :
  pop_min (agenda (yS 4)) = Some (ymG1, yrestG1) /\
  get_event 1 yLG1 = Some (mkEvent None (Some (Fail yexn2)) false KPlain) /\
  defused_at (cond_check 10 1 yLG1) 1 <> defused_at yLG1 1 /\
  defused_at yLG1 1 = Some false /\ defused_at (cond_check 10 1 yLG1) 1 = Some true /\
  (1 = 1 /\ exists cev oev fx cev',
     get_event 10 yLG1 = Some cev /\ out cev = None /\ get_event 1 yLG1 = Some oev /\ out oev = Some (Fail fx) /\
     get_event 10 (cond_check 10 1 yLG1) = Some cev' /\ out cev' = Some (Fail fx)) /\
  (* the waiting process then receives that exception from the condition and catches it *)
  In (OLog (Some 1) 0 (VList [VInt 1; VInt 3; VList [VInt 1; VExn (EUser 2) [VInt 3]]])) (obs (yS 6)).
Proof.
  assert (D : defused_at (cond_check 10 1 yLG1) 1 <> defused_at yLG1 1) by (vm_compute; discriminate).
  split; [vm_compute; reflexivity|]. split; [vm_compute; reflexivity|]. split; [exact D|].
  split; [vm_compute; reflexivity|]. split; [vm_compute; reflexivity|].
  split; [exact (cond_check_defuses _ _ _ _ D)|]. vm_compute. repeat ((left; reflexivity) || right).
Qed.
Print Assumptions C02_ex_cond_check_defuses.

(* covers C02_only_handlers_defuse (is_handler c = false): the probe on G2, called for the failed, undefused G2 *)
Theorem C02_ex_only_handlers_defuse :
  is_handler (CbProbe 1) = false /\
  (forall x, defused_at (fst (run_cb 50 ycodes 2 (CbProbe 1) yLG2)) x = defused_at yLG2 x) /\
  defused_at yLG2 2 = Some false /\ fst (run_cb 50 ycodes 2 (CbProbe 1) yLG2) = yS 11.
Proof.
  assert (H : is_handler (CbProbe 1) = false) by reflexivity.
  split; [exact H|]. split; [exact (only_handlers_defuse 50 ycodes 2 (CbProbe 1) yLG2 H)|]. split; vm_compute; reflexivity.
Qed.
Print Assumptions C02_ex_only_handlers_defuse.

(* covers C02_undefused_without_handler (all hypotheses), C02_failure_never_lost (raising case) and
   C02_failure_leaves_clean_state: G2 (event 2) failed with User3(9) by Trig at instant 2, only a probe among its callbacks:
   step() raises exactly User3(9) at instant 2, and the state it leaves is clean *)
Theorem C02_ex_unhandled_failure :
  creach ycodes (yS 10) /\ later ycodes (init_state 0) (yS 10) /\
  step 50 ycodes (yS 10) = (yS 11, RRaise yexn3) /\ pop_min (agenda (yS 10)) = Some (ymG2, yrestG2) /\
  get_event (e_ev ymG2) (yS 10) = Some yevG2 /\ cbs yevG2 = Some [CbProbe 1] /\
  out yevG2 = Some (Fail yexn3) /\ defused yevG2 = false /\ stable_kind (kind yevG2) = true /\
  (forall c, In c [CbProbe 1] -> is_handler c = false) /\ (forall c, In c [CbProbe 1] -> is_stop_cb c = false) /\
  cb_chain 50 ycodes (e_ev ymG2) [CbProbe 1] (loop_start ymG2 yrestG2 (yS 10)) (yS 11) /\
  (* what the theorems say *)
  (RRaise yexn3 = RRaise yexn3 /\ now (yS 11) = e_time ymG2) /\ e_time ymG2 = 2%Q /\
  (exists ev', get_event (e_ev ymG2) (yS 11) = Some ev' /\
     match out ev' with
     | Some (Fail x) => if defused ev' then RRaise yexn3 = ROk else RRaise yexn3 = RRaise x
     | Some (Ok _) => RRaise yexn3 = ROk
     | None => False
     end) /\
  (fst (step 50 ycodes (yS 10)) = yS 11 /\ creach ycodes (yS 11)) /\
  In (OProbe 1 2 2 (Some (Fail yexn3))) (obs (yS 11)).
Proof.
  assert (R : creach ycodes (yS 10)) by (apply yS_creach; vm_compute; reflexivity).
  assert (L : later ycodes (init_state 0) (yS 10)) by apply yS_later.
  assert (St : step 50 ycodes (yS 10) = (yS 11, RRaise yexn3)) by (vm_compute; reflexivity).
  assert (P : pop_min (agenda (yS 10)) = Some (ymG2, yrestG2)) by (vm_compute; reflexivity).
  assert (G : get_event (e_ev ymG2) (yS 10) = Some yevG2) by (vm_compute; reflexivity).
  assert (C : cbs yevG2 = Some [CbProbe 1]) by reflexivity.
  assert (O : out yevG2 = Some (Fail yexn3)) by reflexivity.
  assert (D : defused yevG2 = false) by reflexivity.
  assert (K : stable_kind (kind yevG2) = true) by reflexivity.
  assert (NH : forall c, In c [CbProbe 1] -> is_handler c = false) by (intros c [<-|[]]; reflexivity).
  assert (NS : forall c, In c [CbProbe 1] -> is_stop_cb c = false) by (intros c [<-|[]]; reflexivity).
  assert (Ch := y_chain_G2).
  split; [exact R|]. split; [exact L|]. split; [exact St|]. split; [exact P|]. split; [exact G|]. split; [exact C|].
  split; [exact O|]. split; [exact D|]. split; [exact K|]. split; [exact NH|]. split; [exact NS|]. split; [exact Ch|].
  split; [exact (undefused_without_handler _ _ _ _ _ _ _ _ _ _ _ L St P G C O D K NH Ch)|]. split; [reflexivity|].
  split; [exact (failure_never_lost _ _ _ _ _ _ _ _ _ _ L St P G C Ch NS)|].
  split; [exact (failure_leaves_clean_state _ _ _ _ _ _ _ _ R P G C Ch)|].
  vm_compute. repeat ((left; reflexivity) || right).
Qed.
Print Assumptions C02_ex_unhandled_failure.

(* covers C02_gen_step of Props/C02_Bridge.v (snd (step fuel codes s) <> RBroken): the raising step above, and the
   step that processes G0 with its two waiters, through the body of Environment.step translated from the tree under test *)
Theorem C02_ex_gen_step :
  snd (step 50 ycodes (yS 10)) <> RBroken /\ snd (step 50 ycodes (yS 10)) = RRaise yexn3 /\
  step_fx 50 ycodes (yS 10) (step_gen 50 ycodes (yS 10)) = Some (step 50 ycodes (yS 10)) /\
  snd (step 50 xcodes (xS 5)) <> RBroken /\
  step_fx 50 xcodes (xS 5) (step_gen 50 xcodes (xS 5)) = Some (step 50 xcodes (xS 5)).
Proof.
  assert (H1 : snd (step 50 ycodes (yS 10)) <> RBroken) by (vm_compute; discriminate).
  assert (H2 : snd (step 50 xcodes (xS 5)) <> RBroken) by (vm_compute; discriminate).
  split; [exact H1|]. split; [vm_compute; reflexivity|]. split; [exact (bridge_step _ _ _ H1)|].
  split; [exact H2|exact (bridge_step _ _ _ H2)].
Qed.
Print Assumptions C02_ex_gen_step.
