(* C02 -- every waiter gets an event's outcome exactly once; failures are never lost.
   Only statements, closed by the lemma that proves them, and their assumptions.  Proofs: Kernel/Deliver.v (facts that hold in
   every state), DeliverInv.v (the waiter invariant), DeliverWf.v (well-formedness in every execution), DeliverThm.v,
   DeliverVal.v (outcomes do not change between trigger and delivery), DeliverMore.v.

   All theorems are about Kernel/Model.v: [step], [run_loop], [run_cb], [resume_loop], [call_succeed], [call_fail] ... and hold
   for every table of process automata [codes : list prog] (any number of processes, any state types, any arguments).

   Executions.
     later codes s s'      s' is reached from s by any sequence of module-level code (exec_top), step() and run(), with any fuel
                           and whatever they return.
     creach codes s        s is reached from an initial state by module-level code, the prelude of run() (the stop callback is
                           appended) and CLEAN steps -- steps whose callback loop ran through all callbacks (step_clean).  A step
                           that raises the undefused failure of its event, or the remembered stop of run(until), after the loop
                           is clean; an exception escaping from the MIDDLE of the loop (an invalid yield, an interrupt of a
                           process whose target is being processed) makes the real kernel drop the remaining callbacks, and
                           nothing is claimed after it (DESIGN.md section 4, hypothesis (ii)).
     cb_chain fuel codes e l s s'   the callbacks l were invoked for event e, in list order, each once, none ending the loop
                           (cb_ok: the callback returned, or it is the stop callback of run(until) whose StopSimulation /
                           failure step() remembers and raises after the loop -- the repaired step()), from state s to s'.
     loop_start m rest s   the state in which the callback loop of the step that pops agenda entry m starts.
     cnt p l               number of occurrences of CbResume p in l.
     after_frag, feed_state   what Process._resume does after / before running the generator (Kernel/Deliver.v). *)
From Coq Require Import ZArith QArith List.
From ONL Require Import Kernel.Model Kernel.Keys Kernel.Deliver Kernel.DeliverInv Kernel.DeliverWf Kernel.DeliverThm
  Kernel.DeliverVal Kernel.DeliverMore.
Import ListNotations.
Local Open Scope nat_scope.

(* ---- callbacks_exactly_once ------------------------------------------------------------------------------------------- *)

(* The step that processes e takes e's callback list away (cbs e = None before the first callback runs), invokes exactly that
   list in order, each element once -- all of it unless a callback lets an exception escape -- and e stays processed in every
   later state of every execution, so no callback of e is ever invoked again. *)
Theorem C02_callbacks_exactly_once : forall fuel codes s s' r m rest ev l,
  step fuel codes s = (s', r) -> pop_min (agenda s) = Some (m, rest) ->
  get_event (e_ev m) s = Some ev -> cbs ev = Some l ->
  get_event (e_ev m) (loop_start m rest s) = Some (ev_set_cbs None ev) /\
  ((cb_chain fuel codes (e_ev m) l (loop_start m rest s) s' /\
    (r = check_failure (e_ev m) s' \/ is_exit r = true) /\
    ((forall c, In c l -> is_stop_cb c = false) -> r = check_failure (e_ev m) s')) \/
   (exists pre c post smid, l = pre ++ c :: post /\ cb_chain fuel codes (e_ev m) pre (loop_start m rest s) smid /\
                            run_cb fuel codes (e_ev m) c smid = (s', r) /\ ~ cb_ok c r)) /\
  (forall s'', later codes s' s'' -> exists ev'', get_event (e_ev m) s'' = Some ev'' /\ cbs ev'' = None).
Proof. exact callbacks_exactly_once. Qed.
Print Assumptions C02_callbacks_exactly_once.

(* processed is forever, in every execution (no cleanliness needed) ... *)
Theorem C02_processed_forever : forall codes s s' e ev,
  later codes s s' -> get_event e s = Some ev -> cbs ev = None ->
  exists ev', get_event e s' = Some ev' /\ cbs ev' = None.
Proof. exact processed_forever. Qed.
Print Assumptions C02_processed_forever.

(* ... and nothing can be appended to the callbacks of a processed event *)
Theorem C02_no_append_after_processing : forall e c s ev,
  get_event e s = Some ev -> cbs ev = None -> add_callback e c s = s.
Proof. exact add_callback_processed. Qed.
Print Assumptions C02_no_append_after_processing.

(* while the loop runs, the event is already processed: a callback that yields it again is not appended but continues *)
Theorem C02_processed_during_loop : forall fuel codes e l s s' ev,
  cb_chain fuel codes e l s s' -> get_event e s = Some ev -> cbs ev = None ->
  exists ev', get_event e s' = Some ev' /\ cbs ev' = None.
Proof. exact cb_chain_processed. Qed.
Print Assumptions C02_processed_during_loop.

(* ---- waiter_unique ---------------------------------------------------------------------------------------------------- *)

(* the invariant, in every clean state: a suspended process occurs as CbResume in exactly one callback list, that of its
   target, exactly once *)
Theorem C02_waiter_unique : forall codes s p pr t,
  creach codes s -> get_proc p s = Some pr -> ptarget pr = Some t ->
  exists tev l, get_event t s = Some tev /\ cbs tev = Some l /\ cnt p l = 1 /\
    forall x xev xl, x <> t -> get_event x s = Some xev -> cbs xev = Some xl -> cnt p xl = 0.
Proof. exact waiter_unique. Qed.
Print Assumptions C02_waiter_unique.

(* conversely a CbResume p sits only in the list of the event p is waiting for (running and dead processes: nowhere) *)
Theorem C02_waiter_registered : forall codes s x xev xl p,
  creach codes s -> get_event x s = Some xev -> cbs xev = Some xl -> In (CbResume p) xl ->
  exists pr, get_proc p s = Some pr /\ ptarget pr = Some x /\ cnt p xl = 1.
Proof. exact waiter_registered. Qed.
Print Assumptions C02_waiter_registered.

Theorem C02_cnt_In : forall p l, cnt p l <> 0 <-> In (CbResume p) l.
Proof. exact cnt_In. Qed.
Print Assumptions C02_cnt_In.

(* with callbacks_exactly_once: the step that processes p's target invokes CbResume p exactly once, the step that processes
   any other event does not invoke it *)
Theorem C02_resumed_exactly_once : forall codes s p pr t m rest ev l,
  creach codes s -> get_proc p s = Some pr -> ptarget pr = Some t ->
  pop_min (agenda s) = Some (m, rest) -> get_event (e_ev m) s = Some ev -> cbs ev = Some l ->
  cnt p l = if Nat.eqb (e_ev m) t then 1 else 0.
Proof. exact resumed_exactly_once. Qed.
Print Assumptions C02_resumed_exactly_once.

(* the invariant also holds in the middle of the loop, for the part of the list not yet invoked (winv, DeliverInv.v) *)
Theorem C02_waiter_invariant_inside_loop : forall codes fuel s m rest ev pre post smid,
  creach codes s -> get_event (e_ev m) s = Some ev -> cbs ev = Some (pre ++ post) ->
  cb_chain fuel codes (e_ev m) pre (loop_start m rest s) smid ->
  winv (Some (e_ev m, post)) None smid.
Proof. exact waiter_invariant_inside_loop. Qed.
Print Assumptions C02_waiter_invariant_inside_loop.

Theorem C02_clean_states_wellformed : forall codes s, creach codes s -> winv None None s /\ uinv s.
Proof. exact clean_states_wellformed. Qed.
Print Assumptions C02_clean_states_wellformed.

Theorem C02_clean_executions_are_executions : forall codes s, creach codes s -> exists t0, later codes (init_state t0) s.
Proof. exact creach_later. Qed.
Print Assumptions C02_clean_executions_are_executions.

(* clean executions: closed under run() whose steps are clean; every step that returns normally is clean *)
Theorem C02_creach_run : forall codes fuel u s,
  creach codes s -> run_clean fuel codes u s -> creach codes (fst (run fuel codes u s)).
Proof. exact creach_run. Qed.
Print Assumptions C02_creach_run.

Theorem C02_normal_step_is_clean : forall fuel codes s s', step fuel codes s = (s', ROk) -> step_clean fuel codes s.
Proof. exact step_ok_clean. Qed.
Print Assumptions C02_normal_step_is_clean.

(* ---- resume_gets_outcome ---------------------------------------------------------------------------------------------- *)

(* The invocation of CbResume p caused by processing e: e has an outcome o (no RBroken), p exists and is waiting for e, and
   p's automaton is run on exactly o -- Ok v with the value of e, or Fail x with the exception of e (same class and args) --
   in a state in which e is already marked defused if it failed. *)
Theorem C02_resume_gets_outcome : forall fuel codes s m rest ev pre p post smid,
  creach codes s -> pop_min (agenda s) = Some (m, rest) -> get_event (e_ev m) s = Some ev ->
  cbs ev = Some (pre ++ CbResume p :: post) ->
  cb_chain (S fuel) codes (e_ev m) pre (loop_start m rest s) smid ->
  exists ev' o pr,
    get_event (e_ev m) smid = Some ev' /\ out ev' = Some o /\
    get_proc p smid = Some pr /\ ptarget pr = Some (e_ev m) /\
    run_cb (S fuel) codes (e_ev m) (CbResume p) smid =
      after_frag fuel codes p pr
        (run_frag codes (resume (pcode pr) (pst pr) o) (feed_state (e_ev m) o (set_active (Some p) smid))) /\
    (forall x, o = Fail x ->
       exists ev1, get_event (e_ev m) (feed_state (e_ev m) o (set_active (Some p) smid)) = Some ev1 /\
                   defused ev1 = true /\ out ev1 = Some (Fail x)).
Proof. exact resume_gets_outcome. Qed.
Print Assumptions C02_resume_gets_outcome.

(* every turn of Process._resume's loop, in any state: the automaton is fed the outcome of the event at hand *)
Theorem C02_resume_turn : forall f codes p e s ev pr o,
  get_event e s = Some ev -> get_proc p s = Some pr -> out ev = Some o ->
  resume_loop (S f) codes p e s =
  after_frag f codes p pr (run_frag codes (resume (pcode pr) (pst pr) o) (feed_state e o s)).
Proof. exact resume_loop_eq. Qed.
Print Assumptions C02_resume_turn.

(* "v = the value of e": for every kind of event except Process events and conditions (whose value is set by the generator's
   end / built by the condition's own first callback) the outcome an event got when it was triggered is the outcome it has in
   every later state of every execution ... *)
Theorem C02_value_stable : forall codes t0 s s' e ev o,
  later codes (init_state t0) s -> later codes s s' ->
  get_event e s = Some ev -> stable_kind (kind ev) = true -> out ev = Some o ->
  exists ev', get_event e s' = Some ev' /\ out ev' = Some o.
Proof. exact value_stable. Qed.
Print Assumptions C02_value_stable.

(* ... and between the callbacks of a step, during which the clock stands still ... *)
Theorem C02_value_stable_in_loop : forall fuel codes t0 s m rest pre smid,
  later codes (init_state t0) s -> pop_min (agenda s) = Some (m, rest) ->
  cb_chain fuel codes (e_ev m) pre (loop_start m rest s) smid ->
  now smid = e_time m /\
  forall e ev o, get_event e s = Some ev -> stable_kind (kind ev) = true -> out ev = Some o ->
                 exists ev', get_event e smid = Some ev' /\ out ev' = Some o.
Proof. exact value_stable_in_loop. Qed.
Print Assumptions C02_value_stable_in_loop.

(* ... so each waiter is fed the outcome the event had when the step began (= when it was triggered), at the event's time *)
Theorem C02_delivered_is_triggered_outcome : forall fuel codes s m rest ev pre p post smid o,
  creach codes s -> pop_min (agenda s) = Some (m, rest) -> get_event (e_ev m) s = Some ev ->
  cbs ev = Some (pre ++ CbResume p :: post) ->
  cb_chain (S fuel) codes (e_ev m) pre (loop_start m rest s) smid ->
  stable_kind (kind ev) = true -> out ev = Some o ->
  exists pr, get_proc p smid = Some pr /\ ptarget pr = Some (e_ev m) /\ now smid = e_time m /\
    run_cb (S fuel) codes (e_ev m) (CbResume p) smid =
      after_frag fuel codes p pr
        (run_frag codes (resume (pcode pr) (pst pr) o) (feed_state (e_ev m) o (set_active (Some p) smid))).
Proof. exact delivered_is_triggered_outcome. Qed.
Print Assumptions C02_delivered_is_triggered_outcome.

(* env.timeout(d, v) with d >= 0 creates a triggered event with outcome Ok v, due at now + d *)
Theorem C02_timeout_carries_value : forall d v s,
  neg_delay d = false ->
  let e := length (events s) in
  exists s', call_timeout d v s = (s', Ok (VEv e)) /\
    get_event e s' = Some (mkEvent (Some []) (Some (Ok v)) false KTimeout) /\
    agenda s' = agenda s ++ [mkEntry (Qred (now s + d)%Q) NORMAL (next_eid s) e].
Proof. exact timeout_carries_value. Qed.
Print Assumptions C02_timeout_carries_value.

(* ---- yield_processed_continues ---------------------------------------------------------------------------------------- *)

(* The generator yields an event e' that is already processed: no callback is registered, _resume does not return, the loop
   goes round and feeds the automaton -- in the state it yielded in -- the outcome of e'.  The statement composes with itself:
   any number of such yields in a row stay inside one resumption (only the explicit fuel bounds them). *)
Theorem C02_yield_processed_continues : forall f codes p e s ev pr o s2 e' a ev' o',
  get_event e s = Some ev -> get_proc p s = Some pr -> out ev = Some o ->
  run_frag codes (resume (pcode pr) (pst pr) o) (feed_state e o s) = (s2, FrYield (VEv e') a) ->
  let s3 := put_proc p (proc_set_st pr a) s2 in
  get_event e' s3 = Some ev' -> cbs ev' = None -> out ev' = Some o' ->
  resume_loop (S (S f)) codes p e s = resume_loop (S f) codes p e' s3 /\
  resume_loop (S f) codes p e' s3 =
    after_frag f codes p (proc_set_st pr a) (run_frag codes (resume (pcode pr) a o') (feed_state e' o' s3)).
Proof. exact yield_processed_continues. Qed.
Print Assumptions C02_yield_processed_continues.

(* a process that is not waiting for the processed event is left alone: same automaton state, same target, whatever the step
   does and returns (an Interruption event is the one exception, C04) *)
Theorem C02_not_resumed_by_other_events : forall fuel codes s q prq t m rest ev l,
  creach codes s -> get_proc q s = Some prq -> ptarget prq = Some t ->
  pop_min (agenda s) = Some (m, rest) -> get_event (e_ev m) s = Some ev -> cbs ev = Some l ->
  e_ev m <> t -> (forall c, In c l -> is_interrupt_cb c = false) ->
  get_proc q (fst (step fuel codes s)) = Some prq.
Proof. exact not_resumed_by_other_events. Qed.
Print Assumptions C02_not_resumed_by_other_events.

(* a pending event instead: the process is appended to its callbacks and _resume returns *)
Theorem C02_yield_pending_waits : forall f codes p e s ev pr o s2 e' a ev' l,
  get_event e s = Some ev -> get_proc p s = Some pr -> out ev = Some o ->
  run_frag codes (resume (pcode pr) (pst pr) o) (feed_state e o s) = (s2, FrYield (VEv e') a) ->
  get_event e' (put_proc p (proc_set_st pr a) s2) = Some ev' -> cbs ev' = Some l ->
  resume_loop (S f) codes p e s = (proc_wait p e' (put_proc p (proc_set_st pr a) s2), ROk).
Proof. exact resume_yield_pending. Qed.
Print Assumptions C02_yield_pending_waits.

(* ---- trigger_once ----------------------------------------------------------------------------------------------------- *)

Theorem C02_succeed_once : forall e v s ev,
  get_event e s = Some ev -> out ev <> None ->
  call_succeed e v s = (s, Fail (kexn ERuntime M_already_triggered)).
Proof. exact succeed_triggered. Qed.
Print Assumptions C02_succeed_once.

Theorem C02_fail_once : forall e x s ev,
  get_event e s = Some ev -> out ev <> None ->
  call_fail e x s = (s, Fail (kexn ERuntime M_already_triggered)).
Proof. exact fail_triggered. Qed.
Print Assumptions C02_fail_once.

Theorem C02_fail_non_exception : forall e x s ev,
  get_event e s = Some ev -> out ev = None -> is_exn_val x = false ->
  call_fail e x s = (s, Fail (kexn EValue M_not_exception)).
Proof. exact fail_non_exception. Qed.
Print Assumptions C02_fail_non_exception.

(* the first trigger sets exactly the outcome passed and schedules the event NORMAL with delay 0 behind everything else *)
Theorem C02_first_trigger : forall e o s ev,
  get_event e s = Some ev ->
  let s' := trigger_event e o s in
  get_event e s' = Some (ev_set_out (Some o) ev) /\
  agenda s' = agenda s ++ [mkEntry (Qred (now s + 0)%Q) NORMAL (next_eid s) e] /\
  next_eid s' = S (next_eid s) /\ now s' = now s /\ procs s' = procs s /\
  (forall x, x <> e -> get_event x s' = get_event x s).
Proof. exact trigger_event_spec. Qed.
Print Assumptions C02_first_trigger.

(* once triggered, triggered in every later state of every execution (so the refusal is permanent) *)
Theorem C02_triggered_forever : forall codes s s' e ev,
  later codes s s' -> get_event e s = Some ev -> out ev <> None ->
  exists ev', get_event e s' = Some ev' /\ out ev' <> None.
Proof. exact triggered_forever. Qed.
Print Assumptions C02_triggered_forever.

(* ---- process_event_outcome -------------------------------------------------------------------------------------------- *)

(* well-formedness in EVERY execution (also across exceptions escaping from anywhere): agenda entries name existing triggered
   events, every process has its Process event; it is kept by every callback and every module-level call *)
Theorem C02_wellformed_always : forall codes t0 s, later codes (init_state t0) s -> uinv s.
Proof. exact wellformed_always. Qed.
Print Assumptions C02_wellformed_always.

Theorem C02_wellformed_inside_step : forall fuel codes s m rest pre smid p,
  uinv s -> pop_min (agenda s) = Some (m, rest) -> cb_chain fuel codes (e_ev m) pre (loop_start m rest s) smid ->
  uinv (set_active (Some p) smid).
Proof. exact wellformed_inside_step. Qed.
Print Assumptions C02_wellformed_inside_step.

(* When the automaton returns v / raises x, _resume triggers the process's own event with exactly that outcome, scheduled
   NORMAL with delay 0 behind everything else; the process has no target any more and nothing is active. *)
Theorem C02_process_event_outcome : forall f codes p e s ev pr o s2 (res : fres (St (pcode pr))) oc,
  uinv s -> get_event e s = Some ev -> get_proc p s = Some pr -> out ev = Some o ->
  run_frag codes (resume (pcode pr) (pst pr) o) (feed_state e o s) = (s2, res) -> fres_outcome res = Some oc ->
  exists pe,
    resume_loop (S f) codes p e s = (proc_finish p pr oc s2, ROk) /\
    get_event (pev pr) s2 = Some pe /\
    let s' := proc_finish p pr oc s2 in
    get_event (pev pr) s' = Some (ev_set_out (Some oc) pe) /\
    agenda s' = agenda s2 ++ [mkEntry (Qred (now s2 + 0)%Q) NORMAL (next_eid s2) (pev pr)] /\
    get_proc p s' = Some (proc_set_target None pr) /\ active s' = None.
Proof. exact process_event_outcome. Qed.
Print Assumptions C02_process_event_outcome.

(* ---- failure_never_lost ----------------------------------------------------------------------------------------------- *)

(* In every execution: when every callback of the processed event was invoked, the event has an outcome (no RBroken), and
   step() returns normally iff it succeeded or its failure was defused; otherwise step() raises exactly that exception.
   (Stated for events that are not the until-event of the running run(): for that one the remembered stop is raised -- the
   value, or the failure itself whether defused or not; C02_undefused_without_handler covers it, the rest is C03.) *)
Theorem C02_failure_never_lost : forall fuel codes t0 s s' r m rest ev l,
  later codes (init_state t0) s ->
  step fuel codes s = (s', r) -> pop_min (agenda s) = Some (m, rest) ->
  get_event (e_ev m) s = Some ev -> cbs ev = Some l ->
  cb_chain fuel codes (e_ev m) l (loop_start m rest s) s' ->
  (forall c, In c l -> is_stop_cb c = false) ->
  exists ev', get_event (e_ev m) s' = Some ev' /\
    match out ev' with
    | Some (Fail x) => if defused ev' then r = ROk else r = RRaise x
    | Some (Ok _) => r = ROk
    | None => False
    end.
Proof. exact failure_never_lost. Qed.
Print Assumptions C02_failure_never_lost.

(* the converse: `defused` is set in exactly two places -- (1) Process._resume, on the failed event it throws into the generator,
   before throwing; (2) Condition._check, on a failed operand whose exception the still pending condition takes over -- *)
Theorem C02_feed_defuses : forall e o s x,
  defused_at (feed_state e o s) x =
  match o with Fail _ => if Nat.eqb x e then option_map (fun _ => true) (get_event x s) else defused_at s x | Ok _ => defused_at s x end.
Proof. exact feed_defuses. Qed.
Print Assumptions C02_feed_defuses.

Theorem C02_cond_check_defuses : forall c op s x,
  defused_at (cond_check c op s) x <> defused_at s x ->
  x = op /\ exists cev oev fx cev',
    get_event c s = Some cev /\ out cev = None /\ get_event op s = Some oev /\ out oev = Some (Fail fx) /\
    get_event c (cond_check c op s) = Some cev' /\ out cev' = Some (Fail fx).
Proof. exact cond_check_defuses. Qed.
Print Assumptions C02_cond_check_defuses.

(* -- callbacks that are neither a resumption, an interruption nor a condition check change no `defused` mark -- *)
Theorem C02_only_handlers_defuse : forall fuel codes e c s,
  is_handler c = false -> forall x, defused_at (fst (run_cb fuel codes e c s)) x = defused_at s x.
Proof. exact only_handlers_defuse. Qed.
Print Assumptions C02_only_handlers_defuse.

(* -- hence a failed event with no process, interrupt or condition among its callbacks (probes, the stop callback ...) is
   undefused after the loop and step() raises its exception, at the event's time *)
Theorem C02_undefused_without_handler : forall fuel codes t0 s s' r m rest ev l x,
  later codes (init_state t0) s ->
  step fuel codes s = (s', r) -> pop_min (agenda s) = Some (m, rest) ->
  get_event (e_ev m) s = Some ev -> cbs ev = Some l -> out ev = Some (Fail x) -> defused ev = false ->
  stable_kind (kind ev) = true ->
  (forall c, In c l -> is_handler c = false) ->
  cb_chain fuel codes (e_ev m) l (loop_start m rest s) s' ->
  r = RRaise x /\ now s' = e_time m.
Proof. exact undefused_without_handler. Qed.
Print Assumptions C02_undefused_without_handler.

(* the state such a step leaves is a clean state again: the invariants hold and execution may go on *)
Theorem C02_failure_leaves_clean_state : forall fuel codes s m rest ev l s',
  creach codes s -> pop_min (agenda s) = Some (m, rest) -> get_event (e_ev m) s = Some ev -> cbs ev = Some l ->
  cb_chain fuel codes (e_ev m) l (loop_start m rest s) s' ->
  fst (step fuel codes s) = s' /\ creach codes s'.
Proof. exact failure_leaves_clean_state. Qed.
Print Assumptions C02_failure_leaves_clean_state.

(* run(until = anything) hands on what step() raised, in the state that step left (so at that step's clock), after any
   number of normal steps *)
Theorem C02_failure_propagates_from_run : forall fuel codes u s s1 sk s' x,
  run_prelude u s = inr s1 -> ok_steps fuel codes s1 sk -> step fuel codes sk = (s', RRaise x) ->
  exists k, forall n, k <= n -> run_loop n fuel codes u s1 = (s', RRaise x).
Proof. exact failure_propagates_from_run. Qed.
Print Assumptions C02_failure_propagates_from_run.

(* whatever run() returns was returned by one of its steps (or is the answer to the empty agenda) *)
Theorem C02_run_returns_a_step_result : forall fuel codes u n s s' r,
  run_loop n fuel codes u s = (s', r) ->
  (r = RFuel /\ ok_steps fuel codes s s') \/
  (exists sk rk, ok_steps fuel codes s sk /\ step fuel codes sk = (s', rk) /\ rk <> ROk /\
                 r = match rk with REmpty => run_empty u s' | _ => rk end).
Proof. exact run_loop_spec. Qed.
Print Assumptions C02_run_returns_a_step_result.
