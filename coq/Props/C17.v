(* C17 -- TCP sends only inside its window and adapts it by the Reno/CUBIC rules.
   Only statements, closed by the lemma that proves them, and their assumptions.
   Model: Tcp/Sender.v (TCPPacketGenerator.put / timeout_callback / run + CongestionControl).
   [fx] ranges over the repair flags; every theorem that needs the deflation repair says so. *)
From Coq Require Import ZArith QArith Qabs Qminmax List.
From ONL Require Import Tcp.Sender Tcp.SenderProofs Gen.Extracted_cc Tcp.CcBridge Tcp.Cubic Tcp.CubicProofs Tcp.CubicBridge Tcp.AppSender Tcp.AppSenderProofs.
Import ListNotations.
Open Scope Z_scope.

(* --- the send guard: one resumption of the sender process emits n >= 0 MSS-sized, consecutively
   numbered segments, each allowed by next_seq + MSS <= min(send_buffer, last_ack + cwnd), changes
   nothing else, and stops only at the end of the flow or when the guard is false --- *)
Theorem C17_send_guard : forall c s s' outs,
  0 < mss c -> on_wake c s = Ok s' outs ->
  wake_spec c (set_store s (tokens s) (pend s) false false) s' [] outs.
Proof. exact send_guard. Qed.
Print Assumptions C17_send_guard.

Theorem C17_window_respected : forall c s s' outs,
  0 < mss c -> on_wake c s = Ok s' outs -> next_seq s < next_seq s' ->
  (zq (next_seq s' - last_ack s') <= cwnd s')%Q.
Proof. exact window_respected. Qed.
Print Assumptions C17_window_respected.

(* ACKs, expiries and store callbacks never emit new data: next_seq and send_buffer stay, no timer is
   started, and whatever is transmitted is a retransmission of a segment in flight *)
Theorem C17_only_wake_sends_new_data : forall fx c s e s' outs,
  e <> EWake -> step fx c s e = Ok s' outs ->
  next_seq s' = next_seq s /\ send_buffer s' = send_buffer s /\ retransmissions_only s outs.
Proof. exact only_wake_sends_new_data. Qed.
Print Assumptions C17_only_wake_sends_new_data.

(* over every history from the initial state the new segments are numbered 0, MSS, 2 MSS, ... *)
Theorem C17_segments_consecutive : forall fx c cw0 ss0 rtt0 evs s' outs,
  0 < mss c -> run fx c (init cw0 ss0 rtt0) evs = Ok s' outs ->
  exists n : nat, starts outs = seg_ids (mss c) 0 n /\ next_seq s' = Z.of_nat n * mss c.
Proof. exact segments_consecutive. Qed.
Print Assumptions C17_segments_consecutive.

(* --- new ACK, no fast retransmit pending --- *)
Theorem C17_new_ack_rule : forall fx c s ackno pid sample o cw ccnt cn t se outs,
  fx_deflate3 fx = true ->
  ackno <> last_ack s -> 0 <= dupack s < 3 ->
  cc_ack c (cwnd s) (ssthresh s) (cwnd_cnt s) (cnt s) o = Some (cw, ccnt, cn) ->
  stop_all (acked_ids fx c s ackno pid) (timers s) (sent s) [] = Some (t, se, outs) ->
  on_ack fx c s ackno pid sample o =
  Ok (mkst (next_seq s) (send_buffer s) ackno 0 cw (ssthresh s)
           (srtt s + (1 # 8) * (sample - srtt s))%Q
           (rttvar s + (1 # 4) * (Qabs (sample - srtt s) - rttvar s))%Q
           (srtt s + (1 # 8) * (sample - srtt s) + (4 # 1) * (rttvar s + (1 # 4) * (Qabs (sample - srtt s) - rttvar s)))%Q
           ccnt cn t se (S (tokens s)) (S (pend s)) (waiting s) (wake s) (finished s))
     outs.
Proof. exact new_ack_rule. Qed.
Print Assumptions C17_new_ack_rule.

Theorem C17_reno_ack_rule : forall c cw ss ccnt cn o,
  calg c = Reno -> ~ (cw == 0)%Q ->
  cc_ack c cw ss ccnt cn o =
  Some ((if Qle_bool cw ss then cw + zq (mss c) else cw + zq (mss c * mss c) / cw)%Q, ccnt, cn).
Proof. exact reno_ack_rule. Qed.
Print Assumptions C17_reno_ack_rule.

Theorem C17_cubic_ack_rule : forall c cw ss ccnt cn o,
  calg c = Cubic ->
  cc_ack c cw ss ccnt cn o =
  Some (if Qle_bool cw ss then ((cw + zq (mss c))%Q, ccnt, cn)
        else if Qltb o (zq ccnt) then ((cw + zq (mss c))%Q, 0, o) else (cw, ccnt + 1, o)).
Proof. exact cubic_ack_rule. Qed.
Print Assumptions C17_cubic_ack_rule.

(* --- duplicate ACKs --- *)
Theorem C17_early_dup_rule : forall fx c s pid sample o,
  0 <= dupack s -> dupack s + 1 < 3 ->
  on_ack fx c s (last_ack s) pid sample o = Ok (set_dupack s (dupack s + 1)) [].
Proof. exact early_dup_rule. Qed.
Print Assumptions C17_early_dup_rule.

Theorem C17_fast_retransmit_rule : forall fx c s pid sample o,
  dupack s = 2 -> in_sent (last_ack s) (sent s) = true ->
  on_ack fx c s (last_ack s) pid sample o =
  Ok (mkst (next_seq s) (send_buffer s) (last_ack s) 3
           (fr_ssthresh (mss c) (cwnd s) + zq (3 * mss c))%Q (fr_ssthresh (mss c) (cwnd s))
           (srtt s) (rttvar s) (rto s) (cwnd_cnt s) (cnt s) (timers s) (sent s)
           (tokens s) (pend s) (waiting s) (wake s) (finished s))
     [Tx (last_ack s) (mss c)].
Proof. exact fast_retransmit_rule. Qed.
Print Assumptions C17_fast_retransmit_rule.

Theorem C17_fr_ssthresh_is_max : forall m cw, (fr_ssthresh m cw == Qmax (zq (2 * m)) (cw / (2 # 1)))%Q.
Proof. exact fr_ssthresh_spec. Qed.
Print Assumptions C17_fr_ssthresh_is_max.

Theorem C17_more_dupacks_rule : forall fx c s pid sample o,
  3 <= dupack s -> (0 <= cwnd s)%Q -> 0 < mss c -> in_sent (last_ack s) (sent s) = true ->
  on_ack fx c s (last_ack s) pid sample o =
  Ok (mkst (next_seq s) (send_buffer s) (last_ack s) (dupack s + 1)
           (cwnd s + zq (mss c))%Q (ssthresh s)
           (srtt s) (rttvar s) (rto s) (cwnd_cnt s) (cnt s) (timers s) (sent s)
           (tokens s) (pend s) (waiting s) (wake s) (finished s))
     [Tx (last_ack s) (mss c)].
Proof. exact more_dupacks_rule. Qed.
Print Assumptions C17_more_dupacks_rule.

(* --- the next new ACK after fast retransmit deflates, then counts; after one or two duplicates it
   only counts (repaired by fix: eae436e; the code as found deflated after a single duplicate) --- *)
Theorem C17_deflate_then_count : forall fx c s ackno pid sample o,
  fx_deflate3 fx = true -> ackno <> last_ack s -> 3 <= dupack s ->
  on_ack fx c s ackno pid sample o =
  on_ack fx c (set_dupack (set_cc s (ssthresh s) (ssthresh s)) 0) ackno pid sample o.
Proof. exact deflate_then_count. Qed.
Print Assumptions C17_deflate_then_count.

Theorem C17_no_deflate_before_third_dup : forall fx c s ackno pid sample o,
  fx_deflate3 fx = true -> ackno <> last_ack s -> 0 < dupack s < 3 ->
  on_ack fx c s ackno pid sample o = on_ack fx c (set_dupack s 0) ackno pid sample o.
Proof. exact no_deflate_before_third_dup. Qed.
Print Assumptions C17_no_deflate_before_third_dup.

Theorem C17_deflate_refuted_before_fix :
  exists c s ackno pid sample o s' outs,
    ackno <> last_ack s /\ 0 < dupack s < 3 /\ (cwnd s <= ssthresh s)%Q /\
    on_ack as_found c s ackno pid sample o = Ok s' outs /\
    ~ (cwnd s' == cwnd s + zq (mss c))%Q /\ (cwnd s' == ssthresh s + zq (mss c))%Q.
Proof. exact deflate_refuted_before_fix. Qed.
Print Assumptions C17_deflate_refuted_before_fix.

(* --- retransmission timeout: cwnd = MSS, the segment is retransmitted, the RTO doubles and the
   segment's timer is re-armed with it; nothing else changes --- *)
Theorem C17_timeout_rule : forall fx c s id,
  has_timer id (timers s) = true -> in_sent id (sent s) = true ->
  on_timer fx c s id =
  Ok (mkst (next_seq s) (send_buffer s) (last_ack s) (dupack s) (zq (mss c)) (ssthresh s)
           (srtt s) (rttvar s) (rto s * (2 # 1))%Q (cwnd_cnt s) (cnt s)
           (rearm id (rto s * (2 # 1))%Q (timers s)) (sent s)
           (tokens s) (pend s) (waiting s) (wake s) (finished s))
     [Tx id (mss c); TRestart id (rto s * (2 # 1))%Q].
Proof. exact timeout_rule. Qed.
Print Assumptions C17_timeout_rule.

Theorem C17_rto_doubles : forall fx c, 0 < mss c -> forall evs s s' outs,
  no_ack evs -> run fx c s evs = Ok s' outs -> (rto s' == rto s * inject_Z (2 ^ Z.of_nat (expiries evs)))%Q.
Proof. exact rto_doubles_k. Qed.
Print Assumptions C17_rto_doubles.

(* --- after every new ACK: RTO = srtt + 4 rttvar with gains 1/8 and 1/4 --- *)
Theorem C17_rto_formula : forall fx c s ackno pid sample o s' outs,
  ackno <> last_ack s -> 0 <= dupack s ->
  on_ack fx c s ackno pid sample o = Ok s' outs ->
  (srtt s' == srtt s + (sample - srtt s) / (8 # 1))%Q /\
  (rttvar s' == rttvar s + (Qabs (sample - srtt s) - rttvar s) / (4 # 1))%Q /\
  (rto s' == srtt s' + (4 # 1) * rttvar s')%Q /\
  last_ack s' = ackno /\ dupack s' = 0.
Proof. exact rto_formula. Qed.
Print Assumptions C17_rto_formula.

(* --- cwnd never falls below one MSS: all histories, any initial cwnd >= MSS, ANY initial ssthresh,
   Reno and CUBIC (for every value the cnt oracle may take) --- *)
Theorem C17_cwnd_ge_mss : forall fx c cw0 ss0 rtt0 evs s' outs,
  fx_deflate3 fx = true -> 0 < mss c -> (zq (mss c) <= cw0)%Q ->
  run fx c (init cw0 ss0 rtt0) evs = Ok s' outs -> (zq (mss c) <= cwnd s')%Q.
Proof. exact cwnd_ge_mss. Qed.
Print Assumptions C17_cwnd_ge_mss.

(* --- the model's explicit error states for mss*mss/cwnd and for the loop fuel are never reached --- *)
Theorem C17_never_zero_div : forall fx c cw0 ss0 rtt0 evs s' outs e,
  fx_deflate3 fx = true -> 0 < mss c -> (zq (mss c) <= cw0)%Q ->
  run fx c (init cw0 ss0 rtt0) evs = Ok s' outs -> step fx c s' e <> Raise ZeroDiv.
Proof. exact never_zero_div. Qed.
Print Assumptions C17_never_zero_div.

Theorem C17_wake_never_out_of_fuel : forall c s, 0 < mss c -> on_wake c s <> Raise OutOfFuel.
Proof. exact wake_never_out_of_fuel. Qed.
Print Assumptions C17_wake_never_out_of_fuel.

(* --- second tie (DESIGN 2.6): the CongestionControl method bodies translated from /repo on this run
   (Gen/Extracted_cc.v) are what the model uses.  A changed constant / operator / comparison in
   tcp_generator.py breaks one of these before any test input is drawn. --- *)
Theorem C17_gen_timer_expired : forall m cw ss,
  let s' := g_CongestionControl_timer_expired (mkcc (zq m) cw ss) in
  x_cwnd s' = zq m /\ x_ssthresh s' = ss.
Proof. exact bridge_timer_expired. Qed.
Print Assumptions C17_gen_timer_expired.

Theorem C17_gen_dupack_over : forall m cw ss,
  let s' := g_CongestionControl_dupack_over (mkcc (zq m) cw ss) in
  x_cwnd s' = ss /\ x_ssthresh s' = ss.
Proof. exact bridge_dupack_over. Qed.
Print Assumptions C17_gen_dupack_over.

Theorem C17_gen_fast_retransmit : forall m cw ss,
  let s' := g_CongestionControl_consecutive_dupacks_received (mkcc (zq m) cw ss) in
  (x_ssthresh s' == fr_ssthresh m cw)%Q /\ (x_cwnd s' == fr_cwnd m cw)%Q.
Proof. exact bridge_fast_retransmit. Qed.
Print Assumptions C17_gen_fast_retransmit.

Theorem C17_gen_more_dupacks : forall m cw ss,
  let s' := g_CongestionControl_more_dupacks_received (mkcc (zq m) cw ss) in
  x_cwnd s' = (cw + zq m)%Q /\ x_ssthresh s' = ss.
Proof. exact bridge_more_dupacks. Qed.
Print Assumptions C17_gen_more_dupacks.

Theorem C17_gen_reno_ack : forall c cw ss ccnt cn o,
  calg c = Reno -> ~ (cw == 0)%Q ->
  exists cw', cc_ack c cw ss ccnt cn o = Some (cw', ccnt, cn) /\
              (cw' == x_cwnd (g_TCPReno_ack_received (mkcc (zq (mss c)) cw ss)))%Q /\
              x_ssthresh (g_TCPReno_ack_received (mkcc (zq (mss c)) cw ss)) = ss.
Proof. exact bridge_reno_ack. Qed.
Print Assumptions C17_gen_reno_ack.

(* --- TCPCubic exactly (Tcp/Cubic.v): the cnt that the sender model takes as an oracle is computed by
   the model of cubic_update / cubic_tcp_friendliness over Q (C = 2/5, beta = 1/5, (t-K)^3 an
   integer power).  [stepx] = [step] with that value. --- *)

(* the oracle is looked at only when put() reaches ack_received(), ... *)
Theorem C17_oracle_only_in_ack_received : forall fx c s ackno pid sample o o',
  ack_counts s ackno = false -> on_ack fx c s ackno pid sample o = on_ack fx c s ackno pid sample o'.
Proof. exact on_ack_oracle_irrelevant. Qed.
Print Assumptions C17_oracle_only_in_ack_received.

(* ... and then ack_received() runs on cwnd = ack_cwnd (after the deflation, if any) *)
Theorem C17_ack_received_sees_ack_cwnd : forall fx c s ackno pid sample o,
  ack_counts s ackno = true -> 0 <= dupack s ->
  ackno <> last_ack s /\
  on_ack fx c s ackno pid sample o =
  let s1 := set_dupack (set_cc s (ack_cwnd fx s ackno) (ssthresh s)) 0 in
  match cc_ack c (ack_cwnd fx s ackno) (ssthresh s) (cwnd_cnt s) (cnt s) o with
  | None => Raise ZeroDiv
  | Some (cw, ccnt, cn) =>
      let ids := acked_ids fx c s1 ackno pid in
      match stop_all ids (timers s) (sent s) [] with
      | None => Raise (KeyErr (first_missing ids (sent s)))
      | Some (t, se, oo) =>
          Ok (store_put (mkst (next_seq s) (send_buffer s) ackno 0 cw (ssthresh s)
                              (srtt s + (1 # 8) * (sample - srtt s))%Q
                              (rttvar s + (1 # 4) * (Qabs (sample - srtt s) - rttvar s))%Q
                              (srtt s + (1 # 8) * (sample - srtt s) + (4 # 1) * (rttvar s + (1 # 4) * (Qabs (sample - srtt s) - rttvar s)))%Q
                              ccnt cn t se (tokens s) (pend s) (waiting s) (wake s) (finished s))) oo
      end
  end.
Proof. exact on_ack_counts. Qed.
Print Assumptions C17_ack_received_sees_ack_cwnd.

(* every transition of the composed model is a transition of the sender model (so all theorems above,
   stated for every oracle value, hold for TCPCubic with its real cnt) *)
Theorem C17_stepx_is_step : forall fx c s cs e s' cs' o,
  stepx fx c s cs e = XOk s' cs' o ->
  exists ev, step fx c s ev = Ok s' o /\
             match e, ev with
             | XAck a p sm _, EAck a' p' sm' _ => a = a' /\ p = p' /\ sm = sm'
             | XExpire i, EExpire i' => i = i'
             | XStoreCb, EStoreCb | XWake, EWake => True
             | _, _ => False
             end.
Proof. exact stepx_is_step. Qed.
Print Assumptions C17_stepx_is_step.

(* the cube-root branch (cwnd < W_last_max) is dead: W_last_max is only ever 0, cwnd >= MSS > 0 *)
Theorem C17_cubic_root_unreachable : forall fx c cw0 ss0 rtt0 evs,
  fx_deflate3 fx = true -> 0 < mss c -> (zq (mss c) <= cw0)%Q ->
  runx fx c (init cw0 ss0 rtt0) cubic0 evs <> XCubicRoot.
Proof. exact cubic_root_unreachable. Qed.
Print Assumptions C17_cubic_root_unreachable.

Theorem C17_cubic_friendliness_gain : ((3 # 1) * cBeta / ((2 # 1) - cBeta) == 1 # 3)%Q.
Proof. exact friendliness_gain. Qed.
Print Assumptions C17_cubic_friendliness_gain.

(* the cubic / TCP-friendly growth: congestion avoidance with a running epoch *)
Theorem C17_cubic_growth_rule : forall cs cw ss rtt now,
  ~ (cw <= ss)%Q -> (0 < c_epoch cs)%Q ->
  let dmin := if Qltb 0 (c_dmin cs) then (if Qle_bool (c_dmin cs) rtt then c_dmin cs else rtt) else rtt in
  let t := (now + dmin - c_epoch cs)%Q in
  let target := (c_origin cs + (2 # 5) * ((t - c_k cs) * (t - c_k cs) * (t - c_k cs)))%Q in
  let wtcp := (c_wtcp cs + (3 # 1) * cBeta / ((2 # 1) - cBeta) * ((c_ackcnt cs + 1) / cw))%Q in
  let cnt1 := if Qltb cw target then (cw / (target - cw))%Q else ((100 # 1) * cw)%Q in
  cubic_ack cs cw ss rtt now =
  CubOk (mkcub (c_wlast cs) (c_epoch cs) (c_origin cs) dmin wtcp (c_k cs) 0)
        (Some (if Qltb cw wtcp then (if Qltb (cw / (wtcp - cw)) cnt1 then cw / (wtcp - cw) else cnt1)%Q else cnt1)).
Proof. exact cubic_growth_rule. Qed.
Print Assumptions C17_cubic_growth_rule.

(* a new epoch: origin_point = cwnd, epoch_start = now, W_tcp = cwnd, K = 0 *)
Theorem C17_cubic_epoch_start_rule : forall cs cw ss rtt now,
  ~ (cw <= ss)%Q -> (c_epoch cs <= 0)%Q -> ~ (cw < c_wlast cs)%Q ->
  let dmin := if Qltb 0 (c_dmin cs) then (if Qle_bool (c_dmin cs) rtt then c_dmin cs else rtt) else rtt in
  let t := (now + dmin - now)%Q in
  let target := (cw + (2 # 5) * ((t - 0) * (t - 0) * (t - 0)))%Q in
  let wtcp := (cw + (3 # 1) * cBeta / ((2 # 1) - cBeta) * (1 / cw))%Q in
  let cnt1 := if Qltb cw target then (cw / (target - cw))%Q else ((100 # 1) * cw)%Q in
  cubic_ack cs cw ss rtt now =
  CubOk (mkcub (c_wlast cs) now cw dmin wtcp 0 0)
        (Some (if Qltb cw wtcp then (if Qltb (cw / (wtcp - cw)) cnt1 then cw / (wtcp - cw) else cnt1)%Q else cnt1)).
Proof. exact cubic_epoch_start_rule. Qed.
Print Assumptions C17_cubic_epoch_start_rule.

Theorem C17_cubic_slow_start_rule : forall cs cw ss rtt now,
  (cw <= ss)%Q ->
  cubic_ack cs cw ss rtt now =
  CubOk (mkcub (c_wlast cs) (c_epoch cs) (c_origin cs)
               (if Qltb 0 (c_dmin cs) then (if Qle_bool (c_dmin cs) rtt then c_dmin cs else rtt) else rtt)
               (c_wtcp cs) (c_k cs) (c_ackcnt cs)) None.
Proof. exact cubic_slow_start_rule. Qed.
Print Assumptions C17_cubic_slow_start_rule.

Theorem C17_cubic_cnt_pos : forall cs cw ss rtt now cs' q,
  (0 < cw)%Q -> cubic_ack cs cw ss rtt now = CubOk cs' (Some q) -> (0 < q)%Q.
Proof. exact cubic_cnt_pos. Qed.
Print Assumptions C17_cubic_cnt_pos.

(* the ACK rule of TCPCubic with the computed cnt (extends C17_cubic_ack_rule) *)
Theorem C17_cubic_new_ack_rule : forall fx c s cs ackno pid sample now cs' q,
  calg c = Cubic -> ack_counts s ackno = true -> 0 <= dupack s ->
  cubic_ack cs (ack_cwnd fx s ackno) (ssthresh s) sample now = CubOk cs' q ->
  stepx fx c s cs (XAck ackno pid sample now) =
  match on_ack fx c s ackno pid sample (match q with Some x => x | None => cnt s end) with
  | Ok s' o => XOk s' cs' o
  | Raise x => XRaise x
  end /\
  cc_ack c (ack_cwnd fx s ackno) (ssthresh s) (cwnd_cnt s) (cnt s) (match q with Some x => x | None => cnt s end) =
  Some (match q with
        | None => ((ack_cwnd fx s ackno + zq (mss c))%Q, cwnd_cnt s, cnt s)
        | Some x => if Qltb x (zq (cwnd_cnt s)) then ((ack_cwnd fx s ackno + zq (mss c))%Q, 0, x)
                    else (ack_cwnd fx s ackno, cwnd_cnt s + 1, x)
        end).
Proof. exact cubic_new_ack_rule. Qed.
Print Assumptions C17_cubic_new_ack_rule.

(* --- second tie for TCPCubic: the bodies of ack_received (calling cubic_update, calling
   cubic_tcp_friendliness), timer_expired (calling cubic_reset) and the constants beta, C,
   tcp_friendliness of __init__, translated from /repo on this run, are the model of Tcp/Cubic.v and
   cc_ack.  [G] embeds a model state into the generated record; the `** (1/3)` branch is translated as
   the explicit result None and corresponds to CubicRoot. --- *)
Theorem C17_gen_cubic_consts : g_cubic_init_beta = cBeta /\ g_cubic_init_C = cC /\ g_cubic_init_tcp_friendliness = true.
Proof. exact bridge_cubic_consts. Qed.
Print Assumptions C17_gen_cubic_consts.

Theorem C17_gen_cubic_timer_expired : forall m cw ss cs cn ccnt,
  exists g', g_TCPCubic_timer_expired (G m cw ss cs cn ccnt) = Some g' /\ gc_eq g' (G m m ss (cubic_reset cs) cn ccnt).
Proof. exact bridge_cubic_timer_expired. Qed.
Print Assumptions C17_gen_cubic_timer_expired.

Theorem C17_gen_cubic_ack_received : forall c cs cw ss ccnt cn rtt now,
  calg c = Cubic ->
  match cubic_ack cs cw ss rtt now with
  | CubicRoot => g_TCPCubic_ack_received (G (zq (mss c)) cw ss cs cn ccnt) rtt now = None
  | CubOk cs' q =>
      exists g', g_TCPCubic_ack_received (G (zq (mss c)) cw ss cs cn ccnt) rtt now = Some g' /\
                 match cc_ack c cw ss ccnt cn (match q with Some x => x | None => cn end) with
                 | Some (cw', ccnt', cn') => gc_eq g' (G (zq (mss c)) cw' ss cs' cn' ccnt')
                 | None => False
                 end
  end.
Proof. exact bridge_cubic_ack_received. Qed.
Print Assumptions C17_gen_cubic_ack_received.

(* --- the sender with the Flow's APPLICATION PROCESS (Tcp/AppSender.v): run() fetches data from
   flow.arrival_dist / size_dist / size, sleeping on env.timeout for the next write; start_time,
   finish_time.  [astep] = [step] for ACKs, expiries and store callbacks; the two kinds of resumption of
   run() (AWake: Initialize / granted StoreGet; AAppWake: the Timeout it sleeps on) run the fetching
   loop.  The send guard is evaluated on the window in force at that resumption. --- *)
Theorem C17_app_send_guard : forall fx fuel ac s a e s' a' outs,
  0 < mss (ac_cfg ac) -> (exists now, e = AWake now \/ e = AAppWake now) ->
  astep fx fuel ac s a e = AOk s' a' outs ->
  arun_spec (ac_cfg ac) (set_store s (tokens s) (pend s) false false) s' [] outs.
Proof. exact app_send_guard. Qed.
Print Assumptions C17_app_send_guard.

Theorem C17_app_window_respected : forall fx fuel ac s a e s' a' outs,
  0 < mss (ac_cfg ac) -> (exists now, e = AWake now \/ e = AAppWake now) ->
  astep fx fuel ac s a e = AOk s' a' outs -> next_seq s < next_seq s' ->
  (zq (next_seq s' - last_ack s) <= cwnd s)%Q /\ last_ack s' = last_ack s /\ cwnd s' = cwnd s.
Proof. exact app_window_respected. Qed.
Print Assumptions C17_app_window_respected.

(* never beyond the buffered data: writes are non-negative, send_buffer only grows, every segment
   emitted ends inside it *)
Theorem C17_app_buffer_respected : forall fx fuel ac s a e s' a' outs,
  0 < mss (ac_cfg ac) -> (exists now, e = AWake now \/ e = AAppWake now) ->
  fetch_ok ac s -> (forall d, ap_sleep a = Some (true, d) -> send_buffer s <= next_seq s) ->
  astep fx fuel ac s a e = AOk s' a' outs ->
  send_buffer s <= send_buffer s' /\ fetch_ok ac s' /\
  (forall i z, In (Tx i z) outs -> i + mss (ac_cfg ac) <= send_buffer s').
Proof. exact app_buffer_respected. Qed.
Print Assumptions C17_app_buffer_respected.

Theorem C17_app_other_events : forall fx fuel ac s a e,
  e <> EWake ->
  astep fx fuel ac s a (AEv e) = match step fx (ac_cfg ac) s e with Ok s' o => AOk s' a o | Raise x => ARaise x end.
Proof. exact app_other_events. Qed.
Print Assumptions C17_app_other_events.

(* what the code does with less than one MSS of buffered data beyond next_seq (a trailing partial
   segment of a flow whose size is not a multiple of the MSS; a short application write): nothing is
   sent, run() waits on its store, does not finish -- and does not fetch more data either *)
Theorem C17_app_partial_tail_waits : forall ac fuel now s a acc,
  match ac_finish ac with Some ft => (now < ft)%Q | None => True end ->
  fsize (ac_cfg ac) = 0 \/ next_seq s < fsize (ac_cfg ac) ->
  next_seq s < send_buffer s < next_seq s + mss (ac_cfg ac) ->
  arun (S (S fuel)) ac now MOuter s a acc =
  AOk (match tokens s with S tk => set_store s tk (pend s) false true | O => set_store s O (pend s) true false end) a acc.
Proof. exact app_partial_tail_waits. Qed.
Print Assumptions C17_app_partial_tail_waits.

Theorem C17_app_partial_buffer_is_permanent : forall fx fuel ac s a now,
  match ac_finish ac with Some ft => (now < ft)%Q | None => True end ->
  fsize (ac_cfg ac) = 0 \/ next_seq s < fsize (ac_cfg ac) ->
  next_seq s < send_buffer s < next_seq s + mss (ac_cfg ac) ->
  wake s = true -> finished s = false -> ap_sleep a = None -> ap_started a = true ->
  exists s', astep fx (S (S fuel)) ac s a (AWake now) = AOk s' a [] /\
             next_seq s' = next_seq s /\ send_buffer s' = send_buffer s /\ finished s' = false.
Proof. exact app_partial_buffer_is_permanent. Qed.
Print Assumptions C17_app_partial_buffer_is_permanent.

(* No application configured -- no arrival_dist, no size_dist, no finish_time, start_time 0 (flow.size as in
   the plain model: 0 = unbounded, else the last write is capped at size - next_seq) -- and run() of the
   application layer (astep on AWake, i.e. arun) IS on_wake of Tcp/Sender.v: from ANY sender state (so in
   particular every state the plain sender reaches) and any application state without a pending sleep, a
   resumption by the store yields the same successor state, the same emissions or the same error, for
   every fuel above a bound; the application state is only marked started.  The theorems above about
   on_wake/step/run (C17_send_guard, C17_window_respected, ...) and C16's loop model, which uses on_wake,
   are therefore about the same run() as the C17_app_* theorems. *)
Theorem C17_app_plain_is_on_wake : forall fx ac s a now,
  ac_arr ac = None -> ac_siz ac = None -> ac_finish ac = None -> Qeq_bool (ac_start ac) 0 = true ->
  0 < mss (ac_cfg ac) -> ap_sleep a = None ->
  exists fuel0, forall fuel, (fuel0 <= fuel)%nat ->
    astep fx fuel ac s a (AWake now) =
    match on_wake (ac_cfg ac) s with
    | Ok s' o => AOk s' (mkapp (ap_last a) None true (ap_ai a) (ap_si a)) o
    | Raise x => ARaise x
    end.
Proof. exact app_plain_is_on_wake_explicit. Qed.
Print Assumptions C17_app_plain_is_on_wake.
