(* C15 (DRR part) -- deficit round robin: quantum, visit rule, credit bounds, long-run fairness.
   Only statements, closed by the lemma that proves them, and their assumptions.
   Model: Elem/DRR.v.  dwf cfg: rate > 0, a non-empty weight table with distinct class ids and positive weights.
   An admissible execution is an action list on which drr_run succeeds; all theorems quantify over every such list
   (every interleaving of put() calls and kernel steps inside an instant), every table, rate and flow-to-class map. *)
From Coq Require Import ZArith QArith List Bool.
From Coq Require Import Qabs.
From ONL Require Import Elem.Packet Elem.StoreQ Elem.DRR Elem.DRRInv Elem.DRRProofs Elem.DRRVisit Elem.DRRFair.
Import ListNotations.

(* Q_c = 1500 * w_c / min w, where min w is the least weight of the table *)
Theorem C15_drr_quantum : forall (cfg : dcfg) (c w : Z),
  dwf cfg -> In (c, w) (dweights cfg) ->
  dquantum cfg c == inject_Z (1500 * w) / inject_Z (dminw (dweights cfg))
  /\ (exists x, In x (dweights cfg) /\ snd x = dminw (dweights cfg))
  /\ (forall x, In x (dweights cfg) -> (dminw (dweights cfg) <= snd x)%Z).
Proof. exact drr_quantum_l. Qed.
Print Assumptions C15_drr_quantum.

(* in every reachable state 0 <= credit_c < Q_c + Lmax, Lmax = dlmax d = the largest packet size put in so far
   (C08_drr_conserves: dlmax d = dmaxsize (dputs tr)) *)
Theorem C15_drr_credit_bounds : forall (cfg : dcfg) (t0 : Q) (acts : list daction) (d : drr) (tr : list dtev),
  dwf cfg -> drr_run cfg (drr0 t0) acts = Some (d, tr) ->
  forall c, In c (dclasses cfg) -> 0 <= ddef d c /\ ddef d c < dquantum cfg c + inject_Z (dlmax d).
Proof. exact drr_credit_bounds_l. Qed.
Print Assumptions C15_drr_credit_bounds.

(* a visit ends only when the credit is used up or the head packet is unaffordable: in every reachable state a class
   that is not being visited has credit 0, or its head packet is parked in head_of_line and larger than its credit *)
Theorem C15_drr_visit_complete : forall (cfg : dcfg) (t0 : Q) (acts : list daction) (d : drr) (tr : list dtev),
  dwf cfg -> drr_run cfg (drr0 t0) acts = Some (d, tr) ->
  forall c, dvisiting d <> Some c ->
  match dhol d c with
  | Some p => hd_error (dheld cfg d c) = Some p /\ ddef d c < inject_Z (psize p)
  | None => ddef d c == 0
  end.
Proof. exact drr_visit_complete_l. Qed.
Print Assumptions C15_drr_visit_complete.

(* the credit is forgotten as soon as the class's queue empties: a class that holds no packet (and whose last
   transmission has been debited) has credit 0 *)
Theorem C15_drr_credit_forgotten : forall (cfg : dcfg) (t0 : Q) (acts : list daction) (d : drr) (tr : list dtev),
  dwf cfg -> drr_run cfg (drr0 t0) acts = Some (d, tr) ->
  forall c, dheld cfg d c = [] -> ddone cfg d c = 0%Z -> ddef d c == 0.
Proof. exact drr_credit_forgotten_l. Qed.
Print Assumptions C15_drr_credit_forgotten.

(* the visit rule: every enabled action of every admissible execution emits an event sequence that the specification
   automaton of the C15 text (DRRVisit.dspec: classes in declaration order, quantum iff the class holds a packet, head
   sent iff size <= credit and debited, unaffordable head parked, credit reset iff the class is empty after the debit)
   accepts, from the automaton state of the state before to that of the state after *)
Theorem C15_drr_visit : forall (cfg : dcfg) (t0 : Q) (acts : list daction) (d : drr) (tr : list dtev)
    (a : daction) (d' : drr) (ev : list dout),
  dwf cfg -> drr_run cfg (drr0 t0) acts = Some (d, tr) -> drr_act cfg d a = Some (d', ev) ->
  dspecs cfg (dheld cfg d') (dabs d) ev (dabs d').
Proof. exact drr_visit_l. Qed.
Print Assumptions C15_drr_visit.

(* long-run fairness: over any sub-execution (acts2, from any reachable state d1) throughout which classes i and j both
   hold a packet, the bytes forwarded for them (dsent = dbytes of the forwarded packets of the class, DRRFair.dsent_bytes)
   divided by their quanta differ by less than 4 + 3*Lmax*(1/Q_i + 1/Q_j) *)
Theorem C15_drr_fairness : forall (cfg : dcfg) (t0 : Q) (acts1 : list daction) (d1 : drr) (tr1 : list dtev)
    (acts2 : list daction) (d2 : drr) (tr2 : list dtev) (i j : Z),
  dwf cfg -> drr_run cfg (drr0 t0) acts1 = Some (d1, tr1) -> drr_run cfg d1 acts2 = Some (d2, tr2) ->
  In i (dclasses cfg) -> In j (dclasses cfg) ->
  dalways cfg (fun x => dheld cfg x i <> [] /\ dheld cfg x j <> []) d1 acts2 ->
  Qabs (inject_Z (dsent cfg i tr2) / dquantum cfg i - inject_Z (dsent cfg j tr2) / dquantum cfg j)
    < 4 + 3 * inject_Z (dlmax d2) * (1 / dquantum cfg i + 1 / dquantum cfg j).
Proof. exact drr_fairness_l. Qed.
Print Assumptions C15_drr_fairness.
