(* C07 -- Containers and stores are bounded, conservative, ordered, never strand a request.
   Only statements, closed by the lemma that proves them, and their assumptions.

   Model: Res/ContainerStore.v.  [run fixed s0 acts = Some s]: the action list acts (put / get / cancel /
   a triggered request event is processed / the clock advances) is admissible from s0 and leads to s;
   theorems hold for ALL such lists.  [fixed = true] is the repaired cancel (fix: commit e27f019), [false]
   the code as found; statements with a variable [fixed] hold for both.  Request ids are creation indices.
   [log s] is the list of all succeed() calls so far, in the order they happened: GPut id item/amount,
   GGet id parameter value. *)
From Coq Require Import ZArith QArith List Bool Arith Sorted Permutation.
From ONL Require Import Res.Heap Res.HeapProofs Res.ContainerStore Res.ContainerStoreProofs
                        Res.ContainerProofs Res.StoreProofs.
Import ListNotations.
Local Open Scope nat_scope.

(* ---- Container: 0 <= level <= capacity, and level = init + granted puts - granted gets ---------- *)
Theorem C07_level_bounds :
  forall (cap : option Q) (fixed : bool) (acts : list (action (Container cap))) (init_level t0 : Q)
         (s : state (Container cap)),
    (0 <= init_level)%Q /\ match cap with Some c => (init_level <= c)%Q | None => True end ->
    run fixed (init (K:=Container cap) init_level t0) acts = Some s ->
    (0 <= content s)%Q /\ match cap with Some c => (content s <= c)%Q | None => True end.
Proof. exact level_bounds. Qed.
Print Assumptions C07_level_bounds.

Theorem C07_level_conservation :
  forall (cap : option Q) (fixed : bool) (acts : list (action (Container cap))) (init_level t0 : Q)
         (s : state (Container cap)),
    run fixed (init (K:=Container cap) init_level t0) acts = Some s ->
    (content s == init_level + put_sum (log s) - get_sum (log s))%Q.
Proof. exact level_conservation. Qed.
Print Assumptions C07_level_conservation.

(* ---- stores never hold more than capacity items, for every capacity > 0 (fractional ones too) ---- *)
Theorem C07_store_bounded :
  forall (A : Type) (cap : option Q), cap_pos cap ->
  forall (fixed : bool) (acts : list (action (Store A cap))) (t0 : Q) (s : state (Store A cap)),
    run fixed (init (K:=Store A cap) [] t0) acts = Some s ->
    match cap with Some c => (inject_Z (Z.of_nat (length (content s))) <= c)%Q | None => True end.
Proof. exact store_bounded. Qed.
Print Assumptions C07_store_bounded.

Theorem C07_prio_store_bounded :
  forall (A : Type) (key : A -> Z) (cap : option Q), cap_pos cap ->
  forall (fixed : bool) (acts : list (action (PriorityStore A key cap))) (t0 : Q) (s : state (PriorityStore A key cap)),
    run fixed (init (K:=PriorityStore A key cap) [] t0) acts = Some s ->
    match cap with Some c => (inject_Z (Z.of_nat (length (content s))) <= c)%Q | None => True end.
Proof. exact prio_bounded. Qed.
Print Assumptions C07_prio_store_bounded.

Theorem C07_filter_store_bounded :
  forall (A : Type) (cap : option Q), cap_pos cap ->
  forall (fixed : bool) (acts : list (action (FilterStore A cap))) (t0 : Q) (s : state (FilterStore A cap)),
    run fixed (init (K:=FilterStore A cap) [] t0) acts = Some s ->
    match cap with Some c => (inject_Z (Z.of_nat (length (content s))) <= c)%Q | None => True end.
Proof. exact filter_bounded. Qed.
Print Assumptions C07_filter_store_bounded.

(* the capacity guard of the pinned commit (len(items) < capacity, before fix: 2019701) lets a Store of
   capacity 5/2 hold three items *)
Theorem C07_store_bounded_refuted_before_fix :
  exists (acts : list (action (Store_unfixed Z (Some (5 # 2)%Q)))) (s : state (Store_unfixed Z (Some (5 # 2)%Q))),
    run true (init (K:=Store_unfixed Z (Some (5 # 2)%Q)) [] 0%Q) acts = Some s /\
    ~ (inject_Z (Z.of_nat (length (content s))) <= 5 # 2)%Q.
Proof. exact store_bounded_refuted_unfixed. Qed.
Print Assumptions C07_store_bounded_refuted_before_fix.

(* ---- every accepted item is held or was handed to exactly one getter, exactly once -------------- *)
(* accepted = items of the granted puts, delivered = values of the granted gets, both in log order *)
Theorem C07_delivered_exactly_once_store :
  forall (A : Type) (cap : option Q) (fixed : bool) (acts : list (action (Store A cap))) (t0 : Q)
         (s : state (Store A cap)),
    run fixed (init (K:=Store A cap) [] t0) acts = Some s ->
    Permutation (accepted (K:=Store A cap) (fun x => x) (log s))
                (content s ++ delivered (K:=Store A cap) (fun x => x) (log s)).
Proof. exact store_delivered_once. Qed.
Print Assumptions C07_delivered_exactly_once_store.

Theorem C07_delivered_exactly_once_prio :
  forall (A : Type) (key : A -> Z) (cap : option Q) (fixed : bool)
         (acts : list (action (PriorityStore A key cap))) (t0 : Q) (s : state (PriorityStore A key cap)),
    run fixed (init (K:=PriorityStore A key cap) [] t0) acts = Some s ->
    Permutation (accepted (K:=PriorityStore A key cap) (fun x => x) (log s))
                (content s ++ delivered (K:=PriorityStore A key cap) (fun x => x) (log s)).
Proof. exact prio_delivered_once. Qed.
Print Assumptions C07_delivered_exactly_once_prio.

Theorem C07_delivered_exactly_once_filter :
  forall (A : Type) (cap : option Q) (fixed : bool) (acts : list (action (FilterStore A cap))) (t0 : Q)
         (s : state (FilterStore A cap)),
    run fixed (init (K:=FilterStore A cap) [] t0) acts = Some s ->
    Permutation (accepted (K:=FilterStore A cap) (fun x => x) (log s))
                (content s ++ delivered (K:=FilterStore A cap) (fun x => x) (log s)).
Proof. exact filter_delivered_once. Qed.
Print Assumptions C07_delivered_exactly_once_filter.

(* FilterStore (repaired _do_get, fix: 937b0a6: the matched element is removed by position).  Items are
   compared with Leibniz equality: two puts of equal VALUE are different items as soon as they differ in
   any component.  With items (value, put-id): if the accepted put-ids are pairwise distinct, no put-id is
   handed out twice or handed out and still held, and every accepted put-id is held or was handed out. *)
Theorem C07_filter_put_ids_exactly_once :
  forall (V T : Type) (cap : option Q) (fixed : bool) (acts : list (action (FilterStore (V * T) cap))) (t0 : Q)
         (s : state (FilterStore (V * T) cap)),
    run fixed (init (K:=FilterStore (V * T) cap) [] t0) acts = Some s ->
    NoDup (map snd (accepted (K:=FilterStore (V * T) cap) (fun x => x) (log s))) ->
    NoDup (map snd (content s ++ delivered (K:=FilterStore (V * T) cap) (fun x => x) (log s))) /\
    forall t, In t (map snd (accepted (K:=FilterStore (V * T) cap) (fun x => x) (log s))) <->
              In t (map snd (content s ++ delivered (K:=FilterStore (V * T) cap) (fun x => x) (log s))).
Proof. exact filter_put_ids_exactly_once. Qed.
Print Assumptions C07_filter_put_ids_exactly_once.

(* FilterStore._do_get of the pinned commit (self.items.remove(item): the first element that compares
   EQUAL, [veq_value] = equality of values): items (1, id 0), (1, id 1) and a filter on put-id 1 -- the
   getter receives (1, 1), which stays in the store, and (1, 0) is lost *)
Theorem C07_filter_delivered_once_refuted_before_fix :
  exists (acts : list (action (FilterStore_unfixed (Z * nat) veq_value None)))
         (s : state (FilterStore_unfixed (Z * nat) veq_value None)),
    run true (init (K:=FilterStore_unfixed (Z * nat) veq_value None) [] 0%Q) acts = Some s /\
    ~ Permutation (accepted (K:=FilterStore_unfixed (Z * nat) veq_value None) (fun x => x) (log s))
                  (content s ++ delivered (K:=FilterStore_unfixed (Z * nat) veq_value None) (fun x => x) (log s)) /\
    exists x, In x (content s) /\
              In x (delivered (K:=FilterStore_unfixed (Z * nat) veq_value None) (fun x => x) (log s)).
Proof. exact filter_delivered_once_refuted_unfixed. Qed.
Print Assumptions C07_filter_delivered_once_refuted_before_fix.

(* every request event is triggered at most once (with exactly one value: [GGet id g v]), and a
   triggered request is in no queue any more -- for every kind of resource *)
Theorem C07_triggered_at_most_once :
  forall (K : kind) (fixed : bool) (acts : list (action K)) (c0 : KC K) (t0 : Q) (s : state K),
    run fixed (init c0 t0) acts = Some s ->
    NoDup (map grant_id (log s)) /\
    (forall i, In i (map grant_id (log s)) -> ~ In i (ids (putq s)) /\ ~ In i (ids (getq s))).
Proof. exact triggered_once. Qed.
Print Assumptions C07_triggered_at_most_once.

(* ---- order disciplines ----------------------------------------------------------------------- *)
(* Store: the k-th delivered item is the k-th accepted item *)
Theorem C07_store_fifo :
  forall (A : Type) (cap : option Q) (fixed : bool) (acts : list (action (Store A cap))) (t0 : Q)
         (s : state (Store A cap)),
    run fixed (init (K:=Store A cap) [] t0) acts = Some s ->
    accepted (K:=Store A cap) (fun x => x) (log s)
    = delivered (K:=Store A cap) (fun x => x) (log s) ++ content s.
Proof. exact store_fifo. Qed.
Print Assumptions C07_store_fifo.

(* PriorityStore: whenever a get is granted x, the store content at that point of the log (c1, reached
   from the empty store by the earlier grants) contains x and nothing of smaller priority *)
Theorem C07_prio_store_min :
  forall (A : Type) (key : A -> Z) (cap : option Q) (fixed : bool)
         (acts : list (action (PriorityStore A key cap))) (t0 : Q) (s : state (PriorityStore A key cap))
         (l1 : list (grant (PriorityStore A key cap))) (i : nat) (g : unit) (x : A)
         (l2 : list (grant (PriorityStore A key cap))),
    run fixed (init (K:=PriorityStore A key cap) [] t0) acts = Some s ->
    log s = l1 ++ GGet (K:=PriorityStore A key cap) i g x :: l2 ->
    exists c1, path (PriorityStore A key cap) [] l1 c1 /\ In x c1 /\ forall y, In y c1 -> (key x <= key y)%Z.
Proof. exact prio_min. Qed.
Print Assumptions C07_prio_store_min.

(* FilterStore (repaired): a get with filter f receives the first item in insertion order that f accepts,
   and exactly that element leaves the store (content a ++ x :: b becomes a ++ b) *)
Theorem C07_filter_store_first_match :
  forall (A : Type) (cap : option Q) (fixed : bool) (acts : list (action (FilterStore A cap))) (t0 : Q)
         (s : state (FilterStore A cap)) (l1 : list (grant (FilterStore A cap))) (i : nat) (f : A -> bool)
         (x : A) (l2 : list (grant (FilterStore A cap))),
    run fixed (init (K:=FilterStore A cap) [] t0) acts = Some s ->
    log s = l1 ++ GGet (K:=FilterStore A cap) i f x :: l2 ->
    exists a b, path (FilterStore A cap) [] l1 (a ++ x :: b) /\ f x = true /\ (forall y, In y a -> f y = false) /\
                path (FilterStore A cap) (a ++ b) l2 (content s).
Proof. exact filter_first_match. Qed.
Print Assumptions C07_filter_store_first_match.

Theorem C07_filter_store_put_appends :
  forall (A : Type) (cap : option Q) (fixed : bool) (acts : list (action (FilterStore A cap))) (t0 : Q)
         (s : state (FilterStore A cap)) (l1 : list (grant (FilterStore A cap))) (i : nat) (p : A)
         (l2 : list (grant (FilterStore A cap))),
    run fixed (init (K:=FilterStore A cap) [] t0) acts = Some s ->
    log s = l1 ++ GPut (K:=FilterStore A cap) i p :: l2 ->
    exists c1, path (FilterStore A cap) [] l1 c1 /\ path (FilterStore A cap) (c1 ++ [p]) l2 (content s).
Proof. exact put_appends_filter. Qed.
Print Assumptions C07_filter_store_put_appends.

(* ---- first come first served ------------------------------------------------------------------- *)
(* the four resources satisfy the laws the generic theorems need; the boolean says whether a get that
   cannot be granted stops the scan (all but FilterStore) *)
Theorem C07_laws_container : forall cap, laws (Container cap) true.
Proof. exact container_laws. Qed.
Print Assumptions C07_laws_container.
Theorem C07_laws_store : forall A cap, laws (Store A cap) true.
Proof. exact store_laws. Qed.
Print Assumptions C07_laws_store.
Theorem C07_laws_prio : forall A key cap, laws (PriorityStore A key cap) true.
Proof. exact prio_laws. Qed.
Print Assumptions C07_laws_prio.
Theorem C07_laws_filter : forall A cap, laws (FilterStore A cap) false.
Proof. exact filter_laws. Qed.
Print Assumptions C07_laws_filter.

(* ids of the granted puts in grant order, then the ids of the waiting puts in queue order: strictly
   increasing.  So no put is granted while an older put waits, and the queue is in arrival order. *)
Theorem C07_puts_fcfs :
  forall (K : kind) (gblock : bool), laws K gblock ->
  forall (fixed : bool) (acts : list (action K)) (c0 : KC K) (t0 : Q) (s : state K),
    run fixed (init c0 t0) acts = Some s ->
    StronglySorted lt (put_ids K (log s) ++ ids (putq s)).
Proof. exact puts_fcfs_generic. Qed.
Print Assumptions C07_puts_fcfs.

Theorem C07_gets_fcfs :
  forall (K : kind) (gblock : bool), laws K gblock ->
  forall (fixed : bool) (acts : list (action K)) (c0 : KC K) (t0 : Q) (s : state K),
    gblock = true ->
    run fixed (init c0 t0) acts = Some s ->
    StronglySorted lt (get_ids K (log s) ++ ids (getq s)).
Proof. exact gets_fcfs_generic. Qed.
Print Assumptions C07_gets_fcfs.

(* FilterStore, the exception: when a step hands item x to getter b while an older getter o is still
   waiting after the step, o's filter rejects x *)
Theorem C07_filter_overtake_only_nonmatching :
  forall (A : Type) (cap : option Q) (fixed : bool) (acts : list (action (FilterStore A cap))) (t0 : Q)
         (s : state (FilterStore A cap)) (a : action (FilterStore A cap)) (s' : state (FilterStore A cap))
         (news : list (grant (FilterStore A cap))),
    run fixed (init (K:=FilterStore A cap) [] t0) acts = Some s ->
    step fixed s a = Some s' ->
    log s' = log s ++ news ->
    forall b fb x, In (GGet (K:=FilterStore A cap) b fb x) news ->
    forall o fo, In (o, fo) (getq s') -> o < b -> fo x = false.
Proof. exact filter_overtake_only_nonmatching. Qed.
Print Assumptions C07_filter_overtake_only_nonmatching.

(* ---- no stranded request: whenever the clock may advance, the heads of both queues cannot be
        granted in the current state -- also after cancels (repaired cancel) ------------------------ *)
Theorem C07_heads_blocked_at_advance :
  forall (K : kind) (gblock : bool), laws K gblock ->
  forall (acts : list (action K)) (c0 : KC K) (t0 : Q) (s : state K) (t : Q) (s' : state K),
    run true (init c0 t0) acts = Some s ->
    step true s (AAdvance t) = Some s' ->
    (match putq s with [] => True | r :: _ => r_val (k_do_put K (content s) (snd r)) = None end) /\
    (if gblock
     then match getq s with [] => True | r :: _ => r_val (k_do_get K (content s) (snd r)) = None end
     else forall r, In r (getq s) -> r_val (k_do_get K (content s) (snd r)) = None).
Proof. exact heads_blocked_at_advance. Qed.
Print Assumptions C07_heads_blocked_at_advance.

Theorem C07_heads_blocked_container :
  forall (cap : option Q) (acts : list (action (Container cap))) (init_level t0 : Q)
         (s : state (Container cap)) (t : Q) (s' : state (Container cap)),
    run true (init (K:=Container cap) init_level t0) acts = Some s ->
    step true s (AAdvance t) = Some s' ->
    (forall i a rest, putq s = (i, a) :: rest ->
       match cap with Some c => (c - content s < a)%Q | None => False end) /\
    (forall i a rest, getq s = (i, a) :: rest -> (content s < a)%Q).
Proof. exact container_heads_blocked. Qed.
Print Assumptions C07_heads_blocked_container.

Theorem C07_heads_blocked_store :
  forall (A : Type) (cap : option Q) (acts : list (action (Store A cap))) (t0 : Q)
         (s : state (Store A cap)) (t : Q) (s' : state (Store A cap)),
    run true (init (K:=Store A cap) [] t0) acts = Some s ->
    step true s (AAdvance t) = Some s' ->
    (putq s <> [] -> exists c, cap = Some c /\ (c < inject_Z (Z.of_nat (length (content s))) + 1)%Q) /\
    (getq s <> [] -> content s = []).
Proof. exact store_heads_blocked. Qed.
Print Assumptions C07_heads_blocked_store.

Theorem C07_heads_blocked_prio :
  forall (A : Type) (key : A -> Z) (cap : option Q) (acts : list (action (PriorityStore A key cap))) (t0 : Q)
         (s : state (PriorityStore A key cap)) (t : Q) (s' : state (PriorityStore A key cap)),
    run true (init (K:=PriorityStore A key cap) [] t0) acts = Some s ->
    step true s (AAdvance t) = Some s' ->
    (putq s <> [] -> exists c, cap = Some c /\ (c < inject_Z (Z.of_nat (length (content s))) + 1)%Q) /\
    (getq s <> [] -> content s = []).
Proof. exact prio_heads_blocked. Qed.
Print Assumptions C07_heads_blocked_prio.

Theorem C07_heads_blocked_filter :
  forall (A : Type) (cap : option Q) (acts : list (action (FilterStore A cap))) (t0 : Q)
         (s : state (FilterStore A cap)) (t : Q) (s' : state (FilterStore A cap)),
    run true (init (K:=FilterStore A cap) [] t0) acts = Some s ->
    step true s (AAdvance t) = Some s' ->
    (putq s <> [] -> exists c, cap = Some c /\ (c < inject_Z (Z.of_nat (length (content s))) + 1)%Q) /\
    (forall i f, In (i, f) (getq s) -> forall y, In y (content s) -> f y = false).
Proof. exact filter_heads_blocked. Qed.
Print Assumptions C07_heads_blocked_filter.

(* the cancel of the pinned commit (no rescan) strands a satisfiable put across a clock advance *)
Theorem C07_heads_blocked_refuted_before_fix :
  exists (acts : list (action (Container (Some 10%Q)))) s t s',
    run false (init (K:=Container (Some 10%Q)) 5%Q 0%Q) acts = Some s /\
    step false s (AAdvance t) = Some s' /\
    exists i a rest, putq s = (i, a) :: rest /\ (a <= 10 - content s)%Q.
Proof. exact heads_blocked_refuted_unfixed. Qed.
Print Assumptions C07_heads_blocked_refuted_before_fix.

(* ---- heapq (PriorityStore's item order) --------------------------------------------------------- *)
Theorem C07_heappop_min_and_multiset :
  forall (A : Type) (key : A -> Z) (h : list A),
    h <> [] -> heap_ok A key h ->
    exists x h', heappop key h = Some (x, h') /\ heap_ok A key h' /\ Permutation h (x :: h') /\
                 forall y, In y h -> (key x <= key y)%Z.
Proof. exact heappop_spec. Qed.
Print Assumptions C07_heappop_min_and_multiset.

Theorem C07_heappush_multiset :
  forall (A : Type) (key : A -> Z) (h : list A) (x : A),
    heap_ok A key h ->
    exists h', heappush key h x = Some h' /\ heap_ok A key h' /\ Permutation (x :: h) h'.
Proof. exact heappush_spec. Qed.
Print Assumptions C07_heappush_multiset.

(* the error result of the transcription (fuel, indices) never occurs, for any list *)
Theorem C07_heap_total :
  forall (A : Type) (key : A -> Z) (h : list A) (x : A),
    heappush key h x <> None /\ (h <> [] -> heappop key h <> None).
Proof. exact heap_total. Qed.
Print Assumptions C07_heap_total.
