(* Bridging lemma (DESIGN 2.6, second tie) for Process._resume: ONE iteration of its `while True` (preceded by
   `env._active_proc = self`) as translated from the tree under test on every run (Gen/Extracted_resume.v) is one
   unfolding of [resume_loop] of the hand-written kernel model (Kernel/Model.v), entered through [resume_proc].
   generator.send / generator.throw are the model's [run_frag] of the process automaton: StopIteration = FrRet,
   another exception = FrRaise, a yield = FrYield.  The handlers of the first try ARE translated (ok / value / schedule,
   then _target and _active_proc); the second try statement is one whitelisted statement with three ways on. *)
From Coq Require Import ZArith QArith List Bool Lia.
From ONL Require Import Kernel.Model Gen.Extracted_resume.
Import ListNotations.

(* what the iteration sees of the state: the incoming event's _ok, how the generator answered, what it yielded *)
Definition resume_obs (codes : list prog) (p : pid) (e : evid) (s : state) : bool * bool * bool * bool * bool :=
  let s0 := set_active (Some p) s in
  match get_event e s0, get_proc p s0 with
  | Some ev, Some pr =>
      match out ev with
      | Some o =>
          let s1 := match o with Fail _ => upd_event e ev_set_defused s0 | Ok _ => s0 end in
          let '(s2, r) := run_frag codes (resume (pcode pr) (pst pr) o) s1 in
          let eok := match o with Ok _ => true | Fail _ => false end in
          match r with
          | FrRet _ => (eok, true, false, false, false)
          | FrRaise _ => (eok, false, true, false, false)
          | FrYield v a =>
              let s3 := put_proc p (proc_set_st pr a) s2 in
              match v with
              | VEv e' => match get_event e' s3 with
                          | Some ev' => (eok, false, false, negb (is_processed ev'), false)
                          | None => (eok, false, false, false, true)
                          end
              | _ => (eok, false, false, false, true)
              end
          end
      | None => (false, false, false, false, false)
      end
  | _, _ => (false, false, false, false, false)
  end.

Definition resume_gen (codes : list prog) (p : pid) (e : evid) (s : state) : list resume_fx :=
  match resume_obs codes p e s with
  | (eok, returned, raised, pending, invalid) => gen_Process_resume eok returned raised pending invalid
  end.

(* the meaning of the effect sequences of the first iteration *)
Definition resume_fx_run (f : nat) (codes : list prog) (p : pid) (e : evid) (s : state) (fx : list resume_fx)
  : option (state * result) :=
  let s0 := set_active (Some p) s in                                               (* FxSetActive *)
  match get_event e s0, get_proc p s0 with
  | Some ev, Some pr =>
      match out ev with
      | Some o =>
          (* the part up to send / throw: a failed event is defused and a copy of its exception thrown in *)
          let pre := match fx, o with
                     | FxSetActive :: FxSend :: t, Ok _ => Some (s0, t)
                     | FxSetActive :: FxDefuseEvent :: FxCopyFailure :: FxSetCause :: FxThrow :: t, Fail _ =>
                         Some (upd_event e ev_set_defused s0, t)
                     | _, _ => None
                     end in
          match pre with
          | None => None
          | Some (s1, tail) =>
              let '(s2, r) := run_frag codes (resume (pcode pr) (pst pr) o) s1 in
              match tail, r with
              | [FxEventNone; FxSetOk true; FxSetValueReturn; FxScheduleSelf; FxSetTarget; FxClearActive], FrRet v =>
                  Some (proc_finish p pr (Ok v) s2, ROk)
              | [FxEventNone; FxSetOk false; FxStripTraceback; FxSetValueExc; FxScheduleSelf; FxSetTarget; FxClearActive], FrRaise x =>
                  Some (proc_finish p pr (Fail x) s2, ROk)
              | [FxAppendResume; FxSetTarget; FxClearActive], FrYield (VEv e') a =>
                  let s3 := put_proc p (proc_set_st pr a) s2 in
                  match get_event e' s3 with
                  | Some ev' => if is_processed ev' then None else Some (proc_wait p e' s3, ROk)
                  | None => None
                  end
              | [FxRaiseInvalidYield], FrYield v a =>
                  let s3 := put_proc p (proc_set_st pr a) s2 in
                  match v with
                  | VEv e' => match get_event e' s3 with
                              | Some _ => None
                              | None => Some (s3, RRaise (kexn ERuntime M_invalid_yield))
                              end
                  | _ => Some (s3, RRaise (kexn ERuntime M_invalid_yield))
                  end
              | [FxLoopAgain], FrYield (VEv e') a =>
                  let s3 := put_proc p (proc_set_st pr a) s2 in
                  match get_event e' s3 with
                  | Some ev' => if is_processed ev' then Some (resume_loop f codes p e' s3) else None
                  | None => None
                  end
              | _, _ => None
              end
          end
      | None => None
      end
  | _, _ => None
  end.

Lemma bridge_resume f codes p e s ev pr o :
  get_event e (set_active (Some p) s) = Some ev -> get_proc p (set_active (Some p) s) = Some pr -> out ev = Some o ->
  resume_fx_run f codes p e s (resume_gen codes p e s) = Some (resume_proc (S f) codes p e s).
Proof.
  intros He Hp Ho. unfold resume_gen, resume_obs, resume_fx_run, resume_proc, gen_Process_resume.
  cbn [resume_loop]. rewrite He, Hp, Ho. cbv zeta.
  destruct o as [v0|x0];
    match goal with |- context [run_frag codes ?fr ?st] => destruct (run_frag codes fr st) as [s2 r] eqn:ER end;
    destruct r as [v a|v|x]; cbn -[proc_finish proc_wait put_proc resume_loop]; rewrite ?ER;
      try reflexivity;
      try (destruct v as [| | |e'| | |]; try (rewrite ?ER; reflexivity);
           destruct (get_event e' (put_proc p (proc_set_st pr a) s2)) as [ev'|] eqn:E';
             [destruct (is_processed ev') eqn:EP|]; cbn -[proc_finish proc_wait put_proc resume_loop];
             rewrite ?ER, ?E', ?EP; reflexivity).
Qed.

(* ---- non-vacuity witness: a process whose generator returns at once is resumed by its Initialize event (event 1) ------ *)
Definition exr_prog : prog := mkProg unit (fun _ => tt) (fun _ _ => FRet (VInt 4)).
Definition exr_state : state := fst (call_spawn [exr_prog] 0%nat VNone (init_state 0)).
Lemma ex_resume :
  (exists ev pr o, get_event 1%nat (set_active (Some 0%nat) exr_state) = Some ev /\
                   get_proc 0%nat (set_active (Some 0%nat) exr_state) = Some pr /\ out ev = Some o) /\
  resume_fx_run 0 [exr_prog] 0%nat 1%nat exr_state (resume_gen [exr_prog] 0%nat 1%nat exr_state) =
    Some (resume_proc 1 [exr_prog] 0%nat 1%nat exr_state) /\
  resume_gen [exr_prog] 0%nat 1%nat exr_state =
    [FxSetActive; FxSend; FxEventNone; FxSetOk true; FxSetValueReturn; FxScheduleSelf; FxSetTarget; FxClearActive] /\
  option_map out (get_event 0%nat (fst (resume_proc 1 [exr_prog] 0%nat 1%nat exr_state))) = Some (Some (Ok (VInt 4))).
Proof.
  split; [do 3 eexists; split; [reflexivity|]; split; reflexivity|].
  split; [eapply bridge_resume; reflexivity|]. split; vm_compute; reflexivity.
Qed.
