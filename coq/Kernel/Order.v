(* Kernel/Order.v -- C01: events take effect in time order, urgent first, then in trigger order.
   Theorems about the real [step]/[run]/[do_call] of Kernel/Model.v, for every code table (all automata, any
   number of processes) and every execution; by the invariant [good] and the frame relation of Kernel/Inv.v.

   Executions: [ktrans codes s lbl s'] is one kernel transition -- a [step] that pops entry m (lbl = Some m), a
   module-level API call or the prelude of run() (lbl = None); [exec codes s l s'] is a sequence of them with the
   list of labels.  [run_exec]/[step_exec]/[run_frag_exec] show that whatever [run], [step] and module-level code
   do is such an execution, so every theorem below applies to them. *)
From Coq Require Import ZArith QArith List Bool Lia Lqa.
From ONL Require Import Kernel.Model Kernel.Keys Kernel.Inv.
Import ListNotations.

(* ------------------------------------------------------------------------------------------------ *)
(* the invariant *)

Record agenda_ok (s : state) : Prop := mkAgendaOk {
  ok_time : forall x, In x (agenda s) -> now s <= e_time x;            (* nothing pending is in the past *)
  ok_eid : forall x, In x (agenda s) -> (e_eid x < next_eid s)%nat;    (* insertion ids come from the counter *)
  ok_nodup : NoDup (map e_eid (agenda s)) }.                           (* hence keys are pairwise distinct *)

(* every pending entry carries the priority class of its event: URGENT for Initialize / Interruption / the
   numeric-until sentinel, NORMAL for everything else *)
Definition prio_ok (s : state) : Prop :=
  forall x, In x (agenda s) -> exists ev, nth_error (events s) (e_ev x) = Some ev /\ e_prio x = kclass (kind ev).

Definition good (s : state) : Prop := agenda_ok s /\ kinv s /\ prio_ok s.

Lemma good_init t0 : good (init_state t0).
Proof.
  split; [|split].
  - constructor; cbn; [intros x []|intros x []|constructor].
  - split; cbn; intros [|?] ?; discriminate.
  - intros x [].
Qed.

Lemma new_ok_in t n l x : new_ok t n l -> In x l -> (n <= e_eid x < n + length l)%nat /\ t <= e_time x.
Proof.
  revert n. induction l as [|y r IH]; cbn [new_ok In length]; intros n H Hx; [destruct Hx|].
  destruct H as (A & B & C). destruct Hx as [<-|Hx].
  - split; [lia|exact B].
  - destruct (IH _ C Hx) as [D E]. split; [lia|exact E].
Qed.

Lemma new_ok_nodup t n l : new_ok t n l -> NoDup (map e_eid l).
Proof.
  revert n. induction l as [|y r IH]; cbn [new_ok map]; intros n H; [constructor|].
  destruct H as (A & B & C). constructor; [|eapply IH, C].
  intros Hin. apply in_map_iff in Hin. destruct Hin as (z & Hz & Hin).
  destruct (new_ok_in _ _ _ _ C Hin) as [D _]. lia.
Qed.

Lemma nodup_app {A} (l1 l2 : list A) :
  NoDup l1 -> NoDup l2 -> (forall x, In x l1 -> ~ In x l2) -> NoDup (l1 ++ l2).
Proof.
  induction l1 as [|a t IH]; cbn [app]; intros H1 H2 H; [exact H2|].
  inversion H1 as [|? ? Hn H1']; subst. constructor.
  - intros Hin. apply in_app_or in Hin. destruct Hin as [Hin|Hin]; [exact (Hn Hin)|]. exact (H a (or_introl eq_refl) Hin).
  - apply IH; [exact H1'|exact H2|]. intros x Hx. apply H. right. exact Hx.
Qed.

Lemma key_le_time a b : key_le a b -> e_time a <= e_time b.
Proof. unfold key_le. intros [H|[H _]]; lra. Qed.

(* [ext] preserves the invariant *)
Lemma ext_good s s' : good s -> ext s s' -> good s'.
Proof.
  intros (A & K & P) E. destruct (E K) as [K' N C (l & Ha & He & Ho & Hp)].
  split; [|split; [exact K'|]].
  - constructor.
    + intros x Hx. rewrite Ha in Hx. rewrite N. apply in_app_or in Hx. destruct Hx as [Hx|Hx].
      * apply (ok_time _ A), Hx.
      * apply (new_ok_in _ _ _ _ Ho Hx).
    + intros x Hx. rewrite Ha in Hx. rewrite He. apply in_app_or in Hx. destruct Hx as [Hx|Hx].
      * pose proof (ok_eid _ A _ Hx). lia.
      * destruct (new_ok_in _ _ _ _ Ho Hx) as [D _]. lia.
    + rewrite Ha, map_app. apply nodup_app; [apply (ok_nodup _ A)|eapply new_ok_nodup, Ho|].
      intros i Hi1 Hi2. apply in_map_iff in Hi1. destruct Hi1 as (x & <- & Hx).
      apply in_map_iff in Hi2. destruct Hi2 as (y & Hy & Hyl).
      pose proof (ok_eid _ A _ Hx). destruct (new_ok_in _ _ _ _ Ho Hyl) as [D _]. lia.
  - intros x Hx. rewrite Ha in Hx. apply in_app_or in Hx. destruct Hx as [Hx|Hx].
    + destruct (P _ Hx) as (ev & H1 & H2). destruct (C (e_ev x) (e_prio x)) as (ev' & H3 & H4).
      * exists ev. split; [exact H1|symmetry; exact H2].
      * exists ev'. split; [exact H3|symmetry; exact H4].
    + destruct (Hp _ Hx) as (ev & H1 & H2). exists ev. split; [exact H1|symmetry; exact H2].
Qed.

(* popping the minimum preserves the invariant *)
Lemma pop_good s m rest : good s -> pop_min (agenda s) = Some (m, rest) -> good (pop_state m rest s).
Proof.
  intros (A & K & P) H. destruct (pop_min_spec _ _ _ H) as (Hm & -> & Hle).
  split; [|split; [exact K|]].
  - constructor; cbn [pop_state add_obs set_agenda set_now now agenda next_eid].
    + intros x Hx. apply key_le_time, Hle. eapply remove_eid_subset, Hx.
    + intros x Hx. apply (ok_eid _ A). eapply remove_eid_subset, Hx.
    + apply remove_eid_nodup, (ok_nodup _ A).
  - intros x Hx. cbn [pop_state add_obs set_agenda set_now agenda] in Hx. apply (P x). eapply remove_eid_subset, Hx.
Qed.

(* ------------------------------------------------------------------------------------------------ *)
(* transitions and executions *)

Inductive ktrans (codes : list prog) : state -> option entry -> state -> Prop :=
| KStep fuel s s' r m rest :
    step fuel codes s = (s', r) -> pop_min (agenda s) = Some (m, rest) -> ktrans codes s (Some m) s'
| KCall c s s' o : do_call codes c s = (s', o) -> ktrans codes s None s'
| KPrelude u s s' : run_prelude u s = inr s' -> ktrans codes s None s'.

Inductive exec (codes : list prog) : state -> list (option entry) -> state -> Prop :=
| exec_nil s : exec codes s [] s
| exec_cons s lbl s1 l s' : ktrans codes s lbl s1 -> exec codes s1 l s' -> exec codes s (lbl :: l) s'.

Lemma exec_app codes s l1 s1 l2 s2 : exec codes s l1 s1 -> exec codes s1 l2 s2 -> exec codes s (l1 ++ l2) s2.
Proof. induction 1; cbn [app]; [auto|]. intros H2. econstructor; [eassumption|auto]. Qed.

Lemma exec_split codes s l1 l2 s' :
  exec codes s (l1 ++ l2) s' -> exists s1, exec codes s l1 s1 /\ exec codes s1 l2 s'.
Proof.
  revert s. induction l1 as [|a t IH]; cbn [app]; intros s H.
  - exists s. split; [constructor|exact H].
  - inversion H as [|? ? s1 ? ? Ht He]; subst. destruct (IH _ He) as (s2 & H1 & H2).
    exists s2. split; [econstructor; eassumption|exact H2].
Qed.

(* what a transition is, in terms of the agenda *)
Definition tr_spec (s : state) (lbl : option entry) (s' : state) : Prop :=
  match lbl with
  | Some m => exists rest, pop_min (agenda s) = Some (m, rest) /\ ext (pop_state m rest s) s'
  | None => ext s s'
  end.

Lemma ktrans_spec codes s lbl s' : ktrans codes s lbl s' -> tr_spec s lbl s'.
Proof.
  intros [fuel s0 s1 r m rest Hs Hp|c s0 s1 o Hc|u s0 s1 Hu]; cbn [tr_spec].
  - destruct (step_spec _ _ _ _ _ Hs) as [(Hn & _)|(m' & rest' & Hp' & E)]; [congruence|].
    rewrite Hp in Hp'. injection Hp' as <- <-. exists rest. split; [exact Hp|exact E].
  - pose proof (ext_do_call codes c s0) as E. rewrite Hc in E. exact E.
  - eapply ext_run_prelude, Hu.
Qed.

Section Trans.
  Variables (s : state) (lbl : option entry) (s' : state).
  Hypothesis G : good s.
  Hypothesis T : tr_spec s lbl s'.

  Lemma tr_good : good s'.
  Proof.
    destruct lbl as [m|]; cbn [tr_spec] in T.
    - destruct T as (rest & Hp & E). eapply ext_good; [eapply pop_good; eassumption|exact E].
    - eapply ext_good; eassumption.
  Qed.

  (* the clock never goes back; a step sets it to the time of the entry it pops *)
  Lemma tr_now : now s <= now s' /\ (forall m, lbl = Some m -> now s' = e_time m).
  Proof.
    destruct G as (A & K & P). destruct lbl as [m|]; cbn [tr_spec] in T.
    - destruct T as (rest & Hp & E). destruct (E K) as [_ N _ _]. cbn in N.
      destruct (pop_min_spec _ _ _ Hp) as (Hm & _ & _).
      split; [rewrite N; apply (ok_time _ A), Hm|]. intros m0 H; injection H as <-. exact N.
    - destruct (T K) as [_ N _ _]. split; [rewrite N; lra|discriminate].
  Qed.

  Lemma tr_next_eid : (next_eid s <= next_eid s')%nat.
  Proof.
    destruct G as (A & K & P). destruct lbl as [m|]; cbn [tr_spec] in T.
    - destruct T as (rest & Hp & E). destruct (E K) as [_ _ _ (l & _ & He & _)]. cbn in He. lia.
    - destruct (T K) as [_ _ _ (l & _ & He & _)]. lia.
  Qed.

  (* a pending entry stays on the agenda, unchanged, until the step that pops it *)
  Lemma tr_persist x : In x (agenda s) -> lbl <> Some x -> In x (agenda s').
  Proof.
    intros Hx Hl. destruct G as (A & K & P). destruct lbl as [m|]; cbn [tr_spec] in T.
    - destruct T as (rest & Hp & E). destruct (E K) as [_ _ _ (l & Ha & _)]. cbn in Ha. rewrite Ha.
      apply in_or_app. left. destruct (pop_min_spec _ _ _ Hp) as (Hm & -> & _).
      apply remove_eid_keeps; [exact Hx|]. intros Heq. apply Hl. f_equal.
      (* same eid on a duplicate-free agenda: same entry *)
      clear - A Hx Hm Heq. pose proof (ok_nodup _ A) as ND. induction (agenda s) as [|y t IH]; [destruct Hx|].
      cbn [map] in ND. inversion ND as [|? ? Hn ND']; subst.
      destruct Hx as [->|Hx], Hm as [->|Hm]; try reflexivity.
      * exfalso. apply Hn. rewrite Heq. apply in_map, Hm.
      * exfalso. apply Hn. rewrite <- Heq. apply in_map, Hx.
      * apply IH; assumption.
    - destruct (T K) as [_ _ _ (l & Ha & _)]. rewrite Ha. apply in_or_app. left. exact Hx.
  Qed.

  (* whatever is pending afterwards was pending before or has just been inserted: fresh id, time >= the clock *)
  Lemma tr_origin x : In x (agenda s') -> In x (agenda s) \/ (next_eid s <= e_eid x)%nat.
  Proof.
    intros Hx. destruct G as (A & K & P). destruct lbl as [m|]; cbn [tr_spec] in T.
    - destruct T as (rest & Hp & E). destruct (E K) as [_ _ _ (l & Ha & _ & Ho & _)]. cbn in Ha, Ho.
      rewrite Ha in Hx. apply in_app_or in Hx. destruct Hx as [Hx|Hx].
      + left. destruct (pop_min_spec _ _ _ Hp) as (_ & -> & _). eapply remove_eid_subset, Hx.
      + right. apply (new_ok_in _ _ _ _ Ho Hx).
    - destruct (T K) as [_ _ _ (l & Ha & _ & Ho & _)]. rewrite Ha in Hx. apply in_app_or in Hx.
      destruct Hx as [Hx|Hx]; [left; exact Hx|right; apply (new_ok_in _ _ _ _ Ho Hx)].
  Qed.

  (* the popped entry was pending and is the minimum of the agenda *)
  Lemma tr_min m : lbl = Some m ->
    In m (agenda s) /\ (forall x, In x (agenda s) -> key_le m x) /\
    (forall x, In x (agenda s) -> e_eid x <> e_eid m -> key_lt m x).
  Proof.
    intros ->. cbn [tr_spec] in T. destruct T as (rest & Hp & _).
    destruct (pop_min_spec _ _ _ Hp) as (Hm & _ & Hle). split; [exact Hm|]. split; [exact Hle|].
    intros x Hx Hn. apply key_le_neq_lt; [apply Hle, Hx|auto].
  Qed.
End Trans.

Lemma exec_good codes s l s' : good s -> exec codes s l s' -> good s'.
Proof. intros G H. induction H as [|s lbl s1 l s' Ht He IH]; [exact G|]. apply IH. eapply tr_good; [exact G|eapply ktrans_spec, Ht]. Qed.

Lemma exec_now_mono codes s l s' : good s -> exec codes s l s' -> now s <= now s'.
Proof.
  intros G H. induction H as [|s lbl s1 l s' Ht He IH]; [lra|].
  pose proof (ktrans_spec _ _ _ _ Ht) as T. destruct (tr_now _ _ _ G T) as [N _].
  pose proof (IH (tr_good _ _ _ G T)). lra.
Qed.

Lemma exec_next_eid codes s l s' : good s -> exec codes s l s' -> (next_eid s <= next_eid s')%nat.
Proof.
  intros G H. induction H as [|s lbl s1 l s' Ht He IH]; [lia|].
  pose proof (ktrans_spec _ _ _ _ Ht) as T. pose proof (tr_next_eid _ _ _ G T).
  pose proof (IH (tr_good _ _ _ G T)). lia.
Qed.

(* a pending entry is either still pending (same entry, same time) or has been popped *)
Lemma exec_fate codes s l s' x : good s -> exec codes s l s' -> In x (agenda s) -> In x (agenda s') \/ In (Some x) l.
Proof.
  intros G H. induction H as [|s lbl s1 l s' Ht He IH]; intros Hx; [left; exact Hx|].
  pose proof (ktrans_spec _ _ _ _ Ht) as T.
  destruct lbl as [m|].
  - destruct (Q_dec (e_time m) (e_time x)) as [[?|?]|?]; [| |].
    all: destruct (Nat.eq_dec (e_eid m) (e_eid x)) as [Heq|Hne].
    all: try (destruct (IH (tr_good _ _ _ G T)) as [?|?];
              [eapply tr_persist; [exact G|exact T|exact Hx|intros HH; injection HH as ->; congruence]|left; assumption|right; right; assumption]).
    all: (* same eid: same entry *)
      assert (m = x) as -> by
        (destruct (tr_min _ _ _ T m eq_refl) as (Hm & _ & Hlt);
         destruct (Nat.eq_dec (e_eid x) (e_eid m)) as [E|E]; [|congruence];
         clear - G Hm Hx Heq; destruct G as (A & _ & _); pose proof (ok_nodup _ A) as ND;
         induction (agenda s) as [|y t IHl]; [destruct Hx|];
         cbn [map] in ND; inversion ND as [|? ? Hn ND']; subst;
         destruct Hx as [->|Hx], Hm as [->|Hm]; try reflexivity;
         [exfalso; apply Hn; rewrite <- Heq; apply in_map, Hm
         |exfalso; apply Hn; rewrite Heq; apply in_map, Hx
         |apply IHl; assumption]);
      right; left; reflexivity.
  - destruct (IH (tr_good _ _ _ G T)) as [?|?]; [eapply tr_persist; [exact G|exact T|exact Hx|discriminate]|left; assumption|right; right; assumption].
Qed.

(* an entry pending at the end was pending at the start or was inserted on the way (with a fresh id) *)
Lemma exec_origin codes s l s' x : good s -> exec codes s l s' -> In x (agenda s') -> In x (agenda s) \/ (next_eid s <= e_eid x)%nat.
Proof.
  intros G H. induction H as [|s lbl s1 l s' Ht He IH]; intros Hx; [left; exact Hx|].
  pose proof (ktrans_spec _ _ _ _ Ht) as T.
  destruct (IH (tr_good _ _ _ G T) Hx) as [H1|H1].
  - exact (tr_origin _ _ _ G T _ H1).
  - right. pose proof (tr_next_eid _ _ _ G T). lia.
Qed.

(* splitting an execution at a label *)
Lemma exec_at codes s l1 lbl l2 s' :
  exec codes s (l1 ++ lbl :: l2) s' ->
  exists sa sb, exec codes s l1 sa /\ ktrans codes sa lbl sb /\ exec codes sb l2 s'.
Proof.
  intros H. destruct (exec_split _ _ _ _ _ H) as (sa & H1 & H2).
  inversion H2 as [|? ? sb ? ? Ht He]; subst. exists sa, sb. auto.
Qed.

(* ------------------------------------------------------------------------------------------------ *)
(* what step / run / module-level code do is an execution *)

Lemma step_exec fuel codes s s' r : step fuel codes s = (s', r) -> exists l, exec codes s l s'.
Proof.
  intros H. destruct (pop_min (agenda s)) as [[m rest]|] eqn:P.
  - exists [Some m]. econstructor; [eapply KStep; eassumption|constructor].
  - unfold step in H. rewrite P in H. injection H as <- _. exists []. constructor.
Qed.

Lemma run_loop_exec n fuel codes u : forall s s' r, run_loop n fuel codes u s = (s', r) -> exists l, exec codes s l s'.
Proof.
  induction n as [|n IH]; intros s s' r; cbn [run_loop].
  - intros H; injection H as <- _. exists []. constructor.
  - destruct (step fuel codes s) as [s1 r1] eqn:S. destruct (step_exec _ _ _ _ _ S) as (l1 & E1).
    destruct r1; intros H; try (injection H as <- _; exists l1; exact E1).
    destruct (IH _ _ _ H) as (l2 & E2). exists (l1 ++ l2). eapply exec_app; eassumption.
Qed.

Theorem run_exec fuel codes u s s' r : run fuel codes u s = (s', r) -> exists l, exec codes s l s'.
Proof.
  unfold run. destruct (run_prelude u s) as [[s0 r0]|s1] eqn:P.
  - intros H; injection H as <- <-. rewrite (run_prelude_inl _ _ _ _ P). exists []. constructor.
  - intros H. destruct (run_loop_exec _ _ _ _ _ _ _ H) as (l & E).
    exists (None :: l). econstructor; [eapply KPrelude, P|exact E].
Qed.

Lemma run_frag_exec {A} codes (f : frag A) : forall s s' r, run_frag codes f s = (s', r) -> exists l, exec codes s l s'.
Proof.
  induction f as [v a|v|x|c k IH]; intros s s' r; cbn [run_frag];
    try (intros H; injection H as <- _; exists []; constructor).
  destruct (do_call codes c s) as [s1 o] eqn:C. intros H. destruct (IH _ _ _ _ H) as (l & E).
  exists (None :: l). econstructor; [eapply KCall, C|exact E].
Qed.

(* ------------------------------------------------------------------------------------------------ *)
(* C01 theorems *)

(* the agenda invariant holds in every state of every execution *)
Theorem agenda_invariant codes t0 l s :
  exec codes (init_state t0) l s ->
  (forall x, In x (agenda s) -> now s <= e_time x) /\
  (forall x, In x (agenda s) -> (e_eid x < next_eid s)%nat) /\
  NoDup (map e_eid (agenda s)) /\
  (forall x y, In x (agenda s) -> In y (agenda s) -> x <> y -> key_lt x y \/ key_lt y x).
Proof.
  intros H. pose proof (exec_good _ _ _ _ (good_init t0) H) as (A & _ & _).
  split; [apply (ok_time _ A)|]. split; [apply (ok_eid _ A)|]. split; [apply (ok_nodup _ A)|].
  intros x y Hx Hy Hn. assert (e_eid x <> e_eid y).
  { intros Heq. apply Hn. pose proof (ok_nodup _ A) as ND. clear - ND Hx Hy Heq.
    induction (agenda s) as [|z t IH]; [destruct Hx|]. cbn [map] in ND. inversion ND as [|? ? Hnn ND']; subst.
    destruct Hx as [->|Hx], Hy as [->|Hy]; try reflexivity.
    - exfalso. apply Hnn. rewrite Heq. apply in_map, Hy.
    - exfalso. apply Hnn. rewrite <- Heq. apply in_map, Hx.
    - apply IH; assumption. }
  destruct (key_ltb x y) eqn:K; [left; apply key_ltb_iff, K|].
  right. apply key_le_neq_lt; [apply key_ltb_false, K|auto].
Qed.

(* simulated time never decreases: between any two states of an execution *)
Theorem now_monotone codes s l1 s1 l2 s2 :
  good s -> exec codes s l1 s1 -> exec codes s1 l2 s2 -> now s1 <= now s2.
Proof. intros G H1 H2. eapply exec_now_mono; [eapply exec_good; eassumption|exact H2]. Qed.

Theorem run_now_monotone fuel codes u s s' r :
  good s -> run fuel codes u s = (s', r) -> now s <= now s' /\ good s'.
Proof.
  intros G H. destruct (run_exec _ _ _ _ _ _ H) as (l & E).
  split; [eapply exec_now_mono; eassumption|eapply exec_good; eassumption].
Qed.

Theorem step_now_monotone fuel codes s s' r :
  good s -> step fuel codes s = (s', r) -> now s <= now s' /\ good s'.
Proof.
  intros G H. destruct (step_exec _ _ _ _ _ H) as (l & E).
  split; [eapply exec_now_mono; eassumption|eapply exec_good; eassumption].
Qed.

(* an entry pending in some state takes effect -- if at all -- in a step that sets the clock to exactly its
   time; as long as it is pending the clock has not passed its time (nothing takes effect late) *)
Theorem pending_takes_effect_exactly codes s x l s' :
  good s -> In x (agenda s) -> exec codes s l s' ->
  (In x (agenda s') /\ now s' <= e_time x) \/
  (exists l1 l2 sa sb, l = l1 ++ Some x :: l2 /\ exec codes s l1 sa /\ In x (agenda sa) /\
                       ktrans codes sa (Some x) sb /\ now sb = e_time x /\ exec codes sb l2 s').
Proof.
  intros G Hx E. destruct (exec_fate _ _ _ _ _ G E Hx) as [H|H].
  - left. split; [exact H|]. pose proof (exec_good _ _ _ _ G E) as (A & _). apply (ok_time _ A), H.
  - right. apply in_split in H. destruct H as (l1 & l2 & ->).
    destruct (exec_at _ _ _ _ _ _ E) as (sa & sb & E1 & T & E2).
    exists l1, l2, sa, sb. pose proof (exec_good _ _ _ _ G E1) as Ga. pose proof (ktrans_spec _ _ _ _ T) as Ts.
    repeat split; try assumption.
    + apply (tr_min _ _ _ Ts x eq_refl).
    + apply (tr_now _ _ _ Ga Ts). reflexivity.
Qed.

(* Environment.schedule inserts at now + delay, with the given priority and the next insertion id *)
Theorem schedule_inserts e pr d s :
  exists x, agenda (schedule e pr d s) = agenda s ++ [x] /\
            e_time x == now s + d /\ e_prio x = pr /\ e_eid x = next_eid s /\ e_ev x = e /\
            next_eid (schedule e pr d s) = S (next_eid s) /\ now (schedule e pr d s) = now s.
Proof.
  exists (mkEntry (Qred (now s + d)) pr (next_eid s) e). split; [reflexivity|].
  cbn [e_time e_prio e_eid e_ev]. split; [apply Qred_correct|]. repeat split.
Qed.

(* a timeout created at t0 = now with delay d >= 0 is due at exactly t0 + d, NORMAL; it takes effect in a step
   that sets now == t0 + d and, until then, now <= t0 + d *)
Theorem timeout_takes_effect_exactly codes s d v s1 e l s' :
  good s -> do_call codes (CTimeout d v) s = (s1, Ok (VEv e)) -> exec codes s1 l s' ->
  0 <= d /\
  exists x, e_ev x = e /\ e_prio x = NORMAL /\ e_eid x = next_eid s /\ e_time x == now s + d /\
            agenda s1 = agenda s ++ [x] /\
    ((In x (agenda s') /\ now s' <= now s + d) \/
     (exists l1 l2 sa sb, l = l1 ++ Some x :: l2 /\ exec codes s1 l1 sa /\ ktrans codes sa (Some x) sb /\
                          now sb == now s + d /\ exec codes sb l2 s')).
Proof.
  intros G C E.
  assert (G1 : good s1) by (eapply tr_good; [exact G|eapply ktrans_spec, KCall, C]).
  cbn [do_call] in C. unfold call_timeout in C. destruct (neg_delay d) eqn:N; [discriminate|].
  assert (Hd : 0 <= d).
  { unfold neg_delay in N. destruct (d ?= 0) eqn:Cd; try discriminate.
    - apply Qeq_alt in Cd. lra.
    - apply Qgt_alt in Cd. lra. }
  split; [exact Hd|].
  cbn [new_event] in C. injection C as <- <-.
  set (x := mkEntry (Qred (now s + d)) NORMAL (next_eid s) (length (events s))).
  assert (Tx : e_time x == now s + d) by (apply Qred_correct).
  exists x. repeat split; try reflexivity; [exact Tx|].
  assert (Hx : In x (agenda (schedule (length (events s)) NORMAL d
                 (set_events (events s ++ [mkEvent (Some []) (Some (Ok v)) false KTimeout]) s))))
    by (cbn; apply in_or_app; right; left; reflexivity).
  destruct (pending_takes_effect_exactly _ _ _ _ _ G1 Hx E) as [[H1 H2]|(l1 & l2 & sa & sb & -> & E1 & _ & T & Hn & E2)].
  - left. split; [exact H1|]. rewrite <- Tx. exact H2.
  - right. exists l1, l2, sa, sb. repeat split; try assumption. rewrite Hn. exact Tx.
Qed.

(* when a step moves the clock to the time of the entry it pops, nothing that was pending is due earlier, and
   nothing that is pending afterwards is due earlier: no occurrence is skipped *)
Theorem nothing_skipped codes s m s' :
  good s -> ktrans codes s (Some m) s' ->
  now s' = e_time m /\ now s <= now s' /\
  (forall x, In x (agenda s) -> e_time m <= e_time x) /\
  (forall x, In x (agenda s') -> now s' <= e_time x).
Proof.
  intros G T. pose proof (ktrans_spec _ _ _ _ T) as Ts.
  destruct (tr_now _ _ _ G Ts) as [N1 N2]. split; [apply N2; reflexivity|]. split; [exact N1|]. split.
  - intros x Hx. apply key_le_time. apply (tr_min _ _ _ Ts m eq_refl), Hx.
  - pose proof (tr_good _ _ _ G Ts) as (A & _). apply (ok_time _ A).
Qed.

(* pop order = key order: if b is pending in some state and a is processed while b has not been processed
   yet, then key a < key b *)
Theorem pop_order codes s l1 a l2 s' b :
  good s -> exec codes s (l1 ++ Some a :: l2) s' ->
  In b (agenda s) -> ~ In (Some b) l1 -> b <> a -> key_lt a b.
Proof.
  intros G E Hb Hn Hne. destruct (exec_at _ _ _ _ _ _ E) as (sa & sb & E1 & T & E2).
  destruct (exec_fate _ _ _ _ _ G E1 Hb) as [Hb'|Hb']; [|contradiction].
  pose proof (exec_good _ _ _ _ G E1) as Ga. pose proof (ktrans_spec _ _ _ _ T) as Ts.
  destruct (tr_min _ _ _ Ts a eq_refl) as (Ha & Hle & Hlt).
  apply Hlt; [exact Hb'|]. intros Heq. apply Hne.
  destruct Ga as (A & _). pose proof (ok_nodup _ A) as ND. clear - ND Ha Hb' Heq.
  induction (agenda sa) as [|z t IH]; [destruct Ha|]. cbn [map] in ND. inversion ND as [|? ? Hnn ND']; subst.
  destruct Ha as [->|Ha], Hb' as [->|Hb']; try reflexivity.
  - exfalso. apply Hnn. rewrite <- Heq. apply in_map, Hb'.
  - exfalso. apply Hnn. rewrite Heq. apply in_map, Ha.
  - apply IH; assumption.
Qed.

(* same instant, same class: processed in insertion (= trigger) order, wherever in the execution the two
   entries were inserted *)
Theorem same_class_fifo codes s l1 b l2 s' a :
  good s -> exec codes s (l1 ++ Some b :: l2) s' -> In (Some a) (l1 ++ Some b :: l2) ->
  e_time a == e_time b -> e_prio a = e_prio b -> (e_eid a < e_eid b)%nat ->
  In (Some a) l1.
Proof.
  intros G E Ha Ht Hp He.
  assert (Kab : key_lt a b) by (right; split; [exact Ht|right; split; [exact Hp|exact He]]).
  apply in_app_or in Ha. destruct Ha as [Ha|[Ha|Ha]]; [exact Ha|injection Ha as ->; lia|].
  exfalso.
  destruct (exec_at _ _ _ _ _ _ E) as (sb & sb' & E1 & T & E2).
  pose proof (exec_good _ _ _ _ G E1) as Gb. pose proof (ktrans_spec _ _ _ _ T) as Ts.
  pose proof (tr_good _ _ _ Gb Ts) as Gb'.
  destruct (tr_min _ _ _ Ts b eq_refl) as (Hb & Hle & Hlt).
  apply in_split in Ha. destruct Ha as (l3 & l4 & ->).
  destruct (exec_at _ _ _ _ _ _ E2) as (sa & sa' & E3 & T' & E4).
  pose proof (exec_good _ _ _ _ Gb' E3) as Ga. pose proof (ktrans_spec _ _ _ _ T') as Ts'.
  destruct (tr_min _ _ _ Ts' a eq_refl) as (Hain & _ & _).
  destruct Gb as (Ab & Kb & Pb).
  pose proof (ok_eid _ Ab _ Hb) as Hbe.
  destruct (exec_origin _ _ _ _ _ Gb' E3 Hain) as [H1|H1].
  - destruct (tr_origin _ _ _ (conj Ab (conj Kb Pb)) Ts _ H1) as [H2|H2]; [|lia].
    apply (key_lt_asym _ _ Kab). apply Hlt; [exact H2|lia].
  - pose proof (tr_next_eid _ _ _ (conj Ab (conj Kb Pb)) Ts). lia.
Qed.

(* urgent before normal at one instant: an urgent entry pending together with a normal entry due at the same
   time is processed before it *)
Theorem urgent_first codes s a b l1 l2 s' :
  good s -> In a (agenda s) -> In b (agenda s) ->
  e_time a == e_time b -> (e_prio a < e_prio b)%nat ->
  exec codes s (l1 ++ Some b :: l2) s' -> In (Some a) l1.
Proof.
  intros G Ha Hb Ht Hp E.
  assert (Kab : key_lt a b) by (right; split; [exact Ht|left; exact Hp]).
  destruct (exec_at _ _ _ _ _ _ E) as (sb & sb' & E1 & T & E2).
  destruct (exec_fate _ _ _ _ _ G E1 Ha) as [Ha'|Ha']; [|exact Ha'].
  exfalso. pose proof (exec_good _ _ _ _ G E1) as Gb. pose proof (ktrans_spec _ _ _ _ T) as Ts.
  destruct (tr_min _ _ _ Ts b eq_refl) as (_ & Hle & _).
  exact (key_le_not_lt _ _ (Hle _ Ha') Kab).
Qed.

(* priority classes: in every reachable state each pending entry has the class of its event *)
Definition urgent_kind (k : ekind) : Prop :=
  match k with KInit _ | KInterruption _ | KSentinel => True | _ => False end.

Theorem priority_classes codes t0 l s x :
  exec codes (init_state t0) l s -> In x (agenda s) ->
  exists ev, nth_error (events s) (e_ev x) = Some ev /\
             (urgent_kind (kind ev) -> e_prio x = URGENT) /\ (~ urgent_kind (kind ev) -> e_prio x = NORMAL).
Proof.
  intros E Hx. pose proof (exec_good _ _ _ _ (good_init t0) E) as (_ & _ & P).
  destruct (P _ Hx) as (ev & H1 & H2). exists ev. split; [exact H1|]. rewrite H2.
  destruct (kind ev); cbn; split; intros H; try reflexivity; try contradiction; exfalso; apply H; exact I.
Qed.

(* what creates the urgent entries *)
Theorem spawn_schedules_initialize_urgent codes code arg s pr :
  nth_error codes code = Some pr ->
  let s' := fst (call_spawn codes code arg s) in
  exists x ev, agenda s' = agenda s ++ [x] /\ e_prio x = URGENT /\ e_time x == now s /\ e_eid x = next_eid s /\
               nth_error (events s') (e_ev x) = Some ev /\ kind ev = KInit (length (procs s)).
Proof.
  intros H. unfold call_spawn. rewrite H. cbn [new_event fst snd].
  eexists. eexists. split; [reflexivity|]. cbn [e_prio e_time e_eid e_ev now next_eid events set_procs set_events schedule].
  split; [reflexivity|]. split; [rewrite Qred_correct; lra|]. split; [reflexivity|].
  split.
  - rewrite nth_error_app2 by lia. rewrite Nat.sub_diag. reflexivity.
  - reflexivity.
Qed.

Theorem interrupt_schedules_urgent e cause s s' :
  call_interrupt e cause s = (s', Ok VNone) ->
  exists x ev p, agenda s' = agenda s ++ [x] /\ e_prio x = URGENT /\ e_time x == now s /\ e_eid x = next_eid s /\
                 nth_error (events s') (e_ev x) = Some ev /\ kind ev = KInterruption p.
Proof.
  unfold call_interrupt. destruct (get_event e s) as [ev0|]; [|discriminate].
  destruct (kind ev0) as [| | | |p| |]; try discriminate.
  destruct (is_triggered ev0); [discriminate|].
  destruct (match active s with Some a => Nat.eqb a p | None => false end); [discriminate|].
  cbn [new_event]. intros H; injection H as <-.
  eexists. eexists. exists p. split; [reflexivity|].
  cbn [e_prio e_time e_eid e_ev now next_eid events set_events schedule].
  split; [reflexivity|]. split; [rewrite Qred_correct; lra|]. split; [reflexivity|]. split.
  - rewrite nth_error_app2 by lia. rewrite Nat.sub_diag. reflexivity.
  - reflexivity.
Qed.

Theorem until_sentinel_urgent t s s1 :
  run_prelude (UNum t) s = inr s1 ->
  now s < t /\
  exists x ev, agenda s1 = agenda s ++ [x] /\ e_prio x = URGENT /\ e_time x == t /\ e_eid x = next_eid s /\
               nth_error (events s1) (e_ev x) = Some ev /\ kind ev = KSentinel.
Proof.
  cbn [run_prelude]. destruct (Qle_bool t (now s)) eqn:L; [discriminate|].
  assert (Hlt : now s < t).
  { destruct (Qlt_le_dec (now s) t) as [Hlt|Hle]; [exact Hlt|]. apply Qle_bool_iff in Hle. congruence. }
  cbn [new_event]. intros H0; injection H0 as <-. split; [exact Hlt|].
  eexists. eexists. split; [reflexivity|].
  cbn [e_prio e_time e_eid e_ev]. split; [reflexivity|]. split; [rewrite Qred_correct; cbn [now set_events]; lra|]. split; [reflexivity|].
  split.
  - cbn [events add_callback upd_event set_events schedule].
    rewrite nth_error_upd_nth, Nat.eqb_refl. rewrite nth_error_app2 by lia. rewrite Nat.sub_diag. reflexivity.
  - reflexivity.
Qed.

(* succeed / fail / process termination / conditions go through [trigger_event]: NORMAL, delay 0 *)
Theorem trigger_schedules_normal e o s :
  exists x, agenda (trigger_event e o s) = agenda s ++ [x] /\ e_prio x = NORMAL /\ e_time x == now s /\
            e_eid x = next_eid s /\ e_ev x = e.
Proof.
  exists (mkEntry (Qred (now s + 0)) NORMAL (next_eid s) e). split; [reflexivity|].
  cbn [e_prio e_time e_eid e_ev]. split; [reflexivity|]. split; [rewrite Qred_correct; lra|].
  split; reflexivity.
Qed.

(* a negative delay is refused with ValueError and nothing changes *)
Theorem negative_delay_refused codes d v s :
  d < 0 -> do_call codes (CTimeout d v) s = (s, Fail (kexn EValue M_negative_delay)).
Proof.
  intros H. cbn [do_call]. unfold call_timeout, neg_delay.
  destruct (d ?= 0) eqn:C; [apply Qeq_alt in C; lra|reflexivity|apply Qgt_alt in C; lra].
Qed.

Theorem nonnegative_delay_accepted codes d v s :
  0 <= d -> exists e s', do_call codes (CTimeout d v) s = (s', Ok (VEv e)).
Proof.
  intros H. cbn [do_call]. unfold call_timeout, neg_delay.
  destruct (d ?= 0) eqn:C; [| |]; try (eexists; eexists; reflexivity).
  apply Qlt_alt in C. lra.
Qed.

(* no callback raises EmptySchedule *)
Lemma resume_loop_not_empty codes fuel : forall p e s, snd (resume_loop fuel codes p e s) <> REmpty.
Proof.
  induction fuel as [|f IH]; intros p e s; cbn [resume_loop]; [cbn; discriminate|].
  destruct (get_event e s) as [ev|]; [|cbn; discriminate].
  destruct (get_proc p s) as [pr|]; [|cbn; discriminate].
  destruct (out ev) as [o|]; [|cbn; discriminate].
  destruct (run_frag codes (resume (pcode pr) (pst pr) o) _) as [s2 r].
  destruct r as [v a|v|x]; try (cbn; discriminate).
  destruct v; try (cbn; discriminate).
  destruct (get_event e0 _) as [ev'|]; [|cbn; discriminate].
  destruct (is_processed ev'); [apply IH|cbn; discriminate].
Qed.

Lemma run_cb_not_empty fuel codes e c s : snd (run_cb fuel codes e c s) <> REmpty.
Proof.
  destruct c; cbn [run_cb]; try (cbn; discriminate).
  - apply resume_loop_not_empty.
  - unfold cond_build. destruct (remove_checks _ _ _) as [s1|]; [|cbn; discriminate].
    destruct (get_event c s1) as [cev|]; [|cbn; discriminate].
    destruct (out cev) as [[?|?]|]; try (cbn; discriminate).
    destruct (kind cev); try (cbn; discriminate).
    destruct (populate _ _ _); cbn; discriminate.
  - unfold do_interruption.
    destruct (get_event i s) as [iev|]; [|cbn; discriminate].
    destruct (kind iev); try (cbn; discriminate).
    destruct (get_proc p s) as [pr|]; [|cbn; discriminate].
    destruct (get_event (pev pr) s) as [pe|]; [|cbn; discriminate].
    destruct (is_triggered pe); [cbn; discriminate|].
    destruct (ptarget pr) as [t|]; [|cbn; discriminate].
    destruct (get_event t s) as [tev|]; [|cbn; discriminate].
    destruct (cbs tev) as [l|]; [|cbn; discriminate].
    destruct (mem_cb (CbResume p) l); [|cbn; discriminate].
    apply resume_loop_not_empty.
  - unfold stop_cb. destruct (get_event e s) as [ev|]; [|cbn; discriminate].
    destruct (out ev) as [[?|?]|]; cbn; discriminate.
Qed.

Lemma run_callbacks_not_empty fuel codes e l : forall s, snd (run_callbacks fuel codes e l s) <> REmpty.
Proof.
  induction l as [|c t IH]; intros s; cbn [run_callbacks]; [cbn; discriminate|].
  pose proof (run_cb_not_empty fuel codes e c s) as N.
  destruct (run_cb fuel codes e c s) as [s1 r]. cbn [snd] in N.
  pose proof (IH s1) as Y.
  destruct r; try congruence; try apply IH;
    (destruct (is_stop_cb c && is_exit _);
     [destruct (run_callbacks fuel codes e t s1) as [s2 r2]; cbn [snd] in Y; destruct r2; cbn; congruence
     |cbn; congruence]).
Qed.

(* step answers REmpty only on an empty agenda *)
Lemma step_empty fuel codes s s' : step fuel codes s = (s', REmpty) -> s' = s /\ agenda s = [].
Proof.
  unfold step. destruct (pop_min (agenda s)) as [[m rest]|] eqn:P.
  - destruct (get_event (e_ev m) (pop_state m rest s)) as [ev|]; [|discriminate].
    destruct (cbs ev) as [l|]; [|discriminate].
    pose proof (run_callbacks_not_empty fuel codes (e_ev m) l (upd_event (e_ev m) (ev_set_cbs None) (pop_state m rest s))) as N.
    destruct (run_callbacks fuel codes (e_ev m) l _) as [s2 r2]. cbn [snd] in N.
    destruct r2; try discriminate; try congruence.
    intros S. injection S as _ S. unfold check_failure in S. destruct (get_event (e_ev m) s2) as [ev2|]; [|discriminate].
    destruct (out ev2) as [[?|?]|]; try discriminate. destruct (defused ev2); discriminate.
  - intros S. injection S as <-. split; [reflexivity|apply pop_min_none, P].
Qed.

(* run() returning normally has emptied the agenda: with [pending_takes_effect_exactly], every entry that was
   ever pending has been processed, each at its own time *)
Lemma run_loop_drains n fuel codes : forall s s', run_loop n fuel codes UNone s = (s', ROk) -> agenda s' = [].
Proof.
  induction n as [|n IH]; intros s s'; cbn [run_loop]; [discriminate|].
  destruct (step fuel codes s) as [s1 r1] eqn:S. destruct r1; try discriminate.
  - apply IH.
  - intros H; injection H as <-. destruct (step_empty _ _ _ _ S) as [-> E]. exact E.
Qed.

Theorem run_all_drains fuel codes s s' : run fuel codes UNone s = (s', ROk) -> agenda s' = [].
Proof. unfold run. cbn [run_prelude]. apply run_loop_drains. Qed.

(* ------------------------------------------------------------------------------------------------ *)
(* Examples: the hypotheses of the theorems are satisfiable on a concrete non-trivial state *)

(* one process: wait for timeout(1), then end *)
Definition ex_prog : prog :=
  mkProg nat (fun _ => 0%nat)
    (fun st o => match st with
                 | O => FCall (CTimeout 1 VNone)
                          (fun r => match r with Ok v => FYield v 1%nat | Fail x => FRaise x end)
                 | _ => FRet VNone
                 end).
Definition ex_codes : list prog := [ex_prog].

(* module level: two timeouts with delay 0, then a process start: three entries due at time 0 *)
Definition ex_s1 : state :=
  fst (do_call ex_codes (CSpawn 0 VNone)
    (fst (do_call ex_codes (CTimeout 0 (VInt 8))
      (fst (do_call ex_codes (CTimeout 0 (VInt 7)) (init_state 0)))))).

Definition ex_b1 : entry := mkEntry 0 NORMAL 0%nat 0%nat.
Definition ex_b2 : entry := mkEntry 0 NORMAL 1%nat 1%nat.
Definition ex_a : entry := mkEntry 0 URGENT 2%nat 3%nat.

Example ex_reachable : exec ex_codes (init_state 0) [None; None; None] ex_s1.
Proof.
  econstructor; [eapply KCall, surjective_pairing|].
  econstructor; [eapply KCall, surjective_pairing|].
  econstructor; [eapply KCall, surjective_pairing|]. constructor.
Qed.

Example ex_good : good ex_s1.
Proof. eapply exec_good; [apply good_init|apply ex_reachable]. Qed.

Example ex_pending :
  In ex_a (agenda ex_s1) /\ In ex_b1 (agenda ex_s1) /\ In ex_b2 (agenda ex_s1) /\
  e_time ex_a == e_time ex_b1 /\ (e_prio ex_a < e_prio ex_b1)%nat /\
  e_time ex_b1 == e_time ex_b2 /\ e_prio ex_b1 = e_prio ex_b2 /\ (e_eid ex_b1 < e_eid ex_b2)%nat.
Proof. vm_compute. repeat split; auto. Qed.

Definition ex_s2 := fst (step 10 ex_codes ex_s1).
Definition ex_s3 := fst (step 10 ex_codes ex_s2).
Definition ex_s4 := fst (step 10 ex_codes ex_s3).

(* the urgent process start is processed first although it was inserted last, then the two timeouts in
   insertion order: an execution to which urgent_first, same_class_fifo and pop_order apply *)
Lemma kstep_intro fuel codes s m :
  pop_min (agenda s) = Some (m, remove_eid (e_eid m) (agenda s)) -> ktrans codes s (Some m) (fst (step fuel codes s)).
Proof. intros H. eapply KStep; [apply surjective_pairing|exact H]. Qed.

Example ex_exec : exec ex_codes ex_s1 ([] ++ Some ex_a :: [Some ex_b1; Some ex_b2]) ex_s4.
Proof.
  cbn [app].
  apply exec_cons with (s1 := ex_s2); [unfold ex_s2; apply kstep_intro; vm_compute; reflexivity|].
  apply exec_cons with (s1 := ex_s3); [unfold ex_s3; apply kstep_intro; vm_compute; reflexivity|].
  apply exec_cons with (s1 := ex_s4); [unfold ex_s4; apply kstep_intro; vm_compute; reflexivity|].
  constructor.
Qed.

Example ex_urgent_first : In (Some ex_a) [Some ex_a].
Proof.
  destruct ex_pending as (Ha & Hb1 & _ & Ht & Hp & _).
  exact (urgent_first ex_codes ex_s1 ex_a ex_b1 [Some ex_a] [Some ex_b2] ex_s4 ex_good Ha Hb1 Ht Hp ex_exec).
Qed.

Example ex_timeout_due :
  exists s1 e, do_call ex_codes (CTimeout (3 # 2) VNone) ex_s4 = (s1, Ok (VEv e)) /\ good ex_s4.
Proof.
  eexists. eexists. split; [reflexivity|]. eapply exec_good; [apply ex_good|apply ex_exec].
Qed.

Example ex_negative : do_call ex_codes (CTimeout (-1 # 2) VNone) ex_s1 = (ex_s1, Fail (kexn EValue M_negative_delay)).
Proof. apply negative_delay_refused. reflexivity. Qed.

Example ex_run_drains :
  snd (run 50 ex_codes UNone ex_s1) = ROk /\ now (fst (run 50 ex_codes UNone ex_s1)) == 1 /\
  agenda (fst (run 50 ex_codes UNone ex_s1)) = [].
Proof. split; [vm_compute; reflexivity|split; vm_compute; reflexivity]. Qed.
