(* Kernel/StopSpec.v -- C03, part 3: what run(until=number) and run(until=event) do, for every program and every calm state.

     run_num_past            until <= now: ValueError, nothing changes
     run_until_number_spec   until > now: the loop processes entries due strictly before the horizon, then the sentinel --
                             the first entry processed at the horizon -- and returns None with now == horizon; nothing due
                             at the horizon or later has been touched, nothing due earlier is left, the state is calm again
     run_event_processed     until-event already processed: its value at once, no step
     run_until_event_spec    otherwise: returns the value the stop callback read, in the step that processes the event (the
                             first entry of the event that is popped), after ALL callbacks of the event were invoked
                             (cb_chain: the repaired step()); agenda exhausted first: RuntimeError, and the event is
                             untriggered; the AssertionError of run() is unreachable
     calm_run_split          a plan of stop points whose run(until=...) calls all return leaves a calm state: hypothesis (iii)
                             of DESIGN.md section 4 is an invariant, not an assumption *)
From Coq Require Import ZArith QArith List Bool Lia Lqa.
From ONL Require Import Kernel.Model Kernel.Keys Kernel.Inv Kernel.Order Kernel.Deliver Kernel.DeliverWf Kernel.DeliverVal
  Kernel.StopFrame Kernel.StopInv Kernel.Stop.
Import ListNotations.

(* ------------------------------------------------------------------------------------------------ *)
(* only the stop callback answers "stop" *)

Lemma resume_loop_not_stop codes fuel : forall p e s v, snd (resume_loop fuel codes p e s) <> RStop v.
Proof.
  induction fuel as [|f IH]; intros p e s v; cbn [resume_loop]; [cbn; discriminate|].
  destruct (get_event e s) as [ev|]; [|cbn; discriminate].
  destruct (get_proc p s) as [pr|]; [|cbn; discriminate].
  destruct (out ev) as [o|]; [|cbn; discriminate].
  destruct (run_frag codes (resume (pcode pr) (pst pr) o) _) as [s2 r].
  destruct r as [w a|w|x]; try (cbn; discriminate).
  destruct w; try (cbn; discriminate).
  destruct (get_event e0 _) as [ev'|]; [|cbn; discriminate].
  destruct (is_processed ev'); [apply IH|cbn; discriminate].
Qed.

Lemma run_cb_stop_only fuel codes e c s v : snd (run_cb fuel codes e c s) = RStop v -> c = CbStop.
Proof.
  destruct c; cbn [run_cb]; try reflexivity; intros H; exfalso.
  - exact (resume_loop_not_stop _ _ _ _ _ _ H).
  - discriminate H.
  - revert H. unfold cond_build. destruct (remove_checks _ _ _) as [s1|]; [|cbn; discriminate].
    destruct (get_event c s1) as [cev|]; [|cbn; discriminate].
    destruct (out cev) as [[?|?]|]; try (cbn; discriminate).
    destruct (kind cev); try (cbn; discriminate).
    destruct (populate _ _ _); cbn; discriminate.
  - revert H. unfold do_interruption.
    destruct (get_event i s) as [iev|]; [|cbn; discriminate].
    destruct (kind iev); try (cbn; discriminate).
    destruct (get_proc p s) as [pr|]; [|cbn; discriminate].
    destruct (get_event (pev pr) s) as [pe|]; [|cbn; discriminate].
    destruct (is_triggered pe); [cbn; discriminate|].
    destruct (ptarget pr) as [t|]; [|cbn; discriminate].
    destruct (get_event t s) as [tev|]; [|cbn; discriminate].
    destruct (cbs tev) as [l|]; [|cbn; discriminate].
    destruct (mem_cb (CbResume p) l); [|cbn; discriminate].
    apply resume_loop_not_stop.
  - discriminate H.
Qed.

Lemma is_stop_cb_eq c : is_stop_cb c = true -> c = CbStop.
Proof. destruct c; cbn; try discriminate. reflexivity. Qed.

Lemma stop_cb_result e s ev :
  get_event e s = Some ev ->
  stop_cb e s = (s, match out ev with Some (Ok v) => RStop v | Some (Fail x) => RRaise x | None => RBroken end).
Proof. intros H. unfold stop_cb. rewrite H. destruct (out ev) as [[v|x]|]; reflexivity. Qed.

(* a loop without stop callback never answers "stop" *)
Lemma run_callbacks_no_stop fuel codes e : forall l s v,
  existsb is_stop_cb l = false -> snd (run_callbacks fuel codes e l s) <> RStop v.
Proof.
  induction l as [|c t IH]; intros s v; cbn [existsb run_callbacks]; [cbn; discriminate|].
  intros H. apply orb_false_iff in H. destruct H as [Hc Ht].
  destruct (run_cb fuel codes e c s) as [s1 r] eqn:R. rewrite Hc. cbn [andb].
  destruct r; try (cbn; discriminate); [apply IH, Ht|].
  cbn. intros E. injection E as ->. pose proof (run_cb_stop_only fuel codes e c s v) as X. rewrite R in X.
  rewrite (X eq_refl) in Hc. discriminate.
Qed.

(* a loop with a stop callback, for a triggered event, does not return normally *)
Lemma run_callbacks_has_stop fuel codes e : forall l s,
  existsb is_stop_cb l = true -> (exists ev, get_event e s = Some ev /\ out ev <> None) ->
  snd (run_callbacks fuel codes e l s) <> ROk.
Proof.
  induction l as [|c t IH]; intros s; cbn [existsb run_callbacks]; [discriminate|].
  intros H (ev & G & O).
  destruct (is_stop_cb c) eqn:Sc.
  - rewrite (is_stop_cb_eq _ Sc). cbn [run_cb]. rewrite (stop_cb_result _ _ _ G).
    destruct (out ev) as [[v|x]|]; [| |contradiction]; cbn [is_stop_cb is_exit andb];
      destruct (run_callbacks fuel codes e t s) as [s2 r2]; destruct r2; cbn; discriminate.
  - cbn [orb] in H. pose proof (grows_run_cb fuel codes e c s) as Gr.
    destruct (run_cb fuel codes e c s) as [s1 r] eqn:R. cbn [fst] in Gr. cbn [andb].
    destruct r; try (cbn; discriminate).
    apply IH; [exact H|]. destruct (Gr _ _ G) as (ev' & G' & Le). exists ev'. split; [exact G'|apply (le_out _ _ Le), O].
Qed.

(* the value a loop answers "stop" with was the until-event's outcome when the stop callback ran *)
Lemma run_callbacks_stop_value fuel codes e (I : state -> Prop) :
  (forall c s, I s -> I (fst (run_cb fuel codes e c s))) ->
  forall l s s' v, I s -> run_callbacks fuel codes e l s = (s', RStop v) ->
  exists sm evm, I sm /\ get_event e sm = Some evm /\ out evm = Some (Ok v).
Proof.
  intros HI. induction l as [|c t IH]; intros s s' v Is; cbn [run_callbacks]; [discriminate|].
  pose proof (HI c s Is) as I1. destruct (run_cb fuel codes e c s) as [s1 r] eqn:R. cbn [fst] in I1.
  assert (Stop : forall w, r = RStop w -> c = CbStop).
  { intros w ->. pose proof (run_cb_stop_only fuel codes e c s w) as X. rewrite R in X. exact (X eq_refl). }
  assert (Tail : forall x, (let '(s2, r2) := run_callbacks fuel codes e t s1 in
                            match r2 with ROk => (s2, x) | _ => (s2, r2) end) = (s', RStop v) ->
                 (x = RStop v \/ run_callbacks fuel codes e t s1 = (s', RStop v))).
  { intros x. destruct (run_callbacks fuel codes e t s1) as [s2 r2].
    destruct r2; intros E; first [left; congruence|right; congruence]. }
  assert (Here : r = RStop v -> exists sm evm, I sm /\ get_event e sm = Some evm /\ out evm = Some (Ok v)).
  { intros ->. pose proof (Stop v eq_refl) as ->. cbn [run_cb] in R. unfold stop_cb in R.
    destruct (get_event e s) as [ev|] eqn:G; [|discriminate]. destruct (out ev) as [[w|x]|] eqn:O; try discriminate.
    injection R as <- <-. exists s, ev. auto. }
  destruct r.
  - apply IH, I1.
  - destruct (is_stop_cb c && is_exit REmpty); [|discriminate]. intros E.
    destruct (Tail _ E) as [X|X]; [discriminate|exact (IH _ _ _ I1 X)].
  - destruct (is_stop_cb c && is_exit (RStop v0)).
    + intros E. destruct (Tail _ E) as [X|X]; [apply Here; exact X|exact (IH _ _ _ I1 X)].
    + intros E. injection E as _ ->. apply Here. reflexivity.
  - destruct (is_stop_cb c && is_exit (RRaise x)); [|discriminate]. intros E.
    destruct (Tail _ E) as [X|X]; [discriminate|exact (IH _ _ _ I1 X)].
  - destruct (is_stop_cb c && is_exit RFuel); [|discriminate]. intros E.
    destruct (Tail _ E) as [X|X]; [discriminate|exact (IH _ _ _ I1 X)].
  - destruct (is_stop_cb c && is_exit RBroken); [|discriminate]. intros E.
    destruct (Tail _ E) as [X|X]; [discriminate|exact (IH _ _ _ I1 X)].
Qed.

(* ---- the same for step() ---- *)

Lemma check_failure_not_stop e s v : check_failure e s <> RStop v.
Proof.
  unfold check_failure. destruct (get_event e s) as [ev|]; [|discriminate].
  destruct (out ev) as [[w|x]|]; try discriminate. destruct (defused ev); discriminate.
Qed.

Lemma step_no_stop fuel codes s s' r m rest :
  step fuel codes s = (s', r) -> pop_min (agenda s) = Some (m, rest) ->
  (forall ev, get_event (e_ev m) s = Some ev -> has_stop ev = false) -> forall v, r <> RStop v.
Proof.
  intros St P Ns v. unfold step in St. rewrite P, get_event_pop_state in St.
  destruct (get_event (e_ev m) s) as [ev|] eqn:G; [|injection St as _ <-; discriminate].
  pose proof (Ns _ eq_refl) as N. unfold has_stop in N.
  destruct (cbs ev) as [l|]; [|injection St as _ <-; discriminate].
  pose proof (run_callbacks_no_stop fuel codes (e_ev m) l (upd_event (e_ev m) (ev_set_cbs None) (pop_state m rest s)) v N) as X.
  destruct (run_callbacks fuel codes (e_ev m) l _) as [s2 r2]. cbn [snd] in X.
  destruct r2; injection St as _ <-; try exact X; try discriminate. apply check_failure_not_stop.
Qed.

Lemma step_with_stop fuel codes s s' r m rest ev :
  step fuel codes s = (s', r) -> pop_min (agenda s) = Some (m, rest) ->
  get_event (e_ev m) s = Some ev -> has_stop ev = true -> out ev <> None -> r <> ROk /\ r <> REmpty.
Proof.
  intros St P G Hs O. unfold step in St. rewrite P, get_event_pop_state, G in St. unfold has_stop in Hs.
  destruct (cbs ev) as [l|]; [|discriminate]. fold (loop_start m rest s) in St.
  assert (X : snd (run_callbacks fuel codes (e_ev m) l (loop_start m rest s)) <> ROk).
  { apply run_callbacks_has_stop; [exact Hs|]. exists (ev_set_cbs None ev). split; [apply loop_start_processed, G|exact O]. }
  pose proof (run_callbacks_not_empty fuel codes (e_ev m) l (loop_start m rest s)) as Y.
  destruct (run_callbacks fuel codes (e_ev m) l (loop_start m rest s)) as [s2 r2]. cbn [snd] in X, Y.
  destruct r2; injection St as _ <-; try contradiction; split; discriminate.
Qed.

Lemma step_stop_value fuel codes (I : state -> Prop) s s' m rest v :
  (forall c s, I s -> I (fst (run_cb fuel codes (e_ev m) c s))) -> I (loop_start m rest s) ->
  step fuel codes s = (s', RStop v) -> pop_min (agenda s) = Some (m, rest) ->
  exists sm evm, I sm /\ get_event (e_ev m) sm = Some evm /\ out evm = Some (Ok v).
Proof.
  intros HI I0 St P. unfold step in St. rewrite P, get_event_pop_state in St.
  destruct (get_event (e_ev m) s) as [ev|]; [|discriminate]. destruct (cbs ev) as [l|]; [|discriminate].
  fold (loop_start m rest s) in St.
  destruct (run_callbacks fuel codes (e_ev m) l (loop_start m rest s)) as [s2 r2] eqn:R.
  destruct r2; try discriminate.
  - injection St as _ E. exfalso. exact (check_failure_not_stop _ _ _ E).
  - injection St as <- <-. exact (run_callbacks_stop_value fuel codes (e_ev m) I HI _ _ _ _ I0 R).
Qed.

(* the step that answers "stop" invoked every callback of its event: nothing is dropped *)
Lemma step_stop_chain fuel codes s s' m rest ev l v :
  step fuel codes s = (s', RStop v) -> pop_min (agenda s) = Some (m, rest) ->
  get_event (e_ev m) s = Some ev -> cbs ev = Some l -> cb_chain fuel codes (e_ev m) l (loop_start m rest s) s'.
Proof.
  intros St P G C.
  destruct (step_invokes _ _ _ _ _ _ _ _ _ St P G C) as [(Ch & _)|(pre & c & post & smid & _ & _ & R & N)]; [exact Ch|].
  exfalso. apply N. right. pose proof (run_cb_stop_only fuel codes (e_ev m) c smid v) as X. rewrite R in X.
  rewrite (X eq_refl). split; reflexivity.
Qed.

(* ------------------------------------------------------------------------------------------------ *)
(* run(until = number) *)

Lemma run_num_past fuel codes hz s : hz <= now s -> run fuel codes (UNum hz) s = (s, RRaise (kexn EValue M_until_past)).
Proof. intros H. unfold run. cbn [run_prelude]. apply Qle_bool_iff in H. rewrite H. reflexivity. Qed.

Definition sentinel_ev : event := mkEvent (Some [CbStop]) (Some (Ok VNone)) false KSentinel.

Definition num_entry (hz : Q) (s : state) : entry :=
  mkEntry (Qred (now s + (hz - now s))) URGENT (next_eid s) (length (events s)).

Definition num_start (hz : Q) (s : state) : state :=
  mkState (now s) (agenda s ++ [num_entry hz s]) (S (next_eid s)) (events s ++ [sentinel_ev]) (procs s) (active s) (glob s) (obs s).

Lemma upd_nth_app_last {A} (f : A -> A) l a : upd_nth (length l) f (l ++ [a]) = l ++ [f a].
Proof. induction l as [|x t IH]; cbn; [reflexivity|]. now rewrite IH. Qed.

Lemma run_prelude_num hz s : now s < hz -> run_prelude (UNum hz) s = inr (num_start hz s).
Proof.
  intros H. cbn [run_prelude]. destruct (Qle_bool hz (now s)) eqn:L; [apply Qle_bool_iff in L; lra|].
  cbn [new_event]. f_equal. unfold add_callback, upd_event, schedule, set_events, num_start. cbn.
  rewrite upd_nth_app_last. reflexivity.
Qed.

Lemma num_entry_time hz s : e_time (num_entry hz s) == hz.
Proof. unfold num_entry. cbn [e_time]. rewrite Qred_correct. lra. Qed.

Lemma get_num_start_old hz s e : (e < length (events s))%nat -> get_event e (num_start hz s) = get_event e s.
Proof. intros H. unfold get_event. cbn. now rewrite nth_error_app1. Qed.

Lemma get_num_start_new hz s : get_event (length (events s)) (num_start hz s) = Some sentinel_ev.
Proof. unfold get_event. cbn. rewrite nth_error_app2 by lia. now rewrite Nat.sub_diag. Qed.

Lemma get_num_start_cases hz s e ev :
  get_event e (num_start hz s) = Some ev -> get_event e s = Some ev \/ (e = length (events s) /\ ev = sentinel_ev).
Proof.
  unfold get_event. cbn. destruct (Nat.lt_ge_cases e (length (events s))) as [L|L].
  - rewrite nth_error_app1 by exact L. auto.
  - rewrite nth_error_app2 by exact L. destruct (e - length (events s))%nat as [|k] eqn:D; cbn.
    + intros H; injection H as <-. right. split; [lia|reflexivity].
    + destruct k; discriminate.
Qed.

Lemma entry_eq_dec (a b : entry) : {a = b} + {a <> b}.
Proof.
  decide equality; try apply Nat.eq_dec. decide equality; [apply Pos.eq_dec|apply Z.eq_dec].
Qed.

(* the invariant of the loop of run(until = at), entered in state s0 *)
Definition jn (hz : Q) (s0 s : state) : Prop :=
  wk (fun e => e = length (events s0)) (Some (num_entry hz s0)) s /\
  now s < hz /\ In (num_entry hz s0) (agenda s) /\
  (forall y, In y (agenda s) -> e_ev y = length (events s0) -> y = num_entry hz s0) /\
  (exists ev, get_event (length (events s0)) s = Some ev /\ has_stop ev = true /\ out ev = Some (Ok VNone) /\
              kind ev = KSentinel).

Lemma jn_start hz s : calm s -> now s < hz -> jn hz s (num_start hz s).
Proof.
  intros (G & U & Pk & Sw & Ub) Lt. pose proof (run_prelude_num hz s Lt) as Pre.
  split; [|split; [exact Lt|split; [cbn; apply in_or_app; right; left; reflexivity|split]]].
  - split; [eapply ext_good; [exact G|eapply ext_run_prelude, Pre]|].
    split; [eapply uinv_run_prelude; [exact Pre|exact U]|]. split; [|split].
    + intros e ev H O C. destruct (get_num_start_cases _ _ _ _ H) as [H0|[-> ->]].
      * destruct (Pk _ _ H0 O C) as (y & Hy & E). exists y. split; [cbn; apply in_or_app; left; exact Hy|exact E].
      * exists (num_entry hz s). split; [cbn; apply in_or_app; right; left; reflexivity|reflexivity].
    + intros e ev H T. destruct (get_num_start_cases _ _ _ _ H) as [H0|[-> _]]; [destruct (Sw _ _ H0 T)|reflexivity].
    + intros y Hy P. cbn [num_start agenda now] in *. apply in_app_or in Hy. destruct Hy as [Hy|[<-|[]]].
      * destruct (Ub _ Hy P) as [X|X]; [discriminate|right; exact X].
      * left. reflexivity.
  - intros y Hy E. cbn [num_start agenda] in Hy. apply in_app_or in Hy. destruct Hy as [Hy|[<-|[]]]; [|reflexivity].
    exfalso. destruct (proj1 U _ Hy) as (ev & H & _). apply get_event_lt in H. lia.
  - exists sentinel_ev. split; [apply get_num_start_new|]. repeat split.
Qed.

Lemma key_le_urgent_time m x :
  key_le m x -> e_prio x = URGENT -> e_time m < e_time x \/ (e_time m == e_time x /\ e_prio m = URGENT).
Proof.
  unfold key_le, URGENT. intros [H|[H [H'|[H' _]]]] P; [left; exact H|lia|right; split; [exact H|congruence]].
Qed.

(* one turn of the loop, the popped entry is not the sentinel *)
Lemma jn_step_other hz s0 fuel codes s s' r m rest :
  jn hz s0 s -> step fuel codes s = (s', r) -> pop_min (agenda s) = Some (m, rest) -> m <> num_entry hz s0 ->
  e_time m < hz /\ now s' = e_time m /\ (forall v, r <> RStop v) /\ (r = ROk -> jn hz s0 s').
Proof.
  set (x := num_entry hz s0). set (sent := length (events s0)).
  intros (W & Lt & Hx & Only & (sev & Gs & Ss & Os & Ks)) St P Ne.
  pose proof W as (G & U & Pk & Sw & Ub).
  destruct (pop_min_spec _ _ _ P) as (Hm & Er & Hle).
  assert (Tm : e_time m < hz).
  { destruct (key_le_urgent_time _ _ (Hle _ Hx) eq_refl) as [T|[T Pm]].
    - rewrite <- (num_entry_time hz s0). exact T.
    - destruct (Ub _ Hm Pm) as [X|X]; [injection X as X; contradiction|]. rewrite X. exact Lt. }
  assert (Em : e_ev m <> sent) by (intros E; apply Ne, Only; assumption).
  destruct (wk_step_gen _ _ _ _ _ _ _ W St) as [(N & _)|(m' & rest' & P' & W' & _ & Nw)]; [congruence|].
  rewrite P in P'. injection P' as <- <-.
  split; [exact Tm|]. split; [exact Nw|]. split.
  - apply (step_no_stop _ _ _ _ _ _ _ St P). intros ev H. destruct (has_stop ev) eqn:T; [|reflexivity].
    exfalso. apply Em. exact (Sw _ _ H T).
  - intros ->. pose proof (step_below _ _ _ _ _ _ _ St P) as (E & F & Gr & _).
    destruct F as (Nn & (l & Al & Ul & _) & _ & Kl).
    split; [eapply wk_weaken; [|exact W']; intros e [H _]; exact H|].
    split; [rewrite Nw; exact Tm|]. split; [|split].
    + rewrite Al, mid_agenda. apply in_or_app. left. eapply pop_rest_in; try eassumption. intros X. apply Ne. symmetry. exact X.
    + intros y Hy Ey. rewrite Al, mid_agenda in Hy. apply in_app_or in Hy. destruct Hy as [Hy|Hy].
      * apply Only; [|exact Ey]. rewrite Er in Hy. eapply remove_eid_subset, Hy.
      * exfalso.
        assert (Km : kinv (mid m rest s)) by (apply (good_mid _ _ _ G P)).
        destruct (E Km) as [_ _ _ (l' & Al' & _ & _ & Cl)]. rewrite Al in Al'. apply app_inv_head in Al'. subst l'.
        destruct (Cl _ Hy) as (ev' & H' & Kc). rewrite Ey in H'.
        (* the event named by the new entry is the sentinel event: its class is URGENT *)
        assert (Gm : get_event sent (mid m rest s) = Some sev) by (rewrite mid_get_other by (intros X; apply Em; symmetry; exact X); exact Gs).
        destruct (Gr _ _ Gm) as (ev2 & H2 & Le). unfold get_event, sent in H2. unfold sent in H'. rewrite H' in H2. injection H2 as <-.
        pose proof (le_kind _ _ Le) as Ksame. rewrite Ks in Ksame. cbn in Ksame. rewrite <- Ksame in Kc. cbn in Kc.
        destruct (Ul _ Hy (eq_sym Kc)) as [_ Len]. rewrite mid_length, Ey in Len.
        apply get_event_lt in Gs. unfold sent in *. lia.
    + assert (Gm : get_event sent (mid m rest s) = Some sev) by (rewrite mid_get_other by (intros X; apply Em; symmetry; exact X); exact Gs).
      destruct (Kl _ _ Gm) as (ev' & H' & Ts). exists ev'. split; [exact H'|]. split; [exact (Ts Ss)|].
      pose proof (vgrows_step fuel codes s U) as V. rewrite St in V. cbn [fst] in V.
      destruct (V _ _ Gs) as (ev2 & H2 & Vl). fold sent in H2. rewrite H' in H2. injection H2 as <-.
      pose proof (v_kind _ _ Vl) as Ksame. rewrite Ks in Ksame. cbn in Ksame. split; [|symmetry; exact Ksame].
      rewrite (v_out _ _ Vl); [exact Os|rewrite Ks; reflexivity|congruence].
Qed.

(* the turn that pops the sentinel *)
Lemma jn_step_sentinel hz s0 fuel codes s s' r rest :
  jn hz s0 s -> step fuel codes s = (s', r) -> pop_min (agenda s) = Some (num_entry hz s0, rest) ->
  now s' == hz /\ r <> ROk /\ r <> REmpty /\
  (forall v, r = RStop v -> v = VNone /\ calm s' /\ forall y, In y (agenda s') -> hz <= e_time y).
Proof.
  set (x := num_entry hz s0). set (sent := length (events s0)).
  intros (W & Lt & Hx & Only & (sev & Gs & Ss & Os & Ks)) St P.
  pose proof W as (G & U & Pk & Sw & Ub).
  destruct (wk_step_gen _ _ _ _ _ _ _ W St) as [(N & _)|(m' & rest' & P' & W' & Un & Nw)]; [congruence|].
  rewrite P in P'. injection P' as <- <-.
  assert (Nat : now s' == hz) by (rewrite Nw; apply num_entry_time).
  split; [exact Nat|].
  destruct (step_with_stop _ _ _ _ _ _ _ _ St P Gs Ss) as [R1 R2]; [rewrite Os; discriminate|].
  split; [exact R1|]. split; [exact R2|]. intros v ->. split; [|split].
  - (* the value: the sentinel's outcome does not change while the loop runs *)
    set (I := fun sm : state => uinv sm /\ exists ev, get_event sent sm = Some ev /\ out ev = Some (Ok VNone) /\ kind ev = KSentinel).
    destruct (step_stop_value fuel codes I s s' x rest v) as (sm & evm & (_ & ev & Ge & Oe & _) & Gm & Om); try assumption.
    + intros c s1 (U1 & ev & Ge & Oe & Ke). split; [apply uinv_run_cb, U1|].
      destruct (vx_run_cb fuel codes (e_ev x) c s1 U1) as [_ V]. destruct (V _ _ Ge) as (ev' & Ge' & Vl).
      exists ev'. split; [exact Ge'|]. pose proof (v_kind _ _ Vl) as Ksame. rewrite Ke in Ksame. cbn in Ksame.
      split; [|symmetry; exact Ksame]. rewrite (v_out _ _ Vl); [exact Oe|rewrite Ke; reflexivity|congruence].
    + split; [apply uinv_loop_start; assumption|]. exists (ev_set_cbs None sev).
      split; [apply (loop_start_processed x rest s sev Gs)|]. split; [exact Os|exact Ks].
    + change (e_ev x) with sent in Gm. rewrite Ge in Gm. injection Gm as <-. congruence.
  - split; [apply W'|]. split; [apply W'|]. split; [apply W'|]. split; [|exact (Un eq_refl)].
    destruct W' as (_ & _ & _ & Sw' & _). intros e ev H T. destruct (Sw' _ _ H T) as [A B]. apply B. exact A.
  - intros y Hy. destruct W' as ((A & _) & _). rewrite <- Nat. apply (ok_time _ A), Hy.
Qed.

Definition popped_before (hz : Q) (x : entry) (l : list (option entry)) : Prop :=
  forall o, In o l -> exists m, o = Some m /\ (m = x \/ e_time m < hz).

Lemma run_loop_num hz s0 fuel codes : forall n s s' r,
  jn hz s0 s -> run_loop n fuel codes (UNum hz) s = (s', r) ->
  exists l, exec codes s l s' /\ popped_before hz (num_entry hz s0) l /\ now s' <= hz /\
    match r with
    | RStop v => v = VNone /\ now s' == hz /\ (exists l0, l = l0 ++ [Some (num_entry hz s0)] /\ ~ In (Some (num_entry hz s0)) l0) /\
                 (forall y, In y (agenda s') -> hz <= e_time y) /\ calm s'
    | RRaise _ | RFuel | RBroken => True
    | ROk | REmpty => False
    end.
Proof.
  set (x := num_entry hz s0).
  induction n as [|n IH]; intros s s' r J; cbn [run_loop].
  - intros H; injection H as <- <-. exists []. split; [constructor|]. split; [intros o []|]. split; [|exact I].
    destruct J as (_ & Lt & _). lra.
  - destruct (step fuel codes s) as [s1 r1] eqn:St.
    destruct (pop_min (agenda s)) as [[m rest]|] eqn:P.
    2:{ exfalso. apply pop_min_none in P. destruct J as (_ & _ & Hx & _). rewrite P in Hx. destruct Hx. }
    assert (T : ktrans codes s (Some m) s1) by (eapply KStep; eassumption).
    destruct (entry_eq_dec m x) as [->|Ne].
    + (* the sentinel *)
      destruct (jn_step_sentinel _ _ _ _ _ _ _ _ J St P) as (Nat & R1 & R2 & Hv).
      assert (L1 : exec codes s [Some x] s1) by (econstructor; [exact T|constructor]).
      assert (B1 : popped_before hz x [Some x]) by (intros o [<-|[]]; exists x; auto).
      destruct r1; try contradiction; intros H; injection H as <- <-; exists [Some x];
        (split; [exact L1|]; split; [exact B1|]; split; [lra|]); try exact I.
      destruct (Hv _ eq_refl) as (-> & Cm & Ag). split; [reflexivity|]. split; [exact Nat|].
      split; [exists []; split; [reflexivity|intros []]|]. split; [exact Ag|exact Cm].
    + destruct (jn_step_other _ _ _ _ _ _ _ _ _ J St P Ne) as (Tm & Nw & Ns & Jk).
      assert (L1 : exec codes s [Some m] s1) by (econstructor; [exact T|constructor]).
      assert (B1 : popped_before hz x [Some m]) by (intros o [<-|[]]; exists m; auto).
      destruct r1; try (intros H; injection H as <- <-; exists [Some m];
        (split; [exact L1|]; split; [exact B1|]; split; [rewrite Nw; lra|]); exact I).
      * intros H. destruct (IH _ _ _ (Jk eq_refl) H) as (l & E & B & Nl & Rr).
        exists (Some m :: l). split; [econstructor; eassumption|]. split.
        -- intros o [<-|Ho]; [exists m; auto|exact (B _ Ho)].
        -- split; [exact Nl|]. destruct r; try exact Rr.
           destruct Rr as (Ev & Na & (l0 & -> & Nin) & Ag & Cm). split; [exact Ev|]. split; [exact Na|].
           split; [|split; assumption]. exists (Some m :: l0). split; [reflexivity|].
           intros [X|X]; [injection X as X; contradiction|contradiction].
      * exfalso. exact (Ns v eq_refl).
Qed.

(* run(until = hz), hz > now, from a calm state: the sentinel x is appended URGENT at hz; the loop pops only entries due
   strictly before hz until it pops x; it answers None in the step that pops x, with now == hz, nothing due before hz left
   on the agenda, and the state calm again; it never returns by EmptySchedule or normally.  The other answers are an
   exception escaping from one of those steps (RRaise), or the explicit fuel / internal-error answers. *)
Theorem run_until_number_spec fuel codes hz s s' r :
  calm s -> now s < hz -> run fuel codes (UNum hz) s = (s', r) ->
  let x := num_entry hz s in
  run_prelude (UNum hz) s = inr (num_start hz s) /\ agenda (num_start hz s) = agenda s ++ [x] /\
  e_time x == hz /\ e_prio x = URGENT /\ e_eid x = next_eid s /\
  exists l, exec codes (num_start hz s) l s' /\ popped_before hz x l /\ now s' <= hz /\
    match r with
    | RStop v => v = VNone /\ now s' == hz /\ (exists l0, l = l0 ++ [Some x] /\ ~ In (Some x) l0) /\
                 (forall y, In y (agenda s') -> hz <= e_time y) /\ calm s'
    | RRaise _ | RFuel | RBroken => True
    | ROk | REmpty => False
    end.
Proof.
  intros C Lt R. cbn zeta. pose proof (run_prelude_num hz s Lt) as Pre.
  split; [exact Pre|]. split; [reflexivity|]. split; [apply num_entry_time|]. split; [reflexivity|]. split; [reflexivity|].
  unfold run in R. rewrite Pre in R. eapply run_loop_num; [apply jn_start; assumption|exact R].
Qed.

(* ------------------------------------------------------------------------------------------------ *)
(* run(until = event) *)

Lemma run_event_processed fuel codes e s ev :
  get_event e s = Some ev -> cbs ev = None ->
  run fuel codes (UEv e) s =
  (s, match raw_value ev with Some v => RStop v | None => RRaise (kexn EAttribute M_value_pending) end).
Proof. intros H C. unfold run. cbn [run_prelude]. rewrite H. unfold is_processed. rewrite C. reflexivity. Qed.

Lemma run_event_pending_prelude e s ev l :
  get_event e s = Some ev -> cbs ev = Some l -> run_prelude (UEv e) s = inr (add_callback e CbStop s).
Proof. intros H C. cbn [run_prelude]. rewrite H. unfold is_processed. rewrite C. reflexivity. Qed.

(* the invariant of the loop of run(until = e) *)
Definition je (e : evid) (s : state) : Prop :=
  wk (fun e' => e' = e) None s /\ exists ev, get_event e s = Some ev /\ has_stop ev = true.

Lemma je_start e s ev l : calm s -> get_event e s = Some ev -> cbs ev = Some l -> je e (add_callback e CbStop s).
Proof.
  intros (G & U & Pk & Sw & Ub) H C. pose proof (run_event_pending_prelude e s ev l H C) as Pre.
  assert (Ge : forall x, get_event x (add_callback e CbStop s) =
                         if Nat.eqb x e then option_map (ev_add_cb CbStop) (get_event x s) else get_event x s)
    by (intros x; apply get_upd_event).
  split.
  - split; [eapply ext_good; [exact G|eapply ext_run_prelude, Pre]|].
    split; [eapply uinv_run_prelude; [exact Pre|exact U]|]. split; [|split].
    + intros x xev. rewrite Ge. destruct (Nat.eqb x e) eqn:E.
      * apply Nat.eqb_eq in E. subst x. rewrite H. cbn. intros X; injection X as <-. unfold ev_add_cb. rewrite C. cbn.
        intros O _. apply (Pk _ _ H O). congruence.
      * intros X O Cx. exact (Pk _ _ X O Cx).
    + intros x xev. rewrite Ge. destruct (Nat.eqb x e) eqn:E; [intros _ _; apply Nat.eqb_eq, E|].
      intros X T. destruct (Sw _ _ X T).
    + exact Ub.
  - rewrite Ge, Nat.eqb_refl, H. cbn. eexists. split; [reflexivity|]. unfold ev_add_cb, has_stop. rewrite C. cbn.
    rewrite existsb_app. cbn. apply orb_true_r.
Qed.

Lemma je_step_other e fuel codes s s' r m rest :
  je e s -> step fuel codes s = (s', r) -> pop_min (agenda s) = Some (m, rest) -> e_ev m <> e ->
  (forall v, r <> RStop v) /\ (r = ROk -> je e s').
Proof.
  intros (W & (ev & Ge & Se)) St P Ne. pose proof W as (G & U & Pk & Sw & Ub).
  destruct (wk_step_gen _ _ _ _ _ _ _ W St) as [(N & _)|(m' & rest' & P' & W' & _ & Nw)]; [congruence|].
  rewrite P in P'. injection P' as <- <-. split.
  - apply (step_no_stop _ _ _ _ _ _ _ St P). intros mev H. destruct (has_stop mev) eqn:T; [|reflexivity].
    exfalso. apply Ne. exact (Sw _ _ H T).
  - intros _. split; [eapply wk_weaken; [|exact W']; intros x [X _]; exact X|].
    pose proof (step_below _ _ _ _ _ _ _ St P) as (_ & (_ & _ & _ & Kl) & _).
    assert (Gm : get_event e (mid m rest s) = Some ev) by (rewrite mid_get_other by (intros X; apply Ne; symmetry; exact X); exact Ge).
    destruct (Kl _ _ Gm) as (ev' & H' & Ts). exists ev'. split; [exact H'|exact (Ts Se)].
Qed.

Lemma je_step_event e fuel codes s s' r m rest :
  je e s -> step fuel codes s = (s', r) -> pop_min (agenda s) = Some (m, rest) -> e_ev m = e ->
  r <> ROk /\ r <> REmpty /\ calm s' /\
  (exists ev', get_event e s' = Some ev' /\ cbs ev' = None) /\
  (forall v, r = RStop v ->
     (exists evk lk, get_event e s = Some evk /\ cbs evk = Some lk /\ cb_chain fuel codes e lk (loop_start m rest s) s') /\
     (exists sm evm, vgrows (loop_start m rest s) sm /\ get_event e sm = Some evm /\ out evm = Some (Ok v)) /\
     (forall ev', get_event e s' = Some ev' -> stable_kind (kind ev') = true -> out ev' = Some (Ok v))).
Proof.
  intros (W & (ev & Ge & Se)) St P Em. pose proof W as (G & U & Pk & Sw & Ub).
  destruct (wk_step_gen _ _ _ _ _ _ _ W St) as [(N & _)|(m' & rest' & P' & W' & _ & Nw)]; [congruence|].
  rewrite P in P'. injection P' as <- <-.
  destruct (pop_min_spec _ _ _ P) as (Hm & _ & _).
  assert (O : out ev <> None).
  { destruct (proj1 U _ Hm) as (ev0 & H0 & O0). rewrite Em, Ge in H0. injection H0 as <-. exact O0. }
  rewrite <- Em in Ge.
  destruct (step_with_stop _ _ _ _ _ _ _ _ St P Ge Se O) as [R1 R2].
  split; [exact R1|]. split; [exact R2|]. split; [|split].
  - destruct W' as (A & B & C & D & E). split; [exact A|]. split; [exact B|]. split; [exact C|]. split; [|exact E].
    intros x xev H T. destruct (D _ _ H T) as [X Y]. apply Y. rewrite X. symmetry. exact Em.
  - pose proof (step_below _ _ _ _ _ _ _ St P) as (_ & _ & Gr & _).
    assert (Gm : get_event (e_ev m) (mid m rest s) = Some (ev_set_cbs None ev)) by (rewrite mid_get, Nat.eqb_refl, Ge; reflexivity).
    destruct (Gr _ _ Gm) as (ev' & H' & Le). exists ev'. rewrite <- Em. split; [exact H'|apply (le_cbs _ _ Le); reflexivity].
  - intros v ->. unfold has_stop in Se. destruct (cbs ev) as [lk|] eqn:Ck; [|discriminate].
    pose proof (uinv_loop_start m rest s P U) as U1.
    set (I := fun sm : state => uinv sm /\ vgrows (loop_start m rest s) sm).
    destruct (step_stop_value fuel codes I s s' m rest v) as (sm & evm & (_ & Vg) & Gm & Om); try assumption.
    { intros c s1 (Ua & Va). split; [apply uinv_run_cb, Ua|]. eapply vgrows_trans; [exact Va|apply (vx_run_cb fuel codes (e_ev m) c s1 Ua)]. }
    { split; [exact U1|apply vgrows_refl]. }
    pose proof (step_stop_chain _ _ _ _ _ _ _ _ _ St P Ge Ck) as Ch.
    rewrite <- Em. split; [exists ev, lk; auto|]. split; [exists sm, evm; auto|].
    intros ev' H' Sk.
    pose proof (loop_start_processed m rest s ev Ge) as Gl.
    destruct (Vg _ _ Gl) as (evm' & Gm' & Vm). rewrite Gm in Gm'. injection Gm' as <-.
    destruct (vx_cb_chain _ _ _ _ _ _ Ch U1) as [_ Vs]. destruct (Vs _ _ Gl) as (ev2 & G2 & V2). rewrite H' in G2. injection G2 as <-.
    assert (Sk0 : stable_kind (kind (ev_set_cbs None ev)) = true) by (rewrite <- (ksame_stable _ _ (v_kind _ _ V2)); exact Sk).
    rewrite (v_out _ _ V2 Sk0 O). rewrite <- (v_out _ _ Vm Sk0 O). exact Om.
Qed.

Lemma je_empty e s : je e s -> agenda s = [] ->
  run_empty (UEv e) s = RRaise (kexn ERuntime M_until_not_triggered) /\ exists ev, get_event e s = Some ev /\ out ev = None.
Proof.
  intros ((_ & _ & Pk & _) & (ev & Ge & Se)) A. unfold run_empty. rewrite Ge. unfold is_triggered.
  destruct (out ev) eqn:O.
  - exfalso. assert (C : cbs ev <> None) by (unfold has_stop in Se; destruct (cbs ev); [discriminate|discriminate]).
    destruct (Pk _ _ Ge ltac:(congruence) C) as (y & Hy & _). rewrite A in Hy. destruct Hy.
  - split; [reflexivity|]. exists ev. auto.
Qed.

Definition not_for (e : evid) (l : list (option entry)) : Prop :=
  forall o, In o l -> exists m, o = Some m /\ e_ev m <> e.

Lemma run_loop_ev e fuel codes : forall n s s' r,
  je e s -> run_loop n fuel codes (UEv e) s = (s', r) ->
  exists l, exec codes s l s' /\
    match r with
    | RStop v =>
        exists l0 m sk rest, l = l0 ++ [Some m] /\ not_for e l0 /\ e_ev m = e /\ exec codes s l0 sk /\
          pop_min (agenda sk) = Some (m, rest) /\ step fuel codes sk = (s', RStop v) /\
          (exists evk lk, get_event e sk = Some evk /\ cbs evk = Some lk /\ cb_chain fuel codes e lk (loop_start m rest sk) s') /\
          (exists sm evm, vgrows (loop_start m rest sk) sm /\ get_event e sm = Some evm /\ out evm = Some (Ok v)) /\
          (exists ev', get_event e s' = Some ev' /\ cbs ev' = None /\ (stable_kind (kind ev') = true -> out ev' = Some (Ok v))) /\
          calm s'
    | RRaise x =>
        (x = kexn ERuntime M_until_not_triggered /\ agenda s' = [] /\ not_for e l /\
         exists ev', get_event e s' = Some ev' /\ out ev' = None) \/
        (exists l0 m, l = l0 ++ [Some m] /\ not_for e l0 /\
                      (e_ev m = e -> calm s' /\ exists ev', get_event e s' = Some ev' /\ cbs ev' = None))
    | RFuel | RBroken => True
    | ROk | REmpty => False
    end.
Proof.
  induction n as [|n IH]; intros s s' r J; cbn [run_loop].
  - intros H; injection H as <- <-. exists []. split; [constructor|exact I].
  - destruct (pop_min (agenda s)) as [[m rest]|] eqn:P.
    2:{ (* agenda exhausted *)
        rewrite (Deliver.step_empty _ _ _ P). apply pop_min_none in P.
        destruct (je_empty _ _ J P) as (Er & X). rewrite Er.
        intros H; injection H as <- <-. exists []. split; [constructor|].
        left. split; [reflexivity|]. split; [exact P|]. split; [intros o []|exact X]. }
    destruct (step fuel codes s) as [s1 r1] eqn:St.
    assert (T : ktrans codes s (Some m) s1) by (eapply KStep; eassumption).
    assert (L1 : exec codes s [Some m] s1) by (econstructor; [exact T|constructor]).
    destruct (Nat.eq_dec (e_ev m) e) as [Em|Ne].
    + destruct (je_step_event _ _ _ _ _ _ _ _ J St P Em) as (R1 & R2 & Cm & Pr & Hv).
      destruct r1; try contradiction; intros H; injection H as <- <-; exists [Some m]; (split; [exact L1|]); try exact I.
      * destruct (Hv _ eq_refl) as (Ch & Vm & Vs). exists [], m, s, rest. split; [reflexivity|]. split; [intros o []|].
        split; [exact Em|]. split; [constructor|]. split; [exact P|]. split; [exact St|]. split; [exact Ch|]. split; [exact Vm|].
        split; [|exact Cm]. destruct Pr as (ev' & H' & C'). exists ev'. split; [exact H'|]. split; [exact C'|]. apply Vs, H'.
      * right. exists [], m. split; [reflexivity|]. split; [intros o []|]. intros _. split; [exact Cm|exact Pr].
    + destruct (je_step_other _ _ _ _ _ _ _ _ J St P Ne) as (Ns & Jk).
      destruct r1; try (intros H; injection H as <- <-; exists [Some m]; (split; [exact L1|]); exact I).
      * intros H. destruct (IH _ _ _ (Jk eq_refl) H) as (l & E & Rr).
        exists (Some m :: l). split; [econstructor; eassumption|].
        assert (Nf : forall l0, not_for e l0 -> not_for e (Some m :: l0))
          by (intros l0 N o [<-|Ho]; [exists m; auto|exact (N _ Ho)]).
        destruct r; try exact Rr.
        -- destruct Rr as (l0 & mk & sk & restk & -> & N0 & Ek & Ex & Pk & Sk & Rest).
           exists (Some m :: l0), mk, sk, restk. split; [reflexivity|]. split; [apply Nf, N0|]. split; [exact Ek|].
           split; [econstructor; eassumption|]. split; [exact Pk|]. split; [exact Sk|exact Rest].
        -- destruct Rr as [(Ex & Ag & N0 & X)|(l0 & mk & -> & N0 & X)].
           ++ left. split; [exact Ex|]. split; [exact Ag|]. split; [apply Nf, N0|exact X].
           ++ right. exists (Some m :: l0), mk. split; [reflexivity|]. split; [apply Nf, N0|exact X].
      * intros H; injection H as <- <-. exfalso. destruct (Order.step_empty _ _ _ _ St) as [_ E]. rewrite E in P. discriminate.
      * exfalso. exact (Ns v eq_refl).
      * intros H; injection H as <- <-. exists [Some m]. split; [exact L1|].
        right. exists [], m. split; [reflexivity|]. split; [intros o []|]. intros X. contradiction.
Qed.

(* run(until = e) on a pending (unprocessed) event, from a calm state.  "stop": the value is what the stop callback read from
   the event (its outcome, for every kind of event whose outcome cannot change: all but Process events triggered by hand and
   conditions before _build_value), returned by the step that pops the FIRST entry of e, after every callback of e has been
   invoked (cb_chain over the whole list: the repaired step()), and the state is calm again.  RuntimeError "until event was not
   triggered" exactly when the agenda ran dry, e is then untriggered; the AssertionError of run() does not occur. *)
Theorem run_until_event_spec fuel codes e s s' r ev l0 :
  calm s -> get_event e s = Some ev -> cbs ev = Some l0 -> run fuel codes (UEv e) s = (s', r) ->
  run_prelude (UEv e) s = inr (add_callback e CbStop s) /\
  exists l, exec codes (add_callback e CbStop s) l s' /\
    match r with
    | RStop v =>
        exists l0 m sk rest, l = l0 ++ [Some m] /\ not_for e l0 /\ e_ev m = e /\ exec codes (add_callback e CbStop s) l0 sk /\
          pop_min (agenda sk) = Some (m, rest) /\ step fuel codes sk = (s', RStop v) /\
          (exists evk lk, get_event e sk = Some evk /\ cbs evk = Some lk /\ cb_chain fuel codes e lk (loop_start m rest sk) s') /\
          (exists sm evm, vgrows (loop_start m rest sk) sm /\ get_event e sm = Some evm /\ out evm = Some (Ok v)) /\
          (exists ev', get_event e s' = Some ev' /\ cbs ev' = None /\ (stable_kind (kind ev') = true -> out ev' = Some (Ok v))) /\
          calm s'
    | RRaise x =>
        (x = kexn ERuntime M_until_not_triggered /\ agenda s' = [] /\ not_for e l /\
         exists ev', get_event e s' = Some ev' /\ out ev' = None) \/
        (exists l0 m, l = l0 ++ [Some m] /\ not_for e l0 /\
                      (e_ev m = e -> calm s' /\ exists ev', get_event e s' = Some ev' /\ cbs ev' = None))
    | RFuel | RBroken => True
    | ROk | REmpty => False
    end.
Proof.
  intros C H Cb R. pose proof (run_event_pending_prelude e s ev l0 H Cb) as Pre. split; [exact Pre|].
  unfold run in R. rewrite Pre in R. eapply run_loop_ev; [eapply je_start; eassumption|exact R].
Qed.

(* agenda exhausted before the until-event is triggered: RuntimeError, whenever the loop gets that far *)
Theorem run_until_event_exhausted fuel codes e s sk :
  je e s -> ok_steps fuel codes s sk -> agenda sk = [] ->
  exists k, forall n, (k <= n)%nat -> run_loop n fuel codes (UEv e) s = (sk, RRaise (kexn ERuntime M_until_not_triggered)).
Proof.
  intros J Ok. revert J. induction Ok as [s|s s1 sk St _ IH]; intros J A.
  - exists 1%nat. intros [|n] L; [lia|]. cbn [run_loop].
    assert (P : pop_min (agenda s) = None) by (rewrite A; reflexivity).
    rewrite (Deliver.step_empty _ _ _ P). f_equal. apply (je_empty _ _ J A).
  - destruct (pop_min (agenda s)) as [[m rest]|] eqn:P.
    2:{ rewrite (Deliver.step_empty _ _ _ P) in St. discriminate. }
    assert (J1 : je e s1).
    { destruct (Nat.eq_dec (e_ev m) e) as [Em|Ne].
      - destruct (je_step_event _ _ _ _ _ _ _ _ J St P Em) as (R1 & _). contradiction.
      - apply (je_step_other _ _ _ _ _ _ _ _ J St P Ne). reflexivity. }
    destruct (IH J1 A) as (k & Hk). exists (S k). intros [|n] L; [lia|]. cbn [run_loop]. rewrite St. apply Hk. lia.
Qed.

(* ------------------------------------------------------------------------------------------------ *)
(* hypothesis (iii) is an invariant: a plan of stop points in which every run(until=...) returns leaves a calm state *)

Definition returned (st : stop) (s : state) (r : result) : Prop :=
  match st with
  | SNum hz => hz <= now s \/ exists v, r = RStop v
  | SEv e => get_event e s = None \/ exists v, r = RStop v
  | SRun | SStep _ => True
  end.

Lemma nsteps_calm fuel codes : forall n s, calm s -> calm (fst (nsteps n fuel codes s)).
Proof.
  induction n as [|n IH]; intros s C; cbn; [exact C|].
  pose proof (calm_step fuel codes s C) as C1. change (step_sel true) with step.
  destruct (step fuel codes s) as [s1 r]. cbn [fst] in C1. destruct r; try exact C1. apply IH, C1.
Qed.

Lemma calm_run_stop fuel codes st s :
  calm s -> returned st s (snd (run_stop fuel codes st s)) -> calm (fst (run_stop fuel codes st s)).
Proof.
  intros C. destruct st as [|hz|e|n]; cbn [run_stop run_stop_sel run_sel returned].
  - intros _. apply calm_run_none, C.
  - destruct (Qlt_le_dec (now s) hz) as [Lt|Ge].
    + destruct (run fuel codes (UNum hz) s) as [s' r] eqn:R. cbn [fst snd].
      destruct (run_until_number_spec _ _ _ _ _ _ C Lt R) as (_ & _ & _ & _ & _ & l & _ & _ & _ & Rr).
      intros [X|(v & ->)]; [lra|]. apply Rr.
    + rewrite (run_num_past _ _ _ _ Ge). intros _. exact C.
  - destruct (get_event e s) as [ev|] eqn:H.
    + destruct (cbs ev) as [l0|] eqn:Cb.
      * destruct (run fuel codes (UEv e) s) as [s' r] eqn:R. cbn [fst snd].
        destruct (run_until_event_spec _ _ _ _ _ _ _ _ C H Cb R) as (_ & l & _ & Rr).
        intros [X|(v & ->)]; [discriminate|]. destruct Rr as (? & ? & ? & ? & _ & _ & _ & _ & _ & _ & _ & _ & _ & Cm). exact Cm.
      * rewrite (run_event_processed _ _ _ _ _ H Cb). intros _. exact C.
    + intros _. unfold run. cbn [run_prelude]. rewrite H. exact C.
  - intros _. apply nsteps_calm, C.
Qed.

Fixpoint plan_returned (fuel : nat) (codes : list prog) (plan : list stop) (s : state) : Prop :=
  match plan with
  | [] => True
  | st :: t => returned st s (snd (run_stop fuel codes st s)) /\ plan_returned fuel codes t (fst (run_stop fuel codes st s))
  end.

Theorem calm_run_split fuel codes : forall plan s,
  calm s -> plan_returned fuel codes plan s -> calm (fst (run_split fuel codes plan s)).
Proof.
  induction plan as [|st t IH]; intros s C; cbn [plan_returned]; [intros _; exact C|].
  intros [R Rt]. unfold run_split. cbn [run_split_sel]. fold (run_stop fuel codes st s).
  pose proof (calm_run_stop _ _ _ _ C R) as C1. destruct (run_stop fuel codes st s) as [s1 r]. cbn [fst snd] in *.
  specialize (IH _ C1 Rt). unfold run_split in IH. destruct (run_split_sel true fuel codes t s1) as [s2 rs]. exact IH.
Qed.
