(* Model of Event.trigger (onl/sim/events.py), which Kernel/Model.v leaves out (public, unused by the kernel itself):
   `self._ok = event._ok; self._value = event._value; self.env.schedule(self)` -- the outcome of another event is copied
   and the event scheduled NORMAL at the current instant.  There is NO already-triggered guard.  Reading _ok of an event
   that was never triggered raises AttributeError.  No proofs here. *)
From Coq Require Import ZArith QArith List Bool.
From ONL Require Import Kernel.Model.
Import ListNotations.

Definition call_trigger (e other : evid) (s : state) : state * outcome :=
  match get_event e s, get_event other s with
  | Some _, Some oev =>
      match out oev with
      | Some o => (trigger_event e o s, Ok VNone)
      | None => (s, Fail (kexn EAttribute M_value_pending))
      end
  | _, _ => (s, Fail (kexn EAttribute M_not_an_event))
  end.
