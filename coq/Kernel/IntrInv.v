(* Kernel/IntrInv.v -- the state invariant behind C04 (interrupts), in three groups, and its preservation by every
   function of Kernel/Model.v that runs inside a step or a block of module-level code.

     invS s                 structure: the event of a process is a Process event carrying its pid and conversely;
                            an Interruption event is born failed with Interrupt(cause), defused, with its own
                            _interrupt callback first; an Initialize event carries None and the _resume of its
                            process first; targets exist.
     invC run pe pend s     callbacks: [CbInterrupt i] occurs only in event i, once; [CbResume p] occurs only in the
                            callback list of p's target, once (waiter uniqueness); a live process that is not running
                            ([run]) waits: its _resume is in its target's list -- or in [pend], the callbacks of the
                            event [pe] being processed that have not been called yet.
     invA s                 agenda: entries name events, eids are distinct and below next_eid, times >= now; an
                            unprocessed Initialize / Interruption event has exactly one entry, URGENT, due now; a
                            processed one has none; the Initialize entry of a process precedes (eid) every
                            Interruption entry aimed at it.

   Between steps: [good s := inv None 0 [] s]. *)
From Coq Require Import ZArith QArith List Bool Lia Lqa.
From ONL Require Import Kernel.Model Kernel.Keys Kernel.IntrBase.
Import ListNotations.

Record invS (s : state) : Prop := mkInvS {
  iS_pev : pevK s;
  iS_kproc : forall e ev p, get_event e s = Some ev -> kind ev = KProcess p ->
             exists pr, get_proc p s = Some pr /\ pev pr = e;
  iS_kintr : forall i ev p, get_event i s = Some ev -> kind ev = KInterruption p ->
             (exists pr, get_proc p s = Some pr) /\ (exists c, out ev = Some (Fail (EInterrupt, [c]))) /\
             defused ev = true /\ (cbs ev = None \/ exists r, cbs ev = Some (CbInterrupt i :: r));
  iS_kinit : forall ie ev p, get_event ie s = Some ev -> kind ev = KInit p ->
             (exists pr, get_proc p s = Some pr) /\ out ev = Some (Ok VNone) /\
             (cbs ev = None \/ exists r, cbs ev = Some (CbResume p :: r));
  iS_tgt : forall p pr t, get_proc p s = Some pr -> ptarget pr = Some t -> exists tev, get_event t s = Some tev;
  iS_init : forall p pr, get_proc p s = Some pr ->
            exists iev, get_event (S (pev pr)) s = Some iev /\ kind iev = KInit p }.

Record invC (run : option pid) (pe : evid) (pend : list cb) (s : state) : Prop := mkInvC {
  iC_intr : forall e ev l i, get_event e s = Some ev -> cbs ev = Some l -> In (CbInterrupt i) l ->
            e = i /\ cnt (CbInterrupt i) l = 1%nat /\ exists p, kind ev = KInterruption p;
  iC_intr_pend : forall i, In (CbInterrupt i) pend ->
            i = pe /\ cnt (CbInterrupt i) pend = 1%nat /\
            exists ev p, get_event pe s = Some ev /\ kind ev = KInterruption p;
  iC_res : forall e ev l p, get_event e s = Some ev -> cbs ev = Some l -> In (CbResume p) l ->
            (exists pr, get_proc p s = Some pr /\ ptarget pr = Some e) /\ cnt (CbResume p) l = 1%nat /\
            run <> Some p /\ ~ In (CbResume p) pend;
  iC_res_pend : forall p, In (CbResume p) pend ->
            (exists pr, get_proc p s = Some pr /\ ptarget pr = Some pe) /\ cnt (CbResume p) pend = 1%nat /\
            run <> Some p /\ exists ev, get_event pe s = Some ev /\ cbs ev = None;
  iC_wait : forall p pr ev, get_proc p s = Some pr -> get_event (pev pr) s = Some ev -> out ev = None ->
            run <> Some p ->
            In (CbResume p) pend \/
            exists t tev l, ptarget pr = Some t /\ get_event t s = Some tev /\ cbs tev = Some l /\ In (CbResume p) l;
  iC_run : forall r, run = Some r -> exists pr, get_proc r s = Some pr }.

Record invA (s : state) : Prop := mkInvA {
  iA_ev : forall x, In x (agenda s) -> exists ev, get_event (e_ev x) s = Some ev;
  iA_nodup : NoDup (map e_eid (agenda s));
  iA_eid : forall x, In x (agenda s) -> (e_eid x < next_eid s)%nat;
  iA_time : forall x, In x (agenda s) -> now s <= e_time x;
  iA_urg : forall x ev, In x (agenda s) -> get_event (e_ev x) s = Some ev -> urgent_kind (kind ev) = true ->
           e_time x == now s /\ e_prio x = URGENT /\ cbs ev <> None /\
           (forall y, In y (agenda s) -> e_ev y = e_ev x -> y = x);
  iA_has : forall e ev, get_event e s = Some ev -> urgent_kind (kind ev) = true -> cbs ev <> None ->
           exists x, In x (agenda s) /\ e_ev x = e;
  iA_init_first : forall x y evx evy p, In x (agenda s) -> In y (agenda s) ->
           get_event (e_ev x) s = Some evx -> get_event (e_ev y) s = Some evy ->
           kind evx = KInit p -> kind evy = KInterruption p -> (e_eid x < e_eid y)%nat }.

Definition inv (run : option pid) (pe : evid) (pend : list cb) (s : state) : Prop :=
  invS s /\ invC run pe pend s /\ invA s.

(* the invariant between two steps *)
Definition good (s : state) : Prop := inv None 0%nat [] s.

(* ------------------------------------------------------------------------------------------------ *)
(* changes that touch neither events nor processes nor the agenda *)

Lemma inv_frame run pe pend s s' :
  events s' = events s -> procs s' = procs s -> agenda s' = agenda s -> now s' = now s -> next_eid s' = next_eid s ->
  inv run pe pend s -> inv run pe pend s'.
Proof.
  destruct s, s'. cbn. intros -> -> -> -> ->. intros (HS & HC & HA).
  split; [|split].
  - destruct HS as [A B C D E F0]. constructor; assumption.
  - destruct HC as [A B C D E R0]. constructor; assumption.
  - destruct HA as [A B C D E F G]. constructor; assumption.
Qed.

(* ------------------------------------------------------------------------------------------------ *)
(* pointwise evolution of events: kinds keep their shape, outcomes are only added, Initialize / Interruption events
   keep outcome and defusal, callback lists change only in their non-core entries (checks, probes, stop) *)

Definition cbs_ok (l l' : list cb) : Prop :=
  (forall c, is_core c = true -> cnt c l' = cnt c l) /\
  (forall c r, l = c :: r -> is_core c = true -> exists r', l' = c :: r').

Definition cbs_rel (o o' : option (list cb)) : Prop :=
  match o, o' with None, None => True | Some l, Some l' => cbs_ok l l' | _, _ => False end.

Definition ev_step (ev ev' : event) : Prop :=
  kshape (kind ev') = kshape (kind ev) /\
  (out ev <> None -> out ev' <> None) /\
  (urgent_kind (kind ev) = true -> out ev' = out ev /\ (defused ev = true -> defused ev' = true)) /\
  cbs_rel (cbs ev) (cbs ev').

Lemma cbs_ok_refl l : cbs_ok l l.
Proof. split; [reflexivity|]. intros c r -> _. exists r. reflexivity. Qed.

Lemma cbs_rel_refl o : cbs_rel o o.
Proof. destruct o; cbn; [apply cbs_ok_refl|exact I]. Qed.

Lemma ev_step_refl ev : ev_step ev ev.
Proof. repeat split; auto. apply cbs_rel_refl. Qed.

Lemma core_neq c d : is_core c = true -> is_core d = false -> c <> d.
Proof. intros A B E. subst. congruence. Qed.

Lemma cbs_ok_snoc l c : is_core c = false -> cbs_ok l (l ++ [c]).
Proof.
  intros N. split.
  - intros c0 C0. rewrite cnt_app, cnt_single.
    assert (cb_eqb c c0 = false) as -> by (apply cb_eqb_neq; intros E; subst; congruence). lia.
  - intros c0 r -> _. exists (r ++ [c]). reflexivity.
Qed.

Lemma cbs_ok_remove l c : is_core c = false -> cbs_ok l (remove_first c l).
Proof.
  intros N. split.
  - intros c0 C0. apply cnt_remove_first_other. apply core_neq; assumption.
  - intros c0 r -> C0. cbn [remove_first].
    assert (cb_eqb c0 c = false) as -> by (apply cb_eqb_neq, core_neq; assumption).
    eexists. reflexivity.
Qed.

Lemma cbs_ok_in l l' c : cbs_ok l l' -> is_core c = true -> (In c l' <-> In c l).
Proof. intros [H _] C. rewrite !cnt_pos, (H _ C). tauto. Qed.

Record evs_step (s s' : state) : Prop := mkEvsStep {
  es_procs : procs s' = procs s;
  es_agenda : agenda s' = agenda s;
  es_now : now s' = now s;
  es_eid : next_eid s' = next_eid s;
  es_len : length (events s') = length (events s);
  es_ev : forall e ev, get_event e s = Some ev -> exists ev', get_event e s' = Some ev' /\ ev_step ev ev' }.

(* the weaker pointwise relation that the structure and agenda groups need: a callback list only keeps its status
   (processed or not) and, for Initialize / Interruption events, its core head *)
Definition ev_step0 (ev ev' : event) : Prop :=
  kshape (kind ev') = kshape (kind ev) /\
  (out ev <> None -> out ev' <> None) /\
  (urgent_kind (kind ev) = true ->
     out ev' = out ev /\ (defused ev = true -> defused ev' = true) /\
     (forall c r, cbs ev = Some (c :: r) -> is_core c = true -> exists r', cbs ev' = Some (c :: r'))) /\
  (cbs ev = None <-> cbs ev' = None).

Lemma ev_step_0 ev ev' : ev_step ev ev' -> ev_step0 ev ev'.
Proof.
  intros (A & B & C & D). split; [exact A|]. split; [exact B|]. split.
  - intros U. destruct (C U) as [C1 C2]. split; [exact C1|]. split; [exact C2|].
    intros c r Hc Ic. unfold cbs_rel in D. rewrite Hc in D. destruct (cbs ev') as [l'|]; [|contradiction].
    destruct (proj2 D _ _ eq_refl Ic) as (r' & ->). exists r'. reflexivity.
  - unfold cbs_rel in D. destruct (cbs ev), (cbs ev'); try contradiction; split; congruence.
Qed.

Lemma ev_step0_refl ev : ev_step0 ev ev.
Proof. apply ev_step_0, ev_step_refl. Qed.

Record evs_step0 (s s' : state) : Prop := mkEvsStep0 {
  es0_procs : procs s' = procs s;
  es0_agenda : agenda s' = agenda s;
  es0_now : now s' = now s;
  es0_eid : next_eid s' = next_eid s;
  es0_len : length (events s') = length (events s);
  es0_ev : forall e ev, get_event e s = Some ev -> exists ev', get_event e s' = Some ev' /\ ev_step0 ev ev' }.

Lemma evs_step_0 s s' : evs_step s s' -> evs_step0 s s'.
Proof.
  intros [A B C D E F]. constructor; try assumption.
  intros e ev H. destruct (F _ _ H) as (ev' & H' & S'). exists ev'. split; [exact H'|apply ev_step_0, S'].
Qed.

Lemma es_back s s' : evs_step s s' ->
  forall e ev', get_event e s' = Some ev' -> exists ev, get_event e s = Some ev /\ ev_step ev ev'.
Proof.
  intros X e ev' H. pose proof (get_event_lt _ _ _ H) as L. rewrite (es_len _ _ X) in L.
  destruct (get_event e s) as [ev|] eqn:E; [|apply nth_error_None in E; lia].
  exists ev. split; [reflexivity|]. destruct (es_ev _ _ X _ _ E) as (ev2 & H2 & S2). congruence.
Qed.

Lemma es0_back s s' : evs_step0 s s' ->
  forall e ev', get_event e s' = Some ev' -> exists ev, get_event e s = Some ev /\ ev_step0 ev ev'.
Proof.
  intros X e ev' H. pose proof (get_event_lt _ _ _ H) as L. rewrite (es0_len _ _ X) in L.
  destruct (get_event e s) as [ev|] eqn:E; [|apply nth_error_None in E; lia].
  exists ev. split; [reflexivity|]. destruct (es0_ev _ _ X _ _ E) as (ev2 & H2 & S2). congruence.
Qed.

Lemma es_proc s s' p : evs_step s s' -> get_proc p s' = get_proc p s.
Proof. intros X. unfold get_proc. rewrite (es_procs _ _ X). reflexivity. Qed.

Lemma es0_proc s s' p : evs_step0 s s' -> get_proc p s' = get_proc p s.
Proof. intros X. unfold get_proc. rewrite (es0_procs _ _ X). reflexivity. Qed.

(* kind transport *)
Lemma step_kind_fw ev ev' : ev_step0 ev ev' ->
  (forall p, kind ev = KProcess p -> kind ev' = KProcess p) /\
  (forall p, kind ev = KInterruption p -> kind ev' = KInterruption p) /\
  (forall p, kind ev = KInit p -> kind ev' = KInit p) /\
  urgent_kind (kind ev') = urgent_kind (kind ev).
Proof.
  intros (A & _). repeat split; intros.
  - eapply kshape_eq_process; eassumption.
  - eapply kshape_eq_interruption; eassumption.
  - eapply kshape_eq_init; eassumption.
  - apply kshape_urgent, A.
Qed.

Lemma step_kind_bw ev ev' : ev_step0 ev ev' ->
  (forall p, kind ev' = KProcess p -> kind ev = KProcess p) /\
  (forall p, kind ev' = KInterruption p -> kind ev = KInterruption p) /\
  (forall p, kind ev' = KInit p -> kind ev = KInit p).
Proof.
  intros (A & _). symmetry in A. repeat split; intros.
  - eapply kshape_eq_process; eassumption.
  - eapply kshape_eq_interruption; eassumption.
  - eapply kshape_eq_init; eassumption.
Qed.

Lemma invS_es0 s s' : evs_step0 s s' -> invS s -> invS s'.
Proof.
  intros X [A B C D E F0]. constructor.
  - intros p pr H. rewrite (es0_proc _ _ _ X) in H. destruct (A _ _ H) as (ev & H1 & K1).
    destruct (es0_ev _ _ X _ _ H1) as (ev' & H2 & S2). exists ev'. split; [exact H2|].
    apply (proj1 (step_kind_fw _ _ S2)), K1.
  - intros e ev' p H K. destruct (es0_back _ _ X _ _ H) as (ev & H1 & S1).
    rewrite (es0_proc _ _ _ X). apply (B e ev p H1). apply (proj1 (step_kind_bw _ _ S1)), K.
  - intros i ev' p H K. destruct (es0_back _ _ X _ _ H) as (ev & H1 & S1).
    assert (K1 : kind ev = KInterruption p) by (apply (proj1 (proj2 (step_kind_bw _ _ S1))), K).
    destruct (C _ _ _ H1 K1) as (C1 & (c & C2) & C3 & C4).
    destruct S1 as (_ & _ & S3 & S4). rewrite K1 in S3. destruct (S3 eq_refl) as (S5 & S6 & S7).
    split; [rewrite (es0_proc _ _ _ X); exact C1|]. split; [exists c; congruence|]. split; [auto|].
    destruct C4 as [C4|(r & C4)].
    + left. apply S4, C4.
    + right. apply (S7 _ _ C4 eq_refl).
  - intros ie ev' p H K. destruct (es0_back _ _ X _ _ H) as (ev & H1 & S1).
    assert (K1 : kind ev = KInit p) by (apply (proj2 (proj2 (step_kind_bw _ _ S1))), K).
    destruct (D _ _ _ H1 K1) as (D1 & D2 & D4).
    destruct S1 as (_ & _ & S3 & S4). rewrite K1 in S3. destruct (S3 eq_refl) as (S5 & S6 & S7).
    split; [rewrite (es0_proc _ _ _ X); exact D1|]. split; [congruence|].
    destruct D4 as [D4|(r & D4)].
    + left. apply S4, D4.
    + right. apply (S7 _ _ D4 eq_refl).
  - intros p pr t H T. rewrite (es0_proc _ _ _ X) in H. destruct (E _ _ _ H T) as (tev & H1).
    destruct (es0_ev _ _ X _ _ H1) as (ev' & H2 & _). exists ev'. exact H2.
  - intros p pr H. rewrite (es0_proc _ _ _ X) in H. destruct (F0 _ _ H) as (iev & H1 & K1).
    destruct (es0_ev _ _ X _ _ H1) as (ev' & H2 & S2). exists ev'. split; [exact H2|].
    apply (proj1 (proj2 (proj2 (step_kind_fw _ _ S2)))), K1.
Qed.

Lemma invS_es s s' : evs_step s s' -> invS s -> invS s'.
Proof. intros X. apply invS_es0, evs_step_0, X. Qed.

(* callback lists seen from the later state *)
Lemma es_cbs_back s s' e ev' l' : evs_step s s' -> get_event e s' = Some ev' -> cbs ev' = Some l' ->
  exists ev l, get_event e s = Some ev /\ cbs ev = Some l /\ cbs_ok l l' /\ ev_step ev ev'.
Proof.
  intros X H C. destruct (es_back _ _ X _ _ H) as (ev & H1 & S1). exists ev.
  pose proof S1 as (_ & _ & _ & S4). unfold cbs_rel in S4. rewrite C in S4.
  destruct (cbs ev) as [l|]; [|contradiction]. exists l. auto.
Qed.

Lemma es_cbs_fw s s' e ev l : evs_step s s' -> get_event e s = Some ev -> cbs ev = Some l ->
  exists ev' l', get_event e s' = Some ev' /\ cbs ev' = Some l' /\ cbs_ok l l' /\ ev_step ev ev'.
Proof.
  intros X H C. destruct (es_ev _ _ X _ _ H) as (ev' & H1 & S1). exists ev'.
  pose proof S1 as (_ & _ & _ & S4). unfold cbs_rel in S4. rewrite C in S4.
  destruct (cbs ev') as [l'|]; [|contradiction]. exists l'. auto.
Qed.

Lemma invC_es run pe pend s s' : evs_step s s' -> invC run pe pend s -> invC run pe pend s'.
Proof.
  intros X [A B C D E R0]. constructor; [| | | | |intros r Hr; rewrite (es_proc _ _ _ X); exact (R0 _ Hr)].
  - intros e ev' l' i H Cl Hin.
    destruct (es_cbs_back _ _ _ _ _ X H Cl) as (ev & l & H1 & C1 & OK & S1).
    assert (Hin1 : In (CbInterrupt i) l) by (apply (cbs_ok_in _ _ (CbInterrupt i) OK eq_refl), Hin).
    destruct (A _ _ _ _ H1 C1 Hin1) as (A1 & A2 & (p & A3)).
    split; [exact A1|]. split; [rewrite (proj1 OK (CbInterrupt i) eq_refl); exact A2|].
    exists p. apply (proj1 (proj2 (step_kind_fw _ _ (ev_step_0 _ _ S1)))), A3.
  - intros i Hin. destruct (B _ Hin) as (B1 & B2 & (ev & p & B3 & B4)).
    split; [exact B1|]. split; [exact B2|].
    destruct (es_ev _ _ X _ _ B3) as (ev' & H2 & S2). exists ev', p. split; [exact H2|].
    apply (proj1 (proj2 (step_kind_fw _ _ (ev_step_0 _ _ S2)))), B4.
  - intros e ev' l' p H Cl Hin.
    destruct (es_cbs_back _ _ _ _ _ X H Cl) as (ev & l & H1 & C1 & OK & S1).
    assert (Hin1 : In (CbResume p) l) by (apply (cbs_ok_in _ _ (CbResume p) OK eq_refl), Hin).
    destruct (C _ _ _ _ H1 C1 Hin1) as (C2 & C3 & C4 & C5).
    split; [rewrite (es_proc _ _ _ X); exact C2|]. split; [rewrite (proj1 OK (CbResume p) eq_refl); exact C3|]. auto.
  - intros p Hin. destruct (D _ Hin) as (D1 & D2 & D3 & (ev & D4 & D5)).
    split; [rewrite (es_proc _ _ _ X); exact D1|]. split; [exact D2|]. split; [exact D3|].
    destruct (es_ev _ _ X _ _ D4) as (ev' & H2 & (_ & _ & _ & S4)). exists ev'. split; [exact H2|].
    unfold cbs_rel in S4. rewrite D5 in S4. destruct (cbs ev'); [contradiction|reflexivity].
  - intros p pr ev' Hp H O R. rewrite (es_proc _ _ _ X) in Hp.
    destruct (es_back _ _ X _ _ H) as (ev & H1 & S1).
    assert (O1 : out ev = None).
    { destruct (out ev) eqn:OO; [|reflexivity]. exfalso. apply (proj1 (proj2 S1)); [congruence|exact O]. }
    destruct (E _ _ _ Hp H1 O1 R) as [E1|(t & tev & l & E1 & E2 & E3 & E4)]; [left; exact E1|right].
    destruct (es_cbs_fw _ _ _ _ _ X E2 E3) as (tev' & l' & F1 & F2 & OK & _).
    exists t, tev', l'. repeat split; try assumption. apply (cbs_ok_in _ _ (CbResume p) OK eq_refl), E4.
Qed.

Lemma es0_processed s s' e ev ev' : evs_step0 s s' -> get_event e s = Some ev -> get_event e s' = Some ev' ->
  (cbs ev = None <-> cbs ev' = None) /\ urgent_kind (kind ev') = urgent_kind (kind ev) /\ ev_step0 ev ev'.
Proof.
  intros X H H'. destruct (es0_ev _ _ X _ _ H) as (ev2 & H2 & S2). rewrite H' in H2. injection H2 as <-.
  split; [apply S2|]. split; [apply (step_kind_fw _ _ S2)|exact S2].
Qed.

Lemma invA_es0 s s' : evs_step0 s s' -> invA s -> invA s'.
Proof.
  intros X [A B C D E F G].
  pose proof (es0_agenda _ _ X) as Ag. pose proof (es0_now _ _ X) as Nw. pose proof (es0_eid _ _ X) as Ne.
  constructor; rewrite ?Ag, ?Nw, ?Ne; try assumption.
  - intros x Hx. destruct (A _ Hx) as (ev & H). destruct (es0_ev _ _ X _ _ H) as (ev' & H' & _). exists ev'. exact H'.
  - intros x ev' Hx H U. destruct (es0_back _ _ X _ _ H) as (ev & H1 & S1).
    destruct (es0_processed _ _ _ _ _ X H1 H) as (P1 & P2 & _). rewrite P2 in U.
    destruct (E _ _ Hx H1 U) as (E1 & E2 & E3 & E4). repeat split; try assumption.
    intros N. apply E3, P1, N.
  - intros e ev' H U N. destruct (es0_back _ _ X _ _ H) as (ev & H1 & S1).
    destruct (es0_processed _ _ _ _ _ X H1 H) as (P1 & P2 & _). rewrite P2 in U.
    apply (F _ _ H1 U). intros N1. apply N, P1, N1.
  - intros x y evx' evy' p Hx Hy H1 H2 K1 K2.
    destruct (es0_back _ _ X _ _ H1) as (evx & H1' & S1). destruct (es0_back _ _ X _ _ H2) as (evy & H2' & S2).
    apply (G x y evx evy p Hx Hy H1' H2').
    + apply (proj2 (proj2 (step_kind_bw _ _ S1))), K1.
    + apply (proj1 (proj2 (step_kind_bw _ _ S2))), K2.
Qed.

Lemma invA_es s s' : evs_step s s' -> invA s -> invA s'.
Proof. intros X. apply invA_es0, evs_step_0, X. Qed.

Lemma inv_es run pe pend s s' : evs_step s s' -> inv run pe pend s -> inv run pe pend s'.
Proof.
  intros X (HS & HC & HA). split; [eapply invS_es; eassumption|]. split; [eapply invC_es; eassumption|eapply invA_es; eassumption].
Qed.

(* a pointwise update is an [evs_step] *)
Lemma es_upd_event e f s :
  (forall ev, get_event e s = Some ev -> ev_step ev (f ev)) -> evs_step s (upd_event e f s).
Proof.
  intros Hf. constructor; try reflexivity.
  - apply events_length_upd.
  - intros e0 ev H. rewrite get_event_upd. destruct (Nat.eqb e0 e) eqn:E.
    + apply Nat.eqb_eq in E. subst e0. rewrite H. cbn. exists (f ev). split; [reflexivity|apply Hf, H].
    + exists ev. split; [exact H|apply ev_step_refl].
Qed.

Lemma inv_upd_event run pe pend e f s :
  (forall ev, get_event e s = Some ev -> ev_step ev (f ev)) ->
  inv run pe pend s -> inv run pe pend (upd_event e f s).
Proof. intros Hf. apply inv_es, es_upd_event, Hf. Qed.

(* groups that do not look at the agenda *)
Lemma invS_frame s s' : events s' = events s -> procs s' = procs s -> invS s -> invS s'.
Proof. destruct s, s'. cbn. intros -> ->. intros [A B C D E F0]. constructor; assumption. Qed.

Lemma invC_frame run pe pend s s' : events s' = events s -> procs s' = procs s -> invC run pe pend s -> invC run pe pend s'.
Proof. destruct s, s'. cbn. intros -> ->. intros [A B C D E R0]. constructor; assumption. Qed.

Lemma untriggered_not_urgent s e ev : invS s -> get_event e s = Some ev -> out ev = None -> urgent_kind (kind ev) = false.
Proof.
  intros HS H O. destruct (kind ev) eqn:K; try reflexivity.
  - destruct (iS_kinit _ HS _ _ _ H K) as (_ & O' & _). congruence.
  - destruct (iS_kintr _ HS _ _ _ H K) as (_ & (c & O') & _). congruence.
Qed.

(* ------------------------------------------------------------------------------------------------ *)
(* a new event without core callbacks, not a Process / Initialize / Interruption event *)

Definition plain_ev (ev : event) : Prop :=
  (exists l, cbs ev = Some l /\ forall c, In c l -> is_core c = false) /\
  urgent_kind (kind ev) = false /\ (forall p, kind ev <> KProcess p).

Lemma new_event_cases ev s e ev0 :
  get_event e (snd (new_event ev s)) = Some ev0 ->
  get_event e s = Some ev0 \/ (e = length (events s) /\ ev0 = ev /\ get_event e s = None).
Proof.
  rewrite get_event_new. destruct (Nat.ltb e (length (events s))) eqn:L; [left; assumption|].
  destruct (Nat.eqb e (length (events s))) eqn:E; [|discriminate].
  apply Nat.eqb_eq in E. intros H; injection H as <-. right. split; [exact E|]. split; [reflexivity|].
  apply get_event_none. lia.
Qed.

Lemma urgent_kind_cases k : urgent_kind k = true -> (exists p, k = KInit p) \/ (exists p, k = KInterruption p).
Proof. destruct k; cbn; try discriminate; intros _; [left|right]; eexists; reflexivity. Qed.

Lemma inv_new_event run pe pend ev s : plain_ev ev -> inv run pe pend s -> inv run pe pend (snd (new_event ev s)).
Proof.
  intros ((l0 & Cl0 & Hl0) & U0 & P0) (HS & HC & HA).
  set (s' := snd (new_event ev s)).
  assert (OLD : forall e x, get_event e s = Some x -> get_event e s' = Some x) by (intros; apply get_event_new_old; assumption).
  assert (PR : forall q, get_proc q s' = get_proc q s) by reflexivity.
  split; [|split].
  - destruct HS as [A B C D E F0]. constructor.
    + intros p pr H. destruct (A _ _ H) as (ev0 & H0 & K0). exists ev0. auto.
    + intros e ev0 p H K. apply new_event_cases in H. destruct H as [H|(_ & -> & _)]; [eapply B; eassumption|].
      exfalso. exact (P0 _ K).
    + intros i ev0 p H K. apply new_event_cases in H. destruct H as [H|(_ & -> & _)]; [eapply C; eassumption|].
      rewrite K in U0. discriminate.
    + intros i ev0 p H K. apply new_event_cases in H. destruct H as [H|(_ & -> & _)]; [eapply D; eassumption|].
      rewrite K in U0. discriminate.
    + intros p pr t H T. destruct (E _ _ _ H T) as (tev & H1). exists tev. auto.
    + intros p pr H. destruct (F0 _ _ H) as (iev & H1 & K1). exists iev. auto.
  - destruct HC as [A B C D E R0]. constructor; [| | | | |exact R0].
    + intros e ev0 l i H Cl Hin. apply new_event_cases in H. destruct H as [H|(_ & -> & _)]; [eapply A; eassumption|].
      rewrite Cl0 in Cl. injection Cl as <-. apply Hl0 in Hin. discriminate.
    + intros i Hin. destruct (B _ Hin) as (B1 & B2 & (ev0 & p & B3 & B4)). split; [exact B1|]. split; [exact B2|].
      exists ev0, p. auto.
    + intros e ev0 l p H Cl Hin. apply new_event_cases in H. destruct H as [H|(_ & -> & _)]; [eapply C; eassumption|].
      rewrite Cl0 in Cl. injection Cl as <-. apply Hl0 in Hin. discriminate.
    + intros p Hin. destruct (D _ Hin) as (D1 & D2 & D3 & (ev0 & D4 & D5)). repeat split; try assumption.
      exists ev0. auto.
    + intros p pr ev0 Hp H O R. destruct (iS_pev _ HS _ _ Hp) as (ev1 & H1 & _).
      rewrite (OLD _ _ H1) in H. injection H as <-.
      destruct (E _ _ _ Hp H1 O R) as [E1|(t & tev & l & E1 & E2 & E3 & E4)]; [left; exact E1|right].
      exists t, tev, l. auto.
  - destruct HA as [A B C D E F G]. constructor; try assumption.
    + intros x Hx. destruct (A _ Hx) as (ev0 & H0). exists ev0. auto.
    + intros x ev0 Hx H U. destruct (A _ Hx) as (ev1 & H1). rewrite (OLD _ _ H1) in H. injection H as <-.
      exact (E _ _ Hx H1 U).
    + intros e ev0 H U N. apply new_event_cases in H. destruct H as [H|(_ & -> & _)]; [eapply F; eassumption|].
      congruence.
    + intros x y evx evy p Hx Hy H1 H2 K1 K2.
      destruct (A _ Hx) as (e1 & X1). rewrite (OLD _ _ X1) in H1. injection H1 as <-.
      destruct (A _ Hy) as (e2 & X2). rewrite (OLD _ _ X2) in H2. injection H2 as <-.
      eapply G; eassumption.
Qed.

(* ------------------------------------------------------------------------------------------------ *)
(* scheduling an event that is neither an Initialize nor an Interruption event *)

Lemma nodup_snoc {A} (l : list A) a : NoDup l -> ~ In a l -> NoDup (l ++ [a]).
Proof.
  induction l as [|x t IH]; cbn; intros ND N.
  - constructor; [tauto|constructor].
  - inversion ND as [|? ? Hx ND']; subst. constructor.
    + rewrite in_app_iff. cbn. intros [H|[H|[]]]; [contradiction|]. apply N. left. symmetry. exact H.
    + apply IH; [exact ND'|]. intros H. apply N. right. exact H.
Qed.

Lemma in_snoc {A} (l : list A) a x : In x (l ++ [a]) <-> In x l \/ x = a.
Proof. rewrite in_app_iff. cbn. split; intros [H|H]; auto. destruct H as [H|[]]; auto. Qed.

Lemma fresh_eid s : invA s -> ~ In (next_eid s) (map e_eid (agenda s)).
Proof.
  intros HA H. apply in_map_iff in H. destruct H as (x & E & Hx). pose proof (iA_eid _ HA _ Hx). lia.
Qed.

Lemma invA_schedule e prio d s :
  invA s -> 0 <= d -> (exists ev, get_event e s = Some ev /\ urgent_kind (kind ev) = false) ->
  invA (schedule e prio d s).
Proof.
  intros HA Hd (ev & Hev & Uev). pose proof (fresh_eid _ HA) as FR. destruct HA as [A B C D E F G].
  set (x0 := mkEntry (Qred (now s + d)) prio (next_eid s) e).
  assert (NX : forall x evx, In x (agenda s ++ [x0]) -> get_event (e_ev x) s = Some evx -> urgent_kind (kind evx) = true -> In x (agenda s)).
  { intros x evx Hx H U. apply in_snoc in Hx. destruct Hx as [Hx| ->]; [exact Hx|]. change (get_event e s = Some evx) in H. rewrite Hev in H. injection H as <-. congruence. }
  constructor; cbn [schedule agenda now next_eid events].
  - intros x Hx. apply in_snoc in Hx. destruct Hx as [Hx| ->]; [apply A, Hx|]. exists ev. exact Hev.
  - rewrite map_app. apply nodup_snoc; assumption.
  - intros x Hx. apply in_snoc in Hx. destruct Hx as [Hx| ->]; [apply C in Hx; lia|cbn; lia].
  - intros x Hx. apply in_snoc in Hx. destruct Hx as [Hx| ->]; [apply D, Hx|]. unfold x0. cbn [e_time]. rewrite Qred_correct. lra.
  - intros x evx Hx H U. change (get_event (e_ev x) s = Some evx) in H. pose proof (NX _ _ Hx H U) as Hx0.
    destruct (E _ _ Hx0 H U) as (E1 & E2 & E3 & E4). repeat split; try assumption.
    intros y Hy Ey. apply in_snoc in Hy. destruct Hy as [Hy| ->]; [apply E4; assumption|].
    change (e = e_ev x) in Ey. rewrite <- Ey, Hev in H. injection H as <-. congruence.
  - intros e0 ev0 H U N. change (get_event e0 s = Some ev0) in H. destruct (F _ _ H U N) as (x & Hx & Ex).
    exists x. split; [apply in_snoc; left; exact Hx|exact Ex].
  - intros x y evx evy p Hx Hy H1 H2 K1 K2.
    change (get_event (e_ev x) s = Some evx) in H1. change (get_event (e_ev y) s = Some evy) in H2.
    apply (G x y evx evy p); try assumption.
    + apply (NX _ _ Hx H1). rewrite K1. reflexivity.
    + apply (NX _ _ Hy H2). rewrite K2. reflexivity.
Qed.

Lemma inv_schedule run pe pend e prio d s :
  0 <= d -> (exists ev, get_event e s = Some ev /\ urgent_kind (kind ev) = false) ->
  inv run pe pend s -> inv run pe pend (schedule e prio d s).
Proof.
  intros Hd He (HS & HC & HA). split; [|split].
  - eapply invS_frame; [| |exact HS]; reflexivity.
  - eapply invC_frame; [| |exact HC]; reflexivity.
  - apply invA_schedule; assumption.
Qed.

(* setting the outcome of an event that is neither Initialize nor Interruption *)
Lemma ev_step_set_out o ev : urgent_kind (kind ev) = false -> ev_step ev (ev_set_out (Some o) ev).
Proof.
  intros U. repeat split; cbn; try congruence. apply cbs_rel_refl.
Qed.

Lemma inv_trigger run pe pend e o s ev :
  get_event e s = Some ev -> urgent_kind (kind ev) = false ->
  inv run pe pend s -> inv run pe pend (trigger_event e o s).
Proof.
  intros H U I. unfold trigger_event. apply inv_schedule; [lra| |].
  - exists (ev_set_out (Some o) ev). split; [apply get_event_upd_same, H|exact U].
  - apply inv_upd_event; [|exact I]. intros ev0 H0. rewrite H in H0. injection H0 as <-. apply ev_step_set_out, U.
Qed.

Lemma ev_step_add_cb c ev : is_core c = false -> ev_step ev (ev_add_cb c ev).
Proof.
  intros N. unfold ev_add_cb. destruct (cbs ev) as [l|] eqn:C; [|apply ev_step_refl].
  repeat split; cbn; auto. unfold cbs_rel. rewrite C. apply cbs_ok_snoc, N.
Qed.

Lemma inv_add_callback run pe pend e c s : is_core c = false -> inv run pe pend s -> inv run pe pend (add_callback e c s).
Proof. intros N. apply inv_upd_event. intros ev _. apply ev_step_add_cb, N. Qed.

Lemma ev_step_defused ev : ev_step ev (ev_set_defused ev).
Proof. repeat split; cbn; auto. apply cbs_rel_refl. Qed.

Lemma inv_set_defused run pe pend e s : inv run pe pend s -> inv run pe pend (upd_event e ev_set_defused s).
Proof. apply inv_upd_event. intros ev _. apply ev_step_defused. Qed.

(* ------------------------------------------------------------------------------------------------ *)
(* conditions *)

Lemma inv_cond_check run pe pend c op s : inv run pe pend s -> inv run pe pend (cond_check c op s).
Proof.
  intros I. unfold cond_check.
  destruct (get_event c s) as [cev|] eqn:Hc; [|exact I].
  destruct (get_event op s) as [oev|] eqn:Ho; [|exact I].
  destruct (out cev) eqn:Oc; [exact I|].
  destruct (kind cev) as [| | | | |all ops count|] eqn:Kc; try exact I.
  set (s1 := upd_event c (ev_set_kind (KCond all ops (S count))) s).
  assert (I1 : inv run pe pend s1).
  { apply inv_upd_event; [|exact I]. intros ev H. rewrite Hc in H. injection H as <-.
    repeat split; cbn; auto; try (rewrite Kc; reflexivity); try (rewrite Kc; cbn; discriminate). apply cbs_rel_refl. }
  assert (Hc1 : get_event c s1 = Some (ev_set_kind (KCond all ops (S count)) cev)) by (apply get_event_upd_same, Hc).
  assert (TR : forall o s2 cev2, inv run pe pend s2 -> get_event c s2 = Some cev2 -> kind cev2 = KCond all ops (S count) ->
                inv run pe pend (trigger_event c o s2)).
  { intros o s2 cev2 I2 H2 K2. eapply inv_trigger; [exact H2| |exact I2]. rewrite K2. reflexivity. }
  destruct (out oev) as [[v|x]|].
  - destruct (cond_evaluate all (length ops) (S count)); [|exact I1]. eapply TR; [exact I1|exact Hc1|reflexivity].
  - eapply (TR _ _ (if Nat.eqb c op then ev_set_defused (ev_set_kind (KCond all ops (S count)) cev)
                    else ev_set_kind (KCond all ops (S count)) cev)); [apply inv_set_defused, I1| |].
    + rewrite get_event_upd. destruct (Nat.eqb c op); rewrite Hc1; reflexivity.
    + destruct (Nat.eqb c op); reflexivity.
  - destruct (cond_evaluate all (length ops) (S count)); [|exact I1]. eapply TR; [exact I1|exact Hc1|reflexivity].
Qed.

Lemma inv_remove_check_from run pe pend c o s : inv run pe pend s -> inv run pe pend (remove_check_from c o s).
Proof.
  intros I. unfold remove_check_from. destruct (get_event o s) as [oev|] eqn:H; [|exact I].
  destruct (cbs oev) as [l|] eqn:C; [|exact I].
  destruct (mem_cb (CbCheck c) l); [|exact I].
  apply inv_upd_event; [|exact I]. intros ev H'. rewrite H in H'. injection H' as <-.
  repeat split; cbn; auto. unfold cbs_rel. rewrite C. apply cbs_ok_remove. reflexivity.
Qed.

Lemma inv_remove_ops run pe pend rec c :
  (forall o s s', rec o s = Some s' -> inv run pe pend s -> inv run pe pend s') ->
  forall l s s', remove_ops rec c l s = Some s' -> inv run pe pend s -> inv run pe pend s'.
Proof.
  intros Hrec. induction l as [|o t IH]; intros s s'; cbn [remove_ops].
  - intros H; injection H as <-. auto.
  - destruct (get_event o s) as [oev|]; [|discriminate].
    destruct (is_cond oev).
    + destruct (rec o (remove_check_from c o s)) as [s2|] eqn:R; [|discriminate]. intros H I.
      eapply IH; [exact H|]. eapply Hrec; [exact R|]. apply inv_remove_check_from, I.
    + intros H I. eapply IH; [exact H|]. apply inv_remove_check_from, I.
Qed.

Lemma inv_remove_checks run pe pend fuel : forall c s s', remove_checks fuel c s = Some s' -> inv run pe pend s -> inv run pe pend s'.
Proof.
  induction fuel as [|f IH]; intros c s s'; cbn [remove_checks]; [discriminate|].
  destruct (get_event c s) as [cev|]; [|discriminate].
  destruct (kind cev); try (intros H; injection H as <-; auto).
  apply inv_remove_ops. exact IH.
Qed.

Lemma inv_cond_build run pe pend c s : inv run pe pend s -> inv run pe pend (fst (cond_build c s)).
Proof.
  intros I. unfold cond_build. destruct (remove_checks (S c) c s) as [s1|] eqn:R; [|exact I].
  pose proof (inv_remove_checks run pe pend _ _ _ _ R I) as I1.
  destruct (get_event c s1) as [cev|] eqn:Hc; [|exact I1].
  destruct (out cev) as [[v|x]|]; try exact I1.
  destruct (kind cev) eqn:Kc; try exact I1.
  destruct (populate (S c) (events s1) ops); [|exact I1].
  cbn [fst]. apply inv_upd_event; [|exact I1]. intros ev H. rewrite Hc in H. injection H as <-.
  apply ev_step_set_out. rewrite Kc. reflexivity.
Qed.

(* ------------------------------------------------------------------------------------------------ *)
(* an accepted interrupt() *)

Definition intr_event (i : evid) (p : pid) (cause : val) : event :=
  mkEvent (Some [CbInterrupt i]) (Some (Fail (EInterrupt, [cause]))) true (KInterruption p).

Definition intr_entry (s : state) : entry := mkEntry (Qred (now s + 0)) URGENT (next_eid s) (length (events s)).

Definition intr_state (p : pid) (cause : val) (s : state) : state :=
  schedule (length (events s)) URGENT 0 (snd (new_event (intr_event (length (events s)) p cause) s)).

Lemma call_interrupt_accept e cause s ev p :
  get_event e s = Some ev -> kind ev = KProcess p -> out ev = None -> active s <> Some p ->
  call_interrupt e cause s = (intr_state p cause s, Ok VNone).
Proof.
  intros H K O A. unfold call_interrupt. rewrite H, K. unfold is_triggered. rewrite O.
  assert ((match active s with Some a => Nat.eqb a p | None => false end) = false) as ->.
  { destruct (active s) as [a|]; [|reflexivity]. apply Nat.eqb_neq. congruence. }
  reflexivity.
Qed.

Lemma inv_interrupt run pe pend p cause s :
  (exists pr, get_proc p s = Some pr) -> inv run pe pend s -> inv run pe pend (intr_state p cause s).
Proof.
  intros Hp (HS & HC & HA).
  set (i := length (events s)). set (EV := intr_event i p cause).
  set (s1 := snd (new_event EV s)).
  assert (OLD : forall e x, get_event e s = Some x -> get_event e s1 = Some x) by (intros; apply get_event_new_old; assumption).
  assert (NEW : get_event i s1 = Some EV) by apply get_event_new_self.
  split; [|split].
  - apply (invS_frame s1); [reflexivity|reflexivity|].
    destruct HS as [A B C D E F0]. constructor.
    + intros q pr H. destruct (A _ _ H) as (ev0 & H0 & K0). exists ev0. auto.
    + intros e ev0 q H K. apply new_event_cases in H. destruct H as [H|(_ & -> & _)]; [eapply B; eassumption|discriminate].
    + intros j ev0 q H K. apply new_event_cases in H. destruct H as [H|(-> & -> & _)]; [eapply C; eassumption|].
      injection K as <-. split; [exact Hp|]. split; [exists cause; reflexivity|]. split; [reflexivity|].
      right. exists []. reflexivity.
    + intros j ev0 q H K. apply new_event_cases in H. destruct H as [H|(_ & -> & _)]; [eapply D; eassumption|discriminate].
    + intros q pr t H T. destruct (E _ _ _ H T) as (tev & H1). exists tev. auto.
    + intros q pr H. destruct (F0 _ _ H) as (iev & H1 & K1). exists iev. auto.
  - apply (invC_frame _ _ _ s1); [reflexivity|reflexivity|].
    destruct HC as [A B C D E R0]. constructor; [| | | | |exact R0].
    + intros e ev0 l j H Cl Hin. apply new_event_cases in H. destruct H as [H|(-> & -> & _)]; [eapply A; eassumption|].
      injection Cl as <-. destruct Hin as [Hin|[]]. injection Hin as <-. split; [reflexivity|].
      split; [cbn; rewrite Nat.eqb_refl; reflexivity|]. exists p. reflexivity.
    + intros j Hin. destruct (B _ Hin) as (B1 & B2 & (ev0 & q & B3 & B4)). split; [exact B1|]. split; [exact B2|].
      exists ev0, q. auto.
    + intros e ev0 l q H Cl Hin. apply new_event_cases in H. destruct H as [H|(_ & -> & _)]; [eapply C; eassumption|].
      injection Cl as <-. destruct Hin as [Hin|[]]. discriminate.
    + intros q Hin. destruct (D _ Hin) as (D1 & D2 & D3 & (ev0 & D4 & D5)). repeat split; try assumption.
      exists ev0. auto.
    + intros q pr ev0 Hq H O R. destruct (iS_pev _ HS _ _ Hq) as (ev1 & H1 & _).
      rewrite (OLD _ _ H1) in H. injection H as <-.
      destruct (E _ _ _ Hq H1 O R) as [E1|(t & tev & l & E1 & E2 & E3 & E4)]; [left; exact E1|right].
      exists t, tev, l. auto.
  - pose proof (fresh_eid _ HA) as FR. destruct HA as [A B C D E F G].
    set (x0 := intr_entry s).
    assert (EVX : forall x evx, In x (agenda s) -> get_event (e_ev x) s1 = Some evx -> get_event (e_ev x) s = Some evx).
    { intros x evx Hx H. destruct (A _ Hx) as (ev1 & H1). rewrite (OLD _ _ H1) in H. congruence. }
    assert (LT : forall x, In x (agenda s) -> (e_ev x < i)%nat).
    { intros x Hx. destruct (A _ Hx) as (ev1 & H1). apply get_event_lt in H1. exact H1. }
    assert (Ag : agenda (intr_state p cause s) = agenda s ++ [x0]) by reflexivity.
    assert (Nw : now (intr_state p cause s) = now s) by reflexivity.
    assert (Ne : next_eid (intr_state p cause s) = S (next_eid s)) by reflexivity.
    assert (GE : forall e, get_event e (intr_state p cause s) = get_event e s1) by reflexivity.
    constructor; rewrite ?Ag, ?Nw, ?Ne; try setoid_rewrite GE.
    + intros x Hx. apply in_snoc in Hx. destruct Hx as [Hx| ->].
      * destruct (A _ Hx) as (ev0 & H0). exists ev0. apply OLD, H0.
      * exists EV. exact NEW.
    + rewrite map_app. apply nodup_snoc; assumption.
    + intros x Hx. apply in_snoc in Hx. destruct Hx as [Hx| ->]; [apply C in Hx; lia|unfold x0; cbn; lia].
    + intros x Hx. apply in_snoc in Hx. destruct Hx as [Hx| ->]; [apply D, Hx|]. unfold x0. cbn [intr_entry e_time]. rewrite Qred_correct. lra.
    + intros x evx Hx H U. change (get_event (e_ev x) s1 = Some evx) in H. apply in_snoc in Hx. destruct Hx as [Hx| ->].
      * pose proof (EVX _ _ Hx H) as H'. destruct (E _ _ Hx H' U) as (E1 & E2 & E3 & E4). repeat split; try assumption.
        intros y Hy Ey. apply in_snoc in Hy. destruct Hy as [Hy| ->]; [apply E4; assumption|].
        exfalso. pose proof (LT _ Hx) as L. rewrite <- Ey in L. cbn in L. lia.
      * unfold x0 in H. cbn [intr_entry e_ev] in H. fold i in H. rewrite NEW in H. injection H as <-. split; [unfold x0; cbn [intr_entry e_time]; rewrite Qred_correct; lra|].
        split; [reflexivity|]. split; [discriminate|].
        intros y Hy Ey. apply in_snoc in Hy. destruct Hy as [Hy|Hy]; [|exact Hy].
        exfalso. pose proof (LT _ Hy) as L. rewrite Ey in L. cbn in L. lia.
    + intros e0 ev0 H U N. change (get_event e0 s1 = Some ev0) in H. apply new_event_cases in H.
      destruct H as [H|(-> & _ & _)].
      * destruct (F _ _ H U N) as (x & Hx & Ex). exists x. split; [apply in_snoc; left; exact Hx|exact Ex].
      * exists (intr_entry s). split; [apply in_snoc; right; reflexivity|reflexivity].
    + intros x y evx evy q Hx Hy H1 H2 K1 K2.
      change (get_event (e_ev x) s1 = Some evx) in H1. change (get_event (e_ev y) s1 = Some evy) in H2.
      apply in_snoc in Hx. apply in_snoc in Hy. destruct Hx as [Hx| ->].
      * destruct Hy as [Hy| ->].
        -- apply (G x y evx evy q); auto.
        -- apply C in Hx. cbn. exact Hx.
      * unfold x0 in H1. cbn [intr_entry e_ev] in H1. fold i in H1. rewrite NEW in H1. injection H1 as <-. discriminate.
Qed.

(* ------------------------------------------------------------------------------------------------ *)
(* env.process(generator) *)

Definition proc_event (p : pid) : event := mkEvent (Some []) None false (KProcess p).
Definition init_event (p : pid) : event := mkEvent (Some [CbResume p]) (Some (Ok VNone)) false (KInit p).
Definition init_entry (s : state) : entry := mkEntry (Qred (now s + 0)) URGENT (next_eid s) (S (length (events s))).

Definition spawn_state (pr : prog) (arg : val) (s : state) : state :=
  mkState (now s) (agenda s ++ [init_entry s]) (S (next_eid s))
          ((events s ++ [proc_event (length (procs s))]) ++ [init_event (length (procs s))])
          (procs s ++ [mkProc pr (start pr arg) (length (events s)) (Some (S (length (events s))))])
          (active s) (glob s) (obs s).

Lemma call_spawn_eq codes code arg s pr :
  nth_error codes code = Some pr ->
  call_spawn codes code arg s = (spawn_state pr arg s, Ok (VEv (length (events s)))).
Proof.
  intros H. unfold call_spawn. rewrite H. unfold new_event, schedule, set_procs, set_events, spawn_state, init_entry.
  cbn [fst snd events procs now agenda next_eid active glob obs].
  rewrite app_length. cbn [length]. rewrite Nat.add_1_r. reflexivity.
Qed.

Lemma spawn_ev_cases pr arg s e ev0 :
  get_event e (spawn_state pr arg s) = Some ev0 ->
  get_event e s = Some ev0 \/
  (e = length (events s) /\ ev0 = proc_event (length (procs s))) \/
  (e = S (length (events s)) /\ ev0 = init_event (length (procs s))).
Proof.
  unfold get_event, spawn_state. cbn [events]. rewrite nth_error_snoc, app_length. cbn [length]. rewrite Nat.add_1_r.
  destruct (Nat.ltb e (S (length (events s)))) eqn:L.
  - rewrite nth_error_snoc. destruct (Nat.ltb e (length (events s))) eqn:L2; [left; assumption|].
    destruct (Nat.eqb e (length (events s))) eqn:E; [|discriminate].
    apply Nat.eqb_eq in E. intros H; injection H as <-. right. left. auto.
  - destruct (Nat.eqb e (S (length (events s)))) eqn:E; [|discriminate].
    apply Nat.eqb_eq in E. intros H; injection H as <-. right. right. auto.
Qed.

Lemma spawn_ev_old pr arg s e x : get_event e s = Some x -> get_event e (spawn_state pr arg s) = Some x.
Proof.
  intros H. pose proof (get_event_lt _ _ _ H) as L. unfold get_event, spawn_state. cbn [events].
  rewrite nth_error_app1 by (rewrite app_length; lia). rewrite nth_error_app1 by lia. exact H.
Qed.

Lemma spawn_ev_proc pr arg s : get_event (length (events s)) (spawn_state pr arg s) = Some (proc_event (length (procs s))).
Proof.
  unfold get_event, spawn_state. cbn [events].
  rewrite nth_error_app1 by (rewrite app_length; cbn; lia). rewrite nth_error_app2 by lia. rewrite Nat.sub_diag. reflexivity.
Qed.

Lemma spawn_ev_init pr arg s : get_event (S (length (events s))) (spawn_state pr arg s) = Some (init_event (length (procs s))).
Proof.
  unfold get_event, spawn_state. cbn [events].
  rewrite nth_error_app2 by (rewrite app_length; cbn; lia). rewrite app_length. cbn [length].
  replace (S (length (events s)) - (length (events s) + 1))%nat with 0%nat by lia. reflexivity.
Qed.

Lemma spawn_pr_cases pr arg s q pr0 :
  get_proc q (spawn_state pr arg s) = Some pr0 ->
  get_proc q s = Some pr0 \/
  (q = length (procs s) /\ pr0 = mkProc pr (start pr arg) (length (events s)) (Some (S (length (events s))))).
Proof.
  unfold get_proc, spawn_state. cbn [procs]. rewrite nth_error_snoc.
  destruct (Nat.ltb q (length (procs s))); [left; assumption|].
  destruct (Nat.eqb q (length (procs s))) eqn:E; [|discriminate].
  apply Nat.eqb_eq in E. intros H; injection H as <-. right. auto.
Qed.

Lemma spawn_pr_old pr arg s q x : get_proc q s = Some x -> get_proc q (spawn_state pr arg s) = Some x.
Proof.
  intros H. pose proof (get_proc_lt _ _ _ H) as L. unfold get_proc, spawn_state. cbn [procs].
  rewrite nth_error_app1 by lia. exact H.
Qed.

Lemma spawn_pr_new pr arg s :
  get_proc (length (procs s)) (spawn_state pr arg s) = Some (mkProc pr (start pr arg) (length (events s)) (Some (S (length (events s))))).
Proof. unfold get_proc, spawn_state. cbn [procs]. rewrite nth_error_app2 by lia. rewrite Nat.sub_diag. reflexivity. Qed.

Lemma inv_spawn run pe pend pr arg s : inv run pe pend s -> inv run pe pend (spawn_state pr arg s).
Proof.
  intros (HS & HC & HA).
  set (s' := spawn_state pr arg s). set (n := length (events s)). set (p := length (procs s)).
  assert (NOP : forall x, get_proc p s = Some x -> False) by (intros x H; apply get_proc_lt in H; unfold p in H; lia).
  assert (NOE : forall e x, get_event e s = Some x -> (e < n)%nat) by (intros e x H; apply get_event_lt in H; exact H).
  split; [|split].
  - destruct HS as [A B C D E F0]. constructor.
    + intros q pr0 H. apply spawn_pr_cases in H. destruct H as [H|(-> & ->)].
      * destruct (A _ _ H) as (ev0 & H0 & K0). exists ev0. split; [apply spawn_ev_old, H0|exact K0].
      * exists (proc_event p). split; [apply spawn_ev_proc|reflexivity].
    + intros e ev0 q H K. apply spawn_ev_cases in H. destruct H as [H|[(-> & ->)|(-> & ->)]].
      * destruct (B _ _ _ H K) as (pr0 & H0 & P0). exists pr0. split; [apply spawn_pr_old, H0|exact P0].
      * injection K as <-. eexists. split; [apply spawn_pr_new|reflexivity].
      * discriminate.
    + intros j ev0 q H K. apply spawn_ev_cases in H. destruct H as [H|[(-> & ->)|(-> & ->)]]; try discriminate.
      destruct (C _ _ _ H K) as ((pr0 & C1) & C2). split; [|exact C2]. exists pr0. apply spawn_pr_old, C1.
    + intros j ev0 q H K. apply spawn_ev_cases in H. destruct H as [H|[(-> & ->)|(-> & ->)]]; try discriminate.
      * destruct (D _ _ _ H K) as ((pr0 & D1) & D2). split; [|exact D2]. exists pr0. apply spawn_pr_old, D1.
      * injection K as <-. split; [eexists; apply spawn_pr_new|]. split; [reflexivity|]. right. exists []. reflexivity.
    + intros q pr0 t H T. apply spawn_pr_cases in H. destruct H as [H|(-> & ->)].
      * destruct (E _ _ _ H T) as (tev & H1). exists tev. apply spawn_ev_old, H1.
      * cbn in T. injection T as <-. eexists. apply spawn_ev_init.
    + intros q pr0 H. apply spawn_pr_cases in H. destruct H as [H|(-> & ->)].
      * destruct (F0 _ _ H) as (iev & H1 & K1). exists iev. split; [apply spawn_ev_old, H1|exact K1].
      * eexists. split; [apply spawn_ev_init|reflexivity].
  - destruct HC as [A B C D E R0]. constructor.
    + intros e ev0 l j H Cl Hin. apply spawn_ev_cases in H. destruct H as [H|[(-> & ->)|(-> & ->)]].
      * eapply A; eassumption.
      * injection Cl as <-. destruct Hin.
      * injection Cl as <-. destruct Hin as [Hin|[]]. discriminate.
    + intros j Hin. destruct (B _ Hin) as (B1 & B2 & (ev0 & q & B3 & B4)). split; [exact B1|]. split; [exact B2|].
      exists ev0, q. split; [apply spawn_ev_old, B3|exact B4].
    + intros e ev0 l q H Cl Hin. apply spawn_ev_cases in H. destruct H as [H|[(-> & ->)|(-> & ->)]].
      * destruct (C _ _ _ _ H Cl Hin) as ((pr0 & C1 & C2) & C3). split; [|exact C3]. exists pr0. split; [apply spawn_pr_old, C1|exact C2].
      * injection Cl as <-. destruct Hin.
      * injection Cl as <-. destruct Hin as [Hin|[]]. injection Hin as <-. fold p.
        split; [eexists; split; [apply spawn_pr_new|reflexivity]|].
        split; [cbn; rewrite Nat.eqb_refl; reflexivity|]. split.
        -- intros Hr. destruct (R0 _ Hr) as (x & Hx). exact (NOP _ Hx).
        -- intros Hp. destruct (D _ Hp) as ((x & Hx & _) & _). exact (NOP _ Hx).
    + intros q Hin. destruct (D _ Hin) as ((pr0 & D0 & D1) & D2 & D3 & (ev0 & D4 & D5)).
      split; [exists pr0; split; [apply spawn_pr_old, D0|exact D1]|]. split; [exact D2|]. split; [exact D3|].
      exists ev0. split; [apply spawn_ev_old, D4|exact D5].
    + intros q pr0 ev0 Hq H O R. apply spawn_pr_cases in Hq. destruct Hq as [Hq|(-> & ->)].
      * destruct (iS_pev _ HS _ _ Hq) as (ev1 & H1 & _). unfold s' in H. rewrite (spawn_ev_old pr arg _ _ _ H1) in H. injection H as <-.
        destruct (E _ _ _ Hq H1 O R) as [E1|(t & tev & l & E1 & E2 & E3 & E4)]; [left; exact E1|right].
        exists t, tev, l. split; [exact E1|]. split; [apply spawn_ev_old, E2|]. auto.
      * right. exists (S n), (init_event p), [CbResume p]. split; [reflexivity|]. split; [apply spawn_ev_init|].
        split; [reflexivity|left; reflexivity].
    + intros r Hr. destruct (R0 _ Hr) as (x & Hx). exists x. apply spawn_pr_old, Hx.
  - pose proof (fresh_eid _ HA) as FR. destruct HA as [A B C D E F G].
    assert (EVX : forall x evx, In x (agenda s) -> get_event (e_ev x) s' = Some evx -> get_event (e_ev x) s = Some evx).
    { intros x evx Hx H. destruct (A _ Hx) as (ev1 & H1). unfold s' in H. rewrite (spawn_ev_old pr arg _ _ _ H1) in H. congruence. }
    assert (LT : forall x, In x (agenda s) -> (e_ev x < n)%nat).
    { intros x Hx. destruct (A _ Hx) as (ev1 & H1). apply NOE in H1. exact H1. }
    assert (Ag : agenda s' = agenda s ++ [init_entry s]) by reflexivity.
    assert (Nw : now s' = now s) by reflexivity.
    assert (Ne : next_eid s' = S (next_eid s)) by reflexivity.
    constructor; rewrite ?Ag, ?Nw, ?Ne.
    + intros x Hx. apply in_snoc in Hx. destruct Hx as [Hx| ->].
      * destruct (A _ Hx) as (ev0 & H0). exists ev0. apply spawn_ev_old, H0.
      * eexists. apply spawn_ev_init.
    + rewrite map_app. apply nodup_snoc; assumption.
    + intros x Hx. apply in_snoc in Hx. destruct Hx as [Hx| ->]; [apply C in Hx; lia|cbn; lia].
    + intros x Hx. apply in_snoc in Hx. destruct Hx as [Hx| ->]; [apply D, Hx|]. cbn [init_entry e_time]. rewrite Qred_correct. lra.
    + intros x evx Hx H U. change (get_event (e_ev x) s' = Some evx) in H. apply in_snoc in Hx. destruct Hx as [Hx| ->].
      * pose proof (EVX _ _ Hx H) as H'. destruct (E _ _ Hx H' U) as (E1 & E2 & E3 & E4). repeat split; try assumption.
        intros y Hy Ey. apply in_snoc in Hy. destruct Hy as [Hy| ->]; [apply E4; assumption|].
        exfalso. pose proof (LT _ Hx) as L. rewrite <- Ey in L. cbn in L. unfold n in L. lia.
      * cbn [init_entry e_ev] in H. unfold s' in H. rewrite spawn_ev_init in H. injection H as <-.
        split; [cbn [init_entry e_time]; rewrite Qred_correct; lra|].
        split; [reflexivity|]. split; [discriminate|].
        intros y Hy Ey. apply in_snoc in Hy. destruct Hy as [Hy|Hy]; [|exact Hy].
        exfalso. pose proof (LT _ Hy) as L. rewrite Ey in L. cbn in L. unfold n in L. lia.
    + intros e0 ev0 H U N. change (get_event e0 s' = Some ev0) in H. apply spawn_ev_cases in H.
      destruct H as [H|[(-> & ->)|(-> & ->)]].
      * destruct (F _ _ H U N) as (x & Hx & Ex). exists x. split; [apply in_snoc; left; exact Hx|exact Ex].
      * discriminate.
      * exists (init_entry s). split; [apply in_snoc; right; reflexivity|reflexivity].
    + intros x y evx evy q Hx Hy H1 H2 K1 K2.
      change (get_event (e_ev x) s' = Some evx) in H1. change (get_event (e_ev y) s' = Some evy) in H2.
      apply in_snoc in Hx. apply in_snoc in Hy. destruct Hy as [Hy| ->].
      * pose proof (EVX _ _ Hy H2) as H2'. destruct Hx as [Hx| ->].
        -- apply (G x y evx evy q); auto.
        -- cbn [init_entry e_ev] in H1. unfold s' in H1. rewrite spawn_ev_init in H1. injection H1 as <-.
           injection K1 as <-. exfalso. destruct (iS_kintr _ HS _ _ _ H2' K2) as ((x & Hx) & _). exact (NOP _ Hx).
      * cbn [init_entry e_ev] in H2. unfold s' in H2. rewrite spawn_ev_init in H2. injection H2 as <-. discriminate.
Qed.

(* ------------------------------------------------------------------------------------------------ *)
(* the API calls *)

Lemma plain_timeout v : plain_ev (mkEvent (Some []) (Some (Ok v)) false KTimeout).
Proof. split; [exists []; split; [reflexivity|intros c []]|]. split; [reflexivity|discriminate]. Qed.
Lemma plain_plain : plain_ev (mkEvent (Some []) None false KPlain).
Proof. split; [exists []; split; [reflexivity|intros c []]|]. split; [reflexivity|discriminate]. Qed.
Lemma plain_cond all es : plain_ev (mkEvent (Some []) None false (KCond all es 0)).
Proof. split; [exists []; split; [reflexivity|intros c []]|]. split; [reflexivity|discriminate]. Qed.
Lemma plain_sentinel : plain_ev (mkEvent (Some []) (Some (Ok VNone)) false KSentinel).
Proof. split; [exists []; split; [reflexivity|intros c []]|]. split; [reflexivity|discriminate]. Qed.

Lemma neg_delay_false d : neg_delay d = false -> 0 <= d.
Proof.
  unfold neg_delay. destruct (d ?= 0) eqn:C; try discriminate; intros _.
  - apply Qeq_alt in C. lra.
  - apply Qgt_alt in C. lra.
Qed.

Lemma inv_call_timeout run pe pend d v s : inv run pe pend s -> inv run pe pend (fst (call_timeout d v s)).
Proof.
  intros I. unfold call_timeout. destruct (neg_delay d) eqn:N; [exact I|].
  set (EV := mkEvent (Some []) (Some (Ok v)) false KTimeout).
  change (inv run pe pend (schedule (length (events s)) NORMAL d (snd (new_event EV s)))).
  apply inv_schedule; [apply neg_delay_false, N| |].
  - exists EV. split; [apply get_event_new_self|reflexivity].
  - apply inv_new_event; [apply plain_timeout|exact I].
Qed.

Lemma inv_call_event run pe pend s : inv run pe pend s -> inv run pe pend (fst (call_event s)).
Proof.
  intros I. unfold call_event.
  change (inv run pe pend (snd (new_event (mkEvent (Some []) None false KPlain) s))).
  apply inv_new_event; [apply plain_plain|exact I].
Qed.

Lemma inv_call_succeed run pe pend e v s : inv run pe pend s -> inv run pe pend (fst (call_succeed e v s)).
Proof.
  intros I. unfold call_succeed. destruct (get_event e s) as [ev|] eqn:H; [|exact I].
  unfold is_triggered. destruct (out ev) eqn:O; [exact I|]. cbn [fst].
  eapply inv_trigger; [exact H| |exact I]. eapply untriggered_not_urgent; [apply I|exact H|exact O].
Qed.

Lemma inv_call_fail run pe pend e x s : inv run pe pend s -> inv run pe pend (fst (call_fail e x s)).
Proof.
  intros I. unfold call_fail. destruct (get_event e s) as [ev|] eqn:H; [|exact I].
  unfold is_triggered. destruct (out ev) eqn:O; [exact I|].
  destruct x; try exact I. cbn [fst].
  eapply inv_trigger; [exact H| |exact I]. eapply untriggered_not_urgent; [apply I|exact H|exact O].
Qed.

Lemma inv_call_spawn run pe pend codes code arg s : inv run pe pend s -> inv run pe pend (fst (call_spawn codes code arg s)).
Proof.
  intros I. destruct (nth_error codes code) as [pr|] eqn:H.
  - rewrite (call_spawn_eq _ _ _ _ _ H). cbn [fst]. apply inv_spawn, I.
  - unfold call_spawn. rewrite H. exact I.
Qed.

Lemma inv_call_interrupt run pe pend e cause s : inv run pe pend s -> inv run pe pend (fst (call_interrupt e cause s)).
Proof.
  intros I. unfold call_interrupt. destruct (get_event e s) as [ev|] eqn:H; [|exact I].
  destruct (kind ev) eqn:K; try exact I.
  destruct (is_triggered ev); [exact I|].
  destruct (match active s with Some a => Nat.eqb a p | None => false end); [exact I|].
  change (inv run pe pend (intr_state p cause s)). apply inv_interrupt; [|exact I].
  destruct (iS_kproc _ (proj1 I) _ _ _ H K) as (pr & Hp & _). exists pr. exact Hp.
Qed.

Lemma inv_cond_subscribe run pe pend c ops : forall s, inv run pe pend s -> inv run pe pend (cond_subscribe c ops s).
Proof.
  induction ops as [|o t IH]; intros s I; cbn [cond_subscribe]; [exact I|].
  apply IH. destruct (get_event o s) as [oev|]; [|exact I].
  destruct (is_processed oev); [apply inv_cond_check, I|apply inv_add_callback; [reflexivity|exact I]].
Qed.

Lemma inv_call_cond run pe pend all es s : inv run pe pend s -> inv run pe pend (fst (call_cond all es s)).
Proof.
  intros I. unfold call_cond. destruct (negb (all_valid es s)); [exact I|].
  set (EV := mkEvent (Some []) None false (KCond all es 0)).
  assert (I1 : inv run pe pend (snd (new_event EV s))) by (apply inv_new_event; [apply plain_cond|exact I]).
  pose proof (get_event_new_self EV s) as G1.
  unfold new_event in *. cbn [fst snd] in *. set (s1 := set_events (events s ++ [EV]) s) in *.
  destruct es as [|e0 es'].
  - cbn [fst]. eapply inv_trigger; [exact G1|reflexivity|exact I1].
  - cbn [fst]. apply inv_add_callback; [reflexivity|]. apply inv_cond_subscribe, I1.
Qed.

Lemma inv_call_probe run pe pend e n s : inv run pe pend s -> inv run pe pend (fst (call_probe e n s)).
Proof.
  intros I. unfold call_probe. destruct (get_event e s) as [ev|]; [|exact I].
  destruct (is_processed ev); [exact I|]. apply inv_add_callback; [reflexivity|exact I].
Qed.

Lemma inv_do_call run pe pend codes c s : inv run pe pend s -> inv run pe pend (fst (do_call codes c s)).
Proof.
  intros I. destruct c; cbn [do_call].
  - apply inv_call_timeout, I.
  - apply inv_call_event, I.
  - apply inv_call_succeed, I.
  - apply inv_call_fail, I.
  - apply inv_call_spawn, I.
  - apply inv_call_interrupt, I.
  - apply inv_call_cond, I.
  - apply inv_call_cond, I.
  - apply inv_call_probe, I.
  - rewrite call_query_state. exact I.
  - exact I.
  - exact I.
  - eapply inv_frame; [| | | | |exact I]; reflexivity.
  - exact I.
  - eapply inv_frame; [| | | | |exact I]; reflexivity.
Qed.

Lemma inv_run_frag {A} run pe pend codes (f : frag A) : forall s, inv run pe pend s -> inv run pe pend (fst (run_frag codes f s)).
Proof.
  induction f as [v a|v|x|c k IH]; intros s I; cbn [run_frag fst]; try exact I.
  pose proof (inv_do_call run pe pend codes c s I) as X. destruct (do_call codes c s) as [s1 o]. cbn [fst] in X.
  apply IH, X.
Qed.

Lemma inv_set_active run pe pend a s : inv run pe pend s -> inv run pe pend (set_active a s).
Proof. intros I. eapply inv_frame; [| | | | |exact I]; reflexivity. Qed.

Lemma inv_run_prelude run pe pend u s s1 : run_prelude u s = inr s1 -> inv run pe pend s -> inv run pe pend s1.
Proof.
  destruct u as [|t|e]; cbn [run_prelude].
  - intros H; injection H as <-. auto.
  - destruct (Qle_bool t (now s)) eqn:L; [discriminate|].
    assert (Hd : 0 <= t - now s).
    { destruct (Qlt_le_dec (now s) t) as [Hlt|Hle]; [lra|]. apply Qle_bool_iff in Hle. congruence. }
    set (EV := mkEvent (Some []) (Some (Ok VNone)) false KSentinel).
    change (@inr (state * result) state (add_callback (length (events s)) CbStop (schedule (length (events s)) URGENT (t - now s) (snd (new_event EV s)))) = inr s1 ->
            inv run pe pend s -> inv run pe pend s1).
    intros H I; injection H as <-. apply inv_add_callback; [reflexivity|].
    apply inv_schedule; [exact Hd| |].
    + exists EV. split; [apply get_event_new_self|reflexivity].
    + apply inv_new_event; [apply plain_sentinel|exact I].
  - destruct (get_event e s) as [ev|]; [|discriminate].
    destruct (is_processed ev); [discriminate|]. intros H I; injection H as <-.
    apply inv_add_callback; [reflexivity|exact I].
Qed.
