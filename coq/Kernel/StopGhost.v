(* Kernel/StopGhost.v -- C03, part 10: inert sentinels are invisible -- for parametric programs -- and with that, split
   transparency for ALL stop points.

     bsim f g a b          sim f g a b /\ good a /\ good b: the relation between steps (the clocks may differ: b's clock may
                           stand at a horizon a has not reached)
     bsim_ghost            inserting a ghost on the b-side keeps the relation, with the id maps bumped above the allocated ids
     bsim_step             one step of b is matched by no step (b popped a ghost, or nothing) or one step of a
     bsim_free_run         k steps of b are matched by j <= k steps of a
     ghost_transparent     a ghost run is matched by a free run
     obs_rel_logs          related traces have the same user-visible part, up to the renaming
     split_transparent     the theorem: for parametric programs (Kernel/StopRen.v), any plan of stop points: the user-visible
                           trace of the split run is the renamed user-visible trace of a free run of the same initial state;
                           [split_transparent_run]: ... of the uninterrupted run(), when both have emptied the agenda *)
From Coq Require Import ZArith QArith List Bool Lia Lqa.
From ONL Require Import Kernel.Model Kernel.Keys Kernel.Inv Kernel.Order Kernel.Deliver Kernel.DeliverWf Kernel.StopFrame
  Kernel.StopInv Kernel.Stop Kernel.StopSpec Kernel.StopErase Kernel.StopSplit Kernel.StopRen Kernel.StopSim Kernel.StopSimCalls
  Kernel.StopSimStep.
Import ListNotations.
Local Open Scope nat_scope.

Definition bsim (f g : nat -> nat) (a b : state) : Prop := sim f g a b /\ good a /\ good b.

(* ---- inserting a ghost ---- *)

Definition bump (n : nat) (h : nat -> nat) : nat -> nat := fun i => if Nat.ltb i n then h i else S (h i).

Lemma bump_lt n h i : i < n -> bump n h i = h i.
Proof. intros L. unfold bump. apply Nat.ltb_lt in L. now rewrite L. Qed.
Lemma bump_ge n h i : n <= i -> bump n h i = S (h i).
Proof. intros L. unfold bump. apply Nat.ltb_ge in L. now rewrite L. Qed.

Lemma bump_smono n h : smono h -> smono (bump n h).
Proof.
  intros M i j L. unfold bump. destruct (Nat.ltb i n) eqn:Ei, (Nat.ltb j n) eqn:Ej; pose proof (M _ _ L); try lia.
  apply Nat.ltb_ge in Ei. apply Nat.ltb_lt in Ej. lia.
Qed.

Lemma bump_agree n h : agree n h (bump n h).
Proof. intros i L. symmetry. apply bump_lt, L. Qed.

Lemma good_ghost hz s : (now s < hz)%Q -> good s -> good (ghost hz s).
Proof.
  intros Lt G.
  assert (E : ghost hz s = schedule (length (events s)) URGENT (hz - now s) (snd (new_event ghost_ev s))) by reflexivity.
  rewrite E. eapply ext_good; [exact G|].
  eapply ext_trans; [apply (ext_new_event ghost_ev s); intros _; discriminate|].
  apply ext_schedule; [lra|]. intros _. apply (ev_class_new ghost_ev s).
Qed.

Lemma ren_entry_agree f f' g g' a x :
  agree (length (events a)) f f' -> agree (next_eid a) g g' -> e_ev x < length (events a) -> e_eid x < next_eid a ->
  ren_entry f' g' x = ren_entry f g x.
Proof. intros Af Ag Le Li. unfold ren_entry. now rewrite (Af _ Le), (Ag _ Li). Qed.

Lemma bsim_ghost f g a b hz :
  bsim f g a b -> (now b < hz)%Q ->
  bsim (bump (length (events a)) f) (bump (next_eid a) g) a (ghost hz b).
Proof.
  intros (S & Ga & Gb) Lt. split; [|split; [exact Ga|apply good_ghost; assumption]].
  set (na := length (events a)). set (f' := bump na f). set (g' := bump (next_eid a) g).
  pose proof (bump_agree na f) as Af. pose proof (bump_agree (next_eid a) g) as Ag. fold f' in Af. fold g' in Ag.
  destruct S as [F G Ff Gf Ac Ev Gh A1 A2 Pr Gl Ob].
  assert (Flt : forall i, i < na -> f i < length (events b)).
  { intros i L. pose proof (Ff 0) as E. rewrite !Nat.add_0_r in E. pose proof (F _ _ L). fold na in E. lia. }
  assert (Glt : forall i, i < next_eid a -> g i < next_eid b).
  { intros i L. pose proof (Gf 0) as E. rewrite !Nat.add_0_r in E. pose proof (G _ _ L). lia. }
  constructor; cbn [ghost events agenda next_eid active procs glob obs]; rewrite ?app_length; cbn [length].
  - apply bump_smono, F.
  - apply bump_smono, G.
  - intros k. unfold f'. rewrite bump_ge by (fold na; lia). fold na. rewrite Ff. lia.
  - intros k. unfold g'. rewrite bump_ge by lia. rewrite Gf. lia.
  - exact Ac.
  - intros i ev Hi. destruct (Ev _ _ Hi) as [D B]. split; [exact D|].
    assert (Li : i < na) by (apply nth_error_Some; fold na; congruence).
    rewrite <- (Af _ Li). rewrite <- (ren_ev_agree na f f' ev Af D). rewrite nth_error_app1; [exact B|]. apply Flt, Li.
  - intros j ev' Hj N. destruct (nth_error_app_cases _ _ _ _ Hj) as [[L Hj']|[-> ->]].
    + apply (Gh _ _ Hj'). intros i Li. rewrite (Af _ Li). apply N, Li.
    + split; [reflexivity|left; reflexivity].
  - intros x Hx. destruct (A1 _ Hx) as (X1 & X2 & X3). split; [exact X1|]. split; [exact X2|].
    rewrite (ren_entry_agree f f' g g' a x Af Ag X1 X2). apply in_or_app. left. exact X3.
  - intros y Hy. apply in_app_or in Hy. destruct Hy as [Hy|[<-|[]]].
    + destruct (A2 _ Hy) as (Y1 & Y2 & Y3). split; [lia|]. split; [lia|].
      destruct Y3 as [(x & Hx & ->)|[N1 N2]].
      * left. exists x. split; [exact Hx|]. destruct (A1 _ Hx) as (X1 & X2 & _). symmetry. apply (ren_entry_agree f f' g g' a x); assumption.
      * right. split; [intros i Li; rewrite <- (Af _ Li); apply N1, Li|intros i Li; rewrite <- (Ag _ Li); apply N2, Li].
    + unfold num_entry. cbn [e_ev e_eid]. split; [lia|]. split; [lia|]. right. split.
      * intros i Li. rewrite <- (Af _ Li). pose proof (Flt _ Li). lia.
      * intros i Li. rewrite <- (Ag _ Li). pose proof (Glt _ Li). lia.
  - destruct Pr as [L P]. split; [exact L|]. intros p pr H. destruct (P _ _ H) as (pr' & H' & R). exists pr'. split; [exact H'|].
    eapply proc_rel_mono; [exact Af| |exact R]. lia.
  - destruct Gl as [D E]. split; [exact D|]. rewrite E. apply (ren_vals_agree _ _ _ _ Af D).
  - eapply obs_rel_mono; [exact Af| |exact Ob]. lia.
Qed.

(* ---- steps ---- *)

Lemma good_step fuel codes s : good s -> good (fst (step fuel codes s)).
Proof. intros G. destruct (step fuel codes s) as [s' r] eqn:St. exact (proj2 (step_now_monotone _ _ _ _ _ G St)). Qed.

Lemma good_free_run fuel codes : forall k s, good s -> good (free_run k fuel codes s).
Proof. induction k as [|k IH]; intros s G; [exact G|]. rewrite free_run_S. apply IH, good_step, G. Qed.

(* one step of b: a does nothing (b popped a ghost, or had nothing to pop), or a makes the corresponding step *)
Lemma bsim_step codes f g fuel a b : parametric_codes codes ->
  bsim f g a b ->
  bsim f g a (fst (step fuel codes b)) \/
  (snd (step fuel codes a) <> RBroken -> bsim f g (fst (step fuel codes a)) (fst (step fuel codes b))).
Proof.
  intros PC (S & Ga & Gb). destruct (pop_min (agenda b)) as [[y rest']|] eqn:Pb.
  2:{ left. rewrite (Deliver.step_empty _ _ _ Pb). split; [exact S|split; assumption]. }
  destruct (sim_min _ _ _ _ _ _ S Ga Gb Pb) as [Gy|(m & rest & Pa & ->)].
  - left. split; [eapply sim_step_ghost; eassumption|]. split; [exact Ga|apply good_step, Gb].
  - right. intros Nb. destruct (sim_step_real codes f g fuel a b m rest rest' PC S Ga Gb Pa Pb Nb) as ((S' & _) & _).
    split; [exact S'|]. split; apply good_step; assumption.
Qed.

(* the steps of the free run of a answer anything but the internal-error result *)
Definition clean (fuel : nat) (codes : list prog) (j : nat) (a : state) : Prop :=
  forall i, i < j -> snd (step fuel codes (free_run i fuel codes a)) <> RBroken.

Lemma clean_S fuel codes j a : clean fuel codes (S j) a -> snd (step fuel codes a) <> RBroken /\ clean fuel codes j (fst (step fuel codes a)).
Proof.
  intros C. split; [apply (C 0); lia|]. intros i L. specialize (C (S i) ltac:(lia)). rewrite free_run_S in C. exact C.
Qed.

Lemma clean_le fuel codes j j' a : j <= j' -> clean fuel codes j' a -> clean fuel codes j a.
Proof. intros L C i Li. apply C. lia. Qed.

Lemma bsim_free_run codes f g fuel : parametric_codes codes ->
  forall k a b, bsim f g a b ->
    exists j, j <= k /\ (clean fuel codes j a -> bsim f g (free_run j fuel codes a) (free_run k fuel codes b)).
Proof.
  intros PC. induction k as [|k IH]; intros a b B.
  - exists 0. split; [lia|]. intros _. exact B.
  - rewrite free_run_S. destruct (bsim_step codes f g fuel a b PC B) as [B1|B1].
    + destruct (IH _ _ B1) as (j & L & H). exists j. split; [lia|exact H].
    + (* a steps too -- unless its step answers RBroken, in which case nothing is claimed from here on *)
      destruct (result_eq_broken (snd (step fuel codes a))) as [Eb|Nb].
      * exists 1. split; [lia|]. intros C. exfalso. apply (C 0); [lia|]. exact Eb.
      * destruct (IH _ _ (B1 Nb)) as (j & L & H). exists (S j). split; [lia|]. intros C. rewrite free_run_S.
        apply H. apply (clean_S _ _ _ _ C).
Qed.

Lemma clean_dec fuel codes j a : clean fuel codes j a \/ ~ clean fuel codes j a.
Proof.
  induction j as [|j IH]; [left; intros i L; lia|].
  destruct IH as [C|N]; [|right; intros C; apply N; eapply clean_le; [|exact C]; lia].
  destruct (result_eq_broken (snd (step fuel codes (free_run j fuel codes a)))) as [E|Nb].
  - right. intros C'. apply (C' j); [lia|exact E].
  - left. intros i L. destruct (Nat.eq_dec i j) as [->|Ne]; [exact Nb|apply C; lia].
Qed.

(* ---- ghost runs ---- *)

Lemma clean_add fuel codes j1 j2 a :
  clean fuel codes (j1 + j2) a -> clean fuel codes j1 a /\ clean fuel codes j2 (free_run j1 fuel codes a).
Proof.
  intros C. split; [intros i L; apply C; lia|]. intros i L. specialize (C (j1 + i) ltac:(lia)). rewrite free_run_add in C. exact C.
Qed.

Theorem ghost_transparent codes fuel : parametric_codes codes ->
  forall items f g a b, bsim f g a b ->
    exists K, clean fuel codes K a -> exists f' g', bsim f' g' (free_run K fuel codes a) (ghost_run fuel codes items b).
Proof.
  intros PC. induction items as [|[st k] t IH]; intros f g a b B.
  - exists 0. intros _. exists f, g. exact B.
  - cbn [ghost_run].
    assert (Hp : exists f1 g1, bsim f1 g1 a (pre st b)).
    { destruct st as [|hz|e|n]; cbn [pre]; try (exists f, g; exact B).
      destruct (Qle_bool hz (now b)) eqn:L; [exists f, g; exact B|].
      assert (Lt : (now b < hz)%Q) by (destruct (Qlt_le_dec (now b) hz) as [X|X]; [exact X|apply Qle_bool_iff in X; congruence]).
      eexists. eexists. apply bsim_ghost; eassumption. }
    destruct Hp as (f1 & g1 & B1).
    destruct (bsim_free_run codes f1 g1 fuel PC k a (pre st b) B1) as (j & _ & H).
    (* the rest of the plan, from wherever a got to -- provided it got there cleanly *)
    destruct (clean_dec fuel codes j a) as [Cj|Nj].
    + destruct (IH _ _ _ _ (H Cj)) as (K & HK). exists (j + K). intros C. destruct (clean_add _ _ _ _ _ C) as [_ C2].
      rewrite free_run_add. exact (HK C2).
    + exists j. intros C. contradiction.
Qed.

(* ---- the user-visible trace ---- *)

Lemma is_user_ren f o : is_user_obs (ren_obs f o) = is_user_obs o.
Proof. destruct o; reflexivity. Qed.

Lemma obs_rel_filter f n l l' : obs_rel f n l l' -> filter is_user_obs l' = map (ren_obs f) (filter is_user_obs l).
Proof.
  induction 1 as [|o l l' D _ IH|e t l l' _ IH]; [reflexivity| |exact IH].
  cbn [filter]. rewrite is_user_ren. destruct (is_user_obs o); cbn [map]; now rewrite IH.
Qed.

Lemma filter_rev_comm {A} (p : A -> bool) (l : list A) : filter p (rev l) = rev (filter p l).
Proof.
  induction l as [|x t IH]; [reflexivity|]. cbn [rev filter]. rewrite filter_app, IH. cbn [filter].
  destruct (p x); cbn [rev]; [reflexivity|now rewrite app_nil_r].
Qed.

Lemma obs_rel_logs f n a b : obs_rel f n (obs a) (obs b) -> logs b = map (ren_obs f) (logs a).
Proof.
  intros R. unfold logs. rewrite !filter_rev_comm, (obs_rel_filter _ _ _ _ R), map_rev. reflexivity.
Qed.

(* ---- split transparency, all stop points ---- *)

Definition selfsim (s : state) : Prop := sim (fun i => i) (fun i => i) s s.

Definition never_broken (fuel : nat) (codes : list prog) (s : state) : Prop :=
  forall i, snd (step fuel codes (free_run i fuel codes s)) <> RBroken.

Lemma selfsim_init t0 : selfsim (init_state t0).
Proof.
  constructor; cbn; try reflexivity; try (intros i j L; exact L); try (intros k; reflexivity).
  - intros [|i] ev H; discriminate.
  - intros [|j] ev H; discriminate.
  - intros x [].
  - intros y [].
  - split; [reflexivity|]. intros [|p] pr H; discriminate.
  - split; reflexivity.
  - constructor.
Qed.

(* the theorem: any plan of stop points -- numeric horizons (also AT due instants: the sentinel is URGENT), until-events, single
   steps, run() -- for every table of parametric programs, from any well-formed state: the user-visible trace of the split run
   (the records of process bodies and probes, in order, with their clocks and values) is the user-visible trace of the free run
   of K steps of the same state, with event ids renamed by a strictly increasing map: no record is lost, added or reordered *)
Theorem split_transparent codes fuel s0 plan : parametric_codes codes ->
  selfsim s0 -> good s0 -> uinv s0 -> no_stop s0 ->
  exists K, clean fuel codes K s0 ->
    exists f, smono f /\ logs (fst (run_split fuel codes plan s0)) = map (ren_obs f) (logs (free_run K fuel codes s0)) /\
              (agenda (fst (run_split fuel codes plan s0)) = [] -> agenda (free_run K fuel codes s0) = []).
Proof.
  intros PC SS G U Ns. destruct (split_ghost fuel codes plan s0 U) as (ks & _ & E).
  assert (Es : erase s0 = s0) by (apply erase_id; intros e ev H; destruct (has_stop ev) eqn:T; [destruct (Ns _ _ H T)|reflexivity]).
  rewrite Es in E.
  destruct (ghost_transparent codes fuel PC (combine plan ks) _ _ s0 s0 (conj SS (conj G G))) as (K & H).
  exists K. intros C. destruct (H C) as (f' & g' & (S & _ & _)). exists f'. split; [apply (sm_f _ _ _ _ S)|]. split.
  - rewrite <- E in S. change (logs (fst (run_split fuel codes plan s0))) with (logs (erase (fst (run_split fuel codes plan s0)))).
    eapply obs_rel_logs. apply (sm_obs _ _ _ _ S).
  - intros A. rewrite <- E in S. destruct (agenda (free_run K fuel codes s0)) as [|x t] eqn:Af; [reflexivity|].
    destruct (sm_agenda1 _ _ _ _ S x) as (_ & _ & X); [rewrite Af; left; reflexivity|]. rewrite erase_agenda, A in X. destruct X.
Qed.

(* against the uninterrupted run(): both have emptied the agenda -- the split run shows exactly the trace of run() *)
Theorem split_transparent_run codes fuel s0 plan U : parametric_codes codes ->
  selfsim s0 -> good s0 -> uinv s0 -> no_stop s0 -> never_broken fuel codes s0 ->
  run fuel codes UNone s0 = (U, ROk) -> agenda (fst (run_split fuel codes plan s0)) = [] ->
  exists f, smono f /\ logs (fst (run_split fuel codes plan s0)) = map (ren_obs f) (logs U).
Proof.
  intros PC SS G Ui Ns Nb R A. destruct (split_transparent codes fuel s0 plan PC SS G Ui Ns) as (K & H).
  destruct (H (fun i _ => Nb i)) as (f & M & L & Ag). exists f. split; [exact M|].
  destruct (run_none_free fuel codes s0) as (k & Ek). rewrite R in Ek. cbn [fst] in Ek.
  pose proof (run_all_drains _ _ _ _ R) as Au.
  assert (X : free_run K fuel codes s0 = U) by (rewrite Ek; apply free_run_confluent; [exact (Ag A)|rewrite <- Ek; exact Au]).
  rewrite <- X. exact L.
Qed.
