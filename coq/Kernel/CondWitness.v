(* Kernel/CondWitness.v -- C05: closed witness terms and decision lemmas used by Props/C05_Examples.v (non-vacuity of the hypotheses
   of the theorems of Props/C05.v).  Module-level code only (no processes: [codes] = []); the event ids are creation indices.

   Family M   0: a = timeout(1, 11)   1: b = timeout(2, 22)   2: d = timeout(3, 33)   3: x = event(); x.succeed(44)   (explicit: X = [3])
              4: call = all_of [a; b]   5: cany = any_of [a; b]   6: cn = all_of [call; d; x]   (nested)
     [m_at k] = k steps later:  1: x processed at t = 0 (cn counts 1)   2: a processed at t = 1 (cany TRIGGERS, call counts 1)
       3: cany processed, value {a: 11} (b is not processed yet)   4: b processed at t = 2 (call TRIGGERS)   5: call processed, value
       {a: 11, b: 22} (cn counts 2)   6: d processed at t = 3 (cn TRIGGERS)   7: cn processed, value {a: 11, b: 22, d: 33, x: 44}
   Family N   0: a = timeout(1, 11)   1: x = event(); x.fail(E)   2: cf = all_of [a; x]   3: ca = any_of [a; x]
     [n_at 1]: x processed at t = 0: cf and ca FAIL with E, x is defused
   Family L   0: a = timeout(0, 11)   1: x = event()   2: cl = any_of [a; x];   x.fail(E)
     [l_at 1]: a processed at t = 0, cl triggered and scheduled BEHIND x: the next step processes the failed x, whose only callback
     is the late _check of cl: the failure surfaces *)
From Coq Require Import ZArith QArith List Bool Lia.
From ONL Require Import Kernel.Model Kernel.Cond Kernel.CondInv Kernel.CondProofs.
Import ListNotations.

Definition w_exn : val := VExn (EUser 1) [VInt 5].

Definition m_code : frag unit :=
  FCall (CTimeout 1 (VInt 11)) (fun _ => FCall (CTimeout 2 (VInt 22)) (fun _ => FCall (CTimeout 3 (VInt 33)) (fun _ =>
  FCall CEvent (fun _ => FCall (CSucceed 3%nat (VInt 44)) (fun _ =>
  FCall (CAllOf [0; 1]%nat) (fun _ => FCall (CAnyOf [0; 1]%nat) (fun _ => FCall (CAllOf [4; 2; 3]%nat) (fun _ => FRet VNone)))))))).
Definition n_code : frag unit :=
  FCall (CTimeout 1 (VInt 11)) (fun _ => FCall CEvent (fun _ => FCall (CFail 1%nat w_exn) (fun _ =>
  FCall (CAllOf [0; 1]%nat) (fun _ => FCall (CAnyOf [0; 1]%nat) (fun _ => FRet VNone))))).
Definition l_code : frag unit :=
  FCall (CTimeout 0 (VInt 11)) (fun _ => FCall CEvent (fun _ => FCall (CAnyOf [0; 1]%nat) (fun _ =>
  FCall (CFail 1%nat w_exn) (fun _ => FRet VNone)))).

(* n steps from s *)
Fixpoint c_run (n : nat) (s : state) : state := match n with O => s | S j => c_run j (fst (step 50 [] s)) end.
Fixpoint ok_run (n : nat) (s : state) : bool :=
  match n with
  | O => true
  | S j => match snd (step 50 [] s) with ROk => ok_run j (fst (step 50 [] s)) | _ => false end
  end.

Definition m_at (k : nat) : state := c_run k (fst (exec_top [] m_code (init_state 0))).
Definition n_at (k : nat) : state := c_run k (fst (exec_top [] n_code (init_state 0))).
Definition l_at (k : nat) : state := c_run k (fst (exec_top [] l_code (init_state 0))).

Lemma c_run_add : forall a b s, c_run (a + b) s = c_run b (c_run a s).
Proof. induction a as [|a IH]; intros b s; cbn [c_run Nat.add]; [reflexivity|apply IH]. Qed.

Lemma step_pair s : snd (step 50 [] s) = ROk -> step 50 [] s = (fst (step 50 [] s), ROk).
Proof. intros H. rewrite <- H. destruct (step 50 [] s); reflexivity. Qed.

Lemma creach_c_run : forall n X s, creach [] X s -> ok_run n s = true -> exists X', creach [] (X ++ X') (c_run n s).
Proof.
  induction n as [|n IH]; intros X s C H; cbn [c_run].
  - exists []. rewrite app_nil_r. exact C.
  - cbn [ok_run] in H. destruct (snd (step 50 [] s)) eqn:R; try discriminate H.
    destruct (creach_step_ok [] X 50 s _ C (step_pair s R)) as (X1 & C1).
    destruct (IH _ _ C1 H) as (X2 & C2). exists (X1 ++ X2). rewrite app_assoc. exact C2.
Qed.

Lemma creach_family {A} (f : frag A) n : ok_run n (fst (exec_top [] f (init_state 0))) = true ->
  exists X, creach [] X (c_run n (fst (exec_top [] f (init_state 0)))).
Proof.
  intros H. destruct (creach_exec_top [] [] f (init_state 0) (cr_init [] 0)) as (X1 & C1).
  destruct (creach_c_run n _ _ C1 H) as (X2 & C2). eexists. exact C2.
Qed.

(* the clean step that pops a given entry *)
Lemma clean_step_of_ok s m rest : snd (step 50 [] s) = ROk -> pop_min (agenda s) = Some (m, rest) ->
  clean_step 50 [] s (fst (step 50 [] s)) (e_ev m).
Proof.
  intros R P. destruct (step_ok_clean _ _ _ _ (step_pair s R)) as (e & m' & rest' & ev & l & P' & -> & H).
  rewrite P in P'. injection P' as <- <-. exists m, rest, ev, l. split; [exact P|]. split; [reflexivity|exact H].
Qed.

(* one clean step as a trace of primitives *)
Lemma clean_step_ptrace X s s' e : creach [] X s -> clean_step 50 [] s s' e -> exists X', ptrace X' s s'.
Proof.
  intros C CS. pose proof (creach_reach _ _ _ C) as R.
  destruct (clean_step_winv [] 50 X s s' e (reach_cinv _ _ _ R) (reach_procs_wf _ _ _ R) CS) as (X' & T & _).
  exists X'. eapply etrace_ptrace, T.
Qed.

(* ---- deciding "not detached": no processed condition above c ---- *)
Definition is_parent (s : state) (c p : evid) : bool :=
  match get_event p s with
  | Some pev => match kind pev with KCond _ ops _ => existsb (Nat.eqb c) ops | _ => false end
  | None => false
  end.
Definition parents (s : state) (c : evid) : list evid := filter (is_parent s c) (seq 0 (length (events s))).

Fixpoint anc_free (fuel : nat) (s : state) (c : evid) : bool :=
  match fuel with
  | O => false
  | S f => forallb (fun p => negb (is_proc s p) && anc_free f s p) (parents s c)
  end.

Lemma parents_in s c p pev all ops n :
  get_event p s = Some pev -> kind pev = KCond all ops n -> In c ops -> In p (parents s c).
Proof.
  intros H K I. unfold parents. apply filter_In. split.
  - apply in_seq. pose proof (get_lt _ _ _ H). lia.
  - unfold is_parent. rewrite H, K. apply existsb_exists. exists c. split; [exact I|apply Nat.eqb_refl].
Qed.

Lemma anc_free_desc s d : forall c, desc s d c -> forall f, anc_free f s c = true -> d <> c -> is_proc s d = false.
Proof.
  induction 1 as [|p pev all ops n c H IH Hp Kp Ic]; intros f A N; [congruence|].
  destruct f as [|f]; [discriminate A|]. cbn [anc_free] in A. rewrite forallb_forall in A.
  specialize (A p (parents_in _ _ _ _ _ _ _ Hp Kp Ic)). apply andb_prop in A. destruct A as [A1 A2].
  destruct (Nat.eq_dec d p) as [->|Ne]; [apply negb_true_iff, A1|exact (IH f A2 Ne)].
Qed.

Lemma anc_free_not_detached f s c : anc_free f s c = true -> ~ detached s c.
Proof. intros A (d & D & N & P). rewrite (anc_free_desc s d c D f A N) in P. discriminate. Qed.

(* ---- the specification of _populate_value, decided ---- *)
Lemma leaves_of fuel evs ops items : populate fuel evs ops = Some items -> leaves evs ops items.
Proof. apply populate_sound. Qed.

Lemma c_run_S k s : c_run (S k) s = fst (step 50 [] (c_run k s)).
Proof. replace (S k) with (k + 1)%nat by lia. rewrite c_run_add. reflexivity. Qed.
Lemma m_at_S k : m_at (S k) = fst (step 50 [] (m_at k)). Proof. apply c_run_S. Qed.
Lemma n_at_S k : n_at (S k) = fst (step 50 [] (n_at k)). Proof. apply c_run_S. Qed.
Lemma l_at_S k : l_at (S k) = fst (step 50 [] (l_at k)). Proof. apply c_run_S. Qed.

(* several clean steps as one trace of primitives *)
Lemma ptrace_c_run : forall n X s, creach [] X s -> ok_run n s = true -> exists X', ptrace X' s (c_run n s).
Proof.
  induction n as [|n IH]; intros X s C H; cbn [c_run]; [exists []; constructor|].
  cbn [ok_run] in H. destruct (snd (step 50 [] s)) eqn:R; try discriminate H.
  destruct (step_ok_clean _ _ _ _ (step_pair s R)) as (e & CS).
  destruct (clean_step_ptrace X s _ e C CS) as (X1 & T1).
  destruct (creach_step_ok [] X 50 s _ C (step_pair s R)) as (Xc & C1).
  destruct (IH _ _ C1 H) as (X2 & T2). exists (X1 ++ X2). eapply pt_app; eassumption.
Qed.

Lemma m_creach k : ok_run k (m_at 0) = true -> exists X, creach [] X (m_at k).
Proof. apply (creach_family m_code k). Qed.
Lemma n_creach k : ok_run k (n_at 0) = true -> exists X, creach [] X (n_at k).
Proof. apply (creach_family n_code k). Qed.
Lemma l_creach k : ok_run k (l_at 0) = true -> exists X, creach [] X (l_at k).
Proof. apply (creach_family l_code k). Qed.

(* agenda entries *)
Definition m_e0 : entry := mkEntry 1 NORMAL 0%nat 0%nat.     (* a *)
Definition m_e1 : entry := mkEntry 2 NORMAL 1%nat 1%nat.     (* b *)
Definition m_e2 : entry := mkEntry 3 NORMAL 2%nat 2%nat.     (* d *)
Definition m_e5 : entry := mkEntry 1 NORMAL 4%nat 5%nat.     (* cany, triggered at 1 *)
Definition m_e6 : entry := mkEntry 3 NORMAL 6%nat 6%nat.     (* cn, triggered at 3 *)
Definition n_e0 : entry := mkEntry 1 NORMAL 0%nat 0%nat.
Definition n_e1 : entry := mkEntry 0 NORMAL 1%nat 1%nat.     (* the failed x *)
Definition l_e1 : entry := mkEntry 0 NORMAL 1%nat 1%nat.     (* the failed x *)
Definition l_e2 : entry := mkEntry 0 NORMAL 2%nat 2%nat.     (* cl, triggered *)
