(* Kernel/StopRen.v -- C03, part 6: renaming of event ids, and what it means for a program not to look inside them.

   A numeric horizon costs an event id and an insertion id (the sentinel), so in a split run everything created later carries
   shifted ids.  In Python an event is an opaque object; in Kernel/Model.v it is a number, and an automaton [prog] is an
   arbitrary Coq function that could compute with that number.  Transparency of numeric horizons therefore holds for -- and is
   stated for -- the automata that treat event ids as opaque tokens:

     ren_val f v / ren_outcome / ren_call     apply the id map f to every event id in a value / outcome / API call
     vdom n v / odom / cdom                   every event id in it is below n (an id that has been allocated); [cdom] also
                                              excludes the one call whose answer shows the sentinel: CPeek (env.peek())
     agree n f f'                             f and f' coincide below n
     frel S f n fr fr'                        fr' is fr with ids renamed: same calls (renamed), continuations related for every
                                              answer, in every later world (more ids allocated, f extended)
     pbis pr f n a a'                         automaton states a and a' are bisimilar up to renaming, now and in every later world
     parametric pr                            renaming the argument of a new process renames the process
     parametric_codes codes                   every automaton of the table is parametric

   Programs compiled from scripts (Kernel/Script.v) are parametric: StopScript.v. *)
From Coq Require Import ZArith QArith List Bool Lia.
From ONL Require Import Kernel.Model.
Import ListNotations.

(* ------------------------------------------------------------------------------------------------ *)
(* renaming *)

Fixpoint ren_val (f : nat -> nat) (v : val) : val :=
  match v with
  | VNone => VNone
  | VInt z => VInt z
  | VNum x => VNum x
  | VEv e => VEv (f e)
  | VCond items => VCond ((fix go (l : list (evid * val)) : list (evid * val) :=
                             match l with [] => [] | (e, x) :: t => (f e, ren_val f x) :: go t end) items)
  | VList l => VList ((fix go (l : list val) : list val := match l with [] => [] | x :: t => ren_val f x :: go t end) l)
  | VExn c args => VExn c ((fix go (l : list val) : list val := match l with [] => [] | x :: t => ren_val f x :: go t end) args)
  end.

Definition ren_vals (f : nat -> nat) (l : list val) : list val := map (ren_val f) l.
Definition ren_items (f : nat -> nat) (l : list (evid * val)) : list (evid * val) :=
  map (fun p => (f (fst p), ren_val f (snd p))) l.

Lemma ren_val_list f l : ren_val f (VList l) = VList (ren_vals f l).
Proof. reflexivity. Qed.
Lemma ren_val_exn f c l : ren_val f (VExn c l) = VExn c (ren_vals f l).
Proof. reflexivity. Qed.
Lemma ren_val_cond f l : ren_val f (VCond l) = VCond (ren_items f l).
Proof. cbn [ren_val]. f_equal. induction l as [|[e x] t IH]; [reflexivity|]. unfold ren_items in *. cbn [map fst snd]. rewrite <- IH. reflexivity. Qed.

Fixpoint vdom (n : nat) (v : val) : bool :=
  match v with
  | VNone | VInt _ | VNum _ => true
  | VEv e => Nat.ltb e n
  | VCond items => (fix go (l : list (evid * val)) : bool :=
                      match l with [] => true | (e, x) :: t => Nat.ltb e n && vdom n x && go t end) items
  | VList l => (fix go (l : list val) : bool := match l with [] => true | x :: t => vdom n x && go t end) l
  | VExn _ args => (fix go (l : list val) : bool := match l with [] => true | x :: t => vdom n x && go t end) args
  end.

Definition vsdom (n : nat) (l : list val) : bool := forallb (vdom n) l.
Definition idom (n : nat) (l : list (evid * val)) : bool := forallb (fun p => Nat.ltb (fst p) n && vdom n (snd p)) l.

Lemma vdom_list n l : vdom n (VList l) = vsdom n l.
Proof. reflexivity. Qed.
Lemma vdom_exn n c l : vdom n (VExn c l) = vsdom n l.
Proof. reflexivity. Qed.
Lemma vdom_cond n l : vdom n (VCond l) = idom n l.
Proof. cbn [vdom]. induction l as [|[e x] t IH]; [reflexivity|]. unfold idom in *. cbn [forallb fst snd]. rewrite <- IH. reflexivity. Qed.

Definition ren_exn (f : nat -> nat) (x : exn) : exn := (fst x, ren_vals f (snd x)).
Definition xdom (n : nat) (x : exn) : bool := vsdom n (snd x).

Definition ren_outcome (f : nat -> nat) (o : outcome) : outcome :=
  match o with Ok v => Ok (ren_val f v) | Fail x => Fail (ren_exn f x) end.
Definition odom (n : nat) (o : outcome) : bool := match o with Ok v => vdom n v | Fail x => xdom n x end.

Definition ren_call (f : nat -> nat) (c : call) : call :=
  match c with
  | CTimeout d v => CTimeout d (ren_val f v)
  | CEvent => CEvent
  | CSucceed e v => CSucceed (f e) (ren_val f v)
  | CFail e x => CFail (f e) (ren_val f x)
  | CSpawn code arg => CSpawn code (ren_val f arg)
  | CInterrupt e cause => CInterrupt (f e) (ren_val f cause)
  | CAllOf es => CAllOf (map f es)
  | CAnyOf es => CAnyOf (map f es)
  | CProbe e n => CProbe (f e) n
  | CQuery q e => CQuery q (f e)
  | CNow => CNow
  | CPeek => CPeek
  | CLog v => CLog (ren_val f v)
  | CGetG g => CGetG g
  | CSetG g v => CSetG g (ren_val f v)
  end.

Definition esdom (n : nat) (es : list evid) : bool := forallb (fun e => Nat.ltb e n) es.

(* the calls a parametric program may make, with ids that exist; CPeek is excluded: peek() shows the sentinel *)
Definition cdom (n : nat) (c : call) : bool :=
  match c with
  | CTimeout _ v => vdom n v
  | CEvent => true
  | CSucceed e v => Nat.ltb e n && vdom n v
  | CFail e x => Nat.ltb e n && vdom n x
  | CSpawn _ arg => vdom n arg
  | CInterrupt e cause => Nat.ltb e n && vdom n cause
  | CAllOf es | CAnyOf es => esdom n es
  | CProbe e _ => Nat.ltb e n
  | CQuery _ e => Nat.ltb e n
  | CNow => true
  | CPeek => false
  | CLog v => vdom n v
  | CGetG _ => true
  | CSetG _ v => vdom n v
  end.

Definition agree (n : nat) (f f' : nat -> nat) : Prop := forall i, (i < n)%nat -> f i = f' i.
Definition inj (f : nat -> nat) : Prop := forall i j, f i = f j -> i = j.

Lemma agree_refl n f : agree n f f. Proof. intros i _. reflexivity. Qed.
Lemma agree_trans n n' f1 f2 f3 : (n <= n')%nat -> agree n f1 f2 -> agree n' f2 f3 -> agree n f1 f3.
Proof. intros L A B i Hi. rewrite (A i Hi). apply B. lia. Qed.
Lemma agree_le n n' f f' : (n <= n')%nat -> agree n' f f' -> agree n f f'.
Proof. intros L A i Hi. apply A. lia. Qed.

(* ---- monotonicity of domains, renaming depends on the map below the domain only ---- *)

Lemma val_ind' (P : val -> Prop) :
  P VNone -> (forall z, P (VInt z)) -> (forall x, P (VNum x)) -> (forall e, P (VEv e)) ->
  (forall items, Forall (fun p => P (snd p)) items -> P (VCond items)) ->
  (forall l, Forall P l -> P (VList l)) -> (forall c l, Forall P l -> P (VExn c l)) -> forall v, P v.
Proof.
  intros H1 H2 H3 H4 H5 H6 H7. fix IH 1. intros [|z|x|e|items|l|c l]; [exact H1|apply H2|apply H3|apply H4| | |].
  - apply H5. induction items as [|[e x] t IHt]; constructor; [apply IH|exact IHt].
  - apply H6. induction l as [|x t IHt]; constructor; [apply IH|exact IHt].
  - apply H7. induction l as [|x t IHt]; constructor; [apply IH|exact IHt].
Qed.

Lemma vdom_mono n n' v : (n <= n')%nat -> vdom n v = true -> vdom n' v = true.
Proof.
  intros L. induction v as [| | |e|items IH|l IH|c l IH] using val_ind'; try (intros; reflexivity).
  - cbn [vdom]. rewrite !Nat.ltb_lt. lia.
  - rewrite !vdom_cond. unfold idom. induction IH as [|[e x] t Hx _ IHt]; cbn [forallb fst snd]; [auto|].
    rewrite !andb_true_iff, !Nat.ltb_lt. intros [[A B] C]. cbn [snd] in Hx. repeat split; [lia|auto|auto].
  - rewrite !vdom_list. unfold vsdom. induction IH as [|x t Hx _ IHt]; cbn [forallb]; [auto|].
    rewrite !andb_true_iff. intros [A B]. split; auto.
  - rewrite !vdom_exn. unfold vsdom. induction IH as [|x t Hx _ IHt]; cbn [forallb]; [auto|].
    rewrite !andb_true_iff. intros [A B]. split; auto.
Qed.

Lemma vsdom_mono n n' l : (n <= n')%nat -> vsdom n l = true -> vsdom n' l = true.
Proof.
  intros L. unfold vsdom. induction l as [|x t IH]; cbn [forallb]; [auto|]. rewrite !andb_true_iff. intros [A B].
  split; [eapply vdom_mono; eassumption|auto].
Qed.

Lemma odom_mono n n' o : (n <= n')%nat -> odom n o = true -> odom n' o = true.
Proof. intros L. destruct o as [v|x]; cbn; [apply vdom_mono, L|apply vsdom_mono, L]. Qed.

Lemma ren_val_agree n f f' v : agree n f f' -> vdom n v = true -> ren_val f v = ren_val f' v.
Proof.
  intros A. induction v as [| | |e|items IH|l IH|c l IH] using val_ind'; try (intros; reflexivity).
  - cbn [vdom ren_val]. rewrite Nat.ltb_lt. intros H. now rewrite (A _ H).
  - rewrite vdom_cond, !ren_val_cond. unfold idom, ren_items. intros H. f_equal.
    induction IH as [|[e x] t Hx _ IHt]; cbn [forallb map fst snd] in *; [reflexivity|].
    rewrite !andb_true_iff, Nat.ltb_lt in H. destruct H as [[H1 H2] H3]. rewrite (A _ H1), (Hx H2), (IHt H3). reflexivity.
  - rewrite vdom_list, !ren_val_list. unfold vsdom, ren_vals. intros H. f_equal.
    induction IH as [|x t Hx _ IHt]; cbn [forallb map] in *; [reflexivity|].
    rewrite andb_true_iff in H. destruct H as [H1 H2]. now rewrite (Hx H1), (IHt H2).
  - rewrite vdom_exn, !ren_val_exn. unfold vsdom, ren_vals. intros H. f_equal.
    induction IH as [|x t Hx _ IHt]; cbn [forallb map] in *; [reflexivity|].
    rewrite andb_true_iff in H. destruct H as [H1 H2]. now rewrite (Hx H1), (IHt H2).
Qed.

Lemma ren_vals_agree n f f' l : agree n f f' -> vsdom n l = true -> ren_vals f l = ren_vals f' l.
Proof.
  intros A. unfold vsdom, ren_vals. induction l as [|x t IH]; cbn [forallb map]; [reflexivity|]. rewrite andb_true_iff. intros [H1 H2].
  now rewrite (ren_val_agree _ _ _ _ A H1), (IH H2).
Qed.

Lemma ren_outcome_agree n f f' o : agree n f f' -> odom n o = true -> ren_outcome f o = ren_outcome f' o.
Proof.
  intros A. destruct o as [v|[c l]]; unfold odom, xdom, ren_outcome, ren_exn; cbn [fst snd]; intros H.
  - now rewrite (ren_val_agree _ _ _ _ A H).
  - now rewrite (ren_vals_agree _ _ _ _ A H).
Qed.

(* ------------------------------------------------------------------------------------------------ *)
(* programs that treat event ids as opaque tokens *)

(* two code fragments of automaton pr that are each other's renaming: same calls with renamed arguments, and for every answer
   -- in every later world: more ids allocated, the id map extended -- related continuations; at a yield the suspended
   automaton states are related in the same sense for whatever they are resumed with.  Coinductive because a resumed
   automaton runs another fragment; only ever DEstructed by the simulation proof. *)
CoInductive fbis (pr : prog) : (nat -> nat) -> nat -> frag (St pr) -> frag (St pr) -> Prop :=
| fb_yield f n v a a' :
    vdom n v = true ->
    (forall f' n', agree n f f' -> (n <= n')%nat -> inj f' -> forall o, odom n' o = true ->
                   fbis pr f' n' (resume pr a o) (resume pr a' (ren_outcome f' o))) ->
    fbis pr f n (FYield v a) (FYield (ren_val f v) a')
| fb_ret f n v : vdom n v = true -> fbis pr f n (FRet v) (FRet (ren_val f v))
| fb_raise f n x : xdom n x = true -> fbis pr f n (FRaise x) (FRaise (ren_exn f x))
| fb_call f n c k k' :
    cdom n c = true ->
    (forall f' n', agree n f f' -> (n <= n')%nat -> inj f' -> forall o, odom n' o = true ->
                   fbis pr f' n' (k o) (k' (ren_outcome f' o))) ->
    fbis pr f n (FCall c k) (FCall (ren_call f c) k').

(* suspended automaton states *)
Definition pbis (pr : prog) (f : nat -> nat) (n : nat) (a a' : St pr) : Prop :=
  forall f' n', agree n f f' -> (n <= n')%nat -> inj f' -> forall o, odom n' o = true ->
                fbis pr f' n' (resume pr a o) (resume pr a' (ren_outcome f' o)).

Definition parametric (pr : prog) : Prop :=
  forall f n arg, inj f -> vdom n arg = true -> pbis pr f n (start pr arg) (start pr (ren_val f arg)).

Definition parametric_codes (codes : list prog) : Prop := forall pr, In pr codes -> parametric pr.

Lemma pbis_mono pr f n a a' f' n' : pbis pr f n a a' -> agree n f f' -> (n <= n')%nat -> pbis pr f' n' a a'.
Proof.
  intros H Ag L f'' n'' Ag' L' I o O. apply H; [eapply agree_trans; eassumption|lia|exact I|exact O].
Qed.

Lemma pbis_resume pr f n a a' o :
  pbis pr f n a a' -> inj f -> odom n o = true -> fbis pr f n (resume pr a o) (resume pr a' (ren_outcome f o)).
Proof. intros H I O. apply H; [apply agree_refl|lia|exact I|exact O]. Qed.

(* how to show that a program is parametric: an inductive (finite) version of the relation on fragments, over any relation S
   on automaton states that is closed under "resume" *)
Section Frel.
  Context {A : Type}.
  Variable S : (nat -> nat) -> nat -> A -> A -> Prop.

  Inductive frel (f : nat -> nat) (n : nat) : frag A -> frag A -> Prop :=
  | frel_yield v a a' : vdom n v = true -> S f n a a' -> frel f n (FYield v a) (FYield (ren_val f v) a')
  | frel_ret v : vdom n v = true -> frel f n (FRet v) (FRet (ren_val f v))
  | frel_raise x : xdom n x = true -> frel f n (FRaise x) (FRaise (ren_exn f x))
  | frel_call c k k' :
      cdom n c = true ->
      (forall f' n', agree n f f' -> (n <= n')%nat -> inj f' -> forall o, odom n' o = true ->
                     frel f' n' (k o) (k' (ren_outcome f' o))) ->
      frel f n (FCall c k) (FCall (ren_call f c) k').
End Frel.

Lemma frel_fbis pr (S : (nat -> nat) -> nat -> St pr -> St pr -> Prop) :
  (forall f n a a', S f n a a' -> forall f' n', agree n f f' -> (n <= n')%nat -> inj f' -> forall o, odom n' o = true ->
      frel S f' n' (resume pr a o) (resume pr a' (ren_outcome f' o))) ->
  forall f n fr fr', frel S f n fr fr' -> fbis pr f n fr fr'.
Proof.
  intros H. cofix CIH. intros f n fr fr' R. destruct R as [v a a' V Sa|v V|x X|c k k' C K].
  - constructor; [exact V|]. intros f' n' Ag L I o O. apply CIH. exact (H _ _ _ _ Sa f' n' Ag L I o O).
  - constructor; exact V.
  - constructor; exact X.
  - constructor; [exact C|]. intros f' n' Ag L I o O. apply CIH. exact (K f' n' Ag L I o O).
Qed.

Lemma parametric_intro pr (S : (nat -> nat) -> nat -> St pr -> St pr -> Prop) :
  (forall f n a a', S f n a a' -> forall f' n', agree n f f' -> (n <= n')%nat -> inj f' -> forall o, odom n' o = true ->
      frel S f' n' (resume pr a o) (resume pr a' (ren_outcome f' o))) ->
  (forall f n arg, inj f -> vdom n arg = true -> S f n (start pr arg) (start pr (ren_val f arg))) ->
  parametric pr.
Proof.
  intros H St0 f n arg I V f' n' Ag L I' o O. eapply frel_fbis; [exact H|]. exact (H _ _ _ _ (St0 f n arg I V) f' n' Ag L I' o O).
Qed.
