(* Bridging lemma (DESIGN 2.6, second tie) for Environment.run: the part before the loop and ONE iteration of
   `while True: self.step()` with its two handlers, as translated from the tree under test on every run
   (Gen/Extracted_run.v), are [run_prelude], one unfolding of [run_loop] and [run_empty] of the hand-written kernel model
   (Kernel/Model.v): run (S m) = the effects below, where FxLoopAgain is [run_loop m (S m)] on the state the step left.
   `until` is [UNone] / [UNum t] / [UEv e]; self.step() is the model's [step] (an exception other than StopSimulation /
   EmptySchedule escapes from inside it). *)
From Coq Require Import ZArith QArith List Bool Lia.
From ONL Require Import Kernel.Model Gen.Extracted_run.
Import ListNotations.

(* the loop part: one step, then the handlers or another round *)
Definition run_tail_fx (m : nat) (codes : list prog) (u : until) (s1 : state) (t : list run_fx) : option (state * result) :=
  match t with
  | FxStep :: t' =>
      let '(s2, r) := step (S m) codes s1 in
      match r, t' with
      | ROk, [FxLoopAgain] => Some (run_loop m (S m) codes u s2)
      | RStop v, [FxReturnStopValue] => Some (s2, RStop v)                     (* except StopSimulation: return exc.args[0] *)
      | REmpty, [FxReturnNone] => match u with UNone => Some (s2, ROk) | _ => None end
      | REmpty, [FxAssertUntriggered; FxRaiseNotTriggered] =>
          match u with UNone => None | _ => Some (s2, run_empty u s2) end
      | ROk, _ | RStop _, _ | REmpty, _ => None
      | _, _ => Some (s2, r)                                                  (* another exception escapes from step() *)
      end
  | _ => None
  end.

Definition run_fx_run (m : nat) (codes : list prog) (u : until) (s : state) (fx : list run_fx) : option (state * result) :=
  match u, fx with
  | UNum t, [FxRaiseUntilPast] => if Qle_bool t (now s) then Some (s, RRaise (kexn EValue M_until_past)) else None
  | UNum t, FxNewSentinel :: FxSentinelOk :: FxSentinelValueNone :: FxScheduleUrgent d :: FxAppendStop :: tl =>
      let '(e, s1) := new_event (mkEvent (Some []) (Some (Ok VNone)) false KSentinel) s in
      run_tail_fx m codes u (add_callback e CbStop (schedule e URGENT d s1)) tl
  | UEv e, [FxReturnUntilValue] =>
      match get_event e s with
      | Some ev => if is_processed ev
                   then Some (s, match raw_value ev with Some v => RStop v | None => RRaise (kexn EAttribute M_value_pending) end)
                   else None
      | None => None
      end
  | UEv e, FxAppendStop :: tl => run_tail_fx m codes u (add_callback e CbStop s) tl
  | UNone, tl => run_tail_fx m codes u s tl
  | _, _ => None
  end.

(* the observations, read off the model *)
Definition run_gen (m : nat) (codes : list prog) (u : until) (s : state) : list run_fx :=
  let after := match run_prelude u s with inr s1 => Some (snd (step (S m) codes s1)) | inl _ => None end in
  gen_Environment_run
    (match u with UNone => false | _ => true end)
    (match u with UEv _ => true | _ => false end)
    true
    (match u with UNum t => t | _ => 0 end) (match u with UNum t => t | _ => 0 end)
    (now s)
    (match u with UEv e => match get_event e s with Some ev => is_processed ev | None => false end | _ => false end)
    (match after with Some (RStop _) => true | _ => false end)
    (match after with Some REmpty => true | _ => false end).

Lemma bridge_run m codes u s :
  (forall e, u = UEv e -> get_event e s <> None) ->
  run_fx_run m codes u s (run_gen m codes u s) = Some (run (S m) codes u s).
Proof.
  intros Hev. unfold run_gen, run_fx_run, run, gen_Environment_run, run_prelude.
  destruct u as [|t|e]; cbn [negb].
  - (* until = None *)
    unfold run_tail_fx. cbn [run_loop]. destruct (step (S m) codes s) as [s2 r]. cbn [snd].
    destruct r; reflexivity.
  - (* until = number *)
    destruct (Qle_bool t (now s)) eqn:EQ; [rewrite ?EQ; reflexivity|].
    destruct (new_event (mkEvent (Some []) (Some (Ok VNone)) false KSentinel) s) as [e s1] eqn:EN.
    unfold run_tail_fx. cbn [run_loop].
    destruct (step (S m) codes (add_callback e CbStop (schedule e URGENT (t - now s) s1))) as [s2 r] eqn:ES. cbn [snd].
    destruct r; rewrite ?EN, ?ES; reflexivity.
  - (* until = event *)
    destruct (get_event e s) as [ev|] eqn:EG; [|exfalso; exact (Hev e eq_refl EG)].
    destruct (is_processed ev) eqn:EP; [rewrite ?EG, ?EP; reflexivity|].
    unfold run_tail_fx. cbn [run_loop].
    destruct (step (S m) codes (add_callback e CbStop s)) as [s2 r] eqn:ES. cbn [snd].
    destruct r; rewrite ?ES; reflexivity.
Qed.

(* ---- non-vacuity witness: an event triggered with 7, run(until=that event); and run(until=3) / run(until=0) at time 0 -- *)
Definition ex_run_state : state := fst (call_succeed 0%nat (VInt 7) (fst (call_event (init_state 0)))).

Lemma ex_run :
  (forall e, UEv 0%nat = UEv e -> get_event e ex_run_state <> None) /\
  run_fx_run 1 [] (UEv 0%nat) ex_run_state (run_gen 1 [] (UEv 0%nat) ex_run_state) = Some (run 2 [] (UEv 0%nat) ex_run_state) /\
  snd (run 2 [] (UEv 0%nat) ex_run_state) = RStop (VInt 7) /\
  (* a number: the run returns with now == t; t <= now is refused *)
  snd (run 2 [] (UNum (3 # 1)) (init_state 0)) = RStop VNone /\
  Qeq_bool (now (fst (run 2 [] (UNum (3 # 1)) (init_state 0)))) (3 # 1) = true /\
  snd (run 2 [] (UNum 0) (init_state 0)) = RRaise (kexn EValue M_until_past).
Proof.
  split; [intros e H; injection H as <-; vm_compute; discriminate|].
  split; [apply bridge_run; intros e H; injection H as <-; vm_compute; discriminate|].
  repeat split; vm_compute; reflexivity.
Qed.
