(* Kernel/DeliverVal.v -- C02, part 5: the outcome of an event does not change between its trigger and its delivery, and
   callbacks do not move the clock.

     stable_kind k           every kind of event except Process events (the generator's end sets their outcome, unguarded: a
                             Process event succeeded by hand is re-triggered) and conditions (_build_value replaces the
                             placeholder None by the ConditionValue in the condition's own first callback)
     vgrows s s'             events of s still exist in s', same kind, and a stable event that had an outcome has the same
     vx s s'                 vgrows /\ now s' = now s         (everything below step())
     value_stable            along every execution from an initial state
     value_stable_in_loop    and between the callbacks of one step *)
From Coq Require Import ZArith QArith List Bool Lia.
From ONL Require Import Kernel.Model Kernel.Keys Kernel.Deliver Kernel.DeliverWf.
Import ListNotations.
Local Open Scope nat_scope.

Definition stable_kind (k : ekind) : bool := match k with KProcess _ | KCond _ _ _ => false | _ => true end.

Lemma ksame_stable k k' : ksame k k' -> stable_kind k' = stable_kind k.
Proof. destruct k; cbn; try (intros <-; reflexivity). destruct k'; try contradiction. reflexivity. Qed.

Record vle (ev ev' : event) : Prop := mkVle {
  v_kind : ksame (kind ev) (kind ev');
  v_out : stable_kind (kind ev) = true -> out ev <> None -> out ev' = out ev }.

Lemma vle_refl ev : vle ev ev.
Proof. constructor; [apply ksame_refl|reflexivity]. Qed.

Lemma vle_trans a b c : vle a b -> vle b c -> vle a c.
Proof.
  intros [K1 O1] [K2 O2]. constructor; [eapply ksame_trans; eassumption|].
  intros S N. rewrite <- (O1 S N). apply O2; [rewrite (ksame_stable _ _ K1); exact S|rewrite (O1 S N); exact N].
Qed.

Definition vgrows (s s' : state) : Prop :=
  forall e ev, get_event e s = Some ev -> exists ev', get_event e s' = Some ev' /\ vle ev ev'.

Definition vx (s s' : state) : Prop := now s' = now s /\ vgrows s s'.

Lemma vgrows_refl s : vgrows s s.
Proof. intros e ev H. exists ev. split; [exact H|apply vle_refl]. Qed.

Lemma vgrows_trans s1 s2 s3 : vgrows s1 s2 -> vgrows s2 s3 -> vgrows s1 s3.
Proof.
  intros H1 H2 e ev H. destruct (H1 _ _ H) as (ev2 & G2 & L2). destruct (H2 _ _ G2) as (ev3 & G3 & L3).
  exists ev3. split; [exact G3|eapply vle_trans; eassumption].
Qed.

Lemma vx_refl s : vx s s.
Proof. split; [reflexivity|apply vgrows_refl]. Qed.

Lemma vx_trans s1 s2 s3 : vx s1 s2 -> vx s2 s3 -> vx s1 s3.
Proof. intros [N1 G1] [N2 G2]. split; [congruence|eapply vgrows_trans; eassumption]. Qed.

Lemma vx_same s s' : events s' = events s -> now s' = now s -> vx s s'.
Proof.
  intros E N. split; [exact N|]. intros e ev H. exists ev. unfold get_event in *. rewrite E. split; [exact H|apply vle_refl].
Qed.

Lemma vx_upd_event e f s : (forall ev, get_event e s = Some ev -> vle ev (f ev)) -> vx s (upd_event e f s).
Proof.
  intros Hf. split; [reflexivity|]. intros x ev H. rewrite get_upd_event. destruct (Nat.eqb x e) eqn:E.
  - apply Nat.eqb_eq in E. subst x. rewrite H. cbn. exists (f ev). split; [reflexivity|apply Hf, H].
  - exists ev. split; [exact H|apply vle_refl].
Qed.

Lemma vx_new_event ev s : vx s (snd (new_event ev s)).
Proof.
  split; [reflexivity|]. intros x ev0 H. exists ev0. split; [|apply vle_refl].
  rewrite get_new_event_old; [exact H|eapply get_event_lt, H].
Qed.

Lemma vx_schedule e p d s : vx s (schedule e p d s).
Proof. apply vx_same; reflexivity. Qed.

(* setters that do not touch outcome or kind *)
Lemma vx_set_defused e s : vx s (upd_event e ev_set_defused s).
Proof. apply vx_upd_event. intros ev _. constructor; [apply ksame_refl|reflexivity]. Qed.
Lemma vx_set_cbs e c s : vx s (upd_event e (ev_set_cbs c) s).
Proof. apply vx_upd_event. intros ev _. constructor; [apply ksame_refl|reflexivity]. Qed.
Lemma vx_add_callback e c s : vx s (add_callback e c s).
Proof.
  apply vx_upd_event. intros ev _. unfold ev_add_cb. destruct (cbs ev); [|apply vle_refl].
  constructor; [apply ksame_refl|reflexivity].
Qed.

(* the outcome may be set where there is none yet, or on a Process / condition event *)
Definition may_set (ev : event) : Prop := out ev = None \/ stable_kind (kind ev) = false.

Lemma vx_set_out e o s : (forall ev, get_event e s = Some ev -> may_set ev) -> vx s (upd_event e (ev_set_out o) s).
Proof.
  intros M. apply vx_upd_event. intros ev H. constructor; [apply ksame_refl|]. cbn.
  intros S N. destruct (M ev H) as [O|K]; [contradiction|congruence].
Qed.

Lemma vx_trigger e o s : (forall ev, get_event e s = Some ev -> may_set ev) -> vx s (trigger_event e o s).
Proof. intros M. unfold trigger_event. eapply vx_trans; [apply vx_set_out, M|apply vx_schedule]. Qed.

Lemma may_set_after s s' e ev0 :
  vgrows s s' -> get_event e s = Some ev0 -> stable_kind (kind ev0) = false ->
  forall ev, get_event e s' = Some ev -> may_set ev.
Proof.
  intros G H K ev H'. destruct (G _ _ H) as (ev' & G' & Le). rewrite H' in G'. injection G' as <-.
  right. rewrite (ksame_stable _ _ (v_kind _ _ Le)). exact K.
Qed.

Lemma vx_cond_check c op s : vx s (cond_check c op s).
Proof.
  unfold cond_check.
  destruct (get_event c s) as [cev|] eqn:Hc; [|apply vx_refl].
  destruct (get_event op s) as [oev|]; [|apply vx_refl].
  destruct (out cev); [apply vx_refl|].
  destruct (kind cev) as [| | | | |all ops count|] eqn:Kc; try apply vx_refl.
  assert (E1 : vx s (upd_event c (ev_set_kind (KCond all ops (S count))) s)).
  { apply vx_upd_event. intros ev Hev. rewrite Hc in Hev. injection Hev as <-.
    constructor; cbn; [rewrite Kc; cbn; auto|rewrite Kc; discriminate]. }
  assert (Kc' : stable_kind (kind cev) = false) by (rewrite Kc; reflexivity).
  destruct (out oev) as [[v|x]|].
  - destruct (cond_evaluate all (length ops) (S count)); [|exact E1].
    eapply vx_trans; [exact E1|]. apply vx_trigger. eapply may_set_after; [apply E1|exact Hc|exact Kc'].
  - assert (E2 : vx s (upd_event op ev_set_defused (upd_event c (ev_set_kind (KCond all ops (S count))) s)))
      by (eapply vx_trans; [exact E1|apply vx_set_defused]).
    eapply vx_trans; [exact E2|]. apply vx_trigger. eapply may_set_after; [apply E2|exact Hc|exact Kc'].
  - destruct (cond_evaluate all (length ops) (S count)); [|exact E1].
    eapply vx_trans; [exact E1|]. apply vx_trigger. eapply may_set_after; [apply E1|exact Hc|exact Kc'].
Qed.

Lemma vx_remove_check_from c o s : vx s (remove_check_from c o s).
Proof.
  unfold remove_check_from. destruct (get_event o s) as [oev|]; [|apply vx_refl].
  destruct (cbs oev) as [l|]; [|apply vx_refl]. destruct (mem_cb (CbCheck c) l); [apply vx_set_cbs|apply vx_refl].
Qed.

Lemma vx_remove_ops rec c :
  (forall o s s', rec o s = Some s' -> vx s s') ->
  forall l s s', remove_ops rec c l s = Some s' -> vx s s'.
Proof.
  intros Hrec. induction l as [|o t IH]; intros s s'; cbn [remove_ops].
  - intros H; injection H as <-. apply vx_refl.
  - destruct (get_event o s) as [oev|]; [|discriminate].
    destruct (is_cond oev).
    + destruct (rec o (remove_check_from c o s)) as [s2|] eqn:R; [|discriminate]. intros H.
      eapply vx_trans; [apply vx_remove_check_from|]. eapply vx_trans; [eapply Hrec, R|]. apply IH, H.
    + intros H. eapply vx_trans; [apply vx_remove_check_from|]. apply IH, H.
Qed.

Lemma vx_remove_checks fuel : forall c s s', remove_checks fuel c s = Some s' -> vx s s'.
Proof.
  induction fuel as [|f IH]; intros c s s'; cbn [remove_checks]; [discriminate|].
  destruct (get_event c s) as [cev|]; [|discriminate].
  destruct (kind cev); try (intros H; injection H as <-; apply vx_refl).
  apply vx_remove_ops. exact IH.
Qed.

Lemma vx_cond_build c s : vx s (fst (cond_build c s)).
Proof.
  unfold cond_build. destruct (remove_checks (S c) c s) as [s1|] eqn:R; [|apply vx_refl].
  pose proof (vx_remove_checks _ _ _ _ R) as E1.
  destruct (get_event c s1) as [cev|] eqn:Hc; [|exact E1].
  destruct (out cev) as [[v|x]|]; try exact E1.
  destruct (kind cev) eqn:Kc; try exact E1.
  destruct (populate (S c) (events s1) ops); [|exact E1].
  cbn [fst]. eapply vx_trans; [exact E1|]. apply vx_set_out. intros ev Hev. rewrite Hc in Hev. injection Hev as <-.
  right. rewrite Kc. reflexivity.
Qed.

Lemma vx_cond_subscribe c ops : forall s, vx s (cond_subscribe c ops s).
Proof.
  induction ops as [|o t IH]; intros s; cbn [cond_subscribe]; [apply vx_refl|].
  eapply vx_trans; [|apply IH].
  destruct (get_event o s) as [oev|]; [|apply vx_refl].
  destruct (is_processed oev); [apply vx_cond_check|apply vx_add_callback].
Qed.

Lemma vx_do_call codes c s : vx s (fst (do_call codes c s)).
Proof.
  destruct c; cbn [do_call].
  - unfold call_timeout. destruct (neg_delay d); [apply vx_refl|]. unfold new_event. cbn [fst].
    eapply vx_trans; [apply (vx_new_event (mkEvent (Some []) (Some (Ok v)) false KTimeout))|apply vx_schedule].
  - unfold call_event, new_event. cbn [fst]. apply (vx_new_event (mkEvent (Some []) None false KPlain)).
  - unfold call_succeed. destruct (get_event e s) as [ev|] eqn:H; [|apply vx_refl].
    unfold is_triggered. destruct (out ev) eqn:O; [apply vx_refl|]. cbn [fst].
    apply vx_trigger. intros ev0 H0. rewrite H in H0. injection H0 as <-. left. exact O.
  - unfold call_fail. destruct (get_event e s) as [ev|] eqn:H; [|apply vx_refl].
    unfold is_triggered. destruct (out ev) eqn:O; [apply vx_refl|]. destruct x; try apply vx_refl. cbn [fst].
    apply vx_trigger. intros ev0 H0. rewrite H in H0. injection H0 as <-. left. exact O.
  - unfold call_spawn, new_event. destruct (nth_error codes code) as [pr|]; [|apply vx_refl]. cbn [fst].
    set (EV1 := mkEvent (Some []) None false (KProcess (length (procs s)))).
    set (EV2 := mkEvent (Some [CbResume (length (procs s))]) (Some (Ok VNone)) false (KInit (length (procs s)))).
    eapply vx_trans; [apply (vx_new_event EV1)|]. eapply vx_trans; [apply (vx_new_event EV2)|].
    apply vx_same; reflexivity.
  - unfold call_interrupt. destruct (get_event e s) as [ev|]; [|apply vx_refl].
    destruct (kind ev); try apply vx_refl. destruct (is_triggered ev); [apply vx_refl|].
    destruct (match active s with Some a => Nat.eqb a p | None => false end); [apply vx_refl|].
    unfold new_event. cbn [fst].
    eapply vx_trans; [apply (vx_new_event (mkEvent (Some [CbInterrupt (length (events s))]) (Some (Fail (EInterrupt, [cause]))) true (KInterruption p)))|apply vx_schedule].
  - unfold call_cond. destruct (negb (all_valid es s)); [apply vx_refl|]. unfold new_event.
    set (EV := mkEvent (Some []) None false (KCond true es 0)).
    destruct es as [|e0 es']; cbn [fst].
    + eapply vx_trans; [apply (vx_new_event EV)|]. apply vx_trigger. intros ev H.
      change (get_event (length (events s)) (snd (new_event EV s)) = Some ev) in H. rewrite get_new_event_new in H.
      injection H as <-. left. reflexivity.
    + eapply vx_trans; [apply (vx_new_event EV)|]. eapply vx_trans; [apply vx_cond_subscribe|apply vx_add_callback].
  - unfold call_cond. destruct (negb (all_valid es s)); [apply vx_refl|]. unfold new_event.
    set (EV := mkEvent (Some []) None false (KCond false es 0)).
    destruct es as [|e0 es']; cbn [fst].
    + eapply vx_trans; [apply (vx_new_event EV)|]. apply vx_trigger. intros ev H.
      change (get_event (length (events s)) (snd (new_event EV s)) = Some ev) in H. rewrite get_new_event_new in H.
      injection H as <-. left. reflexivity.
    + eapply vx_trans; [apply (vx_new_event EV)|]. eapply vx_trans; [apply vx_cond_subscribe|apply vx_add_callback].
  - unfold call_probe. destruct (get_event e s) as [ev|]; [|apply vx_refl].
    destruct (is_processed ev); [apply vx_refl|apply vx_add_callback].
  - rewrite call_query_state. apply vx_refl.
  - apply vx_refl.
  - apply vx_refl.
  - apply vx_same; reflexivity.
  - apply vx_refl.
  - apply vx_same; reflexivity.
Qed.

Lemma vx_run_frag {A} codes (f : frag A) : forall s, vx s (fst (run_frag codes f s)).
Proof.
  induction f as [v a|v|x|c k IH]; intros s; cbn [run_frag fst]; try apply vx_refl.
  pose proof (vx_do_call codes c s) as X. destruct (do_call codes c s) as [s1 o]. cbn [fst] in X.
  eapply vx_trans; [exact X|apply IH].
Qed.

Lemma vx_feed_state e o s : vx s (feed_state e o s).
Proof. destruct o; cbn; [apply vx_refl|apply vx_set_defused]. Qed.

Lemma pev_ok_may_set s pr : pev_ok s pr -> forall ev, get_event (pev pr) s = Some ev -> may_set ev.
Proof.
  intros (pe & H & K) ev H'. rewrite H in H'. injection H' as <-. right. destruct (kind pe); try discriminate. reflexivity.
Qed.

Lemma vx_proc_finish p pr o s : pev_ok s pr -> vx s (proc_finish p pr o s).
Proof.
  intros L. unfold proc_finish. eapply vx_trans; [apply vx_trigger, pev_ok_may_set, L|]. apply vx_same; reflexivity.
Qed.

Lemma vx_proc_wait p e s : vx s (proc_wait p e s).
Proof. unfold proc_wait. eapply vx_trans; [apply vx_add_callback|apply vx_same; reflexivity]. Qed.

Lemma vx_resume_loop codes fuel : forall p e s, uinv s -> vx s (fst (resume_loop fuel codes p e s)).
Proof.
  induction fuel as [|f IH]; intros p e s U; cbn [resume_loop]; [apply vx_refl|].
  destruct (get_event e s) as [ev|]; [|apply vx_refl].
  destruct (get_proc p s) as [pr|] eqn:P; [|apply vx_refl].
  destruct (out ev) as [o|]; [|apply vx_refl].
  pose proof (proj2 U p pr P) as L.
  fold (feed_state e o s).
  pose proof (uinv_run_frag codes (resume (pcode pr) (pst pr) o) _ (uinv_feed_state e o s U)) as U2.
  pose proof (grows_run_frag codes (resume (pcode pr) (pst pr) o) (feed_state e o s)) as G2.
  pose proof (vx_run_frag codes (resume (pcode pr) (pst pr) o) (feed_state e o s)) as V2.
  destruct (run_frag codes (resume (pcode pr) (pst pr) o) (feed_state e o s)) as [s2 r]. cbn [fst] in *.
  assert (L2 : pev_ok s2 pr).
  { eapply pev_ok_grows; [exact G2|]. eapply pev_ok_grows; [apply grows_feed_state|exact L]. }
  eapply vx_trans; [eapply vx_trans; [apply vx_feed_state|exact V2]|].
  destruct r as [v a|v|x].
  - assert (U3 : uinv (put_proc p (proc_set_st pr a) s2)) by (apply uinv_put_proc; [exact L2|exact U2]).
    assert (V3 : vx s2 (put_proc p (proc_set_st pr a) s2)) by (apply vx_same; reflexivity).
    destruct v; try exact V3.
    destruct (get_event e0 (put_proc p (proc_set_st pr a) s2)) as [ev'|]; [|exact V3].
    destruct (is_processed ev').
    + eapply vx_trans; [exact V3|apply IH, U3].
    + cbn [fst]. eapply vx_trans; [exact V3|apply vx_proc_wait].
  - cbn [fst]. apply vx_proc_finish, L2.
  - cbn [fst]. apply vx_proc_finish, L2.
Qed.

Lemma vx_resume_proc fuel codes p e s : uinv s -> vx s (fst (resume_proc fuel codes p e s)).
Proof.
  intros U. unfold resume_proc. eapply vx_trans; [|apply vx_resume_loop, uinv_set_active, U]. apply vx_same; reflexivity.
Qed.

Lemma vx_do_interruption fuel codes i s : uinv s -> vx s (fst (do_interruption fuel codes i s)).
Proof.
  intros U. unfold do_interruption.
  destruct (get_event i s) as [iev|]; [|apply vx_refl].
  destruct (kind iev); try apply vx_refl.
  destruct (get_proc p s) as [pr|]; [|apply vx_refl].
  destruct (get_event (pev pr) s) as [pe|]; [|apply vx_refl].
  destruct (is_triggered pe); [apply vx_refl|].
  destruct (ptarget pr) as [t|]; [|apply vx_refl].
  destruct (get_event t s) as [tev|] eqn:Ht; [|apply vx_refl].
  destruct (cbs tev) as [l|] eqn:C; [|apply vx_refl].
  destruct (mem_cb (CbResume p) l); [|apply vx_refl].
  eapply vx_trans; [apply vx_set_cbs|]. apply vx_resume_proc.
  apply uinv_frame with (s := s); try reflexivity; [|exact U].
  apply grows_set_cbs. intros _ ev Hev. rewrite Ht in Hev. injection Hev as <-. congruence.
Qed.

Lemma vx_run_cb fuel codes e c s : uinv s -> vx s (fst (run_cb fuel codes e c s)).
Proof.
  intros U. destruct c; cbn [run_cb fst].
  - apply vx_resume_proc, U.
  - apply vx_cond_check.
  - apply vx_cond_build.
  - apply vx_do_interruption, U.
  - rewrite stop_cb_state. apply vx_refl.
  - apply vx_same; reflexivity.
Qed.

Lemma vx_run_callbacks fuel codes e l : forall s, uinv s -> vx s (fst (run_callbacks fuel codes e l s)).
Proof.
  intros s U. apply (run_callbacks_rel fuel codes e uinv vx vx_refl vx_trans); [|exact U].
  intros c s0 U0. split; [apply vx_run_cb, U0|apply uinv_run_cb, U0].
Qed.

Lemma vx_cb_chain fuel codes e l s s' : cb_chain fuel codes e l s s' -> uinv s -> vx s s'.
Proof.
  induction 1 as [s|c t s s1 r s' R _ _ IH]; intros U; [apply vx_refl|].
  pose proof (vx_run_cb fuel codes e c s U) as X. pose proof (uinv_run_cb fuel codes e c s U) as U1.
  rewrite R in X, U1. cbn [fst] in X, U1. eapply vx_trans; [exact X|apply IH, U1].
Qed.

Lemma vgrows_loop_start m rest s : vgrows s (loop_start m rest s).
Proof.
  unfold loop_start. eapply vgrows_trans; [|apply vx_set_cbs].
  intros e ev H. exists ev. split; [exact H|apply vle_refl].
Qed.

Lemma now_loop_start m rest s : now (loop_start m rest s) = e_time m.
Proof. reflexivity. Qed.

Lemma vgrows_step fuel codes s : uinv s -> vgrows s (fst (step fuel codes s)).
Proof.
  intros U. unfold step. destruct (pop_min (agenda s)) as [[m rest]|] eqn:P; [|apply vgrows_refl].
  assert (G0 : vgrows s (pop_state m rest s)) by (intros e ev H; exists ev; split; [exact H|apply vle_refl]).
  destruct (get_event (e_ev m) (pop_state m rest s)) as [ev|]; [|exact G0].
  destruct (cbs ev) as [l|]; [|exact G0].
  fold (loop_start m rest s).
  pose proof (vx_run_callbacks fuel codes (e_ev m) l _ (uinv_loop_start m rest s P U)) as X.
  destruct (run_callbacks fuel codes (e_ev m) l (loop_start m rest s)) as [s2 r2]. cbn [fst] in X.
  assert (G : vgrows s s2) by (eapply vgrows_trans; [apply vgrows_loop_start|apply X]).
  destruct r2; exact G.
Qed.

Lemma vgrows_run_prelude u s s1 : run_prelude u s = inr s1 -> vgrows s s1.
Proof.
  destruct u as [|t|e]; cbn [run_prelude].
  - intros H; injection H as <-. apply vgrows_refl.
  - destruct (Qle_bool t (now s)); [discriminate|]. unfold new_event.
    intros H; injection H as <-.
    eapply vgrows_trans; [apply (vx_new_event (mkEvent (Some []) (Some (Ok VNone)) false KSentinel))|].
    eapply vgrows_trans; [apply vx_schedule|apply vx_add_callback].
  - destruct (get_event e s) as [ev|]; [|discriminate].
    destruct (is_processed ev); [discriminate|]. intros H; injection H as <-. apply vx_add_callback.
Qed.

Lemma vgrows_run_loop fuel codes u : forall n s, uinv s -> vgrows s (fst (run_loop n fuel codes u s)).
Proof.
  induction n as [|n IH]; intros s U; cbn [run_loop]; [apply vgrows_refl|].
  pose proof (vgrows_step fuel codes s U) as X. pose proof (uinv_step fuel codes s U) as U1.
  destruct (step fuel codes s) as [s1 r]. cbn [fst] in X, U1.
  destruct r; try exact X. eapply vgrows_trans; [exact X|apply IH, U1].
Qed.

Lemma vgrows_run fuel codes u s : uinv s -> vgrows s (fst (run fuel codes u s)).
Proof.
  intros U. unfold run. destruct (run_prelude u s) as [[s' r]|s1] eqn:P.
  - apply run_prelude_inl in P. subst s'. apply vgrows_refl.
  - eapply vgrows_trans; [eapply vgrows_run_prelude, P|]. apply vgrows_run_loop. eapply uinv_run_prelude; eauto.
Qed.

Lemma vgrows_later codes s s' : later codes s s' -> uinv s -> vgrows s s'.
Proof.
  induction 1 as [s|s s' A f L IH|s s' u s1 L IH P|s s' fuel L IH|s s' fuel u L IH]; intros U.
  - apply vgrows_refl.
  - eapply vgrows_trans; [apply IH, U|apply vx_run_frag].
  - eapply vgrows_trans; [apply IH, U|eapply vgrows_run_prelude, P].
  - eapply vgrows_trans; [apply IH, U|]. apply vgrows_step. eapply uinv_later; eauto.
  - eapply vgrows_trans; [apply IH, U|]. apply vgrows_run. eapply uinv_later; eauto.
Qed.

(* ------------------------------------------------------------------------------------------------ *)

(* the outcome a timeout / plain event / ... got when it was triggered is the outcome it has in every later state *)
Theorem value_stable codes t0 s s' e ev o :
  later codes (init_state t0) s -> later codes s s' ->
  get_event e s = Some ev -> stable_kind (kind ev) = true -> out ev = Some o ->
  exists ev', get_event e s' = Some ev' /\ out ev' = Some o.
Proof.
  intros L0 L H K O. pose proof (uinv_later _ _ _ L0 (uinv_init t0)) as U.
  destruct (vgrows_later _ _ _ L U _ _ H) as (ev' & H' & Le). exists ev'. split; [exact H'|].
  rewrite (v_out _ _ Le K); [exact O|congruence].
Qed.

(* ... also between the callbacks of the step that processes it (or any other event), and the clock stands still *)
Theorem value_stable_in_loop fuel codes t0 s m rest pre smid :
  later codes (init_state t0) s -> pop_min (agenda s) = Some (m, rest) ->
  cb_chain fuel codes (e_ev m) pre (loop_start m rest s) smid ->
  now smid = e_time m /\
  forall e ev o, get_event e s = Some ev -> stable_kind (kind ev) = true -> out ev = Some o ->
                 exists ev', get_event e smid = Some ev' /\ out ev' = Some o.
Proof.
  intros L0 P Ch. pose proof (uinv_later _ _ _ L0 (uinv_init t0)) as U.
  destruct (vx_cb_chain _ _ _ _ _ _ Ch (uinv_loop_start m rest s P U)) as [N G]. split; [rewrite N; reflexivity|].
  intros e ev o H K O. destruct (vgrows_trans _ _ _ (vgrows_loop_start m rest s) G _ _ H) as (ev' & H' & Le).
  exists ev'. split; [exact H'|]. rewrite (v_out _ _ Le K); [exact O|congruence].
Qed.
