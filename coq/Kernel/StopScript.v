(* Kernel/StopScript.v -- C03, part 11: the programs compiled from scripts (Kernel/Script.v: the families the correspondence
   check runs on the real kernel) are parametric, provided they do not call env.peek().  So the class of programs
   [split_transparent] speaks about contains every generated family of props/c03.py. *)
From Coq Require Import ZArith QArith List Bool Lia.
From ONL Require Import Kernel.Model Kernel.Script Kernel.StopRen Kernel.StopSimCalls.
Import ListNotations.
Local Open Scope nat_scope.

Fixpoint nopeek_i (i : instr) : bool :=
  match i with IPeek _ => false | IIfExn _ j | IIfOk _ j => nopeek_i j | _ => true end.
Definition nopeek (l : list instr) : bool := forallb nopeek_i l.

Definition ren_wait (f : nat -> nat) (w : option (Z * val * reg * ymode)) : option (Z * val * reg * ymode) :=
  match w with Some (lbl, yv, dst, m) => Some (lbl, ren_val f yv, dst, m) | None => None end.
Definition wait_dom (n : nat) (w : option (Z * val * reg * ymode)) : bool :=
  match w with Some (_, yv, _, _) => vdom n yv | None => true end.

Definition ren_sst (f : nat -> nat) (st : sst) : sst := mkSst (s_code st) (ren_vals f (s_regs st)) (ren_wait f (s_wait st)).
Definition sst_dom (n : nat) (st : sst) : bool := nopeek (s_code st) && vsdom n (s_regs st) && wait_dom n (s_wait st).

Definition SS (f : nat -> nat) (n : nat) (st st' : sst) : Prop := sst_dom n st = true /\ st' = ren_sst f st.

Notation FR := (frel SS).

(* continuations, related in every later world *)
Definition krel (f : nat -> nat) (n : nat) (k k' : list val -> F) : Prop :=
  forall f' n', agree n f f' -> n <= n' -> inj f' -> forall regs, vsdom n' regs = true -> FR f' n' (k regs) (k' (ren_vals f' regs)).
Definition vkrel (f : nat -> nat) (n : nat) (k k' : val -> F) : Prop :=
  forall f' n', agree n f f' -> n <= n' -> inj f' -> forall v, vdom n' v = true -> FR f' n' (k v) (k' (ren_val f' v)).

Lemma krel_mono f n f1 n1 k k' : krel f n k k' -> agree n f f1 -> n <= n1 -> krel f1 n1 k k'.
Proof. intros H A L f' n' A' L' I regs D. apply H; [eapply agree_trans; eassumption|lia|exact I|exact D]. Qed.

Lemma krel_here f n k k' regs : krel f n k k' -> inj f -> vsdom n regs = true -> FR f n (k regs) (k' (ren_vals f regs)).
Proof. intros H I D. apply H; [apply agree_refl|lia|exact I|exact D]. Qed.

Lemma log_rel f n v kk kk' :
  vdom n v = true ->
  (forall f' n', agree n f f' -> n <= n' -> inj f' -> FR f' n' kk kk') ->
  FR f n (log v kk) (log (ren_val f v) kk').
Proof.
  intros D H. unfold log. change (CLog (ren_val f v)) with (ren_call f (CLog v)). constructor; [exact D|].
  intros f' n' A L I o _. apply H; assumption.
Qed.

Lemma okv_ren f o : okv (ren_outcome f o) = ren_val f (okv o).
Proof. destruct o as [v|[c l]]; reflexivity. Qed.

Lemma okv_dom n o : odom n o = true -> vdom n (okv o) = true.
Proof. destruct o as [v|[c l]]; cbn; auto. Qed.

Lemma read_reg_rel f n r regs k k' :
  inj f -> vsdom n regs = true -> vkrel f n k k' -> FR f n (read_reg r regs k) (read_reg r (ren_vals f regs) k').
Proof.
  intros I D H. destruct r as [i|g]; cbn [read_reg].
  - rewrite nth_ren. apply H; [apply agree_refl|lia|exact I|apply nth_dom, D].
  - change (CGetG g) with (ren_call f (CGetG g)) at 2. constructor; [reflexivity|].
    intros f' n' A L I' o O. rewrite okv_ren. apply H; [exact A|exact L|exact I'|apply okv_dom, O].
Qed.

Lemma write_reg_rel f n r v regs k k' :
  inj f -> vdom n v = true -> vsdom n regs = true -> krel f n k k' ->
  FR f n (write_reg r v regs k) (write_reg r (ren_val f v) (ren_vals f regs) k').
Proof.
  intros I Dv D H. destruct r as [i|g]; cbn [write_reg].
  - rewrite set_nth_val_ren. apply (krel_here _ _ _ _ _ H I). apply set_nth_val_dom; assumption.
  - change (CSetG g (ren_val f v)) with (ren_call f (CSetG g v)). constructor; [exact Dv|].
    intros f' n' A L I' o _. rewrite (ren_vals_agree _ _ _ _ A D). apply H; [exact A|exact L|exact I'|eapply vsdom_mono; eassumption].
Qed.

Lemma eval_rel f n x regs k k' :
  inj f -> vsdom n regs = true -> vkrel f n k k' -> FR f n (eval x regs k) (eval x (ren_vals f regs) k').
Proof.
  intros I D H. destruct x as [|z|r|tag arg]; cbn [eval].
  - apply (H f n (agree_refl _ _) (Nat.le_refl _) I VNone eq_refl).
  - apply (H f n (agree_refl _ _) (Nat.le_refl _) I (VInt z) eq_refl).
  - apply read_reg_rel; assumption.
  - apply (H f n (agree_refl _ _) (Nat.le_refl _) I (VExn (EUser tag) [VInt arg]) eq_refl).
Qed.

Lemma api_rel f n c dst regs k k' :
  inj f -> cdom n c = true -> vsdom n regs = true -> krel f n k k' ->
  FR f n (api c dst regs k) (api (ren_call f c) dst (ren_vals f regs) k').
Proof.
  intros I Dc D H. unfold api. constructor; [exact Dc|]. intros f' n' A L I' o O.
  rewrite (ren_vals_agree _ _ _ _ A D). pose proof (vsdom_mono _ _ _ L D) as D'. pose proof (krel_mono _ _ _ _ _ _ H A L) as H'.
  destruct o as [v|x]; cbn [ren_outcome].
  - destruct dst as [r|]; [apply write_reg_rel; assumption|apply (krel_here _ _ _ _ _ H' I' D')].
  - rewrite exn_val_ren. change (VList [VInt 2; ren_val f' (exn_val x)]) with (ren_val f' (VList [VInt 2; exn_val x])).
    apply log_rel.
    + cbn [vdom]. rewrite andb_true_r. destruct x as [cx lx]. exact O.
    + intros f2 n2 A2 L2 I2. rewrite (ren_vals_agree _ _ _ _ A2 D'). apply H'; [exact A2|exact L2|exact I2|eapply vsdom_mono; eassumption].
Qed.

Lemma get_ev_ren f v : get_ev (ren_val f v) = option_map f (get_ev v).
Proof. destruct v; reflexivity. Qed.

Lemma with_ev_rel f n r regs k k' body body' :
  inj f -> vsdom n regs = true -> krel f n k k' ->
  (forall f' n', agree n f f' -> n <= n' -> inj f' -> forall e, e < n' -> FR f' n' (body e) (body' (f' e))) ->
  FR f n (with_ev r regs k body) (with_ev r (ren_vals f regs) k' body').
Proof.
  intros I D H Hb. unfold with_ev. apply read_reg_rel; [exact I|exact D|].
  intros f' n' A L I' v Dv. rewrite get_ev_ren. destruct v; cbn [get_ev option_map];
    try (change (VList [VInt 4]) with (ren_val f' (VList [VInt 4])) at 2; apply log_rel; [reflexivity|];
         intros f2 n2 A2 L2 I2; rewrite (ren_vals_agree _ _ _ _ A D);
         rewrite (ren_vals_agree n' f' f2 regs A2 (vsdom_mono _ _ _ L D));
         apply H; [eapply agree_trans; eassumption|lia|exact I2|eapply vsdom_mono; [|exact D]; lia]).
  apply Hb; [exact A|exact L|exact I'|apply Nat.ltb_lt, Dv].
Qed.

Lemma all_evs_ren f vs : all_evs (ren_vals f vs) = option_map (map f) (all_evs vs).
Proof.
  induction vs as [|v t IH]; [reflexivity|]. cbn [ren_vals map all_evs]. fold (ren_vals f t). rewrite get_ev_ren, IH.
  destruct (get_ev v); cbn [option_map]; [|reflexivity]. destruct (all_evs t); reflexivity.
Qed.

Lemma all_evs_dom n vs l : vsdom n vs = true -> all_evs vs = Some l -> esdom n l = true.
Proof.
  revert l. induction vs as [|v t IH]; intros l D H; cbn [all_evs] in H.
  - injection H as <-. reflexivity.
  - unfold vsdom in D. cbn [forallb] in D. apply andb_true_iff in D. destruct D as [Dv Dt].
    destruct (get_ev v) as [e|] eqn:E; [|discriminate]. destruct (all_evs t) as [l0|]; [|discriminate]. injection H as <-.
    destruct v; try discriminate. injection E as <-. unfold esdom. cbn [forallb vdom] in *. rewrite Dv. exact (IH _ Dt eq_refl).
Qed.

Lemma read_regs_rel rs regs : forall f n k k',
  inj f -> vsdom n regs = true ->
  (forall f' n', agree n f f' -> n <= n' -> inj f' -> forall vs, vsdom n' vs = true -> FR f' n' (k vs) (k' (ren_vals f' vs))) ->
  FR f n (read_regs rs regs k) (read_regs rs (ren_vals f regs) k').
Proof.
  induction rs as [|r t IH]; intros f n k k' I D H; cbn [read_regs].
  - apply (H f n (agree_refl _ _) (Nat.le_refl _) I [] eq_refl).
  - apply read_reg_rel; [exact I|exact D|]. intros f' n' A L I' v Dv.
    rewrite (ren_vals_agree _ _ _ _ A D). apply IH; [exact I'|eapply vsdom_mono; eassumption|].
    intros f2 n2 A2 L2 I2 vs Dvs. rewrite (ren_val_agree _ _ _ _ A2 Dv).
    change (ren_val f2 v :: ren_vals f2 vs) with (ren_vals f2 (v :: vs)).
    apply H; [eapply agree_trans; eassumption|lia|exact I2|]. unfold vsdom. cbn [forallb]. rewrite (vdom_mono _ _ _ L2 Dv). exact Dvs.
Qed.

Lemma is_exn_ren f v : is_exn (ren_val f v) = is_exn v.
Proof. destruct v; reflexivity. Qed.

(* one instruction *)
Lemma exec_i_rel : forall i rest f nw regs k k',
  nopeek_i i = true -> nopeek rest = true -> inj f -> vsdom nw regs = true -> krel f nw k k' ->
  FR f nw (exec_i i rest regs k) (exec_i i rest (ren_vals f regs) k').
Proof.
  induction i; intros rest f nw regs k k' Np Nr I D H; cbn [exec_i nopeek_i] in *.
  - (* ITimeout *) apply eval_rel; [exact I|exact D|]. intros f' nw' A L I' v' Dv. rewrite (ren_vals_agree _ _ _ _ A D).
    change (CTimeout d (ren_val f' v')) with (ren_call f' (CTimeout d v')).
    apply api_rel; [exact I'|exact Dv|exact (vsdom_mono _ _ _ L D)|exact (krel_mono _ _ _ _ _ _ H A L)].
  - (* IEvent *) change CEvent with (ren_call f CEvent) at 2. apply api_rel; [exact I|reflexivity|exact D|exact H].
  - (* ISucceed *) apply with_ev_rel; [exact I|exact D|exact H|]. intros f' nw' A L I' e0 Le.
    rewrite (ren_vals_agree _ _ _ _ A D). apply eval_rel; [exact I'|exact (vsdom_mono _ _ _ L D)|].
    intros f2 n2 A2 L2 I2 v' Dv. rewrite (ren_vals_agree _ _ _ _ A2 (vsdom_mono _ _ _ L D)).
    assert (Le2 : e0 < nw') by exact Le. rewrite (A2 _ Le2).
    change (CSucceed (f2 e0) (ren_val f2 v')) with (ren_call f2 (CSucceed e0 v')).
    apply api_rel; [exact I2| |eapply vsdom_mono; [|exact D]; lia|eapply krel_mono; [exact H|eapply agree_trans; eassumption|lia]].
    cbn [cdom]. rewrite Dv, andb_true_r. apply Nat.ltb_lt. lia.
  - (* IFail *) apply with_ev_rel; [exact I|exact D|exact H|]. intros f' nw' A L I' e0 Le.
    rewrite (ren_vals_agree _ _ _ _ A D). apply eval_rel; [exact I'|exact (vsdom_mono _ _ _ L D)|].
    intros f2 n2 A2 L2 I2 v' Dv. rewrite (ren_vals_agree _ _ _ _ A2 (vsdom_mono _ _ _ L D)).
    assert (Le2 : e0 < nw') by exact Le. rewrite (A2 _ Le2).
    change (CFail (f2 e0) (ren_val f2 v')) with (ren_call f2 (CFail e0 v')).
    apply api_rel; [exact I2| |eapply vsdom_mono; [|exact D]; lia|eapply krel_mono; [exact H|eapply agree_trans; eassumption|lia]].
    cbn [cdom]. rewrite Dv, andb_true_r. apply Nat.ltb_lt. lia.
  - (* ISpawn *) apply eval_rel; [exact I|exact D|]. intros f' nw' A L I' v' Dv. rewrite (ren_vals_agree _ _ _ _ A D).
    change (CSpawn code (ren_val f' v')) with (ren_call f' (CSpawn code v')).
    apply api_rel; [exact I'|exact Dv|exact (vsdom_mono _ _ _ L D)|exact (krel_mono _ _ _ _ _ _ H A L)].
  - (* IInterrupt *) apply with_ev_rel; [exact I|exact D|exact H|]. intros f' nw' A L I' e0 Le.
    rewrite (ren_vals_agree _ _ _ _ A D). apply eval_rel; [exact I'|exact (vsdom_mono _ _ _ L D)|].
    intros f2 n2 A2 L2 I2 v' Dv. rewrite (ren_vals_agree _ _ _ _ A2 (vsdom_mono _ _ _ L D)).
    assert (Le2 : e0 < nw') by exact Le. rewrite (A2 _ Le2).
    change (CInterrupt (f2 e0) (ren_val f2 v')) with (ren_call f2 (CInterrupt e0 v')).
    apply api_rel; [exact I2| |eapply vsdom_mono; [|exact D]; lia|eapply krel_mono; [exact H|eapply agree_trans; eassumption|lia]].
    cbn [cdom]. rewrite Dv, andb_true_r. apply Nat.ltb_lt. lia.
  - (* ICond *) apply read_regs_rel; [exact I|exact D|]. intros f' nw' A L I' vs Dvs. rewrite all_evs_ren.
    rewrite (ren_vals_agree _ _ _ _ A D). pose proof (vsdom_mono _ _ _ L D) as D'. pose proof (krel_mono _ _ _ _ _ _ H A L) as H'.
    destruct (all_evs vs) as [l|] eqn:E; cbn [option_map].
    + pose proof (all_evs_dom _ _ _ Dvs E) as Dl.
      destruct all; [change (CAllOf (map f' l)) with (ren_call f' (CAllOf l))|change (CAnyOf (map f' l)) with (ren_call f' (CAnyOf l))];
        (apply api_rel; [exact I'|exact Dl|exact D'|exact H']).
    + change (VList [VInt 4]) with (ren_val f' (VList [VInt 4])) at 2. apply log_rel; [reflexivity|].
      intros f2 n2 A2 L2 I2. rewrite (ren_vals_agree _ _ _ _ A2 D'). apply H'; [exact A2|exact L2|exact I2|exact (vsdom_mono _ _ _ L2 D')].
  - (* IProbe *) apply with_ev_rel; [exact I|exact D|exact H|]. intros f' nw' A L I' e0 Le.
    rewrite (ren_vals_agree _ _ _ _ A D). change (CProbe (f' e0) n) with (ren_call f' (CProbe e0 n)).
    apply api_rel; [exact I'|apply Nat.ltb_lt, Le|exact (vsdom_mono _ _ _ L D)|exact (krel_mono _ _ _ _ _ _ H A L)].
  - (* IQuery *) apply with_ev_rel; [exact I|exact D|exact H|]. intros f' nw' A L I' e0 Le.
    rewrite (ren_vals_agree _ _ _ _ A D). change (CQuery q (f' e0)) with (ren_call f' (CQuery q e0)).
    apply api_rel; [exact I'|apply Nat.ltb_lt, Le|exact (vsdom_mono _ _ _ L D)|exact (krel_mono _ _ _ _ _ _ H A L)].
  - (* INow *) change CNow with (ren_call f CNow) at 2. apply api_rel; [exact I|reflexivity|exact D|exact H].
  - (* IPeek *) discriminate.
  - (* ISet *) apply eval_rel; [exact I|exact D|]. intros f' nw' A L I' v' Dv. rewrite (ren_vals_agree _ _ _ _ A D).
    apply write_reg_rel; [exact I'|exact Dv|exact (vsdom_mono _ _ _ L D)|exact (krel_mono _ _ _ _ _ _ H A L)].
  - (* ILog *) apply eval_rel; [exact I|exact D|]. intros f' nw' A L I' v' Dv. rewrite (ren_vals_agree _ _ _ _ A D).
    change (VList [VInt 3; ren_val f' v']) with (ren_val f' (VList [VInt 3; v'])). apply log_rel.
    + cbn [vdom]. now rewrite Dv.
    + intros f2 n2 A2 L2 I2. rewrite (ren_vals_agree _ _ _ _ A2 (vsdom_mono _ _ _ L D)).
      apply H; [eapply agree_trans; eassumption|lia|exact I2|eapply vsdom_mono; [|exact D]; lia].
  - (* IYield *) apply eval_rel; [exact I|exact D|]. intros f' nw' A L I' v' Dv. rewrite (ren_vals_agree _ _ _ _ A D).
    change (mkSst rest (ren_vals f' regs) (Some (lbl, ren_val f' v', dst, m))) with (ren_sst f' (mkSst rest regs (Some (lbl, v', dst, m)))).
    constructor; [exact Dv|]. split; [|reflexivity]. unfold sst_dom. cbn [s_code s_regs s_wait wait_dom].
    rewrite Nr, (vsdom_mono _ _ _ L D), Dv. reflexivity.
  - (* IReturn *) apply eval_rel; [exact I|exact D|]. intros f' nw' A L I' v' Dv. constructor. exact Dv.
  - (* IRaise *) apply eval_rel; [exact I|exact D|]. intros f' nw' A L I' x' Dx.
    destruct x'; cbn [ren_val]; try (change (kexn EType M_raise_non_exception) with (ren_exn f' (kexn EType M_raise_non_exception)) at 2; constructor; reflexivity).
    change (c, (fix go (l : list val) : list val := match l with [] => [] | x :: t => ren_val f' x :: go t end) args) with (ren_exn f' (c, args)).
    constructor. exact Dx.
  - (* IIfExn *) apply read_reg_rel; [exact I|exact D|]. intros f' nw' A L I' v Dv. rewrite is_exn_ren, (ren_vals_agree _ _ _ _ A D).
    destruct (is_exn v).
    + apply IHi; [exact Np|exact Nr|exact I'|exact (vsdom_mono _ _ _ L D)|exact (krel_mono _ _ _ _ _ _ H A L)].
    + apply (krel_here _ _ _ _ _ (krel_mono _ _ _ _ _ _ H A L) I'). exact (vsdom_mono _ _ _ L D).
  - (* IIfOk *) apply read_reg_rel; [exact I|exact D|]. intros f' nw' A L I' v Dv. rewrite is_exn_ren, (ren_vals_agree _ _ _ _ A D).
    destruct (is_exn v).
    + apply (krel_here _ _ _ _ _ (krel_mono _ _ _ _ _ _ H A L) I'). exact (vsdom_mono _ _ _ L D).
    + apply IHi; [exact Np|exact Nr|exact I'|exact (vsdom_mono _ _ _ L D)|exact (krel_mono _ _ _ _ _ _ H A L)].
Qed.

Lemma exec_rel : forall l f n regs,
  nopeek l = true -> inj f -> vsdom n regs = true -> FR f n (exec l regs) (exec l (ren_vals f regs)).
Proof.
  induction l as [|i rest IH]; intros f n regs Np I D; cbn [exec].
  - change (FRet VNone) with (@FRet sst (ren_val f VNone)) at 2. constructor. reflexivity.
  - unfold nopeek in Np. cbn [forallb] in Np. apply andb_true_iff in Np. destruct Np as [Ni Nr].
    apply exec_i_rel; [exact Ni|exact Nr|exact I|exact D|].
    intros f' n' A L I' regs' D'. apply IH; assumption.
Qed.

Lemma oval_ren f o : oval (ren_outcome f o) = ren_val f (oval o).
Proof. destruct o as [v|[c l]]; reflexivity. Qed.

Lemma oval_dom n o : odom n o = true -> vdom n (oval o) = true.
Proof.
  destruct o as [v|[c l]]; intros H.
  - change (vdom n v && true = true). cbn [odom] in H. now rewrite H.
  - change (vsdom n l && true = true). unfold odom, xdom in H. cbn [snd] in H. now rewrite H.
Qed.

Lemma script_resume_rel f n st o :
  inj f -> sst_dom n st = true -> odom n o = true ->
  FR f n (script_resume st o) (script_resume (ren_sst f st) (ren_outcome f o)).
Proof.
  intros I D O. unfold sst_dom in D. apply andb_true_iff in D. destruct D as [D Dw]. apply andb_true_iff in D. destruct D as [Np Dr].
  unfold script_resume. cbn [ren_sst s_wait s_code s_regs]. destruct (s_wait st) as [[[[lbl yv] dst] m]|]; cbn [ren_wait].
  - rewrite oval_ren. change (VList [VInt 1; VInt lbl; ren_val f (oval o)]) with (ren_val f (VList [VInt 1; VInt lbl; oval o])).
    apply log_rel; [cbn [vdom]; rewrite (oval_dom _ _ O); reflexivity|].
    intros f' n' A L I'. rewrite (ren_vals_agree _ _ _ _ A Dr). pose proof (vsdom_mono _ _ _ L Dr) as Dr'.
    assert (KE : krel f' n' (exec (s_code st)) (exec (s_code st))) by (intros f2 n2 A2 L2 I2 regs D2; apply exec_rel; assumption).
    cbn [wait_dom] in Dw.
    destruct o as [v|x]; cbn [ren_outcome].
    + rewrite (ren_val_agree _ _ _ _ A O). apply write_reg_rel; [exact I'|eapply vdom_mono; eassumption|exact Dr'|exact KE].
    + assert (Ox : xdom n' x = true) by (unfold xdom in *; eapply vsdom_mono; eassumption).
      assert (Ex : ren_exn f x = ren_exn f' x) by (unfold ren_exn; now rewrite (ren_vals_agree _ _ _ _ A O)).
      rewrite Ex. assert (W : FR f' n' (write_reg dst (exn_val x) (s_regs st) (exec (s_code st)))
                                  (write_reg dst (exn_val (ren_exn f' x)) (ren_vals f' (s_regs st)) (exec (s_code st)))).
      { rewrite exn_val_ren. apply write_reg_rel; [exact I'| |exact Dr'|exact KE]. destruct x as [cx lx]. exact Ox. }
      destruct m as [| |[|k]]; try exact W.
      * constructor. exact Ox.
      * unfold is_interrupt. cbn [ren_exn fst]. destruct (fst x); try exact W.
        rewrite (ren_val_agree _ _ _ _ A Dw).
        change (mkSst (s_code st) (ren_vals f' (s_regs st)) (Some (lbl, ren_val f' yv, dst, YRetry k)))
          with (ren_sst f' (mkSst (s_code st) (s_regs st) (Some (lbl, yv, dst, YRetry k)))).
        constructor; [eapply vdom_mono; eassumption|]. split; [|reflexivity]. unfold sst_dom. cbn [s_code s_regs s_wait wait_dom].
        rewrite Np, Dr', (vdom_mono _ _ _ L Dw). reflexivity.
  - change (VList [VInt 0]) with (ren_val f (VList [VInt 0])) at 2. apply log_rel; [reflexivity|].
    intros f' n' A L I'. rewrite (ren_vals_agree _ _ _ _ A Dr). apply exec_rel; [exact Np|exact I'|eapply vsdom_mono; eassumption].
Qed.

Lemma sst_dom_mono n n' st : n <= n' -> sst_dom n st = true -> sst_dom n' st = true.
Proof.
  intros L. unfold sst_dom. rewrite !andb_true_iff. intros [[A B] C]. split; [split; [exact A|eapply vsdom_mono; eassumption]|].
  destruct (s_wait st) as [[[[lbl yv] dst] m]|]; [|reflexivity]. cbn [wait_dom] in *. eapply vdom_mono; eassumption.
Qed.

Lemma ren_sst_agree n f f' st : agree n f f' -> sst_dom n st = true -> ren_sst f st = ren_sst f' st.
Proof.
  intros A. unfold sst_dom, ren_sst. rewrite !andb_true_iff. intros [[_ B] C]. rewrite (ren_vals_agree _ _ _ _ A B). f_equal.
  destruct (s_wait st) as [[[[lbl yv] dst] m]|]; [|reflexivity]. cbn [wait_dom ren_wait] in *. now rewrite (ren_val_agree _ _ _ _ A C).
Qed.

(* every script without env.peek() compiles to a parametric program *)
Theorem compile_parametric code : nopeek code = true -> parametric (compile code).
Proof.
  intros Np. apply (parametric_intro (compile code) SS).
  - intros f n st st' [D ->] f' n' A L I o O. cbn [compile resume].
    rewrite (ren_sst_agree _ _ _ _ A D). apply script_resume_rel; [exact I|eapply sst_dom_mono; eassumption|exact O].
  - intros f n arg I V. cbn [compile start]. split; [|reflexivity]. unfold sst_dom. cbn [s_code s_regs s_wait wait_dom vsdom forallb].
    rewrite Np, V. reflexivity.
Qed.

Lemma compile_parametric_codes scripts : forallb nopeek scripts = true -> parametric_codes (map compile scripts).
Proof.
  intros H pr Hin. apply in_map_iff in Hin. destruct Hin as (code & <- & Hc). apply compile_parametric.
  rewrite forallb_forall in H. apply H, Hc.
Qed.
