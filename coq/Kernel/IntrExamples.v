(* Kernel/IntrExamples.v -- concrete instances showing that the hypotheses of the C04 theorems (Kernel/Intr.v) are
   satisfiable on non-trivial reachable states.  Programs are written in the script language of Kernel/Script.v
   only for convenience.

   Family A: a victim sleeping 5 and an interrupter sleeping 1 that then interrupts it with cause 7.
   Family B: two processes sleeping the same delay 1; the first ends at t = 1, the second interrupts it at t = 1,
             before the termination event of the first has been processed (scenario "dead at the same instant"). *)
From Coq Require Import ZArith QArith List Bool Lia.
From ONL Require Import Kernel.Model Kernel.Keys Kernel.Script Kernel.IntrBase Kernel.IntrInv Kernel.IntrStep Kernel.Intr.
Import ListNotations.

Definition exA_victim : list instr :=
  [ITimeout (L 1) 5 XNone; IYield 1 (XReg (L 1)) (L 2) YCatch; IReturn XNone].
Definition exA_interrupter : list instr :=
  [ITimeout (L 1) 1 XNone; IYield 2 (XReg (L 1)) (L 2) YCatch; IInterrupt (G 0) (XInt 7)].
Definition ex_setup : list instr := [ISpawn (G 0) 0 XNone; ISpawn (G 1) 1 XNone].

Definition exA_codes : list prog := map compile [exA_victim; exA_interrupter].
Definition exA_s1 : state := fst (exec_top exA_codes (exec ex_setup []) (init_state 0)).
Definition exA_s2 : state := fst (step 10 exA_codes exA_s1).     (* Initialize of the victim *)
Definition exA_s3 : state := fst (step 10 exA_codes exA_s2).     (* Initialize of the interrupter *)
Definition exA_s4 : state := fst (step 10 exA_codes exA_s3).     (* timeout(1): the interrupter interrupts the victim *)
Definition exA_s5 : state := fst (step 10 exA_codes exA_s4).     (* the interruption is processed *)

Lemma exA_reach1 : reach exA_codes exA_s1.
Proof. apply reach_top, reach_init. Qed.
Lemma exA_reach2 : reach exA_codes exA_s2.
Proof. apply reach_step; [apply exA_reach1|]. vm_compute. exact I. Qed.
Lemma exA_reach3 : reach exA_codes exA_s3.
Proof. apply reach_step; [apply exA_reach2|]. vm_compute. exact I. Qed.
Lemma exA_reach4 : reach exA_codes exA_s4.
Proof. apply reach_step; [apply exA_reach3|]. vm_compute. exact I. Qed.
Lemma exA_reach5 : reach exA_codes exA_s5.
Proof. apply reach_step; [apply exA_reach4|]. vm_compute. exact I. Qed.

(* hypotheses of interrupt_accepted / later_issue_later_eid: in exA_s3 (a state between steps; module-level code
   interrupts the victim, event 0 = its Process event) *)
Example ex_interrupt_accepted :
  exists ev, get_event 0%nat exA_s3 = Some ev /\ kind ev = KProcess 0%nat /\ out ev = None /\ active exA_s3 <> Some 0%nat /\
             exists x, In x (agenda exA_s3).
Proof. eexists. split; [vm_compute; reflexivity|]. split; [reflexivity|]. split; [reflexivity|]. split; [vm_compute; discriminate|].
  eexists. vm_compute. left. reflexivity. Qed.

(* hypotheses of interruption_entry, interrupt_step, interrupt_delivery, init_before_interrupt, interrupt_before_normal:
   in exA_s4 the interruption (event 6) is the minimum of the agenda, the victim (process 0) is alive and waits for
   its timeout (event 4), whose entry is NORMAL and pending *)
Example ex_interrupt_delivery :
  exists m rest iev pr y,
    reach exA_codes exA_s4 /\ pop_min (agenda exA_s4) = Some (m, rest) /\ get_event (e_ev m) exA_s4 = Some iev /\
    kind iev = KInterruption 0%nat /\ get_proc 0%nat exA_s4 = Some pr /\ live exA_s4 0%nat /\
    ptarget pr <> Some (e_ev m) /\ out iev = Some (Fail (EInterrupt, [VInt 7])) /\
    In y (agenda exA_s4) /\ e_prio y = NORMAL /\ ptarget pr = Some (e_ev y).
Proof.
  destruct (pop_min (agenda exA_s4)) as [[m rest]|] eqn:HP; [|vm_compute in HP; discriminate].
  vm_compute in HP. injection HP as <- <-.
  destruct (get_proc 0%nat exA_s4) as [pr|] eqn:Hp; [|vm_compute in Hp; discriminate].
  eexists _, _, _, pr, _. split; [apply exA_reach4|]. split; [vm_compute; reflexivity|].
  split; [vm_compute; reflexivity|]. split; [reflexivity|]. split; [reflexivity|].
  split. { exists pr. eexists. split; [exact Hp|]. vm_compute in Hp. injection Hp as <-. split; [vm_compute; reflexivity|reflexivity]. }
  vm_compute in Hp. injection Hp as <-.
  split; [vm_compute; discriminate|]. split; [reflexivity|].
  split; [vm_compute; left; reflexivity|]. split; reflexivity.
Qed.

(* ... and what the delivery did: in exA_s5 the victim has ended (it caught the Interrupt and returned), its old
   target (event 4) is still pending, has lost the _resume and keeps its outcome; processing it later resumes nobody *)
Example ex_after_delivery :
  dead exA_s5 0%nat /\
  exists tev, get_event 4%nat exA_s5 = Some tev /\ cbs tev = Some [] /\ out tev = Some (Ok VNone).
Proof.
  split.
  - destruct (get_proc 0%nat exA_s5) as [pr|] eqn:Hp; [|vm_compute in Hp; discriminate].
    exists pr. eexists. split; [exact Hp|]. vm_compute in Hp. injection Hp as <-. split; [vm_compute; reflexivity|discriminate].
  - eexists. split; [vm_compute; reflexivity|]. split; reflexivity.
Qed.

(* hypotheses of not_started / first_resumption_is_none / process_has_initialize: in exA_s1 nothing has run yet *)
Example ex_not_started :
  exists m rest ev, reach exA_codes exA_s1 /\ pop_min (agenda exA_s1) = Some (m, rest) /\
                    get_event (e_ev m) exA_s1 = Some ev /\ kind ev = KInit 0%nat /\ cbs ev <> None.
Proof.
  eexists _, _, _. split; [apply exA_reach1|]. split; [vm_compute; reflexivity|]. split; [vm_compute; reflexivity|].
  split; [reflexivity|discriminate].
Qed.

(* ---- family B ---- *)

Definition exB_first : list instr := [ITimeout (L 1) 1 XNone; IYield 1 (XReg (L 1)) (L 2) YCatch].
Definition exB_second : list instr :=
  [ITimeout (L 1) 1 XNone; IYield 2 (XReg (L 1)) (L 2) YCatch; IInterrupt (G 0) (XInt 9); ILog XNone].
Definition exB_codes : list prog := map compile [exB_first; exB_second].
Definition exB_s1 : state := fst (exec_top exB_codes (exec ex_setup []) (init_state 0)).
Definition exB_s2 : state := fst (step 10 exB_codes exB_s1).
Definition exB_s3 : state := fst (step 10 exB_codes exB_s2).
Definition exB_s4 : state := fst (step 10 exB_codes exB_s3).     (* t = 1: the first process ends *)
Definition exB_s5 : state := fst (step 10 exB_codes exB_s4).     (* t = 1: the second interrupts it: refused *)

Lemma exB_reach4 : reach exB_codes exB_s4.
Proof.
  apply reach_step; [apply reach_step; [apply reach_step; [apply reach_top, reach_init|]|]|]; vm_compute; exact I.
Qed.

(* hypotheses of interrupt_refused_dead / interrupt_refused_after_end: in exB_s4 process 0 has ended, its Process
   event (event 0) is triggered but NOT processed (its entry is still on the agenda) *)
Example ex_refused_dead :
  reach exB_codes exB_s4 /\ dead exB_s4 0%nat /\
  exists ev x, get_event 0%nat exB_s4 = Some ev /\ kind ev = KProcess 0%nat /\ out ev <> None /\ cbs ev <> None /\
               In x (agenda exB_s4) /\ e_ev x = 0%nat.
Proof.
  split; [apply exB_reach4|]. split.
  - destruct (get_proc 0%nat exB_s4) as [pr|] eqn:Hp; [|vm_compute in Hp; discriminate].
    exists pr. eexists. split; [exact Hp|]. vm_compute in Hp. injection Hp as <-. split; [vm_compute; reflexivity|discriminate].
  - eexists _, _. split; [vm_compute; reflexivity|]. split; [reflexivity|]. split; [discriminate|]. split; [discriminate|].
    split; [vm_compute; right; left; reflexivity|reflexivity].
Qed.

(* the model's answer in that situation: the step in which the second process interrupts logs the RuntimeError
   (tag 2, code M_terminated) and schedules no Interruption: agenda = the termination entry of process 0 only,
   plus the termination entry of process 1 *)
Example ex_refused_dead_run :
  map e_ev (agenda exB_s5) = [0%nat; 2%nat] /\
  hd_error (tl (obs exB_s5)) = Some (OLog (Some 1%nat) 1 (VList [VInt 2; VExn ERuntime [VInt M_terminated]])).
Proof. split; vm_compute; reflexivity. Qed.

(* hypotheses of interrupt_refused_self: a process interrupting itself *)
Definition exC_codes : list prog := map compile [[IInterrupt (G 0) XNone]].
Definition exC_s1 : state := fst (exec_top exC_codes (exec [ISpawn (G 0) 0 XNone] []) (init_state 0)).
Example ex_refused_self :
  let s := set_active (Some 0%nat) (popped (mkEntry 0 URGENT 0%nat 1%nat) [] exC_s1) in
  exists ev, get_event 0%nat s = Some ev /\ kind ev = KProcess 0%nat /\ out ev = None /\ active s = Some 0%nat.
Proof. eexists. split; [vm_compute; reflexivity|]. repeat split. Qed.
