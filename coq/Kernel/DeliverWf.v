(* Kernel/DeliverWf.v -- C02, part 3: well-formedness that holds in EVERY execution (whatever escapes from whatever loop):

     uinv s :=  every agenda entry names an existing, triggered event
             /\ the Process event of every process exists.

   Consequence used by the C02 theorems: the [RBroken] answers "agenda entry naming no event", "popped event has no outcome",
   "process has no Process event" are unreachable. *)
From Coq Require Import ZArith QArith List Bool Lia.
From ONL Require Import Kernel.Model Kernel.Keys Kernel.Deliver.
Import ListNotations.
Local Open Scope nat_scope.

Definition is_proc_kind (k : ekind) : bool := match k with KProcess _ => true | _ => false end.

(* the Process event of a process record exists and is a Process event *)
Definition pev_ok (s : state) (pr : procrec) : Prop :=
  exists pe, get_event (pev pr) s = Some pe /\ is_proc_kind (kind pe) = true.

Definition uinv (s : state) : Prop :=
  (forall x, In x (agenda s) -> exists ev, get_event (e_ev x) s = Some ev /\ out ev <> None) /\
  (forall p pr, get_proc p s = Some pr -> pev_ok s pr).

Lemma ksame_proc k k' : ksame k k' -> is_proc_kind k = true -> is_proc_kind k' = true.
Proof. destruct k; cbn; try discriminate. intros <- _. reflexivity. Qed.

Lemma pev_ok_grows s s' pr : grows s s' -> pev_ok s pr -> pev_ok s' pr.
Proof.
  intros G (pe & H & K). destruct (G _ _ H) as (pe' & H' & Le). exists pe'. split; [exact H'|].
  eapply ksame_proc; [apply (le_kind _ _ Le)|exact K].
Qed.

Lemma pev_ok_lt s pr : pev_ok s pr -> pev pr < length (events s).
Proof. intros (pe & H & _). eapply get_event_lt, H. Qed.

Lemma grows_lt s s' x : grows s s' -> x < length (events s) -> x < length (events s').
Proof.
  intros G L. destruct (nth_error (events s) x) as [ev|] eqn:H; [|apply nth_error_None in H; lia].
  destruct (G x ev H) as (ev' & H' & _). eapply get_event_lt, H'.
Qed.

Lemma get_event_some s x : x < length (events s) -> exists ev, get_event x s = Some ev.
Proof. intros L. unfold get_event. destruct (nth_error (events s) x) eqn:H; [eauto|apply nth_error_None in H; lia]. Qed.

(* agenda and processes untouched, events grown *)
Lemma uinv_frame s s' : agenda s' = agenda s -> procs s' = procs s -> grows s s' -> uinv s -> uinv s'.
Proof.
  intros A P G [U1 U2]. split.
  - intros x Hx. rewrite A in Hx. destruct (U1 x Hx) as (ev & H & O). destruct (G _ _ H) as (ev' & H' & Le).
    exists ev'. split; [exact H'|apply (le_out _ _ Le), O].
  - intros p pr H. unfold get_proc in H. rewrite P in H. eapply pev_ok_grows; [exact G|]. exact (U2 p pr H).
Qed.

Lemma uinv_upd_event e f s : (forall ev, get_event e s = Some ev -> ev_le ev (f ev)) -> uinv s -> uinv (upd_event e f s).
Proof. intros Hf. apply uinv_frame; try reflexivity. apply grows_upd_event, Hf. Qed.

Lemma uinv_new_event ev s : uinv s -> uinv (snd (new_event ev s)).
Proof. apply uinv_frame; try reflexivity. apply grows_new_event. Qed.

Lemma uinv_schedule e p d s ev : get_event e s = Some ev -> out ev <> None -> uinv s -> uinv (schedule e p d s).
Proof.
  intros H O [U1 U2]. split; [|exact U2].
  intros x Hx. cbn [schedule agenda] in Hx. apply in_app_or in Hx. destruct Hx as [Hx|[<-|[]]].
  - exact (U1 x Hx).
  - cbn [e_ev]. exists ev. auto.
Qed.

Lemma uinv_trigger e o s : e < length (events s) -> uinv s -> uinv (trigger_event e o s).
Proof.
  intros L U. destruct (get_event_some _ _ L) as (ev & H). unfold trigger_event.
  eapply uinv_schedule; [apply get_upd_event_same, H|cbn; discriminate|].
  apply uinv_upd_event; [|exact U]. intros ev0 _. constructor; cbn; auto; [discriminate|apply ksame_refl].
Qed.

Lemma upd_event_length e f s : length (events (upd_event e f s)) = length (events s).
Proof. cbn. apply upd_nth_length. Qed.

Lemma uinv_set_defused e s : uinv s -> uinv (upd_event e ev_set_defused s).
Proof. apply uinv_upd_event. intros ev _. constructor; cbn; auto. apply ksame_refl. Qed.

Lemma uinv_add_callback e c s : uinv s -> uinv (add_callback e c s).
Proof. apply uinv_frame; try reflexivity. apply grows_add_callback. Qed.

Lemma uinv_cond_check c op s : uinv s -> uinv (cond_check c op s).
Proof.
  intros U. unfold cond_check.
  destruct (get_event c s) as [cev|] eqn:Hc; [|exact U].
  destruct (get_event op s) as [oev|]; [|exact U].
  destruct (out cev); [exact U|].
  destruct (kind cev) as [| | | | |all ops count|] eqn:Kc; try exact U.
  assert (U1 : uinv (upd_event c (ev_set_kind (KCond all ops (S count))) s)).
  { apply uinv_upd_event; [|exact U]. intros ev Hev. rewrite Hc in Hev. injection Hev as <-.
    constructor; cbn; auto. rewrite Kc. cbn. auto. }
  pose proof (get_event_lt _ _ _ Hc) as L.
  destruct (out oev) as [[v|x]|].
  - destruct (cond_evaluate all (length ops) (S count)); [|exact U1].
    apply uinv_trigger; [rewrite upd_event_length; exact L|exact U1].
  - apply uinv_trigger; [rewrite !upd_event_length; exact L|]. apply uinv_set_defused, U1.
  - destruct (cond_evaluate all (length ops) (S count)); [|exact U1].
    apply uinv_trigger; [rewrite upd_event_length; exact L|exact U1].
Qed.

Lemma uinv_remove_check_from c o s : uinv s -> uinv (remove_check_from c o s).
Proof. apply uinv_frame; [| |apply grows_remove_check_from]; unfold remove_check_from;
  destruct (get_event o s) as [oev|]; try reflexivity; destruct (cbs oev) as [l|]; try reflexivity;
  destruct (mem_cb (CbCheck c) l); reflexivity. Qed.

Lemma uinv_remove_ops rec c :
  (forall o s s', rec o s = Some s' -> uinv s -> uinv s') ->
  forall l s s', remove_ops rec c l s = Some s' -> uinv s -> uinv s'.
Proof.
  intros Hrec. induction l as [|o t IH]; intros s s'; cbn [remove_ops].
  - intros H; injection H as <-. auto.
  - destruct (get_event o s) as [oev|]; [|discriminate].
    destruct (is_cond oev).
    + destruct (rec o (remove_check_from c o s)) as [s2|] eqn:R; [|discriminate]. intros H U.
      eapply IH; [exact H|]. eapply Hrec; [exact R|]. apply uinv_remove_check_from, U.
    + intros H U. eapply IH; [exact H|]. apply uinv_remove_check_from, U.
Qed.

Lemma uinv_remove_checks fuel : forall c s s', remove_checks fuel c s = Some s' -> uinv s -> uinv s'.
Proof.
  induction fuel as [|f IH]; intros c s s'; cbn [remove_checks]; [discriminate|].
  destruct (get_event c s) as [cev|]; [|discriminate].
  destruct (kind cev); try (intros H; injection H as <-; auto).
  apply uinv_remove_ops. exact IH.
Qed.

Lemma uinv_cond_build c s : uinv s -> uinv (fst (cond_build c s)).
Proof.
  intros U. unfold cond_build. destruct (remove_checks (S c) c s) as [s1|] eqn:R; [|exact U].
  pose proof (uinv_remove_checks _ _ _ _ R U) as U1.
  destruct (get_event c s1) as [cev|]; [|exact U1].
  destruct (out cev) as [[v|x]|]; try exact U1.
  destruct (kind cev); try exact U1.
  destruct (populate (S c) (events s1) ops); [|exact U1].
  cbn [fst]. apply uinv_upd_event; [|exact U1]. intros ev _. constructor; cbn; auto; [discriminate|apply ksame_refl].
Qed.

Lemma uinv_cond_subscribe c ops : forall s, uinv s -> uinv (cond_subscribe c ops s).
Proof.
  induction ops as [|o t IH]; intros s U; cbn [cond_subscribe]; [exact U|].
  apply IH. destruct (get_event o s) as [oev|]; [|exact U].
  destruct (is_processed oev); [apply uinv_cond_check, U|apply uinv_add_callback, U].
Qed.

Lemma uinv_new_scheduled ev p d s :
  out ev <> None -> uinv s -> uinv (schedule (length (events s)) p d (snd (new_event ev s))).
Proof.
  intros O U. eapply uinv_schedule; [apply get_new_event_new|exact O|apply uinv_new_event, U].
Qed.

Lemma uinv_call_spawn codes code arg s : uinv s -> uinv (fst (call_spawn codes code arg s)).
Proof.
  intros U. unfold call_spawn, new_event. destruct (nth_error codes code) as [pr|]; [|exact U]. cbn [fst].
  set (EV1 := mkEvent (Some []) None false (KProcess (length (procs s)))).
  set (s1 := snd (new_event EV1 s)).
  set (EV2 := mkEvent (Some [CbResume (length (procs s))]) (Some (Ok VNone)) false (KInit (length (procs s)))).
  assert (U3 : uinv (schedule (length (events s1)) URGENT 0 (snd (new_event EV2 s1)))).
  { apply uinv_new_scheduled; [discriminate|]. apply uinv_new_event, U. }
  destruct U3 as [A B]. split.
  - exact A.
  - intros p pr0 H. unfold get_proc in H. cbn [procs set_procs schedule] in H.
    destruct (Nat.lt_ge_cases p (length (procs s))) as [L|L].
    + rewrite nth_error_app1 in H by exact L. apply (B p pr0). exact H.
    + rewrite nth_error_app2 in H by exact L. cbn in H. destruct (p - length (procs s)) as [|k]; cbn in H.
      * injection H as <-. exists EV1. split; [|reflexivity]. cbn [pev]. unfold get_event. cbn.
        rewrite nth_error_app1 by (rewrite app_length; cbn; lia). rewrite nth_error_app2 by lia.
        now rewrite Nat.sub_diag.
      * destruct k; discriminate.
Qed.

Lemma uinv_call_cond all es s : uinv s -> uinv (fst (call_cond all es s)).
Proof.
  intros U. unfold call_cond. destruct (negb (all_valid es s)); [exact U|].
  pose proof (uinv_new_event (mkEvent (Some []) None false (KCond all es 0)) s U) as U1.
  assert (L : length (events s) < length (events (snd (new_event (mkEvent (Some []) None false (KCond all es 0)) s))))
    by (cbn; rewrite app_length; cbn; lia).
  unfold new_event in *. cbn [fst snd] in *.
  destruct es as [|e0 es']; cbn [fst].
  - apply uinv_trigger; [exact L|exact U1].
  - apply uinv_add_callback, uinv_cond_subscribe, U1.
Qed.

Lemma uinv_do_call codes c s : uinv s -> uinv (fst (do_call codes c s)).
Proof.
  intros U. destruct c; cbn [do_call].
  - unfold call_timeout. destruct (neg_delay d); [exact U|]. unfold new_event. cbn [fst].
    apply (uinv_new_scheduled (mkEvent (Some []) (Some (Ok v)) false KTimeout)); [discriminate|exact U].
  - unfold call_event, new_event. cbn [fst]. apply (uinv_new_event (mkEvent (Some []) None false KPlain)), U.
  - unfold call_succeed. destruct (get_event e s) eqn:H; [|exact U]. destruct (is_triggered e0); [exact U|].
    cbn [fst]. apply uinv_trigger; [eapply get_event_lt, H|exact U].
  - unfold call_fail. destruct (get_event e s) eqn:H; [|exact U]. destruct (is_triggered e0); [exact U|].
    destruct x; try exact U. cbn [fst]. apply uinv_trigger; [eapply get_event_lt, H|exact U].
  - apply uinv_call_spawn, U.
  - unfold call_interrupt. destruct (get_event e s) as [ev|]; [|exact U].
    destruct (kind ev); try exact U. destruct (is_triggered ev); [exact U|].
    destruct (match active s with Some a => Nat.eqb a p | None => false end); [exact U|].
    unfold new_event. cbn [fst].
    apply (uinv_new_scheduled (mkEvent (Some [CbInterrupt (length (events s))]) (Some (Fail (EInterrupt, [cause]))) true (KInterruption p)));
      [discriminate|exact U].
  - apply uinv_call_cond, U.
  - apply uinv_call_cond, U.
  - unfold call_probe. destruct (get_event e s) as [ev|]; [|exact U].
    destruct (is_processed ev); [exact U|]. cbn [fst]. apply uinv_add_callback, U.
  - rewrite call_query_state. exact U.
  - exact U.
  - exact U.
  - cbn [fst]. apply (uinv_frame s); try reflexivity; [apply grows_same_events; reflexivity|exact U].
  - exact U.
  - cbn [fst]. apply (uinv_frame s); try reflexivity; [apply grows_same_events; reflexivity|exact U].
Qed.

Lemma uinv_run_frag {A} codes (f : frag A) : forall s, uinv s -> uinv (fst (run_frag codes f s)).
Proof.
  induction f as [v a|v|x|c k IH]; intros s U; cbn [run_frag fst]; try exact U.
  pose proof (uinv_do_call codes c s U) as X. destruct (do_call codes c s) as [s1 o]. cbn [fst] in X.
  apply IH, X.
Qed.

Lemma uinv_upd_proc p f s : (forall pr, pev (f pr) = pev pr) -> uinv s -> uinv (upd_proc p f s).
Proof.
  intros Hf [A B]. split; [exact A|].
  intros q pr H. rewrite get_proc_upd in H.
  assert (X : forall pr1 pr2, pev pr1 = pev pr2 -> pev_ok s pr2 -> pev_ok (upd_proc p f s) pr1)
    by (intros pr1 pr2 E (pe & G & K); exists pe; rewrite E; auto).
  destruct (Nat.eqb q p).
  - destruct (get_proc q s) as [pr0|] eqn:H0; [|discriminate]. cbn in H. injection H as <-. apply (X _ pr0 (Hf pr0)). exact (B q pr0 H0).
  - apply (X pr pr eq_refl). exact (B q pr H).
Qed.

Lemma uinv_put_proc p prx s : pev_ok s prx -> uinv s -> uinv (put_proc p prx s).
Proof.
  intros L [A B]. split; [exact A|].
  intros q pr H. unfold put_proc in H. rewrite get_proc_upd in H.
  destruct (Nat.eqb q p).
  - destruct (get_proc q s) as [pr0|] eqn:H0; [|discriminate]. cbn in H. injection H as <-. exact L.
  - exact (B q pr H).
Qed.

Lemma uinv_set_active a s : uinv s -> uinv (set_active a s).
Proof. apply uinv_frame; try reflexivity. apply grows_same_events. reflexivity. Qed.

Lemma uinv_proc_finish p pr o s : pev_ok s pr -> uinv s -> uinv (proc_finish p pr o s).
Proof.
  intros L0 U. pose proof (pev_ok_lt _ _ L0) as L. unfold proc_finish. apply uinv_set_active. apply uinv_upd_proc; [reflexivity|]. apply uinv_trigger; assumption.
Qed.

Lemma uinv_proc_wait p e s : uinv s -> uinv (proc_wait p e s).
Proof.
  intros U. unfold proc_wait. apply uinv_set_active. apply uinv_upd_proc; [reflexivity|]. apply uinv_add_callback, U.
Qed.

Lemma uinv_feed_state e o s : uinv s -> uinv (feed_state e o s).
Proof. destruct o; cbn; [auto|apply uinv_set_defused]. Qed.

Lemma grows_feed_state e o s : grows s (feed_state e o s).
Proof. destruct o; cbn; [apply grows_refl|apply grows_set_defused]. Qed.

Lemma uinv_resume_loop codes fuel : forall p e s, uinv s -> uinv (fst (resume_loop fuel codes p e s)).
Proof.
  induction fuel as [|f IH]; intros p e s U; cbn [resume_loop]; [exact U|].
  destruct (get_event e s) as [ev|]; [|exact U].
  destruct (get_proc p s) as [pr|] eqn:P; [|exact U].
  destruct (out ev) as [o|]; [|exact U].
  pose proof (proj2 U p pr P) as L.
  fold (feed_state e o s).
  pose proof (uinv_run_frag codes (resume (pcode pr) (pst pr) o) _ (uinv_feed_state e o s U)) as U2.
  pose proof (grows_run_frag codes (resume (pcode pr) (pst pr) o) (feed_state e o s)) as G2.
  destruct (run_frag codes (resume (pcode pr) (pst pr) o) (feed_state e o s)) as [s2 r]. cbn [fst] in *.
  assert (L2 : pev_ok s2 pr).
  { eapply pev_ok_grows; [exact G2|]. eapply pev_ok_grows; [apply grows_feed_state|exact L]. }
  destruct r as [v a|v|x].
  - assert (U3 : uinv (put_proc p (proc_set_st pr a) s2)) by (apply uinv_put_proc; [exact L2|exact U2]).
    destruct v; try exact U3.
    destruct (get_event e0 (put_proc p (proc_set_st pr a) s2)) as [ev'|]; [|exact U3].
    destruct (is_processed ev').
    + apply IH, U3.
    + cbn [fst]. apply uinv_proc_wait, U3.
  - cbn [fst]. apply uinv_proc_finish; assumption.
  - cbn [fst]. apply uinv_proc_finish; assumption.
Qed.

Lemma uinv_resume_proc fuel codes p e s : uinv s -> uinv (fst (resume_proc fuel codes p e s)).
Proof. intros U. unfold resume_proc. apply uinv_resume_loop, uinv_set_active, U. Qed.

Lemma uinv_do_interruption fuel codes i s : uinv s -> uinv (fst (do_interruption fuel codes i s)).
Proof.
  intros U. unfold do_interruption.
  destruct (get_event i s) as [iev|]; [|exact U].
  destruct (kind iev); try exact U.
  destruct (get_proc p s) as [pr|]; [|exact U].
  destruct (get_event (pev pr) s) as [pe|]; [|exact U].
  destruct (is_triggered pe); [exact U|].
  destruct (ptarget pr) as [t|]; [|exact U].
  destruct (get_event t s) as [tev|] eqn:Ht; [|exact U].
  destruct (cbs tev) as [l|] eqn:C; [|exact U].
  destruct (mem_cb (CbResume p) l); [|exact U].
  apply uinv_resume_proc. apply uinv_frame with (s := s); try reflexivity; [|exact U].
  apply grows_set_cbs. intros _ ev Hev. rewrite Ht in Hev. injection Hev as <-. congruence.
Qed.

Lemma uinv_run_cb fuel codes e c s : uinv s -> uinv (fst (run_cb fuel codes e c s)).
Proof.
  intros U. destruct c; cbn [run_cb fst].
  - apply uinv_resume_proc, U.
  - apply uinv_cond_check, U.
  - apply uinv_cond_build, U.
  - apply uinv_do_interruption, U.
  - rewrite stop_cb_state. exact U.
  - apply (uinv_frame s); try reflexivity; [apply grows_same_events; reflexivity|exact U].
Qed.

Lemma uinv_run_callbacks fuel codes e l : forall s, uinv s -> uinv (fst (run_callbacks fuel codes e l s)).
Proof.
  intros s U. apply (run_callbacks_rel fuel codes e uinv (fun _ _ => True)); auto.
  intros c s0 U0. split; [exact I|apply uinv_run_cb, U0].
Qed.

Lemma uinv_cb_chain fuel codes e l s s' : cb_chain fuel codes e l s s' -> uinv s -> uinv s'.
Proof.
  induction 1 as [s|c t s s1 r s' R _ _ IH]; [auto|]. intros U. apply IH.
  pose proof (uinv_run_cb fuel codes e c s U) as X. now rewrite R in X.
Qed.

Lemma uinv_pop_state m rest s : pop_min (agenda s) = Some (m, rest) -> uinv s -> uinv (pop_state m rest s).
Proof.
  intros P [A B]. destruct (pop_min_spec _ _ _ P) as (_ & -> & _). split; [|exact B].
  intros x Hx. cbn in Hx. apply remove_eid_subset in Hx. exact (A x Hx).
Qed.

Lemma uinv_loop_start m rest s : pop_min (agenda s) = Some (m, rest) -> uinv s -> uinv (loop_start m rest s).
Proof.
  intros P U. unfold loop_start. apply uinv_upd_event; [|apply uinv_pop_state; assumption].
  intros ev _. constructor; cbn; auto. apply ksame_refl.
Qed.

Lemma uinv_step fuel codes s : uinv s -> uinv (fst (step fuel codes s)).
Proof.
  intros U. unfold step. destruct (pop_min (agenda s)) as [[m rest]|] eqn:P; [|exact U].
  pose proof (uinv_pop_state m rest s P U) as U1.
  destruct (get_event (e_ev m) (pop_state m rest s)) as [ev|]; [|exact U1].
  destruct (cbs ev) as [l|]; [|exact U1].
  fold (loop_start m rest s).
  pose proof (uinv_run_callbacks fuel codes (e_ev m) l _ (uinv_loop_start m rest s P U)) as X.
  destruct (run_callbacks fuel codes (e_ev m) l (loop_start m rest s)) as [s2 r2]. cbn [fst] in X.
  destruct r2; exact X.
Qed.

Lemma uinv_run_prelude u s s1 : run_prelude u s = inr s1 -> uinv s -> uinv s1.
Proof.
  destruct u as [|t|e]; cbn [run_prelude].
  - intros H; injection H as <-. auto.
  - destruct (Qle_bool t (now s)); [discriminate|]. unfold new_event.
    intros H; injection H as <-. intros U. apply uinv_add_callback.
    apply (uinv_new_scheduled (mkEvent (Some []) (Some (Ok VNone)) false KSentinel)); [discriminate|exact U].
  - destruct (get_event e s) as [ev|]; [|discriminate].
    destruct (is_processed ev); [discriminate|]. intros H; injection H as <-. apply uinv_add_callback.
Qed.

Lemma uinv_run_loop fuel codes u : forall n s, uinv s -> uinv (fst (run_loop n fuel codes u s)).
Proof.
  induction n as [|n IH]; intros s U; cbn [run_loop]; [exact U|].
  pose proof (uinv_step fuel codes s U) as X. destruct (step fuel codes s) as [s1 r]. cbn [fst] in X.
  destruct r; try exact X. apply IH, X.
Qed.

Lemma uinv_run fuel codes u s : uinv s -> uinv (fst (run fuel codes u s)).
Proof.
  intros U. unfold run. destruct (run_prelude u s) as [[s' r]|s1] eqn:P.
  - apply run_prelude_inl in P. subst s'. exact U.
  - apply uinv_run_loop. eapply uinv_run_prelude; eauto.
Qed.

Lemma uinv_init t0 : uinv (init_state t0).
Proof. split; [intros x []|]. intros p pr H. destruct p; discriminate. Qed.

Lemma uinv_later codes s s' : later codes s s' -> uinv s -> uinv s'.
Proof.
  induction 1 as [s|s s' A f _ IH|s s' u s1 _ IH P|s s' fuel _ IH|s s' fuel u _ IH]; intros U.
  - exact U.
  - apply uinv_run_frag, IH, U.
  - eapply uinv_run_prelude; [exact P|]. apply IH, U.
  - apply uinv_step, IH, U.
  - apply uinv_run, IH, U.
Qed.
