(* Kernel/DeliverWitness.v -- C02: the concrete executions and witness terms used by Props/C02_Examples.v to show that the
   hypotheses of the C02 theorems are simultaneously satisfiable on non-trivial instances, and the helper lemmas that turn
   computed runs of the executable kernel into the inductive notions the theorems quantify over ([later], [creach],
   [ok_steps], [run_loop_clean], [cb_chain]).

   Scenario x (Kernel/DeliverExamples.v: xcodes, x0): a shared event G0 (event 0); A (process 0) waits for it and catches
   what it receives, B (process 1) waits for it and lets the exception propagate; T (process 2) fails G0 with User1(7) and
   then tries to succeed it (refused); Parent (process 3) spawns Child (process 4, returns 0 after timeout(1)) and joins it.
     [xS n] = the state after n steps.   xS 5: G0 is next, callbacks [CbResume 0; CbResume 1], failed, not defused.
     step 6 (xS 5 -> xS 6) processes G0: A catches (defuses), B fails with User1(7): its Process event 3 carries it, undefused.
     step 9 (xS 8 -> xS 9) processes B's Process event (no waiter): step() raises User1(7).
   Scenario y (here): events G0, G1, G2 (0, 1, 2), a probe on G2;
     Late (process 0): yield timeout(1, 4); then yields G0, ALREADY PROCESSED by then (succeeded with 11 at instant 0): logs 11
     Cond (process 1): yield AllOf[G1] (condition 10) and catches: G1 fails with User2(3), the condition takes it over (defuses G1)
     Trig (process 2): G0.succeed(11); G1.fail(User2(3)); yield timeout(2); G2.fail(User3(9)) -- only the probe listens:
                       step() raises User3(9) at instant 2.
     [yS n] = the state after n steps.  step 5 (yS 4 ->) processes G1, step 8 (yS 7 ->) the timeout of Late, step 11 (yS 10 ->) G2. *)
From Coq Require Import ZArith QArith List Bool Lia.
From ONL Require Import Kernel.Model Kernel.Script Kernel.Keys Kernel.Deliver Kernel.DeliverInv Kernel.DeliverWf Kernel.DeliverThm
  Kernel.DeliverVal Kernel.DeliverMore Kernel.DeliverExamples.
Import ListNotations.
Local Open Scope nat_scope.

(* ------------------------------------------------------------------------------------------------ *)
(* generic: computed runs are executions *)

Fixpoint nsteps (fuel : nat) (codes : list prog) (n : nat) (s : state) : state :=
  match n with O => s | S k => nsteps fuel codes k (fst (step fuel codes s)) end.

(* the next n steps all return normally *)
Fixpoint all_ok (fuel : nat) (codes : list prog) (n : nat) (s : state) : bool :=
  match n with
  | O => true
  | S k => match step fuel codes s with (s1, ROk) => all_ok fuel codes k s1 | _ => false end
  end.

Lemma all_ok_S fuel codes k s :
  all_ok fuel codes (S k) s = true -> step fuel codes s = (fst (step fuel codes s), ROk) /\ all_ok fuel codes k (fst (step fuel codes s)) = true.
Proof.
  cbn [all_ok]. destruct (step fuel codes s) as [s1 r]. destruct r; try discriminate. intros H. split; [reflexivity|exact H].
Qed.

Lemma later_nsteps fuel codes n : forall s s', later codes s s' -> later codes s (nsteps fuel codes n s').
Proof. induction n as [|n IH]; intros s s' L; cbn [nsteps]; [exact L|]. apply IH, later_step, L. Qed.

Lemma creach_nsteps fuel codes n : forall s,
  creach codes s -> all_ok fuel codes n s = true -> creach codes (nsteps fuel codes n s).
Proof.
  induction n as [|n IH]; intros s R A; cbn [nsteps]; [exact R|].
  destruct (all_ok_S _ _ _ _ A) as [St A']. apply IH; [|exact A'].
  apply cr_step; [exact R|]. eapply step_ok_clean, St.
Qed.

Lemma ok_steps_nsteps fuel codes n : forall s, all_ok fuel codes n s = true -> ok_steps fuel codes s (nsteps fuel codes n s).
Proof.
  induction n as [|n IH]; intros s A; cbn [nsteps]; [constructor|].
  destruct (all_ok_S _ _ _ _ A) as [St A']. econstructor; [exact St|apply IH, A'].
Qed.

(* run(): k normal steps, then a clean step that does not return normally *)
Lemma run_loop_clean_intro fuel codes k : forall n s,
  all_ok fuel codes k s = true -> step_clean fuel codes (nsteps fuel codes k s) ->
  snd (step fuel codes (nsteps fuel codes k s)) <> ROk -> run_loop_clean n fuel codes s.
Proof.
  induction k as [|k IH]; intros n s A C N; (destruct n as [|n]; [exact I|]); cbn [nsteps] in C, N; cbn [run_loop_clean].
  - split; [exact C|]. destruct (step fuel codes s) as [s1 r]. destruct r; try exact I. exfalso. apply N. reflexivity.
  - destruct (all_ok_S _ _ _ _ A) as [St A']. split; [eapply step_ok_clean, St|]. rewrite St. apply IH; assumption.
Qed.

Lemma run_clean_intro fuel codes u s s1 :
  run_prelude u s = inr s1 -> run_loop_clean fuel fuel codes s1 -> run_clean fuel codes u s.
Proof. intros P H. unfold run_clean. rewrite P. exact H. Qed.

(* a step whose event has the callback list l is clean if the loop runs through *)
Lemma step_clean_intro fuel codes s m rest ev l s' :
  pop_min (agenda s) = Some (m, rest) -> get_event (e_ev m) s = Some ev -> cbs ev = Some l ->
  cb_chain fuel codes (e_ev m) l (loop_start m rest s) s' -> step_clean fuel codes s.
Proof. intros P G C Ch. unfold step_clean. rewrite P, G, C. exists s'. exact Ch. Qed.

Definition dummy_proc : procrec := mkProc (compile []) (start (compile []) VNone) 0 None.
Definition getp (p : pid) (s : state) : procrec := match get_proc p s with Some pr => pr | None => dummy_proc end.
Definition gete (e : evid) (s : state) : event :=
  match get_event e s with Some ev => ev | None => mkEvent None None false KPlain end.

(* the generator state stored at a yield *)
Definition yielded {A : Type} (d : A) (r : fres A) : A := match r with FrYield _ a => a | _ => d end.

(* ------------------------------------------------------------------------------------------------ *)
(* scenario x *)

Definition xS (n : nat) : state := nsteps 50 xcodes n x0.
Definition xexn : exn := (EUser 1, [VInt 7]).

Lemma x0_creach : creach xcodes x0.
Proof. apply cr_top, cr_init. Qed.

Lemma x0_later : later xcodes (init_state 0) x0.
Proof. apply later_top, later_refl. Qed.

Lemma xS_later n : later xcodes (init_state 0) (xS n).
Proof. apply later_nsteps, x0_later. Qed.

Lemma xS_later_from a n : later xcodes (xS a) (xS (a + n)).
Proof.
  unfold xS. revert a. induction n as [|n IH]; intros a.
  - replace (a + 0) with a by lia. constructor.
  - replace (a + S n) with (S (a + n)) by lia.
    replace (nsteps 50 xcodes (S (a + n)) x0) with (fst (step 50 xcodes (nsteps 50 xcodes (a + n) x0))).
    + apply later_step, IH.
    + generalize (a + n) as k, x0. induction k as [|k IHk]; intros s; [reflexivity|]. cbn [nsteps]. apply IHk.
Qed.

Lemma xS_creach n : all_ok 50 xcodes n x0 = true -> creach xcodes (xS n).
Proof. apply creach_nsteps, x0_creach. Qed.

(* the step that processes G0: entry, rest of the agenda, the event, the state in which the callback loop starts,
   the state between the two callbacks *)
Definition xm : entry := mkEntry 0 NORMAL 4 0.
Definition xrest : list entry := [mkEntry 0 NORMAL 5 5; mkEntry 1 NORMAL 7 11].
Definition xevG0 : event := mkEvent (Some [CbResume 0; CbResume 1]) (Some (Fail xexn)) false KPlain.
Definition xL : state := loop_start xm xrest (xS 5).
Definition xmid : state := fst (run_cb 50 xcodes 0 (CbResume 0) xL).

Lemma x_chain_A : cb_chain 50 xcodes (e_ev xm) [CbResume 0] (loop_start xm xrest (xS 5)) xmid.
Proof. apply run_callbacks_ok_chain. vm_compute. reflexivity. Qed.

Lemma x_chain_AB : cb_chain 50 xcodes (e_ev xm) [CbResume 0; CbResume 1] (loop_start xm xrest (xS 5)) (xS 6).
Proof. apply run_callbacks_ok_chain. vm_compute. reflexivity. Qed.

(* B, about to be resumed with the failure of G0 *)
Definition xsB : state := set_active (Some 1) xmid.
Definition xprB : procrec := getp 1 xsB.
Definition xfragB := run_frag xcodes (resume (pcode xprB) (pst xprB) (Fail xexn)) (feed_state 0 (Fail xexn) xsB).

(* A's Initialize (the first step): A yields the pending G0 *)
Definition xmI : entry := mkEntry 0 URGENT 0 2.
Definition xrestI : list entry := [mkEntry 0 URGENT 1 4; mkEntry 0 URGENT 2 6; mkEntry 0 URGENT 3 8].
Definition xsI : state := set_active (Some 0) (loop_start xmI xrestI x0).
Definition xprA : procrec := getp 0 xsI.
Definition xfragI := run_frag xcodes (resume (pcode xprA) (pst xprA) (Ok VNone)) (feed_state 2 (Ok VNone) xsI).
Definition xaI : St (pcode xprA) := yielded (pst xprA) (snd xfragI).

(* run(until = 5) entered in x0: the sentinel does not interfere; eight normal steps, the ninth raises User1(7) *)
Definition xU : state := match run_prelude (UNum 5) x0 with inr s => s | inl (s, _) => s end.
Definition xR (n : nat) : state := nsteps 50 xcodes n xU.

Lemma xU_creach : creach xcodes xU.
Proof. apply (cr_prelude xcodes x0 (UNum 5)); [exact x0_creach|]. vm_compute. reflexivity. Qed.

Lemma xR_ok_steps n : all_ok 50 xcodes n xU = true -> ok_steps 50 xcodes xU (xR n).
Proof. unfold xR. apply ok_steps_nsteps. Qed.

Lemma xR8_step_clean : step_clean 50 xcodes (nsteps 50 xcodes 8 xU).
Proof.
  apply (step_clean_intro 50 xcodes (nsteps 50 xcodes 8 xU) (mkEntry 0 NORMAL 10 3) [mkEntry 5 URGENT 4 9; mkEntry 1 NORMAL 8 12]
           (mkEvent (Some []) (Some (Fail xexn)) false (KProcess 1)) [] (loop_start (mkEntry 0 NORMAL 10 3)
              [mkEntry 5 URGENT 4 9; mkEntry 1 NORMAL 8 12] (nsteps 50 xcodes 8 xU))).
  - vm_compute. reflexivity.
  - vm_compute. reflexivity.
  - reflexivity.
  - constructor.
Qed.

Lemma x_run_clean : run_clean 50 xcodes (UNum 5) x0.
Proof.
  apply (run_clean_intro 50 xcodes (UNum 5) x0 xU); [vm_compute; reflexivity|].
  apply (run_loop_clean_intro 50 xcodes 8 50 xU); [vm_compute; reflexivity|exact xR8_step_clean|vm_compute; discriminate].
Qed.

(* ------------------------------------------------------------------------------------------------ *)
(* scenario y *)

Definition yLate : list instr :=
  [ITimeout (L 1) 1 (XInt 4); IYield 1 (XReg (L 1)) (L 2) YCatch; IYield 2 (XReg (G 0)) (L 3) YCatch; ILog (XReg (L 3))].
Definition yCond : list instr := [ICond (L 1) true [G 1]; IYield 3 (XReg (L 1)) (L 2) YCatch; ILog (XReg (L 2))].
Definition yTrig : list instr :=
  [ISucceed (G 0) (XInt 11); IFail (G 1) (XUser 2 3); ITimeout (L 1) 2 XNone; IYield 4 (XReg (L 1)) (L 2) YCatch;
   IFail (G 2) (XUser 3 9)].
Definition ycodes : list prog := map compile [yLate; yCond; yTrig].
Definition ysetup : list instr :=
  [IEvent (G 0); IEvent (G 1); IEvent (G 2); IProbe (G 2) 1; ISpawn (G 3) 0 XNone; ISpawn (G 4) 1 XNone; ISpawn (G 5) 2 XNone].

Definition y0 : state := fst (exec_top ycodes (exec ysetup []) (init_state 0)).
Definition yS (n : nat) : state := nsteps 50 ycodes n y0.
Definition yexn2 : exn := (EUser 2, [VInt 3]).
Definition yexn3 : exn := (EUser 3, [VInt 9]).

Lemma y0_creach : creach ycodes y0.
Proof. apply cr_top, cr_init. Qed.

Lemma yS_later n : later ycodes (init_state 0) (yS n).
Proof. apply later_nsteps, later_top, later_refl. Qed.

Lemma yS_creach n : all_ok 50 ycodes n y0 = true -> creach ycodes (yS n).
Proof. apply creach_nsteps, y0_creach. Qed.

(* step 8: the timeout of Late (event 9, value 4) *)
Definition ymT : entry := mkEntry 1 NORMAL 3 9.
Definition yrestT : list entry := [mkEntry 2 NORMAL 6 11].
Definition ysT : state := set_active (Some 0) (loop_start ymT yrestT (yS 7)).
Definition yprL : procrec := getp 0 ysT.
Definition yfragT := run_frag ycodes (resume (pcode yprL) (pst yprL) (Ok (VInt 4))) (feed_state 9 (Ok (VInt 4)) ysT).
Definition yaT : St (pcode yprL) := yielded (pst yprL) (snd yfragT).
Definition ys3T : state := put_proc 0 (proc_set_st yprL yaT) (fst yfragT).

(* step 5: G1 (event 1, failed with User2(3)), callbacks [CbCheck 10] *)
Definition ymG1 : entry := mkEntry 0 NORMAL 5 1.
Definition yrestG1 : list entry := [mkEntry 1 NORMAL 3 9; mkEntry 2 NORMAL 6 11].
Definition yLG1 : state := loop_start ymG1 yrestG1 (yS 4).

(* step 11: G2 (event 2, failed with User3(9)), callbacks [CbProbe 1] *)
Definition ymG2 : entry := mkEntry 2 NORMAL 10 2.
Definition yrestG2 : list entry := [mkEntry 2 NORMAL 11 7].
Definition yevG2 : event := mkEvent (Some [CbProbe 1]) (Some (Fail yexn3)) false KPlain.
Definition yLG2 : state := loop_start ymG2 yrestG2 (yS 10).

Lemma y_chain_G2 : cb_chain 50 ycodes (e_ev ymG2) [CbProbe 1] (loop_start ymG2 yrestG2 (yS 10)) (yS 11).
Proof. apply run_callbacks_ok_chain. vm_compute. reflexivity. Qed.
