(* Bridging lemmas (DESIGN 2.6, second tie) for the kernel leaves: Environment.schedule / peek / step, Event.succeed /
   fail / defused, Timeout / Initialize / Interruption .__init__, Interruption._interrupt, Process.interrupt as translated
   from the tree under test on every run (Gen/Extracted_kernel.v: effects in program order, decided by boolean
   observations) are the corresponding functions of the hand-written kernel model (Kernel/Model.v) the C01 / C02 / C04
   theorems are about.  The kernel works on objects: the generated definitions say WHICH field stores and calls happen,
   in WHICH order, under WHICH tests; their meaning in the model is given by the interpreters below.
   Whitelisted as one statement each (meaning given here): the heappop try/except of step() (FxRaiseEmptySchedule /
   FxPop), the callback loop of step() (FxRunCallbacks = [run_callbacks]), the try/except of peek() (FxPeek = [peek]). *)
From Coq Require Import ZArith QArith Qreduction List Bool Lia.
From ONL Require Import Kernel.Model Kernel.Trigger Gen.Extracted_kernel.
Import ListNotations.

(* ---- Environment.schedule ---------------------------------------------------------------------------------- *)
(* heappush(queue, (t, prio, next(eid), event)): the agenda gets the entry under the next event id; stored times are
   kept normalised by the model *)
Definition sched_fx (e : evid) (s : state) (fx : list kernel_fx) : option state :=
  match fx with
  | [FxHeapPush t prio] =>
      Some (mkState (now s) (agenda s ++ [mkEntry (Qred t) (Z.to_nat prio) (next_eid s) e]) (S (next_eid s))
                    (events s) (procs s) (active s) (glob s) (obs s))
  | _ => None
  end.

Lemma sched_fx_eq e prio delay s t :
  t == now s + delay -> sched_fx e s [FxHeapPush t (Z.of_nat prio)] = Some (schedule e prio delay s).
Proof. intros H. unfold sched_fx, schedule. rewrite Nat2Z.id, (Qred_complete _ _ H). reflexivity. Qed.

Lemma bridge_schedule e prio delay s :
  sched_fx e s (gen_Environment_schedule (now s) delay (Z.of_nat prio)) = Some (schedule e prio delay s).
Proof. unfold gen_Environment_schedule. apply sched_fx_eq. ring. Qed.

(* ---- Environment.peek ---------------------------------------------------------------------------------------- *)
Definition peek_fx (s : state) (fx : list kernel_fx) : option (option Q) :=
  match fx with [FxPeek] => Some (peek s) | _ => None end.

Lemma bridge_peek s : peek_fx s gen_Environment_peek = Some (peek s).
Proof. reflexivity. Qed.

(* ---- Environment.step ------------------------------------------------------------------------------------------ *)
Definition is_rok (r : result) : bool := match r with ROk => true | _ => false end.

(* the observations of step(), read off the model: is the queue empty; what the callback loop left behind
   (a remembered stop / an escaping exception are both the loop's non-ROk result in the model); _ok and _defused of the
   popped event AFTER its callbacks ran *)
Definition step_obs (fuel : nat) (codes : list prog) (s : state) : bool * bool * bool * bool :=
  match pop_min (agenda s) with
  | None => (false, false, false, true)
  | Some (m, rest) =>
      let s1 := pop_state m rest s in
      match get_event (e_ev m) s1 with
      | Some ev =>
          match cbs ev with
          | Some l =>
              let '(s2, r) := run_callbacks fuel codes (e_ev m) l (upd_event (e_ev m) (ev_set_cbs None) s1) in
              match get_event (e_ev m) s2 with
              | Some ev2 => (negb (is_rok r), match out ev2 with Some (Ok _) => true | _ => false end, defused ev2, false)
              | None => (negb (is_rok r), false, false, false)
              end
          | None => (true, false, false, false)
          end
      | None => (true, false, false, false)
      end
  end.

Definition step_gen (fuel : nat) (codes : list prog) (s : state) : list kernel_fx :=
  match step_obs fuel codes s with
  | (stop_raised, ok, dfs, empty) => gen_Environment_step stop_raised ok dfs empty
  end.

(* the meaning of the effect sequences of step() *)
Definition step_fx (fuel : nat) (codes : list prog) (s : state) (fx : list kernel_fx) : option (state * result) :=
  match fx with
  | [FxRaiseEmptySchedule] => match pop_min (agenda s) with None => Some (s, REmpty) | Some _ => None end
  | FxPop :: FxDetachCallbacks :: FxStopNone :: FxRunCallbacks :: tail =>
      match pop_min (agenda s) with
      | None => None
      | Some (m, rest) =>
          let e := e_ev m in
          let s1 := pop_state m rest s in                                       (* now := the entry's time *)
          match get_event e s1 with
          | None => Some (s1, RBroken)
          | Some ev =>
              match cbs ev with
              | None => Some (s1, RRaise (kexn EType M_none_not_iterable))      (* for .. in None *)
              | Some l =>
                  let '(s2, r) := run_callbacks fuel codes e l (upd_event e (ev_set_cbs None) s1) in
                  match tail with
                  | [FxRaiseStop] => if is_rok r then None else Some (s2, r)     (* what the loop remembered / let escape *)
                  | [FxCopyFailure; FxSetCause; FxRaiseFailure] =>
                      if is_rok r then match check_failure e s2 with ROk => None | r' => Some (s2, r') end else None
                  | [] => if is_rok r then match check_failure e s2 with ROk => Some (s2, ROk) | _ => None end else None
                  | _ => None
                  end
              end
          end
      end
  | _ => None
  end.

Lemma bridge_step fuel codes s :
  snd (step fuel codes s) <> RBroken ->
  step_fx fuel codes s (step_gen fuel codes s) = Some (step fuel codes s).
Proof.
  unfold step_gen, step_obs, step_fx, step, gen_Environment_step.
  destruct (pop_min (agenda s)) as [[m rest]|]; [|reflexivity].
  cbv zeta.
  destruct (get_event (e_ev m) (pop_state m rest s)) as [ev|] eqn:EG; cbn [snd]; [|congruence].
  destruct (cbs ev) as [l|]; [|reflexivity].
  destruct (run_callbacks fuel codes (e_ev m) l (upd_event (e_ev m) (ev_set_cbs None) (pop_state m rest s))) as [s2 r] eqn:ER.
  destruct r; cbn [is_rok negb snd]; try (destruct (get_event (e_ev m) s2); reflexivity).
  unfold check_failure.
  destruct (get_event (e_ev m) s2) as [ev2|]; cbn [negb andb]; [|congruence].
  destruct (out ev2) as [[v|x]|]; cbn [negb andb]; try reflexivity; try congruence.
  destruct (defused ev2); reflexivity.
Qed.

(* ---- Event.succeed / Event.fail ------------------------------------------------------------------------------- *)
(* _ok / _value are the model's [out]; the stores take effect together when the event is scheduled *)
Definition mk_out (ok : bool) (v : val) : option outcome :=
  if ok then Some (Ok v) else match v with VExn c a => Some (Fail (c, a)) | _ => None end.

Fixpoint trigger_fx (e : evid) (arg : val) (ok : option bool) (vl : option val) (s : state) (fx : list kernel_fx)
  : option (state * outcome) :=
  match fx with
  | [] => None
  | FxRaiseAlreadyTriggered :: _ => Some (s, Fail (kexn ERuntime M_already_triggered))
  | FxRaiseNotException :: _ => Some (s, Fail (kexn EValue M_not_exception))
  | FxSetOk b :: t => trigger_fx e arg (Some b) vl s t
  | FxSetValueArg :: t => trigger_fx e arg ok (Some arg) s t
  | FxSchedule prio d :: t =>
      match ok, vl with
      | Some b, Some v =>
          match mk_out b v with
          | Some o => trigger_fx e arg ok vl (schedule e (Z.to_nat prio) d (upd_event e (ev_set_out (Some o)) s)) t
          | None => None
          end
      | _, _ => None
      end
  | FxReturnSelf :: t => match t with [] => Some (s, Ok (VEv e)) | _ => None end
  | _ => None
  end.

Definition is_exn_val (x : val) : bool := match x with VExn _ _ => true | _ => false end.

Lemma bridge_succeed e v s ev :
  get_event e s = Some ev ->
  trigger_fx e v None None s (gen_Event_succeed (is_triggered ev)) = Some (call_succeed e v s).
Proof.
  intros H. unfold call_succeed, gen_Event_succeed. rewrite H. destruct (is_triggered ev); reflexivity.
Qed.

Lemma bridge_fail e x s ev :
  get_event e s = Some ev ->
  trigger_fx e x None None s (gen_Event_fail (is_triggered ev) (is_exn_val x)) = Some (call_fail e x s).
Proof.
  intros H. unfold call_fail, gen_Event_fail. rewrite H. destruct (is_triggered ev); [reflexivity|].
  destruct x; reflexivity.
Qed.

(* Event.defused: the getter is hasattr(self, '_defused'); the setter stores True whatever it is given *)
Lemma bridge_defused_get e s ev :
  get_event e s = Some ev ->
  call_query QDefused e s = (s, Ok (vbool (snd (gen_Event_defused_get (defused ev))))) /\
  fst (gen_Event_defused_get (defused ev)) = [].
Proof. intros H. unfold call_query. rewrite H. split; reflexivity. Qed.

Definition defuse_fx (e : evid) (s : state) (fx : list kernel_fx) : option state :=
  match fx with [FxSetDefused] => Some (upd_event e ev_set_defused s) | _ => None end.

Lemma bridge_defused_set e s : defuse_fx e s gen_Event_defused_set = Some (upd_event e ev_set_defused s).
Proof. reflexivity. Qed.

(* ---- constructors: Timeout, Initialize, Interruption ---------------------------------------------------------- *)
(* a fresh event object under construction: its fields are collected and the object enters the model (new_event) when it
   is scheduled, which is the last thing every constructor does; a raise before that leaves no trace *)
Record build := { b_cbs : option (list cb); b_ok : option bool; b_val : option val; b_defused : bool }.
Definition build0 : build := {| b_cbs := None; b_ok := None; b_val := None; b_defused := false |}.

Fixpoint ctor_fx (k : ekind) (p : pid) (arg cause : val) (b : build) (s : state) (fx : list kernel_fx)
  : option (state * outcome) :=
  match fx with
  | [] => None
  | FxRaiseNegativeDelay :: _ => Some (s, Fail (kexn EValue M_negative_delay))
  | FxRaiseTerminated :: _ => Some (s, Fail (kexn ERuntime M_terminated))
  | FxRaiseSelfInterrupt :: _ => Some (s, Fail (kexn ERuntime M_self_interrupt))
  | FxEventInit :: t => ctor_fx k p arg cause {| b_cbs := Some []; b_ok := b_ok b; b_val := b_val b; b_defused := b_defused b |} s t
  | FxSetEnv :: t => ctor_fx k p arg cause b s t                                (* one environment *)
  | FxSetDelay _ :: t => ctor_fx k p arg cause b s t                            (* only used by repr *)
  | FxSetProcess :: t => ctor_fx k p arg cause b s t                            (* carried by the kind *)
  | FxSetCallbacksResume :: t =>
      ctor_fx k p arg cause {| b_cbs := Some [CbResume p]; b_ok := b_ok b; b_val := b_val b; b_defused := b_defused b |} s t
  | FxSetCallbacksInterrupt :: t =>
      ctor_fx k p arg cause {| b_cbs := Some [CbInterrupt (length (events s))]; b_ok := b_ok b; b_val := b_val b;
                               b_defused := b_defused b |} s t
  | FxSetOk o :: t => ctor_fx k p arg cause {| b_cbs := b_cbs b; b_ok := Some o; b_val := b_val b; b_defused := b_defused b |} s t
  | FxSetValueArg :: t => ctor_fx k p arg cause {| b_cbs := b_cbs b; b_ok := b_ok b; b_val := Some arg; b_defused := b_defused b |} s t
  | FxSetValueNone :: t => ctor_fx k p arg cause {| b_cbs := b_cbs b; b_ok := b_ok b; b_val := Some VNone; b_defused := b_defused b |} s t
  | FxSetValueInterrupt :: t =>
      ctor_fx k p arg cause {| b_cbs := b_cbs b; b_ok := b_ok b; b_val := Some (VExn EInterrupt [cause]); b_defused := b_defused b |} s t
  | FxSetDefused :: t => ctor_fx k p arg cause {| b_cbs := b_cbs b; b_ok := b_ok b; b_val := b_val b; b_defused := true |} s t
  | FxSchedule prio d :: t =>
      match t, b_cbs b, b_ok b, b_val b with
      | [], Some l, Some o, Some v =>
          match mk_out o v with
          | Some oc => let '(e, s1) := new_event (mkEvent (Some l) (Some oc) (b_defused b) k) s in
                       Some (schedule e (Z.to_nat prio) d s1, Ok (VEv e))
          | None => None
          end
      | _, _, _, _ => None
      end
  | _ => None
  end.

Lemma neg_delay_spec d : neg_delay d = negb (Qle_bool 0 d).
Proof.
  unfold neg_delay. destruct (d ?= 0) eqn:E.
  - apply Qeq_alt in E. symmetry. apply negb_false_iff, Qle_bool_iff. rewrite E. apply Qle_refl.
  - apply Qlt_alt in E. symmetry. apply negb_true_iff. destruct (Qle_bool 0 d) eqn:L; [|reflexivity].
    apply Qle_bool_iff in L. exfalso. apply (Qlt_not_le _ _ E L).
  - apply Qgt_alt in E. symmetry. apply negb_false_iff, Qle_bool_iff. apply Qlt_le_weak. exact E.
Qed.

(* Timeout(env, delay, value) *)
Lemma bridge_timeout_init d v s :
  ctor_fx KTimeout 0%nat v VNone build0 s (gen_Timeout_init d) = Some (call_timeout d v s).
Proof.
  unfold gen_Timeout_init, call_timeout. rewrite neg_delay_spec.
  destruct (Qle_bool 0 d); cbn; reflexivity.
Qed.

(* Initialize(env, process): the second half of Process.__init__ ([call_spawn]) *)
Definition init_of_spawn (p : pid) (s1 : state) : state * outcome :=
  let '(ie, s2) := new_event (mkEvent (Some [CbResume p]) (Some (Ok VNone)) false (KInit p)) s1 in
  (schedule ie URGENT 0 s2, Ok (VEv ie)).

Lemma bridge_initialize_init p s1 :
  ctor_fx (KInit p) p VNone VNone build0 s1 gen_Initialize_init = Some (init_of_spawn p s1).
Proof. reflexivity. Qed.

Lemma spawn_uses_init codes code arg s pr :
  nth_error codes code = Some pr ->
  let p := length (procs s) in
  let '(pe, s1) := new_event (mkEvent (Some []) None false (KProcess p)) s in
  let s3 := fst (init_of_spawn p s1) in
  call_spawn codes code arg s =
    (set_procs (procs s3 ++ [mkProc pr (start pr arg) pe (Some (length (events s1)))]) s3, Ok (VEv pe)).
Proof. intros H. unfold call_spawn, init_of_spawn. rewrite H. reflexivity. Qed.

(* Interruption(process, cause) = Process.interrupt(cause) *)
Definition interruption_gen (ev : event) (p : pid) (s : state) : list kernel_fx :=
  gen_Interruption_init (is_triggered ev) (match active s with Some a => Nat.eqb a p | None => false end).

Lemma bridge_interruption_init e cause s ev p :
  get_event e s = Some ev -> kind ev = KProcess p ->
  match ctor_fx (KInterruption p) p VNone cause build0 s (interruption_gen ev p s) with
  | Some (s', Ok _) => call_interrupt e cause s = (s', Ok VNone)       (* interrupt() returns None *)
  | Some (s', Fail x) => call_interrupt e cause s = (s', Fail x)
  | None => False
  end.
Proof.
  intros H K. unfold call_interrupt, interruption_gen, gen_Interruption_init. rewrite H, K.
  destruct (is_triggered ev); [reflexivity|].
  destruct (match active s with Some a => Nat.eqb a p | None => false end); reflexivity.
Qed.

Lemma bridge_process_interrupt : gen_Process_interrupt = [FxNewInterruption].
Proof. reflexivity. Qed.

(* ---- Interruption._interrupt ----------------------------------------------------------------------------------- *)
Definition interrupt_cb_fx (fuel : nat) (codes : list prog) (i : evid) (p : pid) (pr : procrec) (s : state)
           (fx : list kernel_fx) : option (state * result) :=
  match fx with
  | [] => Some (s, ROk)                                                          (* the process is dead: ignored *)
  | [FxRemoveResumeFromTarget; FxResumeProcess] =>
      match ptarget pr with
      | Some t =>
          match get_event t s with
          | Some tev =>
              match cbs tev with
              | None => Some (s, RRaise (kexn EAttribute M_target_processed))      (* None.remove *)
              | Some l =>
                  if mem_cb (CbResume p) l
                  then Some (resume_proc fuel codes p i (upd_event t (ev_set_cbs (Some (remove_first (CbResume p) l))) s))
                  else Some (s, RRaise (kexn EValue M_not_in_list))                (* list.remove(x): x not in list *)
              end
          | None => None
          end
      | None => None
      end
  | _ => None
  end.

Lemma bridge_interrupt_cb fuel codes i s iev p pr pe t tev :
  get_event i s = Some iev -> kind iev = KInterruption p -> get_proc p s = Some pr ->
  get_event (pev pr) s = Some pe -> ptarget pr = Some t -> get_event t s = Some tev ->
  interrupt_cb_fx fuel codes i p pr s (gen_Interruption_interrupt (is_triggered pe)) = Some (do_interruption fuel codes i s).
Proof.
  intros Hi Hk Hp Hpe Ht Htev. unfold do_interruption, gen_Interruption_interrupt, interrupt_cb_fx.
  rewrite Hi, Hk, Hp, Hpe. destruct (is_triggered pe); [reflexivity|].
  rewrite Ht, Htev. destruct (cbs tev) as [l|]; [|reflexivity]. destruct (mem_cb (CbResume p) l); reflexivity.
Qed.

(* ---- StopSimulation.callback ------------------------------------------------------------------------------------- *)
Definition stop_cb_fx (e : evid) (s : state) (fx : list kernel_fx) : option (state * result) :=
  match fx, get_event e s with
  | [FxRaiseStopValue], Some ev => match out ev with Some (Ok v) => Some (s, RStop v) | _ => None end
  | [FxRaiseEventValue], Some ev => match out ev with Some (Fail x) => Some (s, RRaise x) | _ => None end
  | _, _ => None
  end.

Lemma bridge_stop_cb e s ev o :
  get_event e s = Some ev -> out ev = Some o ->
  stop_cb_fx e s (gen_StopSimulation_callback (match o with Ok _ => true | Fail _ => false end)) = Some (stop_cb e s).
Proof.
  intros H Ho. unfold stop_cb, stop_cb_fx, gen_StopSimulation_callback. rewrite H, Ho.
  destruct o; cbn; rewrite ?H, ?Ho; reflexivity.
Qed.

(* ---- Event.trigger (model: Kernel/Trigger.v) ----------------------------------------------------------------------- *)
Definition trigger_copy_fx (e : evid) (o : outcome) (s : state) (fx : list kernel_fx) : option (state * outcome) :=
  match fx with
  | [FxCopyOk; FxCopyValue; FxSchedule prio d] =>
      Some (schedule e (Z.to_nat prio) d (upd_event e (ev_set_out (Some o)) s), Ok VNone)
  | _ => None
  end.

Lemma bridge_trigger e other s ev oev o :
  get_event e s = Some ev -> get_event other s = Some oev -> out oev = Some o ->
  trigger_copy_fx e o s gen_Event_trigger = Some (call_trigger e other s).
Proof. intros He Ho Hout. unfold call_trigger. rewrite He, Ho, Hout. reflexivity. Qed.

(* ---- Process.__init__ and Process.is_alive -------------------------------------------------------------------------- *)
Definition process_init_fx (codes : list prog) (code : nat) (arg : val) (s : state) (fx : list kernel_fx) : option (state * outcome) :=
  match fx, nth_error codes code with
  | [FxRaiseNotGenerator], None => Some (s, Fail (kexn EValue M_not_a_generator))
  | [FxSetEnv; FxSetCallbacksEmpty; FxSetGenerator; FxNewInitialize], Some pr =>
      let p := length (procs s) in
      let '(pe, s1) := new_event (mkEvent (Some []) None false (KProcess p)) s in       (* env, callbacks = [] *)
      let s3 := fst (init_of_spawn p s1) in                                              (* Initialize(env, self) *)
      Some (set_procs (procs s3 ++ [mkProc pr (start pr arg) pe (Some (length (events s1)))]) s3, Ok (VEv pe))
  | _, _ => None
  end.

Lemma bridge_process_init codes code arg s :
  process_init_fx codes code arg s (gen_Process_init (match nth_error codes code with Some _ => true | None => false end)) =
  Some (call_spawn codes code arg s).
Proof.
  unfold process_init_fx, gen_Process_init. destruct (nth_error codes code) as [pr|] eqn:E; cbn [negb].
  - pose proof (spawn_uses_init codes code arg s pr E) as H. cbv zeta in H.
    destruct (new_event (mkEvent (Some []) None false (KProcess (length (procs s)))) s) as [pe s1]. rewrite H. reflexivity.
  - unfold call_spawn. rewrite E. reflexivity.
Qed.

Lemma bridge_is_alive e s ev p :
  get_event e s = Some ev -> kind ev = KProcess p ->
  call_query QAlive e s = (s, Ok (vbool (snd (gen_Process_is_alive (negb (is_triggered ev)))))) /\
  fst (gen_Process_is_alive (negb (is_triggered ev))) = [].
Proof. intros H K. unfold call_query. rewrite H, K. split; reflexivity. Qed.

(* ---- witnesses ------------------------------------------------------------------------------------------------------ *)
(* two events, the second triggered with 5: trigger copies its outcome onto the first *)
Definition ex_trig_state : state :=
  fst (call_succeed 1%nat (VInt 5) (fst (call_event (fst (call_event (init_state 0)))))).
Lemma ex_trigger :
  trigger_copy_fx 0%nat (Ok (VInt 5)) ex_trig_state gen_Event_trigger = Some (call_trigger 0%nat 1%nat ex_trig_state) /\
  option_map out (get_event 0%nat (fst (call_trigger 0%nat 1%nat ex_trig_state))) = Some (Some (Ok (VInt 5))) /\
  length (agenda (fst (call_trigger 0%nat 1%nat ex_trig_state))) = 2%nat.
Proof. repeat split; vm_compute; reflexivity. Qed.

(* a failed event (an Interrupt) at the head of the agenda with a recording callback: step raises it *)
Lemma ex_succeed_fail_step :
  let s := fst (call_event (init_state 0)) in
  (exists ev, get_event 0%nat s = Some ev /\
     trigger_fx 0%nat (VInt 3) None None s (gen_Event_succeed (is_triggered ev)) = Some (call_succeed 0%nat (VInt 3) s) /\
     trigger_fx 0%nat (VExn (EUser 1) []) None None s (gen_Event_fail (is_triggered ev) true) =
       Some (call_fail 0%nat (VExn (EUser 1) []) s)) /\
  snd (step 1 [] (fst (call_fail 0%nat (VExn (EUser 1) []) s))) = RRaise (EUser 1, []) /\
  step_fx 1 [] (fst (call_fail 0%nat (VExn (EUser 1) []) s)) (step_gen 1 [] (fst (call_fail 0%nat (VExn (EUser 1) []) s))) =
    Some (step 1 [] (fst (call_fail 0%nat (VExn (EUser 1) []) s))).
Proof.
  cbv zeta. split; [eexists; split; [reflexivity|]; split; reflexivity|].
  split; [vm_compute; reflexivity|]. apply bridge_step. vm_compute. discriminate.
Qed.

(* a freshly spawned process (its generator returns at once): alive until its Process event is triggered *)
Definition ex_prog : prog := mkProg unit (fun _ => tt) (fun _ _ => FRet VNone).
Definition ex_proc_state : state := fst (call_spawn [ex_prog] 0%nat VNone (init_state 0)).
Lemma ex_is_alive :
  exists ev, get_event 0%nat ex_proc_state = Some ev /\ kind ev = KProcess 0%nat /\
  call_query QAlive 0%nat ex_proc_state = (ex_proc_state, Ok (vbool true)) /\
  snd (gen_Process_is_alive (negb (is_triggered ev))) = true /\
  (* after the Initialize step the generator has returned: not alive any more *)
  fst (call_query QAlive 0%nat (fst (step 1 [ex_prog] ex_proc_state))) = fst (step 1 [ex_prog] ex_proc_state) /\
  snd (call_query QAlive 0%nat (fst (step 1 [ex_prog] ex_proc_state))) = Ok (vbool false).
Proof.
  exists (mkEvent (Some []) None false (KProcess 0%nat)).
  split; [vm_compute; reflexivity|]. split; [reflexivity|]. split; [vm_compute; reflexivity|].
  split; [reflexivity|]. split; vm_compute; reflexivity.
Qed.

(* run(until = an event triggered with 7): after the prelude the event carries the stop callback; the step stops with 7 *)
Definition ex_stop_state : state :=
  add_callback 0%nat CbStop (fst (call_succeed 0%nat (VInt 7) (fst (call_event (init_state 0))))).
Lemma ex_stop_callback_step :
  (exists ev, get_event 0%nat ex_stop_state = Some ev /\ out ev = Some (Ok (VInt 7)) /\
     stop_cb_fx 0%nat ex_stop_state (gen_StopSimulation_callback true) = Some (stop_cb 0%nat ex_stop_state)) /\
  snd (stop_cb 0%nat ex_stop_state) = RStop (VInt 7) /\
  snd (step 1 [] ex_stop_state) <> RBroken /\
  step_fx 1 [] ex_stop_state (step_gen 1 [] ex_stop_state) = Some (step 1 [] ex_stop_state) /\
  snd (step 1 [] ex_stop_state) = RStop (VInt 7).
Proof.
  split; [eexists; split; [reflexivity|]; split; reflexivity|].
  split; [vm_compute; reflexivity|]. split; [vm_compute; discriminate|].
  split; [apply bridge_step; vm_compute; discriminate|vm_compute; reflexivity].
Qed.

Lemma ex_defused_get :
  exists ev, get_event 0%nat ex_stop_state = Some ev /\
  call_query QDefused 0%nat ex_stop_state = (ex_stop_state, Ok (vbool false)) /\
  snd (gen_Event_defused_get (defused ev)) = false.
Proof. eexists. split; [reflexivity|]. split; reflexivity. Qed.

(* ---- the read-only properties of Event: triggered, processed, ok, value ----------------------------------------------- *)
Definition value_fx (ev : event) (s : state) (fx : list kernel_fx) : option (state * outcome) :=
  match fx with
  | [FxRaiseValuePending] => Some (s, Fail (kexn EAttribute M_value_pending))
  | [FxReturnValue] => match raw_value ev with Some v => Some (s, Ok v) | None => None end
  | _ => None
  end.

Lemma bridge_event_queries e s ev :
  get_event e s = Some ev ->
  call_query QTriggered e s = (s, Ok (vbool (snd (gen_Event_triggered (is_triggered ev))))) /\
  call_query QProcessed e s = (s, Ok (vbool (snd (gen_Event_processed (is_processed ev))))) /\
  (forall o, out ev = Some o ->
     call_query QOk e s = (s, Ok (vbool (snd (gen_Event_ok (match o with Ok _ => true | Fail _ => false end)))))) /\
  value_fx ev s (gen_Event_value (negb (is_triggered ev))) = Some (call_query QValue e s).
Proof.
  intros H. unfold call_query, gen_Event_value, value_fx, is_triggered, raw_value. rewrite H.
  split; [reflexivity|]. split; [reflexivity|]. split.
  - intros o Ho. rewrite Ho. destruct o; reflexivity.
  - destruct (out ev) as [[v|x]|]; reflexivity.
Qed.

Lemma ex_event_queries :
  exists ev, get_event 0%nat ex_stop_state = Some ev /\ out ev = Some (Ok (VInt 7)) /\
  call_query QTriggered 0%nat ex_stop_state = (ex_stop_state, Ok (vbool true)) /\
  call_query QProcessed 0%nat ex_stop_state = (ex_stop_state, Ok (vbool false)) /\
  call_query QOk 0%nat ex_stop_state = (ex_stop_state, Ok (vbool true)) /\
  call_query QValue 0%nat ex_stop_state = (ex_stop_state, Ok (VInt 7)) /\
  gen_Event_value (negb (is_triggered ev)) = [FxReturnValue].
Proof. eexists. split; [reflexivity|]. repeat split; reflexivity. Qed.
