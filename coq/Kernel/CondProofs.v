(* Kernel/CondProofs.v -- C05 (conditions), part 3: the property theorems.
   Statements are collected in Props/C05.v; see there for the reading of each theorem. *)
From Coq Require Import ZArith QArith List Bool Lia.
From ONL Require Import Kernel.Model Kernel.Keys Kernel.Cond Kernel.CondInv.
Import ListNotations.

(* ------------------------------------------------------------------------------------------------ *)
(* what one primitive does to one event: kinds are fixed (only the counter of a condition moves, and only in
   _check), an outcome is set once -- by an explicit succeed/fail (label), by _check, or (Process events) by the
   end of the process --, defusal is permanent, only a pop makes an event processed *)

Definition out_step (x : option evid) (a : evid) (ev ev1 : event) : Prop :=
  out ev1 = out ev \/ (out ev = None /\ x = Some a) \/ (exists q, kind ev = KProcess q).

Definition keeps (x : option evid) (s s1 : state) : Prop :=
  forall a ev, get_event a s = Some ev -> exists ev1, get_event a s1 = Some ev1 /\ kind ev1 = kind ev /\
    (defused ev = true -> defused ev1 = true) /\ (cbs ev = None <-> cbs ev1 = None) /\ out_step x a ev ev1.

Definition noproc (s s1 : state) : Prop := forall o, is_proc s1 o = is_proc s o.

Lemma keeps_same x s s1 : events s1 = events s -> keeps x s s1.
Proof.
  intros E a ev H. exists ev. split; [unfold get_event in *; rewrite E; exact H|]. repeat split; auto. left; reflexivity.
Qed.

Lemma keeps_upd x e f s :
  (forall ev, get_event e s = Some ev -> kind (f ev) = kind ev /\ (defused ev = true -> defused (f ev) = true) /\
                (cbs ev = None <-> cbs (f ev) = None) /\ out_step x e ev (f ev)) ->
  keeps x s (upd_event e f s).
Proof.
  intros Hf a ev H. rewrite get_upd. destruct (Nat.eqb a e) eqn:E.
  - apply Nat.eqb_eq in E. subst a. rewrite H. cbn. exists (f ev). split; [reflexivity|apply Hf, H].
  - exists ev. split; [exact H|]. repeat split; auto. left; reflexivity.
Qed.

Lemma noproc_of_keeps x s s1 : keeps x s s1 -> (forall a, get_event a s = None -> is_proc s1 a = false) -> noproc s s1.
Proof.
  intros K N o. unfold is_proc at 2. destruct (get_event o s) as [ev|] eqn:E.
  - destruct (K _ _ E) as (ev1 & E1 & _ & _ & C & _). unfold is_proc. rewrite E1. unfold is_processed.
    destruct (cbs ev), (cbs ev1); auto.
    + destruct C as [_ C]. specialize (C eq_refl). discriminate.
    + destruct C as [C _]. specialize (C eq_refl). discriminate.
  - apply N, E.
Qed.

Lemma is_proc_none s a : get_event a s = None -> is_proc s a = false.
Proof. intros H. unfold is_proc. rewrite H. reflexivity. Qed.

Lemma iprim_keeps x s s1 : iprim x s s1 -> keeps x s s1 /\ noproc s s1.
Proof.
  intros P.
  assert (UPD : forall e f, s1 = upd_event e f s ->
            (forall ev, get_event e s = Some ev -> kind (f ev) = kind ev /\ (defused ev = true -> defused (f ev) = true) /\
                (cbs ev = None <-> cbs (f ev) = None) /\ out_step x e ev (f ev)) -> keeps x s s1 /\ noproc s s1).
  { intros e f -> Hf. pose proof (keeps_upd x e f s Hf) as K. split; [exact K|]. eapply noproc_of_keeps; [exact K|].
    intros a Ha. apply is_proc_none. rewrite get_upd. rewrite Ha. destruct (Nat.eqb a e); reflexivity. }
  assert (SAME : events s1 = events s -> keeps x s s1 /\ noproc s s1).
  { intros E. split; [apply keeps_same, E|]. intros o. unfold is_proc, get_event. rewrite E. reflexivity. }
  destruct P.
  - apply SAME, H.
  - split.
    + intros a ev0 H0. exists ev0. split; [rewrite get_new_old; [exact H0|eapply get_lt, H0]|]. repeat split; auto. left; reflexivity.
    + intros o. unfold is_proc. rewrite get_new. destruct (Nat.ltb o (length (events s))) eqn:L; [reflexivity|].
      apply Nat.ltb_ge in L. rewrite (get_ge o s L). destruct (Nat.eqb o (length (events s))); [|reflexivity].
      destruct H as ((l & C & _) & _). unfold is_processed. rewrite C. reflexivity.
  - apply SAME. reflexivity.
  - eapply UPD; [reflexivity|]. intros ev H0. unfold ev_add_cb. destruct (cbs ev) eqn:C; cbn.
    + repeat split; auto; try discriminate. left; reflexivity.
    + repeat split; auto. left; reflexivity.
  - eapply UPD; [reflexivity|]. intros ev0 H2. rewrite H in H2. injection H2 as <-. cbn.
    repeat split; auto; try discriminate; try congruence. left; reflexivity.
  - eapply UPD; [reflexivity|]. intros ev0 H2. rewrite H in H2. injection H2 as <-. cbn.
    repeat split; auto. right. left. auto.
  - eapply UPD; [reflexivity|]. intros ev0 H2. rewrite H in H2. injection H2 as <-. cbn.
    repeat split; auto. right. right. exists q. exact H0.
  - eapply UPD; [reflexivity|]. intros ev0 H2. cbn. repeat split; auto. left; reflexivity.
  - apply SAME. reflexivity.
  - pose proof (call_cond_spec all es s H) as M. split.
    + intros a ev H0. destruct (cm_old _ _ _ _ M _ _ H0) as (ev' & H' & K & O & D & _ & C). exists ev'.
      split; [exact H'|]. split; [exact K|]. split; [exact D|]. split; [|left; exact O].
      rewrite C. destruct (cbs ev); split; congruence.
    + intros o. unfold is_proc at 2. destruct (get_event o s) as [ev|] eqn:E.
      * destruct (cm_old _ _ _ _ M _ _ E) as (ev' & H' & _ & _ & _ & _ & C). unfold is_proc. rewrite H'.
        unfold is_processed. rewrite C. destruct (cbs ev); reflexivity.
      * apply nth_error_None in E. unfold is_proc. destruct (cm_new _ _ _ _ M) as (cev & n & Hc & _ & Cc & _).
        destruct (Nat.eq_dec o (length (events s))) as [->|N].
        -- rewrite Hc. unfold is_processed. rewrite Cc. reflexivity.
        -- rewrite get_ge; [reflexivity|]. rewrite (cm_len _ _ _ _ M). lia.
Qed.

Lemma iptrace_keeps X' s s' a ev :
  iptrace X' s s' -> ~ In a X' -> get_event a s = Some ev ->
  exists ev1, get_event a s' = Some ev1 /\ kind ev1 = kind ev /\ (defused ev = true -> defused ev1 = true) /\
              (cbs ev = None <-> cbs ev1 = None) /\ (out ev1 = out ev \/ exists q, kind ev = KProcess q).
Proof.
  intros T. revert ev. induction T as [|x X' s s1 s2 P T IH]; intros ev N H.
  - exists ev. repeat split; auto.
  - destruct (proj1 (iprim_keeps _ _ _ P) _ _ H) as (ev1 & H1 & K1 & D1 & C1 & O1).
    assert (N2 : ~ In a X') by (intros Hin; apply N, in_or_app; right; exact Hin).
    destruct (IH ev1 N2 H1) as (ev2 & H2 & K2 & D2 & C2 & O2). exists ev2. split; [exact H2|]. split; [congruence|].
    split; [auto|]. split; [tauto|].
    destruct O1 as [O1|[(O1 & ->)|(q & O1)]].
    + destruct O2 as [O2|(q & O2)]; [left; congruence|right; exists q; congruence].
    + exfalso. apply N. apply in_or_app. left. left. reflexivity.
    + right. exists q. exact O1.
Qed.

Lemma iptrace_noproc X' s s' : iptrace X' s s' -> noproc s s'.
Proof.
  induction 1 as [|x X' s s1 s2 P T IH]; [intros o; reflexivity|].
  intros o. rewrite IH. apply (proj2 (iprim_keeps _ _ _ P)).
Qed.

(* ------------------------------------------------------------------------------------------------ *)
(* induction principle for the callback loop of a step: a family Q (indexed by the explicit triggers so far and
   the callbacks still to run) that is preserved by program activity, by _check, by _build_value, and by the
   consumption of any other callback, holds at the end of every completed loop *)

Section LoopPrinciple.
  Variables (codes : list prog) (fuel : nat) (e : evid).
  Variable Q : list evid -> list cb -> state -> Prop.
  Hypothesis Qi : forall X l X' s s1, winv X l e s -> iptrace X' s s1 -> Q X l s -> Q (X ++ X') l s1.
  Hypothesis Qcheck : forall X c l s, winv X (CbCheck c :: l) e s -> Q X (CbCheck c :: l) s -> Q X l (cond_check c e s).
  Hypothesis Qbuild : forall X l s, winv X (CbBuild e :: l) e s -> Q X (CbBuild e :: l) s -> Q X l (fst (cond_build e s)).
  Hypothesis Qdrop : forall X cb l s, (forall c, cb <> CbCheck c) -> (forall c, cb <> CbBuild c) ->
                                      winv X (cb :: l) e s -> Q X (cb :: l) s -> Q X l s.

  Lemma loop_cb X cb l s s' r :
    winv X (cb :: l) e s -> run_cb fuel codes e cb s = (s', r) -> Q X (cb :: l) s ->
    exists X', winv (X ++ X') l e s' /\ Q (X ++ X') l s'.
  Proof.
    intros W R HQ. pose proof W as (CI & PW & (eev & He & Ce) & WL).
    assert (ViaX : xsteps codes s s' -> (forall c, cb <> CbCheck c) -> (forall c, cb <> CbBuild c) ->
              exists X', winv (X ++ X') l e s' /\ Q (X ++ X') l s').
    { intros (X' & T) N1 N2. exists X'.
      destruct (xtrace_winv codes (cb :: l) e X' s s' T X W) as (W' & _).
      split; [eapply winv_tail, W'|]. eapply Qdrop; [exact N1|exact N2|exact W'|].
      eapply Qi; [exact W|eapply xtrace_iptrace, T|exact HQ]. }
    destruct (run_cb_winv codes fuel X cb l e s s' r W R) as (X0 & _ & W0 & _).
    destruct cb; cbn [run_cb] in R.
    - apply ViaX; try discriminate. pose proof (xs_resume_proc codes fuel p e s PW) as Xs. rewrite R in Xs. exact Xs.
    - injection R as <- <-. exists []. rewrite app_nil_r. split; [|apply Qcheck; assumption].
      assert (CK : chk_ok s e c) by (apply (proj1 WL); left; reflexivity).
      pose proof (grows_cond_check c e s) as G. split; [eapply cinv_cond_check; [exact CI|exact He|exact Ce|apply chk_ok_opnd, CK]|].
      split; [eapply prim_procs_wf; [eapply p_check; [exact He|exact Ce|apply chk_ok_opnd, CK]|exact PW]|].
      split; [eapply grows_processed; [exact G|exists eev; auto]|eapply wl_grows; [exact G|eapply wl_tail, WL]].
    - assert (c = e) by (apply (proj2 WL); left; reflexivity). subst c.
      assert (s' = fst (cond_build e s)) by (rewrite R; reflexivity). subst s'.
      exists []. rewrite app_nil_r. split; [|apply Qbuild; assumption].
      pose proof (grows_cond_build e s) as G. split; [apply cinv_cond_build, CI|].
      split; [eapply prim_procs_wf; [apply p_build|exact PW]|].
      split; [eapply grows_processed; [exact G|exists eev; auto]|eapply wl_grows; [exact G|eapply wl_tail, WL]].
    - apply ViaX; try discriminate. pose proof (xs_do_interruption codes fuel i s PW) as Xs. rewrite R in Xs. exact Xs.
    - apply ViaX; try discriminate. assert (s' = s) by (rewrite <- (stop_cb_state e s), R; reflexivity). subst s'. apply xsteps_refl.
    - injection R as <- <-. apply ViaX; try discriminate. apply xsteps_prim, p_frame. repeat split.
  Qed.

  Lemma loop_all l s s' : cbloop codes fuel e l s s' -> forall X,
    winv X l e s -> Q X l s -> exists X', Q (X ++ X') [] s'.
  Proof.
    induction 1 as [s|c t s s1 s' R1 L IH|t s s1 r1 s' R1 Ex L IH]; intros X W HQ.
    - exists []. rewrite app_nil_r. exact HQ.
    - destruct (loop_cb X c t s s1 ROk W R1 HQ) as (X1 & W1 & Q1).
      destruct (IH _ W1 Q1) as (X2 & Q2). exists (X1 ++ X2). rewrite app_assoc. exact Q2.
    - destruct (loop_cb X CbStop t s s1 r1 W R1 HQ) as (X1 & W1 & Q1).
      destruct (IH _ W1 Q1) as (X2 & Q2). exists (X1 ++ X2). rewrite app_assoc. exact Q2.
  Qed.
End LoopPrinciple.
