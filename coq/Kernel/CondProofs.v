(* Kernel/CondProofs.v -- C05 (conditions), part 3: the property theorems.
   Statements are collected in Props/C05.v; see there for the reading of each theorem. *)
From Coq Require Import ZArith QArith List Bool Lia.
From ONL Require Import Kernel.Model Kernel.Keys Kernel.Cond Kernel.CondInv.
Import ListNotations.

(* ------------------------------------------------------------------------------------------------ *)
(* what one primitive does to one event: kinds are fixed (only the counter of a condition moves, and only in
   _check), an outcome is set once -- by an explicit succeed/fail (label), by _check, or (Process events) by the
   end of the process --, defusal is permanent, only a pop makes an event processed *)

Definition out_step (x : option evid) (a : evid) (ev ev1 : event) : Prop :=
  out ev1 = out ev \/ (out ev = None /\ x = Some a) \/ (exists q, kind ev = KProcess q).

Definition keeps (x : option evid) (s s1 : state) : Prop :=
  forall a ev, get_event a s = Some ev -> exists ev1, get_event a s1 = Some ev1 /\ kind ev1 = kind ev /\
    (defused ev = true -> defused ev1 = true) /\ (cbs ev = None <-> cbs ev1 = None) /\ out_step x a ev ev1.

Definition noproc (s s1 : state) : Prop := forall o, is_proc s1 o = is_proc s o.

Lemma keeps_same x s s1 : events s1 = events s -> keeps x s s1.
Proof.
  intros E a ev H. exists ev. split; [unfold get_event in *; rewrite E; exact H|]. repeat split; auto. left; reflexivity.
Qed.

Lemma keeps_upd x e f s :
  (forall ev, get_event e s = Some ev -> kind (f ev) = kind ev /\ (defused ev = true -> defused (f ev) = true) /\
                (cbs ev = None <-> cbs (f ev) = None) /\ out_step x e ev (f ev)) ->
  keeps x s (upd_event e f s).
Proof.
  intros Hf a ev H. rewrite get_upd. destruct (Nat.eqb a e) eqn:E.
  - apply Nat.eqb_eq in E. subst a. rewrite H. cbn. exists (f ev). split; [reflexivity|apply Hf, H].
  - exists ev. split; [exact H|]. repeat split; auto. left; reflexivity.
Qed.

Lemma noproc_of_keeps x s s1 : keeps x s s1 -> (forall a, get_event a s = None -> is_proc s1 a = false) -> noproc s s1.
Proof.
  intros K N o. unfold is_proc at 2. destruct (get_event o s) as [ev|] eqn:E.
  - destruct (K _ _ E) as (ev1 & E1 & _ & _ & C & _). unfold is_proc. rewrite E1. unfold is_processed.
    destruct (cbs ev), (cbs ev1); auto.
    + destruct C as [_ C]. specialize (C eq_refl). discriminate.
    + destruct C as [C _]. specialize (C eq_refl). discriminate.
  - apply N, E.
Qed.

Lemma is_proc_none s a : get_event a s = None -> is_proc s a = false.
Proof. intros H. unfold is_proc. rewrite H. reflexivity. Qed.

Lemma iprim_keeps x s s1 : iprim x s s1 -> keeps x s s1 /\ noproc s s1.
Proof.
  intros P.
  assert (UPD : forall e f, s1 = upd_event e f s ->
            (forall ev, get_event e s = Some ev -> kind (f ev) = kind ev /\ (defused ev = true -> defused (f ev) = true) /\
                (cbs ev = None <-> cbs (f ev) = None) /\ out_step x e ev (f ev)) -> keeps x s s1 /\ noproc s s1).
  { intros e f -> Hf. pose proof (keeps_upd x e f s Hf) as K. split; [exact K|]. eapply noproc_of_keeps; [exact K|].
    intros a Ha. apply is_proc_none. rewrite get_upd. rewrite Ha. destruct (Nat.eqb a e); reflexivity. }
  assert (SAME : events s1 = events s -> keeps x s s1 /\ noproc s s1).
  { intros E. split; [apply keeps_same, E|]. intros o. unfold is_proc, get_event. rewrite E. reflexivity. }
  destruct P.
  - apply SAME, H.
  - split.
    + intros a ev0 H0. exists ev0. split; [rewrite get_new_old; [exact H0|eapply get_lt, H0]|]. repeat split; auto. left; reflexivity.
    + intros o. unfold is_proc. rewrite get_new. destruct (Nat.ltb o (length (events s))) eqn:L; [reflexivity|].
      apply Nat.ltb_ge in L. rewrite (get_ge o s L). destruct (Nat.eqb o (length (events s))); [|reflexivity].
      destruct H as ((l & C & _) & _). unfold is_processed. rewrite C. reflexivity.
  - apply SAME. reflexivity.
  - eapply UPD; [reflexivity|]. intros ev H0. unfold ev_add_cb. destruct (cbs ev) eqn:C; cbn.
    + repeat split; auto; try discriminate. left; reflexivity.
    + repeat split; auto. left; reflexivity.
  - eapply UPD; [reflexivity|]. intros ev0 H2. rewrite H in H2. injection H2 as <-. cbn.
    repeat split; auto; try discriminate; try congruence. left; reflexivity.
  - eapply UPD; [reflexivity|]. intros ev0 H2. rewrite H in H2. injection H2 as <-. cbn.
    repeat split; auto. right. left. auto.
  - eapply UPD; [reflexivity|]. intros ev0 H2. rewrite H in H2. injection H2 as <-. cbn.
    repeat split; auto. right. right. exists q. exact H0.
  - eapply UPD; [reflexivity|]. intros ev0 H2. cbn. repeat split; auto. left; reflexivity.
  - apply SAME. reflexivity.
  - pose proof (call_cond_spec all es s H) as M. split.
    + intros a ev H0. destruct (cm_old _ _ _ _ M _ _ H0) as (ev' & H' & K & O & D & _ & C). exists ev'.
      split; [exact H'|]. split; [exact K|]. split; [exact D|]. split; [|left; exact O].
      rewrite C. destruct (cbs ev); split; congruence.
    + intros o. unfold is_proc at 2. destruct (get_event o s) as [ev|] eqn:E.
      * destruct (cm_old _ _ _ _ M _ _ E) as (ev' & H' & _ & _ & _ & _ & C). unfold is_proc. rewrite H'.
        unfold is_processed. rewrite C. destruct (cbs ev); reflexivity.
      * apply nth_error_None in E. unfold is_proc. destruct (cm_new _ _ _ _ M) as (cev & n & Hc & _ & Cc & _).
        destruct (Nat.eq_dec o (length (events s))) as [->|N].
        -- rewrite Hc. unfold is_processed. rewrite Cc. reflexivity.
        -- rewrite get_ge; [reflexivity|]. rewrite (cm_len _ _ _ _ M). lia.
Qed.

Lemma iptrace_keeps X' s s' a ev :
  iptrace X' s s' -> ~ In a X' -> get_event a s = Some ev ->
  exists ev1, get_event a s' = Some ev1 /\ kind ev1 = kind ev /\ (defused ev = true -> defused ev1 = true) /\
              (cbs ev = None <-> cbs ev1 = None) /\ (out ev1 = out ev \/ exists q, kind ev = KProcess q).
Proof.
  intros T. revert ev. induction T as [|x X' s s1 s2 P T IH]; intros ev N H.
  - exists ev. repeat split; auto.
  - destruct (proj1 (iprim_keeps _ _ _ P) _ _ H) as (ev1 & H1 & K1 & D1 & C1 & O1).
    assert (N2 : ~ In a X') by (intros Hin; apply N, in_or_app; right; exact Hin).
    destruct (IH ev1 N2 H1) as (ev2 & H2 & K2 & D2 & C2 & O2). exists ev2. split; [exact H2|]. split; [congruence|].
    split; [auto|]. split; [tauto|].
    destruct O1 as [O1|[(O1 & ->)|(q & O1)]].
    + destruct O2 as [O2|(q & O2)]; [left; congruence|right; exists q; congruence].
    + exfalso. apply N. apply in_or_app. left. left. reflexivity.
    + right. exists q. exact O1.
Qed.

Lemma iptrace_noproc X' s s' : iptrace X' s s' -> noproc s s'.
Proof.
  induction 1 as [|x X' s s1 s2 P T IH]; [intros o; reflexivity|].
  intros o. rewrite IH. apply (proj2 (iprim_keeps _ _ _ P)).
Qed.

(* ------------------------------------------------------------------------------------------------ *)
(* induction principle for the callback loop of a step: a family Q (indexed by the explicit triggers so far and
   the callbacks still to run) that is preserved by program activity, by _check, by _build_value, and by the
   consumption of any other callback, holds at the end of every completed loop *)

Section LoopPrinciple.
  Variables (codes : list prog) (fuel : nat) (e : evid).
  Variable Q : list evid -> list cb -> state -> Prop.
  Hypothesis Qi : forall X l X' s s1, winv X l e s -> iptrace X' s s1 -> Q X l s -> Q (X ++ X') l s1.
  Hypothesis Qcheck : forall X c l s, winv X (CbCheck c :: l) e s -> Q X (CbCheck c :: l) s -> Q X l (cond_check c e s).
  Hypothesis Qbuild : forall X l s, winv X (CbBuild e :: l) e s -> Q X (CbBuild e :: l) s -> Q X l (fst (cond_build e s)).
  Hypothesis Qdrop : forall X cb l s, (forall c, cb <> CbCheck c) -> (forall c, cb <> CbBuild c) ->
                                      winv X (cb :: l) e s -> Q X (cb :: l) s -> Q X l s.

  Lemma loop_cb X cb l s s' r :
    winv X (cb :: l) e s -> run_cb fuel codes e cb s = (s', r) -> Q X (cb :: l) s ->
    exists X', etrace codes X' s s' /\ winv (X ++ X') l e s' /\ Q (X ++ X') l s'.
  Proof.
    intros W R HQ. pose proof W as (CI & PW & (eev & He & Ce) & WL).
    assert (ViaX : xsteps codes s s' -> (forall c, cb <> CbCheck c) -> (forall c, cb <> CbBuild c) ->
              exists X', etrace codes X' s s' /\ winv (X ++ X') l e s' /\ Q (X ++ X') l s').
    { intros (X' & T) N1 N2. exists X'.
      destruct (xtrace_winv codes (cb :: l) e X' s s' T X W) as (W' & _).
      split; [rewrite <- (app_nil_r X'); econstructor; [apply es_x, T|constructor]|].
      split; [eapply winv_tail, W'|]. eapply Qdrop; [exact N1|exact N2|exact W'|].
      eapply Qi; [exact W|eapply xtrace_iptrace, T|exact HQ]. }
    destruct (run_cb_winv codes fuel X cb l e s s' r W R) as (X0 & _ & W0 & _).
    destruct cb; cbn [run_cb] in R.
    - apply ViaX; try discriminate. pose proof (xs_resume_proc codes fuel p e s PW) as Xs. rewrite R in Xs. exact Xs.
    - injection R as <- <-. assert (CK : chk_ok s e c) by (apply (proj1 WL); left; reflexivity).
      exists []. rewrite app_nil_r.
      split; [rewrite <- (app_nil_r []); econstructor; [eapply es_check; [exact He|exact Ce|apply chk_ok_opnd, CK]|constructor]|].
      split; [|apply Qcheck; assumption].
      pose proof (grows_cond_check c e s) as G. split; [eapply cinv_cond_check; [exact CI|exact He|exact Ce|apply chk_ok_opnd, CK]|].
      split; [eapply prim_procs_wf; [eapply p_check; [exact He|exact Ce|apply chk_ok_opnd, CK]|exact PW]|].
      split; [eapply grows_processed; [exact G|exists eev; auto]|eapply wl_grows; [exact G|eapply wl_tail, WL]].
    - assert (c = e) by (apply (proj2 WL); left; reflexivity). subst c.
      assert (s' = fst (cond_build e s)) by (rewrite R; reflexivity). subst s'.
      exists []. rewrite app_nil_r.
      split; [rewrite <- (app_nil_r []); econstructor; [apply es_build|constructor]|].
      split; [|apply Qbuild; assumption].
      pose proof (grows_cond_build e s) as G. split; [apply cinv_cond_build, CI|].
      split; [eapply prim_procs_wf; [apply p_build|exact PW]|].
      split; [eapply grows_processed; [exact G|exists eev; auto]|eapply wl_grows; [exact G|eapply wl_tail, WL]].
    - apply ViaX; try discriminate. pose proof (xs_do_interruption codes fuel i s PW) as Xs. rewrite R in Xs. exact Xs.
    - apply ViaX; try discriminate. assert (s' = s) by (rewrite <- (stop_cb_state e s), R; reflexivity). subst s'. apply xsteps_refl.
    - injection R as <- <-. apply ViaX; try discriminate. apply xsteps_prim, p_frame. repeat split.
  Qed.

  Lemma loop_all l s s' : cbloop codes fuel e l s s' -> forall X,
    winv X l e s -> Q X l s -> exists X', etrace codes X' s s' /\ Q (X ++ X') [] s'.
  Proof.
    induction 1 as [s|c t s s1 s' R1 L IH|t s s1 r1 s' R1 Ex L IH]; intros X W HQ.
    - exists []. rewrite app_nil_r. split; [constructor|exact HQ].
    - destruct (loop_cb X c t s s1 ROk W R1 HQ) as (X1 & T1 & W1 & Q1).
      destruct (IH _ W1 Q1) as (X2 & T2 & Q2). exists (X1 ++ X2). rewrite app_assoc. split; [eapply et_app; eassumption|exact Q2].
    - destruct (loop_cb X CbStop t s s1 r1 W R1 HQ) as (X1 & T1 & W1 & Q1).
      destruct (IH _ W1 Q1) as (X2 & T2 & Q2). exists (X1 ++ X2). rewrite app_assoc. split; [eapply et_app; eassumption|exact Q2].
  Qed.
End LoopPrinciple.

(* ------------------------------------------------------------------------------------------------ *)
(* what _check and _build_value do to the individual events *)

Lemma cond_check_cbs c0 o s a : option_map cbs (get_event a (cond_check c0 o s)) = option_map cbs (get_event a s).
Proof.
  unfold cond_check. destruct (get_event c0 s) as [cev|] eqn:Hc; [|reflexivity].
  destruct (get_event o s) as [oev|] eqn:Ho; [|reflexivity].
  destruct (out cev); [reflexivity|]. destruct (kind cev); try reflexivity.
  assert (U : forall e f s1, (forall ev, cbs (f ev) = cbs ev) -> option_map cbs (get_event a (upd_event e f s1)) = option_map cbs (get_event a s1)).
  { intros e f s1 Hf. rewrite get_upd. destruct (Nat.eqb a e); [|reflexivity]. destruct (get_event a s1); cbn; [rewrite Hf|]; reflexivity. }
  destruct (out oev) as [[v|x]|]; [destruct (cond_evaluate _ _ _)| |destruct (cond_evaluate _ _ _)];
    unfold trigger_event; rewrite ?get_schedule, ?U by reflexivity; reflexivity.
Qed.

Lemma cond_check_noproc c0 o s : noproc s (cond_check c0 o s).
Proof.
  intros a. unfold is_proc. pose proof (cond_check_cbs c0 o s a) as H.
  destruct (get_event a (cond_check c0 o s)) as [x|], (get_event a s) as [y|]; cbn in H; try discriminate; [|reflexivity].
  injection H as H. unfold is_processed. rewrite H. reflexivity.
Qed.

Definition build_rel (e a : evid) (x y : event) : Prop :=
  kind y = kind x /\ defused y = defused x /\ (cbs x = None <-> cbs y = None) /\
  (out y = out x \/ (a = e /\ exists v v', out x = Some (Ok v) /\ out y = Some (Ok v'))).

Lemma cond_build_rel e s a :
  match get_event a s, get_event a (fst (cond_build e s)) with
  | Some x, Some y => build_rel e a x y
  | None, None => True
  | _, _ => False
  end.
Proof.
  unfold cond_build. destruct (remove_checks (S e) e s) as [s1|] eqn:R.
  2:{ cbn [fst]. destruct (get_event a s); [|exact I]. repeat split; auto. }
  pose proof (rmsteps_rmrel _ _ _ (remove_checks_rm _ _ _ _ R) a) as RR.
  assert (Base : match get_event a s, get_event a s1 with Some x, Some y => build_rel e a x y | None, None => True | _, _ => False end).
  { destruct (get_event a s), (get_event a s1); auto. destruct RR as (K & O & D & C & _). repeat split; auto; tauto. }
  destruct (get_event e s1) as [cev|] eqn:Hc; [|exact Base].
  destruct (out cev) as [[v|x]|] eqn:Oc; try exact Base.
  destruct (kind cev) eqn:Kc; try exact Base.
  destruct (populate (S e) (events s1) ops); [|exact Base]. cbn [fst].
  rewrite get_upd. destruct (Nat.eqb a e) eqn:E; [|exact Base].
  apply Nat.eqb_eq in E. subst a. rewrite Hc in *. cbn. destruct (get_event e s) as [x|]; [|contradiction].
  destruct Base as (K & D & C & O). split; [exact K|]. split; [exact D|]. split; [exact C|]. right. split; [reflexivity|].
  destruct O as [O|(_ & v1 & v2 & O1 & O2)].
  - exists v. eexists. split; [congruence|reflexivity].
  - exists v1. eexists. split; [exact O1|reflexivity].
Qed.

Lemma cond_build_noproc e s : noproc s (fst (cond_build e s)).
Proof.
  intros a. unfold is_proc. pose proof (cond_build_rel e s a) as H.
  destruct (get_event a s) as [x|], (get_event a (fst (cond_build e s))) as [y|]; try contradiction; [|reflexivity].
  destruct H as (_ & _ & C & _). unfold is_processed. destruct (cbs x), (cbs y); auto.
  - destruct C as [_ C]. specialize (C eq_refl). discriminate.
  - destruct C as [C _]. specialize (C eq_refl). discriminate.
Qed.

(* ------------------------------------------------------------------------------------------------ *)
(* one step seen from one pending condition c: the popped event is e, l are e's callbacks still to run *)

Section OneCondition.
  Variables (codes : list prog) (fuel : nat) (e c : evid) (all : bool) (ops : list evid) (s0 : state).
  Hypothesis Nce : c <> e.

  Definition kproc (ev : event) : Prop := exists q, kind ev = KProcess q.

  Definition TR (l : list cb) (s : state) : Prop :=
    exists cev n eev, get_event c s = Some cev /\ kind cev = KCond all ops n /\ get_event e s = Some eev /\ out eev <> None /\
      (~ In e ops -> out cev = None /\ cbcount (CbCheck c) l = 0%nat) /\
      (In e ops ->
         (out cev = None /\ (all = false -> 0 < cbcount (CbCheck c) l)%nat /\
            (is_failed eev = true -> (0 < cbcount (CbCheck c) l)%nat \/ kproc eev)) \/
         (exists x, out cev = Some (Fail x) /\ defused eev = true /\ (out eev = Some (Fail x) \/ kproc eev)) \/
         (out cev = Some (Ok VNone) /\ cond_evaluate all (length ops) n = true /\ (is_failed eev = false \/ kproc eev))).

  Definition QQ (X : list evid) (l : list cb) (s : state) : Prop :=
    noproc s0 s /\ (~ In c X -> TR l s).

  Lemma cbcount_check_cons c0 l : cbcount (CbCheck c) (CbCheck c0 :: l) = ((if Nat.eqb c c0 then 1 else 0) + cbcount (CbCheck c) l)%nat.
  Proof. rewrite cbcount_cons. reflexivity. Qed.

  (* transfer of the facts about e to a later record of e *)
  Lemma TR_transfer l s s1 cev n eev cev1 eev1 :
    get_event c s = Some cev -> kind cev = KCond all ops n -> get_event e s = Some eev -> out eev <> None ->
    get_event c s1 = Some cev1 -> kind cev1 = KCond all ops n -> out cev1 = out cev ->
    get_event e s1 = Some eev1 -> kind eev1 = kind eev -> (defused eev = true -> defused eev1 = true) ->
    (ostat (out eev1) = ostat (out eev) /\ (forall x, out eev = Some (Fail x) -> out eev1 = Some (Fail x)) \/ kproc eev) ->
    out eev1 <> None ->
    ((~ In e ops -> out cev = None /\ cbcount (CbCheck c) l = 0%nat) /\
     (In e ops ->
         (out cev = None /\ (all = false -> 0 < cbcount (CbCheck c) l)%nat /\
            (is_failed eev = true -> (0 < cbcount (CbCheck c) l)%nat \/ kproc eev)) \/
         (exists x, out cev = Some (Fail x) /\ defused eev = true /\ (out eev = Some (Fail x) \/ kproc eev)) \/
         (out cev = Some (Ok VNone) /\ cond_evaluate all (length ops) n = true /\ (is_failed eev = false \/ kproc eev)))) ->
    TR l s1.
  Proof.
    intros Hc Kc He Oe Hc1 Kc1 Oc1 He1 Ke1 De1 Oe1 One1 (A & B).
    assert (KP : kproc eev -> kproc eev1) by (intros (q & H); exists q; congruence).
    exists cev1, n, eev1. split; [exact Hc1|]. split; [exact Kc1|]. split; [exact He1|]. split; [exact One1|].
    rewrite Oc1. split; [exact A|]. intros Io. destruct (B Io) as [(O & L1 & L2)|[(x & O & D & E)|(O & Ev & F)]].
    - left. split; [exact O|]. split; [exact L1|]. intros F1.
      destruct Oe1 as [(St & _)|K]; [|right; apply KP, K].
      destruct (L2 ltac:(unfold is_failed in *; destruct (out eev1) as [[?|?]|], (out eev) as [[?|?]|]; cbn in St; congruence)) as [H|H]; [left; exact H|right; apply KP, H].
    - right. left. exists x. split; [exact O|]. split; [auto|].
      destruct E as [E|K]; [|right; apply KP, K]. destruct Oe1 as [(_ & Fx)|K]; [left; apply Fx, E|right; apply KP, K].
    - right. right. split; [exact O|]. split; [exact Ev|].
      destruct F as [F|K]; [|right; apply KP, K]. destruct Oe1 as [(St & _)|K]; [|right; apply KP, K].
      left. unfold is_failed in *. destruct (out eev1) as [[?|?]|], (out eev) as [[?|?]|]; cbn in St; congruence.
  Qed.

  Lemma iptrace_keeps_e X' s s1 eev :
    iptrace X' s s1 -> get_event e s = Some eev -> out eev <> None ->
    exists eev1, get_event e s1 = Some eev1 /\ kind eev1 = kind eev /\ (defused eev = true -> defused eev1 = true) /\
                 (out eev1 = out eev \/ kproc eev) /\ out eev1 <> None.
  Proof.
    intros T. revert eev. induction T as [|x X' s s1 s2 P T IH]; intros eev He Oe.
    - exists eev. repeat split; auto.
    - destruct (proj1 (iprim_keeps _ _ _ P) _ _ He) as (ev1 & H1 & K1 & D1 & _ & O1).
      assert (O1n : out ev1 <> None).
      { pose proof (iprim_grows _ _ _ P) as [G _]. destruct (G _ _ He) as (ev1' & H1' & _ & _ & Gn & _). rewrite H1 in H1'. injection H1' as <-. auto. }
      destruct (IH _ H1 O1n) as (ev2 & H2 & K2 & D2 & O2 & N2). exists ev2. split; [exact H2|]. split; [congruence|]. split; [auto|].
      split; [|exact N2].
      destruct O1 as [O1|[(O1 & _)|O1]]; [|congruence|right; exact O1].
      destruct O2 as [O2|(q & O2)]; [left; congruence|right; exists q; congruence].
  Qed.

  Lemma QQ_i X l X' s s1 : winv X l e s -> iptrace X' s s1 -> QQ X l s -> QQ (X ++ X') l s1.
  Proof.
    intros _ T (NP & HT). split.
    - intros o. rewrite (iptrace_noproc _ _ _ T o). apply NP.
    - intros N. assert (N1 : ~ In c X) by (intros H; apply N, in_or_app; auto).
      assert (N2 : ~ In c X') by (intros H; apply N, in_or_app; auto).
      destruct (HT N1) as (cev & n & eev & Hc & Kc & He & Oe & AB).
      destruct (iptrace_keeps X' s s1 c cev T N2 Hc) as (cev1 & Hc1 & Kc1 & _ & _ & Oc1).
      assert (Oc : out cev1 = out cev) by (destruct Oc1 as [H|(q & H)]; [exact H|congruence]).
      destruct (iptrace_keeps_e X' s s1 eev T He Oe) as (eev1 & He1 & Ke1 & De1 & Oe1 & One1).
      apply (TR_transfer l s s1 cev n eev cev1 eev1 Hc Kc He Oe Hc1 ltac:(congruence) Oc He1 Ke1 De1); [|exact One1|exact AB].
      destruct Oe1 as [H|H]; [left; rewrite H; split; [reflexivity|auto]|right; exact H].
  Qed.

  Lemma QQ_drop X cb l s : (forall c0, cb <> CbCheck c0) -> (forall c0, cb <> CbBuild c0) -> winv X (cb :: l) e s -> QQ X (cb :: l) s -> QQ X l s.
  Proof.
    intros N1 _ _ (NP & HT). split; [exact NP|]. intros N. destruct (HT N) as (cev & n & eev & Hc & Kc & He & Oe & AB).
    assert (E : cbcount (CbCheck c) (cb :: l) = cbcount (CbCheck c) l).
    { rewrite cbcount_cons. assert (X0 : cb_eqb (CbCheck c) cb = false) by (apply cb_eqb_neq; intros H; apply (N1 c); auto). rewrite X0. reflexivity. }
    rewrite E in AB. exists cev, n, eev. auto.
  Qed.

  Lemma QQ_build X l s : winv X (CbBuild e :: l) e s -> QQ X (CbBuild e :: l) s -> QQ X l (fst (cond_build e s)).
  Proof.
    intros _ (NP & HT). split.
    - intros o. rewrite (cond_build_noproc e s o). apply NP.
    - intros N. destruct (HT N) as (cev & n & eev & Hc & Kc & He & Oe & AB).
      assert (E : cbcount (CbCheck c) (CbBuild e :: l) = cbcount (CbCheck c) l) by (rewrite cbcount_cons; reflexivity).
      rewrite E in AB.
      pose proof (cond_build_rel e s c) as Rc. rewrite Hc in Rc.
      destruct (get_event c (fst (cond_build e s))) as [cev1|] eqn:Hc1; [|contradiction].
      destruct Rc as (Kc1 & _ & _ & Oc1). assert (Oc : out cev1 = out cev) by (destruct Oc1 as [H|(H & _)]; [exact H|contradiction]).
      pose proof (cond_build_rel e s e) as Re. rewrite He in Re.
      destruct (get_event e (fst (cond_build e s))) as [eev1|] eqn:He1; [|contradiction].
      destruct Re as (Ke1 & De1 & _ & Oe1).
      apply (TR_transfer l s (fst (cond_build e s)) cev n eev cev1 eev1 Hc Kc He Oe Hc1 ltac:(congruence) Oc He1 Ke1 ltac:(congruence)); [| |exact AB].
      + left. destruct Oe1 as [H|(_ & v & v' & H1 & H2)]; [rewrite H; split; [reflexivity|auto]|].
        rewrite H1, H2. split; [reflexivity|]. intros x Hx. discriminate.
      + destruct Oe1 as [H|(_ & v & v' & H1 & H2)]; congruence.
  Qed.

  Lemma QQ_check X c0 l s : winv X (CbCheck c0 :: l) e s -> QQ X (CbCheck c0 :: l) s -> QQ X l (cond_check c0 e s).
  Proof.
    intros (CI & _ & (eev0 & He0 & Ce0) & WL) (NP & HT). split.
    - intros o. rewrite (cond_check_noproc c0 e s o). apply NP.
    - intros N. destruct (HT N) as (cev & n & eev & Hc & Kc & He & Oe & (A & B)).
      rewrite cbcount_check_cons in A, B.
      destruct (Nat.eq_dec c0 c) as [->|N0].
      + (* the _check of c itself *)
        rewrite Nat.eqb_refl in A, B.
        assert (Ie : In e ops).
        { destruct (proj1 WL c (or_introl eq_refl)) as (cev' & a' & ops' & n' & H' & K' & I'). rewrite Hc in H'. injection H' as <-.
          rewrite Kc in K'. injection K' as <- <- <-. exact I'. }
        destruct (out cev) as [oc|] eqn:Oc.
        * (* already triggered: no effect *)
          rewrite cond_check_noop by (right; right; exists cev; split; [exact Hc|left; congruence]).
          exists cev, n, eev. rewrite Oc. split; [exact Hc|]. split; [exact Kc|]. split; [exact He|]. split; [exact Oe|].
          split; [intros H; contradiction|]. intros _. destruct (B Ie) as [(O & _)|[H|H]]; [discriminate|right; left; exact H|right; right; exact H].
        * rewrite (cond_check_eq c e s cev eev all ops n Hc He Oc Kc Nce). cbv zeta.
          set (s1 := if is_failed eev then upd_event e ev_set_defused s else s).
          set (s2 := upd_event c (check_upd all ops n (out eev)) s1).
          assert (Hc1 : get_event c s1 = Some cev) by (unfold s1; destruct (is_failed eev); [rewrite get_upd_other by exact Nce|]; exact Hc).
          assert (Hc2 : get_event c s2 = Some (check_upd all ops n (out eev) cev)) by (apply get_upd_same, Hc1).
          assert (He2 : get_event e s2 = Some (if is_failed eev then ev_set_defused eev else eev)).
          { unfold s2. rewrite get_upd_other by congruence. unfold s1. destruct (is_failed eev); [apply get_upd_same, He|exact He]. }
          assert (Fin : TR l s2).
          { exists (check_upd all ops n (out eev) cev), (S n), (if is_failed eev then ev_set_defused eev else eev).
            split; [exact Hc2|]. split.
            { unfold check_upd. destruct (out eev) as [[?|?]|]; [destruct (cond_evaluate all (length ops) (S n))| |destruct (cond_evaluate all (length ops) (S n))]; reflexivity. }
            split; [exact He2|]. split; [destruct (is_failed eev); exact Oe|].
            split; [intros H; contradiction|]. intros _.
            unfold check_upd, is_failed in *. destruct (out eev) as [[v|x]|] eqn:Oo.
            - destruct (cond_evaluate all (length ops) (S n)) eqn:Ev; cbn [out ev_set_out ev_set_kind].
              + right. right. split; [reflexivity|]. split; [reflexivity|left; cbn; rewrite ?Oo; reflexivity].
              + left. rewrite Oc. split; [reflexivity|]. split.
                * intros ->. cbn in Ev. discriminate.
                * rewrite Oo. discriminate.
            - right. left. exists x. cbn. split; [reflexivity|]. split; [reflexivity|left; exact Oo].
            - congruence. }
          destruct (check_triggers all ops n (out eev)); [|exact Fin].
          destruct Fin as (a1 & a2 & a3 & F1 & F2 & F3 & F4). exists a1, a2, a3. rewrite !get_schedule. auto.
      + (* the _check of another condition: c is untouched, e may get defused *)
        assert (E0 : Nat.eqb c c0 = false) by (apply Nat.eqb_neq; congruence). rewrite E0 in A, B. cbn [plus] in A, B.
        assert (Hc1 : get_event c (cond_check c0 e s) = Some cev).
        { destruct (cond_check_frame c0 e s c) as [H|(H & _)]; [congruence|rewrite H; exact Hc|congruence]. }
        assert (He1 : exists eev1, get_event e (cond_check c0 e s) = Some eev1 /\ kind eev1 = kind eev /\ out eev1 = out eev /\
                         (defused eev = true -> defused eev1 = true)).
        { destruct (Nat.eq_dec e c0) as [<-|Ne].
          - (* e is not its own operand: _check e e does nothing to e beyond the counter; use the general shape *)
            destruct (cond_check_cases e e s) as [->|(cev' & oev' & a' & ops' & n' & H1 & H2 & H3 & H4)]; [exists eev; auto|].
            rewrite He in H1. injection H1 as <-. congruence.
          - destruct (cond_check_frame c0 e s e Ne) as [H|(_ & oev & Ho & _ & H)].
            + exists eev. rewrite H. auto.
            + rewrite He in Ho. injection Ho as <-. exists (ev_set_defused eev). rewrite H. cbn. auto. }
        destruct He1 as (eev1 & He1 & Ke1 & Oe1 & De1).
        apply (TR_transfer l s (cond_check c0 e s) cev n eev cev eev1 Hc Kc He Oe Hc1 Kc eq_refl He1 Ke1 De1); [| |split; [exact A|exact B]].
        * left. rewrite Oe1. split; [reflexivity|auto].
        * congruence.
  Qed.
End OneCondition.

(* ------------------------------------------------------------------------------------------------ *)
(* the tree of operands *)

Lemma desc_le X s d c : cinv X s -> desc s d c -> (c <= d)%nat.
Proof.
  intros CI H. induction H as [|d' dev all ops n o H IH Hd Kd Io]; [lia|].
  pose proof (ci_older _ _ CI _ _ _ _ _ Hd Kd _ Io). lia.
Qed.

Lemma desc_back X s s' d c :
  grows s s' -> cinv X s' -> (d < length (events s))%nat -> desc s' d c -> desc s d c.
Proof.
  intros [G _] CI Ld H. induction H as [|d' dev' all ops n o H IH Hd Kd Io]; [constructor|].
  pose proof (desc_le _ _ _ _ CI H) as Le.
  assert (Ld' : (d' < length (events s))%nat) by lia.
  destruct (get_event d' s) as [dev|] eqn:E; [|apply nth_error_None in E; lia].
  destruct (G _ _ E) as (dev2 & E2 & KL & _). rewrite Hd in E2. injection E2 as <-.
  destruct (kind_le_cond _ _ _ _ _ KL Kd) as (n0 & K0 & _).
  eapply desc_step; [exact IH|exact E|exact K0|exact Io].
Qed.

(* ------------------------------------------------------------------------------------------------ *)
(* C05, main theorem: one completed step, seen from a pending condition that no enclosing condition has detached *)

Theorem cond_step codes X fuel s s' e c cev all ops n :
  creach codes X s -> clean_step fuel codes s s' e ->
  get_event c s = Some cev -> kind cev = KCond all ops n -> out cev = None -> ~ detached s c ->
  exists X', etrace codes X' s s' /\ creach codes (X ++ X') s' /\
    (forall o, is_proc s' o = true <-> (o = e \/ is_proc s o = true)) /\
    (~ In c (X ++ X') ->
     exists cev' n' eev', get_event c s' = Some cev' /\ kind cev' = KCond all ops n' /\ get_event e s' = Some eev' /\
       (n' <= procpos s' ops)%nat /\
       (~ In e ops -> out cev' = None) /\
       (In e ops ->
          (out cev' = None /\ all = true /\ n' = procpos s' ops /\ cond_evaluate all (length ops) n' = false /\
             (is_failed eev' = false \/ kproc eev')) \/
          (exists x, out cev' = Some (Fail x) /\ defused eev' = true /\ (out eev' = Some (Fail x) \/ kproc eev')) \/
          (out cev' = Some (Ok VNone) /\ cond_evaluate all (length ops) n' = true /\ (is_failed eev' = false \/ kproc eev')))).
Proof.
  intros CR CS Hc Kc Oc ND.
  pose proof (creach_reach _ _ _ CR) as R. pose proof (reach_cinv _ _ _ R) as CI. pose proof (reach_procs_wf _ _ _ R) as PW.
  pose proof (creach_bnd _ _ _ CR) as B.
  pose proof CS as (m & rest & ev & l & Pm & -> & He & Cl & L).
  set (e := e_ev m) in *. set (sp := popped m rest s).
  destruct (pop_min_spec _ _ _ Pm) as (Im & _ & _).
  destruct (ci_agenda _ _ CI _ Im) as (ev0 & He0 & Oe0). fold e in He0. rewrite He in He0. injection He0 as <-.
  assert (Nce : c <> e) by (intros ->; rewrite Hc in He; injection He as <-; congruence).
  destruct (binv_popped X 0%nat m rest s ev l CI B Pm He Cl) as (Bp & Wp).
  assert (W : winv X l e sp).
  { split; [apply cinv_popped; assumption|]. split; [eapply prim_procs_wf; [apply p_pop, Pm|exact PW]|].
    split; [eapply popped_processed, He|exact Wp]. }
  destruct (B _ _ _ _ _ Hc Kc) as (_ & B2). destruct (B2 Oc) as [D|(A & Q & F)]; [contradiction|].
  assert (Cnt : cbcount (CbCheck c) l = occ e ops) by (eapply A; eassumption).
  assert (Gp : forall x, get_event x sp = if Nat.eqb x e then Some (ev_set_cbs None ev) else get_event x s).
  { intros x. unfold sp, popped. fold e. rewrite get_upd. change (get_event x (pop_state m rest s)) with (get_event x s).
    destruct (Nat.eqb x e) eqn:E; [|reflexivity]. apply Nat.eqb_eq in E. subst x. rewrite He. reflexivity. }
  assert (Q0 : QQ e c all ops sp X l sp).
  { split; [intros o; reflexivity|]. intros _. exists cev, n, (ev_set_cbs None ev).
    split; [rewrite Gp; apply Nat.eqb_neq in Nce; rewrite Nce; exact Hc|]. split; [exact Kc|].
    split; [rewrite Gp, Nat.eqb_refl; reflexivity|]. split; [exact Oe0|]. split.
    - intros Ni. split; [exact Oc|]. rewrite Cnt. apply occ_notin, Ni.
    - intros Ii. left. split; [exact Oc|]. assert (0 < occ e ops)%nat by (apply occ_in, Ii). split; [intros _; lia|intros _; left; lia]. }
  destruct (loop_all codes fuel e (QQ e c all ops sp) (QQ_i e c all ops sp) (QQ_check e c all ops sp Nce) (QQ_build e c all ops sp Nce)
              (QQ_drop e c all ops sp) l sp s' L X W Q0) as (X' & T & (NP & HT)).
  assert (T' : etrace codes X' s s').
  { change X' with ([] ++ X'). eapply et_app; [|exact T]. rewrite <- (app_nil_r []). econstructor; [apply es_pop, Pm|constructor]. }
  assert (CR' : creach codes (X ++ X') s') by (eapply cr_step; eassumption).
  pose proof (creach_reach _ _ _ CR') as R'. pose proof (reach_cinv _ _ _ R') as CI'. pose proof (creach_bnd _ _ _ CR') as B'.
  assert (GR : grows s s') by (eapply steps_grows; exists X'; eapply etrace_ptrace, T').
  assert (IPs : forall o, is_proc s' o = true <-> (o = e \/ is_proc s o = true)).
  { intros o. rewrite NP. unfold is_proc. rewrite Gp. destruct (Nat.eqb o e) eqn:E.
    - apply Nat.eqb_eq in E. subst o. cbn. split; auto.
    - apply Nat.eqb_neq in E. split; [auto|intros [H|H]; [contradiction|exact H]]. }
  exists X'. split; [exact T'|]. split; [exact CR'|]. split; [exact IPs|].
  intros NX. destruct (HT NX) as (cev' & n' & eev' & Hc' & Kc' & He' & Oe' & A' & Bx).
  destruct (B' _ _ _ _ _ Hc' Kc') as (B1' & B2'). rewrite cbcount_nil, Nat.add_0_r in B1', B2'.
  exists cev', n', eev'. split; [exact Hc'|]. split; [exact Kc'|]. split; [exact He'|]. split; [exact B1'|].
  split; [intros Ni; apply A', Ni|]. intros Ii.
  destruct (Bx Ii) as [(O & L1 & L2)|[H|H]]; [left|right; left; exact H|right; right; exact H].
  assert (Al : all = true) by (destruct all; [reflexivity|]; specialize (L1 eq_refl); rewrite cbcount_nil in L1; lia).
  split; [exact O|]. split; [exact Al|].
  assert (NDs : ~ detached s' c).
  { intros (d & Dd & Nd & Pd). apply IPs in Pd. destruct Pd as [->|Pd].
    - pose proof (desc_le _ _ _ _ CI' Dd) as Le. pose proof (ci_older _ _ CI _ _ _ _ _ Hc Kc _ Ii). lia.
    - apply ND. exists d. split; [|split; [exact Nd|exact Pd]].
      eapply desc_back; [exact GR|exact CI'| |exact Dd].
      unfold is_proc in Pd. destruct (get_event d s) eqn:E; [eapply get_lt, E|discriminate]. }
  destruct (B2' O) as [D|(_ & Q' & _)]; [contradiction|]. split; [exact Q'|].
  split; [exact (ci_pending _ _ CI' _ _ _ _ _ Hc' Kc' O)|].
  destruct (is_failed eev') eqn:Fe; [|left; reflexivity]. destruct (L2 eq_refl) as [H|H]; [rewrite cbcount_nil in H; lia|right; exact H].
Qed.

(* ------------------------------------------------------------------------------------------------ *)
(* the value of a condition: the processed leaves of its operand tree, left to right *)

Inductive leaves (evs : list event) : list evid -> list (evid * val) -> Prop :=
| lv_nil : leaves evs [] []
| lv_cond o oev all ops n t inner rest :
    nth_error evs o = Some oev -> kind oev = KCond all ops n -> leaves evs ops inner -> leaves evs t rest ->
    leaves evs (o :: t) (inner ++ rest)
| lv_done o oev t v rest :
    nth_error evs o = Some oev -> is_cond oev = false -> cbs oev = None -> raw_value oev = Some v -> leaves evs t rest ->
    leaves evs (o :: t) ((o, v) :: rest)
| lv_pending o oev t l rest :
    nth_error evs o = Some oev -> is_cond oev = false -> cbs oev = Some l -> leaves evs t rest ->
    leaves evs (o :: t) rest.

Lemma populate_sound fuel : forall evs ops items, populate fuel evs ops = Some items -> leaves evs ops items.
Proof.
  induction fuel as [|f IH]; intros evs ops items; cbn [populate]; [discriminate|].
  revert items. induction ops as [|o t IHo]; intros items; cbn [populate_ops].
  - intros H; injection H as <-. constructor.
  - destruct (nth_error evs o) as [oev|] eqn:E; [|discriminate].
    destruct (kind oev) eqn:K;
      try (destruct (cbs oev) as [l|] eqn:C;
           [intros H; eapply lv_pending; [exact E|unfold is_cond; rewrite K; reflexivity|exact C|apply IHo, H]
           |destruct (raw_value oev) as [v|] eqn:RV; [|discriminate];
            destruct (populate_ops (populate f evs) evs t) as [rest|] eqn:Rt; [|discriminate];
            intros H; injection H as <-; eapply lv_done; [exact E|unfold is_cond; rewrite K; reflexivity|exact C|exact RV|apply IHo; reflexivity]]).
    destruct (populate f evs ops) as [inner|] eqn:Ri; [|discriminate].
    destruct (populate_ops (populate f evs) evs t) as [rest|] eqn:Rt; [|discriminate].
    intros H; injection H as <-. eapply lv_cond; [exact E|exact K|apply IH, Ri|apply IHo; reflexivity].
Qed.

Definition ev_agree (a b : option event) : Prop :=
  match a, b with
  | Some x, Some y => kind y = kind x /\ (cbs x = None <-> cbs y = None) /\ raw_value y = raw_value x
  | None, None => True
  | _, _ => False
  end.

Lemma leaves_ext evs evs' bound :
  (forall o, (o < bound)%nat -> ev_agree (nth_error evs o) (nth_error evs' o)) ->
  (forall o oev all ops n x, (o < bound)%nat -> nth_error evs o = Some oev -> kind oev = KCond all ops n -> In x ops -> (x < bound)%nat) ->
  forall ops items, (forall x, In x ops -> (x < bound)%nat) -> leaves evs ops items -> leaves evs' ops items.
Proof.
  intros Ag Cl ops items Hb H. induction H as [|o oev all ops n t inner rest E K Hi IHi Ht IHt|o oev t v rest E K C RV Ht IHt|o oev t l rest E K C Ht IHt].
  - constructor.
  - assert (Lo : (o < bound)%nat) by (apply Hb; left; reflexivity).
    pose proof (Ag o Lo) as A. rewrite E in A. destruct (nth_error evs' o) as [oev'|] eqn:E'; [|contradiction].
    destruct A as (K' & _ & _). eapply lv_cond; [exact E'|rewrite K'; exact K| |].
    + apply IHi. intros x Hx. eapply Cl; eassumption.
    + apply IHt. intros x Hx. apply Hb. right. exact Hx.
  - assert (Lo : (o < bound)%nat) by (apply Hb; left; reflexivity).
    pose proof (Ag o Lo) as A. rewrite E in A. destruct (nth_error evs' o) as [oev'|] eqn:E'; [|contradiction].
    destruct A as (K' & C' & R'). eapply lv_done; [exact E'|unfold is_cond in *; rewrite K'; exact K|apply C', C|rewrite R'; exact RV|].
    apply IHt. intros x Hx. apply Hb. right. exact Hx.
  - assert (Lo : (o < bound)%nat) by (apply Hb; left; reflexivity).
    pose proof (Ag o Lo) as A. rewrite E in A. destruct (nth_error evs' o) as [oev'|] eqn:E'; [|contradiction].
    destruct A as (K' & C' & R'). destruct (cbs oev') as [l'|] eqn:Cb'.
    + eapply lv_pending; [exact E'|unfold is_cond in *; rewrite K'; exact K|exact Cb'|].
      apply IHt. intros x Hx. apply Hb. right. exact Hx.
    + destruct C' as [_ C']. specialize (C' eq_refl). congruence.
Qed.

(* the value is a function of the state *)
Lemma leaves_fun evs ops items : leaves evs ops items -> forall items', leaves evs ops items' -> items = items'.
Proof.
  intros H. induction H as [|o oev all ops n t inner rest E K Hi IHi Ht IHt|o oev t v rest E K C RV Ht IHt|o oev t l rest E K C Ht IHt];
    intros items' H'.
  - inversion H'. reflexivity.
  - inversion H' as [|o' oev' all' ops' n' t' inner' rest' E' K' Hi' Ht'|o' oev' t' v' rest' E' K' C' RV' Ht'|o' oev' t' l' rest' E' K' C' Ht']; subst;
      rewrite E in E'; injection E' as <-.
    + rewrite K in K'. injection K' as <- <- <-. rewrite (IHi _ Hi'), (IHt _ Ht'). reflexivity.
    + unfold is_cond in K'. rewrite K in K'. discriminate.
    + unfold is_cond in K'. rewrite K in K'. discriminate.
  - inversion H' as [|o' oev' all' ops' n' t' inner' rest' E' K' Hi' Ht'|o' oev' t' v' rest' E' K' C' RV' Ht'|o' oev' t' l' rest' E' K' C' Ht']; subst;
      rewrite E in E'; injection E' as <-.
    + unfold is_cond in K. rewrite K' in K. discriminate.
    + rewrite RV in RV'. injection RV' as <-. rewrite (IHt _ Ht'). reflexivity.
    + congruence.
  - inversion H' as [|o' oev' all' ops' n' t' inner' rest' E' K' Hi' Ht'|o' oev' t' v' rest' E' K' C' RV' Ht'|o' oev' t' l' rest' E' K' C' Ht']; subst;
      rewrite E in E'; injection E' as <-.
    + unfold is_cond in K. rewrite K' in K. discriminate.
    + congruence.
    + apply IHt, Ht'.
Qed.

(* once built, the value stays: the rest of the callback loop of c does not touch it *)
Section ValueStays.
  Variables (c : evid) (o0 : outcome).

  Definition VQ (X : list evid) (l : list cb) (s : state) : Prop :=
    cbcount (CbBuild c) l = 0%nat /\ exists cev, get_event c s = Some cev /\ out cev = Some o0 /\ is_cond cev = true.

  Lemma VQ_i X l X' s s1 : winv X l c s -> iptrace X' s s1 -> VQ X l s -> VQ (X ++ X') l s1.
  Proof.
    intros _ T (Cn & cev & Hc & Oc & Kc). split; [exact Cn|]. clear Cn. revert cev Hc Oc Kc.
    induction T as [|x X' s s1 s2 P T IH]; intros cev Hc Oc Kc; [exists cev; auto|].
    destruct (proj1 (iprim_keeps _ _ _ P) _ _ Hc) as (ev1 & H1 & K1 & _ & _ & O1).
    apply (IH ev1 H1).
    - destruct O1 as [O1|[(O1 & _)|(q & O1)]]; [congruence|congruence|]. unfold is_cond in Kc. rewrite O1 in Kc. discriminate.
    - unfold is_cond in *. rewrite K1. exact Kc.
  Qed.

  Lemma VQ_check X c0 l s : winv X (CbCheck c0 :: l) c s -> VQ X (CbCheck c0 :: l) s -> VQ X l (cond_check c0 c s).
  Proof.
    intros _ (Cn & cev & Hc & Oc & Kc). split; [rewrite cbcount_cons in Cn; exact Cn|].
    destruct (Nat.eq_dec c0 c) as [->|N].
    - rewrite cond_check_noop by (right; right; exists cev; split; [exact Hc|left; congruence]). exists cev. auto.
    - destruct (cond_check_frame c0 c s c) as [H|(_ & oev & Ho & _ & H)]; [congruence| |].
      + exists cev. rewrite H. auto.
      + rewrite Hc in Ho. injection Ho as <-. exists (ev_set_defused cev). rewrite H. cbn. auto.
  Qed.

  Lemma VQ_build X l s : winv X (CbBuild c :: l) c s -> VQ X (CbBuild c :: l) s -> VQ X l (fst (cond_build c s)).
  Proof. intros _ (Cn & _). rewrite cbcount_cons, cb_eqb_refl in Cn. discriminate. Qed.

  Lemma VQ_drop X cb l s : (forall c0, cb <> CbCheck c0) -> (forall c0, cb <> CbBuild c0) -> winv X (cb :: l) c s -> VQ X (cb :: l) s -> VQ X l s.
  Proof.
    intros _ N _ (Cn & H). split; [|exact H]. rewrite cbcount_cons in Cn.
    destruct (cb_eqb (CbBuild c) cb) eqn:E; [apply cb_eqb_eq in E; exfalso; apply (N c); auto|exact Cn].
  Qed.
End ValueStays.

(* C05, the value: in the completed step that processes the condition c (operands ops, triggered with success),
   _build_value runs first and sets the value to the processed leaves of the operand tree AT THAT MOMENT (the state
   in which c is popped), in left-to-right order, nested conditions flattened; the value is still that at the end of
   the step *)
Theorem cond_value_exact codes X fuel s s' c cev all ops n v0 :
  creach codes X s -> clean_step fuel codes s s' c ->
  get_event c s = Some cev -> kind cev = KCond all ops n -> ops <> [] -> out cev = Some (Ok v0) ->
  exists items cev', leaves (events s) ops items /\ get_event c s' = Some cev' /\ out cev' = Some (Ok (VCond items)).
Proof.
  intros CR CS Hc Kc Ne Oc.
  pose proof (creach_reach _ _ _ CR) as R. pose proof (reach_cinv _ _ _ R) as CI. pose proof (reach_procs_wf _ _ _ R) as PW.
  destruct CS as (m & rest & ev & l & Pm & E & He & Cl & L). rewrite Hc in He. injection He as <-.
  pose proof (ci_build_head _ _ CI _ _ _ _ _ _ Hc Kc Cl Ne) as Hin.
  destruct (ci_build _ _ CI _ _ _ _ Hc Cl Hin) as (_ & Hd & Cn).
  destruct l as [|cb0 l']; [destruct Hin|]. cbn in Hd. injection Hd as ->.
  set (sp := popped m rest s) in *.
  assert (Gp : forall x, get_event x sp = if Nat.eqb x c then Some (ev_set_cbs None cev) else get_event x s).
  { intros x. unfold sp, popped. rewrite <- E. rewrite get_upd. change (get_event x (pop_state m rest s)) with (get_event x s).
    destruct (Nat.eqb x c) eqn:Ex; [|reflexivity]. apply Nat.eqb_eq in Ex. subst x. rewrite Hc. reflexivity. }
  assert (Wp : winv X (CbBuild c :: l') c sp).
  { split; [apply cinv_popped; assumption|]. split; [eapply prim_procs_wf; [apply p_pop, Pm|exact PW]|].
    split; [exists (ev_set_cbs None cev); split; [rewrite Gp, Nat.eqb_refl; reflexivity|reflexivity]|].
    eapply wl_grows; [eapply prim_grows, p_pop, Pm|]. split.
    - intros c0 Hin0. destruct (ci_check _ _ CI _ _ _ _ Hc Cl Hin0) as (cev0 & a0 & ops0 & n0 & H0 & K0 & Le).
      exists cev0, a0, ops0, n0. split; [exact H0|]. split; [exact K0|]. apply occ_in. apply cbcount_in in Hin0. lia.
    - intros c0 Hin0. exact (proj1 (ci_build _ _ CI _ _ _ _ Hc Cl Hin0)). }
  (* the first callback is _build_value *)
  assert (First : exists s1, run_cb fuel codes c (CbBuild c) sp = (s1, ROk) /\ cbloop codes fuel c l' s1 s').
  { inversion L as [|c1 t1 sa s1 sb R1 L1|]; subst. exists s1. auto. }
  destruct First as (s1 & R1 & L1).
  destruct (run_cb_winv codes fuel X (CbBuild c) l' c sp s1 ROk Wp R1) as (X1 & _ & W1 & _).
  cbn [run_cb] in R1. unfold cond_build in R1.
  destruct (remove_checks (S c) c sp) as [sr|] eqn:RM; [|discriminate].
  pose proof (rmsteps_rmrel _ _ _ (remove_checks_rm _ _ _ _ RM)) as RR.
  assert (Hcr : exists cevr, get_event c sr = Some cevr /\ kind cevr = KCond all ops n /\ out cevr = Some (Ok v0)).
  { pose proof (RR c) as Rc. rewrite Gp, Nat.eqb_refl in Rc. destruct (get_event c sr) as [cevr|]; [|contradiction].
    destruct Rc as (K & O & _). exists cevr. cbn in K, O. split; [reflexivity|]. split; congruence. }
  destruct Hcr as (cevr & Hcr & Kcr & Ocr). rewrite Hcr, Ocr, Kcr in R1.
  destruct (populate (S c) (events sr) ops) as [items|] eqn:PO; [|discriminate]. injection R1 as <-.
  assert (Lv : leaves (events s) ops items).
  { apply populate_sound in PO. eapply (leaves_ext (events sr) (events s) c); [| | |exact PO].
    - intros o Lo. pose proof (RR o) as Ro. rewrite Gp in Ro. assert (Eo : Nat.eqb o c = false) by (apply Nat.eqb_neq; lia). rewrite Eo in Ro.
      unfold ev_agree. unfold get_event in Ro. destruct (nth_error (events s) o) as [x|], (nth_error (events sr) o) as [y|]; try contradiction; auto.
      destruct Ro as (K & O & _ & C & _). split; [congruence|]. split; [tauto|]. unfold raw_value. rewrite O. reflexivity.
    - intros o oev a ops0 n0 x Lo Eo Ko Ix.
      pose proof (RR o) as Ro. rewrite Gp in Ro. assert (Eo' : Nat.eqb o c = false) by (apply Nat.eqb_neq; lia). rewrite Eo' in Ro.
      unfold get_event in Ro. rewrite Eo in Ro. destruct (nth_error (events s) o) as [x0|] eqn:E0; [|contradiction].
      destruct Ro as (K & _). pose proof (ci_older _ _ CI o x0 a ops0 n0 E0 ltac:(congruence) _ Ix). lia.
    - intros x Ix. eapply ci_older; eassumption. }
  set (o1 := Ok (VCond items)).
  assert (Q1 : VQ c o1 (X ++ X1) l' (upd_event c (ev_set_out (Some o1)) sr)).
  { split.
    - rewrite cbcount_cons, cb_eqb_refl in Cn. lia.
    - exists (ev_set_out (Some o1) cevr). split; [apply get_upd_same, Hcr|]. split; [reflexivity|]. unfold is_cond. cbn. rewrite Kcr. reflexivity. }
  destruct (loop_all codes fuel c (VQ c o1) (VQ_i c o1) (VQ_check c o1) (VQ_build c o1) (VQ_drop c o1) l' _ s' L1 _ W1 Q1)
    as (X2 & _ & (_ & cev' & Hc' & Oc' & _)).
  exists items, cev'. auto.
Qed.

(* ------------------------------------------------------------------------------------------------ *)
(* _check in isolation *)

Theorem check_fails_with_operand c o s cev oev all ops n x :
  get_event c s = Some cev -> kind cev = KCond all ops n -> out cev = None ->
  get_event o s = Some oev -> out oev = Some (Fail x) -> c <> o ->
  let s' := cond_check c o s in
  (exists cev', get_event c s' = Some cev' /\ out cev' = Some (Fail x) /\ kind cev' = KCond all ops (S n)) /\
  (exists oev', get_event o s' = Some oev' /\ defused oev' = true /\ out oev' = Some (Fail x)) /\
  agenda s' = agenda s ++ [mkEntry (Qred (now s + 0)) NORMAL (next_eid s) c].
Proof.
  intros Hc Kc Oc Ho Oo N. cbv zeta. rewrite (cond_check_eq c o s cev oev all ops n Hc Ho Oc Kc N). cbv zeta.
  unfold check_triggers, check_upd, is_failed. rewrite Oo. split; [|split].
  - eexists. rewrite get_schedule. split; [apply get_upd_same; rewrite get_upd_other by exact N; exact Hc|]. cbn. auto.
  - exists (ev_set_defused oev). rewrite get_schedule, get_upd_other by congruence. split; [apply get_upd_same, Ho|]. cbn. auto.
  - reflexivity.
Qed.

Theorem check_succeeds_when c o s cev oev all ops n :
  get_event c s = Some cev -> kind cev = KCond all ops n -> out cev = None ->
  get_event o s = Some oev -> is_failed oev = false -> c <> o ->
  let s' := cond_check c o s in
  exists cev', get_event c s' = Some cev' /\ kind cev' = KCond all ops (S n) /\
    out cev' = (if cond_evaluate all (length ops) (S n) then Some (Ok VNone) else None) /\
    (forall a, a <> c -> get_event a s' = get_event a s).
Proof.
  intros Hc Kc Oc Ho Fo N. cbv zeta. rewrite (cond_check_eq c o s cev oev all ops n Hc Ho Oc Kc N). cbv zeta.
  rewrite Fo. unfold check_triggers, check_upd, is_failed in *.
  destruct (out oev) as [[v|x]|]; try discriminate;
    (destruct (cond_evaluate all (length ops) (S n)); eexists; rewrite ?get_schedule;
     (split; [apply get_upd_same, Hc|]); cbn; (split; [reflexivity|]); (split; [exact Oc || reflexivity|]);
     intros a Na; rewrite ?get_schedule, get_upd_other by exact Na; reflexivity).
Qed.

(* a _check that arrives after the condition was triggered does nothing at all: the outcome of the condition is
   not changed and a failed operand is NOT defused by it *)
Theorem late_check_ignored c o s cev :
  get_event c s = Some cev -> out cev <> None -> cond_check c o s = s.
Proof. intros Hc Oc. apply cond_check_noop. right. right. exists cev. auto. Qed.

(* ... so an operand that fails after the condition was met, and that nobody else handles, crashes step()/run()
   with its exception: here for an event whose callbacks are only _checks of already triggered conditions and probes *)
Definition late_cb (s : state) (c : cb) : Prop :=
  match c with
  | CbCheck c0 => exists cev, get_event c0 s = Some cev /\ out cev <> None
  | CbProbe _ => True
  | _ => False
  end.

Lemma late_callbacks_run fuel codes e l : forall s1,
  (forall c, In c l -> late_cb s1 c) ->
  exists s2, run_callbacks fuel codes e l s1 = (s2, ROk) /\ events s2 = events s1 /\ agenda s2 = agenda s1.
Proof.
  induction l as [|c t IH]; intros s1 H; cbn [run_callbacks]; [exists s1; auto|].
  assert (Hc := H c (or_introl eq_refl)).
  destruct c; cbn in Hc; try contradiction; cbn [run_cb].
  - destruct Hc as (cev & Hc & Oc). rewrite (late_check_ignored _ _ _ _ Hc Oc).
    apply IH. intros c' Hc'. apply H. right. exact Hc'.
  - destruct (IH (probe_cb n e s1)) as (s2 & R & E & A).
    + intros c' Hc'. specialize (H c' (or_intror Hc')). destruct c'; cbn in *; auto.
    + exists s2. auto.
Qed.

Theorem late_failure_surfaces fuel codes s m rest ev l x :
  pop_min (agenda s) = Some (m, rest) -> get_event (e_ev m) s = Some ev -> cbs ev = Some l ->
  out ev = Some (Fail x) -> defused ev = false -> (forall c, In c l -> late_cb s c) ->
  exists s', step fuel codes s = (s', RRaise x) /\
             get_event (e_ev m) s' = Some (ev_set_cbs None ev) /\ agenda s' = rest.
Proof.
  intros Pm He Cl Oe De Hl. unfold step. rewrite Pm.
  change (get_event (e_ev m) (pop_state m rest s)) with (get_event (e_ev m) s). rewrite He, Cl.
  fold (popped m rest s).
  assert (Gp : get_event (e_ev m) (popped m rest s) = Some (ev_set_cbs None ev)).
  { unfold popped. apply get_upd_same. exact He. }
  destruct (late_callbacks_run fuel codes (e_ev m) l (popped m rest s)) as (s2 & R & E & A).
  - intros c Hc. specialize (Hl c Hc). destruct c; cbn in *; auto. destruct Hl as (cev & Hc0 & Oc).
    unfold popped. rewrite get_upd. change (get_event c (pop_state m rest s)) with (get_event c s). rewrite Hc0.
    destruct (Nat.eqb c (e_ev m)); cbn; eexists; split; try reflexivity; exact Oc.
  - rewrite R. exists s2.
    assert (G2 : get_event (e_ev m) s2 = Some (ev_set_cbs None ev)) by (unfold get_event in *; rewrite E; exact Gp).
    split; [|split; [exact G2|rewrite A; reflexivity]].
    unfold check_failure. rewrite G2. cbn. rewrite Oe, De. reflexivity.
Qed.

(* ------------------------------------------------------------------------------------------------ *)
(* triggered once: the outcome of a condition, once set, is final (only _build_value replaces the placeholder
   value of a successful condition by the ConditionValue) *)

Definition final_out (o o' : option outcome) : Prop :=
  match o with
  | Some (Fail x) => o' = Some (Fail x)
  | Some (Ok _) => exists v, o' = Some (Ok v)
  | None => True
  end.

Lemma final_out_refl o : final_out o o.
Proof. destruct o as [[v|x]|]; cbn; eauto. Qed.
Lemma final_out_trans a b c : final_out a b -> final_out b c -> final_out a c.
Proof.
  destruct a as [[v|x]|]; cbn; auto.
  - intros (v1 & ->). cbn. auto.
  - intros ->. cbn. auto.
Qed.

Lemma prim_cond_final x s s' c cev :
  prim x s s' -> get_event c s = Some cev -> is_cond cev = true ->
  exists cev', get_event c s' = Some cev' /\ is_cond cev' = true /\ final_out (out cev) (out cev').
Proof.
  intros P Hc Kc. destruct P as [x s s' P|m rest s Pm|c0 o oev s Ho Co Op|c0 s].
  - destruct (proj1 (iprim_keeps _ _ _ P) _ _ Hc) as (cev' & Hc' & K' & _ & _ & O').
    exists cev'. split; [exact Hc'|]. split; [unfold is_cond in *; rewrite K'; exact Kc|].
    destruct O' as [O'|[(O' & _)|(q & O')]].
    + rewrite O'. apply final_out_refl.
    + rewrite O'. exact I.
    + unfold is_cond in Kc. rewrite O' in Kc. discriminate.
  - unfold popped. rewrite get_upd. change (get_event c (pop_state m rest s)) with (get_event c s). rewrite Hc.
    destruct (Nat.eqb c (e_ev m)); cbn; eexists; (split; [reflexivity|]); (split; [exact Kc|]); apply final_out_refl.
  - destruct (Nat.eq_dec c c0) as [<-|N].
    + destruct (out cev) as [oc|] eqn:Oc.
      * rewrite cond_check_noop by (right; right; exists cev; split; [exact Hc|left; congruence]).
        exists cev. rewrite Oc. split; [exact Hc|]. split; [exact Kc|]. apply final_out_refl.
      * pose proof (grows_cond_check c o s) as [G _]. destruct (G _ _ Hc) as (cev' & Hc' & KL & _).
        exists cev'. split; [exact Hc'|]. split; [|exact I].
        unfold is_cond in *. destruct (kind cev) eqn:K; try discriminate.
        destruct (kind_le_cond_fwd _ _ _ _ _ KL eq_refl) as (n' & K' & _). rewrite K'. reflexivity.
    + destruct (cond_check_frame c0 o s c N) as [H|(Eco & oev' & Ho' & _ & H)].
      * exists cev. rewrite H. split; [exact Hc|]. split; [exact Kc|]. apply final_out_refl.
      * rewrite <- Eco in Ho'. rewrite Hc in Ho'. injection Ho' as <-. exists (ev_set_defused cev). rewrite H. cbn.
        split; [reflexivity|]. split; [exact Kc|]. apply final_out_refl.
  - pose proof (cond_build_rel c0 s c) as Rc. rewrite Hc in Rc.
    destruct (get_event c (fst (cond_build c0 s))) as [cev'|]; [|contradiction].
    destruct Rc as (K & _ & _ & O). exists cev'. split; [reflexivity|]. split; [unfold is_cond in *; rewrite K; exact Kc|].
    destruct O as [O|(_ & v & v' & O1 & O2)]; [rewrite O; apply final_out_refl|]. rewrite O1, O2. cbn. eauto.
Qed.

Theorem cond_outcome_final X s s' c cev :
  ptrace X s s' -> get_event c s = Some cev -> is_cond cev = true ->
  exists cev', get_event c s' = Some cev' /\ is_cond cev' = true /\ final_out (out cev) (out cev').
Proof.
  intros T. revert cev. induction T as [|x X s s1 s2 P T IH]; intros cev Hc Kc.
  - exists cev. split; [exact Hc|]. split; [exact Kc|]. apply final_out_refl.
  - destruct (prim_cond_final _ _ _ _ _ P Hc Kc) as (cev1 & H1 & K1 & F1).
    destruct (IH _ H1 K1) as (cev2 & H2 & K2 & F2). exists cev2. split; [exact H2|]. split; [exact K2|].
    eapply final_out_trans; eassumption.
Qed.

(* ------------------------------------------------------------------------------------------------ *)
(* construction *)

Theorem cond_construction codes X all es s :
  reach codes X s -> all_valid es s = true ->
  let s' := fst (call_cond all es s) in
  snd (call_cond all es s) = Ok (VEv (length (events s))) /\ cond_made s s' all es /\ cinv X s'.
Proof.
  intros R V. cbv zeta. split; [|split; [apply call_cond_spec, V|apply cinv_call_cond; [apply (reach_cinv _ _ _ R)|exact V]]].
  unfold call_cond. rewrite V. cbn [negb]. rewrite (new_event_eq _ s). cbv beta iota. destruct es; reflexivity.
Qed.

Theorem cond_construction_refused codes all es s :
  all_valid es s = false -> call_cond all es s = (s, Fail (kexn EAttribute M_not_an_event)) /\
  do_call codes (if all then CAllOf es else CAnyOf es) s = (s, Fail (kexn EAttribute M_not_an_event)).
Proof.
  intros V. assert (E : call_cond all es s = (s, Fail (kexn EAttribute M_not_an_event))) by (unfold call_cond; rewrite V; reflexivity).
  split; [exact E|]. destruct all; cbn [do_call]; exact E.
Qed.

Theorem cond_empty_immediate all s :
  let s' := fst (call_cond all [] s) in
  get_event (length (events s)) s' = Some (mkEvent (Some []) (Some (Ok (VCond []))) false (KCond all [] 0)) /\
  agenda s' = agenda s ++ [mkEntry (Qred (now s + 0)) NORMAL (next_eid s) (length (events s))].
Proof.
  cbv zeta. unfold call_cond. cbn [all_valid forallb negb]. rewrite (new_event_eq _ s). cbv beta iota. cbn [fst].
  unfold trigger_event. rewrite get_schedule. split; [|reflexivity].
  rewrite (get_upd_same _ _ _ _ (get_new_new _ s)). reflexivity.
Qed.

(* any_of with operands: triggered at construction exactly when some operand is already processed *)
Corollary any_of_at_construction es s cev n :
  all_valid es s = true -> es <> [] ->
  get_event (length (events s)) (fst (call_cond false es s)) = Some cev -> kind cev = KCond false es n ->
  (out cev = None <-> procpos s es = 0%nat).
Proof.
  intros V Ne Hc Kc. pose proof (call_cond_spec false es s V) as M.
  destruct (cm_new _ _ _ _ M) as (cev0 & n0 & H0 & K0 & _ & Le & Mo). rewrite Hc in H0. injection H0 as <-.
  rewrite Kc in K0. injection K0 as <-. split.
  - intros O. rewrite O in Mo. destruct Mo as (_ & Mn & Me & _). cbn in Me.
    apply orb_false_iff in Me. destruct Me as [Me _]. destruct n; [lia|discriminate].
  - intros P0. destruct (out cev) as [[v|x]|]; [| |reflexivity]; exfalso.
    + assert (n = 0%nat) by lia. subst n. cbn in Mo. destruct es; [congruence|discriminate].
    + destruct Mo as (o & oev & Io & Ho & Co & _).
      assert (is_proc s o = true).
      { pose proof (all_valid_lt _ _ V _ Io) as Lo. destruct (get_event o s) as [ev|] eqn:E; [|apply nth_error_None in E; lia].
        destruct (cm_old _ _ _ _ M _ _ E) as (ev' & E' & _ & _ & _ & _ & C). rewrite Ho in E'. injection E' as <-.
        unfold is_proc. rewrite E. unfold is_processed. rewrite C in Co. destruct (cbs ev); [discriminate|reflexivity]. }
      pose proof (proj1 (procpos_zero s es) P0 o Io). congruence.
Qed.

(* all_of: succeeds at construction exactly when every operand is processed and none of the processed has failed *)
Corollary all_of_at_construction es s cev n :
  all_valid es s = true ->
  get_event (length (events s)) (fst (call_cond true es s)) = Some cev -> kind cev = KCond true es n ->
  (out cev = None -> (procpos s es < length es)%nat) /\
  ((exists v, out cev = Some (Ok v)) -> procpos s es = length es) /\
  (forall x, out cev = Some (Fail x) -> exists o oev, In o es /\ get_event o s = Some oev /\ cbs oev = None /\ out oev = Some (Fail x)).
Proof.
  intros V Hc Kc. pose proof (call_cond_spec true es s V) as M.
  destruct (cm_new _ _ _ _ M) as (cev0 & n0 & H0 & K0 & _ & Le & Mo). rewrite Hc in H0. injection H0 as <-.
  rewrite Kc in K0. injection K0 as <-. pose proof (procpos_le_length s es) as PL. split; [|split].
  - intros O. rewrite O in Mo. destruct Mo as (_ & Mn & Me & _). cbn in Me. apply Nat.eqb_neq in Me. lia.
  - intros (v & O). rewrite O in Mo. cbn in Mo. apply Nat.eqb_eq in Mo. lia.
  - intros x O. rewrite O in Mo. destruct Mo as (o & oev & Io & Ho & Co & _ & Oo).
    pose proof (all_valid_lt _ _ V _ Io) as Lo. destruct (get_event o s) as [ev|] eqn:E; [|apply nth_error_None in E; lia].
    destruct (cm_old _ _ _ _ M _ _ E) as (ev' & E' & _ & O' & _ & _ & C). rewrite Ho in E'. injection E' as <-.
    exists o, ev. split; [exact Io|]. split; [exact E|]. split; [rewrite C in Co; destruct (cbs ev); [discriminate|reflexivity]|congruence].
Qed.

(* the counter never exceeds the number of processed operand positions, hence the number of operands *)
Theorem cond_count_le codes X s c cev all ops n :
  creach codes X s -> get_event c s = Some cev -> kind cev = KCond all ops n ->
  (n <= procpos s ops)%nat /\ (procpos s ops <= length ops)%nat.
Proof.
  intros CR Hc Kc. destruct (creach_bnd _ _ _ CR _ _ _ _ _ Hc Kc) as (B1 & _). rewrite cbcount_nil, Nat.add_0_r in B1.
  split; [exact B1|apply procpos_le_length].
Qed.

(* at step boundaries a pending, attached condition has counted exactly its processed operands, its predicate is
   false, and none of its processed operands has failed (Process events excepted, see the report) *)
Theorem cond_pending_boundary codes X s c cev all ops n :
  creach codes X s -> get_event c s = Some cev -> kind cev = KCond all ops n -> out cev = None -> ~ detached s c ->
  n = procpos s ops /\ cond_evaluate all (length ops) n = false /\ attached s c ops /\
  (forall o oev, In o ops -> get_event o s = Some oev -> cbs oev = None -> is_failed oev = true -> kproc oev).
Proof.
  intros CR Hc Kc Oc ND. destruct (creach_bnd _ _ _ CR _ _ _ _ _ Hc Kc) as (_ & B2).
  destruct (B2 Oc) as [D|(A & Q & F)]; [contradiction|]. rewrite cbcount_nil, Nat.add_0_r in Q.
  split; [exact Q|]. split; [eapply ci_pending; [eapply reach_cinv, creach_reach, CR|exact Hc|exact Kc|exact Oc]|].
  split; [exact A|]. intros o oev Io Ho Co Fo. destruct (F _ _ Io Ho Co Fo) as [K|(_ & [])]. exact K.
Qed.

(* ------------------------------------------------------------------------------------------------ *)
(* corollaries of [cond_step] in the words of the property *)

Lemma creach_step_ok codes X fuel s s' : creach codes X s -> step fuel codes s = (s', ROk) -> exists X', creach codes (X ++ X') s'.
Proof. intros C H. destruct (step_ok_clean _ _ _ _ H) as (e & CS). eapply creach_step; eassumption. Qed.

(* never earlier: a step that processes an event which is not an operand leaves the condition pending *)
Corollary cond_not_earlier codes X fuel s s' e c cev all ops n :
  creach codes X s -> clean_step fuel codes s s' e ->
  get_event c s = Some cev -> kind cev = KCond all ops n -> out cev = None -> ~ detached s c -> ~ In e ops ->
  exists X', etrace codes X' s s' /\ (~ In c (X ++ X') -> exists cev' n', get_event c s' = Some cev' /\ kind cev' = KCond all ops n' /\ out cev' = None).
Proof.
  intros CR CS Hc Kc Oc ND Ni. destruct (cond_step codes X fuel s s' e c cev all ops n CR CS Hc Kc Oc ND) as (X' & T & _ & _ & H).
  exists X'. split; [exact T|]. intros NX. destruct (H NX) as (cev' & n' & eev' & Hc' & Kc' & _ & _ & A & _).
  exists cev', n'. auto.
Qed.

(* any_of: the step that processes the FIRST of its operands triggers it (with success, or with that operand's failure) *)
Corollary any_of_first codes X fuel s s' e c cev ops n :
  creach codes X s -> clean_step fuel codes s s' e ->
  get_event c s = Some cev -> kind cev = KCond false ops n -> out cev = None -> ~ detached s c -> In e ops ->
  procpos s ops = 0%nat /\
  exists X', etrace codes X' s s' /\
    (~ In c (X ++ X') -> exists cev' n' eev', get_event c s' = Some cev' /\ kind cev' = KCond false ops n' /\ get_event e s' = Some eev' /\
       ((exists x, out cev' = Some (Fail x) /\ defused eev' = true /\ (out eev' = Some (Fail x) \/ kproc eev')) \/
        (out cev' = Some (Ok VNone) /\ (is_failed eev' = false \/ kproc eev')))).
Proof.
  intros CR CS Hc Kc Oc ND Ii.
  destruct (cond_pending_boundary codes X s c cev false ops n CR Hc Kc Oc ND) as (Q & Ev & _).
  split.
  - cbn in Ev. apply orb_false_iff in Ev. destruct Ev as [Ev _]. destruct n; [lia|discriminate].
  - destruct (cond_step codes X fuel s s' e c cev false ops n CR CS Hc Kc Oc ND) as (X' & T & _ & _ & H).
    exists X'. split; [exact T|]. intros NX. destruct (H NX) as (cev' & n' & eev' & Hc' & Kc' & He' & _ & _ & B).
    exists cev', n', eev'. split; [exact Hc'|]. split; [exact Kc'|]. split; [exact He'|].
    destruct (B Ii) as [(_ & Al & _)|[F|(O & _ & G)]]; [discriminate|left; exact F|right; auto].
Qed.

(* all_of: it succeeds exactly in the step that processes its LAST unprocessed operand; a failing operand fails it;
   otherwise it stays pending, having counted exactly the processed operands *)
Corollary all_of_last codes X fuel s s' e c cev ops n :
  creach codes X s -> clean_step fuel codes s s' e ->
  get_event c s = Some cev -> kind cev = KCond true ops n -> out cev = None -> ~ detached s c -> In e ops ->
  (procpos s ops < length ops)%nat /\
  exists X', etrace codes X' s s' /\
    (~ In c (X ++ X') -> exists cev' n' eev', get_event c s' = Some cev' /\ kind cev' = KCond true ops n' /\ get_event e s' = Some eev' /\
       ((out cev' = None /\ (procpos s' ops < length ops)%nat /\ (is_failed eev' = false \/ kproc eev')) \/
        (exists x, out cev' = Some (Fail x) /\ defused eev' = true /\ (out eev' = Some (Fail x) \/ kproc eev')) \/
        (out cev' = Some (Ok VNone) /\ (forall o, In o ops -> o = e \/ is_proc s o = true) /\ (is_failed eev' = false \/ kproc eev')))).
Proof.
  intros CR CS Hc Kc Oc ND Ii.
  destruct (cond_pending_boundary codes X s c cev true ops n CR Hc Kc Oc ND) as (Q & Ev & _).
  pose proof (procpos_le_length s ops) as PL.
  split.
  - cbn in Ev. apply Nat.eqb_neq in Ev. lia.
  - destruct (cond_step codes X fuel s s' e c cev true ops n CR CS Hc Kc Oc ND) as (X' & T & _ & IP & H).
    exists X'. split; [exact T|]. intros NX. destruct (H NX) as (cev' & n' & eev' & Hc' & Kc' & He' & Le' & _ & B).
    exists cev', n', eev'. split; [exact Hc'|]. split; [exact Kc'|]. split; [exact He'|].
    pose proof (procpos_le_length s' ops) as PL'.
    destruct (B Ii) as [(O & _ & Q' & Ev' & G)|[F|(O & Ev' & G)]].
    + left. split; [exact O|]. split; [|exact G]. cbn in Ev'. apply Nat.eqb_neq in Ev'. lia.
    + right. left. exact F.
    + right. right. split; [exact O|]. split; [|exact G]. cbn in Ev'. apply Nat.eqb_eq in Ev'.
      assert (All : procpos s' ops = length ops) by lia. intros o Io. apply IP. apply (proj1 (procpos_all s' ops) All o Io).
Qed.

(* ------------------------------------------------------------------------------------------------ *)
(* nested conditions: the hypothesis "not detached" cannot be dropped.  all_of [a; b] nested in any_of [c; x]: once the
   outer condition has been processed (x fired first), the inner one never triggers although a and b are processed *)

Definition detach_demo : frag unit :=
  FCall (CTimeout 2 (VInt 1)) (fun _ => FCall (CTimeout 3 (VInt 2)) (fun _ => FCall (CTimeout 1 (VInt 3)) (fun _ =>
  FCall (CAllOf [0; 1]%nat) (fun _ => FCall (CAnyOf [3; 2]%nat) (fun _ => FRet VNone))))).

Theorem all_of_refuted_when_detached :
  exists (codes : list prog) X s c cev ops n,
    creach codes X s /\ get_event c s = Some cev /\ kind cev = KCond true ops n /\ out cev = None /\
    (forall o, In o ops -> is_proc s o = true) /\ agenda s = [] /\ detached s c.
Proof.
  set (s1 := fst (exec_top [] detach_demo (init_state 0))).
  set (s2 := fst (step 50 [] s1)). set (s3 := fst (step 50 [] s2)). set (s4 := fst (step 50 [] s3)). set (s5 := fst (step 50 [] s4)).
  assert (C0 : creach [] [] (init_state 0)) by constructor.
  destruct (creach_exec_top [] [] detach_demo (init_state 0) C0) as (X1 & C1). fold s1 in C1.
  assert (St : forall s, snd (step 50 [] s) = ROk -> step 50 [] s = (fst (step 50 [] s), ROk)).
  { intros s H. rewrite <- H. destruct (step 50 [] s); reflexivity. }
  destruct (creach_step_ok [] _ 50 s1 s2 C1 (St s1 ltac:(vm_compute; reflexivity))) as (X2 & C2).
  destruct (creach_step_ok [] _ 50 s2 s3 C2 (St s2 ltac:(vm_compute; reflexivity))) as (X3 & C3).
  destruct (creach_step_ok [] _ 50 s3 s4 C3 (St s3 ltac:(vm_compute; reflexivity))) as (X4 & C4).
  destruct (creach_step_ok [] _ 50 s4 s5 C4 (St s4 ltac:(vm_compute; reflexivity))) as (X5 & C5).
  exists [], ((((([] ++ X1) ++ X2) ++ X3) ++ X4) ++ X5), s5, 3%nat. eexists. exists [0; 1]%nat, 0%nat. split; [exact C5|].
  split; [vm_compute; reflexivity|]. split; [reflexivity|]. split; [reflexivity|].
  split; [intros o [<-|[<-|[]]]; vm_compute; reflexivity|]. split; [vm_compute; reflexivity|].
  exists 4%nat. split; [|split; [discriminate|vm_compute; reflexivity]].
  eapply desc_step with (d := 4%nat) (ops := [3; 2]%nat); [constructor|vm_compute; reflexivity|reflexivity|left; reflexivity].
Qed.

(* the hypotheses of [cond_step] are satisfiable: a = timeout 1, b = timeout 2, c = all_of [a; b]; first step *)
Definition step_demo : frag unit :=
  FCall (CTimeout 1 (VInt 1)) (fun _ => FCall (CTimeout 2 (VInt 2)) (fun _ => FCall (CAllOf [0; 1]%nat) (fun _ => FRet VNone))).

Example cond_step_hypotheses :
  let s := fst (exec_top [] step_demo (init_state 0)) in
  exists X cev s' e, creach [] X s /\ clean_step 50 [] s s' e /\
    get_event 2%nat s = Some cev /\ kind cev = KCond true [0; 1]%nat 0 /\ out cev = None /\ ~ detached s 2%nat.
Proof.
  cbv zeta. set (s := fst (exec_top [] step_demo (init_state 0))).
  destruct (creach_exec_top [] [] step_demo (init_state 0) (cr_init [] 0)) as (X1 & C1). fold s in C1.
  assert (St : step 50 [] s = (fst (step 50 [] s), ROk)).
  { assert (H : snd (step 50 [] s) = ROk) by (vm_compute; reflexivity). rewrite <- H. destruct (step 50 [] s); reflexivity. }
  destruct (step_ok_clean _ _ _ _ St) as (e & CS).
  eexists _, _, _, e. split; [exact C1|]. split; [exact CS|].
  split; [vm_compute; reflexivity|]. split; [reflexivity|]. split; [reflexivity|].
  intros (d & _ & _ & P). unfold is_proc in P.
  destruct d as [|[|[|d]]]; try (vm_compute in P; discriminate).
  rewrite get_ge in P; [discriminate|]. vm_compute. lia.
Qed.

(* ------------------------------------------------------------------------------------------------ *)
(* _build_value never hits the model's internal-error result: the fuel S c suffices because operands are older than
   their condition, and every processed leaf has a value *)

Definition tree_ok (s : state) : Prop :=
  forall d dev all ops n o, get_event d s = Some dev -> kind dev = KCond all ops n -> In o ops ->
    (o < d)%nat /\ get_event o s <> None.

Lemma tree_ok_cinv X s : cinv X s -> tree_ok s.
Proof.
  intros CI d dev all ops n o Hd Kd Io. pose proof (ci_older _ _ CI _ _ _ _ _ Hd Kd _ Io) as L. split; [exact L|].
  apply get_lt in Hd. intros E. apply nth_error_None in E. lia.
Qed.

Lemma tree_ok_kinds_eq s s' : kinds_eq s s' -> tree_ok s -> tree_ok s'.
Proof.
  intros K T d dev all ops n o Hd Kd Io.
  destruct (kinds_eq_get _ _ _ _ (kinds_eq_sym _ _ K) Hd) as (dev0 & Hd0 & Kd0).
  destruct (T d dev0 all ops n o Hd0 ltac:(congruence) Io) as (L & E). split; [exact L|].
  destruct (get_event o s) as [oev|] eqn:Eo; [|congruence].
  destruct (kinds_eq_get _ _ _ _ K Eo) as (oev' & Eo' & _). congruence.
Qed.

Lemma remove_checks_total f : forall c s, tree_ok s -> (c <= f)%nat -> get_event c s <> None -> remove_checks (S f) c s <> None.
Proof.
  induction f as [|f IH]; intros c s T Lc Hc; cbn [remove_checks];
    (destruct (get_event c s) as [cev|] eqn:E; [|congruence]);
    (destruct (kind cev) as [| | | | |all ops n|] eqn:K; try discriminate).
  - (* f = 0: c = 0, no operands *)
    assert (ops = []).
    { destruct ops as [|o t]; [reflexivity|]. destruct (T c cev all (o :: t) n o E K (or_introl eq_refl)) as (L & _). lia. }
    subst ops. discriminate.
  - assert (Gen : forall l s1, (forall o, In o l -> In o ops) -> kinds_eq s s1 -> remove_ops (remove_checks (S f)) c l s1 <> None).
    { induction l as [|o t IHl]; intros s1 Sub K1; cbn [remove_ops]; [discriminate|].
      assert (Io : In o ops) by (apply Sub; left; reflexivity).
      destruct (T c cev all ops n o E K Io) as (Lo & Eo).
      destruct (get_event o s) as [oev0|] eqn:Eo0; [|congruence].
      destruct (kinds_eq_get _ _ _ _ K1 Eo0) as (oev & Eo1 & Ko1). rewrite Eo1.
      assert (K2 : kinds_eq s (remove_check_from c o s1)) by (eapply kinds_eq_trans; [exact K1|apply kinds_eq_remove_check_from]).
      destruct (is_cond oev).
      + destruct (remove_checks (S f) o (remove_check_from c o s1)) as [s2|] eqn:R.
        * apply IHl; [intros; apply Sub; right; assumption|].
          eapply kinds_eq_trans; [exact K2|]. eapply rmsteps_kinds_eq, remove_checks_rm, R.
        * exfalso. revert R. apply IH; [eapply tree_ok_kinds_eq; eassumption|lia|].
          destruct (kinds_eq_get _ _ _ _ K2 Eo0) as (x & Hx & _). congruence.
      + apply IHl; [intros; apply Sub; right; assumption|exact K2]. }
    apply Gen; [auto|apply kinds_eq_refl].
Qed.

Lemma populate_total evs (Tr : forall d dev all ops n o, nth_error evs d = Some dev -> kind dev = KCond all ops n -> In o ops ->
                                 (o < d)%nat /\ nth_error evs o <> None)
      (Val : forall o oev, nth_error evs o = Some oev -> cbs oev = None -> out oev <> None) :
  forall f ops, (forall o, In o ops -> (o < f)%nat /\ nth_error evs o <> None) -> populate (S f) evs ops <> None.
Proof.
  induction f as [|f IH]; intros ops Hb.
  - cbn [populate]. destruct ops as [|o t]; [discriminate|]. destruct (Hb o (or_introl eq_refl)) as (L & _). lia.
  - change (populate (S (S f)) evs ops) with (populate_ops (populate (S f) evs) evs ops).
    assert (Hrec : forall ops', (forall x, In x ops' -> (x < f)%nat /\ nth_error evs x <> None) -> populate (S f) evs ops' <> None) by exact IH.
    clear IH. generalize dependent (populate (S f) evs). intros rec Hrec.
    induction ops as [|o t IHo]; cbn [populate_ops]; [discriminate|].
    destruct (Hb o (or_introl eq_refl)) as (Lo & Eo). destruct (nth_error evs o) as [oev|] eqn:E; [|congruence].
    assert (Rest : populate_ops rec evs t <> None) by (apply IHo; intros; apply Hb; right; assumption).
    destruct (populate_ops rec evs t) as [rest|]; [|congruence].
    destruct (kind oev) as [| | | | |all ops' n|] eqn:K;
      try (destruct (cbs oev) eqn:C; [discriminate|];
           unfold raw_value; pose proof (Val _ _ E C) as O; destruct (out oev) as [[?|?]|]; [discriminate|discriminate|congruence]).
    assert (Inner : rec ops' <> None).
    { apply Hrec. intros x Ix. destruct (Tr o oev all ops' n x E K Ix) as (Lx & Ex). split; [lia|exact Ex]. }
    destruct (rec ops'); [discriminate|congruence].
Qed.

Theorem cond_build_ok X s c cev :
  cinv X s -> get_event c s = Some cev -> is_cond cev = true -> out cev <> None -> snd (cond_build c s) = ROk.
Proof.
  intros CI Hc Kc Oc. pose proof (tree_ok_cinv _ _ CI) as T.
  unfold cond_build. destruct (remove_checks (S c) c s) as [s1|] eqn:R.
  2:{ exfalso. revert R. apply remove_checks_total; [exact T|lia|congruence]. }
  pose proof (remove_checks_rm _ _ _ _ R) as RM. pose proof (rmsteps_rmrel _ _ _ RM) as RR.
  assert (CI1 : cinv X s1).
  { eapply rmsteps_ind_P; [|exact RM|exact CI]. intros; apply cinv_remove_check_from; assumption. }
  pose proof (RR c) as Rc. rewrite Hc in Rc. destruct (get_event c s1) as [cev1|] eqn:Hc1; [|contradiction].
  destruct Rc as (K1 & O1 & _). rewrite O1. destruct (out cev) as [[v|x]|]; [|reflexivity|congruence].
  unfold is_cond in Kc. rewrite K1. destruct (kind cev) as [| | | | |all ops n|] eqn:K; try discriminate.
  destruct (populate (S c) (events s1) ops) eqn:PO; [reflexivity|]. exfalso. revert PO.
  pose proof (tree_ok_cinv _ _ CI1) as T1.
  apply populate_total.
  - intros d dev a ops0 n0 o Hd Kd Io. exact (T1 d dev a ops0 n0 o Hd Kd Io).
  - intros o oev Ho Co. exact (ci_proc_trig _ _ CI1 o oev Ho Co).
  - intros o Io. exact (T1 c cev1 all ops n o Hc1 ltac:(congruence) Io).
Qed.
