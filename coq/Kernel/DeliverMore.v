(* Kernel/DeliverMore.v -- C02, part 6: consequences that combine the invariants.

     creach_later                      clean executions are executions
     delivered_is_triggered_outcome    what a waiter is fed is the outcome the event got WHEN IT WAS TRIGGERED (timeouts, plain
                                       events, ...: stable kinds)
     timeout_carries_value             env.timeout(d, v) creates an event with outcome Ok v
     not_resumed_by_other_events       the processing of an event that is not p's target (and not an interrupt) leaves p's
                                       automaton state and target untouched
     cond_check_defuses, feed_defuses, undefused_without_handler    the only two places that set `defused`; a failed event
                                       whose callbacks are only probes / stop / build callbacks is still undefused after the loop *)
From Coq Require Import ZArith QArith List Bool Lia.
From ONL Require Import Kernel.Model Kernel.Keys Kernel.Deliver Kernel.DeliverInv Kernel.DeliverWf Kernel.DeliverThm Kernel.DeliverVal.
Import ListNotations.
Local Open Scope nat_scope.

Lemma creach_later codes s : creach codes s -> exists t0, later codes (init_state t0) s.
Proof.
  induction 1 as [t0|s A f _ (t0 & L)|s u s1 _ (t0 & L) P|s fuel _ (t0 & L) _].
  - exists t0. constructor.
  - exists t0. apply later_top, L.
  - exists t0. eapply later_prelude; eauto.
  - exists t0. apply later_step, L.
Qed.

(* ------------------------------------------------------------------------------------------------ *)
(* the value that is delivered is the value that was triggered *)

Theorem delivered_is_triggered_outcome fuel codes s m rest ev pre p post smid o :
  creach codes s -> pop_min (agenda s) = Some (m, rest) -> get_event (e_ev m) s = Some ev ->
  cbs ev = Some (pre ++ CbResume p :: post) ->
  cb_chain (S fuel) codes (e_ev m) pre (loop_start m rest s) smid ->
  stable_kind (kind ev) = true -> out ev = Some o ->
  exists pr, get_proc p smid = Some pr /\ ptarget pr = Some (e_ev m) /\ now smid = e_time m /\
    run_cb (S fuel) codes (e_ev m) (CbResume p) smid =
      after_frag fuel codes p pr
        (run_frag codes (resume (pcode pr) (pst pr) o) (feed_state (e_ev m) o (set_active (Some p) smid))).
Proof.
  intros R P G C Ch K O.
  destruct (resume_gets_outcome _ _ _ _ _ _ _ _ _ _ R P G C Ch) as (ev' & o' & pr & G' & O' & Pp & T & Eq & _).
  destruct (creach_later _ _ R) as (t0 & L).
  destruct (value_stable_in_loop _ _ _ _ _ _ _ _ L P Ch) as (N & St).
  destruct (St _ _ _ G K O) as (ev2 & G2 & O2). rewrite G' in G2. injection G2 as <-. rewrite O' in O2. injection O2 as ->.
  exists pr. auto.
Qed.

Theorem timeout_carries_value d v s :
  neg_delay d = false ->
  let e := length (events s) in
  exists s', call_timeout d v s = (s', Ok (VEv e)) /\
    get_event e s' = Some (mkEvent (Some []) (Some (Ok v)) false KTimeout) /\
    agenda s' = agenda s ++ [mkEntry (Qred (now s + d)%Q) NORMAL (next_eid s) e].
Proof.
  intros N e. unfold call_timeout, new_event. rewrite N. eexists. split; [reflexivity|]. split; [|reflexivity].
  apply (get_new_event_new (mkEvent (Some []) (Some (Ok v)) false KTimeout) s).
Qed.

Theorem negative_timeout_refused d v s :
  neg_delay d = true -> call_timeout d v s = (s, Fail (kexn EValue M_negative_delay)).
Proof. intros N. unfold call_timeout. now rewrite N. Qed.

(* ------------------------------------------------------------------------------------------------ *)
(* processes that are not invoked are not touched *)

Lemma procs_remove_check_from c o s : procs (remove_check_from c o s) = procs s.
Proof.
  unfold remove_check_from. destruct (get_event o s) as [oev|]; [|reflexivity]. destruct (cbs oev) as [l|]; [|reflexivity].
  destruct (mem_cb (CbCheck c) l); reflexivity.
Qed.

Lemma procs_remove_ops rec c :
  (forall o s s', rec o s = Some s' -> procs s' = procs s) ->
  forall l s s', remove_ops rec c l s = Some s' -> procs s' = procs s.
Proof.
  intros Hrec. induction l as [|o t IH]; intros s s'; cbn [remove_ops].
  - intros H; now injection H as <-.
  - destruct (get_event o s) as [oev|]; [|discriminate].
    destruct (is_cond oev).
    + destruct (rec o (remove_check_from c o s)) as [s2|] eqn:R; [|discriminate]. intros H.
      rewrite (IH _ _ H), (Hrec _ _ _ R). apply procs_remove_check_from.
    + intros H. rewrite (IH _ _ H). apply procs_remove_check_from.
Qed.

Lemma procs_remove_checks fuel : forall c s s', remove_checks fuel c s = Some s' -> procs s' = procs s.
Proof.
  induction fuel as [|f IH]; intros c s s'; cbn [remove_checks]; [discriminate|].
  destruct (get_event c s) as [cev|]; [|discriminate].
  destruct (kind cev); try (intros H; now injection H as <-).
  apply procs_remove_ops. exact IH.
Qed.

Lemma procs_cond_build c s : procs (fst (cond_build c s)) = procs s.
Proof.
  unfold cond_build. destruct (remove_checks (S c) c s) as [s1|] eqn:R; [|reflexivity].
  pose proof (procs_remove_checks _ _ _ _ R) as E1.
  destruct (get_event c s1) as [cev|]; [|exact E1].
  destruct (out cev) as [[v|x]|]; try exact E1.
  destruct (kind cev); try exact E1.
  destruct (populate (S c) (events s1) ops); exact E1.
Qed.

Lemma get_proc_put_other p prx s q : q <> p -> get_proc q (put_proc p prx s) = get_proc q s.
Proof. intros N. unfold put_proc. rewrite get_proc_upd. apply Nat.eqb_neq in N. now rewrite N. Qed.

Lemma get_proc_resume_loop_other codes fuel q prq : forall p e s,
  q <> p -> get_proc q s = Some prq -> get_proc q (fst (resume_loop fuel codes p e s)) = Some prq.
Proof.
  induction fuel as [|f IH]; intros p e s N H; cbn [resume_loop]; [exact H|].
  destruct (get_event e s) as [ev|]; [|exact H].
  destruct (get_proc p s) as [pr|]; [|exact H].
  destruct (out ev) as [o|]; [|exact H].
  fold (feed_state e o s).
  pose proof (get_proc_run_frag codes (resume (pcode pr) (pst pr) o) q prq (feed_state e o s)) as X.
  rewrite get_proc_feed_state in X. specialize (X H).
  destruct (run_frag codes (resume (pcode pr) (pst pr) o) (feed_state e o s)) as [s2 r]. cbn [fst] in X.
  assert (F : forall oc, get_proc q (proc_finish p pr oc s2) = Some prq).
  { intros oc. unfold proc_finish. change (get_proc q (upd_proc p (proc_set_target None) (trigger_event (pev pr) oc s2)) = Some prq).
    rewrite get_proc_upd. apply Nat.eqb_neq in N. rewrite N. exact X. }
  destruct r as [v a|v|x]; [|apply F|apply F].
  assert (X3 : get_proc q (put_proc p (proc_set_st pr a) s2) = Some prq) by (rewrite get_proc_put_other; assumption).
  destruct v; try exact X3.
  destruct (get_event e0 (put_proc p (proc_set_st pr a) s2)) as [ev'|]; [|exact X3].
  destruct (is_processed ev').
  - apply IH; assumption.
  - cbn [fst]. unfold proc_wait.
    change (get_proc q (upd_proc p (proc_set_target (Some e0)) (add_callback e0 (CbResume p) (put_proc p (proc_set_st pr a) s2))) = Some prq).
    rewrite get_proc_upd. apply Nat.eqb_neq in N. rewrite N. exact X3.
Qed.

Definition is_interrupt_cb (c : cb) : bool := match c with CbInterrupt _ => true | _ => false end.

Lemma get_proc_run_cb_other fuel codes e c s q prq :
  c <> CbResume q -> is_interrupt_cb c = false -> get_proc q s = Some prq ->
  get_proc q (fst (run_cb fuel codes e c s)) = Some prq.
Proof.
  intros N I H. destruct c; cbn [run_cb fst]; try discriminate.
  - unfold resume_proc. apply get_proc_resume_loop_other; [congruence|exact H].
  - unfold get_proc. rewrite procs_cond_check. exact H.
  - unfold get_proc. rewrite procs_cond_build. exact H.
  - rewrite stop_cb_state. exact H.
  - exact H.
Qed.

Lemma get_proc_run_callbacks_other fuel codes e q prq : forall l s,
  cnt q l = 0 -> (forall c, In c l -> is_interrupt_cb c = false) ->
  get_proc q s = Some prq -> get_proc q (fst (run_callbacks fuel codes e l s)) = Some prq.
Proof.
  induction l as [|c t IH]; intros s C NI H; [exact H|].
  assert (Nc : c <> CbResume q).
  { intros ->. cbn in C. rewrite Nat.eqb_refl in C. lia. }
  assert (Ct : cnt q t = 0) by (destruct c; cbn in C; try exact C; lia).
  pose proof (get_proc_run_cb_other fuel codes e c s q prq Nc (NI c (or_introl eq_refl)) H) as X.
  destruct (run_callbacks_fst_cases fuel codes e c t s) as [E|E]; rewrite E; [exact X|].
  apply IH; auto. intros c' Hc'. apply NI. right. exact Hc'.
Qed.

Lemma step_tail_fst e (x : state * result) :
  fst (let '(s2, r) := x in match r with ROk => (s2, check_failure e s2) | _ => (s2, r) end) = fst x.
Proof. destruct x as [s2 r]. destruct r; reflexivity. Qed.

(* a suspended process is not resumed -- its automaton state, its target, its record are what they were -- by a step
   that processes another event than its target, whatever that step does and returns (interrupts are C04's subject) *)
Theorem not_resumed_by_other_events fuel codes s q prq t m rest ev l :
  creach codes s -> get_proc q s = Some prq -> ptarget prq = Some t ->
  pop_min (agenda s) = Some (m, rest) -> get_event (e_ev m) s = Some ev -> cbs ev = Some l ->
  e_ev m <> t -> (forall c, In c l -> is_interrupt_cb c = false) ->
  get_proc q (fst (step fuel codes s)) = Some prq.
Proof.
  intros R H T P G C N NI.
  pose proof (resumed_exactly_once _ _ _ _ _ _ _ _ _ R H T P G C) as Cq.
  apply Nat.eqb_neq in N. rewrite N in Cq.
  unfold step. rewrite P, get_event_pop_state, G, C. fold (loop_start m rest s). rewrite step_tail_fst.
  apply get_proc_run_callbacks_other; auto.
Qed.

(* ------------------------------------------------------------------------------------------------ *)
(* who sets `defused` *)

Definition defused_at (s : state) (x : evid) : option bool := option_map defused (get_event x s).

(* 1. Process._resume, for the failed event it throws into the generator -- and for nothing else *)
Theorem feed_defuses e o s x :
  defused_at (feed_state e o s) x =
  match o with Fail _ => if Nat.eqb x e then option_map (fun _ => true) (get_event x s) else defused_at s x | Ok _ => defused_at s x end.
Proof.
  unfold defused_at. destruct o as [v|fx]; cbn [feed_state]; [reflexivity|].
  rewrite get_upd_event. destruct (Nat.eqb x e); [|reflexivity]. destruct (get_event x s); reflexivity.
Qed.

(* 2. Condition._check, for a failed operand whose exception the (still pending) condition takes over *)
Theorem cond_check_defuses c op s x :
  defused_at (cond_check c op s) x <> defused_at s x ->
  x = op /\ exists cev oev fx cev',
    get_event c s = Some cev /\ out cev = None /\ get_event op s = Some oev /\ out oev = Some (Fail fx) /\
    get_event c (cond_check c op s) = Some cev' /\ out cev' = Some (Fail fx).
Proof.
  unfold cond_check.
  destruct (get_event c s) as [cev|] eqn:Hc; [|intros N; now contradiction N].
  destruct (get_event op s) as [oev|] eqn:Ho; [|intros N; now contradiction N].
  destruct (out cev) eqn:Oc; [intros N; now contradiction N|].
  destruct (kind cev) as [| | | | |all ops count|] eqn:Kc; try (intros N; now contradiction N).
  set (s1 := upd_event c (ev_set_kind (KCond all ops (S count))) s).
  assert (D1 : forall y, defused_at s1 y = defused_at s y).
  { intros y. unfold defused_at, s1. rewrite get_upd_event. destruct (Nat.eqb y c) eqn:E; [|reflexivity].
    apply Nat.eqb_eq in E. subst y. rewrite Hc. reflexivity. }
  assert (DT : forall o0 s0 y, defused_at (trigger_event c o0 s0) y = defused_at s0 y).
  { intros o0 s0 y. unfold defused_at, trigger_event, schedule. cbn.
    change (option_map defused (get_event y (upd_event c (ev_set_out (Some o0)) s0)) = option_map defused (get_event y s0)).
    rewrite get_upd_event. destruct (Nat.eqb y c); [|reflexivity]. destruct (get_event y s0); reflexivity. }
  destruct (out oev) as [[v|fx]|] eqn:Oo.
  - intros N. exfalso. apply N. destruct (cond_evaluate all (length ops) (S count)); [rewrite DT|]; apply D1.
  - intros N. rewrite DT in N.
    assert (X : x = op).
    { destruct (Nat.eq_dec x op) as [E|E]; [exact E|]. exfalso. apply N. unfold defused_at.
      rewrite get_upd_event_other by exact E. apply D1. }
    split; [exact X|]. exists cev, oev, fx.
    destruct (trigger_event_spec c (Fail fx) (upd_event op ev_set_defused s1)) with (ev := match Nat.eqb c op with true => ev_set_defused (ev_set_kind (KCond all ops (S count)) cev) | false => ev_set_kind (KCond all ops (S count)) cev end) as (A & _).
    { rewrite get_upd_event. unfold s1. rewrite get_upd_event, Nat.eqb_refl, Hc. cbn. destruct (Nat.eqb c op); reflexivity. }
    eexists. repeat (split; [first [reflexivity|assumption]|]).
    split; [exact A|]. destruct (Nat.eqb c op); reflexivity.
  - intros N. exfalso. apply N. destruct (cond_evaluate all (length ops) (S count)); [rewrite DT|]; apply D1.
Qed.

(* 3. nothing else: callbacks that are neither a process resumption, an interruption nor a condition check leave every
   `defused` mark as it is *)
Definition dsame (s s' : state) : Prop := forall x, defused_at s' x = defused_at s x.

Lemma dsame_refl s : dsame s s. Proof. intros x. reflexivity. Qed.
Lemma dsame_trans a b c : dsame a b -> dsame b c -> dsame a c.
Proof. intros H1 H2 x. now rewrite H2, H1. Qed.

Lemma dsame_upd_event e f s : (forall ev, defused (f ev) = defused ev) -> dsame s (upd_event e f s).
Proof.
  intros Hf x. unfold defused_at. rewrite get_upd_event. destruct (Nat.eqb x e); [|reflexivity].
  destruct (get_event x s); cbn; [now rewrite Hf|reflexivity].
Qed.

Lemma dsame_remove_check_from c o s : dsame s (remove_check_from c o s).
Proof.
  unfold remove_check_from. destruct (get_event o s) as [oev|]; [|apply dsame_refl].
  destruct (cbs oev) as [l|]; [|apply dsame_refl]. destruct (mem_cb (CbCheck c) l); [|apply dsame_refl].
  apply dsame_upd_event. reflexivity.
Qed.

Lemma dsame_remove_ops rec c :
  (forall o s s', rec o s = Some s' -> dsame s s') ->
  forall l s s', remove_ops rec c l s = Some s' -> dsame s s'.
Proof.
  intros Hrec. induction l as [|o t IH]; intros s s'; cbn [remove_ops].
  - intros H; injection H as <-. apply dsame_refl.
  - destruct (get_event o s) as [oev|]; [|discriminate].
    destruct (is_cond oev).
    + destruct (rec o (remove_check_from c o s)) as [s2|] eqn:R; [|discriminate]. intros H.
      eapply dsame_trans; [apply dsame_remove_check_from|]. eapply dsame_trans; [eapply Hrec, R|]. apply IH, H.
    + intros H. eapply dsame_trans; [apply dsame_remove_check_from|]. apply IH, H.
Qed.

Lemma dsame_remove_checks fuel : forall c s s', remove_checks fuel c s = Some s' -> dsame s s'.
Proof.
  induction fuel as [|f IH]; intros c s s'; cbn [remove_checks]; [discriminate|].
  destruct (get_event c s) as [cev|]; [|discriminate].
  destruct (kind cev); try (intros H; injection H as <-; apply dsame_refl).
  apply dsame_remove_ops. exact IH.
Qed.

Lemma dsame_cond_build c s : dsame s (fst (cond_build c s)).
Proof.
  unfold cond_build. destruct (remove_checks (S c) c s) as [s1|] eqn:R; [|apply dsame_refl].
  pose proof (dsame_remove_checks _ _ _ _ R) as E1.
  destruct (get_event c s1) as [cev|]; [|exact E1].
  destruct (out cev) as [[v|x]|]; try exact E1.
  destruct (kind cev); try exact E1.
  destruct (populate (S c) (events s1) ops); [|exact E1].
  cbn [fst]. eapply dsame_trans; [exact E1|]. apply dsame_upd_event. reflexivity.
Qed.

Definition is_handler (c : cb) : bool :=
  match c with CbResume _ | CbInterrupt _ | CbCheck _ => true | _ => false end.

Theorem only_handlers_defuse fuel codes e c s :
  is_handler c = false -> dsame s (fst (run_cb fuel codes e c s)).
Proof.
  destruct c; cbn [is_handler run_cb fst]; try discriminate; intros _.
  - apply dsame_cond_build.
  - rewrite stop_cb_state. apply dsame_refl.
  - intros x. reflexivity.
Qed.

Lemma dsame_chain fuel codes e l : forall s s',
  (forall c, In c l -> is_handler c = false) -> cb_chain fuel codes e l s s' -> dsame s s'.
Proof.
  induction l as [|c t IH]; intros s s' NH Ch; inversion Ch; subst; [apply dsame_refl|].
  eapply dsame_trans; [|eapply IH; [intros c' Hc'; apply NH; right; exact Hc'|eassumption]].
  pose proof (only_handlers_defuse fuel codes e c s (NH c (or_introl eq_refl))) as X.
  match goal with A : run_cb _ _ _ _ _ = _ |- _ => rewrite A in X end. exact X.
Qed.

(* when the loop ran through and yet does not end normally, it is a stop callback that said so *)
Lemma chain_exit_is_stop fuel codes e : forall l s s' r,
  cb_chain fuel codes e l s s' -> run_callbacks fuel codes e l s = (s', r) -> r <> ROk ->
  exists pre post smid, l = pre ++ CbStop :: post /\ cb_chain fuel codes e pre s smid /\ stop_cb e smid = (smid, r).
Proof.
  induction l as [|c t IH]; intros s s' r Ch R N; inversion Ch; subst.
  - cbn in R. assert (r = ROk) by congruence. contradiction.
  - match goal with A : run_cb _ _ _ c s = (?s1, ?r0), K : cb_ok c ?r0, Ct : cb_chain _ _ _ t ?s1 s' |- _ =>
      rename A into Rc; rename K into Kc; rename Ct into Cht; rename s1 into sa; rename r0 into ra end.
    destruct Kc as [->|[Sc Ex]].
    + cbn [run_callbacks] in R. rewrite Rc in R.
      destruct (IH _ _ _ Cht R N) as (pre & post & smid & -> & Chp & St).
      exists (c :: pre), post, smid. split; [reflexivity|]. split; [econstructor; [exact Rc|left; reflexivity|exact Chp]|exact St].
    + destruct c; try discriminate Sc.
      assert (Rc' : stop_cb e s = (sa, ra)) by exact Rc.
      pose proof (stop_cb_state e s) as Ss. rewrite Rc' in Ss. cbn [fst] in Ss. subst sa.
      rewrite (run_callbacks_cons_not_ok _ _ _ _ t _ _ _ Rc (is_exit_not_ok _ Ex)) in R. cbn [is_stop_cb andb] in R. rewrite Ex in R.
      destruct (cb_chain_run _ _ _ _ _ _ Cht) as (r2 & R2 & _). rewrite R2 in R.
      destruct (not_ok_cases r2) as [->|N2].
      * injection R as <-. exists [], t, s. split; [reflexivity|]. split; [constructor|exact Rc'].
      * rewrite (match_not_ok r2 _ _ N2) in R. injection R as <-.
        destruct (IH _ _ _ Cht R2 N2) as (pre & post & smid & -> & Chp & St).
        exists (CbStop :: pre), post, smid. split; [reflexivity|].
        split; [econstructor; [exact Rc|right; auto|exact Chp]|exact St].
Qed.

(* hence: a failed event that nobody handles -- no waiting process, no interrupt, no condition among its callbacks -- is
   still undefused when the loop is over, and the step raises its exception (also when it is the until-event of run()) *)
Theorem undefused_without_handler fuel codes t0 s s' r m rest ev l x :
  later codes (init_state t0) s ->
  step fuel codes s = (s', r) -> pop_min (agenda s) = Some (m, rest) ->
  get_event (e_ev m) s = Some ev -> cbs ev = Some l -> out ev = Some (Fail x) -> defused ev = false ->
  stable_kind (kind ev) = true ->
  (forall c, In c l -> is_handler c = false) ->
  cb_chain fuel codes (e_ev m) l (loop_start m rest s) s' ->
  r = RRaise x /\ now s' = e_time m.
Proof.
  intros L St P G C O D K NH Ch.
  destruct (value_stable_in_loop _ _ _ _ _ _ _ _ L P Ch) as (N & Stb).
  split; [|exact N].
  destruct (cb_chain_run _ _ _ _ _ _ Ch) as (r0 & R0 & _).
  unfold step in St. rewrite P, get_event_pop_state, G, C in St. fold (loop_start m rest s) in St. rewrite R0 in St.
  destruct (not_ok_cases r0) as [->|N0].
  - injection St as <-. destruct (Stb _ _ _ G K O) as (ev2 & G2 & O2).
    pose proof (dsame_chain _ _ _ _ _ _ NH Ch (e_ev m)) as Ds. unfold defused_at in Ds.
    rewrite G2, (loop_start_processed m rest s ev G) in Ds. cbn in Ds. injection Ds as Ds.
    unfold check_failure. rewrite G2, O2, Ds, D. reflexivity.
  - rewrite (match_not_ok r0 _ _ N0) in St. injection St as <-.
    destruct (chain_exit_is_stop _ _ _ _ _ _ _ Ch R0 N0) as (pre & post & smid & E & Chp & Sc).
    destruct (value_stable_in_loop _ _ _ _ _ _ _ _ L P Chp) as (_ & Stb2).
    destruct (Stb2 _ _ _ G K O) as (ev2 & G2 & O2). unfold stop_cb in Sc. rewrite G2, O2 in Sc. congruence.
Qed.

(* ------------------------------------------------------------------------------------------------ *)
(* restatements used by Props/C02.v *)

Lemma waiter_invariant_inside_loop codes fuel s m rest ev pre post smid :
  creach codes s -> get_event (e_ev m) s = Some ev -> cbs ev = Some (pre ++ post) ->
  cb_chain fuel codes (e_ev m) pre (loop_start m rest s) smid ->
  winv (Some (e_ev m, post)) None smid.
Proof.
  intros R G C Ch.
  exact (winv_chain codes fuel (e_ev m) pre post _ _ (winv_loop_start m rest s ev _ (proj1 (creach_inv _ _ R)) G C) Ch).
Qed.

Lemma wellformed_always codes t0 s : later codes (init_state t0) s -> uinv s.
Proof. intros L. exact (uinv_later codes _ _ L (uinv_init t0)). Qed.

Lemma wellformed_inside_step fuel codes s m rest pre smid p :
  uinv s -> pop_min (agenda s) = Some (m, rest) -> cb_chain fuel codes (e_ev m) pre (loop_start m rest s) smid ->
  uinv (set_active (Some p) smid).
Proof.
  intros U P Ch. exact (uinv_set_active _ _ (uinv_cb_chain _ _ _ _ _ _ Ch (uinv_loop_start m rest s P U))).
Qed.

Lemma clean_states_wellformed codes s : creach codes s -> winv None None s /\ uinv s.
Proof. exact (creach_inv codes s). Qed.
