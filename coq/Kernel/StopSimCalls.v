(* Kernel/StopSimCalls.v -- C03, part 8: every function of Kernel/Model.v below step() keeps the simulation relation of
   StopSim.v: API calls, conditions, process bodies (for parametric programs), callbacks.

     simn f g a b         sim f g a b /\ now b = now a      (inside a step both clocks show the instant of the popped entry)
     simn_<function>      the function applied to a and, with renamed arguments, to b gives related states and related answers *)
From Coq Require Import ZArith QArith List Bool Lia.
From ONL Require Import Kernel.Model Kernel.Keys Kernel.Deliver Kernel.StopFrame Kernel.StopRen Kernel.StopSim.
Import ListNotations.
Local Open Scope nat_scope.

Definition simn (f g : nat -> nat) (a b : state) : Prop := sim f g a b /\ now b = now a.

(* ---- renaming commutes with the operations on event records ---- *)

Lemma cb_eqb_ren f x y : smono f -> cb_eqb (ren_cb f x) (ren_cb f y) = cb_eqb x y.
Proof. intros M. destruct x, y; cbn; try reflexivity; apply eqb_smono, M. Qed.

Lemma mem_cb_ren f c l : smono f -> mem_cb (ren_cb f c) (map (ren_cb f) l) = mem_cb c l.
Proof.
  intros M. unfold mem_cb. induction l as [|x t IH]; cbn [map existsb]; [reflexivity|]. now rewrite (cb_eqb_ren _ _ _ M), IH.
Qed.

Lemma remove_first_ren f c l : smono f -> remove_first (ren_cb f c) (map (ren_cb f) l) = map (ren_cb f) (remove_first c l).
Proof.
  intros M. induction l as [|x t IH]; cbn [map remove_first]; [reflexivity|]. rewrite (cb_eqb_ren _ _ _ M).
  destruct (cb_eqb x c); [reflexivity|]. cbn [map]. now rewrite IH.
Qed.

Lemma forallb_remove_first n c l : forallb (cbdom n) l = true -> forallb (cbdom n) (remove_first c l) = true.
Proof.
  induction l as [|x t IH]; cbn [forallb remove_first]; [auto|]. rewrite andb_true_iff. intros [A B].
  destruct (cb_eqb x c); [exact B|]. cbn [forallb]. now rewrite A, IH.
Qed.

Lemma exn_val_ren f x : exn_val (ren_exn f x) = ren_val f (exn_val x).
Proof. destruct x as [c l]. reflexivity. Qed.

Lemma raw_value_ren f ev : raw_value (ren_ev f ev) = option_map (ren_val f) (raw_value ev).
Proof. unfold raw_value. cbn [ren_ev out]. destruct (out ev) as [[v|[c l]]|]; reflexivity. Qed.

Lemma evdom_parts n ev :
  evdom n ev = true <->
  (forall l, cbs ev = Some l -> forallb (cbdom n) l = true) /\ (forall o, out ev = Some o -> odom n o = true) /\ kdom n (kind ev) = true.
Proof.
  unfold evdom. rewrite !andb_true_iff. split.
  - intros [[A B] C]. split; [intros l E; now rewrite E in A|]. split; [intros o E; now rewrite E in B|exact C].
  - intros (A & B & C). split; [split|exact C].
    + destruct (cbs ev) as [l|]; [apply A; reflexivity|reflexivity].
    + destruct (out ev) as [o|]; [apply B; reflexivity|reflexivity].
Qed.

(* the record updates *)
Lemma upd_set_out f n o ev :
  odom n o = true -> evdom n ev = true ->
  evdom n (ev_set_out (Some o) ev) = true /\ ren_ev f (ev_set_out (Some o) ev) = ev_set_out (Some (ren_outcome f o)) (ren_ev f ev).
Proof.
  intros O D. split; [|reflexivity]. apply evdom_parts in D. destruct D as (A & B & C). apply evdom_parts. cbn.
  split; [exact A|]. split; [intros o' E; injection E as <-; exact O|exact C].
Qed.

Lemma upd_set_defused f n ev :
  evdom n ev = true -> evdom n (ev_set_defused ev) = true /\ ren_ev f (ev_set_defused ev) = ev_set_defused (ren_ev f ev).
Proof. intros D. split; [exact D|reflexivity]. Qed.

Lemma upd_set_kind f n k ev :
  kdom n k = true -> evdom n ev = true ->
  evdom n (ev_set_kind k ev) = true /\ ren_ev f (ev_set_kind k ev) = ev_set_kind (ren_kind f k) (ren_ev f ev).
Proof.
  intros K D. split; [|reflexivity]. apply evdom_parts in D. destruct D as (A & B & C). apply evdom_parts. cbn. auto.
Qed.

Lemma upd_set_cbs f n l ev :
  (forall l0, l = Some l0 -> forallb (cbdom n) l0 = true) -> evdom n ev = true ->
  evdom n (ev_set_cbs l ev) = true /\ ren_ev f (ev_set_cbs l ev) = ev_set_cbs (option_map (map (ren_cb f)) l) (ren_ev f ev).
Proof.
  intros L D. split; [|reflexivity]. apply evdom_parts in D. destruct D as (A & B & C). apply evdom_parts. cbn. auto.
Qed.

Lemma upd_add_cb f n c ev :
  cbdom n c = true -> evdom n ev = true ->
  evdom n (ev_add_cb c ev) = true /\ ren_ev f (ev_add_cb c ev) = ev_add_cb (ren_cb f c) (ren_ev f ev).
Proof.
  intros Cd D. unfold ev_add_cb. cbn [ren_ev cbs]. destruct (cbs ev) as [l|] eqn:E; cbn [option_map].
  - split.
    + apply evdom_parts in D. destruct D as (A & B & C). apply evdom_parts. cbn. split; [|auto].
      intros l0 X; injection X as <-. rewrite forallb_app. cbn. rewrite (A _ E), Cd. reflexivity.
    + unfold ren_ev, ev_set_cbs. cbn. rewrite map_app. reflexivity.
  - split; [exact D|reflexivity].
Qed.

(* ---- simn: the primitives ---- *)

Section Prims.
  Variables (f g : nat -> nat) (a b : state).
  Hypothesis S : simn f g a b.
  Let na := length (events a).

  Lemma simn_set_active p : simn f g (set_active p a) (set_active p b).
  Proof. destruct S as [S0 N]. split; [apply sim_set_active, S0|exact N]. Qed.

  Lemma simn_add_obs o : obdom na o = true -> simn f g (add_obs o a) (add_obs (ren_obs f o) b).
  Proof. destruct S as [S0 N]. intros D. split; [apply sim_add_obs; assumption|exact N]. Qed.

  Lemma simn_set_glob l : vsdom na l = true -> simn f g (set_glob l a) (set_glob (ren_vals f l) b).
  Proof. destruct S as [S0 N]. intros D. split; [apply sim_set_glob; assumption|exact N]. Qed.

  Lemma simn_upd_proc p h h' :
    (forall pr pr', proc_rel f na pr pr' -> proc_rel f na (h pr) (h' pr')) -> simn f g (upd_proc p h a) (upd_proc p h' b).
  Proof. destruct S as [S0 N]. intros H. split; [apply sim_upd_proc; assumption|exact N]. Qed.

  Lemma simn_upd_event i h h' :
    (forall ev, get_event i a = Some ev -> evdom na ev = true -> evdom na (h ev) = true /\ ren_ev f (h ev) = h' (ren_ev f ev)) ->
    simn f g (upd_event i h a) (upd_event (f i) h' b).
  Proof. destruct S as [S0 N]. intros H. split; [apply sim_upd_event; assumption|exact N]. Qed.

  Lemma simn_new_event ev : evdom (Datatypes.S na) ev = true -> simn f g (snd (new_event ev a)) (snd (new_event (ren_ev f ev) b)).
  Proof. destruct S as [S0 N]. intros D. split; [apply sim_new_event; assumption|exact N]. Qed.

  Lemma simn_schedule e p d : e < na -> simn f g (schedule e p d a) (schedule (f e) p d b).
  Proof. destruct S as [S0 N]. intros L. split; [apply sim_schedule; assumption|exact N]. Qed.

  Lemma simn_fst_new_event ev : fst (new_event (ren_ev f ev) b) = f (fst (new_event ev a)).
  Proof. destruct S as [S0 N]. cbn. pose proof (sm_ffut _ _ _ _ S0 0) as X. rewrite !Nat.add_0_r in X. symmetry. exact X. Qed.
End Prims.

Lemma simn_get f g a b i : simn f g a b -> get_event (f i) b = option_map (ren_ev f) (get_event i a).
Proof. intros [S _]. apply (sim_get f g a b S). Qed.

Lemma simn_evdom f g a b i ev : simn f g a b -> get_event i a = Some ev -> evdom (length (events a)) ev = true.
Proof. intros [S _]. apply (sim_evdom f g a b S). Qed.

Lemma simn_smono f g a b : simn f g a b -> smono f.
Proof. intros [S _]. apply (sm_f _ _ _ _ S). Qed.

Lemma simn_add_callback f g a b e c :
  simn f g a b -> cbdom (length (events a)) c = true -> simn f g (add_callback e c a) (add_callback (f e) (ren_cb f c) b).
Proof. intros S Cd. unfold add_callback. apply simn_upd_event; [exact S|]. intros ev _ D. apply upd_add_cb; assumption. Qed.

Lemma simn_trigger f g a b e o :
  simn f g a b -> e < length (events a) -> odom (length (events a)) o = true ->
  simn f g (trigger_event e o a) (trigger_event (f e) (ren_outcome f o) b).
Proof.
  intros S L O. unfold trigger_event.
  assert (S1 : simn f g (upd_event e (ev_set_out (Some o)) a) (upd_event (f e) (ev_set_out (Some (ren_outcome f o))) b)).
  { apply simn_upd_event; [exact S|]. intros ev _ D. apply upd_set_out; assumption. }
  apply simn_schedule; [exact S1|]. cbn. rewrite upd_nth_length. exact L.
Qed.

(* ---- lengths only grow (from the frame) ---- *)
Lemma len_upd_event e h s : length (events (upd_event e h s)) = length (events s).
Proof. cbn. apply upd_nth_length. Qed.
Lemma len_trigger e o s : length (events (trigger_event e o s)) = length (events s).
Proof. unfold trigger_event. cbn. apply upd_nth_length. Qed.
Lemma len_add_callback e c s : length (events (add_callback e c s)) = length (events s).
Proof. apply len_upd_event. Qed.

(* ---- conditions ---- *)

Lemma cond_check_len c op s : length (events (cond_check c op s)) = length (events s).
Proof.
  unfold cond_check. destruct (get_event c s) as [cev|]; [|reflexivity]. destruct (get_event op s) as [oev|]; [|reflexivity].
  destruct (out cev); [reflexivity|]. destruct (kind cev); try reflexivity.
  destruct (out oev) as [[v|x]|]; try destruct (cond_evaluate all (length ops) (Datatypes.S count));
    rewrite ?len_trigger, ?len_upd_event; reflexivity.
Qed.

Lemma simn_cond_check f g a b c op :
  simn f g a b -> c < length (events a) -> simn f g (cond_check c op a) (cond_check (f c) (f op) b).
Proof.
  intros S Lc. unfold cond_check. rewrite !(simn_get _ _ _ _ _ S).
  destruct (get_event c a) as [cev|] eqn:Hc; cbn [option_map]; [|exact S].
  destruct (get_event op a) as [oev|] eqn:Ho; cbn [option_map]; [|exact S].
  cbn [ren_ev out kind]. destruct (out cev); cbn [option_map]; [exact S|].
  pose proof (simn_evdom _ _ _ _ _ _ S Hc) as Dc. pose proof (simn_evdom _ _ _ _ _ _ S Ho) as Do.
  destruct (kind cev) as [| | | | |all ops count|] eqn:Kc; cbn [ren_kind]; try exact S.
  assert (Kd : kdom (length (events a)) (KCond all ops (Datatypes.S count)) = true).
  { apply evdom_parts in Dc. destruct Dc as (_ & _ & K). rewrite Kc in K. exact K. }
  assert (S1 : simn f g (upd_event c (ev_set_kind (KCond all ops (Datatypes.S count))) a)
                        (upd_event (f c) (ev_set_kind (KCond all (map f ops) (Datatypes.S count))) b)).
  { apply simn_upd_event; [exact S|]. intros ev _ D. apply (upd_set_kind f _ (KCond all ops (Datatypes.S count))); assumption. }
  rewrite map_length. unfold evid in *.
  destruct (out oev) as [[v|x]|] eqn:Oo; cbn [option_map ren_outcome].
  - destruct (cond_evaluate all (length ops) (Datatypes.S count)); [|exact S1].
    apply (simn_trigger f g _ _ c (Ok VNone)); [exact S1|rewrite len_upd_event; exact Lc|reflexivity].
  - assert (S2 : simn f g (upd_event op ev_set_defused (upd_event c (ev_set_kind (KCond all ops (Datatypes.S count))) a))
                          (upd_event (f op) ev_set_defused (upd_event (f c) (ev_set_kind (KCond all (map f ops) (Datatypes.S count))) b))).
    { apply simn_upd_event; [exact S1|]. intros ev _ D. apply upd_set_defused, D. }
    apply (simn_trigger f g _ _ c (Fail x)); [exact S2|rewrite !len_upd_event; exact Lc|].
    rewrite !len_upd_event. apply evdom_parts in Do. destruct Do as (_ & B & _). exact (B _ Oo).
  - destruct (cond_evaluate all (length ops) (Datatypes.S count)); [|exact S1].
    apply (simn_trigger f g _ _ c (Ok VNone)); [exact S1|rewrite len_upd_event; exact Lc|reflexivity].
Qed.

Lemma simn_remove_check_from f g a b c o :
  simn f g a b -> simn f g (remove_check_from c o a) (remove_check_from (f c) (f o) b).
Proof.
  intros S. unfold remove_check_from. rewrite (simn_get _ _ _ _ _ S).
  destruct (get_event o a) as [oev|] eqn:Ho; cbn [option_map]; [|exact S].
  cbn [ren_ev cbs]. destruct (cbs oev) as [l|] eqn:C; cbn [option_map]; [|exact S].
  change (CbCheck (f c)) with (ren_cb f (CbCheck c)). rewrite (mem_cb_ren _ _ _ (simn_smono _ _ _ _ S)).
  destruct (mem_cb (CbCheck c) l); [|exact S]. rewrite (remove_first_ren _ _ _ (simn_smono _ _ _ _ S)).
  apply simn_upd_event; [exact S|]. intros ev H D. rewrite Ho in H. injection H as <-.
  apply (upd_set_cbs f _ (Some (remove_first (CbCheck c) l))); [|exact D].
  intros l0 E; injection E as <-. apply forallb_remove_first. apply evdom_parts in D. apply D, C.
Qed.

Lemma remove_check_from_len c o s : length (events (remove_check_from c o s)) = length (events s).
Proof.
  unfold remove_check_from. destruct (get_event o s) as [oev|]; [|reflexivity]. destruct (cbs oev) as [l|]; [|reflexivity].
  destruct (mem_cb (CbCheck c) l); [apply len_upd_event|reflexivity].
Qed.

Definition rc_ok f g (rec rec' : evid -> state -> option state) : Prop :=
  forall o a b a1, simn f g a b -> rec o a = Some a1 ->
    exists b1, rec' (f o) b = Some b1 /\ simn f g a1 b1 /\ length (events a1) = length (events a).

Lemma simn_remove_ops f g rec rec' c : rc_ok f g rec rec' ->
  forall l a b a1, simn f g a b -> remove_ops rec c l a = Some a1 ->
    exists b1, remove_ops rec' (f c) (map f l) b = Some b1 /\ simn f g a1 b1 /\ length (events a1) = length (events a).
Proof.
  intros Hrec. induction l as [|o t IH]; intros a b a1 S; cbn [remove_ops map].
  - intros H; injection H as <-. exists b. auto.
  - rewrite (simn_get _ _ _ _ _ S). destruct (get_event o a) as [oev|]; cbn [option_map]; [|discriminate].
    change (is_cond (ren_ev f oev)) with (match ren_kind f (kind oev) with KCond _ _ _ => true | _ => false end).
    assert (Ec : match ren_kind f (kind oev) with KCond _ _ _ => true | _ => false end = is_cond oev)
      by (unfold is_cond; destruct (kind oev); reflexivity).
    rewrite Ec. pose proof (simn_remove_check_from f g a b c o S) as S1. pose proof (remove_check_from_len c o a) as L1.
    destruct (is_cond oev).
    + destruct (rec o (remove_check_from c o a)) as [a2|] eqn:R; [|discriminate]. intros H.
      destruct (Hrec _ _ _ _ S1 R) as (b2 & R' & S2 & L2). rewrite R'.
      destruct (IH _ _ _ S2 H) as (b1 & H' & S3 & L3). exists b1. split; [exact H'|]. split; [exact S3|congruence].
    + intros H. destruct (IH _ _ _ S1 H) as (b1 & H' & S3 & L3). exists b1. split; [exact H'|]. split; [exact S3|congruence].
Qed.

Lemma simn_remove_checks f g : forall fu fu', fu <= fu' -> rc_ok f g (remove_checks fu) (remove_checks fu').
Proof.
  induction fu as [|k IH]; intros fu' L c a b a1 S; cbn [remove_checks]; [discriminate|].
  destruct fu' as [|k']; [lia|]. cbn [remove_checks]. rewrite (simn_get _ _ _ _ _ S).
  destruct (get_event c a) as [cev|]; cbn [option_map]; [|discriminate].
  cbn [ren_ev kind]. destruct (kind cev); cbn [ren_kind]; try (intros H; injection H as <-; exists b; auto).
  apply simn_remove_ops; [apply IH; lia|exact S].
Qed.

Lemma raw_value_dom n ev v : evdom n ev = true -> raw_value ev = Some v -> vdom n v = true.
Proof.
  intros D R. apply evdom_parts in D. destruct D as (_ & B & _). unfold raw_value in R.
  destruct (out ev) as [[w|[c l]]|]; try discriminate; injection R as <-; exact (B _ eq_refl).
Qed.

(* Condition._populate_value *)
Definition pop_ok f n (rec rec' : list evid -> option (list (evid * val))) : Prop :=
  forall l items, rec l = Some items -> rec' (map f l) = Some (ren_items f items) /\ idom n items = true.

Lemma idom_app n l1 l2 : idom n (l1 ++ l2) = idom n l1 && idom n l2.
Proof. unfold idom. apply forallb_app. Qed.

Lemma sim_populate_ops f g a b rec rec' :
  sim f g a b -> pop_ok f (length (events a)) rec rec' ->
  pop_ok f (length (events a)) (populate_ops rec (events a)) (populate_ops rec' (events b)).
Proof.
  intros S Hrec l. unfold pop_ok, evid in *. induction l as [|o t IH]; intros items; cbn [populate_ops map].
  - intros H; injection H as <-. split; reflexivity.
  - pose proof (sim_get f g a b S o) as G. unfold get_event in G. rewrite G.
    destruct (nth_error (events a) o) as [oev|] eqn:Ho; cbn [option_map]; [|discriminate].
    pose proof (sim_evdom f g a b S o oev Ho) as D.
    cbn [ren_ev kind cbs]. destruct (kind oev) as [| | | | |all ops' count|] eqn:K; cbn [ren_kind].
    6:{ destruct (rec ops') as [inner|] eqn:R; [|discriminate]. destruct (populate_ops rec (events a) t) as [rest|] eqn:Rt; [|discriminate].
        intros H; injection H as <-. destruct (Hrec _ _ R) as [R' D1]. destruct (IH _ eq_refl) as [Rt' D2]. rewrite R', Rt'.
        split; [unfold ren_items; now rewrite map_app|rewrite idom_app, D1, D2; reflexivity]. }
    all: destruct (cbs oev) as [l0|]; cbn [option_map]; [apply IH|]; rewrite raw_value_ren;
      destruct (raw_value oev) as [v|] eqn:Rv; cbn [option_map]; [|discriminate];
      destruct (populate_ops rec (events a) t) as [rest|] eqn:Rt; [|discriminate];
      intros H; injection H as <-; destruct (IH _ eq_refl) as [Rt' D2]; rewrite Rt';
      (split; [reflexivity|]); unfold idom; cbn [forallb fst snd]; fold (idom (length (events a)) rest); rewrite D2;
      assert (Lo : o < length (events a)) by (apply nth_error_Some; congruence); apply Nat.ltb_lt in Lo; rewrite Lo;
      rewrite (raw_value_dom _ _ _ D Rv); reflexivity.
Qed.

Lemma sim_populate f g a b : sim f g a b ->
  forall fu fu', fu <= fu' -> pop_ok f (length (events a)) (populate fu (events a)) (populate fu' (events b)).
Proof.
  intros S. induction fu as [|k IH]; intros fu' L l items; cbn [populate]; [discriminate|].
  destruct fu' as [|k']; [lia|]. cbn [populate]. apply (sim_populate_ops f g a b _ _ S). apply IH. lia.
Qed.

Definition ren_result (f : nat -> nat) (r : result) : result :=
  match r with RStop v => RStop (ren_val f v) | RRaise x => RRaise (ren_exn f x) | _ => r end.
Definition rdom (n : nat) (r : result) : bool :=
  match r with RStop v => vdom n v | RRaise x => xdom n x | _ => true end.

(* what a callback / a step on both sides gives, unless a's answer is the explicit internal-error answer *)
Definition res_sim f g (ra rb : state * result) : Prop :=
  snd ra <> RBroken ->
  simn f g (fst ra) (fst rb) /\ snd rb = ren_result f (snd ra) /\ rdom (length (events (fst ra))) (snd ra) = true.

Lemma remove_checks_len fu : forall c s s1, remove_checks fu c s = Some s1 -> length (events s1) = length (events s).
Proof.
  intros c s s1 H. pose proof (sfr_remove_checks _ _ _ _ H) as X.
  assert (G : grows s s1) by (eapply grows_remove_checks, H).
  (* lengths: nothing is created *)
  revert c s s1 H X G. induction fu as [|k IH]; intros c s s1; cbn [remove_checks]; [discriminate|].
  destruct (get_event c s) as [cev|]; [|discriminate]. destruct (kind cev); try (intros H; injection H as <-; reflexivity).
  intros H _ _. revert s s1 H. induction ops as [|o t IHo]; intros s s1; cbn [remove_ops].
  - intros H; injection H as <-. reflexivity.
  - destruct (get_event o s) as [oev|]; [|discriminate]. destruct (is_cond oev).
    + destruct (remove_checks k o (remove_check_from c o s)) as [s2|] eqn:R; [|discriminate]. intros H.
      rewrite (IHo _ _ H). rewrite (IH _ _ _ R); [apply remove_check_from_len|eapply sfr_remove_checks, R|eapply grows_remove_checks, R].
    + intros H. rewrite (IHo _ _ H). apply remove_check_from_len.
Qed.

Lemma simn_cond_build f g a b c :
  simn f g a b -> c < length (events a) -> res_sim f g (cond_build c a) (cond_build (f c) b).
Proof.
  intros S Lc. unfold cond_build, evid in *.
  destruct (remove_checks (Datatypes.S c) c a) as [a1|] eqn:R; [|intros X; destruct (X eq_refl)].
  assert (Lf : Datatypes.S c <= Datatypes.S (f c)) by (pose proof (smono_le f (simn_smono _ _ _ _ S) c); lia).
  destruct (simn_remove_checks f g _ _ Lf c a b a1 S R) as (b1 & R' & S1 & L1). rewrite R'.
  rewrite (simn_get _ _ _ _ _ S1). destruct (get_event c a1) as [cev|] eqn:Hc; cbn [option_map]; [|intros X; destruct (X eq_refl)].
  cbn [ren_ev out kind]. destruct (out cev) as [[v|x]|] eqn:Oc; cbn [option_map ren_outcome].
  - destruct (kind cev) as [| | | | |all ops count|]; cbn [ren_kind]; try (intros X; destruct (X eq_refl)).
    destruct (populate (Datatypes.S c) (events a1) ops) as [items|] eqn:P; [|intros X; destruct (X eq_refl)].
    destruct (sim_populate f g a1 b1 (proj1 S1) _ _ Lf _ _ P) as [P' Di]. unfold evid in *. rewrite P'. intros _. cbn [fst snd].
    split; [|split; reflexivity].
    rewrite <- ren_val_cond. change (Some (Ok (ren_val f (VCond items)))) with (Some (ren_outcome f (Ok (VCond items)))).
    apply simn_upd_event; [exact S1|]. intros ev _ D. apply (upd_set_out f _ (Ok (VCond items))); [|exact D].
    cbn [odom]. rewrite vdom_cond. exact Di.
  - intros _. cbn [fst snd]. split; [exact S1|split; reflexivity].
  - intros X; destruct (X eq_refl).
Qed.

(* ---- the API calls ---- *)

Definition call_sim f g (ra rb : state * outcome) : Prop :=
  simn f g (fst ra) (fst rb) /\ snd rb = ren_outcome f (snd ra) /\ odom (length (events (fst ra))) (snd ra) = true.

Lemma call_sim_same f g a b o : simn f g a b -> odom (length (events a)) o = true -> call_sim f g (a, o) (b, ren_outcome f o).
Proof. intros S D. split; [exact S|]. split; [reflexivity|exact D]. Qed.

Lemma ltb_S n : Nat.ltb n (Datatypes.S n) = true.
Proof. apply Nat.ltb_lt. lia. Qed.

Lemma simn_call_timeout f g a b d v :
  simn f g a b -> vdom (length (events a)) v = true -> call_sim f g (call_timeout d v a) (call_timeout d (ren_val f v) b).
Proof.
  intros S D. unfold call_timeout. destruct (neg_delay d); [apply (call_sim_same f g a b (Fail (kexn EValue M_negative_delay))); [exact S|reflexivity]|].
  set (EV := mkEvent (Some []) (Some (Ok v)) false KTimeout).
  change (mkEvent (Some []) (Some (Ok (ren_val f v))) false KTimeout) with (ren_ev f EV).
  pose proof (simn_fst_new_event f g a b S EV) as Ef. pose proof (simn_new_event f g a b S EV) as S1.
  destruct (new_event EV a) as [e a1] eqn:Na. destruct (new_event (ren_ev f EV) b) as [e' b1] eqn:Nb. cbn [fst snd] in *. subst e'.
  assert (Ee : e = length (events a)) by (unfold new_event in Na; injection Na as <- _; reflexivity).
  assert (La : length (events a1) = Datatypes.S (length (events a))) by (unfold new_event in Na; injection Na as _ <-; cbn; rewrite app_length; cbn; lia).
  assert (S1' : simn f g a1 b1).
  { apply S1. unfold evdom, EV. cbn. rewrite andb_true_r. eapply vdom_mono; [|exact D]. lia. }
  split; [apply simn_schedule; [exact S1'|lia]|]. split; [reflexivity|]. cbn [fst snd odom vdom schedule events]. rewrite La, Ee. apply ltb_S.
Qed.

Lemma simn_call_event f g a b : simn f g a b -> call_sim f g (call_event a) (call_event b).
Proof.
  intros S. unfold call_event. set (EV := mkEvent (Some []) None false KPlain).
  change EV with (ren_ev f EV) at 2.
  pose proof (simn_fst_new_event f g a b S EV) as Ef. pose proof (simn_new_event f g a b S EV eq_refl) as S1.
  destruct (new_event EV a) as [e a1] eqn:Na. destruct (new_event (ren_ev f EV) b) as [e' b1] eqn:Nb. cbn [fst snd] in *. subst e'.
  split; [exact S1|]. split; [reflexivity|]. unfold new_event in Na. injection Na as <- <-. cbn. rewrite app_length. cbn.
  apply Nat.ltb_lt. lia.
Qed.

Lemma ltb_true_lt i n : Nat.ltb i n = true -> i < n. Proof. apply Nat.ltb_lt. Qed.

Lemma simn_call_succeed f g a b e v :
  simn f g a b -> Nat.ltb e (length (events a)) && vdom (length (events a)) v = true ->
  call_sim f g (call_succeed e v a) (call_succeed (f e) (ren_val f v) b).
Proof.
  intros S D. apply andb_true_iff in D. destruct D as [Le Dv]. apply ltb_true_lt in Le.
  unfold call_succeed. rewrite (simn_get _ _ _ _ _ S). destruct (get_event e a) as [ev|]; cbn [option_map].
  2:{ apply (call_sim_same f g a b (Fail (kexn EAttribute M_not_an_event))); [exact S|reflexivity]. }
  change (is_triggered (ren_ev f ev)) with (match option_map (ren_outcome f) (out ev) with Some _ => true | None => false end).
  unfold is_triggered. destruct (out ev); cbn [option_map].
  - apply (call_sim_same f g a b (Fail (kexn ERuntime M_already_triggered))); [exact S|reflexivity].
  - split; [apply (simn_trigger f g a b e (Ok v)); assumption|]. split; [reflexivity|].
    cbn [fst snd odom vdom]. rewrite len_trigger. apply Nat.ltb_lt, Le.
Qed.

Lemma simn_call_fail f g a b e x :
  simn f g a b -> Nat.ltb e (length (events a)) && vdom (length (events a)) x = true ->
  call_sim f g (call_fail e x a) (call_fail (f e) (ren_val f x) b).
Proof.
  intros S D. apply andb_true_iff in D. destruct D as [Le Dv]. apply ltb_true_lt in Le.
  unfold call_fail. rewrite (simn_get _ _ _ _ _ S). destruct (get_event e a) as [ev|]; cbn [option_map].
  2:{ apply (call_sim_same f g a b (Fail (kexn EAttribute M_not_an_event))); [exact S|reflexivity]. }
  change (is_triggered (ren_ev f ev)) with (match option_map (ren_outcome f) (out ev) with Some _ => true | None => false end).
  unfold is_triggered. destruct (out ev); cbn [option_map].
  - apply (call_sim_same f g a b (Fail (kexn ERuntime M_already_triggered))); [exact S|reflexivity].
  - destruct x; try (apply (call_sim_same f g a b (Fail (kexn EValue M_not_exception))); [exact S|reflexivity]).
    rewrite ren_val_exn. split; [apply (simn_trigger f g a b e (Fail (c, args))); [exact S|exact Le|]|].
    + cbn [odom]. unfold xdom. cbn [snd]. rewrite vdom_exn in Dv. exact Dv.
    + split; [reflexivity|]. cbn [fst snd odom vdom]. rewrite len_trigger. apply Nat.ltb_lt, Le.
Qed.

Lemma len_new_event ev s : length (events (snd (new_event ev s))) = Datatypes.S (length (events s)).
Proof. cbn. rewrite app_length. cbn. lia. Qed.

Lemma fst_new_event ev s : fst (new_event ev s) = length (events s).
Proof. reflexivity. Qed.

Lemma simn_f_next f g a b k : simn f g a b -> f (length (events a) + k) = length (events b) + k.
Proof. intros [S _]. apply (sm_ffut _ _ _ _ S). Qed.

Lemma simn_procs_len f g a b : simn f g a b -> length (procs b) = length (procs a).
Proof. intros [S _]. apply (sm_procs _ _ _ _ S). Qed.

Lemma simn_active f g a b : simn f g a b -> active b = active a.
Proof. intros [S _]. apply (sm_active _ _ _ _ S). Qed.

Lemma simn_call_spawn codes f g a b code arg :
  parametric_codes codes -> simn f g a b -> vdom (length (events a)) arg = true ->
  call_sim f g (call_spawn codes code arg a) (call_spawn codes code (ren_val f arg) b).
Proof.
  intros PC S D. unfold call_spawn. destruct (nth_error codes code) as [pr|] eqn:Hc.
  2:{ apply (call_sim_same f g a b (Fail (kexn EValue M_not_a_generator))); [exact S|reflexivity]. }
  rewrite (simn_procs_len _ _ _ _ S). set (p := length (procs a)).
  set (EV1 := mkEvent (Some []) None false (KProcess p)).
  set (EV2 := mkEvent (Some [CbResume p]) (Some (Ok VNone)) false (KInit p)).
  change EV1 with (ren_ev f EV1) at 2.
  pose proof (simn_new_event f g a b S EV1 eq_refl) as S1.
  pose proof (simn_f_next f g a b 0 S) as F0. rewrite !Nat.add_0_r in F0.
  pose proof (simn_f_next f g a b 1 S) as F1.
  destruct (new_event EV1 a) as [pe a1] eqn:N1. destruct (new_event (ren_ev f EV1) b) as [pe' b1] eqn:N1'.
  assert (Epe : pe = length (events a)) by (unfold new_event in N1; injection N1 as <- _; reflexivity).
  assert (Epe' : pe' = length (events b)) by (unfold new_event in N1'; injection N1' as <- _; reflexivity).
  assert (La1 : length (events a1) = Datatypes.S (length (events a))) by (unfold new_event in N1; injection N1 as _ <-; cbn; rewrite app_length; cbn; lia).
  assert (Lb1 : length (events b1) = Datatypes.S (length (events b))) by (unfold new_event in N1'; injection N1' as _ <-; cbn; rewrite app_length; cbn; lia).
  cbn [fst snd] in S1.
  change EV2 with (ren_ev f EV2) at 2.
  pose proof (simn_new_event f g a1 b1 S1 EV2 eq_refl) as S2.
  destruct (new_event EV2 a1) as [ie a2] eqn:N2. destruct (new_event (ren_ev f EV2) b1) as [ie' b2] eqn:N2'.
  assert (Eie : ie = Datatypes.S (length (events a))) by (unfold new_event in N2; injection N2 as <- _; exact La1).
  assert (Eie' : ie' = Datatypes.S (length (events b))) by (unfold new_event in N2'; injection N2' as <- _; exact Lb1).
  assert (La2 : length (events a2) = Datatypes.S (Datatypes.S (length (events a)))) by (unfold new_event in N2; injection N2 as _ <-; cbn; rewrite app_length; cbn; lia).
  cbn [fst snd] in S2.
  assert (Fie : ie' = f ie) by (rewrite Eie, Eie'; replace (Datatypes.S (length (events a))) with (length (events a) + 1) by lia; rewrite F1; lia).
  assert (Fpe : pe' = f pe) by (rewrite Epe, Epe'; symmetry; exact F0).
  assert (S3 : simn f g (schedule ie URGENT 0 a2) (schedule ie' URGENT 0 b2)).
  { rewrite Fie. apply simn_schedule; [exact S2|]. rewrite La2, Eie. lia. }
  split; [|split].
  - cbn [fst]. destruct S3 as [S3 N3]. split; [|exact N3].
    change (procs (schedule ie URGENT 0 a2)) with (procs a2). change (procs (schedule ie' URGENT 0 b2)) with (procs b2).
    assert (Pa : procs (schedule ie URGENT 0 a2) = procs a2) by reflexivity.
    apply (sim_add_proc f g (schedule ie URGENT 0 a2) (schedule ie' URGENT 0 b2)); [exact S3|].
    exists pr, (start pr arg), (start pr (ren_val f arg)), pe, (Some ie).
    split; [reflexivity|]. split; [rewrite Fpe, Fie; reflexivity|].
    change (length (events (schedule ie URGENT 0 a2))) with (length (events a2)). rewrite La2.
    split; [lia|]. split; [intros t E; injection E as <-; lia|].
    apply PC; [eapply nth_error_In, Hc|apply smono_inj, (simn_smono _ _ _ _ S)|]. eapply vdom_mono; [|exact D]. lia.
  - cbn [fst snd ren_outcome ren_val]. now rewrite Fpe.
  - cbn [fst snd odom vdom]. change (length (events (set_procs _ (schedule ie URGENT 0 a2)))) with (length (events a2)).
    rewrite La2, Epe. apply Nat.ltb_lt. lia.
Qed.

Lemma simn_call_interrupt f g a b e cause :
  simn f g a b -> Nat.ltb e (length (events a)) && vdom (length (events a)) cause = true ->
  call_sim f g (call_interrupt e cause a) (call_interrupt (f e) (ren_val f cause) b).
Proof.
  intros S D. apply andb_true_iff in D. destruct D as [Le Dv]. apply ltb_true_lt in Le.
  unfold call_interrupt. rewrite (simn_get _ _ _ _ _ S). destruct (get_event e a) as [ev|]; cbn [option_map].
  2:{ apply (call_sim_same f g a b (Fail (kexn EAttribute M_not_an_event))); [exact S|reflexivity]. }
  cbn [ren_ev kind]. destruct (kind ev); cbn [ren_kind];
    try (apply (call_sim_same f g a b (Fail (kexn EAttribute M_not_an_event))); [exact S|reflexivity]).
  unfold is_triggered. cbn [ren_ev out]. destruct (out ev); cbn [option_map].
  { apply (call_sim_same f g a b (Fail (kexn ERuntime M_terminated))); [exact S|reflexivity]. }
  rewrite (simn_active _ _ _ _ S).
  destruct (match active a with Some a0 => Nat.eqb a0 p | None => false end).
  { apply (call_sim_same f g a b (Fail (kexn ERuntime M_self_interrupt))); [exact S|reflexivity]. }
  pose proof (simn_f_next f g a b 0 S) as F0. rewrite !Nat.add_0_r in F0.
  set (EV := mkEvent (Some [CbInterrupt (length (events a))]) (Some (Fail (EInterrupt, [cause]))) true (KInterruption p)).
  assert (EE : mkEvent (Some [CbInterrupt (length (events b))]) (Some (Fail (EInterrupt, [ren_val f cause]))) true (KInterruption p)
               = ren_ev f EV) by (unfold ren_ev, EV; cbn; rewrite F0; reflexivity).
  rewrite EE.
  assert (DE : evdom (Datatypes.S (length (events a))) EV = true).
  { unfold evdom, EV. cbn [cbs out kind forallb cbdom odom kdom]. unfold xdom. cbn [snd vsdom forallb]. rewrite ltb_S.
    rewrite (vdom_mono _ (Datatypes.S (length (events a))) _ (Nat.le_succ_diag_r _) Dv). reflexivity. }
  pose proof (simn_new_event f g a b S EV DE) as S1.
  destruct (new_event EV a) as [i a1] eqn:N1. destruct (new_event (ren_ev f EV) b) as [i' b1] eqn:N1'. cbn [fst snd] in S1.
  assert (La1 : length (events a1) = Datatypes.S (length (events a))) by (unfold new_event in N1; injection N1 as _ <-; cbn; rewrite app_length; cbn; lia).
  rewrite <- F0. split; [apply simn_schedule; [exact S1|lia]|]. split; reflexivity.
Qed.

Lemma cond_subscribe_len c ops : forall s, length (events (cond_subscribe c ops s)) = length (events s).
Proof.
  induction ops as [|o t IH]; intros s; cbn [cond_subscribe]; [reflexivity|]. rewrite IH.
  destruct (get_event o s) as [oev|]; [|reflexivity]. destruct (is_processed oev); [apply cond_check_len|apply len_add_callback].
Qed.

Lemma simn_cond_subscribe f g c ops : forall a b,
  simn f g a b -> c < length (events a) -> simn f g (cond_subscribe c ops a) (cond_subscribe (f c) (map f ops) b).
Proof.
  induction ops as [|o t IH]; intros a b S Lc; cbn [cond_subscribe map]; [exact S|].
  rewrite (simn_get _ _ _ _ _ S). destruct (get_event o a) as [oev|]; cbn [option_map]; [|apply IH; assumption].
  unfold is_processed. cbn [ren_ev cbs]. destruct (cbs oev); cbn [option_map].
  - apply IH; [|rewrite len_add_callback; exact Lc].
    apply (simn_add_callback f g a b o (CbCheck c)); [exact S|]. cbn [cbdom]. apply Nat.ltb_lt, Lc.
  - apply IH; [apply simn_cond_check; assumption|rewrite cond_check_len; exact Lc].
Qed.

Lemma all_valid_ren f g a b es : simn f g a b -> all_valid (map f es) b = all_valid es a.
Proof.
  intros S. unfold all_valid. induction es as [|e t IH]; cbn [map forallb]; [reflexivity|].
  rewrite IH, (simn_get _ _ _ _ _ S). destruct (get_event e a); reflexivity.
Qed.

Lemma simn_call_cond f g a b all es :
  simn f g a b -> esdom (length (events a)) es = true -> call_sim f g (call_cond all es a) (call_cond all (map f es) b).
Proof.
  intros S D. unfold call_cond. rewrite (all_valid_ren _ _ _ _ _ S). destruct (negb (all_valid es a)).
  { apply (call_sim_same f g a b (Fail (kexn EAttribute M_not_an_event))); [exact S|reflexivity]. }
  set (EV := mkEvent (Some []) None false (KCond all es 0)).
  change (mkEvent (Some []) None false (KCond all (map f es) 0)) with (ren_ev f EV).
  assert (DE : evdom (Datatypes.S (length (events a))) EV = true).
  { unfold evdom, EV. cbn [cbs out kind forallb kdom]. eapply esdom_mono; [|exact D]. lia. }
  pose proof (simn_new_event f g a b S EV DE) as S1.
  pose proof (simn_f_next f g a b 0 S) as F0. rewrite !Nat.add_0_r in F0.
  destruct (new_event EV a) as [c a1] eqn:N1. destruct (new_event (ren_ev f EV) b) as [c' b1] eqn:N1'. cbn [fst snd] in S1.
  assert (Ec : c = length (events a)) by (unfold new_event in N1; injection N1 as <- _; reflexivity).
  assert (Ec' : c' = f c) by (unfold new_event in N1'; injection N1' as <- _; rewrite Ec; symmetry; exact F0).
  assert (La1 : length (events a1) = Datatypes.S (length (events a))) by (unfold new_event in N1; injection N1 as _ <-; cbn; rewrite app_length; cbn; lia).
  subst c'. destruct es as [|e0 es']; cbn [map].
  - split; [apply (simn_trigger f g a1 b1 c (Ok (VCond []))); [exact S1|lia|reflexivity]|]. split; [reflexivity|].
    cbn [fst snd odom vdom]. rewrite len_trigger, La1, Ec. apply ltb_S.
  - change (f e0 :: map f es') with (map f (e0 :: es')).
    split; [|split; [reflexivity|]].
    + cbn [fst]. apply (simn_add_callback f g _ _ c (CbBuild c)).
      * apply simn_cond_subscribe; [exact S1|lia].
      * cbn [cbdom]. rewrite cond_subscribe_len, La1, Ec. apply ltb_S.
    + cbn [fst snd odom vdom]. rewrite len_add_callback, cond_subscribe_len, La1, Ec. apply ltb_S.
Qed.

Lemma simn_call_probe f g a b e k :
  simn f g a b -> Nat.ltb e (length (events a)) = true -> call_sim f g (call_probe e k a) (call_probe (f e) k b).
Proof.
  intros S Le. unfold call_probe. rewrite (simn_get _ _ _ _ _ S). destruct (get_event e a) as [ev|]; cbn [option_map].
  2:{ apply (call_sim_same f g a b (Fail (kexn EAttribute M_not_an_event))); [exact S|reflexivity]. }
  unfold is_processed. cbn [ren_ev cbs]. destruct (cbs ev); cbn [option_map].
  - split; [apply (simn_add_callback f g a b e (CbProbe k)); [exact S|reflexivity]|]. split; reflexivity.
  - apply (call_sim_same f g a b (Fail (kexn EAttribute M_target_processed))); [exact S|reflexivity].
Qed.

Lemma simn_call_query f g a b q e :
  simn f g a b -> call_sim f g (call_query q e a) (call_query q (f e) b).
Proof.
  intros S. unfold call_query. rewrite (simn_get _ _ _ _ _ S). destruct (get_event e a) as [ev|] eqn:H; cbn [option_map].
  2:{ apply (call_sim_same f g a b (Fail (kexn EAttribute M_not_an_event))); [exact S|reflexivity]. }
  pose proof (simn_evdom _ _ _ _ _ _ S H) as D.
  destruct q.
  - unfold is_triggered. cbn [ren_ev out]. destruct (out ev); cbn [option_map]; (split; [exact S|split; reflexivity]).
  - unfold is_processed. cbn [ren_ev cbs]. destruct (cbs ev); cbn [option_map]; (split; [exact S|split; reflexivity]).
  - cbn [ren_ev out]. destruct (out ev) as [[v|x]|]; cbn [option_map ren_outcome].
    + apply (call_sim_same f g a b (Ok (vbool true))); [exact S|reflexivity].
    + apply (call_sim_same f g a b (Ok (vbool false))); [exact S|reflexivity].
    + apply (call_sim_same f g a b (Fail (kexn EAttribute M_value_pending))); [exact S|reflexivity].
  - rewrite raw_value_ren. destruct (raw_value ev) as [v|] eqn:Rv; cbn [option_map].
    + apply (call_sim_same f g a b (Ok v)); [exact S|]. cbn [odom]. eapply raw_value_dom; eassumption.
    + apply (call_sim_same f g a b (Fail (kexn EAttribute M_value_pending))); [exact S|reflexivity].
  - cbn [ren_ev kind]. destruct (kind ev); cbn [ren_kind];
      try (apply (call_sim_same f g a b (Fail (kexn EAttribute M_not_an_event))); [exact S|reflexivity]).
    unfold is_triggered. cbn [ren_ev out]. destruct (out ev); cbn [option_map]; (split; [exact S|split; reflexivity]).
  - cbn [ren_ev defused]. apply (call_sim_same f g a b (Ok (vbool (defused ev)))); [exact S|]. destruct (defused ev); reflexivity.
Qed.

Lemma set_nth_val_ren f k v l : set_nth_val k (ren_val f v) (ren_vals f l) = ren_vals f (set_nth_val k v l).
Proof.
  revert l. induction k as [|k IH]; intros [|x t]; cbn; try reflexivity.
  - f_equal. apply (IH []).
  - f_equal. apply IH.
Qed.

Lemma set_nth_val_dom n k v : vdom n v = true -> forall l, vsdom n l = true -> vsdom n (set_nth_val k v l) = true.
Proof.
  intros Dv. induction k as [|k IH]; intros [|x t]; unfold vsdom; cbn [set_nth_val forallb]; intros D.
  - now rewrite Dv.
  - apply andb_true_iff in D. destruct D as [_ D]. now rewrite Dv, D.
  - cbn [vdom]. apply (IH [] eq_refl).
  - apply andb_true_iff in D. destruct D as [D1 D2]. rewrite D1. apply (IH t D2).
Qed.

Lemma nth_ren f k l : nth k (ren_vals f l) VNone = ren_val f (nth k l VNone).
Proof. unfold ren_vals. change VNone with (ren_val f VNone) at 1. apply map_nth. Qed.

Lemma nth_dom n k l : vsdom n l = true -> vdom n (nth k l VNone) = true.
Proof.
  revert k. induction l as [|x t IH]; intros [|k] D; try reflexivity; unfold vsdom in D; cbn [forallb] in D;
    apply andb_true_iff in D; destruct D as [D1 D2]; [exact D1|apply IH, D2].
Qed.

Lemma simn_glob f g a b : simn f g a b -> vsdom (length (events a)) (glob a) = true /\ glob b = ren_vals f (glob a).
Proof. intros [S _]. apply (sm_glob _ _ _ _ S). Qed.

Lemma simn_do_call codes f g a b c :
  parametric_codes codes -> simn f g a b -> cdom (length (events a)) c = true ->
  call_sim f g (do_call codes c a) (do_call codes (ren_call f c) b).
Proof.
  intros PC S D. destruct c; cbn [do_call ren_call cdom] in *.
  - apply simn_call_timeout; assumption.
  - apply simn_call_event; assumption.
  - apply simn_call_succeed; assumption.
  - apply simn_call_fail; assumption.
  - apply simn_call_spawn; assumption.
  - apply simn_call_interrupt; assumption.
  - apply simn_call_cond; assumption.
  - apply simn_call_cond; assumption.
  - apply simn_call_probe; assumption.
  - apply simn_call_query; assumption.
  - rewrite (proj2 S). apply (call_sim_same f g a b (Ok (VNum (now a)))); [exact S|reflexivity].
  - discriminate.
  - rewrite (proj2 S), (simn_active _ _ _ _ S). split; [|split; reflexivity]. cbn [fst].
    apply (simn_add_obs f g a b S (OLog (active a) (now a) v)). exact D.
  - destruct (simn_glob _ _ _ _ S) as [Dg Eg]. rewrite Eg, nth_ren.
    apply (call_sim_same f g a b (Ok (nth g0 (glob a) VNone))); [exact S|]. cbn [odom]. apply nth_dom, Dg.
  - destruct (simn_glob _ _ _ _ S) as [Dg Eg]. rewrite Eg, set_nth_val_ren. split; [|split; reflexivity]. cbn [fst].
    apply simn_set_glob; [exact S|]. apply set_nth_val_dom; assumption.
Qed.
