(* Kernel/IntrBase.v -- groundwork for C04 (interrupts): list/callback lemmas, access lemmas for the state
   updaters of Kernel/Model.v, and the two-state relation [mono T s s'] ("between s and s' -- inside one step or
   one block of module-level code -- events and processes are only added; an event keeps the shape of its kind,
   stays triggered / processed once it is, an Initialize / Interruption event keeps its outcome; the record of a
   process outside T is untouched; the clock does not move") with one lemma per function of the model.
   Independent of Kernel/Inv.v (C01); uses only Kernel/Keys.v. *)
From Coq Require Import ZArith QArith List Bool Lia Lqa.
From ONL Require Import Kernel.Model Kernel.Keys.
Import ListNotations.

(* ------------------------------------------------------------------------------------------------ *)
(* callbacks *)

Lemma cb_eqb_eq a b : cb_eqb a b = true <-> a = b.
Proof.
  destruct a, b; cbn; try (split; [discriminate|intros H; discriminate H]);
    try (rewrite Nat.eqb_eq; split; [intros ->; reflexivity|intros H; injection H; auto]).
  split; reflexivity.
Qed.

Lemma cb_eqb_refl a : cb_eqb a a = true.
Proof. apply cb_eqb_eq. reflexivity. Qed.

Lemma cb_eqb_neq a b : cb_eqb a b = false <-> a <> b.
Proof.
  split.
  - intros H E. apply cb_eqb_eq in E. congruence.
  - intros H. destruct (cb_eqb a b) eqn:E; [|reflexivity]. apply cb_eqb_eq in E. contradiction.
Qed.

Lemma cb_eq_dec (a b : cb) : {a = b} + {a <> b}.
Proof. destruct (cb_eqb a b) eqn:E; [left; apply cb_eqb_eq, E|right; apply cb_eqb_neq, E]. Qed.

(* number of occurrences *)
Fixpoint cnt (c : cb) (l : list cb) : nat :=
  match l with
  | [] => 0
  | x :: t => (if cb_eqb x c then 1 else 0) + cnt c t
  end.

Lemma cnt_pos c l : In c l <-> (0 < cnt c l)%nat.
Proof.
  induction l as [|x t IH]; cbn [cnt In]; [split; [tauto|lia]|].
  destruct (cb_eqb x c) eqn:E.
  - apply cb_eqb_eq in E. split; [lia|]. intros _. left. exact E.
  - apply cb_eqb_neq in E. rewrite IH. cbn. split; [intros [H|H]; [contradiction|exact H]|auto].
Qed.

Lemma cnt_zero c l : ~ In c l <-> cnt c l = 0%nat.
Proof. rewrite cnt_pos. lia. Qed.

Lemma cnt_app c l1 l2 : cnt c (l1 ++ l2) = (cnt c l1 + cnt c l2)%nat.
Proof. induction l1 as [|x t IH]; cbn [cnt app]; [reflexivity|]. rewrite IH. lia. Qed.

Lemma cnt_single c d : cnt c [d] = if cb_eqb d c then 1%nat else 0%nat.
Proof. cbn. lia. Qed.

Lemma mem_cb_in c l : mem_cb c l = true <-> In c l.
Proof.
  unfold mem_cb. rewrite existsb_exists. split.
  - intros (x & Hx & E). apply cb_eqb_eq in E. subst x. exact Hx.
  - intros H. exists c. split; [exact H|apply cb_eqb_refl].
Qed.

Lemma mem_cb_false c l : mem_cb c l = false <-> ~ In c l.
Proof. rewrite <- mem_cb_in. destruct (mem_cb c l); split; congruence. Qed.

Lemma in_remove_first x c l : In x (remove_first c l) -> In x l.
Proof.
  induction l as [|y t IH]; cbn [remove_first]; [tauto|].
  destruct (cb_eqb y c); [intros H; right; exact H|].
  intros [H|H]; [left; exact H|right; apply IH, H].
Qed.

Lemma in_remove_first_other x c l : x <> c -> In x l -> In x (remove_first c l).
Proof.
  intros N. induction l as [|y t IH]; cbn [remove_first]; [tauto|].
  destruct (cb_eqb y c) eqn:E.
  - apply cb_eqb_eq in E. subst y. intros [H|H]; [congruence|exact H].
  - intros [H|H]; [left; exact H|right; apply IH, H].
Qed.

Lemma cnt_remove_first_other c d l : c <> d -> cnt c (remove_first d l) = cnt c l.
Proof.
  intros N. induction l as [|y t IH]; cbn [remove_first cnt]; [reflexivity|].
  destruct (cb_eqb y d) eqn:E.
  - apply cb_eqb_eq in E. subst y.
    assert (cb_eqb d c = false) as -> by (apply cb_eqb_neq; congruence). reflexivity.
  - cbn [cnt]. rewrite IH. reflexivity.
Qed.

Lemma cnt_remove_first_same c l : cnt c (remove_first c l) = pred (cnt c l).
Proof.
  induction l as [|y t IH]; cbn [remove_first cnt]; [reflexivity|].
  destruct (cb_eqb y c) eqn:E; [cbn; lia|].
  cbn [cnt]. rewrite E, IH. reflexivity.
Qed.

(* the callbacks the interrupt property is about: process resumptions and interruptions *)
Definition is_core (c : cb) : bool := match c with CbResume _ | CbInterrupt _ => true | _ => false end.

(* ------------------------------------------------------------------------------------------------ *)
(* lists with update *)

Lemma nth_upd {A} (f : A -> A) l n m :
  nth_error (upd_nth n f l) m = if Nat.eqb m n then option_map f (nth_error l m) else nth_error l m.
Proof.
  revert n m. induction l as [|x t IH]; intros n m.
  - destruct n; destruct m; cbn; try reflexivity. destruct (Nat.eqb m n); reflexivity.
  - destruct n, m; cbn [upd_nth nth_error Nat.eqb option_map]; try reflexivity. apply IH.
Qed.

Lemma upd_nth_length {A} (f : A -> A) l n : length (upd_nth n f l) = length l.
Proof. revert n. induction l as [|x t IH]; intros [|n]; cbn; try reflexivity. rewrite IH. reflexivity. Qed.

Lemma nth_error_snoc {A} (l : list A) x n :
  nth_error (l ++ [x]) n = if Nat.ltb n (length l) then nth_error l n else if Nat.eqb n (length l) then Some x else None.
Proof.
  destruct (Nat.ltb n (length l)) eqn:L.
  - apply Nat.ltb_lt in L. apply nth_error_app1, L.
  - apply Nat.ltb_ge in L. rewrite nth_error_app2 by exact L.
    destruct (Nat.eqb n (length l)) eqn:E.
    + apply Nat.eqb_eq in E. subst n. rewrite Nat.sub_diag. reflexivity.
    + apply Nat.eqb_neq in E. destruct (n - length l)%nat as [|k] eqn:D; [lia|]. cbn. destruct k; reflexivity.
Qed.

Lemma nth_error_lt {A} (l : list A) n x : nth_error l n = Some x -> (n < length l)%nat.
Proof. intros H. apply nth_error_Some. congruence. Qed.

(* ------------------------------------------------------------------------------------------------ *)
(* access lemmas *)

Lemma get_event_upd e f e' s :
  get_event e' (upd_event e f s) = if Nat.eqb e' e then option_map f (get_event e' s) else get_event e' s.
Proof. unfold get_event, upd_event. cbn. apply nth_upd. Qed.

Lemma get_event_upd_same e f s ev : get_event e s = Some ev -> get_event e (upd_event e f s) = Some (f ev).
Proof. intros H. rewrite get_event_upd, Nat.eqb_refl, H. reflexivity. Qed.

Lemma get_event_upd_other e f e' s : e' <> e -> get_event e' (upd_event e f s) = get_event e' s.
Proof. intros N. rewrite get_event_upd. apply Nat.eqb_neq in N. rewrite N. reflexivity. Qed.

Lemma events_length_upd e f s : length (events (upd_event e f s)) = length (events s).
Proof. unfold upd_event. cbn. apply upd_nth_length. Qed.

Lemma get_event_new ev s e :
  get_event e (snd (new_event ev s)) =
  if Nat.ltb e (length (events s)) then get_event e s else if Nat.eqb e (length (events s)) then Some ev else None.
Proof. unfold get_event, new_event. cbn. apply nth_error_snoc. Qed.

Lemma get_event_new_old ev s e x : get_event e s = Some x -> get_event e (snd (new_event ev s)) = Some x.
Proof.
  intros H. rewrite get_event_new. pose proof (nth_error_lt _ _ _ H) as L. apply Nat.ltb_lt in L. rewrite L. exact H.
Qed.

Lemma get_event_new_self ev s : get_event (length (events s)) (snd (new_event ev s)) = Some ev.
Proof. rewrite get_event_new, Nat.ltb_irrefl, Nat.eqb_refl. reflexivity. Qed.

Lemma get_event_lt e s ev : get_event e s = Some ev -> (e < length (events s))%nat.
Proof. apply nth_error_lt. Qed.

Lemma get_event_none e s : (length (events s) <= e)%nat -> get_event e s = None.
Proof. intros H. apply nth_error_None, H. Qed.

Lemma get_proc_upd p f q s :
  get_proc q (upd_proc p f s) = if Nat.eqb q p then option_map f (get_proc q s) else get_proc q s.
Proof. unfold get_proc, upd_proc. cbn. apply nth_upd. Qed.

Lemma get_proc_lt p s pr : get_proc p s = Some pr -> (p < length (procs s))%nat.
Proof. apply nth_error_lt. Qed.

(* ------------------------------------------------------------------------------------------------ *)
(* kinds *)

Definition kshape (k : ekind) : ekind := match k with KCond a ops _ => KCond a ops 0 | _ => k end.
Definition urgent_kind (k : ekind) : bool := match k with KInit _ | KInterruption _ => true | _ => false end.

Lemma kshape_interruption k p : kshape k = KInterruption p <-> k = KInterruption p.
Proof. destruct k; cbn; split; congruence. Qed.
Lemma kshape_init k p : kshape k = KInit p <-> k = KInit p.
Proof. destruct k; cbn; split; congruence. Qed.
Lemma kshape_process k p : kshape k = KProcess p <-> k = KProcess p.
Proof. destruct k; cbn; split; congruence. Qed.
Lemma kshape_eq_interruption k k' p : kshape k' = kshape k -> k = KInterruption p -> k' = KInterruption p.
Proof. intros H ->. apply kshape_interruption. exact H. Qed.
Lemma kshape_eq_init k k' p : kshape k' = kshape k -> k = KInit p -> k' = KInit p.
Proof. intros H ->. apply kshape_init. exact H. Qed.
Lemma kshape_eq_process k k' p : kshape k' = kshape k -> k = KProcess p -> k' = KProcess p.
Proof. intros H ->. apply kshape_process. exact H. Qed.
Lemma kshape_urgent k k' : kshape k' = kshape k -> urgent_kind k' = urgent_kind k.
Proof. destruct k, k'; cbn; congruence. Qed.

(* ------------------------------------------------------------------------------------------------ *)
(* the relation *)

(* the event of a process is a Process event carrying its pid *)
Definition pevK (s : state) : Prop :=
  forall p pr, get_proc p s = Some pr -> exists ev, get_event (pev pr) s = Some ev /\ kind ev = KProcess p.

Definition ev_mono (ev ev' : event) : Prop :=
  kshape (kind ev') = kshape (kind ev) /\
  (out ev <> None -> out ev' <> None) /\
  (cbs ev = None -> cbs ev' = None) /\
  (urgent_kind (kind ev) = true -> out ev <> None -> out ev' = out ev).

Lemma ev_mono_refl ev : ev_mono ev ev.
Proof. repeat split; auto. Qed.

Lemma ev_mono_trans a b c : ev_mono a b -> ev_mono b c -> ev_mono a c.
Proof.
  intros (A1 & A2 & A3 & A4) (B1 & B2 & B3 & B4). repeat split.
  - congruence.
  - auto.
  - auto.
  - intros U O. rewrite B4; [apply A4; assumption| |apply A2, O].
    rewrite (kshape_urgent _ _ A1). exact U.
Qed.

Record monor (T : pid -> Prop) (s s' : state) : Prop := mkMonor {
  m_pevK : pevK s';
  m_now : now s' = now s;
  m_ev : forall e ev, get_event e s = Some ev -> exists ev', get_event e s' = Some ev' /\ ev_mono ev ev';
  m_pr : forall q pr, get_proc q s = Some pr ->
         exists pr', get_proc q s' = Some pr' /\ pev pr' = pev pr /\ (~ T q -> pr' = pr) }.

Definition mono (T : pid -> Prop) (s s' : state) : Prop := pevK s -> monor T s s'.

Definition Tnone : pid -> Prop := fun _ => False.
Definition Tone (p : pid) : pid -> Prop := fun q => q = p.

Lemma monor_refl T s : pevK s -> monor T s s.
Proof.
  intros K. constructor; [exact K|reflexivity| |].
  - intros e ev H. exists ev. split; [exact H|apply ev_mono_refl].
  - intros q pr H. exists pr. auto.
Qed.

Lemma monor_trans T s s1 s2 : monor T s s1 -> monor T s1 s2 -> monor T s s2.
Proof.
  intros [K1 N1 E1 P1] [K2 N2 E2 P2]. constructor; [exact K2|congruence| |].
  - intros e ev H. destruct (E1 _ _ H) as (ev1 & H1 & M1). destruct (E2 _ _ H1) as (ev2 & H2 & M2).
    exists ev2. split; [exact H2|eapply ev_mono_trans; eassumption].
  - intros q pr H. destruct (P1 _ _ H) as (pr1 & H1 & A1 & B1). destruct (P2 _ _ H1) as (pr2 & H2 & A2 & B2).
    exists pr2. split; [exact H2|]. split; [congruence|]. intros N. rewrite (B2 N). apply B1, N.
Qed.

Lemma monor_weaken (T T' : pid -> Prop) s s' : (forall q, T q -> T' q) -> monor T s s' -> monor T' s s'.
Proof.
  intros HT [K N E P]. constructor; try assumption.
  intros q pr H. destruct (P _ _ H) as (pr' & H1 & A & B). exists pr'. split; [exact H1|]. split; [exact A|].
  intros N'. apply B. intros X. apply N', HT, X.
Qed.

Lemma mono_refl T s : mono T s s.
Proof. intros K. apply monor_refl, K. Qed.

Lemma mono_trans T s s1 s2 : mono T s s1 -> mono T s1 s2 -> mono T s s2.
Proof. intros H1 H2 K. pose proof (H1 K) as X. eapply monor_trans; [exact X|]. apply H2, (m_pevK _ _ _ X). Qed.

Lemma mono_bind T s s1 s2 : mono T s s1 -> (pevK s -> monor T s s1 -> mono T s1 s2) -> mono T s s2.
Proof.
  intros H1 H2 K. pose proof (H1 K) as X. eapply monor_trans; [exact X|]. apply (H2 K X), (m_pevK _ _ _ X).
Qed.

Lemma mono_weaken (T T' : pid -> Prop) s s' : (forall q, T q -> T' q) -> mono T s s' -> mono T' s s'.
Proof. intros HT H K. eapply monor_weaken; [exact HT|apply H, K]. Qed.

(* ---- primitives ---- *)

Lemma mono_frame T s s' : now s' = now s -> events s' = events s -> procs s' = procs s -> mono T s s'.
Proof.
  intros Hn He Hp K. constructor.
  - intros p pr. unfold get_proc, get_event. rewrite Hp, He. apply K.
  - exact Hn.
  - intros e ev. unfold get_event. rewrite He. intros H. exists ev. split; [exact H|apply ev_mono_refl].
  - intros q pr. unfold get_proc. rewrite Hp. intros H. exists pr. auto.
Qed.

Lemma mono_set_active T a s : mono T s (set_active a s). Proof. apply mono_frame; reflexivity. Qed.
Lemma mono_set_glob T g s : mono T s (set_glob g s). Proof. apply mono_frame; reflexivity. Qed.
Lemma mono_add_obs T o s : mono T s (add_obs o s). Proof. apply mono_frame; reflexivity. Qed.
Lemma mono_schedule T e pr d s : mono T s (schedule e pr d s). Proof. apply mono_frame; reflexivity. Qed.

Lemma mono_upd_event T e f s :
  (pevK s -> forall ev, get_event e s = Some ev -> ev_mono ev (f ev)) -> mono T s (upd_event e f s).
Proof.
  intros Hf K. constructor.
  - intros p pr H. change (get_proc p s = Some pr) in H. destruct (K _ _ H) as (ev & H1 & H2).
    rewrite get_event_upd. destruct (Nat.eqb (pev pr) e) eqn:E.
    + apply Nat.eqb_eq in E. rewrite H1. cbn. exists (f ev). split; [reflexivity|].
      rewrite <- E in Hf. destruct (Hf K _ H1) as (A & _). apply (kshape_eq_process _ _ _ A H2).
    + exists ev. split; assumption.
  - reflexivity.
  - intros e0 ev H. rewrite get_event_upd. destruct (Nat.eqb e0 e) eqn:E.
    + apply Nat.eqb_eq in E. subst e0. rewrite H. cbn. exists (f ev). split; [reflexivity|apply Hf; assumption].
    + exists ev. split; [exact H|apply ev_mono_refl].
  - intros q pr H. exists pr. auto.
Qed.

Lemma mono_new_event T ev s : mono T s (snd (new_event ev s)).
Proof.
  intros K. constructor.
  - intros p pr H. change (get_proc p s = Some pr) in H. destruct (K _ _ H) as (ev0 & H1 & H2).
    exists ev0. split; [apply get_event_new_old, H1|exact H2].
  - reflexivity.
  - intros e ev0 H. exists ev0. split; [apply get_event_new_old, H|apply ev_mono_refl].
  - intros q pr H. exists pr. auto.
Qed.

Lemma mono_upd_proc (T : pid -> Prop) p f s : T p -> (forall pr, pev (f pr) = pev pr) -> mono T s (upd_proc p f s).
Proof.
  intros HT Hf K. constructor.
  - intros q pr. rewrite get_proc_upd. destruct (Nat.eqb q p) eqn:E.
    + apply Nat.eqb_eq in E. subst q. destruct (get_proc p s) as [pr0|] eqn:H; cbn; [|discriminate].
      intros H'; injection H' as <-. rewrite Hf. apply (K _ _ H).
    + apply K.
  - reflexivity.
  - intros e ev H. exists ev. split; [exact H|apply ev_mono_refl].
  - intros q pr H. rewrite get_proc_upd. destruct (Nat.eqb q p) eqn:E.
    + apply Nat.eqb_eq in E. subst q. rewrite H. cbn. exists (f pr). split; [reflexivity|]. split; [apply Hf|].
      intros N. contradiction.
    + exists pr. auto.
Qed.

Lemma mono_add_proc T pr s :
  (exists ev, get_event (pev pr) s = Some ev /\ kind ev = KProcess (length (procs s))) ->
  mono T s (set_procs (procs s ++ [pr]) s).
Proof.
  intros Hev K. constructor.
  - intros q pr0. unfold get_proc. cbn. rewrite nth_error_snoc.
    destruct (Nat.ltb q (length (procs s))); [apply K|].
    destruct (Nat.eqb q (length (procs s))) eqn:E; [|discriminate].
    apply Nat.eqb_eq in E. subst q. intros H; injection H as <-. exact Hev.
  - reflexivity.
  - intros e ev H. exists ev. split; [exact H|apply ev_mono_refl].
  - intros q pr0 H. exists pr0. split; [|auto]. unfold get_proc. cbn. rewrite nth_error_snoc.
    pose proof (get_proc_lt _ _ _ H) as L. apply Nat.ltb_lt in L. rewrite L. exact H.
Qed.

(* event-field setters *)
Lemma mono_set_cbs T e c s : (c = None \/ forall ev, get_event e s = Some ev -> cbs ev <> None) -> mono T s (upd_event e (ev_set_cbs c) s).
Proof.
  intros Hc. apply mono_upd_event. intros _ ev H. repeat split; auto. cbn. intros N.
  destruct Hc as [->|Hc]; [reflexivity|]. exfalso. exact (Hc _ H N).
Qed.

Lemma mono_set_defused T e s : mono T s (upd_event e ev_set_defused s).
Proof. apply mono_upd_event. intros _ ev _. repeat split; auto. Qed.

Lemma mono_set_kind_cond T e a ops n s :
  (forall ev, get_event e s = Some ev -> exists n0, kind ev = KCond a ops n0) ->
  mono T s (upd_event e (ev_set_kind (KCond a ops n)) s).
Proof.
  intros Hk. apply mono_upd_event. intros _ ev H. destruct (Hk _ H) as (n0 & E). repeat split; auto.
  cbn. rewrite E. reflexivity.
Qed.

(* setting an outcome: allowed on untriggered events and on events that are not Initialize / Interruption *)
Lemma mono_set_out T e o s :
  (pevK s -> forall ev, get_event e s = Some ev -> out ev = None \/ urgent_kind (kind ev) = false) ->
  mono T s (upd_event e (ev_set_out (Some o)) s).
Proof.
  intros Hk. apply mono_upd_event. intros K ev H. repeat split; auto.
  - cbn. discriminate.
  - cbn. intros U O. destruct (Hk K _ H) as [X|X]; congruence.
Qed.

Lemma mono_add_callback T e c s : mono T s (add_callback e c s).
Proof.
  apply mono_upd_event. intros _ ev _. unfold ev_add_cb. destruct (cbs ev) eqn:C; repeat split; auto.
  cbn. congruence.
Qed.

Lemma mono_trigger T e o s :
  (pevK s -> forall ev, get_event e s = Some ev -> out ev = None \/ urgent_kind (kind ev) = false) ->
  mono T s (trigger_event e o s).
Proof. intros H. unfold trigger_event. eapply mono_trans; [apply mono_set_out, H|apply mono_schedule]. Qed.

(* ---- one lemma per function of the model ---- *)

Lemma mono_cond_check T c op s : mono T s (cond_check c op s).
Proof.
  unfold cond_check.
  destruct (get_event c s) as [cev|] eqn:Hc; [|apply mono_refl].
  destruct (get_event op s) as [oev|] eqn:Ho; [|apply mono_refl].
  destruct (out cev) eqn:Oc; [apply mono_refl|].
  destruct (kind cev) as [| | | | |all ops count|] eqn:Kc; try apply mono_refl.
  assert (E1 : mono T s (upd_event c (ev_set_kind (KCond all ops (S count))) s)).
  { apply mono_set_kind_cond. intros ev H. rewrite Hc in H. injection H as <-. exists count. exact Kc. }
  assert (TR : forall o s1, monor T s s1 -> mono T s1 (trigger_event c o s1)).
  { intros o s1 X. apply mono_trigger. intros _ ev H. right.
    destruct (m_ev _ _ _ X _ _ Hc) as (ev' & H' & (A & _)). rewrite H in H'. injection H' as <-.
    rewrite (kshape_urgent _ _ A), Kc. reflexivity. }
  destruct (out oev) as [[v|x]|].
  - destruct (cond_evaluate all (length ops) (S count)); [|exact E1].
    eapply mono_bind; [exact E1|]. intros K X. apply TR, X.
  - eapply mono_bind; [exact E1|]. intros K X. eapply mono_bind; [apply mono_set_defused|]. intros K1 X1.
    apply TR. eapply monor_trans; eassumption.
  - destruct (cond_evaluate all (length ops) (S count)); [|exact E1].
    eapply mono_bind; [exact E1|]. intros K X. apply TR, X.
Qed.

Lemma mono_remove_check_from T c o s : mono T s (remove_check_from c o s).
Proof.
  unfold remove_check_from. destruct (get_event o s) as [oev|] eqn:H; [|apply mono_refl].
  destruct (cbs oev) as [l|] eqn:C; [|apply mono_refl].
  destruct (mem_cb (CbCheck c) l); [|apply mono_refl].
  apply mono_set_cbs. right. intros ev H'. rewrite H in H'. injection H' as <-. congruence.
Qed.

Lemma mono_remove_ops T rec c :
  (forall o s s', rec o s = Some s' -> mono T s s') ->
  forall l s s', remove_ops rec c l s = Some s' -> mono T s s'.
Proof.
  intros Hrec. induction l as [|o t IH]; intros s s'; cbn [remove_ops].
  - intros H; injection H as <-. apply mono_refl.
  - destruct (get_event o s) as [oev|]; [|discriminate].
    destruct (is_cond oev).
    + destruct (rec o (remove_check_from c o s)) as [s2|] eqn:R; [|discriminate]. intros H.
      eapply mono_trans; [apply mono_remove_check_from|]. eapply mono_trans; [eapply Hrec, R|]. apply IH, H.
    + intros H. eapply mono_trans; [apply mono_remove_check_from|]. apply IH, H.
Qed.

Lemma mono_remove_checks T fuel : forall c s s', remove_checks fuel c s = Some s' -> mono T s s'.
Proof.
  induction fuel as [|f IH]; intros c s s'; cbn [remove_checks]; [discriminate|].
  destruct (get_event c s) as [cev|]; [|discriminate].
  destruct (kind cev); try (intros H; injection H as <-; apply mono_refl).
  apply mono_remove_ops. exact IH.
Qed.

Lemma mono_cond_build T c s : mono T s (fst (cond_build c s)).
Proof.
  unfold cond_build. destruct (remove_checks (S c) c s) as [s1|] eqn:R; [|apply mono_refl].
  pose proof (mono_remove_checks T _ _ _ _ R) as E1.
  destruct (get_event c s1) as [cev|] eqn:Hc; [|exact E1].
  destruct (out cev) as [[v|x]|]; try exact E1.
  destruct (kind cev) eqn:Kc; try exact E1.
  destruct (populate (S c) (events s1) ops); [|exact E1].
  cbn [fst]. eapply mono_trans; [exact E1|]. apply mono_set_out. intros _ ev H. right.
  rewrite Hc in H. injection H as <-. rewrite Kc. reflexivity.
Qed.

Lemma mono_call_timeout T d v s : mono T s (fst (call_timeout d v s)).
Proof.
  unfold call_timeout. destruct (neg_delay d); [apply mono_refl|].
  set (EV := mkEvent (Some []) (Some (Ok v)) false KTimeout).
  pose proof (mono_new_event T EV s) as X1. destruct (new_event EV s) as [e s1]. cbn [fst snd] in *.
  eapply mono_trans; [exact X1|apply mono_schedule].
Qed.

Lemma mono_call_event T s : mono T s (fst (call_event s)).
Proof.
  unfold call_event. set (EV := mkEvent (Some []) None false KPlain).
  pose proof (mono_new_event T EV s) as X1. destruct (new_event EV s) as [e s1]. exact X1.
Qed.

Lemma mono_call_succeed T e v s : mono T s (fst (call_succeed e v s)).
Proof.
  unfold call_succeed. destruct (get_event e s) as [ev|] eqn:H; [|apply mono_refl].
  unfold is_triggered. destruct (out ev) eqn:O; [apply mono_refl|]. cbn [fst].
  apply mono_trigger. intros _ ev' H'. left. congruence.
Qed.

Lemma mono_call_fail T e x s : mono T s (fst (call_fail e x s)).
Proof.
  unfold call_fail. destruct (get_event e s) as [ev|] eqn:H; [|apply mono_refl].
  unfold is_triggered. destruct (out ev) eqn:O; [apply mono_refl|].
  destruct x; try apply mono_refl. cbn [fst].
  apply mono_trigger. intros _ ev' H'. left. congruence.
Qed.

Lemma mono_call_spawn T codes code arg s : mono T s (fst (call_spawn codes code arg s)).
Proof.
  unfold call_spawn. destruct (nth_error codes code) as [pr|]; [|apply mono_refl].
  set (p := length (procs s)).
  set (EV1 := mkEvent (Some []) None false (KProcess p)).
  set (EV2 := mkEvent (Some [CbResume p]) (Some (Ok VNone)) false (KInit p)).
  unfold new_event. cbn [fst snd]. cbv beta iota.
  set (s1 := set_events (events s ++ [EV1]) s).
  set (s2 := set_events (events s1 ++ [EV2]) s1).
  eapply mono_trans; [apply (mono_new_event T EV1 s)|]. change (snd (new_event EV1 s)) with s1.
  eapply mono_trans; [apply (mono_new_event T EV2 s1)|]. change (snd (new_event EV2 s1)) with s2.
  eapply mono_trans; [apply (mono_schedule T (length (events s1)) URGENT 0 s2)|].
  apply mono_add_proc. cbn [pev]. exists EV1. split; [|reflexivity].
  unfold get_event. cbn. rewrite nth_error_app1 by (rewrite app_length; cbn; lia).
  rewrite nth_error_app2 by lia. rewrite Nat.sub_diag. reflexivity.
Qed.

Lemma mono_call_interrupt T e cause s : mono T s (fst (call_interrupt e cause s)).
Proof.
  unfold call_interrupt. destruct (get_event e s) as [ev|]; [|apply mono_refl].
  destruct (kind ev); try apply mono_refl.
  destruct (is_triggered ev); [apply mono_refl|].
  destruct (match active s with Some a => Nat.eqb a p | None => false end); [apply mono_refl|].
  set (EV := mkEvent (Some [CbInterrupt (length (events s))]) (Some (Fail (EInterrupt, [cause]))) true (KInterruption p)).
  pose proof (mono_new_event T EV s) as X1. destruct (new_event EV s) as [i s1]. cbn [fst snd] in *.
  eapply mono_trans; [exact X1|apply mono_schedule].
Qed.

Lemma mono_cond_subscribe T c ops : forall s, mono T s (cond_subscribe c ops s).
Proof.
  induction ops as [|o t IH]; intros s; cbn [cond_subscribe]; [apply mono_refl|].
  eapply mono_trans; [|apply IH].
  destruct (get_event o s) as [oev|]; [|apply mono_refl].
  destruct (is_processed oev); [apply mono_cond_check|apply mono_add_callback].
Qed.

Lemma mono_call_cond T all es s : mono T s (fst (call_cond all es s)).
Proof.
  unfold call_cond. destruct (negb (all_valid es s)); [apply mono_refl|].
  set (EV := mkEvent (Some []) None false (KCond all es 0)).
  pose proof (mono_new_event T EV s) as X1.
  pose proof (get_event_new_self EV s) as G1.
  unfold new_event in *. cbn [fst snd] in *. set (s1 := set_events (events s ++ [EV]) s) in *.
  destruct es as [|e0 es'].
  - cbn [fst]. eapply mono_trans; [exact X1|]. apply mono_trigger. intros _ ev H. left.
    rewrite G1 in H. injection H as <-. reflexivity.
  - cbn [fst]. eapply mono_trans; [exact X1|]. eapply mono_trans; [apply mono_cond_subscribe|apply mono_add_callback].
Qed.

Lemma mono_call_probe T e n s : mono T s (fst (call_probe e n s)).
Proof.
  unfold call_probe. destruct (get_event e s) as [ev|]; [|apply mono_refl].
  destruct (is_processed ev); [apply mono_refl|apply mono_add_callback].
Qed.

Lemma call_query_state q e s : fst (call_query q e s) = s.
Proof.
  unfold call_query. destruct (get_event e s) as [ev|]; [|reflexivity].
  destruct q; try reflexivity.
  - destruct (out ev) as [[?|?]|]; reflexivity.
  - destruct (raw_value ev); reflexivity.
  - destruct (kind ev); reflexivity.
Qed.

Lemma mono_do_call T codes c s : mono T s (fst (do_call codes c s)).
Proof.
  destruct c; cbn [do_call].
  - apply mono_call_timeout.
  - apply mono_call_event.
  - apply mono_call_succeed.
  - apply mono_call_fail.
  - apply mono_call_spawn.
  - apply mono_call_interrupt.
  - apply mono_call_cond.
  - apply mono_call_cond.
  - apply mono_call_probe.
  - rewrite call_query_state. apply mono_refl.
  - apply mono_refl.
  - apply mono_refl.
  - apply mono_add_obs.
  - apply mono_refl.
  - apply mono_set_glob.
Qed.

Lemma mono_run_frag {A} T codes (f : frag A) : forall s, mono T s (fst (run_frag codes f s)).
Proof.
  induction f as [v a|v|x|c k IH]; intros s; cbn [run_frag fst]; try apply mono_refl.
  pose proof (mono_do_call T codes c s) as X. destruct (do_call codes c s) as [s1 o]. cbn [fst] in X.
  eapply mono_trans; [exact X|apply IH].
Qed.

Lemma mono_set_target (T : pid -> Prop) p t s : T p -> mono T s (upd_proc p (proc_set_target t) s).
Proof. intros HT. apply mono_upd_proc; [exact HT|reflexivity]. Qed.

Lemma mono_proc_finish (T : pid -> Prop) p pr o s :
  T p -> (pevK s -> exists q, get_proc q s = Some pr \/ exists pr0, get_proc q s = Some pr0 /\ pev pr0 = pev pr) ->
  mono T s (proc_finish p pr o s).
Proof.
  intros HT Hp. unfold proc_finish.
  eapply mono_trans; [apply mono_trigger|].
  - intros K ev H. right. destruct (Hp K) as (q & [Hq|(pr0 & Hq & E)]).
    + destruct (K _ _ Hq) as (ev0 & H0 & K0). rewrite H in H0. injection H0 as <-. rewrite K0. reflexivity.
    + destruct (K _ _ Hq) as (ev0 & H0 & K0). rewrite E, H in H0. injection H0 as <-. rewrite K0. reflexivity.
  - eapply mono_trans; [apply mono_set_target, HT|apply mono_set_active].
Qed.

Lemma mono_proc_wait (T : pid -> Prop) p e s : T p -> mono T s (proc_wait p e s).
Proof.
  intros HT. unfold proc_wait. eapply mono_trans; [apply mono_add_callback|].
  eapply mono_trans; [apply mono_set_target, HT|apply mono_set_active].
Qed.

Lemma mono_put_proc (T : pid -> Prop) p pr s :
  T p -> (forall pr0, get_proc p s = Some pr0 -> pev pr0 = pev pr) -> mono T s (put_proc p pr s).
Proof.
  intros HT Hp K. constructor.
  - intros q pr1. unfold put_proc. rewrite get_proc_upd. destruct (Nat.eqb q p) eqn:E.
    + apply Nat.eqb_eq in E. subst q. destruct (get_proc p s) as [pr0|] eqn:H; cbn; [|discriminate].
      intros H'; injection H' as <-. rewrite <- (Hp _ eq_refl). apply (K _ _ H).
    + apply K.
  - reflexivity.
  - intros e ev H. exists ev. split; [exact H|apply ev_mono_refl].
  - intros q pr1 H. unfold put_proc. rewrite get_proc_upd. destruct (Nat.eqb q p) eqn:E.
    + apply Nat.eqb_eq in E. subst q. rewrite H. cbn. exists pr. split; [reflexivity|]. split; [symmetry; apply Hp, H|].
      intros N. contradiction.
    + exists pr1. auto.
Qed.

Lemma mono_resume_loop codes fuel : forall p e s, mono (Tone p) s (fst (resume_loop fuel codes p e s)).
Proof.
  induction fuel as [|f IH]; intros p e s; cbn [resume_loop]; [apply mono_refl|].
  destruct (get_event e s) as [ev|]; [|apply mono_refl].
  destruct (get_proc p s) as [pr|] eqn:Hp; [|apply mono_refl].
  destruct (out ev) as [o|]; [|apply mono_refl].
  set (s1 := match o with Fail _ => upd_event e ev_set_defused s | Ok _ => s end).
  assert (E1 : mono Tnone s s1) by (subst s1; destruct o; [apply mono_refl|apply mono_set_defused]).
  pose proof (mono_run_frag Tnone codes (resume (pcode pr) (pst pr) o) s1) as E2.
  destruct (run_frag codes (resume (pcode pr) (pst pr) o) s1) as [s2 r]. cbn [fst] in E2.
  intros K. pose proof (mono_trans _ _ _ _ E1 E2 K) as X12.
  assert (Hp2 : get_proc p s2 = Some pr).
  { destruct (m_pr _ _ _ X12 _ _ Hp) as (pr' & H1 & _ & H2).
    rewrite H1. f_equal. apply H2. intros []. }
  refine (monor_trans _ _ _ _ (monor_weaken Tnone (Tone p) _ _ (fun q (F : Tnone q) => match F with end) X12) (_ (m_pevK _ _ _ X12))).
  match goal with |- pevK ?a -> monor ?T ?a ?b => change (mono T a b) end.
  destruct r as [v a|v|x].
  - assert (E3 : mono (Tone p) s2 (put_proc p (proc_set_st pr a) s2)).
    { apply mono_put_proc; [reflexivity|]. intros pr0 H0. rewrite Hp2 in H0. injection H0 as <-. reflexivity. }
    destruct v; try exact E3.
    destruct (get_event e0 (put_proc p (proc_set_st pr a) s2)) as [ev'|]; [|exact E3].
    destruct (is_processed ev').
    + eapply mono_trans; [exact E3|apply IH].
    + cbn [fst]. eapply mono_trans; [exact E3|apply mono_proc_wait; reflexivity].
  - cbn [fst]. apply mono_proc_finish; [reflexivity|]. intros _. exists p. left. exact Hp2.
  - cbn [fst]. apply mono_proc_finish; [reflexivity|]. intros _. exists p. left. exact Hp2.
Qed.

Lemma mono_resume_proc fuel codes p e s : mono (Tone p) s (fst (resume_proc fuel codes p e s)).
Proof. unfold resume_proc. eapply mono_trans; [apply mono_set_active|apply mono_resume_loop]. Qed.

(* the victim of an interruption event, as a set of pids *)
Definition victim_of (s : state) (i : evid) : pid -> Prop :=
  fun q => (length (events s) <= i)%nat \/ exists iev, get_event i s = Some iev /\ kind iev = KInterruption q.

Lemma mono_do_interruption fuel codes i s : mono (victim_of s i) s (fst (do_interruption fuel codes i s)).
Proof.
  unfold do_interruption.
  destruct (get_event i s) as [iev|] eqn:Hi; [|apply mono_refl].
  destruct (kind iev) eqn:Ki; try apply mono_refl.
  destruct (get_proc p s) as [pr|]; [|apply mono_refl].
  destruct (get_event (pev pr) s) as [pe|]; [|apply mono_refl].
  destruct (is_triggered pe); [apply mono_refl|].
  destruct (ptarget pr) as [t|]; [|apply mono_refl].
  destruct (get_event t s) as [tev|] eqn:Ht; [|apply mono_refl].
  destruct (cbs tev) as [l|] eqn:Ct; [|apply mono_refl].
  destruct (mem_cb (CbResume p) l); [|apply mono_refl].
  eapply mono_trans.
  - apply mono_set_cbs. right. intros ev H. rewrite Ht in H. injection H as <-. congruence.
  - eapply mono_weaken; [|apply mono_resume_proc].
    intros q ->. right. exists iev. split; [exact Hi|exact Ki].
Qed.

Lemma stop_cb_state e s : fst (stop_cb e s) = s.
Proof. unfold stop_cb. destruct (get_event e s) as [ev|]; [|reflexivity]. destruct (out ev) as [[?|?]|]; reflexivity. Qed.

(* processes a callback may touch *)
Definition cb_touch (s : state) (c : cb) : pid -> Prop :=
  fun q => match c with CbResume p => q = p | CbInterrupt i => victim_of s i q | _ => False end.

Lemma mono_run_cb fuel codes e c s : mono (cb_touch s c) s (fst (run_cb fuel codes e c s)).
Proof.
  destruct c; cbn [run_cb fst].
  - apply mono_resume_proc.
  - apply mono_cond_check.
  - apply mono_cond_build.
  - apply mono_do_interruption.
  - rewrite stop_cb_state. apply mono_refl.
  - apply mono_add_obs.
Qed.

Definition cbs_touch (s : state) (l : list cb) : pid -> Prop := fun q => exists c, In c l /\ cb_touch s c q.

Lemma victim_of_mono T s s1 i q : monor T s s1 -> victim_of s1 i q -> victim_of s i q.
Proof.
  intros X [L|(iev & H & K)].
  - left. destruct (Nat.le_gt_cases (length (events s)) i) as [G|G]; [exact G|]. exfalso.
    destruct (nth_error (events s) i) as [ev|] eqn:E; [|apply nth_error_None in E; lia].
    destruct (m_ev _ _ _ X _ _ E) as (ev' & H' & _). apply get_event_lt in H'. lia.
  - destruct (get_event i s) as [ev|] eqn:E.
    + right. exists ev. split; [exact E|].
      destruct (m_ev _ _ _ X _ _ E) as (ev' & H' & (A & _)). rewrite H in H'. injection H' as <-.
      rewrite K in A. cbn [kshape] in A. symmetry in A. exact (proj1 (kshape_interruption _ _) A).
    + left. apply nth_error_None in E. exact E.
Qed.

Lemma mono_run_callbacks fuel codes e l : forall s, mono (cbs_touch s l) s (fst (run_callbacks fuel codes e l s)).
Proof.
  induction l as [|c t IH]; intros s; cbn [run_callbacks fst]; [apply mono_refl|].
  pose proof (mono_run_cb fuel codes e c s) as X. destruct (run_cb fuel codes e c s) as [s1 r]. cbn [fst] in X.
  assert (X' : mono (cbs_touch s (c :: t)) s s1).
  { eapply mono_weaken; [|exact X]. intros q H. exists c. split; [left; reflexivity|exact H]. }
  assert (REST : mono (cbs_touch s (c :: t)) s (fst (run_callbacks fuel codes e t s1))).
  { eapply mono_bind; [exact X'|]. intros K XX.
    eapply mono_weaken; [|apply IH].
    intros q (c' & Hin & Hc'). exists c'. split; [right; exact Hin|].
    destruct c'; cbn [cb_touch] in *; try exact Hc'. eapply victim_of_mono; eassumption. }
  destruct r; try exact REST;
    (destruct (is_stop_cb c && is_exit _); [|exact X'];
     destruct (run_callbacks fuel codes e t s1) as [s2 r2]; cbn [fst] in REST; destruct r2; exact REST).
Qed.

(* one step: the pop, then only [mono] changes *)
Lemma step_mono fuel codes s s' r :
  step fuel codes s = (s', r) ->
  (pop_min (agenda s) = None /\ s' = s /\ r = REmpty) \/
  (exists m rest, pop_min (agenda s) = Some (m, rest) /\
      mono (fun q => forall ev l, get_event (e_ev m) s = Some ev -> cbs ev = Some l -> cbs_touch s l q)
           (pop_state m rest s) s').
Proof.
  unfold step. destruct (pop_min (agenda s)) as [[m rest]|].
  - intros H. right. exists m, rest. split; [reflexivity|].
    change (get_event (e_ev m) (pop_state m rest s)) with (get_event (e_ev m) s) in H.
    destruct (get_event (e_ev m) s) as [ev|] eqn:Hev; [|injection H as <- _; apply mono_refl].
    destruct (cbs ev) as [l|] eqn:Cl; [|injection H as <- _; apply mono_refl].
    set (s1 := upd_event (e_ev m) (ev_set_cbs None) (pop_state m rest s)) in *.
    pose proof (mono_run_callbacks fuel codes (e_ev m) l s1) as X.
    destruct (run_callbacks fuel codes (e_ev m) l s1) as [s2 r2]. cbn [fst] in X.
    assert (s' = s2) by (destruct r2; injection H as <- _; reflexivity). subst s'.
    eapply mono_bind; [apply mono_set_cbs; left; reflexivity|]. intros K X1.
    eapply mono_weaken; [|exact X]. intros q (c & Hin & Hc) ev0 l0 E0 C0. injection E0 as <-.
    rewrite Cl in C0. injection C0 as <-. exists c. split; [exact Hin|].
    destruct c; cbn [cb_touch] in *; try exact Hc.
    eapply victim_of_mono in Hc; [|exact X1]. exact Hc.
  - intros H; injection H as <- <-. left. auto.
Qed.

Lemma run_prelude_inl u s s' r : run_prelude u s = inl (s', r) -> s' = s.
Proof.
  destruct u as [|t|e]; cbn [run_prelude]; [discriminate| |].
  - destruct (Qle_bool t (now s)); [intros H; injection H as <- _; reflexivity|].
    destruct (new_event _ s); discriminate.
  - destruct (get_event e s) as [ev|]; [|intros H; injection H as <- _; reflexivity].
    destruct (is_processed ev); [intros H; injection H as <- _; reflexivity|discriminate].
Qed.

Lemma mono_run_prelude T u s s1 : run_prelude u s = inr s1 -> mono T s s1.
Proof.
  destruct u as [|t|e]; cbn [run_prelude].
  - intros H; injection H as <-. apply mono_refl.
  - destruct (Qle_bool t (now s)); [discriminate|].
    set (EV := mkEvent (Some []) (Some (Ok VNone)) false KSentinel).
    pose proof (mono_new_event T EV s) as X1. destruct (new_event EV s) as [e s0]. cbn [fst snd] in *.
    intros H; injection H as <-.
    eapply mono_trans; [exact X1|]. eapply mono_trans; [apply mono_schedule|apply mono_add_callback].
  - destruct (get_event e s) as [ev|]; [|discriminate].
    destruct (is_processed ev); [discriminate|]. intros H; injection H as <-. apply mono_add_callback.
Qed.
