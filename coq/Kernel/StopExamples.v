(* Kernel/StopExamples.v -- C03: the hypotheses of the theorems of StopSpec.v on a computed instance (the witness family of
   Kernel/Stop.v: two processes, one shared event triggered at t = 2, a waiter that registers at t = 1). *)
From Coq Require Import ZArith QArith List Bool Lia.
From ONL Require Import Kernel.Model Kernel.Script Kernel.Keys Kernel.Inv Kernel.Order Kernel.Deliver Kernel.DeliverWf
  Kernel.DeliverVal Kernel.StopFrame Kernel.StopInv Kernel.Stop Kernel.StopSpec Kernel.StopErase Kernel.StopSplit Kernel.StopRen Kernel.StopSim
  Kernel.StopSimCalls Kernel.StopSimStep Kernel.StopGhost Kernel.StopScript.
Import ListNotations.

(* the state after the module-level code is calm: run_until_number_spec / run_until_event_spec apply to it *)
Example ex_calm : calm wit_s0.
Proof. unfold wit_s0. apply calm_exec_top, calm_init. Qed.

(* run(until=2): G0 is triggered at 2 by process 0, whose timeout is due at 2 -- and is NOT processed: the call returns None
   with now = 2 after the timeout of process 1 (due at 1) only *)
Example ex_run_num :
  let r := run 100 wit_codes (UNum 2) wit_s0 in
  now wit_s0 < 2 /\ snd r = RStop VNone /\ now (fst r) == 2 /\
  map (fun y => (e_time y, e_ev y)) (agenda (fst r)) = [(2, 6%nat)] /\ calm (fst r).
Proof.
  cbn zeta. split; [reflexivity|]. split; [vm_compute; reflexivity|]. split; [vm_compute; reflexivity|].
  split; [vm_compute; reflexivity|].
  destruct (run 100 wit_codes (UNum 2) wit_s0) as [s' r] eqn:R.
  assert (Er : r = RStop VNone) by (change r with (snd (s', r)); rewrite <- R; vm_compute; reflexivity).
  destruct (run_until_number_spec _ _ _ _ _ _ ex_calm (eq_refl : now wit_s0 < 2) R) as (_ & _ & _ & _ & _ & l & _ & _ & _ & Rr).
  rewrite Er in Rr. apply Rr.
Qed.

(* a horizon that is not in the future *)
Example ex_run_num_past : run 100 wit_codes (UNum 0) wit_s0 = (wit_s0, RRaise (kexn EValue M_until_past)).
Proof. apply run_num_past. vm_compute. discriminate. Qed.

(* run(until=G0): returns 5 after all callbacks of G0 ran (the probe and the late waiter, process 1) *)
Example ex_run_ev :
  exists ev l, get_event 0%nat wit_s0 = Some ev /\ cbs ev = Some l /\
  snd (run 100 wit_codes (UEv 0%nat) wit_s0) = RStop (VInt 5) /\ calm (fst (run 100 wit_codes (UEv 0%nat) wit_s0)).
Proof.
  eexists. eexists. split; [vm_compute; reflexivity|]. split; [reflexivity|]. split; [vm_compute; reflexivity|].
  destruct (run 100 wit_codes (UEv 0%nat) wit_s0) as [s' r] eqn:R.
  assert (Er : r = RStop (VInt 5)) by (change r with (snd (s', r)); rewrite <- R; vm_compute; reflexivity).
  assert (H : exists ev l, get_event 0%nat wit_s0 = Some ev /\ cbs ev = Some l) by (eexists; eexists; split; [vm_compute; reflexivity|reflexivity]).
  destruct H as (ev & l & H & C).
  destruct (run_until_event_spec _ _ _ _ _ _ _ _ ex_calm H C R) as (_ & l1 & _ & Rr). rewrite Er in Rr.
  destruct Rr as (? & ? & ? & ? & _ & _ & _ & _ & _ & _ & _ & _ & _ & Cm). exact Cm.
Qed.

(* an until-event that is processed already: its value at once *)
Example ex_run_ev_processed :
  let s1 := fst (run 100 wit_codes (UEv 0%nat) wit_s0) in
  run 100 wit_codes (UEv 0%nat) s1 = (s1, RStop (VInt 5)).
Proof. vm_compute. reflexivity. Qed.

(* an until-event nobody triggers: RuntimeError once the agenda is empty *)
Definition ex_idle : state := fst (do_call wit_codes CEvent (init_state 0)).
Example ex_exhausted : run 100 wit_codes (UEv 0%nat) ex_idle = (add_callback 0%nat CbStop ex_idle, RRaise (kexn ERuntime M_until_not_triggered)).
Proof. vm_compute. reflexivity. Qed.

(* a plan all of whose run(until=...) calls return *)
Example ex_plan_returned : plan_returned 100 wit_codes [SNum 1; SStep 1; SEv 0%nat; SNum 1; SRun] wit_s0.
Proof.
  cbn [plan_returned returned]. repeat split.
  - right. eexists. vm_compute. reflexivity.
  - right. eexists. vm_compute. reflexivity.
  - left. vm_compute. discriminate.
Qed.

(* split_transparent_events_steps_run applies to the witness: stop at G0, make two single steps, run to the end *)
Example ex_split_events_steps :
  let plan := [SEv 0%nat; SStep 1; SStep 1; SRun] in
  logs (fst (run_split 100 wit_codes plan wit_s0)) = logs (fst (run 100 wit_codes UNone wit_s0)).
Proof.
  cbn zeta. destruct (run 100 wit_codes UNone wit_s0) as [U r] eqn:R.
  assert (Er : r = ROk) by (change r with (snd (U, r)); rewrite <- R; vm_compute; reflexivity). subst r.
  pose proof ex_calm as (G & Ui & _ & Ns & _).
  apply (split_transparent_events_steps_run 100 wit_codes [SEv 0%nat; SStep 1; SStep 1; SRun] wit_s0 U Ui Ns).
  - intros st [<-|[<-|[<-|[<-|[]]]]]; exact I.
  - exact R.
  - vm_compute. reflexivity.
Qed.

(* ---- split_transparent (all stop points) applies to the witness family ---- *)

(* the witness programs are compiled scripts without env.peek(): parametric *)
Example ex_parametric : parametric_codes wit_codes.
Proof. apply compile_parametric_codes. vm_compute. reflexivity. Qed.

(* module-level script code keeps a state related to itself *)
Lemma selfsim_exec_top codes l s :
  parametric_codes codes -> nopeek l = true -> selfsim s -> selfsim (fst (exec_top codes (Script.exec l []) s)).
Proof.
  intros PC Np SS. unfold exec_top.
  assert (B : fbis (compile []) (fun i : nat => i) (length (events s)) (Script.exec l []) (Script.exec l [])).
  { apply (frel_fbis (compile []) StopScript.SS).
    - intros f n st st' [D ->] f' n' A L I o O. cbn [compile resume].
      rewrite (ren_sst_agree _ _ _ _ A D). apply script_resume_rel; [exact I|eapply sst_dom_mono; eassumption|exact O].
    - change (Script.exec l []) with (Script.exec l (ren_vals (fun i : nat => i) [])) at 2.
      apply exec_rel; [exact Np|intros i j E; exact E|reflexivity]. }
  destruct (simn_run_frag codes (compile []) (fun i => i) (fun i => i) PC _ _ s s (conj SS eq_refl) B) as ((S' & _) & _).
  exact S'.
Qed.

Example ex_selfsim : selfsim wit_s0.
Proof. unfold wit_s0. apply selfsim_exec_top; [exact ex_parametric|reflexivity|apply selfsim_init]. Qed.

(* the free run never answers the internal-error result: checked for the steps it makes, then the agenda is empty *)
Fixpoint nb_check (fuel : nat) (codes : list prog) (k : nat) (s : state) : bool :=
  match k with
  | O => true
  | S j => match snd (step fuel codes s) with RBroken => false | _ => nb_check fuel codes j (fst (step fuel codes s)) end
  end.

Lemma nb_check_clean fuel codes : forall k s, nb_check fuel codes k s = true -> clean fuel codes k s.
Proof.
  induction k as [|k IH]; intros s H i L; [lia|]. cbn [nb_check] in H.
  destruct i as [|i].
  - cbn. change (step_sel true) with step. destruct (snd (step fuel codes s)); try discriminate; discriminate.
  - rewrite free_run_S. apply IH; [|lia]. destruct (snd (step fuel codes s)); try discriminate; exact H.
Qed.

Lemma never_broken_finite fuel codes k s :
  nb_check fuel codes k s = true -> agenda (free_run k fuel codes s) = [] -> never_broken fuel codes s.
Proof.
  intros H A i. destruct (Nat.lt_ge_cases i k) as [L|L]; [exact (nb_check_clean _ _ _ _ H i L)|].
  replace i with (k + (i - k))%nat by lia. rewrite free_run_add, (free_run_empty _ _ _ _ A), (step_empty_agenda _ _ _ A). discriminate.
Qed.

Example ex_never_broken : never_broken 100 wit_codes wit_s0.
Proof. apply (never_broken_finite 100 wit_codes 30 wit_s0); vm_compute; reflexivity. Qed.

(* numeric horizons at 1 (where process 1 resumes) and at 2 (where G0 is triggered), the until-event, a single step: the
   user-visible trace is that of run(), event ids renamed *)
Example ex_split_transparent :
  let plan := [SNum 1; SEv 0%nat; SNum 2; SStep 1; SNum 2; SRun] in
  exists f, smono f /\ logs (fst (run_split 100 wit_codes plan wit_s0)) = map (ren_obs f) (logs (fst (run 100 wit_codes UNone wit_s0))).
Proof.
  cbn zeta. destruct (run 100 wit_codes UNone wit_s0) as [U r] eqn:R.
  assert (Er : r = ROk) by (change r with (snd (U, r)); rewrite <- R; vm_compute; reflexivity). subst r.
  pose proof ex_calm as (G & Ui & _ & Ns & _).
  apply (split_transparent_run wit_codes 100 wit_s0 _ U ex_parametric ex_selfsim G Ui Ns ex_never_broken R).
  vm_compute. reflexivity.
Qed.
