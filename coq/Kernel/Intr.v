(* Kernel/Intr.v -- C04: interrupts reach a live process once, in issue order, ahead of ordinary events.
   Theorems about Kernel/Model.v for ALL code tables [codes] and ALL states reachable ([reach], Kernel/IntrStep.v)
   from [init_state] by module-level code, run() preludes and steps -- an execution being followed up to the first
   step whose callback loop is cut short ([step_clean] fails: an exception escaping from the middle of the loop --
   invalid yield, a forged event id --, or out-of-fuel; the StopSimulation of run(until=...) is not such a cut: the
   repaired kernel raises it after the loop).

   interrupt_refused_*      dead victim (generator ended, even if the termination event is still on the agenda) or
                            oneself: RuntimeError, state unchanged; [finish_is_dead], [dead_forever]
   interrupt_accepted       the Interruption event (failed with Interrupt(cause), defused, own callback) and its
                            URGENT entry due now
   interruption_entry       in every reachable state a pending Interruption entry is URGENT, due at the current
                            instant, the only entry of its event, whose callback list starts with its _interrupt
   clock_frozen / interrupt_before_normal / interrupts_in_issue_order / later_issue_later_eid
   interrupt_step           the step that processes it = _interrupt, then the other callbacks
   interrupt_delivery       victim alive: detached from its (unique) waiter list, resumed with Interrupt(cause)
   interrupt_dead_dropped   victim dead: no effect, no error
   detached_nowhere / detach_keeps_others / resumed_only_by_target / untouched_unless_resumed /
   yield_processed_continues / yield_pending_waits      the old target no longer resumes the victim
   init_before_interrupt / not_started / first_resumption_is_none *)
From Coq Require Import ZArith QArith List Bool Lia Lqa.
From ONL Require Import Kernel.Model Kernel.Keys Kernel.IntrBase Kernel.IntrInv Kernel.IntrStep.
Import ListNotations.

Definition dead (s : state) (p : pid) : Prop :=
  exists pr ev, get_proc p s = Some pr /\ get_event (pev pr) s = Some ev /\ out ev <> None.
Definition live (s : state) (p : pid) : Prop :=
  exists pr ev, get_proc p s = Some pr /\ get_event (pev pr) s = Some ev /\ out ev = None.

(* ------------------------------------------------------------------------------------------------ *)
(* refused *)

Theorem interrupt_refused_dead codes s e ev p cause :
  get_event e s = Some ev -> kind ev = KProcess p -> out ev <> None ->
  do_call codes (CInterrupt e cause) s = (s, Fail (kexn ERuntime M_terminated)).
Proof.
  intros H K O. cbn [do_call]. unfold call_interrupt. rewrite H, K. unfold is_triggered.
  destruct (out ev); [reflexivity|contradiction].
Qed.

Theorem interrupt_refused_self codes s e ev p cause :
  get_event e s = Some ev -> kind ev = KProcess p -> out ev = None -> active s = Some p ->
  do_call codes (CInterrupt e cause) s = (s, Fail (kexn ERuntime M_self_interrupt)).
Proof.
  intros H K O A. cbn [do_call]. unfold call_interrupt. rewrite H, K. unfold is_triggered. rewrite O, A, Nat.eqb_refl.
  reflexivity.
Qed.

(* the generator ends: the Process event is triggered in the same resumption, before its entry is processed *)
Theorem finish_is_dead p pr o s ev :
  get_proc p s = Some pr -> get_event (pev pr) s = Some ev ->
  let s' := proc_finish p pr o s in
  dead s' p /\
  (exists ev', get_event (pev pr) s' = Some ev' /\ out ev' = Some o /\ cbs ev' = cbs ev) /\
  agenda s' = agenda s ++ [mkEntry (Qred (now s + 0)) NORMAL (next_eid s) (pev pr)].
Proof.
  intros Hp He s'.
  assert (G : get_event (pev pr) s' = Some (ev_set_out (Some o) ev)).
  { unfold s', proc_finish, trigger_event.
    change (get_event (pev pr) (upd_event (pev pr) (ev_set_out (Some o)) s) = Some (ev_set_out (Some o) ev)).
    apply get_event_upd_same, He. }
  split; [|split].
  - exists (proc_set_target None pr), (ev_set_out (Some o) ev). split; [|split; [exact G|discriminate]].
    unfold s', proc_finish. change (get_proc p (upd_proc p (proc_set_target None) s) = Some (proc_set_target None pr)).
    rewrite get_proc_upd, Nat.eqb_refl, Hp. reflexivity.
  - eexists. split; [exact G|]. split; reflexivity.
  - reflexivity.
Qed.

(* transitions of an execution (any step, clean or not) *)
Inductive trans (codes : list prog) : state -> state -> Prop :=
| t_top A (f : frag A) s : trans codes s (fst (exec_top codes f s))
| t_prelude u s s1 : run_prelude u s = inr s1 -> trans codes s s1
| t_step fuel s : trans codes s (fst (step fuel codes s)).

Inductive trans_star (codes : list prog) : state -> state -> Prop :=
| ts_refl s : trans_star codes s s
| ts_step s s1 s2 : trans codes s s1 -> trans_star codes s1 s2 -> trans_star codes s s2.

Lemma pevK_pop m rest s : pevK s -> pevK (pop_state m rest s).
Proof. intros K. exact K. Qed.

(* what every transition keeps: events stay, with the shape of their kind, triggered / processed once they are;
   processes keep their event *)
Lemma trans_keeps codes s s' :
  pevK s -> trans codes s s' ->
  pevK s' /\
  (forall e ev, get_event e s = Some ev -> exists ev', get_event e s' = Some ev' /\ ev_mono ev ev') /\
  (forall q pr, get_proc q s = Some pr -> exists pr', get_proc q s' = Some pr' /\ pev pr' = pev pr).
Proof.
  intros K T.
  assert (FROM : forall T0 s0, pevK s0 -> monor T0 s0 s' ->
            pevK s' /\ (forall e ev, get_event e s0 = Some ev -> exists ev', get_event e s' = Some ev' /\ ev_mono ev ev') /\
            (forall q pr, get_proc q s0 = Some pr -> exists pr', get_proc q s' = Some pr' /\ pev pr' = pev pr)).
  { intros T0 s0 K0 [A B C D]. split; [exact A|]. split; [exact C|].
    intros q pr H. destruct (D _ _ H) as (pr' & H1 & H2 & _). exists pr'. auto. }
  inversion T as [A f s0|u s0 s1 HP|fuel s0]; subst.
  - apply (FROM Tnone s K). apply mono_run_frag, K.
  - apply (FROM Tnone s K). eapply mono_run_prelude; eassumption.
  - destruct (step fuel codes s) as [s2 r] eqn:ST. cbn [fst] in *.
    destruct (step_mono _ _ _ _ _ ST) as [(_ & -> & _)|(m & rest & _ & M)].
    + apply (FROM Tnone s K), monor_refl, K.
    + exact (FROM _ (pop_state m rest s) K (M K)).
Qed.

Theorem dead_forever codes s s' p :
  pevK s -> trans_star codes s s' -> dead s p -> dead s' p /\ pevK s'.
Proof.
  intros K TS. revert K. induction TS as [s|s s1 s2 T _ IH]; intros K D; [auto|].
  destruct (trans_keeps _ _ _ K T) as (K1 & E1 & P1). apply IH; [exact K1|].
  destruct D as (pr & ev & Hp & He & O). destruct (P1 _ _ Hp) as (pr' & Hp' & Pv). destruct (E1 _ _ He) as (ev' & He' & (_ & M & _)).
  exists pr', ev'. rewrite Pv. auto.
Qed.

(* the property clause: once the generator of p has ended, every later interrupt() on it raises RuntimeError and
   changes nothing -- whether or not the termination event has been processed meanwhile *)
Theorem interrupt_refused_after_end codes s s' p cause :
  reach codes s -> dead s p -> trans_star codes s s' ->
  exists e, (forall pr, get_proc p s' = Some pr -> pev pr = e) /\
            do_call codes (CInterrupt e cause) s' = (s', Fail (kexn ERuntime M_terminated)).
Proof.
  intros R D TS. pose proof (iS_pev _ (proj1 (reach_good _ _ R))) as K.
  destruct (dead_forever _ _ _ _ K TS D) as ((pr & ev & Hp & He & O) & K').
  exists (pev pr). split; [intros pr0 H; congruence|].
  destruct (K' _ _ Hp) as (ev0 & He0 & Kd). rewrite He in He0. injection He0 as <-.
  eapply interrupt_refused_dead; eassumption.
Qed.

(* ------------------------------------------------------------------------------------------------ *)
(* accepted *)

Theorem interrupt_accepted codes s e ev p cause :
  get_event e s = Some ev -> kind ev = KProcess p -> out ev = None -> active s <> Some p ->
  let i := length (events s) in
  let s' := fst (do_call codes (CInterrupt e cause) s) in
  do_call codes (CInterrupt e cause) s = (s', Ok VNone) /\
  events s' = events s ++ [mkEvent (Some [CbInterrupt i]) (Some (Fail (EInterrupt, [cause]))) true (KInterruption p)] /\
  agenda s' = agenda s ++ [mkEntry (Qred (now s + 0)) URGENT (next_eid s) i] /\
  Qred (now s + 0) == now s /\
  next_eid s' = S (next_eid s) /\ procs s' = procs s /\ now s' = now s /\ active s' = active s.
Proof.
  intros H K O A i s'. unfold s'. cbn [do_call]. rewrite (call_interrupt_accept _ _ _ _ _ H K O A). cbn [fst].
  repeat split; try reflexivity. rewrite Qred_correct. lra.
Qed.

(* ------------------------------------------------------------------------------------------------ *)
(* the pending interruption *)

Theorem interruption_entry codes s x iev p :
  reach codes s -> In x (agenda s) -> get_event (e_ev x) s = Some iev -> kind iev = KInterruption p ->
  e_time x == now s /\ e_prio x = URGENT /\ (e_eid x < next_eid s)%nat /\
  (forall y, In y (agenda s) -> e_ev y = e_ev x -> y = x) /\
  (exists cause others, out iev = Some (Fail (EInterrupt, [cause])) /\ defused iev = true /\
                        cbs iev = Some (CbInterrupt (e_ev x) :: others) /\ ~ In (CbInterrupt (e_ev x)) others) /\
  (exists pr, get_proc p s = Some pr).
Proof.
  intros R Hx Hi K. destruct (reach_good _ _ R) as (HS & HC & HA).
  destruct (iA_urg _ HA _ _ Hx Hi) as (T & P & N & U); [rewrite K; reflexivity|].
  destruct (iS_kintr _ HS _ _ _ Hi K) as (Pp & (c & Oc) & Df & [X|(r & X)]); [congruence|].
  repeat split; auto.
  - apply (iA_eid _ HA), Hx.
  - exists c, r. repeat split; auto. intros Hin.
    destruct (iC_intr _ _ _ _ HC _ _ _ _ Hi X (or_intror Hin)) as (_ & CNT & _).
    cbn [cnt] in CNT. rewrite cb_eqb_refl in CNT. apply cnt_pos in Hin. lia.
Qed.

(* a processed Interruption event is never on the agenda again: delivered at most once *)
Theorem processed_interruption_gone codes s x iev p :
  reach codes s -> In x (agenda s) -> get_event (e_ev x) s = Some iev -> kind iev = KInterruption p -> cbs iev <> None.
Proof.
  intros R Hx Hi K. destruct (reach_good _ _ R) as (_ & _ & HA).
  destruct (iA_urg _ HA _ _ Hx Hi) as (_ & _ & N & _); [rewrite K; reflexivity|exact N].
Qed.

(* ... and an unprocessed one is on the agenda: delivered (or dropped) at least once if the run goes on *)
Theorem pending_interruption_scheduled codes s i iev p :
  reach codes s -> get_event i s = Some iev -> kind iev = KInterruption p -> cbs iev <> None ->
  exists x, In x (agenda s) /\ e_ev x = i.
Proof.
  intros R Hi K N. destruct (reach_good _ _ R) as (_ & _ & HA). apply (iA_has _ HA _ _ Hi); [rewrite K; reflexivity|exact N].
Qed.

(* the clock does not move while an interruption is pending: it takes effect at the instant of issue *)
Theorem clock_frozen codes s s' x iev iev' p :
  reach codes s -> reach codes s' -> In x (agenda s) -> In x (agenda s') ->
  get_event (e_ev x) s = Some iev -> kind iev = KInterruption p ->
  get_event (e_ev x) s' = Some iev' -> kind iev' = KInterruption p ->
  now s' == now s.
Proof.
  intros R R' Hx Hx' Hi K Hi' K'.
  destruct (interruption_entry _ _ _ _ _ R Hx Hi K) as (T & _). destruct (interruption_entry _ _ _ _ _ R' Hx' Hi' K') as (T' & _).
  lra.
Qed.

Lemma pop_not_later s m rest x y :
  NoDup (map e_eid (agenda s)) ->
  pop_min (agenda s) = Some (m, rest) -> In x (agenda s) -> In y (agenda s) -> key_lt x y -> e_eid m <> e_eid y.
Proof.
  intros ND HP Hx Hy LT E. destruct (pop_min_spec _ _ _ HP) as (Hm & _ & Hmin).
  assert (m = y) by (eapply nodup_eid_inj; eassumption). subst y.
  exact (key_le_not_lt _ _ (Hmin _ Hx) LT).
Qed.

(* urgent before normal: while an interruption is pending, no NORMAL entry is the next one processed *)
Theorem interrupt_before_normal codes s m rest x y iev p :
  reach codes s -> In x (agenda s) -> get_event (e_ev x) s = Some iev -> kind iev = KInterruption p ->
  In y (agenda s) -> e_prio y = NORMAL -> pop_min (agenda s) = Some (m, rest) -> e_eid m <> e_eid y.
Proof.
  intros R Hx Hi K Hy Py HP.
  destruct (interruption_entry _ _ _ _ _ R Hx Hi K) as (T & P & _).
  pose proof (iA_time _ (proj2 (proj2 (reach_good _ _ R))) _ Hy) as Ty.
  eapply pop_not_later; [apply (iA_nodup _ (proj2 (proj2 (reach_good _ _ R))))|exact HP|exact Hx|exact Hy|].
  unfold key_lt. destruct (Qlt_le_dec (e_time x) (e_time y)) as [L|L]; [left; exact L|].
  right. split; [lra|]. left. rewrite P, Py. unfold URGENT, NORMAL. lia.
Qed.

(* issue order: of two pending interruptions the one issued later (larger eid) is not processed first *)
Theorem interrupts_in_issue_order codes s m rest x y ix iy p q :
  reach codes s -> In x (agenda s) -> In y (agenda s) ->
  get_event (e_ev x) s = Some ix -> kind ix = KInterruption p ->
  get_event (e_ev y) s = Some iy -> kind iy = KInterruption q ->
  (e_eid x < e_eid y)%nat -> pop_min (agenda s) = Some (m, rest) -> e_eid m <> e_eid y.
Proof.
  intros R Hx Hy Hi K Hj K' LT HP.
  destruct (interruption_entry _ _ _ _ _ R Hx Hi K) as (T & P & _).
  destruct (interruption_entry _ _ _ _ _ R Hy Hj K') as (T' & P' & _).
  eapply pop_not_later; [apply (iA_nodup _ (proj2 (proj2 (reach_good _ _ R))))|exact HP|exact Hx|exact Hy|].
  right. split; [lra|]. right. split; [congruence|exact LT].
Qed.

(* ... and "issued later" is "larger eid": the entry of a new interrupt() lies above every pending entry *)
Theorem later_issue_later_eid codes s e ev p cause x :
  reach codes s -> get_event e s = Some ev -> kind ev = KProcess p -> out ev = None -> active s <> Some p ->
  In x (agenda s) ->
  exists y, agenda (fst (do_call codes (CInterrupt e cause) s)) = agenda s ++ [y] /\ (e_eid x < e_eid y)%nat /\
            e_ev y = length (events s).
Proof.
  intros R H K O A Hx. destruct (interrupt_accepted codes _ _ _ _ cause H K O A) as (_ & _ & Ag & _).
  eexists. split; [exact Ag|]. split; [|reflexivity]. cbn [e_eid].
  apply (iA_eid _ (proj2 (proj2 (reach_good _ _ R)))), Hx.
Qed.

(* ------------------------------------------------------------------------------------------------ *)
(* the step that processes an interruption *)

(* the state in which the callbacks of the popped entry run *)
Definition popped (m : entry) (rest : list entry) (s : state) : state :=
  upd_event (e_ev m) (ev_set_cbs None) (pop_state m rest s).

Theorem interrupt_step fuel codes s m rest iev p :
  reach codes s -> pop_min (agenda s) = Some (m, rest) -> get_event (e_ev m) s = Some iev -> kind iev = KInterruption p ->
  exists cause others,
    out iev = Some (Fail (EInterrupt, [cause])) /\ cbs iev = Some (CbInterrupt (e_ev m) :: others) /\
    now (popped m rest s) == now s /\
    step fuel codes s =
      (let '(s2, r) := do_interruption fuel codes (e_ev m) (popped m rest s) in
       match r with
       | ROk => let '(s3, r3) := run_callbacks fuel codes (e_ev m) others s2 in
                (s3, match r3 with ROk => check_failure (e_ev m) s3 | _ => r3 end)
       | _ => (s2, r)
       end).
Proof.
  intros R HP Hi K. destruct (pop_min_spec _ _ _ HP) as (Hm & _).
  destruct (interruption_entry _ _ _ _ _ R Hm Hi K) as (T & _ & _ & _ & (c & r & O & _ & C & _) & _).
  exists c, r. split; [exact O|]. split; [exact C|]. split; [exact T|].
  unfold step. rewrite HP. change (get_event (e_ev m) (pop_state m rest s)) with (get_event (e_ev m) s).
  rewrite Hi, C. cbn [run_callbacks run_cb]. fold (popped m rest s).
  destruct (do_interruption fuel codes (e_ev m) (popped m rest s)) as [s2 r2].
  destruct r2; try reflexivity.
  destruct (run_callbacks fuel codes (e_ev m) r s2) as [s3 r3]. destruct r3; reflexivity.
Qed.

(* the body of Process._resume after the outcome has been read *)
Definition resume_with (f : nat) (codes : list prog) (p : pid) (pr : procrec) (o : outcome) (s1 : state) : state * result :=
  let '(s2, r) := run_frag codes (resume (pcode pr) (pst pr) o) s1 in
  match r with
  | FrRet v => (proc_finish p pr (Ok v) s2, ROk)
  | FrRaise x => (proc_finish p pr (Fail x) s2, ROk)
  | FrYield v a =>
      let s3 := put_proc p (proc_set_st pr a) s2 in
      match v with
      | VEv e' =>
          match get_event e' s3 with
          | Some ev' => if is_processed ev' then resume_loop f codes p e' s3 else (proc_wait p e' s3, ROk)
          | None => (s3, RRaise (kexn ERuntime M_invalid_yield))
          end
      | _ => (s3, RRaise (kexn ERuntime M_invalid_yield))
      end
  end.

(* a resumption by event e feeds the automaton the outcome of e (a failure is marked defused first) *)
Theorem resume_feeds_outcome f codes p e s ev pr o :
  get_event e s = Some ev -> get_proc p s = Some pr -> out ev = Some o ->
  resume_loop (S f) codes p e s =
  resume_with f codes p pr o (match o with Fail _ => upd_event e ev_set_defused s | Ok _ => s end).
Proof. intros He Hp O. cbn [resume_loop]. rewrite He, Hp, O. reflexivity. Qed.

Theorem interrupt_dead_dropped fuel codes s m rest iev p :
  reach codes s -> pop_min (agenda s) = Some (m, rest) -> get_event (e_ev m) s = Some iev -> kind iev = KInterruption p ->
  dead s p ->
  do_interruption fuel codes (e_ev m) (popped m rest s) = (popped m rest s, ROk) /\
  (* nothing else waits on the interruption event (always so unless a process was made to yield it): the step
     only removes the entry and marks the event processed, and raises nothing *)
  (cbs iev = Some [CbInterrupt (e_ev m)] -> step fuel codes s = (popped m rest s, ROk)).
Proof.
  intros R HP Hi K (pr & ev & Hp & He & O).
  assert (GE : forall e0, get_event e0 (popped m rest s) =
                          if Nat.eqb e0 (e_ev m) then option_map (ev_set_cbs None) (get_event e0 s) else get_event e0 s).
  { intros e0. unfold popped. rewrite get_event_upd. reflexivity. }
  assert (DI : do_interruption fuel codes (e_ev m) (popped m rest s) = (popped m rest s, ROk)).
  { unfold do_interruption. rewrite GE, Nat.eqb_refl, Hi. cbn [option_map ev_set_cbs kind]. rewrite K.
    change (get_proc p (popped m rest s)) with (get_proc p s). rewrite Hp. rewrite GE.
    destruct (Nat.eqb (pev pr) (e_ev m)); rewrite He; cbn [option_map]; unfold is_triggered; cbn [ev_set_cbs out];
      destruct (out ev); try reflexivity; contradiction. }
  split; [exact DI|]. intros C.
  destruct (interrupt_step fuel codes _ _ _ _ _ R HP Hi K) as (c & r & Oi & C' & _ & ST).
  rewrite C in C'. injection C' as <-. rewrite ST, DI. cbn [run_callbacks].
  unfold check_failure. rewrite GE, Nat.eqb_refl, Hi. cbn [option_map ev_set_cbs out defused]. rewrite Oi.
  destruct (reach_good _ _ R) as (HS & _). destruct (iS_kintr _ HS _ _ _ Hi K) as (_ & _ & Df & _). rewrite Df. reflexivity.
Qed.

Theorem interrupt_delivery fuel codes s m rest iev p pr :
  reach codes s -> pop_min (agenda s) = Some (m, rest) -> get_event (e_ev m) s = Some iev -> kind iev = KInterruption p ->
  get_proc p s = Some pr -> live s p ->
  ptarget pr <> Some (e_ev m) ->            (* the victim was not made to wait for this very Interruption event *)
  exists cause t tev l,
    out iev = Some (Fail (EInterrupt, [cause])) /\
    (* the victim is suspended on exactly one event, once *)
    ptarget pr = Some t /\ get_event t s = Some tev /\ cbs tev = Some l /\ cnt (CbResume p) l = 1%nat /\
    (forall t' tev' l', get_event t' s = Some tev' -> cbs tev' = Some l' -> In (CbResume p) l' -> t' = t) /\
    (* _interrupt removes that _resume and resumes the victim with the interruption event ... *)
    let s2 := upd_event t (ev_set_cbs (Some (remove_first (CbResume p) l))) (popped m rest s) in
    do_interruption fuel codes (e_ev m) (popped m rest s) = resume_proc fuel codes p (e_ev m) s2 /\
    (* ... i.e. throws Interrupt(cause) into its generator, at the instant of issue *)
    now s2 == now s /\
    forall f, fuel = S f ->
      resume_proc fuel codes p (e_ev m) s2 =
      resume_with f codes p pr (Fail (EInterrupt, [cause])) (upd_event (e_ev m) ev_set_defused (set_active (Some p) s2)).
Proof.
  intros R HP Hi K Hp (pr0 & pe0 & Hp0 & Hpe & Ope) NT. rewrite Hp in Hp0. injection Hp0 as <-.
  destruct (reach_good _ _ R) as (HS & HC & HA).
  destruct (pop_min_spec _ _ _ HP) as (Hm & _).
  destruct (interruption_entry _ _ _ _ _ R Hm Hi K) as (T & _ & _ & _ & (c & r & O & _ & C & _) & _).
  destruct (iC_wait _ _ _ _ HC _ _ _ Hp Hpe Ope) as [[]|(t & tev & l & Tg & Ht & Cl & Hin)]; [discriminate|].
  destruct (iC_res _ _ _ _ HC _ _ _ _ Ht Cl Hin) as (_ & CNT & _).
  assert (Nt : t <> e_ev m) by congruence.
  exists c, t, tev, l. split; [exact O|]. split; [exact Tg|]. split; [exact Ht|]. split; [exact Cl|]. split; [exact CNT|].
  split.
  { intros t' tev' l' H' C' Hin'. destruct (iC_res _ _ _ _ HC _ _ _ _ H' C' Hin') as ((pr' & Hp' & Tg') & _). congruence. }
  assert (GE : forall e0, get_event e0 (popped m rest s) =
                          if Nat.eqb e0 (e_ev m) then option_map (ev_set_cbs None) (get_event e0 s) else get_event e0 s).
  { intros e0. unfold popped. rewrite get_event_upd. reflexivity. }
  split; [|split].
  - unfold do_interruption. rewrite GE, Nat.eqb_refl, Hi. cbn [option_map ev_set_cbs kind]. rewrite K.
    change (get_proc p (popped m rest s)) with (get_proc p s). rewrite Hp.
    assert (X : exists pe1, get_event (pev pr) (popped m rest s) = Some pe1 /\ is_triggered pe1 = false).
    { rewrite GE. destruct (Nat.eqb (pev pr) (e_ev m)); rewrite Hpe; cbn [option_map]; eexists; (split; [reflexivity|]);
        unfold is_triggered; cbn [ev_set_cbs out]; rewrite Ope; reflexivity. }
    destruct X as (pe1 & -> & ->). rewrite Tg, GE. apply Nat.eqb_neq in Nt. rewrite Nt, Ht, Cl.
    apply mem_cb_in in Hin. rewrite Hin. reflexivity.
  - cbn. exact T.
  - intros f ->. unfold resume_proc.
    set (s2 := upd_event t (ev_set_cbs (Some (remove_first (CbResume p) l))) (popped m rest s)).
    assert (Hi2 : get_event (e_ev m) (set_active (Some p) s2) = Some (ev_set_cbs None iev)).
    { change (get_event (e_ev m) s2 = Some (ev_set_cbs None iev)). unfold s2.
      rewrite get_event_upd_other by congruence. rewrite GE, Nat.eqb_refl, Hi. reflexivity. }
    rewrite (resume_feeds_outcome f codes p (e_ev m) _ _ pr (Fail (EInterrupt, [c])) Hi2); [reflexivity|exact Hp|exact O].
Qed.

(* ------------------------------------------------------------------------------------------------ *)
(* the old target *)

(* after the detachment the victim's _resume is in no callback list at all *)
Theorem detached_nowhere codes s m rest p pr t tev l :
  reach codes s -> get_proc p s = Some pr -> ptarget pr = Some t -> get_event t s = Some tev -> cbs tev = Some l ->
  In (CbResume p) l -> t <> e_ev m ->
  let s2 := upd_event t (ev_set_cbs (Some (remove_first (CbResume p) l))) (popped m rest s) in
  forall t' tev' l', get_event t' s2 = Some tev' -> cbs tev' = Some l' -> ~ In (CbResume p) l'.
Proof.
  intros R Hp Tg Ht Cl Hin Nt s2 t' tev' l' H' C' Hin'.
  destruct (reach_good _ _ R) as (_ & HC & _).
  destruct (iC_res _ _ _ _ HC _ _ _ _ Ht Cl Hin) as (_ & CNT & _).
  unfold s2 in H'. rewrite get_event_upd in H'. destruct (Nat.eqb t' t) eqn:E.
  - apply Nat.eqb_eq in E. subst t'. unfold popped in H'. rewrite get_event_upd_other in H' by exact Nt.
    change (get_event t (pop_state m rest s)) with (get_event t s) in H'. rewrite Ht in H'. cbn in H'. injection H' as <-.
    cbn in C'. injection C' as <-. apply cnt_pos in Hin'. rewrite cnt_remove_first_same, CNT in Hin'. cbn in Hin'. lia.
  - unfold popped in H'. rewrite get_event_upd in H'. change (get_event t' (pop_state m rest s)) with (get_event t' s) in H'.
    apply Nat.eqb_neq in E. destruct (Nat.eqb t' (e_ev m)).
    + destruct (get_event t' s); cbn in H'; [|discriminate]. injection H' as <-. discriminate.
    + destruct (iC_res _ _ _ _ HC _ _ _ _ H' C' Hin') as ((pr' & Hp' & Tg') & _). congruence.
Qed.

(* the old target keeps its outcome, defusal and kind, and every other callback, in order *)
Theorem detach_keeps_others t p l tev :
  let tev' := ev_set_cbs (Some (remove_first (CbResume p) l)) tev in
  out tev' = out tev /\ defused tev' = defused tev /\ kind tev' = kind tev /\
  (forall c, c <> CbResume p -> cnt c (remove_first (CbResume p) l) = cnt c l) /\
  (forall l1 l2, l = l1 ++ CbResume p :: l2 -> ~ In (CbResume p) l1 -> remove_first (CbResume p) l = l1 ++ l2) /\
  get_event t (upd_event t (ev_set_cbs (Some (remove_first (CbResume p) l))) (mkState 0 [] 0 (repeat tev (S t)) [] None [] [])) = Some tev'.
Proof.
  cbn zeta. repeat split.
  - intros c N. apply cnt_remove_first_other, N.
  - intros l1 l2 -> N. induction l1 as [|x l1 IH]; cbn [app remove_first].
    + rewrite cb_eqb_refl. reflexivity.
    + assert (cb_eqb x (CbResume p) = false) as ->.
      { apply cb_eqb_neq. intros ->. apply N. left. reflexivity. }
      f_equal. apply IH. intros H. apply N. right. exact H.
  - apply get_event_upd_same. unfold get_event. cbn [events]. clear. induction t as [|t IH]; [reflexivity|exact IH].
Qed.

(* in every reachable state: processing an event resumes only processes whose CURRENT target it is (the event
   they yielded last), each once *)
Theorem resumed_only_by_target codes s m rest ev l q :
  reach codes s -> pop_min (agenda s) = Some (m, rest) -> get_event (e_ev m) s = Some ev -> cbs ev = Some l ->
  In (CbResume q) l ->
  exists pr, get_proc q s = Some pr /\ ptarget pr = Some (e_ev m) /\ cnt (CbResume q) l = 1%nat.
Proof.
  intros R _ He Cl Hin. destruct (reach_good _ _ R) as (_ & HC & _).
  destruct (iC_res _ _ _ _ HC _ _ _ _ He Cl Hin) as ((pr & Hp & Tg) & CNT & _). exists pr. auto.
Qed.

(* ... and a step leaves alone every process that is neither in the callback list of the processed event nor the
   victim of the processed interruption *)
Theorem untouched_unless_resumed fuel codes s m rest ev l q pr :
  reach codes s -> pop_min (agenda s) = Some (m, rest) -> get_event (e_ev m) s = Some ev -> cbs ev = Some l ->
  get_proc q s = Some pr -> ~ In (CbResume q) l -> kind ev <> KInterruption q ->
  get_proc q (fst (step fuel codes s)) = Some pr.
Proof.
  intros R HP He Cl Hq NR NK. destruct (reach_good _ _ R) as (HS & HC & _).
  destruct (step fuel codes s) as [s' r] eqn:ST. cbn [fst].
  destruct (step_mono _ _ _ _ _ ST) as [(X & _)|(m' & rest' & HP' & M)]; [congruence|].
  rewrite HP in HP'. injection HP' as <- <-.
  destruct (m_pr _ _ _ (M (iS_pev _ HS)) q pr Hq) as (pr' & H' & _ & Same). rewrite H'. f_equal. apply Same.
  intros Tq. destruct (Tq _ _ He Cl) as (c & Hc & Tc). destruct c; cbn [cb_touch] in Tc; try contradiction.
  - subst. contradiction.
  - destruct (iC_intr _ _ _ _ HC _ _ _ _ He Cl Hc) as (<- & _ & _).
    destruct Tc as [L|(iev & Hi & Ki)]; [apply get_event_lt in He; lia|]. congruence.
Qed.

(* yielding an event that has been processed continues at once with that event's outcome ... *)
Theorem yield_processed_continues f codes p pr o s1 s2 a e' ev' :
  run_frag codes (resume (pcode pr) (pst pr) o) s1 = (s2, FrYield (VEv e') a) ->
  get_event e' (put_proc p (proc_set_st pr a) s2) = Some ev' -> cbs ev' = None ->
  resume_with f codes p pr o s1 = resume_loop f codes p e' (put_proc p (proc_set_st pr a) s2).
Proof. intros RF He C. unfold resume_with. rewrite RF, He. unfold is_processed. rewrite C. reflexivity. Qed.

(* ... and yielding a pending one appends the _resume to its list and makes it the target *)
Theorem yield_pending_waits f codes p pr o s1 s2 a e' ev' l :
  run_frag codes (resume (pcode pr) (pst pr) o) s1 = (s2, FrYield (VEv e') a) ->
  let s3 := put_proc p (proc_set_st pr a) s2 in
  get_event e' s3 = Some ev' -> cbs ev' = Some l -> get_proc p s2 = Some pr ->
  resume_with f codes p pr o s1 = (proc_wait p e' s3, ROk) /\
  get_event e' (proc_wait p e' s3) = Some (ev_set_cbs (Some (l ++ [CbResume p])) ev') /\
  get_proc p (proc_wait p e' s3) = Some (proc_set_target (Some e') (proc_set_st pr a)).
Proof.
  intros RF s3 He C Hp. split; [|split].
  - unfold resume_with. rewrite RF. fold s3. rewrite He. unfold is_processed. rewrite C. reflexivity.
  - unfold proc_wait. change (get_event e' (add_callback e' (CbResume p) s3) = Some (ev_set_cbs (Some (l ++ [CbResume p])) ev')).
    unfold add_callback. rewrite (get_event_upd_same _ _ _ _ He). unfold ev_add_cb. rewrite C. reflexivity.
  - unfold proc_wait. change (get_proc p (upd_proc p (proc_set_target (Some e')) s3) = Some (proc_set_target (Some e') (proc_set_st pr a))).
    rewrite get_proc_upd, Nat.eqb_refl. unfold s3, put_proc. rewrite get_proc_upd, Nat.eqb_refl, Hp. reflexivity.
Qed.

(* ------------------------------------------------------------------------------------------------ *)
(* Initialize first *)

Theorem init_before_interrupt codes s m rest iev p :
  reach codes s -> pop_min (agenda s) = Some (m, rest) -> get_event (e_ev m) s = Some iev -> kind iev = KInterruption p ->
  forall ie ev, get_event ie s = Some ev -> kind ev = KInit p -> cbs ev = None.
Proof. intros R HP Hi K. exact (init_done_at_pop s m rest iev p (reach_good _ _ R) HP Hi K). Qed.

(* while its Initialize event is unprocessed a process sits at its start: it waits for that event only, whose first
   callback is its _resume and whose value is None *)
Theorem not_started codes s ie ev p :
  reach codes s -> get_event ie s = Some ev -> kind ev = KInit p -> cbs ev <> None ->
  exists pr r, get_proc p s = Some pr /\ ptarget pr = Some ie /\ cbs ev = Some (CbResume p :: r) /\ ~ In (CbResume p) r /\
               out ev = Some (Ok VNone) /\ (exists x, In x (agenda s) /\ e_ev x = ie /\ e_prio x = URGENT /\ e_time x == now s) /\
               (forall t' tev' l', get_event t' s = Some tev' -> cbs tev' = Some l' -> In (CbResume p) l' -> t' = ie).
Proof.
  intros R He K N. destruct (reach_good _ _ R) as (HS & HC & HA).
  destruct (iS_kinit _ HS _ _ _ He K) as (_ & O & [X|(r & C)]); [contradiction|].
  destruct (iC_res _ _ _ _ HC _ _ _ _ He C (or_introl eq_refl)) as ((pr & Hp & Tg) & CNT & _).
  exists pr, r. split; [exact Hp|]. split; [exact Tg|]. split; [exact C|]. split.
  { intros Hin. cbn [cnt] in CNT. rewrite cb_eqb_refl in CNT. apply cnt_pos in Hin. lia. }
  split; [exact O|]. split.
  - destruct (iA_has _ HA _ _ He) as (x & Hx & Ex); [rewrite K; reflexivity|exact N|].
    rewrite <- Ex in He. destruct (iA_urg _ HA _ _ Hx He) as (T & P & _); [rewrite K; reflexivity|].
    exists x. auto.
  - intros t' tev' l' H' C' Hin'. destruct (iC_res _ _ _ _ HC _ _ _ _ H' C' Hin') as ((pr' & Hp' & Tg') & _). congruence.
Qed.

(* hence no step touches it before its Initialize is processed ... *)
Theorem not_started_untouched fuel codes s ie ev p pr m rest :
  reach codes s -> get_event ie s = Some ev -> kind ev = KInit p -> cbs ev <> None -> get_proc p s = Some pr ->
  pop_min (agenda s) = Some (m, rest) -> e_ev m <> ie ->
  get_proc p (fst (step fuel codes s)) = Some pr.
Proof.
  intros R He K N Hp HP Nm.
  destruct (not_started _ _ _ _ _ R He K N) as (pr0 & r & Hp0 & Tg & C & _ & _ & _ & Only). rewrite Hp in Hp0. injection Hp0 as <-.
  destruct (reach_good _ _ R) as (HS & HC & HA). destruct (pop_min_spec _ _ _ HP) as (Hm & _).
  destruct (iA_ev _ HA _ Hm) as (mev & Hmev).
  destruct (cbs mev) as [l|] eqn:Cl.
  - eapply untouched_unless_resumed; try eassumption.
    + intros Hin. apply Nm. eapply Only; eassumption.
    + intros Km. pose proof (init_before_interrupt _ _ _ _ _ _ R HP Hmev Km _ _ He K). contradiction.
  - (* the popped event was already processed: the step raises at once *)
    unfold step. rewrite HP. change (get_event (e_ev m) (pop_state m rest s)) with (get_event (e_ev m) s).
    rewrite Hmev, Cl. exact Hp.
Qed.

(* ... and that step begins by sending None into the generator: the first resumption is never an Interrupt *)
Theorem first_resumption_is_none fuel codes s ev p m rest :
  reach codes s -> pop_min (agenda s) = Some (m, rest) -> get_event (e_ev m) s = Some ev -> kind ev = KInit p ->
  exists pr r,
    get_proc p s = Some pr /\ cbs ev = Some (CbResume p :: r) /\
    step fuel codes s =
      (let '(s2, r2) := resume_proc fuel codes p (e_ev m) (popped m rest s) in
       match r2 with
       | ROk => let '(s3, r3) := run_callbacks fuel codes (e_ev m) r s2 in
                (s3, match r3 with ROk => check_failure (e_ev m) s3 | _ => r3 end)
       | _ => (s2, r2)
       end) /\
    forall f, fuel = S f ->
      resume_proc fuel codes p (e_ev m) (popped m rest s) =
      resume_with f codes p pr (Ok VNone) (set_active (Some p) (popped m rest s)).
Proof.
  intros R HP He K. destruct (pop_min_spec _ _ _ HP) as (Hm & _).
  assert (N : cbs ev <> None).
  { destruct (reach_good _ _ R) as (_ & _ & HA). destruct (iA_urg _ HA _ _ Hm He) as (_ & _ & N & _); [rewrite K; reflexivity|exact N]. }
  destruct (not_started _ _ _ _ _ R He K N) as (pr & r & Hp & Tg & C & _ & O & _).
  exists pr, r. split; [exact Hp|]. split; [exact C|]. split.
  - unfold step. rewrite HP. change (get_event (e_ev m) (pop_state m rest s)) with (get_event (e_ev m) s).
    rewrite He, C. cbn [run_callbacks run_cb]. fold (popped m rest s).
    destruct (resume_proc fuel codes p (e_ev m) (popped m rest s)) as [s2 r2]. destruct r2; try reflexivity.
    destruct (run_callbacks fuel codes (e_ev m) r s2) as [s3 r3]. destruct r3; reflexivity.
  - intros f ->. unfold resume_proc.
    assert (Hi2 : get_event (e_ev m) (set_active (Some p) (popped m rest s)) = Some (ev_set_cbs None ev)).
    { change (get_event (e_ev m) (popped m rest s) = Some (ev_set_cbs None ev)). unfold popped.
      rewrite get_event_upd, Nat.eqb_refl. change (get_event (e_ev m) (pop_state m rest s)) with (get_event (e_ev m) s).
      rewrite He. reflexivity. }
    rewrite (resume_feeds_outcome f codes p (e_ev m) _ _ pr (Ok VNone) Hi2); [reflexivity|exact Hp|exact O].
Qed.

(* every process has its Initialize event (created right after its Process event) *)
Theorem process_has_initialize codes s p pr :
  reach codes s -> get_proc p s = Some pr ->
  exists iev, get_event (S (pev pr)) s = Some iev /\ kind iev = KInit p.
Proof. intros R Hp. exact (iS_init _ (proj1 (reach_good _ _ R)) _ _ Hp). Qed.

(* _interrupt of interruption i is a callback of event i only, once: it runs only in the step that processes i *)
Theorem interrupt_callback_only_own_event codes s e ev l i :
  reach codes s -> get_event e s = Some ev -> cbs ev = Some l -> In (CbInterrupt i) l ->
  e = i /\ cnt (CbInterrupt i) l = 1%nat /\ exists p, kind ev = KInterruption p.
Proof. intros R He Cl Hin. exact (iC_intr _ _ _ _ (proj1 (proj2 (reach_good _ _ R))) _ _ _ _ He Cl Hin). Qed.

(* waiter uniqueness, as a statement of its own *)
Theorem waiter_unique codes s p pr :
  reach codes s -> get_proc p s = Some pr -> live s p ->
  exists t tev l, ptarget pr = Some t /\ get_event t s = Some tev /\ cbs tev = Some l /\ cnt (CbResume p) l = 1%nat /\
    forall t' tev' l', get_event t' s = Some tev' -> cbs tev' = Some l' -> In (CbResume p) l' -> t' = t.
Proof.
  intros R Hp (pr0 & pe0 & Hp0 & Hpe & Ope). rewrite Hp in Hp0. injection Hp0 as <-.
  destruct (reach_good _ _ R) as (HS & HC & HA).
  destruct (iC_wait _ _ _ _ HC _ _ _ Hp Hpe Ope) as [[]|(t & tev & l & Tg & Ht & Cl & Hin)]; [discriminate|].
  destruct (iC_res _ _ _ _ HC _ _ _ _ Ht Cl Hin) as (_ & CNT & _).
  exists t, tev, l. repeat split; auto.
  intros t' tev' l' H' C' Hin'. destruct (iC_res _ _ _ _ HC _ _ _ _ H' C' Hin') as ((pr' & Hp' & Tg') & _). congruence.
Qed.

(* along every execution an event stays, keeps the shape of its kind, stays triggered / processed once it is, and an
   Initialize / Interruption event keeps its outcome *)
Theorem events_monotone codes s s' e ev :
  pevK s -> trans_star codes s s' -> get_event e s = Some ev ->
  exists ev', get_event e s' = Some ev' /\ ev_mono ev ev'.
Proof.
  intros K TS. revert ev K. induction TS as [s|s s1 s2 T _ IH]; intros ev K He.
  - exists ev. split; [exact He|apply ev_mono_refl].
  - destruct (trans_keeps _ _ _ K T) as (K1 & E1 & _). destruct (E1 _ _ He) as (ev1 & He1 & M1).
    destruct (IH _ K1 He1) as (ev2 & He2 & M2). exists ev2. split; [exact He2|eapply ev_mono_trans; eassumption].
Qed.

(* the Interrupt(cause) delivered is the one issued: the interruption event keeps its outcome until (and after) it
   is processed, and once processed it stays processed *)
Theorem interruption_keeps_cause codes s s' i iev p cause :
  reach codes s -> trans_star codes s s' ->
  get_event i s = Some iev -> kind iev = KInterruption p -> out iev = Some (Fail (EInterrupt, [cause])) ->
  exists iev', get_event i s' = Some iev' /\ kind iev' = KInterruption p /\
               out iev' = Some (Fail (EInterrupt, [cause])) /\ (cbs iev = None -> cbs iev' = None).
Proof.
  intros R TS Hi K O. pose proof (iS_pev _ (proj1 (reach_good _ _ R))) as PK.
  destruct (events_monotone _ _ _ _ _ PK TS Hi) as (iev' & Hi' & (A & B & C & D)).
  exists iev'. split; [exact Hi'|]. split; [eapply kshape_eq_interruption; eassumption|]. split; [|exact C].
  rewrite D; [exact O|rewrite K; reflexivity|congruence].
Qed.
