(* Kernel/DeliverInv.v -- C02, part 2: the waiter invariant.

     cnt p l                 number of occurrences of CbResume p in the callback list l
     tgt s p                 Process._target of p (None: no such process; Some None: running or dead)
     winv ov run s           waiter_unique, generalised to the middle of a step: [ov = Some (e, t)] says that the step is
                             processing e and t is the part of e's callback list not yet invoked (the event itself already
                             has cbs = None); [run = Some p] says that p's generator is executing.
                               w_in: CbResume p occurs in a (remaining) callback list of x  ->  p is suspended, its target is
                                     x, and it occurs there exactly once
                               w_tg: p is suspended with target t  ->  t still has a (remaining) callback list, containing
                                     CbResume p
     sim s s'                the callback lists changed only in entries that are not CbResume, targets are the same
     sim_<function>, winv_<function>   one lemma per function of the model *)
From Coq Require Import ZArith QArith List Bool Lia.
From ONL Require Import Kernel.Model Kernel.Deliver.
Import ListNotations.
Local Open Scope nat_scope.

(* ------------------------------------------------------------------------------------------------ *)
(* counting CbResume p *)

Fixpoint cnt (p : pid) (l : list cb) : nat :=
  match l with
  | [] => 0
  | CbResume q :: t => (if Nat.eqb q p then 1 else 0) + cnt p t
  | _ :: t => cnt p t
  end.

Definition is_resume (c : cb) : bool := match c with CbResume _ => true | _ => false end.

Lemma cnt_app p l1 l2 : cnt p (l1 ++ l2) = cnt p l1 + cnt p l2.
Proof. induction l1 as [|c t IH]; cbn; [reflexivity|]. destruct c; rewrite IH; lia. Qed.

Lemma cnt_In p l : cnt p l <> 0 <-> In (CbResume p) l.
Proof.
  induction l as [|c t IH]; cbn; [tauto|].
  destruct c as [q| | | | |]; try (rewrite IH; split; [tauto|intros [H|H]; [discriminate|exact H]]).
  destruct (Nat.eqb q p) eqn:E.
  - apply Nat.eqb_eq in E. subst q. split; [auto|lia].
  - apply Nat.eqb_neq in E. cbn. rewrite IH. split; [tauto|]. intros [H|H]; [congruence|exact H].
Qed.

Lemma cnt_single p c : is_resume c = false -> cnt p [c] = 0.
Proof. destruct c; cbn; congruence. Qed.

Lemma cb_eqb_eq a b : cb_eqb a b = true <-> a = b.
Proof.
  destruct a, b; cbn; try (split; [discriminate|congruence]); try tauto;
    rewrite Nat.eqb_eq; split; congruence.
Qed.

Lemma cb_eqb_refl a : cb_eqb a a = true.
Proof. apply cb_eqb_eq. reflexivity. Qed.

Lemma cnt_remove_first_other p c l : is_resume c = false -> cnt p (remove_first c l) = cnt p l.
Proof.
  intros N. induction l as [|x t IH]; cbn [remove_first]; [reflexivity|].
  destruct (cb_eqb x c) eqn:E.
  - apply cb_eqb_eq in E. subst x. destruct c; cbn in *; congruence.
  - destruct x; cbn; rewrite IH; reflexivity.
Qed.

Lemma cnt_remove_first_resume p q l :
  cnt q (remove_first (CbResume p) l) = if Nat.eqb q p then pred (cnt p l) else cnt q l.
Proof.
  induction l as [|x t IH]; cbn [remove_first].
  - cbn. destruct (Nat.eqb q p); reflexivity.
  - destruct (cb_eqb x (CbResume p)) eqn:E.
    + apply cb_eqb_eq in E. subst x. cbn. rewrite Nat.eqb_refl. destruct (Nat.eqb q p) eqn:Q.
      * apply Nat.eqb_eq in Q. subst q. reflexivity.
      * rewrite Nat.eqb_sym, Q. reflexivity.
    + destruct x as [r| | | | |]; cbn; try exact IH.
      assert (R : Nat.eqb r p = false).
      { destruct (Nat.eqb r p) eqn:R; [|reflexivity]. apply Nat.eqb_eq in R. subst r. cbn in E. now rewrite Nat.eqb_refl in E. }
      rewrite IH. destruct (Nat.eqb q p) eqn:Q.
      * apply Nat.eqb_eq in Q. subst q. rewrite R. reflexivity.
      * reflexivity.
Qed.

Lemma mem_cb_cnt p l : mem_cb (CbResume p) l = true -> cnt p l <> 0.
Proof.
  intros H. apply cnt_In. unfold mem_cb in H. apply existsb_exists in H. destruct H as (x & Hx & E).
  apply cb_eqb_eq in E. now subst x.
Qed.

(* ------------------------------------------------------------------------------------------------ *)
(* projections of the state the invariant talks about *)

Definition cbs_of (s : state) (x : evid) : option (list cb) :=
  match get_event x s with Some ev => cbs ev | None => None end.

Definition tgt (s : state) (p : pid) : option (option evid) := option_map ptarget (get_proc p s).

Definition ovl := option (evid * list cb).

Definition ocbs (ov : ovl) (s : state) (x : evid) : option (list cb) :=
  match ov with
  | Some (e, t) => if Nat.eqb x e then Some t else cbs_of s x
  | None => cbs_of s x
  end.

Record winv (ov : ovl) (run : option pid) (s : state) : Prop := mkW {
  w_in : forall x l p, ocbs ov s x = Some l -> cnt p l <> 0 ->
                       Some p <> run /\ cnt p l = 1 /\ tgt s p = Some (Some x);
  w_tg : forall p t, tgt s p = Some (Some t) -> Some p <> run -> exists l, ocbs ov s t = Some l /\ cnt p l <> 0;
  w_ov : forall e t, ov = Some (e, t) -> exists ev, get_event e s = Some ev /\ cbs ev = None;
  w_run : forall q, run = Some q -> tgt s q <> None }.

(* ------------------------------------------------------------------------------------------------ *)
(* sim *)

Definition lsim (a b : option (list cb)) : Prop :=
  match a, b with
  | Some l, Some l' => forall p, cnt p l' = cnt p l
  | None, None => True
  | _, _ => False
  end.

Definition esim (a b : option event) : Prop :=
  match a, b with
  | Some ev, Some ev' => lsim (cbs ev) (cbs ev')
  | None, None => True
  | _, _ => False
  end.

Definition sim (s s' : state) : Prop :=
  (forall p, tgt s' p = tgt s p) /\ (forall x, esim (get_event x s) (get_event x s')).

Lemma lsim_refl a : lsim a a.
Proof. destruct a; cbn; auto. Qed.
Lemma lsim_trans a b c : lsim a b -> lsim b c -> lsim a c.
Proof. destruct a, b, c; cbn; try tauto. intros H1 H2 p. now rewrite H2, H1. Qed.
Lemma esim_refl a : esim a a.
Proof. destruct a; cbn; auto. apply lsim_refl. Qed.
Lemma esim_trans a b c : esim a b -> esim b c -> esim a c.
Proof. destruct a, b, c; cbn; try tauto. apply lsim_trans. Qed.

Lemma sim_refl s : sim s s.
Proof. split; [reflexivity|intros x; apply esim_refl]. Qed.
Lemma sim_trans s1 s2 s3 : sim s1 s2 -> sim s2 s3 -> sim s1 s3.
Proof. intros [A1 B1] [A2 B2]. split; [intros p; now rewrite A2, A1|intros x; eapply esim_trans; eauto]. Qed.

Lemma sim_same s s' : events s' = events s -> procs s' = procs s -> sim s s'.
Proof. intros E P. split; [intros p; unfold tgt, get_proc; now rewrite P|intros x; unfold get_event; rewrite E; apply esim_refl]. Qed.

Lemma sim_upd_event e f s :
  (forall ev, get_event e s = Some ev -> lsim (cbs ev) (cbs (f ev))) -> sim s (upd_event e f s).
Proof.
  intros Hf. split; [reflexivity|]. intros x. rewrite get_upd_event. destruct (Nat.eqb x e) eqn:E.
  - apply Nat.eqb_eq in E. subst x. destruct (get_event e s) as [ev|] eqn:H; cbn; [apply Hf; reflexivity|exact I].
  - apply esim_refl.
Qed.

Lemma cbs_of_sim s s' x : sim s s' -> lsim (cbs_of s x) (cbs_of s' x).
Proof.
  intros [_ B]. specialize (B x). unfold cbs_of. destruct (get_event x s), (get_event x s'); cbn in *; tauto.
Qed.

Lemma ocbs_sim ov s s' x : sim s s' -> lsim (ocbs ov s x) (ocbs ov s' x).
Proof.
  intros S. unfold ocbs. destruct ov as [[e t]|]; [|apply cbs_of_sim, S].
  destruct (Nat.eqb x e); [apply lsim_refl|apply cbs_of_sim, S].
Qed.

Lemma winv_sim ov run s s' : sim s s' -> winv ov run s -> winv ov run s'.
Proof.
  intros S [I T O RR]. pose proof S as [St Se]. constructor; [| | |intros q E; rewrite St; exact (RR q E)].
  - intros x l' p H C. pose proof (ocbs_sim ov s s' x S) as L. rewrite H in L.
    destruct (ocbs ov s x) as [l|] eqn:H0; [|contradiction]. cbn in L.
    destruct (I x l p H0 ltac:(rewrite <- L; exact C)) as (A & B & D).
    split; [exact A|]. split; [now rewrite L|]. now rewrite St.
  - intros p t H R. rewrite St in H. destruct (T p t H R) as (l & H0 & C).
    pose proof (ocbs_sim ov s s' t S) as L. rewrite H0 in L.
    destruct (ocbs ov s' t) as [l'|]; [|contradiction]. cbn in L. exists l'. split; [reflexivity|now rewrite L].
  - intros e t E. destruct (O e t E) as (ev & H & C). specialize (Se e). rewrite H in Se.
    destruct (get_event e s') as [ev'|]; [|contradiction]. cbn in Se. rewrite C in Se.
    exists ev'. split; [reflexivity|]. destruct (cbs ev'); [contradiction|reflexivity].
Qed.

(* ---- sim: one lemma per function that never touches a CbResume entry or a target ---- *)

Lemma sim_schedule e p d s : sim s (schedule e p d s).
Proof. apply sim_same; reflexivity. Qed.
Lemma sim_set_out e o s : sim s (upd_event e (ev_set_out o) s).
Proof. apply sim_upd_event. intros ev _. apply lsim_refl. Qed.
Lemma sim_set_defused e s : sim s (upd_event e ev_set_defused s).
Proof. apply sim_upd_event. intros ev _. apply lsim_refl. Qed.
Lemma sim_set_kind e k s : sim s (upd_event e (ev_set_kind k) s).
Proof. apply sim_upd_event. intros ev _. apply lsim_refl. Qed.

Lemma sim_add_callback e c s : is_resume c = false -> sim s (add_callback e c s).
Proof.
  intros N. apply sim_upd_event. intros ev _. unfold ev_add_cb. destruct (cbs ev) as [l|] eqn:C; cbn; [|now rewrite C].
  intros p. rewrite cnt_app, (cnt_single _ _ N). lia.
Qed.

Lemma sim_trigger e o s : sim s (trigger_event e o s).
Proof. unfold trigger_event. eapply sim_trans; [apply sim_set_out|apply sim_schedule]. Qed.

Lemma sim_feed_state e o s : sim s (feed_state e o s).
Proof. destruct o; cbn; [apply sim_refl|apply sim_set_defused]. Qed.

Lemma sim_cond_check c op s : sim s (cond_check c op s).
Proof.
  unfold cond_check.
  destruct (get_event c s) as [cev|]; [|apply sim_refl].
  destruct (get_event op s) as [oev|]; [|apply sim_refl].
  destruct (out cev); [apply sim_refl|].
  destruct (kind cev) as [| | | | |all ops count|]; try apply sim_refl.
  pose proof (sim_set_kind c (KCond all ops (S count)) s) as E1.
  destruct (out oev) as [[v|x]|].
  - destruct (cond_evaluate all (length ops) (S count)); [|exact E1].
    eapply sim_trans; [exact E1|apply sim_trigger].
  - eapply sim_trans; [exact E1|]. eapply sim_trans; [apply sim_set_defused|apply sim_trigger].
  - destruct (cond_evaluate all (length ops) (S count)); [|exact E1].
    eapply sim_trans; [exact E1|apply sim_trigger].
Qed.

Lemma sim_remove_check_from c o s : sim s (remove_check_from c o s).
Proof.
  unfold remove_check_from. destruct (get_event o s) as [oev|] eqn:H; [|apply sim_refl].
  destruct (cbs oev) as [l|] eqn:C; [|apply sim_refl]. destruct (mem_cb (CbCheck c) l); [|apply sim_refl].
  apply sim_upd_event. intros ev Hev. rewrite H in Hev. injection Hev as <-. rewrite C. cbn.
  intros p. apply cnt_remove_first_other. reflexivity.
Qed.

Lemma sim_remove_ops rec c :
  (forall o s s', rec o s = Some s' -> sim s s') ->
  forall l s s', remove_ops rec c l s = Some s' -> sim s s'.
Proof.
  intros Hrec. induction l as [|o t IH]; intros s s'; cbn [remove_ops].
  - intros H; injection H as <-. apply sim_refl.
  - destruct (get_event o s) as [oev|]; [|discriminate].
    destruct (is_cond oev).
    + destruct (rec o (remove_check_from c o s)) as [s2|] eqn:R; [|discriminate]. intros H.
      eapply sim_trans; [apply sim_remove_check_from|]. eapply sim_trans; [eapply Hrec, R|]. apply IH, H.
    + intros H. eapply sim_trans; [apply sim_remove_check_from|]. apply IH, H.
Qed.

Lemma sim_remove_checks fuel : forall c s s', remove_checks fuel c s = Some s' -> sim s s'.
Proof.
  induction fuel as [|f IH]; intros c s s'; cbn [remove_checks]; [discriminate|].
  destruct (get_event c s) as [cev|]; [|discriminate].
  destruct (kind cev); try (intros H; injection H as <-; apply sim_refl).
  apply sim_remove_ops. exact IH.
Qed.

Lemma sim_cond_build c s : sim s (fst (cond_build c s)).
Proof.
  unfold cond_build. destruct (remove_checks (S c) c s) as [s1|] eqn:R; [|apply sim_refl].
  pose proof (sim_remove_checks _ _ _ _ R) as E1.
  destruct (get_event c s1) as [cev|]; [|exact E1].
  destruct (out cev) as [[v|x]|]; try exact E1.
  destruct (kind cev); try exact E1.
  destruct (populate (S c) (events s1) ops); [|exact E1].
  cbn [fst]. eapply sim_trans; [exact E1|apply sim_set_out].
Qed.

Lemma sim_cond_subscribe c ops : forall s, sim s (cond_subscribe c ops s).
Proof.
  induction ops as [|o t IH]; intros s; cbn [cond_subscribe]; [apply sim_refl|].
  eapply sim_trans; [|apply IH].
  destruct (get_event o s) as [oev|]; [|apply sim_refl].
  destruct (is_processed oev); [apply sim_cond_check|apply sim_add_callback; reflexivity].
Qed.

(* ------------------------------------------------------------------------------------------------ *)
(* winv: creation of events and processes *)

Lemma ocbs_lt ov run s x l : winv ov run s -> ocbs ov s x = Some l -> x < length (events s).
Proof.
  intros W H. unfold ocbs in H. destruct ov as [[e t]|].
  - destruct (Nat.eqb x e) eqn:E.
    + apply Nat.eqb_eq in E. subst x. destruct (w_ov _ _ _ W e t eq_refl) as (ev & G & _). eapply get_event_lt, G.
    + unfold cbs_of in H. destruct (get_event x s) eqn:G; [eapply get_event_lt, G|discriminate].
  - unfold cbs_of in H. destruct (get_event x s) eqn:G; [eapply get_event_lt, G|discriminate].
Qed.

Lemma cbs_of_new_old ev s x : x <> length (events s) -> cbs_of (snd (new_event ev s)) x = cbs_of s x.
Proof.
  intros N. unfold cbs_of. destruct (Nat.lt_ge_cases x (length (events s))) as [L|L].
  - now rewrite get_new_event_old.
  - unfold get_event. cbn. rewrite nth_error_app2 by lia.
    destruct (x - length (events s)) as [|k] eqn:K; [lia|]. cbn.
    replace (nth_error (events s) x) with (@None event) by (symmetry; apply nth_error_None; lia).
    destruct k; reflexivity.
Qed.

Lemma cbs_of_new_new ev s : cbs_of (snd (new_event ev s)) (length (events s)) = cbs ev.
Proof. unfold cbs_of. now rewrite get_new_event_new. Qed.

Lemma cbs_of_fresh s x : length (events s) <= x -> cbs_of s x = None.
Proof. intros L. unfold cbs_of, get_event. replace (nth_error (events s) x) with (@None event); [reflexivity|]. symmetry. apply nth_error_None. exact L. Qed.

Lemma ocbs_new_event ov run s ev x :
  winv ov run s ->
  ocbs ov (snd (new_event ev s)) x =
  if Nat.eqb x (length (events s)) then cbs ev else ocbs ov s x.
Proof.
  intros W. unfold ocbs. destruct ov as [[e t]|].
  - destruct (w_ov _ _ _ W e t eq_refl) as (ev0 & G & _). apply get_event_lt in G.
    destruct (Nat.eqb x e) eqn:E.
    + apply Nat.eqb_eq in E. subst x. replace (Nat.eqb e (length (events s))) with false; [reflexivity|].
      symmetry. apply Nat.eqb_neq. lia.
    + destruct (Nat.eqb x (length (events s))) eqn:N.
      * apply Nat.eqb_eq in N. subst x. apply cbs_of_new_new.
      * apply Nat.eqb_neq in N. now apply cbs_of_new_old.
  - destruct (Nat.eqb x (length (events s))) eqn:N.
    + apply Nat.eqb_eq in N. subst x. apply cbs_of_new_new.
    + apply Nat.eqb_neq in N. now apply cbs_of_new_old.
Qed.

(* a new event whose callback list contains no CbResume *)
Lemma winv_new_event ov run s ev :
  (forall l p, cbs ev = Some l -> cnt p l = 0) -> winv ov run s -> winv ov run (snd (new_event ev s)).
Proof.
  intros N W. constructor.
  - intros x l p H C. rewrite (ocbs_new_event _ _ _ _ _ W) in H. destruct (Nat.eqb x (length (events s))).
    + exfalso. apply C. eapply N, H.
    + exact (w_in _ _ _ W x l p H C).
  - intros p t H R. destruct (w_tg _ _ _ W p t H R) as (l & H0 & C). exists l. split; [|exact C].
    rewrite (ocbs_new_event _ _ _ _ _ W). pose proof (ocbs_lt _ _ _ _ _ W H0) as L.
    replace (Nat.eqb t (length (events s))) with false; [exact H0|]. symmetry. apply Nat.eqb_neq. lia.
  - intros e t E. destruct (w_ov _ _ _ W e t E) as (ev0 & G & C). exists ev0. split; [|exact C].
    rewrite get_new_event_old; [exact G|eapply get_event_lt, G].
  - intros q E. exact (w_run _ _ _ W q E).
Qed.

Lemma tgt_lt s p o : tgt s p = Some o -> p < length (procs s).
Proof. unfold tgt, get_proc. intros H. apply nth_error_Some. destruct (nth_error (procs s) p); discriminate. Qed.

Lemma cbs_of_ext s s' x : events s' = events s -> cbs_of s' x = cbs_of s x.
Proof. intros E. unfold cbs_of, get_event. now rewrite E. Qed.

Lemma ocbs_ext ov s s' x : events s' = events s -> ocbs ov s' x = ocbs ov s x.
Proof.
  intros E. unfold ocbs. destruct ov as [[e t]|]; [destruct (Nat.eqb x e)|]; try reflexivity; now apply cbs_of_ext.
Qed.

(* a new process together with its Initialize event *)
Lemma winv_add_waiter ov run s s' ev prc :
  winv ov run s -> events s' = events s ++ [ev] -> procs s' = procs s ++ [prc] ->
  cbs ev = Some [CbResume (length (procs s))] -> ptarget prc = Some (length (events s)) ->
  winv ov run s'.
Proof.
  intros W E P C T.
  set (n := length (events s)). set (p := length (procs s)).
  assert (OC : forall x, ocbs ov s' x = if Nat.eqb x n then Some [CbResume p] else ocbs ov s x).
  { intros x. unfold p, n. rewrite <- C. rewrite <- (ocbs_new_event ov run s ev x W). apply ocbs_ext. exact E. }
  assert (TG : forall q, tgt s' q = if Nat.ltb q p then tgt s q else if Nat.eqb q p then Some (Some n) else None).
  { intros q. unfold tgt, get_proc. rewrite P. destruct (Nat.ltb q p) eqn:L.
    - apply Nat.ltb_lt in L. now rewrite nth_error_app1.
    - apply Nat.ltb_ge in L. rewrite nth_error_app2 by exact L. destruct (Nat.eqb q p) eqn:Q.
      + apply Nat.eqb_eq in Q. subst q. unfold p. rewrite Nat.sub_diag. cbn. now rewrite T.
      + apply Nat.eqb_neq in Q. destruct (q - length (procs s)) as [|k] eqn:K; [unfold p in *; lia|]. cbn. destruct k; reflexivity. }
  assert (PR : forall q o, tgt s q = Some o -> Nat.ltb q p = true) by (intros q o H; apply Nat.ltb_lt; eapply tgt_lt, H).
  assert (FR : tgt s p = None).
  { unfold tgt, get_proc. replace (nth_error (procs s) p) with (@None procrec); [reflexivity|].
    symmetry. apply nth_error_None. unfold p. lia. }
  constructor.
  - intros x l q H Cq. rewrite OC in H. destruct (Nat.eqb x n) eqn:X.
    + apply Nat.eqb_eq in X. subst x. injection H as <-. cbn in Cq. destruct (Nat.eqb p q) eqn:Q; [|cbn in Cq; lia].
      apply Nat.eqb_eq in Q. subst q. split.
      * intros R. apply (w_run _ _ _ W p (eq_sym R)). exact FR.
      * split; [cbn; rewrite Nat.eqb_refl; reflexivity|]. rewrite TG, Nat.ltb_irrefl, Nat.eqb_refl. reflexivity.
    + destruct (w_in _ _ _ W x l q H Cq) as (A & B & D). split; [exact A|]. split; [exact B|]. rewrite TG, (PR _ _ D). exact D.
  - intros q t H R. rewrite TG in H. destruct (Nat.ltb q p) eqn:L.
    + destruct (w_tg _ _ _ W q t H R) as (l & H0 & Cq). exists l. split; [|exact Cq]. rewrite OC.
      pose proof (ocbs_lt _ _ _ _ _ W H0) as Lt. replace (Nat.eqb t n) with false; [exact H0|].
      symmetry; apply Nat.eqb_neq; unfold n; lia.
    + destruct (Nat.eqb q p) eqn:Q; [|discriminate]. apply Nat.eqb_eq in Q. subst q. injection H as <-.
      exists [CbResume p]. rewrite OC, Nat.eqb_refl. split; [reflexivity|]. cbn. rewrite Nat.eqb_refl. lia.
  - intros e t Ev. destruct (w_ov _ _ _ W e t Ev) as (ev0 & G & C0). exists ev0. split; [|exact C0].
    unfold get_event in *. rewrite E. rewrite nth_error_app1; [exact G|]. apply nth_error_Some. congruence.
  - intros q R. pose proof (w_run _ _ _ W q R) as N. destruct (tgt s q) eqn:TQ; [|contradiction].
    rewrite TG, (PR _ _ TQ), TQ. discriminate.
Qed.

Lemma cnt0_nil : forall l p, Some (@nil cb) = Some l -> cnt p l = 0.
Proof. intros l p H; injection H as <-; reflexivity. Qed.

Lemma winv_call_spawn codes code arg ov run s : winv ov run s -> winv ov run (fst (call_spawn codes code arg s)).
Proof.
  intros W. unfold call_spawn, new_event. destruct (nth_error codes code) as [pr|]; [|exact W]. cbn [fst].
  set (EV1 := mkEvent (Some []) None false (KProcess (length (procs s)))).
  eapply (winv_add_waiter ov run (snd (new_event EV1 s))).
  - apply winv_new_event; [apply cnt0_nil|exact W].
  - reflexivity.
  - reflexivity.
  - reflexivity.
  - reflexivity.
Qed.

Lemma winv_call_cond all es ov run s : winv ov run s -> winv ov run (fst (call_cond all es s)).
Proof.
  intros W. unfold call_cond. destruct (negb (all_valid es s)); [exact W|].
  pose proof (winv_new_event ov run s (mkEvent (Some []) None false (KCond all es 0)) (cnt0_nil) W) as W1.
  destruct (new_event _ s) as [c s1]. cbn [fst snd] in *.
  destruct es as [|e0 es']; cbn [fst].
  - eapply winv_sim; [apply sim_trigger|exact W1].
  - eapply winv_sim; [|exact W1]. eapply sim_trans; [apply sim_cond_subscribe|apply sim_add_callback; reflexivity].
Qed.

Lemma winv_do_call codes c ov run s : winv ov run s -> winv ov run (fst (do_call codes c s)).
Proof.
  intros W. destruct c; cbn [do_call].
  - unfold call_timeout. destruct (neg_delay d); [exact W|].
    pose proof (winv_new_event ov run s (mkEvent (Some []) (Some (Ok v)) false KTimeout) (cnt0_nil) W) as W1.
    destruct (new_event _ s) as [e s1]. cbn [fst snd] in *. eapply winv_sim; [apply sim_schedule|exact W1].
  - unfold call_event.
    pose proof (winv_new_event ov run s (mkEvent (Some []) None false KPlain) (cnt0_nil) W) as W1.
    destruct (new_event _ s) as [e s1]. exact W1.
  - unfold call_succeed. destruct (get_event e s); [|exact W]. destruct (is_triggered e0); [exact W|].
    cbn [fst]. eapply winv_sim; [apply sim_trigger|exact W].
  - unfold call_fail. destruct (get_event e s); [|exact W]. destruct (is_triggered e0); [exact W|].
    destruct x; try exact W. cbn [fst]. eapply winv_sim; [apply sim_trigger|exact W].
  - apply winv_call_spawn, W.
  - unfold call_interrupt. destruct (get_event e s) as [ev|]; [|exact W].
    destruct (kind ev); try exact W. destruct (is_triggered ev); [exact W|].
    destruct (match active s with Some a => Nat.eqb a p | None => false end); [exact W|].
    assert (W1 : winv ov run (snd (new_event (mkEvent (Some [CbInterrupt (length (events s))]) (Some (Fail (EInterrupt, [cause]))) true (KInterruption p)) s))).
    { apply winv_new_event; [|exact W]. intros l q H. injection H as <-. reflexivity. }
    destruct (new_event _ s) as [i s1]. cbn [fst snd] in *. eapply winv_sim; [apply sim_schedule|exact W1].
  - apply winv_call_cond, W.
  - apply winv_call_cond, W.
  - unfold call_probe. destruct (get_event e s) as [ev|]; [|exact W].
    destruct (is_processed ev); [exact W|]. cbn [fst]. eapply winv_sim; [apply sim_add_callback; reflexivity|exact W].
  - rewrite call_query_state. exact W.
  - exact W.
  - exact W.
  - cbn [fst]. apply (winv_sim ov run s); [apply sim_same; reflexivity|exact W].
  - exact W.
  - cbn [fst]. apply (winv_sim ov run s); [apply sim_same; reflexivity|exact W].
Qed.

Lemma winv_run_frag {A} codes (f : frag A) ov run : forall s, winv ov run s -> winv ov run (fst (run_frag codes f s)).
Proof.
  induction f as [v a|v|x|c k IH]; intros s W; cbn [run_frag fst]; try exact W.
  pose proof (winv_do_call codes c ov run s W) as X. destruct (do_call codes c s) as [s1 o]. cbn [fst] in X.
  apply IH, X.
Qed.

(* ------------------------------------------------------------------------------------------------ *)
(* winv: the moves of Process._resume and of the callback loop *)

Lemma tgt_upd_proc p f s q :
  tgt (upd_proc p f s) q = if Nat.eqb q p then option_map (fun pr => ptarget (f pr)) (get_proc q s) else tgt s q.
Proof. unfold tgt. rewrite get_proc_upd. destruct (Nat.eqb q p); [destruct (get_proc q s); reflexivity|reflexivity]. Qed.

Lemma ocbs_upd_proc ov p f s x : ocbs ov (upd_proc p f s) x = ocbs ov s x.
Proof. apply ocbs_ext. reflexivity. Qed.

Lemma tgt_some s p : tgt s p <> None -> exists pr, get_proc p s = Some pr.
Proof. unfold tgt. destruct (get_proc p s) as [pr|]; [eauto|intros H; contradiction]. Qed.

(* the record of the running process may be replaced by anything *)
Lemma winv_put_running ov p prx s : winv ov (Some p) s -> winv ov (Some p) (put_proc p prx s).
Proof.
  intros W. unfold put_proc. constructor.
  - intros x l q H C. rewrite ocbs_upd_proc in H. destruct (w_in _ _ _ W x l q H C) as (A & B & D).
    split; [exact A|]. split; [exact B|]. rewrite tgt_upd_proc. destruct (Nat.eqb q p) eqn:Q; [|exact D].
    apply Nat.eqb_eq in Q. subst q. exfalso. apply A. reflexivity.
  - intros q t H R. rewrite tgt_upd_proc in H. destruct (Nat.eqb q p) eqn:Q.
    + apply Nat.eqb_eq in Q. subst q. exfalso. apply R. reflexivity.
    + destruct (w_tg _ _ _ W q t H R) as (l & H0 & C). exists l. rewrite ocbs_upd_proc. auto.
  - intros e t E. exact (w_ov _ _ _ W e t E).
  - intros q E. injection E as <-. rewrite tgt_upd_proc, Nat.eqb_refl.
    destruct (tgt_some _ _ (w_run _ _ _ W p eq_refl)) as (pr & P). rewrite P. discriminate.
Qed.

(* the generator ended *)
Lemma winv_finish ov p s : winv ov (Some p) s -> winv ov None (upd_proc p (proc_set_target None) s).
Proof.
  intros W. constructor.
  - intros x l q H C. rewrite ocbs_upd_proc in H. destruct (w_in _ _ _ W x l q H C) as (A & B & D).
    split; [discriminate|]. split; [exact B|]. rewrite tgt_upd_proc. destruct (Nat.eqb q p) eqn:Q; [|exact D].
    apply Nat.eqb_eq in Q. subst q. exfalso. apply A. reflexivity.
  - intros q t H _. rewrite tgt_upd_proc in H. destruct (Nat.eqb q p) eqn:Q.
    + destruct (get_proc q s); discriminate.
    + assert (R : Some q <> Some p) by (intros E; injection E as ->; now rewrite Nat.eqb_refl in Q).
      destruct (w_tg _ _ _ W q t H R) as (l & H0 & C). exists l. rewrite ocbs_upd_proc. auto.
  - intros e t E. exact (w_ov _ _ _ W e t E).
  - intros q E. discriminate.
Qed.

(* the generator yielded a pending event *)
Lemma winv_wait ov p e' s ev' l :
  winv ov (Some p) s -> get_event e' s = Some ev' -> cbs ev' = Some l ->
  winv ov None (upd_proc p (proc_set_target (Some e')) (add_callback e' (CbResume p) s)).
Proof.
  intros W G C.
  set (s1 := add_callback e' (CbResume p) s).
  assert (G1 : forall x, get_event x s1 = if Nat.eqb x e' then Some (ev_set_cbs (Some (l ++ [CbResume p])) ev') else get_event x s).
  { intros x. unfold s1, add_callback. rewrite get_upd_event. destruct (Nat.eqb x e') eqn:X; [|reflexivity].
    apply Nat.eqb_eq in X. subst x. rewrite G. cbn. unfold ev_add_cb. now rewrite C. }
  assert (NE : forall e t, ov = Some (e, t) -> Nat.eqb e' e = false).
  { intros e t E. destruct (w_ov _ _ _ W e t E) as (ev0 & G0 & C0). apply Nat.eqb_neq. intros ->. congruence. }
  assert (OC : forall x, ocbs ov s1 x = if Nat.eqb x e' then Some (l ++ [CbResume p]) else ocbs ov s x).
  { intros x. unfold ocbs, cbs_of. rewrite G1. destruct ov as [[e t]|].
    - destruct (Nat.eqb x e) eqn:X.
      + apply Nat.eqb_eq in X. subst x. rewrite Nat.eqb_sym, (NE e t eq_refl). reflexivity.
      + destruct (Nat.eqb x e'); reflexivity.
    - destruct (Nat.eqb x e'); reflexivity. }
  assert (OE : ocbs ov s e' = Some l).
  { unfold ocbs, cbs_of. rewrite G. destruct ov as [[e t]|]; [|exact C]. now rewrite (NE e t eq_refl). }
  assert (NP : forall x l0, ocbs ov s x = Some l0 -> cnt p l0 = 0).
  { intros x l0 H. destruct (cnt p l0) eqn:K; [reflexivity|]. exfalso.
    destruct (w_in _ _ _ W x l0 p H ltac:(lia)) as (A & _). apply A. reflexivity. }
  destruct (tgt_some _ _ (w_run _ _ _ W p eq_refl)) as (pr & P).
  assert (TG : forall q, tgt (upd_proc p (proc_set_target (Some e')) s1) q = if Nat.eqb q p then Some (Some e') else tgt s q).
  { intros q. rewrite tgt_upd_proc. destruct (Nat.eqb q p) eqn:Q; [|reflexivity].
    apply Nat.eqb_eq in Q. subst q. change (get_proc p s1) with (get_proc p s). rewrite P. reflexivity. }
  constructor.
  - intros x l0 q H Cq. rewrite ocbs_upd_proc, OC in H. rewrite TG. destruct (Nat.eqb x e') eqn:X.
    + apply Nat.eqb_eq in X. subst x. injection H as <-. rewrite cnt_app in *. cbn in *.
      destruct (Nat.eqb p q) eqn:Q.
      * apply Nat.eqb_eq in Q. subst q. rewrite (NP _ _ OE), Nat.eqb_refl. split; [discriminate|]. split; reflexivity.
      * assert (Cq' : cnt q l <> 0) by lia. destruct (w_in _ _ _ W e' l q OE Cq') as (A & B & D).
        rewrite Nat.eqb_sym, Q. split; [discriminate|]. split; [lia|exact D].
    + destruct (w_in _ _ _ W x l0 q H Cq) as (A & B & D). split; [discriminate|]. split; [exact B|].
      destruct (Nat.eqb q p) eqn:Q; [|exact D]. apply Nat.eqb_eq in Q. subst q. exfalso. apply A. reflexivity.
  - intros q t H _. rewrite TG in H. destruct (Nat.eqb q p) eqn:Q.
    + injection H as <-. apply Nat.eqb_eq in Q. subst q. exists (l ++ [CbResume p]). rewrite ocbs_upd_proc, OC, Nat.eqb_refl.
      split; [reflexivity|]. rewrite cnt_app. cbn. rewrite Nat.eqb_refl. lia.
    + assert (R : Some q <> Some p) by (intros E; injection E as ->; now rewrite Nat.eqb_refl in Q).
      destruct (w_tg _ _ _ W q t H R) as (l0 & H0 & Cq). rewrite ocbs_upd_proc. setoid_rewrite OC.
      destruct (Nat.eqb t e') eqn:X.
      * apply Nat.eqb_eq in X. subst t. rewrite OE in H0. injection H0 as <-. exists (l ++ [CbResume p]).
        split; [reflexivity|]. rewrite cnt_app. lia.
      * exists l0. auto.
  - intros e t E. destruct (w_ov _ _ _ W e t E) as (ev0 & G0 & C0). exists ev0. split; [|exact C0].
    change (get_event e s1 = Some ev0). rewrite G1. pose proof (NE e t E) as N. rewrite Nat.eqb_sym in N. now rewrite N.
  - intros q E. discriminate.
Qed.

(* the loop takes the next callback, a CbResume: that process now runs *)
Lemma winv_pop_resume e p t s : winv (Some (e, CbResume p :: t)) None s -> winv (Some (e, t)) (Some p) s.
Proof.
  intros W.
  assert (OE : ocbs (Some (e, CbResume p :: t)) s e = Some (CbResume p :: t)) by (cbn; now rewrite Nat.eqb_refl).
  assert (CP : cnt p (CbResume p :: t) <> 0) by (cbn; rewrite Nat.eqb_refl; lia).
  destruct (w_in _ _ _ W e _ p OE CP) as (_ & B & D).
  assert (CT : cnt p t = 0) by (cbn in B; rewrite Nat.eqb_refl in B; lia).
  constructor.
  - intros x l q H C. cbn [ocbs] in H. destruct (Nat.eqb x e) eqn:X.
    + apply Nat.eqb_eq in X. subst x. injection H as <-.
      assert (Q : Nat.eqb p q = false).
      { destruct (Nat.eqb p q) eqn:Q; [|reflexivity]. apply Nat.eqb_eq in Q. subst q. contradiction. }
      assert (C' : cnt q (CbResume p :: t) <> 0) by (cbn; rewrite Q; exact C).
      destruct (w_in _ _ _ W e _ q OE C') as (_ & B' & D'). split.
      * intros E. injection E as ->. now rewrite Nat.eqb_refl in Q.
      * split; [cbn in B'; rewrite Q in B'; exact B'|exact D'].
    + assert (H' : ocbs (Some (e, CbResume p :: t)) s x = Some l) by (cbn; now rewrite X).
      destruct (w_in _ _ _ W x l q H' C) as (_ & B' & D'). split; [|auto].
      intros E. injection E as ->. rewrite D in D'. injection D' as ->. now rewrite Nat.eqb_refl in X.
  - intros q t0 H R. destruct (w_tg _ _ _ W q t0 H ltac:(discriminate)) as (l & H0 & C).
    cbn [ocbs] in *. destruct (Nat.eqb t0 e).
    + injection H0 as <-. exists t. split; [reflexivity|]. cbn in C. destruct (Nat.eqb p q) eqn:Q; [|exact C].
      apply Nat.eqb_eq in Q. subst q. exfalso. apply R. reflexivity.
    + exists l. auto.
  - intros e0 t0 E. injection E as <- <-. exact (w_ov _ _ _ W e _ eq_refl).
  - intros q E. injection E as <-. rewrite D. discriminate.
Qed.

(* the remaining list is replaced by one with the same CbResume entries (e.g. a non-CbResume head is taken) *)
Lemma winv_ov_cnt e t t' run s : (forall q, cnt q t' = cnt q t) -> winv (Some (e, t)) run s -> winv (Some (e, t')) run s.
Proof.
  intros Hc W. constructor.
  - intros x l q H C. cbn [ocbs] in H. destruct (Nat.eqb x e) eqn:X.
    + injection H as <-. rewrite Hc in *. apply (w_in _ _ _ W x t q); [cbn; now rewrite X|exact C].
    + apply (w_in _ _ _ W x l q); [cbn; now rewrite X|exact C].
  - intros q t0 H R. destruct (w_tg _ _ _ W q t0 H R) as (l & H0 & C). cbn [ocbs] in *. destruct (Nat.eqb t0 e).
    + injection H0 as <-. exists t'. split; [reflexivity|now rewrite Hc].
    + exists l. auto.
  - intros e0 t0 E. injection E as <- <-. exact (w_ov _ _ _ W e _ eq_refl).
  - exact (w_run _ _ _ W).
Qed.

Lemma winv_pop_other e c t run s : is_resume c = false -> winv (Some (e, c :: t)) run s -> winv (Some (e, t)) run s.
Proof. intros N. apply winv_ov_cnt. intros q. destruct c; cbn in *; congruence. Qed.

(* step(): callbacks, event.callbacks = event.callbacks, None *)
Lemma winv_open e ev l run s :
  winv None run s -> get_event e s = Some ev -> cbs ev = Some l ->
  winv (Some (e, l)) run (upd_event e (ev_set_cbs None) s).
Proof.
  intros W G C.
  assert (OC : forall x, ocbs (Some (e, l)) (upd_event e (ev_set_cbs None) s) x = ocbs None s x).
  { intros x. cbn [ocbs]. unfold cbs_of. destruct (Nat.eqb x e) eqn:X.
    - apply Nat.eqb_eq in X. subst x. now rewrite G.
    - apply Nat.eqb_neq in X. now rewrite get_upd_event_other. }
  constructor.
  - intros x l0 q H Cq. rewrite OC in H. exact (w_in _ _ _ W x l0 q H Cq).
  - intros q t H R. destruct (w_tg _ _ _ W q t H R) as (l0 & H0 & Cq). exists l0. rewrite OC. auto.
  - intros e0 t0 E. injection E as <- <-. exists (ev_set_cbs None ev). split; [apply get_upd_event_same, G|reflexivity].
  - exact (w_run _ _ _ W).
Qed.

(* the loop is over *)
Lemma winv_close e run s : winv (Some (e, [])) run s -> winv None run s.
Proof.
  intros W. destruct (w_ov _ _ _ W e [] eq_refl) as (ev & G & C).
  assert (CE : cbs_of s e = None) by (unfold cbs_of; now rewrite G).
  constructor.
  - intros x l q H Cq. cbn [ocbs] in H. apply (w_in _ _ _ W x l q); [|exact Cq]. cbn [ocbs].
    destruct (Nat.eqb x e) eqn:X; [|exact H]. apply Nat.eqb_eq in X. subst x. congruence.
  - intros q t H R. destruct (w_tg _ _ _ W q t H R) as (l & H0 & Cq). cbn [ocbs] in *. destruct (Nat.eqb t e).
    + injection H0 as <-. cbn in Cq. contradiction.
    + exists l. auto.
  - intros e0 t0 E. discriminate.
  - exact (w_run _ _ _ W).
Qed.

(* Interruption._interrupt: the victim is taken out of its target's list *)
Lemma winv_unregister ov p t tev l s :
  winv ov None s -> get_event t s = Some tev -> cbs tev = Some l -> cnt p l <> 0 ->
  winv ov (Some p) (upd_event t (ev_set_cbs (Some (remove_first (CbResume p) l))) s).
Proof.
  intros W G C Cp.
  set (l' := remove_first (CbResume p) l). set (s1 := upd_event t (ev_set_cbs (Some l')) s).
  assert (NE : forall e t0, ov = Some (e, t0) -> Nat.eqb t e = false).
  { intros e t0 E. destruct (w_ov _ _ _ W e t0 E) as (ev0 & G0 & C0). apply Nat.eqb_neq. intros ->. congruence. }
  assert (OT : ocbs ov s t = Some l).
  { unfold ocbs, cbs_of. rewrite G. destruct ov as [[e t0]|]; [|exact C]. now rewrite (NE e t0 eq_refl). }
  assert (OC : forall x, ocbs ov s1 x = if Nat.eqb x t then Some l' else ocbs ov s x).
  { intros x. unfold ocbs, cbs_of, s1. rewrite get_upd_event. destruct ov as [[e t0]|].
    - destruct (Nat.eqb x e) eqn:X.
      + apply Nat.eqb_eq in X. subst x. rewrite Nat.eqb_sym, (NE e t0 eq_refl). reflexivity.
      + destruct (Nat.eqb x t) eqn:Y; [|reflexivity]. apply Nat.eqb_eq in Y. subst x. now rewrite G.
    - destruct (Nat.eqb x t) eqn:Y; [|reflexivity]. apply Nat.eqb_eq in Y. subst x. now rewrite G. }
  destruct (w_in _ _ _ W t l p OT Cp) as (_ & B & D).
  assert (CL : forall q, cnt q l' = if Nat.eqb q p then 0 else cnt q l).
  { intros q. unfold l'. rewrite cnt_remove_first_resume. destruct (Nat.eqb q p); [rewrite B; reflexivity|reflexivity]. }
  constructor.
  - intros x l0 q H Cq. rewrite OC in H. change (tgt s1 q) with (tgt s q). destruct (Nat.eqb x t) eqn:X.
    + apply Nat.eqb_eq in X. subst x. injection H as <-. rewrite CL in *. destruct (Nat.eqb q p) eqn:Q; [contradiction|].
      destruct (w_in _ _ _ W t l q OT Cq) as (_ & B' & D'). split; [|auto].
      intros E. injection E as ->. now rewrite Nat.eqb_refl in Q.
    + destruct (w_in _ _ _ W x l0 q H Cq) as (_ & B' & D'). split; [|auto].
      intros E. injection E as ->. rewrite D in D'. injection D' as ->. now rewrite Nat.eqb_refl in X.
  - intros q t0 H R. change (tgt s1 q) with (tgt s q) in H.
    destruct (w_tg _ _ _ W q t0 H ltac:(discriminate)) as (l0 & H0 & Cq). setoid_rewrite OC.
    destruct (Nat.eqb t0 t) eqn:X.
    + apply Nat.eqb_eq in X. subst t0. rewrite OT in H0. injection H0 as <-. exists l'. split; [reflexivity|].
      rewrite CL. destruct (Nat.eqb q p) eqn:Q; [|exact Cq]. apply Nat.eqb_eq in Q. subst q. exfalso. apply R. reflexivity.
    + exists l0. auto.
  - intros e t0 E. destruct (w_ov _ _ _ W e t0 E) as (ev0 & G0 & C0). exists ev0. split; [|exact C0].
    unfold s1. rewrite get_upd_event. pose proof (NE e t0 E) as N. rewrite Nat.eqb_sym in N. now rewrite N.
  - intros q E. injection E as <-. change (tgt s1 p) with (tgt s p). rewrite D. discriminate.
Qed.

(* ------------------------------------------------------------------------------------------------ *)
(* winv through Process._resume, Interruption._interrupt, the callbacks, the loop *)

Lemma winv_resume_loop codes ov fuel : forall p e s s',
  winv ov (Some p) s -> resume_loop fuel codes p e s = (s', ROk) -> winv ov None s'.
Proof.
  induction fuel as [|f IH]; intros p e s s' W; cbn [resume_loop]; [discriminate|].
  destruct (get_event e s) as [ev|]; [|discriminate].
  destruct (get_proc p s) as [pr|]; [|discriminate].
  destruct (out ev) as [o|]; [|discriminate].
  assert (W1 : winv ov (Some p) (feed_state e o s)) by (eapply winv_sim; [apply sim_feed_state|exact W]).
  unfold feed_state in W1.
  pose proof (winv_run_frag codes (resume (pcode pr) (pst pr) o) ov (Some p) _ W1) as W2.
  destruct (run_frag codes (resume (pcode pr) (pst pr) o) match o with Ok _ => s | Fail _ => upd_event e ev_set_defused s end) as [s2 r].
  cbn [fst] in W2.
  destruct r as [v a|v|x].
  - pose proof (winv_put_running ov p (proc_set_st pr a) s2 W2) as W3.
    destruct v; try discriminate.
    destruct (get_event e0 (put_proc p (proc_set_st pr a) s2)) as [ev'|] eqn:G'; [|discriminate].
    unfold is_processed. destruct (cbs ev') as [l|] eqn:C'.
    + intros H. injection H as <-. unfold proc_wait.
      apply (winv_sim ov None (upd_proc p (proc_set_target (Some e0)) (add_callback e0 (CbResume p) (put_proc p (proc_set_st pr a) s2)))).
      * apply sim_same; reflexivity.
      * eapply winv_wait; eauto.
    + apply IH. exact W3.
  - intros H. injection H as <-. unfold proc_finish.
    apply (winv_sim ov None (upd_proc p (proc_set_target None) (trigger_event (pev pr) (Ok v) s2))).
    + apply sim_same; reflexivity.
    + apply winv_finish. eapply winv_sim; [apply sim_trigger|exact W2].
  - intros H. injection H as <-. unfold proc_finish.
    apply (winv_sim ov None (upd_proc p (proc_set_target None) (trigger_event (pev pr) (Fail x) s2))).
    + apply sim_same; reflexivity.
    + apply winv_finish. eapply winv_sim; [apply sim_trigger|exact W2].
Qed.

Lemma winv_resume_proc codes ov fuel p e s s' :
  winv ov (Some p) s -> resume_proc fuel codes p e s = (s', ROk) -> winv ov None s'.
Proof.
  intros W. unfold resume_proc. apply winv_resume_loop.
  apply (winv_sim ov (Some p) s); [apply sim_same; reflexivity|exact W].
Qed.

Lemma winv_do_interruption codes ov fuel i s s' :
  winv ov None s -> do_interruption fuel codes i s = (s', ROk) -> winv ov None s'.
Proof.
  intros W. unfold do_interruption.
  destruct (get_event i s) as [iev|]; [|discriminate].
  destruct (kind iev); try discriminate.
  destruct (get_proc p s) as [pr|]; [|discriminate].
  destruct (get_event (pev pr) s) as [pe|]; [|discriminate].
  destruct (is_triggered pe); [intros H; injection H as <-; exact W|].
  destruct (ptarget pr) as [t|]; [|discriminate].
  destruct (get_event t s) as [tev|] eqn:Gt; [|discriminate].
  destruct (cbs tev) as [l|] eqn:C; [|discriminate].
  destruct (mem_cb (CbResume p) l) eqn:M; [|discriminate].
  apply winv_resume_proc. eapply winv_unregister; eauto. apply mem_cb_cnt, M.
Qed.

Lemma winv_run_cb codes fuel e c t s s' r :
  winv (Some (e, c :: t)) None s -> run_cb fuel codes e c s = (s', r) -> cb_ok c r -> winv (Some (e, t)) None s'.
Proof.
  intros W H K.
  destruct c; try (destruct K as [->|[Sc _]]; [|discriminate Sc]); cbn [run_cb] in H.
  - revert H. apply winv_resume_proc. apply winv_pop_resume, W.
  - injection H as <-. eapply winv_sim; [apply sim_cond_check|]. eapply winv_pop_other; [|exact W]. reflexivity.
  - pose proof (sim_cond_build c s) as S. rewrite H in S. cbn [fst] in S.
    eapply winv_sim; [exact S|]. eapply winv_pop_other; [|exact W]. reflexivity.
  - revert H. apply winv_do_interruption. eapply winv_pop_other; [|exact W]. reflexivity.
  - pose proof (stop_cb_state e s) as S. rewrite H in S. cbn [fst] in S. subst s'.
    eapply winv_pop_other; [|exact W]. reflexivity.
  - injection H as <-. apply (winv_sim (Some (e, t)) None s); [apply sim_same; reflexivity|].
    eapply winv_pop_other; [|exact W]. reflexivity.
Qed.

Lemma winv_chain codes fuel e l1 : forall l2 s s',
  winv (Some (e, l1 ++ l2)) None s -> cb_chain fuel codes e l1 s s' -> winv (Some (e, l2)) None s'.
Proof.
  induction l1 as [|c t IH]; intros l2 s s' W Ch; inversion Ch; subst.
  - exact W.
  - eapply IH; [|eassumption]. eapply winv_run_cb; [exact W|eassumption|assumption].
Qed.

(* ------------------------------------------------------------------------------------------------ *)
(* clean steps: the callback loop ran through all callbacks (the stop callback of run(until) does not end it: what it raises
   is raised after the loop).  An exception escaping from the middle of the loop drops the remaining callbacks:
   DESIGN.md 4 (ii). *)

Definition step_clean (fuel : nat) (codes : list prog) (s : state) : Prop :=
  match pop_min (agenda s) with
  | None => True
  | Some (m, rest) =>
      match get_event (e_ev m) s with
      | None => False
      | Some ev =>
          match cbs ev with
          | None => True
          | Some l => exists s', cb_chain fuel codes (e_ev m) l (loop_start m rest s) s'
          end
      end
  end.

Lemma winv_loop_start m rest s ev l :
  winv None None s -> get_event (e_ev m) s = Some ev -> cbs ev = Some l -> winv (Some (e_ev m, l)) None (loop_start m rest s).
Proof.
  intros W G C. unfold loop_start. eapply winv_open; [|rewrite get_event_pop_state; exact G|exact C].
  apply (winv_sim None None s); [apply sim_same; reflexivity|exact W].
Qed.

Lemma winv_step fuel codes s : winv None None s -> step_clean fuel codes s -> winv None None (fst (step fuel codes s)).
Proof.
  intros W Cl. unfold step_clean in Cl.
  destruct (pop_min (agenda s)) as [[m rest]|] eqn:P; [|unfold step; rewrite P; exact W].
  destruct (get_event (e_ev m) s) as [ev|] eqn:G; [|contradiction].
  destruct (cbs ev) as [l|] eqn:C.
  - destruct Cl as (s' & Ch). rewrite (step_fst_chain _ _ _ _ _ _ _ _ P G C Ch).
    pose proof (winv_loop_start m rest s ev l W G C) as W0.
    apply (winv_close (e_ev m)). eapply (winv_chain codes fuel (e_ev m) l []); [rewrite app_nil_r; exact W0|exact Ch].
  - rewrite (step_processed_twice _ _ _ _ _ _ P G C). cbn [fst].
    apply (winv_sim None None s); [apply sim_same; reflexivity|exact W].
Qed.
