(* Kernel/StopInv.v -- C03, part 2: the state invariants behind the run(until=...) specifications.

     stops_within P s    every pending event that carries a stop callback satisfies P      (no_stop = stops_within (fun _ => False))
     urgent_but x s      every pending urgent entry is due now -- except the entry x (the sentinel of the running
                         run(until=number), due at its horizon)                               (urgent_now = urgent_but None)
     pend_ok s           a triggered, unprocessed event has an agenda entry
     wk P x s            good /\ uinv /\ pend_ok /\ stops_within P /\ urgent_but x
     calm s              wk (fun _ => False) None s

   [wk P x] is kept by every API call, process body and step() (any answer); the step that processes event e removes e from P;
   the step that pops x re-establishes urgent_now.  Hence [calm] holds in every state an execution reaches between two calls
   of run()/step(), as long as no run(until=...) ended with an exception: DESIGN.md section 4, hypothesis (iii), as an
   invariant instead of an assumption ([calm_init], [calm_call], [calm_step], [calm_run_none]; StopSpec.v: a run(until=...)
   that returns leaves a calm state). *)
From Coq Require Import ZArith QArith List Bool Lia Lqa.
From ONL Require Import Kernel.Model Kernel.Keys Kernel.Inv Kernel.Order Kernel.Deliver Kernel.DeliverWf Kernel.StopFrame.
Import ListNotations.

Definition stops_within (P : evid -> Prop) (s : state) : Prop :=
  forall e ev, get_event e s = Some ev -> has_stop ev = true -> P e.
Definition no_stop := stops_within (fun _ => False).

Definition urgent_but (x : option entry) (s : state) : Prop :=
  forall y, In y (agenda s) -> e_prio y = URGENT -> Some y = x \/ e_time y == now s.
Definition urgent_now := urgent_but None.

Definition pend_ok (s : state) : Prop :=
  forall e ev, get_event e s = Some ev -> out ev <> None -> cbs ev <> None -> exists y, In y (agenda s) /\ e_ev y = e.

Definition wk (P : evid -> Prop) (x : option entry) (s : state) : Prop :=
  good s /\ uinv s /\ pend_ok s /\ stops_within P s /\ urgent_but x s.

Definition calm := wk (fun _ => False) None.

Lemma stops_within_weaken (P Q : evid -> Prop) s : (forall e, P e -> Q e) -> stops_within P s -> stops_within Q s.
Proof. intros H S e ev G T. apply H, (S _ _ G T). Qed.

Lemma wk_weaken (P Q : evid -> Prop) x s : (forall e, P e -> Q e) -> wk P x s -> wk Q x s.
Proof.
  intros H (A & B & C & D & E). split; [exact A|]. split; [exact B|]. split; [exact C|]. split; [|exact E].
  eapply stops_within_weaken; eassumption.
Qed.

Lemma calm_init t0 : calm (init_state t0).
Proof.
  split; [apply good_init|]. split; [apply uinv_init|]. split; [|split].
  - intros e ev H. destruct e; discriminate.
  - intros e ev H. destruct e; discriminate.
  - intros y [].
Qed.

(* ---- the frame keeps them ---- *)

Lemma stops_within_sfr P s s' : sfr s s' -> stops_within P s -> stops_within P s'.
Proof. intros (_ & _ & F & _) S e ev' H T. destruct (F _ _ H T) as (ev & H0 & T0). exact (S _ _ H0 T0). Qed.

Lemma urgent_but_sfr x s s' : sfr s s' -> urgent_but x s -> urgent_but x s'.
Proof.
  intros (N & (l & A & U & _) & _) Ux y Hy P. rewrite A in Hy. rewrite N. apply in_app_or in Hy. destruct Hy as [Hy|Hy].
  - exact (Ux _ Hy P).
  - right. exact (proj1 (U _ Hy P)).
Qed.

Lemma pend_ok_sfr s s' : sfr s s' -> grows s s' -> pend_ok s -> pend_ok s'.
Proof.
  intros (_ & (l & A & _ & T) & _) G Pk e ev' H O C. rewrite A.
  destruct (T _ _ H O) as [(ev & H0 & O0)|(y & Hy & E)].
  - destruct (G _ _ H0) as (ev2 & H2 & Le). rewrite H in H2. injection H2 as <-.
    assert (C0 : cbs ev <> None) by (intros N; apply C, (le_cbs _ _ Le), N).
    destruct (Pk _ _ H0 O0 C0) as (y & Hy & E). exists y. split; [apply in_or_app; left; exact Hy|exact E].
  - exists y. split; [apply in_or_app; right; exact Hy|exact E].
Qed.

(* everything below step(): a state transformer that is a frame step in all four senses *)
Definition below (s s' : state) : Prop := ext s s' /\ sfr s s' /\ grows s s' /\ (uinv s -> uinv s').

Lemma wk_below P x s s' : below s s' -> wk P x s -> wk P x s'.
Proof.
  intros (E & F & G & U) (A & B & C & D & K). split; [eapply ext_good; eassumption|]. split; [exact (U B)|].
  split; [eapply pend_ok_sfr; eassumption|]. split; [eapply stops_within_sfr; eassumption|eapply urgent_but_sfr; eassumption].
Qed.

Lemma below_do_call codes c s : below s (fst (do_call codes c s)).
Proof. split; [apply ext_do_call|]. split; [apply sfr_do_call|]. split; [apply grows_do_call|apply uinv_do_call]. Qed.

Lemma below_run_frag {A} codes (f : frag A) s : below s (fst (run_frag codes f s)).
Proof. split; [apply ext_run_frag|]. split; [apply sfr_run_frag|]. split; [apply grows_run_frag|apply uinv_run_frag]. Qed.

Lemma wk_do_call P x codes c s : wk P x s -> wk P x (fst (do_call codes c s)).
Proof. apply wk_below, below_do_call. Qed.

Lemma wk_exec_top {A} P x codes (f : frag A) s : wk P x s -> wk P x (fst (exec_top codes f s)).
Proof. apply wk_below, below_run_frag. Qed.

(* ---- the pop ---- *)

Lemma nodup_eid_eq (l : list entry) a b : NoDup (map e_eid l) -> In a l -> In b l -> e_eid a = e_eid b -> a = b.
Proof.
  induction l as [|z t IH]; intros ND Ha Hb E; [destruct Ha|].
  cbn [map] in ND. inversion ND as [|? ? Hn ND']; subst.
  destruct Ha as [->|Ha], Hb as [->|Hb]; try reflexivity.
  - exfalso. apply Hn. rewrite E. apply in_map, Hb.
  - exfalso. apply Hn. rewrite <- E. apply in_map, Ha.
  - apply IH; assumption.
Qed.

Lemma pop_rest_in s m rest y :
  good s -> pop_min (agenda s) = Some (m, rest) -> In y (agenda s) -> y <> m -> In y rest.
Proof.
  intros (A & _) P Hy N. destruct (pop_min_spec _ _ _ P) as (Hm & -> & _).
  apply remove_eid_keeps; [exact Hy|]. intros E. apply N. eapply nodup_eid_eq; [apply (ok_nodup _ A)|exact Hy|exact Hm|exact E].
Qed.

Lemma pop_rest_not_in s m rest : good s -> pop_min (agenda s) = Some (m, rest) -> ~ In m rest.
Proof.
  intros (A & _) P Hin. destruct (pop_min_spec _ _ _ P) as (Hm & -> & _).
  exact (remove_eid_not_in _ _ (ok_nodup _ A) _ Hin eq_refl).
Qed.

Lemma urgent_but_pop x s m rest :
  good s -> pop_min (agenda s) = Some (m, rest) -> urgent_but x s -> urgent_but x (pop_state m rest s).
Proof.
  intros G P U y Hy Pr. cbn [pop_state add_obs set_agenda set_now agenda now] in *.
  destruct (pop_min_spec _ _ _ P) as (Hm & E & Hle). subst rest.
  pose proof (remove_eid_subset _ _ _ Hy) as Hy0. destruct (U _ Hy0 Pr) as [L|T]; [left; exact L|right].
  destruct G as (A & _). pose proof (ok_time _ A _ Hm) as T1. pose proof (key_le_time _ _ (Hle _ Hy0)) as T2. lra.
Qed.

(* popping the excepted entry itself: nothing urgent is left that is not due at the new instant *)
Lemma urgent_now_pop_x s x rest :
  good s -> pop_min (agenda s) = Some (x, rest) -> urgent_but (Some x) s -> urgent_now (pop_state x rest s).
Proof.
  intros G P U y Hy Pr. right. cbn [pop_state add_obs set_agenda set_now agenda now] in *.
  pose proof (pop_rest_not_in _ _ _ G P) as Nx.
  destruct (pop_min_spec _ _ _ P) as (Hm & E & Hle). subst rest.
  pose proof (remove_eid_subset _ _ _ Hy) as Hy0. destruct (U _ Hy0 Pr) as [L|T].
  - injection L as ->. contradiction.
  - destruct G as (A & _). pose proof (ok_time _ A _ Hm) as T1. pose proof (key_le_time _ _ (Hle _ Hy0)) as T2. lra.
Qed.

Lemma stops_within_events P s s' : events s' = events s -> stops_within P s -> stops_within P s'.
Proof. intros E S e ev H. unfold get_event in H. rewrite E in H. exact (S e ev H). Qed.

(* ---- the middle state of a step: popped, event marked processed ---- *)

Lemma ev_set_cbs_none_id ev : cbs ev = None -> ev_set_cbs None ev = ev.
Proof. destruct ev as [c o d k]. cbn. intros ->. reflexivity. Qed.

Lemma mid_get m rest s e :
  get_event e (mid m rest s) = if Nat.eqb e (e_ev m) then option_map (ev_set_cbs None) (get_event e s) else get_event e s.
Proof.
  unfold mid. destruct (get_event (e_ev m) s) as [ev|] eqn:H.
  - destruct (cbs ev) as [l|] eqn:C.
    + unfold loop_start. rewrite get_upd_event, get_event_pop_state. reflexivity.
    + rewrite get_event_pop_state. destruct (Nat.eqb e (e_ev m)) eqn:E; [|reflexivity].
      apply Nat.eqb_eq in E. subst e. rewrite H. cbn. now rewrite ev_set_cbs_none_id.
  - rewrite get_event_pop_state. destruct (Nat.eqb e (e_ev m)) eqn:E; [|reflexivity].
    apply Nat.eqb_eq in E. subst e. rewrite H. reflexivity.
Qed.

Lemma mid_get_other m rest s e : e <> e_ev m -> get_event e (mid m rest s) = get_event e s.
Proof. intros H. rewrite mid_get. apply Nat.eqb_neq in H. now rewrite H. Qed.

Lemma mid_get_popped m rest s ev : get_event (e_ev m) (mid m rest s) = Some ev -> cbs ev = None.
Proof. rewrite mid_get, Nat.eqb_refl. destruct (get_event (e_ev m) s); cbn; [|discriminate]. intros H; injection H as <-. reflexivity. Qed.

Lemma mid_agenda m rest s : agenda (mid m rest s) = rest.
Proof. unfold mid. destruct (get_event (e_ev m) s) as [ev|]; [destruct (cbs ev)|]; reflexivity. Qed.

Lemma mid_now m rest s : now (mid m rest s) = e_time m.
Proof. unfold mid. destruct (get_event (e_ev m) s) as [ev|]; [destruct (cbs ev)|]; reflexivity. Qed.

Lemma mid_next_eid m rest s : next_eid (mid m rest s) = next_eid s.
Proof. unfold mid. destruct (get_event (e_ev m) s) as [ev|]; [destruct (cbs ev)|]; reflexivity. Qed.

Lemma mid_length m rest s : length (events (mid m rest s)) = length (events s).
Proof. unfold mid. destruct (get_event (e_ev m) s) as [ev|]; [destruct (cbs ev)|]; try reflexivity. cbn. apply upd_nth_length. Qed.

Lemma good_mid m rest s : good s -> pop_min (agenda s) = Some (m, rest) -> good (mid m rest s).
Proof.
  intros G P. pose proof (pop_good _ _ _ G P) as G1. unfold mid.
  destruct (get_event (e_ev m) s) as [ev|]; [|exact G1]. destruct (cbs ev); [|exact G1].
  unfold loop_start. eapply ext_good; [exact G1|apply ext_set_cbs].
Qed.

Lemma uinv_mid m rest s : uinv s -> pop_min (agenda s) = Some (m, rest) -> uinv (mid m rest s).
Proof.
  intros U P. unfold mid. destruct (get_event (e_ev m) s) as [ev|]; [|apply uinv_pop_state; assumption].
  destruct (cbs ev); [apply uinv_loop_start; assumption|apply uinv_pop_state; assumption].
Qed.

Lemma pend_ok_mid m rest s : good s -> pop_min (agenda s) = Some (m, rest) -> pend_ok s -> pend_ok (mid m rest s).
Proof.
  intros G P Pk e ev. rewrite mid_get, mid_agenda. destruct (Nat.eqb e (e_ev m)) eqn:E.
  - destruct (get_event e s) as [ev0|]; cbn; [|discriminate]. intros H; injection H as <-. cbn. intros _ C. contradiction.
  - apply Nat.eqb_neq in E. intros H O C. destruct (Pk _ _ H O C) as (y & Hy & Ey). exists y. split; [|exact Ey].
    eapply pop_rest_in; try eassumption. intros ->. congruence.
Qed.

Lemma stops_within_mid P m rest s : stops_within P s -> stops_within (fun e => P e /\ e <> e_ev m) (mid m rest s).
Proof.
  intros S e ev. rewrite mid_get. destruct (Nat.eqb e (e_ev m)) eqn:E.
  - destruct (get_event e s); cbn; [|discriminate]. intros H; injection H as <-. unfold has_stop. cbn. discriminate.
  - apply Nat.eqb_neq in E. intros H T. split; [exact (S _ _ H T)|exact E].
Qed.

Lemma urgent_but_mid x m rest s :
  good s -> pop_min (agenda s) = Some (m, rest) -> urgent_but x s ->
  urgent_but x (mid m rest s) /\ (x = Some m -> urgent_now (mid m rest s)).
Proof.
  intros G P U. split.
  - pose proof (urgent_but_pop _ _ _ _ G P U) as U1. intros y. rewrite mid_agenda, mid_now. exact (U1 y).
  - intros ->. pose proof (urgent_now_pop_x _ _ _ G P U) as U1. intros y. rewrite mid_agenda, mid_now. exact (U1 y).
Qed.

Lemma wk_mid P x m rest s :
  wk P x s -> pop_min (agenda s) = Some (m, rest) ->
  wk (fun e => P e /\ e <> e_ev m) x (mid m rest s) /\ (x = Some m -> urgent_now (mid m rest s)).
Proof.
  intros (G & U & Pk & Sw & Ub) Pm. destruct (urgent_but_mid _ _ _ _ G Pm Ub) as [U1 U2]. split; [|exact U2].
  split; [apply good_mid; assumption|]. split; [apply uinv_mid; assumption|]. split; [apply pend_ok_mid; assumption|].
  split; [apply stops_within_mid; assumption|exact U1].
Qed.

Lemma below_loop_body fuel codes e l s : below s (fst (run_callbacks fuel codes e l s)).
Proof.
  split; [apply ext_run_callbacks|]. split; [apply sfr_run_callbacks|]. split; [apply grows_run_callbacks|apply uinv_run_callbacks].
Qed.

Lemma below_refl s : below s s.
Proof. split; [apply ext_refl|]. split; [apply sfr_refl|]. split; [apply grows_refl|auto]. Qed.

(* after the middle state a step only does things of the frame *)
Lemma step_below fuel codes s s' r m rest :
  step fuel codes s = (s', r) -> pop_min (agenda s) = Some (m, rest) -> below (mid m rest s) s'.
Proof.
  unfold step, mid. intros H P. rewrite P, get_event_pop_state in H.
  destruct (get_event (e_ev m) s) as [ev|]; [|injection H as <- _; apply below_refl].
  destruct (cbs ev) as [l|]; [|injection H as <- _; apply below_refl].
  fold (loop_start m rest s) in H.
  pose proof (below_loop_body fuel codes (e_ev m) l (loop_start m rest s)) as X.
  destruct (run_callbacks fuel codes (e_ev m) l (loop_start m rest s)) as [s2 r2]. cbn [fst] in X.
  assert (s' = s2) by (destruct r2; injection H as <- _; reflexivity). subst s'. exact X.
Qed.

(* what a step does to the invariant: kept, whatever step() answers; the processed event leaves P *)
Lemma wk_step_gen P x fuel codes s s' r :
  wk P x s -> step fuel codes s = (s', r) ->
  (pop_min (agenda s) = None /\ s' = s /\ r = REmpty) \/
  (exists m rest, pop_min (agenda s) = Some (m, rest) /\
     wk (fun e => P e /\ e <> e_ev m) x s' /\
     (x = Some m -> urgent_now s') /\ now s' = e_time m).
Proof.
  intros W St. destruct (pop_min (agenda s)) as [[m rest]|] eqn:Pm.
  2:{ left. unfold step in St. rewrite Pm in St. injection St as <- <-. auto. }
  right. exists m, rest. split; [reflexivity|].
  destruct (wk_mid _ _ _ _ _ W Pm) as [W1 U1]. pose proof (step_below _ _ _ _ _ _ _ St Pm) as B.
  split; [eapply wk_below; eassumption|]. split.
  - intros E. destruct B as (_ & F & _). eapply urgent_but_sfr; [exact F|exact (U1 E)].
  - destruct B as (_ & (N & _) & _). rewrite N. apply mid_now.
Qed.

Lemma wk_step P x fuel codes s : wk P x s -> wk P x (fst (step fuel codes s)).
Proof.
  intros W. destruct (step fuel codes s) as [s' r] eqn:St. cbn [fst].
  destruct (wk_step_gen _ _ _ _ _ _ _ W St) as [(_ & -> & _)|(m & rest & _ & W' & _)]; [exact W|].
  eapply wk_weaken; [|exact W']. intros e [H _]. exact H.
Qed.

Lemma calm_call codes c s : calm s -> calm (fst (do_call codes c s)).
Proof. apply wk_do_call. Qed.

Lemma calm_exec_top {A} codes (f : frag A) s : calm s -> calm (fst (exec_top codes f s)).
Proof. apply wk_exec_top. Qed.

Lemma calm_step fuel codes s : calm s -> calm (fst (step fuel codes s)).
Proof. apply wk_step. Qed.

Lemma wk_run_loop P x fuel codes u : forall n s, wk P x s -> wk P x (fst (run_loop n fuel codes u s)).
Proof.
  induction n as [|n IH]; intros s W; cbn [run_loop]; [exact W|].
  pose proof (wk_step P x fuel codes s W) as W1. destruct (step fuel codes s) as [s1 r]. cbn [fst] in W1.
  destruct r; try exact W1. apply IH, W1.
Qed.

(* run() without until: calm before, calm after, whatever it answers *)
Lemma calm_run_none fuel codes s : calm s -> calm (fst (run fuel codes UNone s)).
Proof. intros C. unfold run. cbn [run_prelude]. apply wk_run_loop, C. Qed.
