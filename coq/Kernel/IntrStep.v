(* Kernel/IntrStep.v -- the invariant of Kernel/IntrInv.v through Process._resume, Interruption._interrupt, the
   callback loop and Environment.step; reachable states.

   Main statements
     inv_resume_loop      a resumption that ends normally (the process waits again or has ended) re-establishes the
                          invariant with nobody running
     inv_pop              popping the minimum entry: its callbacks become the pending list
     inv_do_interruption  Interruption._interrupt
     inv_run_callbacks    the callback loop, when it is not cut short by an escaping exception ([loop_clean])
     good_step            [good] is preserved by every clean step
     reach / reach_good   states reachable from init_state by module-level code, run() preludes and clean steps *)
From Coq Require Import ZArith QArith List Bool Lia Lqa.
From ONL Require Import Kernel.Model Kernel.Keys Kernel.IntrBase Kernel.IntrInv.
Import ListNotations.

Lemma invA_frame s s' :
  events s' = events s -> agenda s' = agenda s -> now s' = now s -> next_eid s' = next_eid s -> invA s -> invA s'.
Proof. destruct s, s'. cbn. intros -> -> -> ->. intros [A B C D E F G]. constructor; assumption. Qed.

(* ------------------------------------------------------------------------------------------------ *)
(* process records: only pev and ptarget matter *)

Definition pr_rel (a b : option procrec) : Prop :=
  match a, b with
  | Some x, Some y => pev y = pev x /\ ptarget y = ptarget x
  | None, None => True
  | _, _ => False
  end.

Lemma inv_procs_rel run pe pend s s' :
  events s' = events s -> agenda s' = agenda s -> now s' = now s -> next_eid s' = next_eid s ->
  (forall q, pr_rel (get_proc q s) (get_proc q s')) ->
  inv run pe pend s -> inv run pe pend s'.
Proof.
  intros He Ha Hn Hi HP (HS & HC & HA).
  assert (GE : forall e, get_event e s' = get_event e s) by (intros e; unfold get_event; rewrite He; reflexivity).
  assert (FW : forall q pr, get_proc q s = Some pr -> exists pr', get_proc q s' = Some pr' /\ pev pr' = pev pr /\ ptarget pr' = ptarget pr).
  { intros q pr H. specialize (HP q). unfold pr_rel in HP. rewrite H in HP. destruct (get_proc q s') as [pr'|]; [|contradiction]. exists pr'. split; [reflexivity|exact HP]. }
  assert (BW : forall q pr', get_proc q s' = Some pr' -> exists pr, get_proc q s = Some pr /\ pev pr' = pev pr /\ ptarget pr' = ptarget pr).
  { intros q pr' H. specialize (HP q). unfold pr_rel in HP. rewrite H in HP. destruct (get_proc q s) as [pr|]; [|contradiction]. exists pr. split; [reflexivity|exact HP]. }
  split; [|split].
  - destruct HS as [A B C D E F0]. constructor.
    + intros p pr' H. destruct (BW _ _ H) as (pr & H0 & P1 & _). rewrite GE, P1. apply (A _ _ H0).
    + intros e ev p H K. rewrite GE in H. destruct (B _ _ _ H K) as (pr & H0 & P0).
      destruct (FW _ _ H0) as (pr' & H1 & P1 & _). exists pr'. split; [exact H1|congruence].
    + intros i ev p H K. rewrite GE in H. destruct (C _ _ _ H K) as ((pr & C1) & C2). split; [|exact C2].
      destruct (FW _ _ C1) as (pr' & H1 & _). exists pr'. exact H1.
    + intros i ev p H K. rewrite GE in H. destruct (D _ _ _ H K) as ((pr & C1) & C2). split; [|exact C2].
      destruct (FW _ _ C1) as (pr' & H1 & _). exists pr'. exact H1.
    + intros p pr' t H T. destruct (BW _ _ H) as (pr & H0 & _ & P2). rewrite GE. apply (E _ _ _ H0). congruence.
    + intros p pr' H. destruct (BW _ _ H) as (pr & H0 & P1 & _). rewrite GE, P1. apply (F0 _ _ H0).
  - destruct HC as [A B C D E R0]. constructor.
    + intros e ev l i H. rewrite GE in H. apply A, H.
    + intros i Hin. rewrite GE. apply B, Hin.
    + intros e ev l p H Cl Hin. rewrite GE in H. destruct (C _ _ _ _ H Cl Hin) as ((pr & C1 & C2) & C3).
      split; [|exact C3]. destruct (FW _ _ C1) as (pr' & H1 & _ & P2). exists pr'. split; [exact H1|congruence].
    + intros p Hin. rewrite GE. destruct (D _ Hin) as ((pr & C1 & C2) & C3).
      split; [|exact C3]. destruct (FW _ _ C1) as (pr' & H1 & _ & P2). exists pr'. split; [exact H1|congruence].
    + intros p pr' ev Hp H O R. destruct (BW _ _ Hp) as (pr & H0 & P1 & P2). rewrite GE, P1 in H.
      destruct (E _ _ _ H0 H O R) as [E1|(t & tev & l & E1 & E2 & E3 & E4)]; [left; exact E1|right].
      exists t, tev, l. rewrite GE. split; [congruence|auto].
    + intros r Hr. destruct (R0 _ Hr) as (pr & H0). destruct (FW _ _ H0) as (pr' & H1 & _). exists pr'. exact H1.
  - eapply invA_frame; eassumption.
Qed.

Lemma inv_put_proc run pe pend p pr' s pr0 :
  get_proc p s = Some pr0 -> pev pr' = pev pr0 -> ptarget pr' = ptarget pr0 ->
  inv run pe pend s -> inv run pe pend (put_proc p pr' s).
Proof.
  intros H P1 P2. apply inv_procs_rel; try reflexivity.
  intros q. unfold put_proc. rewrite get_proc_upd. destruct (Nat.eqb q p) eqn:E.
  - apply Nat.eqb_eq in E. subst q. rewrite H. cbn. auto.
  - destruct (get_proc q s); cbn; auto.
Qed.

(* changing the target of a process: the structure group *)
Lemma invS_set_target p tg s :
  (forall t, tg = Some t -> exists tev, get_event t s = Some tev) ->
  invS s -> invS (upd_proc p (proc_set_target tg) s).
Proof.
  intros Ht [A B C D E F0].
  assert (GP : forall q pr', get_proc q (upd_proc p (proc_set_target tg) s) = Some pr' ->
               exists pr, get_proc q s = Some pr /\ pev pr' = pev pr /\ (q <> p -> pr' = pr) /\ (q = p -> ptarget pr' = tg)).
  { intros q pr'. rewrite get_proc_upd. destruct (Nat.eqb q p) eqn:Eq.
    - apply Nat.eqb_eq in Eq. destruct (get_proc q s) as [pr|]; cbn; [|discriminate]. intros H; injection H as <-.
      exists pr. repeat split; auto. intros N. contradiction.
    - apply Nat.eqb_neq in Eq. intros H. exists pr'. repeat split; auto. intros N. contradiction. }
  assert (FW : forall q pr, get_proc q s = Some pr -> exists pr', get_proc q (upd_proc p (proc_set_target tg) s) = Some pr' /\ pev pr' = pev pr).
  { intros q pr H. rewrite get_proc_upd. destruct (Nat.eqb q p); rewrite H; cbn; eexists; split; reflexivity. }
  constructor.
  - intros q pr' H. destruct (GP _ _ H) as (pr & H0 & P1 & _). rewrite P1. apply (A _ _ H0).
  - intros e ev q H K. destruct (B _ _ _ H K) as (pr & H0 & P0). destruct (FW _ _ H0) as (pr' & H1 & P1).
    exists pr'. split; [exact H1|congruence].
  - intros i ev q H K. destruct (C _ _ _ H K) as ((pr & C1) & C2). split; [|exact C2].
    destruct (FW _ _ C1) as (pr' & H1 & _). exists pr'. exact H1.
  - intros i ev q H K. destruct (D _ _ _ H K) as ((pr & C1) & C2). split; [|exact C2].
    destruct (FW _ _ C1) as (pr' & H1 & _). exists pr'. exact H1.
  - intros q pr' t H T. destruct (GP _ _ H) as (pr & H0 & _ & P2 & P3).
    destruct (Nat.eq_dec q p) as [->|N].
    + apply Ht. rewrite <- (P3 eq_refl). exact T.
    + rewrite (P2 N) in T. apply (E _ _ _ H0 T).
  - intros q pr' H. destruct (GP _ _ H) as (pr & H0 & P1 & _). rewrite P1. apply (F0 _ _ H0).
Qed.

(* ------------------------------------------------------------------------------------------------ *)
(* the process ends *)

Lemma invC_finish pe pend p s :
  (forall pr ev, get_proc p s = Some pr -> get_event (pev pr) s = Some ev -> out ev <> None) ->
  invC (Some p) pe pend s -> invC None pe pend (upd_proc p (proc_set_target None) s).
Proof.
  intros Dead [A B C D E R0].
  assert (OTH : forall q, q <> p -> get_proc q (upd_proc p (proc_set_target None) s) = get_proc q s).
  { intros q N. rewrite get_proc_upd. apply Nat.eqb_neq in N. rewrite N. reflexivity. }
  constructor.
  - exact A.
  - exact B.
  - intros e ev l q H Cl Hin. destruct (C _ _ _ _ H Cl Hin) as (C1 & C2 & C3 & C4).
    assert (N : q <> p) by congruence. rewrite (OTH _ N). repeat split; auto. discriminate.
  - intros q Hin. destruct (D _ Hin) as (D1 & D2 & D3 & D4).
    assert (N : q <> p) by congruence. rewrite (OTH _ N). repeat split; auto. discriminate.
  - intros q pr' ev Hq H O _. destruct (Nat.eq_dec q p) as [->|N].
    + exfalso. rewrite get_proc_upd, Nat.eqb_refl in Hq. destruct (get_proc p s) as [pr|] eqn:Hp; [|discriminate].
      cbn in Hq. injection Hq as <-. cbn [proc_set_target pev] in H. exact (Dead _ _ eq_refl H O).
    + rewrite (OTH _ N) in Hq. apply (E _ _ _ Hq H O). congruence.
  - discriminate.
Qed.

Lemma inv_proc_finish pe pend p pr o s :
  get_proc p s = Some pr -> inv (Some p) pe pend s -> inv None pe pend (proc_finish p pr o s).
Proof.
  intros Hp I. unfold proc_finish. apply inv_set_active.
  destruct (iS_pev _ (proj1 I) _ _ Hp) as (pev0 & Hev & Kev).
  assert (I1 : inv (Some p) pe pend (trigger_event (pev pr) o s)).
  { eapply inv_trigger; [exact Hev| |exact I]. rewrite Kev. reflexivity. }
  destruct I1 as (HS & HC & HA). split; [|split].
  - apply invS_set_target; [discriminate|exact HS].
  - apply invC_finish; [|exact HC]. intros pr' ev H H'.
    change (get_proc p s = Some pr') in H. rewrite Hp in H. injection H as <-.
    unfold trigger_event in H'. change (get_event (pev pr) (upd_event (pev pr) (ev_set_out (Some o)) s) = Some ev) in H'.
    rewrite (get_event_upd_same _ _ _ _ Hev) in H'. injection H' as <-. cbn. discriminate.
  - eapply invA_frame; [| | | |exact HA]; reflexivity.
Qed.

(* ------------------------------------------------------------------------------------------------ *)
(* the process waits for a pending event *)

Lemma ev_step0_set_cbs ev l l' :
  cbs ev = Some l ->
  (urgent_kind (kind ev) = true -> forall c r, l = c :: r -> is_core c = true -> exists r', l' = c :: r') ->
  ev_step0 ev (ev_set_cbs (Some l') ev).
Proof.
  intros C H. split; [reflexivity|]. split; [auto|]. split.
  - intros U. split; [reflexivity|]. split; [auto|]. intros c r Hc Ic. rewrite C in Hc. injection Hc as ->.
    destruct (H U _ _ eq_refl Ic) as (r' & ->). exists r'. reflexivity.
  - cbn. rewrite C. split; discriminate.
Qed.

Lemma es0_upd_event e f s :
  (forall ev, get_event e s = Some ev -> ev_step0 ev (f ev)) -> evs_step0 s (upd_event e f s).
Proof.
  intros Hf. constructor; try reflexivity.
  - apply events_length_upd.
  - intros e0 ev H. rewrite get_event_upd. destruct (Nat.eqb e0 e) eqn:E.
    + apply Nat.eqb_eq in E. subst e0. rewrite H. cbn. exists (f ev). split; [reflexivity|apply Hf, H].
    + exists ev. split; [exact H|apply ev_step0_refl].
Qed.

Lemma cnt_resume_snoc_other p q l : q <> p -> cnt (CbResume q) (l ++ [CbResume p]) = cnt (CbResume q) l.
Proof.
  intros N. rewrite cnt_app, cnt_single.
  assert (cb_eqb (CbResume p) (CbResume q) = false) as -> by (apply cb_eqb_neq; congruence). lia.
Qed.

Lemma inv_proc_wait pe pend p e' s pr ev' l :
  get_proc p s = Some pr -> get_event e' s = Some ev' -> cbs ev' = Some l ->
  inv (Some p) pe pend s -> inv None pe pend (proc_wait p e' s).
Proof.
  intros Hp He Cl (HS & HC & HA). unfold proc_wait. apply inv_set_active.
  set (sa := add_callback e' (CbResume p) s).
  assert (SA : sa = upd_event e' (ev_set_cbs (Some (l ++ [CbResume p]))) s).
  { unfold sa, add_callback, upd_event. f_equal.
    clear -He Cl. unfold get_event in He. revert e' He. generalize (events s) as evs.
    induction evs as [|x t IH]; intros [|e'] He; cbn in *; try discriminate.
    - injection He as ->. unfold ev_add_cb. rewrite Cl. reflexivity.
    - f_equal. apply IH, He. }
  assert (X0 : evs_step0 s sa).
  { rewrite SA. apply es0_upd_event. intros ev H. rewrite He in H. injection H as <-.
    apply (ev_step0_set_cbs _ l); [exact Cl|]. intros _ c r -> _. exists (r ++ [CbResume p]). reflexivity. }
  assert (GE : forall e, get_event e sa = if Nat.eqb e e' then Some (ev_set_cbs (Some (l ++ [CbResume p])) ev') else get_event e s).
  { intros e. rewrite SA, get_event_upd. destruct (Nat.eqb e e') eqn:E; [|reflexivity].
    apply Nat.eqb_eq in E. subst e. rewrite He. reflexivity. }
  assert (NOP : forall e ev l0, get_event e s = Some ev -> cbs ev = Some l0 -> ~ In (CbResume p) l0).
  { intros e ev l0 H C Hin. destruct (iC_res _ _ _ _ HC _ _ _ _ H C Hin) as (_ & _ & R & _). congruence. }
  assert (NOPP : ~ In (CbResume p) pend).
  { intros Hin. destruct (iC_res_pend _ _ _ _ HC _ Hin) as (_ & _ & R & _). congruence. }
  split; [|split].
  - apply invS_set_target; [|eapply invS_es0; eassumption].
    intros t Ht. injection Ht as <-. rewrite GE, Nat.eqb_refl. eexists. reflexivity.
  - destruct HC as [A B C D E R0].
    set (s' := upd_proc p (proc_set_target (Some e')) sa).
    assert (GP : forall q, get_proc q s' = if Nat.eqb q p then Some (proc_set_target (Some e') pr) else get_proc q s).
    { intros q. unfold s'. rewrite get_proc_upd. change (get_proc q sa) with (get_proc q s).
      destruct (Nat.eqb q p) eqn:Eq; [|reflexivity]. apply Nat.eqb_eq in Eq. subst q. rewrite Hp. reflexivity. }
    assert (GE' : forall e, get_event e s' = get_event e sa) by reflexivity.
    constructor.
    + intros e ev l0 i H C0 Hin. rewrite GE', GE in H. destruct (Nat.eqb e e') eqn:Ee.
      * apply Nat.eqb_eq in Ee. subst e. injection H as <-. cbn in C0. injection C0 as <-.
        apply in_snoc in Hin. destruct Hin as [Hin|Hin]; [|discriminate].
        destruct (A _ _ _ _ He Cl Hin) as (A1 & A2 & A3). split; [exact A1|]. split; [|exact A3].
        rewrite cnt_app, cnt_single. cbn. lia.
      * eapply A; eassumption.
    + intros i Hin. destruct (B _ Hin) as (B1 & B2 & (ev & q & B3 & B4)). split; [exact B1|]. split; [exact B2|].
      rewrite GE', GE. destruct (Nat.eqb pe e') eqn:Ee.
      * apply Nat.eqb_eq in Ee. rewrite Ee, He in B3. injection B3 as <-. eexists _, q. split; [reflexivity|exact B4].
      * exists ev, q. auto.
    + intros e ev l0 q H C0 Hin. rewrite GE', GE in H. destruct (Nat.eqb e e') eqn:Ee.
      * apply Nat.eqb_eq in Ee. subst e. injection H as <-. cbn in C0. injection C0 as <-.
        apply in_snoc in Hin. destruct Hin as [Hin|Hin].
        -- destruct (C _ _ _ _ He Cl Hin) as ((pr0 & C1 & C2) & C3 & C4 & C5).
           assert (N : q <> p) by congruence. rewrite GP. apply Nat.eqb_neq in N. rewrite N.
           split; [exists pr0; auto|]. split; [rewrite cnt_resume_snoc_other by (apply Nat.eqb_neq; exact N); exact C3|].
           split; [discriminate|exact C5].
        -- injection Hin as ->. rewrite GP, Nat.eqb_refl. split; [eexists; split; reflexivity|].
           split; [|split; [discriminate|exact NOPP]].
           rewrite cnt_app, cnt_single, cb_eqb_refl. apply (NOP _ _ _ He) in Cl. apply cnt_zero in Cl. lia.
      * destruct (C _ _ _ _ H C0 Hin) as ((pr0 & C1 & C2) & C3 & C4 & C5).
        assert (N : q <> p) by congruence. rewrite GP. apply Nat.eqb_neq in N. rewrite N.
        split; [exists pr0; auto|]. split; [exact C3|]. split; [discriminate|exact C5].
    + intros q Hin. destruct (D _ Hin) as ((pr0 & D1 & D2) & D3 & D4 & (ev & D5 & D6)).
      assert (N : q <> p) by congruence. rewrite GP. apply Nat.eqb_neq in N. rewrite N.
      split; [exists pr0; auto|]. split; [exact D3|]. split; [discriminate|].
      rewrite GE', GE. destruct (Nat.eqb pe e') eqn:Ee.
      * apply Nat.eqb_eq in Ee. rewrite Ee, He in D5. injection D5 as <-. congruence.
      * exists ev. auto.
    + intros q pr' ev Hq H O _. rewrite GP in Hq. destruct (Nat.eqb q p) eqn:Eq.
      * apply Nat.eqb_eq in Eq. subst q. injection Hq as <-. right.
        exists e', (ev_set_cbs (Some (l ++ [CbResume p])) ev'), (l ++ [CbResume p]).
        split; [reflexivity|]. split; [rewrite GE', GE, Nat.eqb_refl; reflexivity|]. split; [reflexivity|].
        apply in_snoc. right. reflexivity.
      * apply Nat.eqb_neq in Eq.
        assert (H' : exists ev0, get_event (pev pr') s = Some ev0 /\ out ev0 = None).
        { rewrite GE', GE in H. destruct (Nat.eqb (pev pr') e') eqn:Ee.
          - apply Nat.eqb_eq in Ee. rewrite Ee. injection H as <-. exists ev'. split; [exact He|exact O].
          - exists ev. auto. }
        destruct H' as (ev0 & H0 & O0).
        destruct (E _ _ _ Hq H0 O0) as [E1|(t & tev & l0 & E1 & E2 & E3 & E4)]; [congruence|left; exact E1|right].
        destruct (Nat.eqb t e') eqn:Et.
        -- apply Nat.eqb_eq in Et. subst t. rewrite He in E2. injection E2 as <-. rewrite Cl in E3. injection E3 as <-.
           exists e', (ev_set_cbs (Some (l ++ [CbResume p])) ev'), (l ++ [CbResume p]).
           split; [exact E1|]. split; [rewrite GE', GE, Nat.eqb_refl; reflexivity|]. split; [reflexivity|].
           apply in_snoc. left. exact E4.
        -- exists t, tev, l0. split; [exact E1|]. split; [rewrite GE', GE, Et; exact E2|]. auto.
    + discriminate.
  - eapply invA_frame; [| | | |eapply invA_es0; [exact X0|exact HA]]; reflexivity.
Qed.

(* ------------------------------------------------------------------------------------------------ *)
(* Process._resume *)

Lemma resume_loop_not_stop codes fuel : forall p e s v, snd (resume_loop fuel codes p e s) <> RStop v.
Proof.
  induction fuel as [|f IH]; intros p e s v; cbn [resume_loop]; [discriminate|].
  destruct (get_event e s) as [ev|]; [|discriminate].
  destruct (get_proc p s) as [pr|]; [|discriminate].
  destruct (out ev) as [o|]; [|discriminate].
  destruct (run_frag codes (resume (pcode pr) (pst pr) o) _) as [s2 fr].
  destruct fr as [v0 a|v0|x]; try discriminate.
  destruct v0; try discriminate.
  destruct (get_event e0 _) as [ev'|]; [|discriminate].
  destruct (is_processed ev'); [apply IH|discriminate].
Qed.

Lemma inv_resume_loop codes pe pend fuel : forall p e s s' r,
  inv (Some p) pe pend s -> resume_loop fuel codes p e s = (s', r) -> r = ROk -> inv None pe pend s'.
Proof.
  induction fuel as [|f IH]; intros p e s s' r I; cbn [resume_loop].
  - intros H; injection H as <- <-. discriminate.
  - destruct (get_event e s) as [ev|]; [|intros H; injection H as <- <-; discriminate].
    destruct (get_proc p s) as [pr|] eqn:Hp; [|intros H; injection H as <- <-; discriminate].
    destruct (out ev) as [o|]; [|intros H; injection H as <- <-; discriminate].
    set (s1 := match o with Fail _ => upd_event e ev_set_defused s | Ok _ => s end).
    assert (I1 : inv (Some p) pe pend s1) by (subst s1; destruct o; [exact I|apply inv_set_defused, I]).
    assert (Hp1 : get_proc p s1 = Some pr) by (subst s1; destruct o; exact Hp).
    pose proof (inv_run_frag (Some p) pe pend codes (resume (pcode pr) (pst pr) o) s1 I1) as I2.
    pose proof (mono_run_frag Tnone codes (resume (pcode pr) (pst pr) o) s1 (iS_pev _ (proj1 I1))) as M2.
    destruct (run_frag codes (resume (pcode pr) (pst pr) o) s1) as [s2 fr]. cbn [fst] in *.
    assert (Hp2 : get_proc p s2 = Some pr).
    { destruct (m_pr _ _ _ M2 _ _ Hp1) as (pr' & H1 & _ & H2). rewrite H1. f_equal. apply H2. intros []. }
    destruct fr as [v a|v|x].
    + set (s3 := put_proc p (proc_set_st pr a) s2).
      assert (I3 : inv (Some p) pe pend s3) by (apply (inv_put_proc _ _ _ _ _ _ pr); [exact Hp2|reflexivity|reflexivity|exact I2]).
      assert (Hp3 : get_proc p s3 = Some (proc_set_st pr a)).
      { unfold s3, put_proc. rewrite get_proc_upd, Nat.eqb_refl, Hp2. reflexivity. }
      destruct v; try (intros H; injection H as <- <-; discriminate).
      destruct (get_event e0 s3) as [ev'|] eqn:He'; [|intros H; injection H as <- <-; discriminate].
      destruct (is_processed ev') eqn:P.
      * apply IH, I3.
      * intros H; injection H as <- <-. intros _. unfold is_processed in P. destruct (cbs ev') as [l|] eqn:Cl; [|discriminate].
        eapply inv_proc_wait; eassumption.
    + intros H; injection H as <- <-. intros _. apply inv_proc_finish; assumption.
    + intros H; injection H as <- <-. intros _. apply inv_proc_finish; assumption.
Qed.

(* ------------------------------------------------------------------------------------------------ *)
(* the pending list *)

Lemma invC_start pe p t s : invC None pe (CbResume p :: t) s -> invC (Some p) pe t s.
Proof.
  intros [A B C D E R0].
  assert (NP : ~ In (CbResume p) t).
  { destruct (D p (or_introl eq_refl)) as (_ & D2 & _). cbn [cnt] in D2. rewrite cb_eqb_refl in D2.
    apply cnt_zero. lia. }
  constructor.
  - exact A.
  - intros i Hin. destruct (B i (or_intror Hin)) as (B1 & B2 & B3). split; [exact B1|]. split; [|exact B3].
    cbn [cnt] in B2. cbn in B2. exact B2.
  - intros e ev l q H Cl Hin. destruct (C _ _ _ _ H Cl Hin) as (C1 & C2 & C3 & C4). repeat split; auto.
    + intros X. injection X as ->. apply C4. left. reflexivity.
    + intros X. apply C4. right. exact X.
  - intros q Hin. destruct (D q (or_intror Hin)) as (D1 & D2 & D3 & D4).
    assert (N : q <> p) by (intros ->; contradiction).
    split; [exact D1|]. split; [|split; [congruence|exact D4]].
    cbn [cnt] in D2. assert (cb_eqb (CbResume p) (CbResume q) = false) as X by (apply cb_eqb_neq; congruence).
    rewrite X in D2. exact D2.
  - intros q pr ev Hq H O R. destruct (E _ _ _ Hq H O) as [E1|E1]; [discriminate| |right; exact E1].
    destruct E1 as [E1|E1]; [injection E1 as ->; congruence|left; exact E1].
  - intros r Hr. injection Hr as <-. destruct (D p (or_introl eq_refl)) as ((pr & D1 & _) & _). exists pr. exact D1.
Qed.

Lemma invC_drop run pe c t s : (forall p, c <> CbResume p) -> invC run pe (c :: t) s -> invC run pe t s.
Proof.
  intros NC [A B C D E R0]. constructor.
  - exact A.
  - intros i Hin. destruct (B i (or_intror Hin)) as (B1 & B2 & B3). split; [exact B1|]. split; [|exact B3].
    cbn [cnt] in B2. destruct (cb_eqb c (CbInterrupt i)) eqn:X; [|exact B2].
    apply cnt_pos in Hin. lia.
  - intros e ev l q H Cl Hin. destruct (C _ _ _ _ H Cl Hin) as (C1 & C2 & C3 & C4). repeat split; auto.
    intros X. apply C4. right. exact X.
  - intros q Hin. destruct (D q (or_intror Hin)) as (D1 & D2 & D3 & D4). repeat split; auto.
    cbn [cnt] in D2. assert (cb_eqb c (CbResume q) = false) as X by (apply cb_eqb_neq, NC). rewrite X in D2. exact D2.
  - intros q pr ev Hq H O R. destruct (E _ _ _ Hq H O R) as [E1|E1]; [|right; exact E1].
    destruct E1 as [E1|E1]; [exfalso; exact (NC _ E1)|left; exact E1].
  - exact R0.
Qed.

Lemma invC_drop_all run pe t s : (forall p, ~ In (CbResume p) t) -> invC run pe t s -> invC run 0%nat [] s.
Proof.
  intros NC [A B C D E R0]. constructor.
  - exact A.
  - intros i [].
  - intros e ev l q H Cl Hin. destruct (C _ _ _ _ H Cl Hin) as (C1 & C2 & C3 & C4). repeat split; auto.
  - intros q [].
  - intros q pr ev Hq H O R. destruct (E _ _ _ Hq H O R) as [E1|E1]; [exfalso; exact (NC _ E1)|right; exact E1].
  - exact R0.
Qed.

Lemma inv_drop run pe c t s : (forall p, c <> CbResume p) -> inv run pe (c :: t) s -> inv run pe t s.
Proof. intros NC (HS & HC & HA). split; [exact HS|]. split; [eapply invC_drop; eassumption|exact HA]. Qed.

Lemma inv_drop_all run pe t s : (forall p, ~ In (CbResume p) t) -> inv run pe t s -> inv run 0%nat [] s.
Proof. intros NC (HS & HC & HA). split; [exact HS|]. split; [eapply invC_drop_all; eassumption|exact HA]. Qed.

(* ------------------------------------------------------------------------------------------------ *)
(* popping the minimum entry *)

Lemma nodup_eid_inj l x y : NoDup (map e_eid l) -> In x l -> In y l -> e_eid x = e_eid y -> x = y.
Proof.
  induction l as [|a t IH]; cbn [map In]; [tauto|]. intros ND Hx Hy E. inversion ND as [|? ? Hn ND']; subst.
  destruct Hx as [->|Hx], Hy as [->|Hy]; auto.
  - exfalso. apply Hn. rewrite E. apply in_map, Hy.
  - exfalso. apply Hn. rewrite <- E. apply in_map, Hx.
Qed.

Lemma key_le_time a b : key_le a b -> e_time a <= e_time b.
Proof. unfold key_le. intros [H|[H _]]; lra. Qed.

Lemma inv_pop s m rest ev l :
  good s -> pop_min (agenda s) = Some (m, rest) -> get_event (e_ev m) s = Some ev -> cbs ev = Some l ->
  inv None (e_ev m) l (upd_event (e_ev m) (ev_set_cbs None) (pop_state m rest s)).
Proof.
  intros (HS & HC & HA) HP Hev Cl.
  destruct (pop_min_spec _ _ _ HP) as (Hm & Hrest & Hmin).
  set (e := e_ev m) in *. set (s1 := upd_event e (ev_set_cbs None) (pop_state m rest s)).
  assert (GE : forall e0, get_event e0 s1 = if Nat.eqb e0 e then Some (ev_set_cbs None ev) else get_event e0 s).
  { intros e0. unfold s1. rewrite get_event_upd. change (get_event e0 (pop_state m rest s)) with (get_event e0 s).
    destruct (Nat.eqb e0 e) eqn:E; [|reflexivity]. apply Nat.eqb_eq in E. subst e0. rewrite Hev. reflexivity. }
  assert (BW : forall e0 ev0, get_event e0 s1 = Some ev0 ->
            exists ev1, get_event e0 s = Some ev1 /\ kind ev0 = kind ev1 /\ out ev0 = out ev1 /\ defused ev0 = defused ev1 /\
                        ((e0 = e /\ cbs ev0 = None /\ ev1 = ev) \/ (e0 <> e /\ ev0 = ev1))).
  { intros e0 ev0. rewrite GE. destruct (Nat.eqb e0 e) eqn:E.
    - apply Nat.eqb_eq in E. subst e0. intros H; injection H as <-. exists ev. repeat split; auto.
    - apply Nat.eqb_neq in E. intros H. exists ev0. repeat split; auto. }
  assert (FW : forall e0 ev1, get_event e0 s = Some ev1 ->
            exists ev0, get_event e0 s1 = Some ev0 /\ kind ev0 = kind ev1 /\ (e0 <> e -> ev0 = ev1) /\ (e0 = e -> cbs ev0 = None)).
  { intros e0 ev1 H. rewrite GE. destruct (Nat.eqb e0 e) eqn:E.
    - apply Nat.eqb_eq in E. subst e0. rewrite Hev in H. injection H as <-. eexists. repeat split; auto. intros N; contradiction.
    - apply Nat.eqb_neq in E. exists ev1. repeat split; auto. intros N; contradiction. }
  assert (GP : forall q, get_proc q s1 = get_proc q s) by reflexivity.
  split; [|split].
  - destruct HS as [A B C D E F0]. constructor.
    + intros p pr H. rewrite GP in H. destruct (A _ _ H) as (ev1 & H1 & K1). destruct (FW _ _ H1) as (ev0 & H0 & K0 & _).
      exists ev0. split; [exact H0|congruence].
    + intros e0 ev0 p H K. destruct (BW _ _ H) as (ev1 & H1 & K1 & _). rewrite GP. apply (B _ _ _ H1). congruence.
    + intros i ev0 p H K. destruct (BW _ _ H) as (ev1 & H1 & K1 & O1 & D1 & X). rewrite K1 in K.
      destruct (C _ _ _ H1 K) as (C1 & (c & C2) & C3 & C4). split; [exact C1|]. split; [exists c; congruence|].
      split; [congruence|]. destruct X as [(_ & X & _)|(_ & ->)]; [left; exact X|exact C4].
    + intros i ev0 p H K. destruct (BW _ _ H) as (ev1 & H1 & K1 & O1 & D1 & X). rewrite K1 in K.
      destruct (D _ _ _ H1 K) as (C1 & C2 & C4). split; [exact C1|]. split; [congruence|].
      destruct X as [(_ & X & _)|(_ & ->)]; [left; exact X|exact C4].
    + intros p pr t H T. rewrite GP in H. destruct (E _ _ _ H T) as (tev & H1). destruct (FW _ _ H1) as (ev0 & H0 & _).
      exists ev0. exact H0.
    + intros p pr H. rewrite GP in H. destruct (F0 _ _ H) as (iev & H1 & K1). destruct (FW _ _ H1) as (ev0 & H0 & K0 & _).
      exists ev0. split; [exact H0|congruence].
  - destruct HC as [A B C D E R0]. constructor.
    + intros e0 ev0 l0 i H C0 Hin. destruct (BW _ _ H) as (ev1 & H1 & K1 & _ & _ & [(_ & X & _)|(_ & ->)]); [congruence|].
      eapply A; eassumption.
    + intros i Hin. destruct (A _ _ _ _ Hev Cl Hin) as (A1 & A2 & (p & A3)). split; [auto|]. split; [exact A2|].
      destruct (FW _ _ Hev) as (ev0 & H0 & K0 & _). exists ev0, p. split; [exact H0|congruence].
    + intros e0 ev0 l0 p H C0 Hin. destruct (BW _ _ H) as (ev1 & H1 & K1 & _ & _ & [(_ & X & _)|(N & ->)]); [congruence|].
      destruct (C _ _ _ _ H1 C0 Hin) as ((pr & C1 & C2) & C3 & C4 & C5). rewrite GP.
      split; [exists pr; auto|]. split; [exact C3|]. split; [exact C4|].
      intros Hin'. destruct (C _ _ _ _ Hev Cl Hin') as ((pr' & C1' & C2') & _). congruence.
    + intros p Hin. destruct (C _ _ _ _ Hev Cl Hin) as ((pr & C1 & C2) & C3 & C4 & C5). rewrite GP.
      split; [exists pr; auto|]. split; [exact C3|]. split; [exact C4|].
      destruct (FW _ _ Hev) as (ev0 & H0 & _ & _ & X). exists ev0. auto.
    + intros p pr ev0 Hp H O R. rewrite GP in Hp. destruct (BW _ _ H) as (ev1 & H1 & _ & O1 & _).
      destruct (E _ _ _ Hp H1) as [[]|(t & tev & l0 & E1 & E2 & E3 & E4)]; [congruence|exact R|].
      destruct (Nat.eq_dec t e) as [->|N].
      * left. rewrite Hev in E2. injection E2 as <-. congruence.
      * right. destruct (FW _ _ E2) as (ev2 & H2 & _ & X & _). rewrite (X N) in H2. exists t, tev, l0. auto.
    + discriminate.
  - destruct HA as [A B C D E F G].
    assert (SUB : forall x, In x rest -> In x (agenda s)) by (intros x Hx; rewrite Hrest in Hx; eapply remove_eid_subset, Hx).
    assert (NEQ : forall x, In x rest -> e_eid x <> e_eid m) by (intros x Hx; rewrite Hrest in Hx; eapply remove_eid_not_in; eassumption).
    assert (Ag : agenda s1 = rest) by reflexivity. assert (Nw : now s1 = e_time m) by reflexivity.
    assert (Ne : next_eid s1 = next_eid s) by reflexivity.
    assert (NE : forall x, In x rest -> forall evx, get_event (e_ev x) s = Some evx -> urgent_kind (kind evx) = true -> e_ev x <> e).
    { intros x Hx evx H U Ee. destruct (E _ _ (SUB _ Hx) H U) as (_ & _ & _ & E4).
      assert (m = x) by (apply E4; [exact Hm|symmetry; exact Ee]). subst x. apply (NEQ _ Hx). reflexivity. }
    constructor; rewrite ?Ag, ?Nw, ?Ne.
    + intros x Hx. destruct (A _ (SUB _ Hx)) as (ev1 & H1). destruct (FW _ _ H1) as (ev0 & H0 & _). exists ev0. exact H0.
    + rewrite Hrest. apply remove_eid_nodup, B.
    + intros x Hx. apply C, SUB, Hx.
    + intros x Hx. apply key_le_time, Hmin, SUB, Hx.
    + intros x ev0 Hx H U. destruct (BW _ _ H) as (ev1 & H1 & K1 & _ & _ & X). rewrite K1 in U.
      destruct (E _ _ (SUB _ Hx) H1 U) as (E1 & E2 & E3 & E4).
      pose proof (key_le_time _ _ (Hmin _ (SUB _ Hx))) as T1. pose proof (D _ Hm) as T2.
      split; [lra|]. split; [exact E2|]. split.
      * destruct X as [(X & _)|(_ & ->)]; [|exact E3]. exfalso. exact (NE _ Hx _ H1 U X).
      * intros y Hy Ey. apply E4; [apply SUB, Hy|exact Ey].
    + intros e0 ev0 H U N. destruct (BW _ _ H) as (ev1 & H1 & K1 & _ & _ & [(_ & X & _)|(N0 & ->)]); [congruence|].
      destruct (F _ _ H1 U N) as (x & Hx & Ex). exists x. split; [|exact Ex].
      rewrite Hrest. apply remove_eid_keeps; [exact Hx|]. intros Eq.
      assert (x = m) by (eapply nodup_eid_inj; eassumption). subst x. apply N0. symmetry. exact Ex.
    + intros x y evx evy p Hx Hy H1 H2 K1 K2.
      destruct (BW _ _ H1) as (ex1 & X1 & KK1 & _). destruct (BW _ _ H2) as (ey1 & Y1 & KK2 & _).
      apply (G x y ex1 ey1 p); auto; congruence.
Qed.

(* ------------------------------------------------------------------------------------------------ *)
(* Interruption._interrupt: detaching the victim from its target *)

Lemma inv_detach pe pend p pr tg tev l s :
  get_proc p s = Some pr -> ptarget pr = Some tg -> get_event tg s = Some tev -> cbs tev = Some l ->
  In (CbResume p) l -> kind tev <> KInit p ->
  inv None pe pend s ->
  inv (Some p) pe pend (upd_event tg (ev_set_cbs (Some (remove_first (CbResume p) l))) s).
Proof.
  intros Hp Tg Ht Cl Hin NK (HS & HC & HA).
  set (l' := remove_first (CbResume p) l). set (s' := upd_event tg (ev_set_cbs (Some l')) s).
  assert (X0 : evs_step0 s s').
  { apply es0_upd_event. intros ev H. rewrite Ht in H. injection H as <-.
    apply (ev_step0_set_cbs _ l); [exact Cl|]. intros U c r -> Ic. unfold l'. cbn [remove_first].
    assert (cb_eqb c (CbResume p) = false) as ->; [|eexists; reflexivity].
    apply cb_eqb_neq. intros ->. destruct (urgent_kind_cases _ U) as [(q & K)|(q & K)].
    - destruct (iS_kinit _ HS _ _ _ Ht K) as (_ & _ & [X|(r0 & X)]); [congruence|].
      rewrite Cl in X. injection X as X _. congruence.
    - destruct (iS_kintr _ HS _ _ _ Ht K) as (_ & _ & _ & [X|(r0 & X)]); [congruence|].
      rewrite Cl in X. injection X as X _. discriminate. }
  assert (GE : forall e, get_event e s' = if Nat.eqb e tg then Some (ev_set_cbs (Some l') tev) else get_event e s).
  { intros e. unfold s'. rewrite get_event_upd. destruct (Nat.eqb e tg) eqn:E; [|reflexivity].
    apply Nat.eqb_eq in E. subst e. rewrite Ht. reflexivity. }
  assert (GP : forall q, get_proc q s' = get_proc q s) by reflexivity.
  split; [eapply invS_es0; eassumption|]. split; [|eapply invA_es0; eassumption].
  destruct HC as [A B C D E R0].
  destruct (C _ _ _ _ Ht Cl Hin) as (_ & CNT & _ & NPEND).
  constructor.
  - intros e ev l0 i H C0 Hi. rewrite GE in H. destruct (Nat.eqb e tg) eqn:Ee.
    + apply Nat.eqb_eq in Ee. subst e. injection H as <-. cbn in C0. injection C0 as <-.
      destruct (A _ _ _ _ Ht Cl (in_remove_first _ _ _ Hi)) as (A1 & A2 & A3). split; [exact A1|]. split; [|exact A3].
      unfold l'. rewrite cnt_remove_first_other by discriminate. exact A2.
    + eapply A; eassumption.
  - intros i Hi. destruct (B _ Hi) as (B1 & B2 & (ev & q & B3 & B4)). split; [exact B1|]. split; [exact B2|].
    rewrite GE. destruct (Nat.eqb pe tg) eqn:Ee.
    + apply Nat.eqb_eq in Ee. rewrite Ee, Ht in B3. injection B3 as <-. eexists _, q. split; [reflexivity|exact B4].
    + exists ev, q. auto.
  - intros e ev l0 q H C0 Hq. rewrite GE in H. destruct (Nat.eqb e tg) eqn:Ee.
    + apply Nat.eqb_eq in Ee. subst e. injection H as <-. cbn in C0. injection C0 as <-.
      assert (N : q <> p).
      { intros ->. apply cnt_pos in Hq. unfold l' in Hq. rewrite cnt_remove_first_same, CNT in Hq. cbn in Hq. lia. }
      destruct (C _ _ _ _ Ht Cl (in_remove_first _ _ _ Hq)) as (C1 & C2 & _ & C4). rewrite GP.
      split; [exact C1|]. split; [|split; [congruence|exact C4]].
      unfold l'. rewrite cnt_remove_first_other by congruence. exact C2.
    + destruct (C _ _ _ _ H C0 Hq) as ((pr0 & C1 & C2) & C3 & _ & C5). rewrite GP.
      assert (N : q <> p). { intros ->. rewrite Hp in C1. injection C1 as <-. apply Nat.eqb_neq in Ee. congruence. }
      split; [exists pr0; auto|]. split; [exact C3|]. split; [congruence|exact C5].
  - intros q Hq. destruct (D _ Hq) as ((pr0 & D1 & D2) & D3 & _ & (ev & D5 & D6)). rewrite GP.
    assert (N : q <> p). { intros ->. contradiction. }
    split; [exists pr0; auto|]. split; [exact D3|]. split; [congruence|].
    rewrite GE. destruct (Nat.eqb pe tg) eqn:Ee.
    + apply Nat.eqb_eq in Ee. rewrite Ee, Ht in D5. injection D5 as <-. congruence.
    + exists ev. auto.
  - intros q pr' ev Hq H O R. rewrite GP in Hq.
    assert (N : q <> p) by congruence.
    assert (H' : exists ev0, get_event (pev pr') s = Some ev0 /\ out ev0 = None).
    { rewrite GE in H. destruct (Nat.eqb (pev pr') tg) eqn:Ee.
      - apply Nat.eqb_eq in Ee. rewrite Ee. injection H as <-. exists tev. split; [exact Ht|exact O].
      - exists ev. auto. }
    destruct H' as (ev0 & H0 & O0).
    destruct (E _ _ _ Hq H0 O0) as [E1|(t & tev0 & l0 & E1 & E2 & E3 & E4)]; [discriminate|left; exact E1|right].
    destruct (Nat.eqb t tg) eqn:Et.
    + apply Nat.eqb_eq in Et. subst t. rewrite Ht in E2. injection E2 as <-. rewrite Cl in E3. injection E3 as <-.
      exists tg, (ev_set_cbs (Some l') tev), l'. split; [exact E1|]. split; [rewrite GE, Nat.eqb_refl; reflexivity|].
      split; [reflexivity|]. apply in_remove_first_other; [congruence|exact E4].
    + exists t, tev0, l0. split; [exact E1|]. split; [rewrite GE, Et; exact E2|]. auto.
  - intros r Hr. injection Hr as <-. exists pr. exact Hp.
Qed.

Definition init_done (s : state) (p : pid) : Prop :=
  forall ie iev, get_event ie s = Some iev -> kind iev = KInit p -> cbs iev = None.

Lemma inv_do_interruption fuel codes pe pend i s s' r p iev :
  get_event i s = Some iev -> kind iev = KInterruption p -> init_done s p ->
  inv None pe pend s -> do_interruption fuel codes i s = (s', r) -> r = ROk -> inv None pe pend s'.
Proof.
  intros Hi Ki ID I. unfold do_interruption. rewrite Hi, Ki.
  destruct (get_proc p s) as [pr|] eqn:Hp; [|intros H; injection H as <- <-; discriminate].
  destruct (get_event (pev pr) s) as [pev0|]; [|intros H; injection H as <- <-; discriminate].
  destruct (is_triggered pev0); [intros H; injection H as <- <-; auto|].
  destruct (ptarget pr) as [t|] eqn:Tg; [|intros H; injection H as <- <-; discriminate].
  destruct (get_event t s) as [tev|] eqn:Ht; [|intros H; injection H as <- <-; discriminate].
  destruct (cbs tev) as [l|] eqn:Cl; [|intros H; injection H as <- <-; discriminate].
  destruct (mem_cb (CbResume p) l) eqn:M; [|intros H; injection H as <- <-; discriminate].
  apply mem_cb_in in M. unfold resume_proc. intros H R.
  eapply inv_resume_loop; [|exact H|exact R]. apply inv_set_active.
  eapply inv_detach; try eassumption. intros K. pose proof (ID _ _ Ht K). congruence.
Qed.

Lemma do_interruption_not_stop fuel codes i s v : snd (do_interruption fuel codes i s) <> RStop v.
Proof.
  unfold do_interruption.
  destruct (get_event i s) as [iev|]; [|discriminate].
  destruct (kind iev); try discriminate.
  destruct (get_proc p s) as [pr|]; [|discriminate].
  destruct (get_event (pev pr) s) as [pev0|]; [|discriminate].
  destruct (is_triggered pev0); [discriminate|].
  destruct (ptarget pr) as [t|]; [|discriminate].
  destruct (get_event t s) as [tev|]; [|discriminate].
  destruct (cbs tev) as [l|]; [|discriminate].
  destruct (mem_cb (CbResume p) l); [|discriminate].
  apply resume_loop_not_stop.
Qed.

(* ------------------------------------------------------------------------------------------------ *)
(* the callback loop *)

(* the loop is not cut short: every callback returns normally -- except that the stop callback of run(until=...)
   may raise StopSimulation / the failure of the until-event, which the (repaired) kernel defers to the end of the
   loop.  Any other exception, out-of-fuel or RBroken ends the loop and loses the remaining callbacks. *)
Fixpoint loop_clean (fuel : nat) (codes : list prog) (e : evid) (l : list cb) (s : state) : Prop :=
  match l with
  | [] => True
  | c :: t => match run_cb fuel codes e c s with
              | (s1, ROk) => loop_clean fuel codes e t s1
              | (s1, r) => if is_stop_cb c && is_exit r then loop_clean fuel codes e t s1 else False
              end
  end.

Lemma inv_pe_nil run pe pe' s : inv run pe [] s -> inv run pe' [] s.
Proof.
  intros (HS & [A B C D E R0] & HA). split; [exact HS|]. split; [|exact HA].
  constructor; auto.
  - intros i [].
  - intros p [].
Qed.

Lemma inv_run_callbacks fuel codes pe : forall l s,
  (forall i, ~ In (CbInterrupt i) l) ->
  inv None pe l s -> loop_clean fuel codes pe l s -> inv None 0%nat [] (fst (run_callbacks fuel codes pe l s)).
Proof.
  induction l as [|c t IH]; intros s NI I LC; cbn [run_callbacks fst].
  - eapply inv_pe_nil, I.
  - assert (NI' : forall i, ~ In (CbInterrupt i) t) by (intros i H; apply (NI i); right; exact H).
    cbn [loop_clean] in LC. destruct c as [p|c0|c0|i| |n].
    + (* _resume of p *)
      cbn [run_cb] in *. unfold resume_proc in *.
      assert (I1 : inv (Some p) pe t (set_active (Some p) s)).
      { apply inv_set_active. destruct I as (HS & HC & HA). split; [exact HS|]. split; [apply invC_start, HC|exact HA]. }
      destruct (resume_loop fuel codes p pe (set_active (Some p) s)) as [s1 r] eqn:RL.
      destruct r; cbn [is_stop_cb andb] in LC; try contradiction.
      apply IH; [exact NI'| |exact LC]. eapply inv_resume_loop; [exact I1|exact RL|reflexivity].
    + cbn [run_cb] in *. apply IH; [exact NI'| |exact LC]. apply inv_cond_check. eapply inv_drop; [|exact I]. discriminate.
    + cbn [run_cb] in *. pose proof (inv_cond_build None pe t c0 s) as CB.
      destruct (cond_build c0 s) as [s1 r]. cbn [fst] in CB.
      assert (I1 : inv None pe t s1) by (apply CB; eapply inv_drop; [|exact I]; discriminate).
      destruct r; cbn [is_stop_cb andb] in LC; try contradiction.
      apply IH; [exact NI'|exact I1|exact LC].
    + exfalso. apply (NI i). left. reflexivity.
    + cbn [run_cb] in *. pose proof (stop_cb_state pe s) as ST. destruct (stop_cb pe s) as [s1 r]. cbn [fst] in ST. subst s1.
      assert (I1 : inv None pe t s) by (eapply inv_drop; [|exact I]; discriminate).
      destruct r; cbn [is_stop_cb is_exit andb] in *; try contradiction;
        try (apply IH; [exact NI'|exact I1|exact LC]);
        (pose proof (IH s NI' I1 LC) as FIN; destruct (run_callbacks fuel codes pe t s) as [s2 r2]; cbn [fst] in FIN;
         destruct r2; exact FIN).
    + cbn [run_cb] in *. apply IH; [exact NI'| |exact LC].
      eapply inv_frame; [| | | | |eapply inv_drop; [|exact I]; discriminate]; reflexivity.
Qed.

(* ------------------------------------------------------------------------------------------------ *)
(* Environment.step *)

Definition step_clean (fuel : nat) (codes : list prog) (s : state) : Prop :=
  match pop_min (agenda s) with
  | None => True
  | Some (m, rest) =>
      match get_event (e_ev m) s with
      | None => False
      | Some ev => match cbs ev with
                   | None => False
                   | Some l => loop_clean fuel codes (e_ev m) l
                                 (upd_event (e_ev m) (ev_set_cbs None) (pop_state m rest s))
                   end
      end
  end.

(* when an Interruption aimed at p is the minimum of the agenda, p's Initialize has been processed *)
Lemma init_done_at_pop s m rest ev p :
  good s -> pop_min (agenda s) = Some (m, rest) -> get_event (e_ev m) s = Some ev -> kind ev = KInterruption p ->
  init_done s p.
Proof.
  intros (HS & HC & HA) HP Hev K ie iev Hie Kie.
  destruct (cbs iev) eqn:Ci; [|reflexivity]. exfalso.
  destruct (pop_min_spec _ _ _ HP) as (Hm & _ & Hmin).
  destruct (iA_has _ HA ie iev Hie) as (x & Hx & Ex); [rewrite Kie; reflexivity|congruence|].
  rewrite <- Ex in Hie.
  pose proof (iA_init_first _ HA x m iev ev p Hx Hm Hie Hev Kie K) as LT.
  destruct (iA_urg _ HA x iev Hx Hie) as (T1 & P1 & _); [rewrite Kie; reflexivity|].
  destruct (iA_urg _ HA m ev Hm Hev) as (T2 & P2 & _); [rewrite K; reflexivity|].
  apply (key_le_not_lt _ _ (Hmin _ Hx)). right. split; [lra|]. right. split; [congruence|exact LT].
Qed.

Lemma good_step fuel codes s : good s -> step_clean fuel codes s -> good (fst (step fuel codes s)).
Proof.
  intros G SC. unfold step, step_clean in *. destruct (pop_min (agenda s)) as [[m rest]|] eqn:HP; [|exact G].
  change (get_event (e_ev m) (pop_state m rest s)) with (get_event (e_ev m) s).
  destruct (get_event (e_ev m) s) as [ev|] eqn:Hev; [|contradiction].
  destruct (cbs ev) as [l|] eqn:Cl; [|contradiction].
  set (e := e_ev m) in *. set (s1 := upd_event e (ev_set_cbs None) (pop_state m rest s)) in *.
  pose proof (inv_pop _ _ _ _ _ G HP Hev Cl) as I1. fold e in I1. fold s1 in I1.
  assert (FIN : good (fst (run_callbacks fuel codes e l s1))).
  { destruct G as (HS & HC & HA).
    destruct (kind ev) eqn:K;
      try (apply inv_run_callbacks; [|exact I1|exact SC];
           intros i Hi; destruct (iC_intr _ _ _ _ HC _ _ _ _ Hev Cl Hi) as (_ & _ & (q & X)); congruence).
    (* an Interruption event: its own callback comes first *)
    destruct (iS_kintr _ HS _ _ _ Hev K) as (_ & _ & _ & [X|(r & X)]); [congruence|].
    rewrite Cl in X. injection X as ->.
    assert (NI : forall i, ~ In (CbInterrupt i) r).
    { intros i Hi. destruct (iC_intr _ _ _ _ HC e ev _ i Hev Cl (or_intror Hi)) as (<- & CNT & _).
      cbn [cnt] in CNT. rewrite cb_eqb_refl in CNT. apply cnt_pos in Hi. lia. }
    cbn [run_callbacks loop_clean run_cb] in *.
    assert (ID : init_done s1 p).
    { intros ie iev Hie Kie. unfold s1 in Hie. rewrite get_event_upd in Hie.
      change (get_event ie (pop_state m rest s)) with (get_event ie s) in Hie.
      destruct (Nat.eqb ie e) eqn:Ee.
      - apply Nat.eqb_eq in Ee. subst ie. rewrite Hev in Hie. injection Hie as <-. reflexivity.
      - exact (init_done_at_pop s m rest ev p (conj HS (conj HC HA)) HP Hev K ie iev Hie Kie). }
    assert (Hi1 : get_event e s1 = Some (ev_set_cbs None ev)).
    { unfold s1. rewrite get_event_upd, Nat.eqb_refl. change (get_event e (pop_state m rest s)) with (get_event e s).
      rewrite Hev. reflexivity. }
    destruct (do_interruption fuel codes e s1) as [s2 r2] eqn:DI.
    destruct r2; cbn [is_stop_cb andb] in SC; try contradiction.
    apply inv_run_callbacks; [exact NI| |exact SC].
    eapply inv_do_interruption; [exact Hi1|exact K|exact ID| |exact DI|reflexivity].
    eapply inv_drop; [|exact I1]. discriminate. }
  destruct (run_callbacks fuel codes e l s1) as [s2 r2]. cbn [fst] in FIN. destruct r2; exact FIN.
Qed.

(* ------------------------------------------------------------------------------------------------ *)
(* reachable states *)

Lemma good_init t0 : good (init_state t0).
Proof.
  assert (NE : forall e, get_event e (init_state t0) = None) by (intros [|e]; reflexivity).
  assert (NP : forall p, get_proc p (init_state t0) = None) by (intros [|p]; reflexivity).
  split; [|split].
  - constructor.
    + intros p pr H. rewrite NP in H. discriminate.
    + intros e ev p H. rewrite NE in H. discriminate.
    + intros e ev p H. rewrite NE in H. discriminate.
    + intros e ev p H. rewrite NE in H. discriminate.
    + intros p pr t H. rewrite NP in H. discriminate.
    + intros p pr H. rewrite NP in H. discriminate.
  - constructor.
    + intros e ev l i H. rewrite NE in H. discriminate.
    + intros i [].
    + intros e ev l p H. rewrite NE in H. discriminate.
    + intros p [].
    + intros p pr ev H. rewrite NP in H. discriminate.
    + discriminate.
  - constructor.
    + intros x [].
    + apply NoDup_nil.
    + intros x [].
    + intros x [].
    + intros x ev [].
    + intros e ev H. rewrite NE in H. discriminate.
    + intros x y evx evy p [].
Qed.

Inductive reach (codes : list prog) : state -> Prop :=
| reach_init t0 : reach codes (init_state t0)
| reach_top A (f : frag A) s : reach codes s -> reach codes (fst (exec_top codes f s))
| reach_prelude u s s1 : reach codes s -> run_prelude u s = inr s1 -> reach codes s1
| reach_step fuel s : reach codes s -> step_clean fuel codes s -> reach codes (fst (step fuel codes s)).

Theorem reach_good codes s : reach codes s -> good s.
Proof.
  induction 1 as [t0|A f s _ IH|u s s1 _ IH HP|fuel s _ IH SC].
  - apply good_init.
  - unfold exec_top. apply inv_run_frag, IH.
  - eapply inv_run_prelude; eassumption.
  - apply good_step; assumption.
Qed.

(* run() = prelude + steps: its final state is reachable when every step it takes is clean *)
Fixpoint steps_clean (n fuel : nat) (codes : list prog) (s : state) : Prop :=
  match n with
  | O => True
  | S m => step_clean fuel codes s /\
           match step fuel codes s with (s1, ROk) => steps_clean m fuel codes s1 | _ => True end
  end.

Lemma reach_run_loop codes fuel u : forall n s,
  reach codes s -> steps_clean n fuel codes s -> reach codes (fst (run_loop n fuel codes u s)).
Proof.
  induction n as [|n IH]; intros s R SC; cbn [run_loop fst]; [exact R|].
  destruct SC as [SC1 SC2]. pose proof (reach_step codes fuel s R SC1) as R1.
  destruct (step fuel codes s) as [s1 r]. cbn [fst] in R1.
  destruct r; try exact R1. apply IH; assumption.
Qed.

Theorem reach_run codes fuel u s :
  reach codes s ->
  (forall s1, run_prelude u s = inr s1 -> steps_clean fuel fuel codes s1) ->
  reach codes (fst (run fuel codes u s)).
Proof.
  intros R SC. unfold run. destruct (run_prelude u s) as [[s0 r0]|s1] eqn:HP.
  - apply run_prelude_inl in HP. subst s0. exact R.
  - apply reach_run_loop; [eapply reach_prelude; eassumption|apply SC; reflexivity].
Qed.
