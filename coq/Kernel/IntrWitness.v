(* Kernel/IntrWitness.v -- C04: closed witness terms and decision lemmas used by Props/C04_Examples.v (non-vacuity of the
   hypotheses of the theorems of Props/C04.v).

   Family F (scripts of Kernel/Script.v, for convenience only):
     victim       (process 0)  t = env.timeout(5); yield t, re-yielding t after the FIRST Interrupt (YRetry 1), catching the second;
                               log what the yield gave; return
     interrupter  (process 1)  yield timeout(1); victim.interrupt(7); victim.interrupt(8); victim.interrupt(9);
                               yield the SAME (now processed) timeout again; log; end
   States at step boundaries, all at most at t = 1 ([f_at k] = k steps after the module-level code spawned both):
     f_at 0   nothing has run: both Initialize events (1, 3) pending, URGENT
     f_at 1   the victim has started and waits for its timeout (event 4, due 5, NORMAL); the interrupter has not started
     f_at 2   both started; the minimum of the agenda is the interrupter's timeout (event 5, due 1)
     f_at 3   t = 1: three Interruption events 6, 7, 8 (causes 7, 8, 9) pending, URGENT, in this order ahead of the NORMAL entries;
              the interrupter has ENDED (Process event 2 triggered, not processed); the victim is alive, waits for event 4
     f_at 4   Interrupt(7) delivered: the victim yielded event 4 again (re-attached); 7, 8 pending
     f_at 5   Interrupt(8) delivered: the victim logged it and ended (Process event 0 triggered); event 4 has no callback left;
              interruption 8 (cause 9) still pending -- for a dead process
     f_at 6   interruption 8 processed: dropped silently
     f_at 7   the Process event of the interrupter processed *)
From Coq Require Import ZArith QArith List Bool Lia.
From ONL Require Import Kernel.Model Kernel.Keys Kernel.Script Kernel.IntrBase Kernel.IntrInv Kernel.IntrStep Kernel.Intr Kernel.IntrExamples.
Import ListNotations.

Definition f_victim : list instr :=
  [ITimeout (L 1) 5 XNone; IYield 1 (XReg (L 1)) (L 2) (YRetry 1); ILog (XReg (L 2)); IReturn XNone].
Definition f_interrupter : list instr :=
  [ITimeout (L 1) 1 XNone; IYield 2 (XReg (L 1)) (L 2) YCatch; IInterrupt (G 0) (XInt 7); IInterrupt (G 0) (XInt 8);
   IInterrupt (G 0) (XInt 9); IYield 3 (XReg (L 1)) (L 3) YCatch; ILog (XReg (L 3))].
Definition f_codes : list prog := map compile [f_victim; f_interrupter].
Definition f_s1 : state := fst (exec_top f_codes (exec ex_setup []) (init_state 0)).

(* n steps from s *)
Fixpoint f_run (fuel : nat) (codes : list prog) (n : nat) (s : state) : state :=
  match n with O => s | S j => f_run fuel codes j (fst (step fuel codes s)) end.
Definition f_at (k : nat) : state := f_run 10 f_codes k f_s1.

(* every one of the n steps is clean *)
Fixpoint clean_run (fuel : nat) (codes : list prog) (n : nat) (s : state) : Prop :=
  match n with O => True | S j => step_clean fuel codes s /\ clean_run fuel codes j (fst (step fuel codes s)) end.

Lemma reach_f_run fuel codes : forall n s, reach codes s -> clean_run fuel codes n s -> reach codes (f_run fuel codes n s).
Proof.
  induction n as [|n IH]; intros s R C; cbn [f_run]; [exact R|]. destruct C as [C1 C2].
  apply IH; [apply reach_step; assumption|exact C2].
Qed.

Lemma trans_star_f_run fuel codes : forall n s, trans_star codes s (f_run fuel codes n s).
Proof.
  induction n as [|n IH]; intros s; cbn [f_run]; [apply ts_refl|]. eapply ts_step; [apply t_step|apply IH].
Qed.

Lemma f_run_add fuel codes : forall a b s, f_run fuel codes (a + b) s = f_run fuel codes b (f_run fuel codes a s).
Proof. induction a as [|a IH]; intros b s; cbn [f_run Nat.add]; [reflexivity|apply IH]. Qed.

Lemma f_reach1 : reach f_codes f_s1.
Proof. apply reach_top, reach_init. Qed.

Lemma f_reach k : (k <= 9)%nat -> reach f_codes (f_at k).
Proof.
  intros L. apply reach_f_run; [exact f_reach1|].
  do 10 (destruct k as [|k]; [vm_compute; repeat split|]). lia.
Qed.

Lemma f_trans a b : trans_star f_codes (f_at a) (f_at (a + b)).
Proof. unfold f_at. rewrite f_run_add. apply trans_star_f_run. Qed.

(* agenda entries of f_at 3 *)
Definition f_x6 : entry := mkEntry 1 URGENT 4%nat 6%nat.       (* interrupt(7) *)
Definition f_x7 : entry := mkEntry 1 URGENT 5%nat 7%nat.       (* interrupt(8) *)
Definition f_x8 : entry := mkEntry 1 URGENT 6%nat 8%nat.       (* interrupt(9) *)
Definition f_t4 : entry := mkEntry 5 NORMAL 2%nat 4%nat.       (* the victim's timeout *)
Definition f_p2 : entry := mkEntry 1 NORMAL 7%nat 2%nat.       (* the interrupter's termination *)

(* ---- deciders: keep the (large) process records abstract in the proofs ---- *)
Definition dead_b (s : state) (p : pid) : bool :=
  match get_proc p s with
  | Some pr => match get_event (pev pr) s with Some ev => match out ev with Some _ => true | None => false end | None => false end
  | None => false
  end.
Definition live_b (s : state) (p : pid) : bool :=
  match get_proc p s with
  | Some pr => match get_event (pev pr) s with Some ev => match out ev with Some _ => false | None => true end | None => false end
  | None => false
  end.

Lemma dead_b_ok s p : dead_b s p = true -> dead s p.
Proof.
  unfold dead_b, dead. destruct (get_proc p s) as [pr|]; [|discriminate]. destruct (get_event (pev pr) s) as [ev|] eqn:E; [|discriminate].
  destruct (out ev) eqn:O; [|discriminate]. intros _. exists pr, ev. rewrite O. repeat split; [exact E|discriminate].
Qed.
Lemma live_b_ok s p : live_b s p = true -> live s p.
Proof.
  unfold live_b, live. destruct (get_proc p s) as [pr|]; [|discriminate]. destruct (get_event (pev pr) s) as [ev|] eqn:E; [|discriminate].
  destruct (out ev) eqn:O; [discriminate|]. intros _. exists pr, ev. repeat split; [exact E|exact O].
Qed.

Lemma opt_proj {A B : Type} (f : A -> B) (o : option A) (x : A) (b : B) : o = Some x -> option_map f o = Some b -> f x = b.
Proof. intros ->. cbn. intros H. injection H as H. exact H. Qed.

(* what one resumption of process p (record pr) with outcome o does up to its next yield of an event: the event, the state at the
   yield, the state with the new generator state stored *)
Definition yield_of (codes : list prog) (p : pid) (pr : procrec) (o : outcome) (s1 : state) : option (evid * state * state) :=
  match run_frag codes (resume (pcode pr) (pst pr) o) s1 with
  | (s2, FrYield (VEv e') a) => Some (e', s2, put_proc p (proc_set_st pr a) s2)
  | _ => None
  end.
Definition yield_at (codes : list prog) (p : pid) (o : outcome) (s1 s : state) : option (evid * state * state) :=
  match get_proc p s with Some pr => yield_of codes p pr o s1 | None => None end.

Lemma yield_of_ok codes p pr o s1 e' s2 s3 :
  yield_of codes p pr o s1 = Some (e', s2, s3) ->
  exists a, run_frag codes (resume (pcode pr) (pst pr) o) s1 = (s2, FrYield (VEv e') a) /\ s3 = put_proc p (proc_set_st pr a) s2.
Proof.
  unfold yield_of. destruct (run_frag codes (resume (pcode pr) (pst pr) o) s1) as [s2' [v a|v|x]]; try discriminate.
  destruct v; try discriminate. intros H. injection H as -> -> <-. exists a. split; reflexivity.
Qed.

Lemma yield_at_ok {B : Type} codes p o s1 s (F : evid * state * state -> B) (b : B) :
  option_map F (yield_at codes p o s1 s) = Some b ->
  exists pr e' s2 a, get_proc p s = Some pr /\ run_frag codes (resume (pcode pr) (pst pr) o) s1 = (s2, FrYield (VEv e') a) /\
                     F (e', s2, put_proc p (proc_set_st pr a) s2) = b.
Proof.
  unfold yield_at. destruct (get_proc p s) as [pr|]; [|discriminate].
  destruct (yield_of codes p pr o s1) as [[[e' s2] s3]|] eqn:Y; [|discriminate]. cbn [option_map]. intros H. injection H as H.
  destruct (yield_of_ok _ _ _ _ _ _ _ _ Y) as (a & RF & ->). exists pr, e', s2, a. split; [reflexivity|]. split; [exact RF|exact H].
Qed.

(* a fragment run does not touch the record of a suspended process *)
Lemma run_frag_keeps_proc {A : Type} codes (f : frag A) s p pr :
  pevK s -> get_proc p s = Some pr -> get_proc p (fst (run_frag codes f s)) = Some pr.
Proof.
  intros K Hp. destruct (m_pr _ _ _ (mono_run_frag Tnone codes f s K) _ _ Hp) as (pr' & H1 & _ & H2).
  rewrite H1. f_equal. apply H2. intros [].
Qed.

(* the interrupter's timeout, and the state in which the interrupter is resumed by it *)
Definition f_m5 : entry := mkEntry 1 NORMAL 3%nat 5%nat.
Definition f_s1_5 : state := set_active (Some 1%nat) (popped f_m5 [f_t4] (f_at 2)).

(* the state in which Interrupt(7) is thrown into the victim (C04_interrupt_delivery: interruption 6 popped, the victim detached
   from its target 4, active, the interruption event defused) *)
Definition f_rest6 : list entry := [f_t4; f_x7; f_x8; f_p2].
Definition f_s1_retry : state :=
  upd_event 6%nat ev_set_defused (set_active (Some 0%nat)
    (upd_event 4%nat (ev_set_cbs (Some (remove_first (CbResume 0%nat) [CbResume 0%nat]))) (popped f_x6 f_rest6 (f_at 3)))).

Lemma retry_state_ok s m rest p t c i :
  pevK s -> (forall ev, get_event t (popped m rest s) = Some ev -> cbs ev <> None) ->
  let s1 := upd_event i ev_set_defused (set_active (Some p) (upd_event t (ev_set_cbs (Some c)) (popped m rest s))) in
  pevK s1 /\ forall q pr, get_proc q s = Some pr -> get_proc q s1 = Some pr.
Proof.
  intros K Hc s1. split; [|intros q pr H; exact H].
  assert (X : mono Tnone (pop_state m rest s) s1).
  { unfold s1, popped.
    refine (mono_trans Tnone _ _ _ _ (mono_set_defused Tnone _ _)).
    refine (mono_trans Tnone _ _ _ _ (mono_set_active Tnone _ _)).
    refine (mono_trans Tnone _ _ _ (mono_set_cbs Tnone _ _ _ (or_introl eq_refl)) (mono_set_cbs Tnone _ _ _ _)).
    right. exact Hc. }
  exact (m_pevK _ _ _ (X (pevK_pop m rest s K))).
Qed.

Lemma f_retry_ok : pevK f_s1_retry /\ forall q pr, get_proc q (f_at 3) = Some pr -> get_proc q f_s1_retry = Some pr.
Proof.
  apply retry_state_ok; [apply iS_pev, (reach_good f_codes), f_reach; lia|].
  intros ev H.
  assert (X : option_map cbs (get_event 4%nat (popped f_x6 f_rest6 (f_at 3))) = Some (Some [CbResume 0%nat])) by (vm_compute; reflexivity).
  rewrite H in X. cbn in X. injection X as X. rewrite X. discriminate.
Qed.
