(* Kernel/StopWitness.v -- C03: closed witness terms and two decision lemmas used by Props/C03_Examples.v (non-vacuity of the
   hypotheses of the theorems of Props/C03.v).  The programs are the witness family of Kernel/Stop.v (two processes, one shared
   event G0 triggered at t = 2 by process 0, process 1 registers on it at t = 1 and goes on until t = 3). *)
From Coq Require Import ZArith QArith List Bool Lia.
From ONL Require Import Kernel.Model Kernel.Script Kernel.Keys Kernel.Inv Kernel.Order Kernel.Deliver Kernel.DeliverWf
  Kernel.DeliverVal Kernel.StopFrame Kernel.StopInv Kernel.Stop Kernel.StopSpec Kernel.StopErase Kernel.StopSplit Kernel.StopRen Kernel.StopSim
  Kernel.StopSimCalls Kernel.StopSimStep Kernel.StopGhost Kernel.StopScript Kernel.StopExamples.
Import ListNotations.

(* n times step(), every one answering ROk, is an [ok_steps] execution *)
Lemma nsteps_ok_steps fuel codes : forall n s sk, nsteps n fuel codes s = (sk, ROk) -> ok_steps fuel codes s sk.
Proof.
  induction n as [|n IH]; intros s sk H; cbn in H.
  - injection H as <-. constructor.
  - change (step_sel true) with step in H. destruct (step fuel codes s) as [s1 r] eqn:St.
    destruct r; try discriminate H. eapply oks_step; [exact St|]. apply IH, H.
Qed.

Lemma never_broken_clean fuel codes s : never_broken fuel codes s -> forall K, clean fuel codes K s.
Proof. intros N K i _. apply N. Qed.

(* ---- witness terms ---- *)

(* the same family with a second shared event G3 that nobody ever triggers (event id 5) *)
Definition wit_setup_idle : list instr := wit_setup ++ [IEvent (G 3)].
Definition wit_s0_idle : state := fst (exec_top wit_codes (Script.exec wit_setup_idle []) (init_state 0)).

(* stop points of every kind; 1 is the instant process 1 resumes, 2 the instant the timeout of process 0 is due (not processed by
   run(until=2)), G0 is processed at 2, 5/2 lies between two occurrences *)
Definition wit_plan_all : list stop := [SNum 1; SNum 2; SStep 1; SEv 0%nat; SNum (5 # 2); SRun].
Definition wit_plan_ev : list stop := [SEv 0%nat; SStep 1; SStep 1; SRun].

(* the user-visible trace of the uninterrupted run() of the family *)
Definition wit_logs : list observation :=
  [OLog (Some 0%nat) 0 (VList [VInt 0]);
   OLog (Some 1%nat) 0 (VList [VInt 0]);
   OLog (Some 1%nat) 1 (VList [VInt 1; VInt 2; VList [VInt 0; VNone]]);
   OLog (Some 0%nat) 2 (VList [VInt 1; VInt 1; VList [VInt 0; VNone]]);
   OProbe 1 0%nat 2 (Some (Ok (VInt 5)));
   OLog (Some 1%nat) 2 (VList [VInt 1; VInt 3; VList [VInt 0; VInt 5]]);
   OLog (Some 1%nat) 2 (VList [VInt 3; VInt 5]);
   OLog (Some 1%nat) 3 (VList [VInt 1; VInt 4; VList [VInt 0; VNone]]);
   OLog (Some 1%nat) 3 (VList [VInt 3; VInt 99])].
