(* Kernel/Inv.v -- the frame relation [ext s s'] ("between s and s' the kernel only appended agenda entries,
   by [schedule], each at a time >= now, with fresh consecutive eids and the priority class of its event;
   the clock did not move") and one lemma per function of Kernel/Model.v showing that the function is an [ext].
   [step] = one pop followed by an [ext] ([step_spec]).  Used by Kernel/Order.v (C01) and meant to be reused
   by the other kernel properties: to add an invariant, add a field to [kinv]/[extr] and re-run the lemmas. *)
From Coq Require Import ZArith QArith List Bool Lia Lqa.
From ONL Require Import Kernel.Model Kernel.Keys.
Import ListNotations.

(* priority class of an event kind: process starts, interrupts and the numeric-until sentinel are urgent *)
Definition kclass (k : ekind) : nat :=
  match k with KInit _ | KInterruption _ | KSentinel => URGENT | _ => NORMAL end.

Definition ev_class (s : state) (e : evid) (c : nat) : Prop :=
  exists ev, nth_error (events s) e = Some ev /\ kclass (kind ev) = c.

(* state invariant needed to know the class of what gets scheduled: urgent-class events are born triggered
   (so succeed/fail, which schedule NORMAL, refuse them), and the event of a process is a Process event *)
Definition kinv (s : state) : Prop :=
  (forall e ev, nth_error (events s) e = Some ev -> kclass (kind ev) = URGENT -> out ev <> None) /\
  (forall p pr, nth_error (procs s) p = Some pr -> ev_class s (pev pr) NORMAL).

Fixpoint new_ok (t : Q) (n : nat) (l : list entry) : Prop :=
  match l with
  | [] => True
  | x :: r => e_eid x = n /\ t <= e_time x /\ new_ok t (S n) r
  end.

Record extr (s s' : state) : Prop := mkExtr {
  x_kinv : kinv s';
  x_now : now s' = now s;
  x_cls : forall e c, ev_class s e c -> ev_class s' e c;
  x_new : exists l, agenda s' = agenda s ++ l /\ next_eid s' = (next_eid s + length l)%nat /\
                    new_ok (now s) (next_eid s) l /\ forall x, In x l -> ev_class s' (e_ev x) (e_prio x) }.

Definition ext (s s' : state) : Prop := kinv s -> extr s s'.

Lemma new_ok_app t n l1 l2 : new_ok t n l1 -> new_ok t (n + length l1) l2 -> new_ok t n (l1 ++ l2).
Proof.
  revert n. induction l1 as [|x r IH]; cbn [new_ok app length]; intros n H1 H2.
  - rewrite Nat.add_0_r in H2. exact H2.
  - destruct H1 as (A & B & C). split; [exact A|]. split; [exact B|].
    apply IH; [exact C|]. replace (S n + length r)%nat with (n + S (length r))%nat by lia. exact H2.
Qed.

Lemma extr_refl s : kinv s -> extr s s.
Proof.
  intros K. constructor; [exact K|reflexivity|auto|].
  exists []. rewrite app_nil_r. cbn. repeat split; [lia|intros x []].
Qed.

Lemma extr_trans s s1 s2 : extr s s1 -> extr s1 s2 -> extr s s2.
Proof.
  intros [K1 N1 C1 (l1 & A1 & E1 & O1 & P1)] [K2 N2 C2 (l2 & A2 & E2 & O2 & P2)].
  constructor; [exact K2|congruence|auto|].
  exists (l1 ++ l2). rewrite A2, A1, app_assoc. split; [reflexivity|].
  rewrite app_length. split; [lia|]. split.
  - apply new_ok_app; [exact O1|]. rewrite <- E1, <- N1. exact O2.
  - intros x Hx. apply in_app_or in Hx. destruct Hx as [Hx|Hx]; [apply C2, P1, Hx|apply P2, Hx].
Qed.

Lemma ext_refl s : ext s s.
Proof. intros K. apply extr_refl, K. Qed.

Lemma ext_trans s s1 s2 : ext s s1 -> ext s1 s2 -> ext s s2.
Proof. intros H1 H2 K. pose proof (H1 K) as X. eapply extr_trans; [exact X|]. apply H2, (x_kinv _ _ X). Qed.

(* the second leg may use what is known about the first *)
Lemma ext_bind s s1 s2 : ext s s1 -> (kinv s -> extr s s1 -> ext s1 s2) -> ext s s2.
Proof. intros H1 H2 K. pose proof (H1 K) as X. eapply extr_trans; [exact X|]. apply (H2 K X), (x_kinv _ _ X). Qed.

(* ---- primitives ---- *)

Lemma ext_frame s s' :
  now s' = now s -> agenda s' = agenda s -> next_eid s' = next_eid s -> events s' = events s -> procs s' = procs s ->
  ext s s'.
Proof.
  intros Hn Ha He Hv Hp [K1 K2].
  assert (C : forall e c, ev_class s e c -> ev_class s' e c) by (unfold ev_class; rewrite Hv; auto).
  constructor; [|exact Hn|exact C|].
  - split; [rewrite Hv; exact K1|]. rewrite Hp. intros p pr H. apply C, (K2 _ _ H).
  - exists []. rewrite app_nil_r, Ha, He. cbn. repeat split; [lia|intros x []].
Qed.

Lemma ext_set_active a s : ext s (set_active a s). Proof. apply ext_frame; reflexivity. Qed.
Lemma ext_set_glob g s : ext s (set_glob g s). Proof. apply ext_frame; reflexivity. Qed.
Lemma ext_add_obs o s : ext s (add_obs o s). Proof. apply ext_frame; reflexivity. Qed.

Lemma nth_error_upd_nth {A} (f : A -> A) l n m :
  nth_error (upd_nth n f l) m = if Nat.eqb m n then option_map f (nth_error l m) else nth_error l m.
Proof.
  revert n m. induction l as [|x t IH]; intros n m.
  - destruct n; destruct m; cbn; try reflexivity. destruct (Nat.eqb m n); reflexivity.
  - destruct n, m; cbn [upd_nth nth_error Nat.eqb option_map]; try reflexivity. apply IH.
Qed.

(* changing events only (same agenda, clock, procs) *)
Lemma ext_events s s' :
  now s' = now s -> agenda s' = agenda s -> next_eid s' = next_eid s -> procs s' = procs s ->
  (kinv s -> forall e ev, nth_error (events s) e = Some ev ->
       exists ev', nth_error (events s') e = Some ev' /\ kclass (kind ev') = kclass (kind ev)) ->
  (kinv s -> forall e ev', nth_error (events s') e = Some ev' -> kclass (kind ev') = URGENT -> out ev' <> None) ->
  ext s s'.
Proof.
  intros Hn Ha He Hp Hc Hk K. pose proof K as [K1 K2].
  assert (C : forall e c, ev_class s e c -> ev_class s' e c).
  { intros e c (ev & H1 & H2). destruct (Hc K _ _ H1) as (ev' & H3 & H4). exists ev'. split; [exact H3|congruence]. }
  constructor; [|exact Hn|exact C|].
  - split; [exact (Hk K)|]. rewrite Hp. intros p pr H. apply C, (K2 _ _ H).
  - exists []. rewrite app_nil_r, Ha, He. cbn. repeat split; [lia|intros x []].
Qed.

Lemma ext_upd_event e f s :
  (kinv s -> forall ev, nth_error (events s) e = Some ev ->
       kclass (kind (f ev)) = kclass (kind ev) /\ (out ev <> None -> out (f ev) <> None)) ->
  ext s (upd_event e f s).
Proof.
  intros Hf. apply ext_events; try reflexivity; intros K; cbn.
  - intros e0 ev H. rewrite nth_error_upd_nth. destruct (Nat.eqb e0 e) eqn:E.
    + apply Nat.eqb_eq in E. subst e0. pose proof (Hf K _ H) as Hfe. rewrite H. cbn. exists (f ev). split; [reflexivity|apply Hfe].
    + exists ev. split; [exact H|reflexivity].
  - intros e0 ev'. rewrite nth_error_upd_nth. destruct (Nat.eqb e0 e) eqn:E.
    + apply Nat.eqb_eq in E. subst e0. destruct (nth_error (events s) e) as [ev|] eqn:H; cbn; [|discriminate].
      intros H'; injection H' as <-. destruct (Hf K _ eq_refl) as [A B]. rewrite A. intros U. apply B. exact (proj1 K _ _ H U).
    + intros H. exact (proj1 K _ _ H).
Qed.

Lemma ext_new_event ev s :
  (kclass (kind ev) = URGENT -> out ev <> None) -> ext s (snd (new_event ev s)).
Proof.
  intros Hev. apply ext_events; try reflexivity; intros K; cbn.
  - intros e0 ev0 H. exists ev0. split; [|reflexivity]. rewrite nth_error_app1; [exact H|]. apply nth_error_Some. congruence.
  - intros e0 ev'. destruct (Nat.lt_ge_cases e0 (length (events s))) as [L|L].
    + rewrite nth_error_app1 by exact L. apply (proj1 K).
    + rewrite nth_error_app2 by exact L. destruct (e0 - length (events s))%nat as [|k]; cbn.
      * intros H; injection H as <-. exact Hev.
      * destruct k; discriminate.
Qed.

Lemma ev_class_new ev s : ev_class (snd (new_event ev s)) (fst (new_event ev s)) (kclass (kind ev)).
Proof.
  exists ev. cbn. split; [|reflexivity]. rewrite nth_error_app2 by lia. rewrite Nat.sub_diag. reflexivity.
Qed.

Lemma ext_schedule e pr d s : 0 <= d -> (kinv s -> ev_class s e pr) -> ext s (schedule e pr d s).
Proof.
  intros Hd Hc K. constructor; [exact K|reflexivity|intros e0 c H; exact H|].
  exists [mkEntry (Qred (now s + d)) pr (next_eid s) e].
  split; [reflexivity|]. split; [cbn; lia|]. split.
  - cbn [new_ok e_eid e_time]. split; [reflexivity|]. split; [|exact I]. rewrite Qred_correct. lra.
  - intros x [<-|[]]. cbn [e_ev e_prio]. apply Hc, K.
Qed.

Lemma ext_upd_proc p f s :
  (kinv s -> forall pr0, nth_error (procs s) p = Some pr0 -> ev_class s (pev (f pr0)) NORMAL) ->
  ext s (upd_proc p f s).
Proof.
  intros Hf K. pose proof K as [K1 K2]. constructor; [|reflexivity|auto|].
  - split; [exact K1|]. cbn. intros q pr. rewrite nth_error_upd_nth. destruct (Nat.eqb q p) eqn:E.
    + apply Nat.eqb_eq in E. subst q. destruct (nth_error (procs s) p) as [pr0|] eqn:H; cbn; [|discriminate].
      intros H'; injection H' as <-. exact (Hf K _ eq_refl).
    + apply K2.
  - exists []. rewrite app_nil_r. cbn. repeat split; [lia|intros x []].
Qed.

Lemma ext_add_proc pr s : (kinv s -> ev_class s (pev pr) NORMAL) -> ext s (set_procs (procs s ++ [pr]) s).
Proof.
  intros Hc K. pose proof K as [K1 K2]. constructor; [|reflexivity|auto|].
  - split; [exact K1|]. cbn. intros q pr0 H. destruct (Nat.lt_ge_cases q (length (procs s))) as [L|L].
    + rewrite nth_error_app1 in H by exact L. exact (K2 _ _ H).
    + rewrite nth_error_app2 in H by exact L. destruct (q - length (procs s))%nat as [|k]; cbn in H.
      * injection H as <-. exact (Hc K).
      * destruct k; discriminate.
  - exists []. rewrite app_nil_r. cbn. repeat split; [lia|intros x []].
Qed.

(* setters of event fields that keep the class and never reset an outcome *)
Lemma ext_set_cbs e c s : ext s (upd_event e (ev_set_cbs c) s).
Proof. apply ext_upd_event. intros _ ev _. split; [reflexivity|auto]. Qed.
Lemma ext_set_defused e s : ext s (upd_event e ev_set_defused s).
Proof. apply ext_upd_event. intros _ ev _. split; [reflexivity|auto]. Qed.
Lemma ext_set_out e o s : ext s (upd_event e (ev_set_out (Some o)) s).
Proof. apply ext_upd_event. intros _ ev _. split; [reflexivity|]. intros _. cbn. discriminate. Qed.
Lemma ext_add_callback e c s : ext s (add_callback e c s).
Proof.
  apply ext_upd_event. intros _ ev _. unfold ev_add_cb. destruct (cbs ev); split; try reflexivity; auto.
Qed.

Lemma kclass_01 k : kclass k = URGENT \/ kclass k = NORMAL.
Proof. destruct k; cbn; auto. Qed.

(* an untriggered event is of the normal class *)
Lemma pending_normal s e ev : kinv s -> get_event e s = Some ev -> out ev = None -> ev_class s e NORMAL.
Proof.
  intros [K1 _] H O. exists ev. split; [exact H|]. destruct (kclass_01 (kind ev)) as [U|N]; [|exact N].
  exfalso. exact (K1 _ _ H U O).
Qed.

(* ------------------------------------------------------------------------------------------------ *)
(* one lemma per function of the model *)

Ltac ext_step lem := eapply ext_bind; [apply lem|]; let K := fresh "K" in let X := fresh "X" in intros K X.

Lemma ext_trigger e o s : (kinv s -> ev_class s e NORMAL) -> ext s (trigger_event e o s).
Proof.
  intros H. unfold trigger_event. eapply ext_bind; [apply ext_set_out|]. intros K X.
  apply ext_schedule; [lra|]. intros _. apply (x_cls _ _ X), H, K.
Qed.

Lemma ext_cond_check c op s : ext s (cond_check c op s).
Proof.
  unfold cond_check.
  destruct (get_event c s) as [cev|] eqn:Hc; [|apply ext_refl].
  destruct (get_event op s) as [oev|] eqn:Ho; [|apply ext_refl].
  destruct (out cev) eqn:Oc; [apply ext_refl|].
  destruct (kind cev) as [| | | | |all ops count|] eqn:Kc; try apply ext_refl.
  assert (Cc : ev_class s c NORMAL) by (exists cev; split; [exact Hc|rewrite Kc; reflexivity]).
  assert (E1 : ext s (upd_event c (ev_set_kind (KCond all ops (S count))) s)).
  { apply ext_upd_event. intros _ ev Hev. unfold get_event in Hc. rewrite Hc in Hev. injection Hev as <-.
    rewrite Kc. split; [reflexivity|auto]. }
  destruct (out oev) as [[v|x]|].
  - destruct (cond_evaluate all (length ops) (S count)); [|exact E1].
    eapply ext_bind; [exact E1|]. intros K X. apply ext_trigger. intros _. apply (x_cls _ _ X), Cc.
  - eapply ext_bind; [exact E1|]. intros K X. eapply ext_bind; [apply ext_set_defused|]. intros K1 X1.
    apply ext_trigger. intros _. apply (x_cls _ _ X1), (x_cls _ _ X), Cc.
  - destruct (cond_evaluate all (length ops) (S count)); [|exact E1].
    eapply ext_bind; [exact E1|]. intros K X. apply ext_trigger. intros _. apply (x_cls _ _ X), Cc.
Qed.

Lemma ext_remove_check_from c o s : ext s (remove_check_from c o s).
Proof.
  unfold remove_check_from. destruct (get_event o s) as [oev|]; [|apply ext_refl].
  destruct (cbs oev) as [l|]; [|apply ext_refl]. destruct (mem_cb (CbCheck c) l); [apply ext_set_cbs|apply ext_refl].
Qed.

Lemma ext_remove_ops rec c :
  (forall o s s', rec o s = Some s' -> ext s s') ->
  forall l s s', remove_ops rec c l s = Some s' -> ext s s'.
Proof.
  intros Hrec. induction l as [|o t IH]; intros s s'; cbn [remove_ops].
  - intros H; injection H as <-. apply ext_refl.
  - destruct (get_event o s) as [oev|]; [|discriminate].
    destruct (is_cond oev).
    + destruct (rec o (remove_check_from c o s)) as [s2|] eqn:R; [|discriminate]. intros H.
      eapply ext_trans; [apply ext_remove_check_from|]. eapply ext_trans; [eapply Hrec, R|]. apply IH, H.
    + intros H. eapply ext_trans; [apply ext_remove_check_from|]. apply IH, H.
Qed.

Lemma ext_remove_checks fuel : forall c s s', remove_checks fuel c s = Some s' -> ext s s'.
Proof.
  induction fuel as [|f IH]; intros c s s'; cbn [remove_checks]; [discriminate|].
  destruct (get_event c s) as [cev|]; [|discriminate].
  destruct (kind cev); try (intros H; injection H as <-; apply ext_refl).
  apply ext_remove_ops. exact IH.
Qed.

Lemma ext_cond_build c s : ext s (fst (cond_build c s)).
Proof.
  unfold cond_build. destruct (remove_checks (S c) c s) as [s1|] eqn:R; [|apply ext_refl].
  pose proof (ext_remove_checks _ _ _ _ R) as E1.
  destruct (get_event c s1) as [cev|]; [|exact E1].
  destruct (out cev) as [[v|x]|]; try exact E1.
  destruct (kind cev); try exact E1.
  destruct (populate (S c) (events s1) ops); [|exact E1].
  cbn [fst]. eapply ext_trans; [exact E1|apply ext_set_out].
Qed.

Lemma ext_call_timeout d v s : ext s (fst (call_timeout d v s)).
Proof.
  unfold call_timeout. destruct (neg_delay d) eqn:N; [apply ext_refl|].
  assert (Hd : 0 <= d).
  { unfold neg_delay in N. destruct (d ?= 0) eqn:C; try discriminate.
    - apply Qeq_alt in C. lra.
    - apply Qgt_alt in C. lra. }
  set (EV := mkEvent (Some []) (Some (Ok v)) false KTimeout).
  assert (X1 : ext s (snd (new_event EV s))) by (apply ext_new_event; intros _; discriminate).
  pose proof (ev_class_new EV s) as C1.
  destruct (new_event EV s) as [e s1]. cbn [fst snd] in *.
  eapply ext_trans; [exact X1|]. apply ext_schedule; [exact Hd|]. intros _. exact C1.
Qed.

Lemma ext_call_event s : ext s (fst (call_event s)).
Proof.
  unfold call_event. set (EV := mkEvent (Some []) None false KPlain).
  assert (X1 : ext s (snd (new_event EV s))) by (apply ext_new_event; cbn; discriminate).
  destruct (new_event EV s) as [e s1]. exact X1.
Qed.

Lemma ext_call_succeed e v s : ext s (fst (call_succeed e v s)).
Proof.
  unfold call_succeed. destruct (get_event e s) as [ev|] eqn:H; [|apply ext_refl].
  unfold is_triggered. destruct (out ev) eqn:O; [apply ext_refl|]. cbn [fst].
  apply ext_trigger. intros K. eapply pending_normal; eassumption.
Qed.

Lemma ext_call_fail e x s : ext s (fst (call_fail e x s)).
Proof.
  unfold call_fail. destruct (get_event e s) as [ev|] eqn:H; [|apply ext_refl].
  unfold is_triggered. destruct (out ev) eqn:O; [apply ext_refl|].
  destruct x; try apply ext_refl. cbn [fst].
  apply ext_trigger. intros K. eapply pending_normal; eassumption.
Qed.

Lemma ext_call_spawn codes code arg s : ext s (fst (call_spawn codes code arg s)).
Proof.
  unfold call_spawn. destruct (nth_error codes code) as [pr|]; [|apply ext_refl].
  set (p := length (procs s)).
  set (EV1 := mkEvent (Some []) None false (KProcess p)).
  assert (X1 : ext s (snd (new_event EV1 s))) by (apply ext_new_event; cbn; discriminate).
  pose proof (ev_class_new EV1 s) as C1.
  destruct (new_event EV1 s) as [pe s1]. cbn [fst snd] in X1, C1.
  set (EV2 := mkEvent (Some [CbResume p]) (Some (Ok VNone)) false (KInit p)).
  assert (X2 : ext s1 (snd (new_event EV2 s1))) by (apply ext_new_event; intros _; discriminate).
  pose proof (ev_class_new EV2 s1) as C2.
  destruct (new_event EV2 s1) as [ie s2]. cbn [fst snd] in X2, C2.
  cbv beta iota. cbn [fst].
  eapply ext_trans; [exact X1|]. eapply ext_bind; [exact X2|]. intros K1 XX2.
  eapply ext_bind with (s1 := schedule ie URGENT 0 s2); [apply ext_schedule; [lra|intros _; exact C2]|]. intros K2 XX3.
  apply ext_add_proc. intros _. cbn [pev]. apply (x_cls _ _ XX3), (x_cls _ _ XX2), C1.
Qed.

Lemma ext_call_interrupt e cause s : ext s (fst (call_interrupt e cause s)).
Proof.
  unfold call_interrupt. destruct (get_event e s) as [ev|]; [|apply ext_refl].
  destruct (kind ev); try apply ext_refl.
  destruct (is_triggered ev); [apply ext_refl|].
  destruct (match active s with Some a => Nat.eqb a p | None => false end); [apply ext_refl|].
  set (EV := mkEvent (Some [CbInterrupt (length (events s))]) (Some (Fail (EInterrupt, [cause]))) true (KInterruption p)).
  assert (X1 : ext s (snd (new_event EV s))) by (apply ext_new_event; intros _; discriminate).
  pose proof (ev_class_new EV s) as C1.
  destruct (new_event EV s) as [i s1] eqn:NE. cbn [fst snd] in X1, C1.
  assert (i = length (events s)) by (unfold new_event in NE; injection NE as <- _; reflexivity). subst i.
  cbn [fst]. eapply ext_trans; [exact X1|]. apply ext_schedule; [lra|]. intros _. exact C1.
Qed.

Lemma ext_cond_subscribe c ops : forall s, ext s (cond_subscribe c ops s).
Proof.
  induction ops as [|o t IH]; intros s; cbn [cond_subscribe]; [apply ext_refl|].
  eapply ext_trans; [|apply IH].
  destruct (get_event o s) as [oev|]; [|apply ext_refl].
  destruct (is_processed oev); [apply ext_cond_check|apply ext_add_callback].
Qed.

Lemma ext_call_cond all es s : ext s (fst (call_cond all es s)).
Proof.
  unfold call_cond. destruct (negb (all_valid es s)); [apply ext_refl|].
  set (EV := mkEvent (Some []) None false (KCond all es 0)).
  assert (X1 : ext s (snd (new_event EV s))) by (apply ext_new_event; cbn; discriminate).
  pose proof (ev_class_new EV s) as C1.
  destruct (new_event EV s) as [c s1]. cbn [fst snd] in X1, C1.
  destruct es as [|e0 es'].
  - cbn [fst]. eapply ext_trans; [exact X1|]. apply ext_trigger. intros _. exact C1.
  - cbn [fst]. eapply ext_trans; [exact X1|]. eapply ext_trans; [apply ext_cond_subscribe|apply ext_add_callback].
Qed.

Lemma ext_call_probe e n s : ext s (fst (call_probe e n s)).
Proof.
  unfold call_probe. destruct (get_event e s) as [ev|]; [|apply ext_refl].
  destruct (is_processed ev); [apply ext_refl|apply ext_add_callback].
Qed.

Lemma call_query_state q e s : fst (call_query q e s) = s.
Proof.
  unfold call_query. destruct (get_event e s) as [ev|]; [|reflexivity].
  destruct q; try reflexivity.
  - destruct (out ev) as [[?|?]|]; reflexivity.
  - destruct (raw_value ev); reflexivity.
  - destruct (kind ev); reflexivity.
Qed.

Lemma ext_do_call codes c s : ext s (fst (do_call codes c s)).
Proof.
  destruct c; cbn [do_call].
  - apply ext_call_timeout.
  - apply ext_call_event.
  - apply ext_call_succeed.
  - apply ext_call_fail.
  - apply ext_call_spawn.
  - apply ext_call_interrupt.
  - apply ext_call_cond.
  - apply ext_call_cond.
  - apply ext_call_probe.
  - rewrite call_query_state. apply ext_refl.
  - apply ext_refl.
  - apply ext_refl.
  - apply ext_add_obs.
  - apply ext_refl.
  - apply ext_set_glob.
Qed.

Lemma ext_run_frag {A} codes (f : frag A) : forall s, ext s (fst (run_frag codes f s)).
Proof.
  induction f as [v a|v|x|c k IH]; intros s; cbn [run_frag fst]; try apply ext_refl.
  pose proof (ext_do_call codes c s) as X. destruct (do_call codes c s) as [s1 o]. cbn [fst] in X.
  eapply ext_trans; [exact X|apply IH].
Qed.

Lemma ext_set_target p t s : ext s (upd_proc p (proc_set_target t) s).
Proof. apply ext_upd_proc. intros K pr0 H. cbn [proc_set_target pev]. exact (proj2 K _ _ H). Qed.

Lemma ext_proc_finish p pr o s : (kinv s -> ev_class s (pev pr) NORMAL) -> ext s (proc_finish p pr o s).
Proof.
  intros H. unfold proc_finish. eapply ext_trans; [apply ext_trigger, H|].
  eapply ext_trans; [apply ext_set_target|apply ext_set_active].
Qed.

Lemma ext_proc_wait p e s : ext s (proc_wait p e s).
Proof.
  unfold proc_wait. eapply ext_trans; [apply ext_add_callback|].
  eapply ext_trans; [apply ext_set_target|apply ext_set_active].
Qed.

Lemma ext_put_proc p pr s : (kinv s -> ev_class s (pev pr) NORMAL) -> ext s (put_proc p pr s).
Proof. intros H. unfold put_proc. apply ext_upd_proc. intros K _ _. exact (H K). Qed.

Lemma ext_resume_loop codes fuel : forall p e s, ext s (fst (resume_loop fuel codes p e s)).
Proof.
  induction fuel as [|f IH]; intros p e s; cbn [resume_loop]; [apply ext_refl|].
  destruct (get_event e s) as [ev|]; [|apply ext_refl].
  destruct (get_proc p s) as [pr|] eqn:Hp; [|apply ext_refl].
  destruct (out ev) as [o|]; [|apply ext_refl].
  set (s1 := match o with Fail _ => upd_event e ev_set_defused s | Ok _ => s end).
  assert (E1 : ext s s1) by (subst s1; destruct o; [apply ext_refl|apply ext_set_defused]).
  pose proof (ext_run_frag codes (resume (pcode pr) (pst pr) o) s1) as E2.
  destruct (run_frag codes (resume (pcode pr) (pst pr) o) s1) as [s2 r]. cbn [fst] in E2.
  eapply ext_bind; [eapply ext_trans; [exact E1|exact E2]|]. intros K X12.
  assert (Cp : ev_class s2 (pev pr) NORMAL) by (apply (x_cls _ _ X12); exact (proj2 K _ _ Hp)).
  destruct r as [v a|v|x].
  - assert (E3 : ext s2 (put_proc p (proc_set_st pr a) s2)) by (apply ext_put_proc; intros _; exact Cp).
    destruct v; try exact E3.
    destruct (get_event e0 (put_proc p (proc_set_st pr a) s2)) as [ev'|]; [|exact E3].
    destruct (is_processed ev').
    + eapply ext_trans; [exact E3|apply IH].
    + cbn [fst]. eapply ext_trans; [exact E3|apply ext_proc_wait].
  - cbn [fst]. apply ext_proc_finish. intros _. exact Cp.
  - cbn [fst]. apply ext_proc_finish. intros _. exact Cp.
Qed.

Lemma ext_resume_proc fuel codes p e s : ext s (fst (resume_proc fuel codes p e s)).
Proof. unfold resume_proc. eapply ext_trans; [apply ext_set_active|apply ext_resume_loop]. Qed.

Lemma ext_do_interruption fuel codes i s : ext s (fst (do_interruption fuel codes i s)).
Proof.
  unfold do_interruption.
  destruct (get_event i s) as [iev|]; [|apply ext_refl].
  destruct (kind iev); try apply ext_refl.
  destruct (get_proc p s) as [pr|]; [|apply ext_refl].
  destruct (get_event (pev pr) s) as [pe|]; [|apply ext_refl].
  destruct (is_triggered pe); [apply ext_refl|].
  destruct (ptarget pr) as [t|]; [|apply ext_refl].
  destruct (get_event t s) as [tev|]; [|apply ext_refl].
  destruct (cbs tev) as [l|]; [|apply ext_refl].
  destruct (mem_cb (CbResume p) l); [|apply ext_refl].
  eapply ext_trans; [apply ext_set_cbs|apply ext_resume_proc].
Qed.

Lemma stop_cb_state e s : fst (stop_cb e s) = s.
Proof. unfold stop_cb. destruct (get_event e s) as [ev|]; [|reflexivity]. destruct (out ev) as [[?|?]|]; reflexivity. Qed.

Lemma ext_run_cb fuel codes e c s : ext s (fst (run_cb fuel codes e c s)).
Proof.
  destruct c; cbn [run_cb fst].
  - apply ext_resume_proc.
  - apply ext_cond_check.
  - apply ext_cond_build.
  - apply ext_do_interruption.
  - rewrite stop_cb_state. apply ext_refl.
  - apply ext_add_obs.
Qed.

Lemma ext_run_callbacks fuel codes e l : forall s, ext s (fst (run_callbacks fuel codes e l s)).
Proof.
  induction l as [|c t IH]; intros s; cbn [run_callbacks fst]; [apply ext_refl|].
  pose proof (ext_run_cb fuel codes e c s) as X. destruct (run_cb fuel codes e c s) as [s1 r]. cbn [fst] in X.
  assert (D : ext s (fst (let '(s2, r2) := run_callbacks fuel codes e t s1 in
                          match r2 with ROk => (s2, r) | _ => (s2, r2) end))).
  { pose proof (IH s1) as Y. destruct (run_callbacks fuel codes e t s1) as [s2 r2]. cbn [fst] in Y.
    destruct r2; cbn [fst]; eapply ext_trans; eassumption. }
  destruct r; try (destruct (is_stop_cb c && is_exit _); [exact D|exact X]).
  eapply ext_trans; [exact X|apply IH].
Qed.

(* step = pop the minimum, then only schedule *)
Lemma step_spec fuel codes s s' r :
  step fuel codes s = (s', r) ->
  (pop_min (agenda s) = None /\ s' = s /\ r = REmpty) \/
  (exists m rest, pop_min (agenda s) = Some (m, rest) /\ ext (pop_state m rest s) s').
Proof.
  unfold step. destruct (pop_min (agenda s)) as [[m rest]|].
  - intros H. right. exists m, rest. split; [reflexivity|].
    destruct (get_event (e_ev m) (pop_state m rest s)) as [ev|]; [|injection H as <- _; apply ext_refl].
    destruct (cbs ev) as [l|]; [|injection H as <- _; apply ext_refl].
    pose proof (ext_run_callbacks fuel codes (e_ev m) l (upd_event (e_ev m) (ev_set_cbs None) (pop_state m rest s))) as X.
    destruct (run_callbacks fuel codes (e_ev m) l (upd_event (e_ev m) (ev_set_cbs None) (pop_state m rest s))) as [s2 r2].
    cbn [fst] in X.
    assert (s' = s2) by (destruct r2; injection H as <- _; reflexivity). subst s'.
    eapply ext_trans; [apply ext_set_cbs|exact X].
  - intros H; injection H as <- <-. left. auto.
Qed.

(* the part of run() before the loop *)
Lemma run_prelude_inl u s s' r : run_prelude u s = inl (s', r) -> s' = s.
Proof.
  destruct u as [|t|e]; cbn [run_prelude]; [discriminate| |].
  - destruct (Qle_bool t (now s)); [intros H; injection H as <- _; reflexivity|].
    destruct (new_event _ s); discriminate.
  - destruct (get_event e s) as [ev|]; [|intros H; injection H as <- _; reflexivity].
    destruct (is_processed ev); [intros H; injection H as <- _; reflexivity|discriminate].
Qed.

Lemma ext_run_prelude u s s1 : run_prelude u s = inr s1 -> ext s s1.
Proof.
  destruct u as [|t|e]; cbn [run_prelude].
  - intros H; injection H as <-. apply ext_refl.
  - destruct (Qle_bool t (now s)) eqn:L; [discriminate|].
    assert (Hd : 0 <= t - now s).
    { destruct (Qlt_le_dec (now s) t) as [Hlt|Hle]; [lra|]. apply Qle_bool_iff in Hle. congruence. }
    set (EV := mkEvent (Some []) (Some (Ok VNone)) false KSentinel).
    assert (X1 : ext s (snd (new_event EV s))) by (apply ext_new_event; intros _; discriminate).
    pose proof (ev_class_new EV s) as C1.
    destruct (new_event EV s) as [e s0]. cbn [fst snd] in X1, C1.
    intros H; injection H as <-.
    eapply ext_trans; [exact X1|]. eapply ext_trans; [apply ext_schedule; [exact Hd|intros _; exact C1]|apply ext_add_callback].
  - destruct (get_event e s) as [ev|]; [|discriminate].
    destruct (is_processed ev); [discriminate|]. intros H; injection H as <-. apply ext_add_callback.
Qed.
