(* Kernel/DeliverThm.v -- C02, part 4: clean executions, and the theorems of the property.

     creach codes s          s is reached from an initial state by module-level code, run() preludes and CLEAN steps
                             (step_clean, DeliverInv.v: no exception escaped from the middle of a callback loop)
     creach_inv              creach s -> winv None None s /\ uinv s
     run_loop_clean / creach_run     run() as a sequence of steps
     waiter_unique, waiter_registered, resumed_exactly_once, callbacks_exactly_once, resume_gets_outcome,
     yield_processed_continues, process_event_outcome, failure_never_lost, failure_propagates_from_run *)
From Coq Require Import ZArith QArith List Bool Lia.
From ONL Require Import Kernel.Model Kernel.Keys Kernel.Deliver Kernel.DeliverInv Kernel.DeliverWf.
Import ListNotations.
Local Open Scope nat_scope.

(* ------------------------------------------------------------------------------------------------ *)
(* clean executions *)

Lemma winv_init t0 : winv None None (init_state t0).
Proof.
  constructor.
  - intros x l p H. cbn in H. unfold cbs_of, get_event in H. cbn in H. destruct x; discriminate.
  - intros p t H. unfold tgt, get_proc in H. cbn in H. destruct p; discriminate.
  - intros e t H. discriminate.
  - intros q H. discriminate.
Qed.

Lemma winv_run_prelude u s s1 : run_prelude u s = inr s1 -> winv None None s -> winv None None s1.
Proof.
  destruct u as [|t|e]; cbn [run_prelude].
  - intros H; injection H as <-. auto.
  - destruct (Qle_bool t (now s)); [discriminate|]. unfold new_event.
    intros H; injection H as <-. intros W.
    eapply winv_sim; [apply sim_add_callback; reflexivity|]. eapply winv_sim; [apply sim_schedule|].
    apply (winv_new_event None None s (mkEvent (Some []) (Some (Ok VNone)) false KSentinel)); [apply cnt0_nil|exact W].
  - destruct (get_event e s) as [ev|]; [|discriminate].
    destruct (is_processed ev); [discriminate|]. intros H; injection H as <-. intros W.
    eapply winv_sim; [apply sim_add_callback; reflexivity|exact W].
Qed.

Inductive creach (codes : list prog) : state -> Prop :=
| cr_init t0 : creach codes (init_state t0)
| cr_top s A (f : frag A) : creach codes s -> creach codes (fst (exec_top codes f s))
| cr_prelude s u s1 : creach codes s -> run_prelude u s = inr s1 -> creach codes s1
| cr_step s fuel : creach codes s -> step_clean fuel codes s -> creach codes (fst (step fuel codes s)).

Lemma creach_inv codes s : creach codes s -> winv None None s /\ uinv s.
Proof.
  induction 1 as [t0|s A f _ [W U]|s u s1 _ [W U] P|s fuel _ [W U] Cl].
  - split; [apply winv_init|apply uinv_init].
  - split; [apply winv_run_frag, W|apply uinv_run_frag, U].
  - split; [eapply winv_run_prelude; eauto|eapply uinv_run_prelude; eauto].
  - split; [apply winv_step; assumption|apply uinv_step, U].
Qed.

(* a step whose callback loop ran to its end is clean: in particular every step that returns normally, and every step
   that raises the undefused failure of its event AFTER the loop *)
Lemma chain_clean fuel codes s m rest ev l s' :
  pop_min (agenda s) = Some (m, rest) -> get_event (e_ev m) s = Some ev -> cbs ev = Some l ->
  cb_chain fuel codes (e_ev m) l (loop_start m rest s) s' -> step_clean fuel codes s.
Proof. intros P G C Ch. unfold step_clean. rewrite P, G, C. eauto. Qed.

Lemma step_ok_clean fuel codes s s' : step fuel codes s = (s', ROk) -> step_clean fuel codes s.
Proof.
  intros St. unfold step_clean. destruct (pop_min (agenda s)) as [[m rest]|] eqn:P; [|exact I].
  destruct (get_event (e_ev m) s) as [ev|] eqn:G.
  - destruct (cbs ev) as [l|] eqn:C; [|exact I].
    destruct (step_invokes _ _ _ _ _ _ _ _ _ St P G C) as [[Ch _]|(pre & c & post & smid & _ & _ & _ & N)]; [eauto|].
    exfalso. apply N. left. reflexivity.
  - unfold step in St. rewrite P, get_event_pop_state, G in St. discriminate.
Qed.

(* run(): every step it takes is clean *)
Fixpoint run_loop_clean (n fuel : nat) (codes : list prog) (s : state) : Prop :=
  match n with
  | O => True
  | S k => step_clean fuel codes s /\
           match step fuel codes s with
           | (s1, ROk) => run_loop_clean k fuel codes s1
           | _ => True
           end
  end.

Definition run_clean (fuel : nat) (codes : list prog) (u : until) (s : state) : Prop :=
  match run_prelude u s with inl _ => True | inr s1 => run_loop_clean fuel fuel codes s1 end.

Lemma creach_run_loop codes fuel u : forall n s,
  creach codes s -> run_loop_clean n fuel codes s -> creach codes (fst (run_loop n fuel codes u s)).
Proof.
  induction n as [|n IH]; intros s R Cl; cbn [run_loop]; [exact R|].
  destruct Cl as [C1 C2]. pose proof (cr_step codes s fuel R C1) as R1.
  destruct (step fuel codes s) as [s1 r]. cbn [fst] in R1.
  destruct r; try exact R1. apply IH; assumption.
Qed.

Lemma creach_run codes fuel u s : creach codes s -> run_clean fuel codes u s -> creach codes (fst (run fuel codes u s)).
Proof.
  intros R Cl. unfold run, run_clean in *. destruct (run_prelude u s) as [[s' r]|s1] eqn:P.
  - apply run_prelude_inl in P. subst s'. exact R.
  - apply creach_run_loop; [eapply cr_prelude; eauto|exact Cl].
Qed.

(* ------------------------------------------------------------------------------------------------ *)
(* waiter_unique *)

Lemma tgt_get s p pr : get_proc p s = Some pr -> tgt s p = Some (ptarget pr).
Proof. unfold tgt. now intros ->. Qed.

Theorem waiter_unique codes s p pr t :
  creach codes s -> get_proc p s = Some pr -> ptarget pr = Some t ->
  exists tev l, get_event t s = Some tev /\ cbs tev = Some l /\ cnt p l = 1 /\
    forall x xev xl, x <> t -> get_event x s = Some xev -> cbs xev = Some xl -> cnt p xl = 0.
Proof.
  intros R P T. destruct (creach_inv _ _ R) as [W _].
  assert (TG : tgt s p = Some (Some t)) by (rewrite (tgt_get _ _ _ P), T; reflexivity).
  destruct (w_tg _ _ _ W p t TG ltac:(discriminate)) as (l & H & C).
  destruct (w_in _ _ _ W t l p H C) as (_ & C1 & _).
  cbn [ocbs] in H. unfold cbs_of in H. destruct (get_event t s) as [tev|] eqn:G; [|discriminate].
  exists tev, l. split; [reflexivity|]. split; [exact H|]. split; [exact C1|].
  intros x xev xl N Gx Cx. destruct (cnt p xl) eqn:K; [reflexivity|]. exfalso.
  assert (Hx : ocbs None s x = Some xl) by (cbn; unfold cbs_of; now rewrite Gx).
  destruct (w_in _ _ _ W x xl p Hx ltac:(lia)) as (_ & _ & D). rewrite TG in D. injection D as ->. contradiction.
Qed.

(* ... and only suspended processes are registered: a callback CbResume p sits only in the list of p's target *)
Theorem waiter_registered codes s x xev xl p :
  creach codes s -> get_event x s = Some xev -> cbs xev = Some xl -> In (CbResume p) xl ->
  exists pr, get_proc p s = Some pr /\ ptarget pr = Some x /\ cnt p xl = 1.
Proof.
  intros R G C I. destruct (creach_inv _ _ R) as [W _].
  assert (Hx : ocbs None s x = Some xl) by (cbn; unfold cbs_of; now rewrite G).
  destruct (w_in _ _ _ W x xl p Hx (proj2 (cnt_In p xl) I)) as (_ & C1 & D).
  unfold tgt in D. destruct (get_proc p s) as [pr|]; [|discriminate]. cbn in D. injection D as D.
  exists pr. auto.
Qed.

(* exactly-once resumption per wait: the step that processes p's target invokes CbResume p once; a step that
   processes any other event does not invoke it *)
Theorem resumed_exactly_once codes s p pr t m rest ev l :
  creach codes s -> get_proc p s = Some pr -> ptarget pr = Some t ->
  pop_min (agenda s) = Some (m, rest) -> get_event (e_ev m) s = Some ev -> cbs ev = Some l ->
  cnt p l = if Nat.eqb (e_ev m) t then 1 else 0.
Proof.
  intros R P T _ G C. destruct (waiter_unique _ _ _ _ _ R P T) as (tev & lt & Gt & Ct & C1 & Oth).
  destruct (Nat.eqb (e_ev m) t) eqn:E.
  - apply Nat.eqb_eq in E. rewrite E in G. rewrite G in Gt. injection Gt as <-. rewrite C in Ct. injection Ct as <-. exact C1.
  - apply Nat.eqb_neq in E. eapply Oth; eauto.
Qed.

(* ------------------------------------------------------------------------------------------------ *)
(* callbacks_exactly_once *)

Lemma cb_chain_processed fuel codes e l s s' ev :
  cb_chain fuel codes e l s s' -> get_event e s = Some ev -> cbs ev = None ->
  exists ev', get_event e s' = Some ev' /\ cbs ev' = None.
Proof.
  intros Ch G C. destruct (cb_chain_grows _ _ _ _ _ _ Ch _ _ G) as (ev' & G' & Le). exists ev'. split; [exact G'|apply (le_cbs _ _ Le), C].
Qed.

Theorem callbacks_exactly_once fuel codes s s' r m rest ev l :
  step fuel codes s = (s', r) -> pop_min (agenda s) = Some (m, rest) ->
  get_event (e_ev m) s = Some ev -> cbs ev = Some l ->
  (* the list is taken away before the first callback runs *)
  get_event (e_ev m) (loop_start m rest s) = Some (ev_set_cbs None ev) /\
  (* its elements are invoked in order, each once: all of them (then step() answers as the event's outcome says, or raises
     what the stop callback of run(until) raised), or up to the first one that lets something escape *)
  ((cb_chain fuel codes (e_ev m) l (loop_start m rest s) s' /\
    (r = check_failure (e_ev m) s' \/ is_exit r = true) /\
    ((forall c, In c l -> is_stop_cb c = false) -> r = check_failure (e_ev m) s')) \/
   (exists pre c post smid, l = pre ++ c :: post /\ cb_chain fuel codes (e_ev m) pre (loop_start m rest s) smid /\
                            run_cb fuel codes (e_ev m) c smid = (s', r) /\ ~ cb_ok c r)) /\
  (* and the event stays processed in every later state: nothing is invoked again, nothing can be appended *)
  (forall s'', later codes s' s'' -> exists ev'', get_event (e_ev m) s'' = Some ev'' /\ cbs ev'' = None).
Proof.
  intros St P G C. pose proof (loop_start_processed m rest s ev G) as G0.
  split; [exact G0|]. pose proof (step_invokes _ _ _ _ _ _ _ _ _ St P G C) as Inv. split; [exact Inv|].
  assert (Pr : exists ev', get_event (e_ev m) s' = Some ev' /\ cbs ev' = None).
  { destruct Inv as [[Ch _]|(pre & c & post & smid & _ & Ch & Rc & _)].
    - eapply cb_chain_processed; [exact Ch|exact G0|reflexivity].
    - destruct (cb_chain_processed _ _ _ _ _ _ _ Ch G0 eq_refl) as (ev1 & G1 & C1).
      pose proof (grows_run_cb fuel codes (e_ev m) c smid) as Gr. rewrite Rc in Gr. cbn [fst] in Gr.
      destruct (Gr _ _ G1) as (ev2 & G2 & Le). exists ev2. split; [exact G2|apply (le_cbs _ _ Le), C1]. }
  destruct Pr as (ev' & G' & C'). intros s'' L. eapply processed_forever; eauto.
Qed.

(* ------------------------------------------------------------------------------------------------ *)
(* resume_gets_outcome *)

Theorem resume_gets_outcome fuel codes s m rest ev pre p post smid :
  creach codes s -> pop_min (agenda s) = Some (m, rest) -> get_event (e_ev m) s = Some ev ->
  cbs ev = Some (pre ++ CbResume p :: post) ->
  cb_chain (S fuel) codes (e_ev m) pre (loop_start m rest s) smid ->
  exists ev' o pr,
    get_event (e_ev m) smid = Some ev' /\ out ev' = Some o /\
    get_proc p smid = Some pr /\ ptarget pr = Some (e_ev m) /\
    run_cb (S fuel) codes (e_ev m) (CbResume p) smid =
      after_frag fuel codes p pr
        (run_frag codes (resume (pcode pr) (pst pr) o) (feed_state (e_ev m) o (set_active (Some p) smid))) /\
    (forall x, o = Fail x ->
       exists ev1, get_event (e_ev m) (feed_state (e_ev m) o (set_active (Some p) smid)) = Some ev1 /\
                   defused ev1 = true /\ out ev1 = Some (Fail x)).
Proof.
  intros R P G C Ch. destruct (creach_inv _ _ R) as [W U].
  pose proof (winv_loop_start m rest s ev _ W G C) as W0.
  pose proof (winv_chain codes (S fuel) (e_ev m) pre _ _ _ W0 Ch) as W1.
  assert (OE : ocbs (Some (e_ev m, CbResume p :: post)) smid (e_ev m) = Some (CbResume p :: post)) by (cbn; now rewrite Nat.eqb_refl).
  assert (CP : cnt p (CbResume p :: post) <> 0) by (cbn; rewrite Nat.eqb_refl; lia).
  destruct (w_in _ _ _ W1 _ _ p OE CP) as (_ & _ & D).
  unfold tgt in D. destruct (get_proc p smid) as [pr|] eqn:Pp; [|discriminate]. cbn in D. injection D as D.
  destruct (pop_min_spec _ _ _ P) as (In_m & _ & _).
  destruct (proj1 U m In_m) as (ev0 & G0 & O0). rewrite G in G0. injection G0 as <-.
  pose proof (loop_start_processed m rest s ev G) as GL.
  destruct (cb_chain_grows _ _ _ _ _ _ Ch _ _ GL) as (ev' & G' & Le).
  assert (O' : out ev' <> None) by (apply (le_out _ _ Le); exact O0).
  destruct (out ev') as [o|] eqn:Oe; [|contradiction].
  exists ev', o, pr. split; [exact G'|]. split; [exact Oe|]. split; [reflexivity|]. split; [exact D|]. split.
  - cbn [run_cb]. eapply resume_proc_eq; eauto.
  - intros x ->. destruct (feed_state_defused (e_ev m) x (set_active (Some p) smid) ev' G') as (ev1 & G1 & D1 & O1).
    exists ev1. split; [exact G1|]. split; [exact D1|]. now rewrite O1.
Qed.

(* ------------------------------------------------------------------------------------------------ *)
(* yield_processed_continues: the next turn of the loop, with what it feeds *)

Lemma procs_cond_check c op s : procs (cond_check c op s) = procs s.
Proof.
  unfold cond_check. destruct (get_event c s) as [cev|]; [|reflexivity]. destruct (get_event op s) as [oev|]; [|reflexivity].
  destruct (out cev); [reflexivity|]. destruct (kind cev); try reflexivity.
  destruct (out oev) as [[v|x]|]; try reflexivity; destruct (cond_evaluate all (length ops) (S count)); reflexivity.
Qed.

Lemma procs_cond_subscribe c ops : forall s, procs (cond_subscribe c ops s) = procs s.
Proof.
  induction ops as [|o t IH]; intros s; cbn [cond_subscribe]; [reflexivity|]. rewrite IH.
  destruct (get_event o s) as [oev|]; [|reflexivity]. destruct (is_processed oev); [apply procs_cond_check|reflexivity].
Qed.

Lemma procs_do_call codes c s : exists extra, procs (fst (do_call codes c s)) = procs s ++ extra.
Proof.
  assert (Z : forall s', procs s' = procs s -> exists extra, procs s' = procs s ++ extra) by (intros s' ->; exists []; now rewrite app_nil_r).
  destruct c; cbn [do_call]; try (apply Z; reflexivity).
  - apply Z. unfold call_timeout. destruct (neg_delay d); reflexivity.
  - apply Z. unfold call_succeed. destruct (get_event e s); [|reflexivity]. destruct (is_triggered e0); reflexivity.
  - apply Z. unfold call_fail. destruct (get_event e s); [|reflexivity]. destruct (is_triggered e0); [reflexivity|]. destruct x; reflexivity.
  - unfold call_spawn, new_event. destruct (nth_error codes code); [|apply Z; reflexivity]. cbn. eauto.
  - apply Z. unfold call_interrupt. destruct (get_event e s) as [ev|]; [|reflexivity]. destruct (kind ev); try reflexivity.
    destruct (is_triggered ev); [reflexivity|]. destruct (match active s with Some a => Nat.eqb a p | None => false end); reflexivity.
  - apply Z. unfold call_cond, new_event. destruct (negb (all_valid es s)); [reflexivity|]. destruct es; [reflexivity|].
    cbn [fst]. unfold add_callback. cbn [procs upd_event set_events]. rewrite procs_cond_subscribe. reflexivity.
  - apply Z. unfold call_cond, new_event. destruct (negb (all_valid es s)); [reflexivity|]. destruct es; [reflexivity|].
    cbn [fst]. unfold add_callback. cbn [procs upd_event set_events]. rewrite procs_cond_subscribe. reflexivity.
  - apply Z. unfold call_probe. destruct (get_event e s) as [ev|]; [|reflexivity]. destruct (is_processed ev); reflexivity.
  - apply Z. now rewrite call_query_state.
Qed.

Lemma get_proc_run_frag {A} codes (f : frag A) p pr : forall s,
  get_proc p s = Some pr -> get_proc p (fst (run_frag codes f s)) = Some pr.
Proof.
  induction f as [v a|v|x|c k IH]; intros s H; cbn [run_frag fst]; try exact H.
  destruct (procs_do_call codes c s) as (extra & E). destruct (do_call codes c s) as [s1 o]. cbn [fst] in E.
  apply IH. unfold get_proc in *. rewrite E. rewrite nth_error_app1; [exact H|]. apply nth_error_Some. congruence.
Qed.

Lemma get_proc_feed_state e o s p : get_proc p (feed_state e o s) = get_proc p s.
Proof. destruct o; reflexivity. Qed.

Theorem yield_processed_continues f codes p e s ev pr o s2 e' a ev' o' :
  get_event e s = Some ev -> get_proc p s = Some pr -> out ev = Some o ->
  run_frag codes (resume (pcode pr) (pst pr) o) (feed_state e o s) = (s2, FrYield (VEv e') a) ->
  let s3 := put_proc p (proc_set_st pr a) s2 in
  get_event e' s3 = Some ev' -> cbs ev' = None -> out ev' = Some o' ->
  (* no callback is registered, _resume does not return: the loop goes round *)
  resume_loop (S (S f)) codes p e s = resume_loop (S f) codes p e' s3 /\
  (* and that turn feeds the automaton, in the state it yielded in, the outcome of e' (defused first if it failed) *)
  resume_loop (S f) codes p e' s3 =
    after_frag f codes p (proc_set_st pr a) (run_frag codes (resume (pcode pr) a o') (feed_state e' o' s3)).
Proof.
  intros G P O Rf s3 G' C' O'. split.
  - eapply resume_yield_processed; eauto.
  - assert (P3 : get_proc p s3 = Some (proc_set_st pr a)).
    { unfold s3, put_proc. rewrite get_proc_upd, Nat.eqb_refl.
      pose proof (get_proc_run_frag codes (resume (pcode pr) (pst pr) o) p pr (feed_state e o s)) as X.
      rewrite get_proc_feed_state, Rf in X. cbn [fst] in X. rewrite (X P). reflexivity. }
    exact (resume_loop_eq f codes p e' s3 ev' (proc_set_st pr a) o' G' P3 O').
Qed.

(* ------------------------------------------------------------------------------------------------ *)
(* process_event_outcome *)

Definition fres_outcome {A} (r : fres A) : option outcome :=
  match r with FrRet v => Some (Ok v) | FrRaise x => Some (Fail x) | FrYield _ _ => None end.

Theorem process_event_outcome f codes p e s ev pr o s2 res oc :
  uinv s -> get_event e s = Some ev -> get_proc p s = Some pr -> out ev = Some o ->
  run_frag codes (resume (pcode pr) (pst pr) o) (feed_state e o s) = (s2, res) -> fres_outcome res = Some oc ->
  exists pe,
    resume_loop (S f) codes p e s = (proc_finish p pr oc s2, ROk) /\
    get_event (pev pr) s2 = Some pe /\
    let s' := proc_finish p pr oc s2 in
    get_event (pev pr) s' = Some (ev_set_out (Some oc) pe) /\
    agenda s' = agenda s2 ++ [mkEntry (Qred (now s2 + 0)%Q) NORMAL (next_eid s2) (pev pr)] /\
    get_proc p s' = Some (proc_set_target None pr) /\ active s' = None.
Proof.
  intros U G P O Rf Oc.
  pose proof (proj2 U p pr P) as L.
  pose proof (grows_run_frag codes (resume (pcode pr) (pst pr) o) (feed_state e o s)) as G2. rewrite Rf in G2. cbn [fst] in G2.
  assert (L2 : pev_ok s2 pr).
  { eapply pev_ok_grows; [exact G2|]. eapply pev_ok_grows; [apply grows_feed_state|exact L]. }
  destruct L2 as (pe & Gpe & _). exists pe.
  assert (P2 : get_proc p s2 = Some pr).
  { pose proof (get_proc_run_frag codes (resume (pcode pr) (pst pr) o) p pr (feed_state e o s)) as X.
    rewrite get_proc_feed_state, Rf in X. exact (X P). }
  split.
  - destruct res as [v a|v|x]; cbn in Oc; [discriminate| |]; injection Oc as <-.
    + eapply resume_returns; eauto.
    + eapply resume_raises; eauto.
  - split; [exact Gpe|]. destruct (proc_finish_spec p pr oc s2 pe pr Gpe P2) as (A & B & C & D & _). auto.
Qed.

(* ------------------------------------------------------------------------------------------------ *)
(* failure_never_lost *)

Theorem failure_never_lost fuel codes t0 s s' r m rest ev l :
  later codes (init_state t0) s ->
  step fuel codes s = (s', r) -> pop_min (agenda s) = Some (m, rest) ->
  get_event (e_ev m) s = Some ev -> cbs ev = Some l ->
  cb_chain fuel codes (e_ev m) l (loop_start m rest s) s' ->           (* every callback was invoked *)
  (forall c, In c l -> is_stop_cb c = false) ->                        (* e is not the until-event of the running run() *)
  exists ev', get_event (e_ev m) s' = Some ev' /\
    match out ev' with
    | Some (Fail x) => if defused ev' then r = ROk else r = RRaise x
    | Some (Ok _) => r = ROk
    | None => False
    end.
Proof.
  intros L St P G C Ch NS.
  pose proof (uinv_later _ _ _ L (uinv_init t0)) as U.
  destruct (pop_min_spec _ _ _ P) as (In_m & _ & _).
  destruct (proj1 U m In_m) as (ev0 & G0 & O0). rewrite G in G0. injection G0 as <-.
  pose proof (loop_start_processed m rest s ev G) as GL.
  destruct (cb_chain_grows _ _ _ _ _ _ Ch _ _ GL) as (ev' & G' & Le).
  assert (O' : out ev' <> None) by (apply (le_out _ _ Le); exact O0).
  exists ev'. split; [exact G'|].
  assert (Rr : r = check_failure (e_ev m) s').
  { destruct (step_invokes _ _ _ _ _ _ _ _ _ St P G C) as [(Ch2 & _ & X)|(pre & c & post & smid & E & Ch2 & Rc & N)].
    - apply X, NS.
    - exfalso. subst l. (* the chain through pre ++ c :: post says c was ok *)
      clear - Ch Ch2 Rc N. revert Ch Ch2. generalize (loop_start m rest s). induction pre as [|a p IH]; intros s0 Ch Ch2.
      + inversion Ch2; subst. inversion Ch; subst. rewrite Rc in *. match goal with A : (_, _) = (_, _) |- _ => injection A as <- <- end. contradiction.
      + inversion Ch2; subst. inversion Ch; subst.
        match goal with A : run_cb _ _ _ a s0 = _, B : run_cb _ _ _ a s0 = _ |- _ => rewrite A in B; injection B as <- <- end.
        eapply IH; eassumption. }
  rewrite Rr. unfold check_failure. rewrite G'. destruct (out ev') as [[v|x]|]; [reflexivity| |contradiction].
  destruct (defused ev'); reflexivity.
Qed.

(* the state after such a step is again a clean state: execution may go on *)
Theorem failure_leaves_clean_state fuel codes s m rest ev l s' :
  creach codes s -> pop_min (agenda s) = Some (m, rest) -> get_event (e_ev m) s = Some ev -> cbs ev = Some l ->
  cb_chain fuel codes (e_ev m) l (loop_start m rest s) s' ->
  fst (step fuel codes s) = s' /\ creach codes s'.
Proof.
  intros R P G C Ch.
  assert (E : fst (step fuel codes s) = s') by (eapply step_fst_chain; eauto).
  split; [exact E|]. rewrite <- E. apply cr_step; [exact R|]. eapply chain_clean; eauto.
Qed.

(* run() returns exactly that: whatever the until argument, after any number of normal steps *)
Theorem failure_propagates_from_run fuel codes u s s1 sk s' x :
  run_prelude u s = inr s1 -> ok_steps fuel codes s1 sk -> step fuel codes sk = (s', RRaise x) ->
  exists k, forall n, k <= n -> run_loop n fuel codes u s1 = (s', RRaise x).
Proof. intros _ Ok St. eapply run_loop_ok_steps; eauto. Qed.
