(* Kernel/StopErase.v -- C03, part 4: stop callbacks are invisible to everything but the loop of run().

     erase s              the state s without any stop callback (StopSimulation.callback) in any callback list
     <f>_erase            every function of Kernel/Model.v below step() commutes with [erase]:  f (erase s) = erase (f s),
                          with the same answer -- for EVERY program (no hypothesis on the automata: the answers of the API
                          calls are the same, so the continuations are the same)
     run_callbacks_erase  the loop over the callbacks of a triggered event: the erased run does what the full run does, minus
                          the stop; the states agree
     step_erase           fst (step (erase s)) = erase (fst (step s))        (uinv s: popped events are triggered)
     free_run_erase       the same for any number of steps *)
From Coq Require Import ZArith QArith List Bool Lia.
From ONL Require Import Kernel.Model Kernel.Keys Kernel.Deliver Kernel.DeliverWf Kernel.StopFrame Kernel.StopInv Kernel.Stop Kernel.StopSpec.
Import ListNotations.

Definition keep_cb (c : cb) : bool := negb (is_stop_cb c).
Definition erase_cbs (l : list cb) : list cb := filter keep_cb l.
Definition erase_ev (ev : event) : event := mkEvent (option_map erase_cbs (cbs ev)) (out ev) (defused ev) (kind ev).
Definition erase (s : state) : state := set_events (map erase_ev (events s)) s.

Definition elift {A : Type} (x : state * A) : state * A := (erase (fst x), snd x).

(* ---- lists of callbacks ---- *)

Lemma erase_cbs_app l c : is_stop_cb c = false -> erase_cbs (l ++ [c]) = erase_cbs l ++ [c].
Proof. intros H. unfold erase_cbs. rewrite filter_app. cbn. unfold keep_cb at 2. rewrite H. reflexivity. Qed.

Lemma cb_eqb_stop_l x c : is_stop_cb x = true -> is_stop_cb c = false -> cb_eqb x c = false.
Proof. destruct x; cbn; try discriminate. destruct c; cbn; try reflexivity. discriminate. Qed.

Lemma cb_eqb_stop_r x c : is_stop_cb x = true -> is_stop_cb c = false -> cb_eqb c x = false.
Proof. destruct x; cbn; try discriminate. destruct c; cbn; try reflexivity. discriminate. Qed.

Lemma erase_cbs_cons_stop x t : is_stop_cb x = true -> erase_cbs (x :: t) = erase_cbs t.
Proof. intros H. unfold erase_cbs. cbn [filter]. unfold keep_cb at 1. now rewrite H. Qed.

Lemma erase_cbs_cons_keep x t : is_stop_cb x = false -> erase_cbs (x :: t) = x :: erase_cbs t.
Proof. intros H. unfold erase_cbs. cbn [filter]. unfold keep_cb at 1. now rewrite H. Qed.

Lemma mem_cb_erase c l : is_stop_cb c = false -> mem_cb c (erase_cbs l) = mem_cb c l.
Proof.
  intros Hc. induction l as [|x t IH]; [reflexivity|].
  destruct (is_stop_cb x) eqn:Sx.
  - rewrite (erase_cbs_cons_stop _ _ Sx), IH. unfold mem_cb. cbn [existsb]. now rewrite (cb_eqb_stop_r _ _ Sx Hc).
  - rewrite (erase_cbs_cons_keep _ _ Sx). unfold mem_cb in *. cbn [existsb]. now rewrite IH.
Qed.

Lemma remove_first_erase c l : is_stop_cb c = false -> remove_first c (erase_cbs l) = erase_cbs (remove_first c l).
Proof.
  intros Hc. induction l as [|x t IH]; [reflexivity|].
  destruct (is_stop_cb x) eqn:Sx.
  - rewrite (erase_cbs_cons_stop _ _ Sx), IH. cbn [remove_first]. rewrite (cb_eqb_stop_l _ _ Sx Hc).
    now rewrite (erase_cbs_cons_stop _ _ Sx).
  - rewrite (erase_cbs_cons_keep _ _ Sx). cbn [remove_first]. destruct (cb_eqb x c); [reflexivity|].
    now rewrite (erase_cbs_cons_keep _ _ Sx), IH.
Qed.

(* ---- the event store ---- *)

Lemma get_event_erase e s : get_event e (erase s) = option_map erase_ev (get_event e s).
Proof. unfold get_event, erase. cbn. apply nth_error_map. Qed.

Lemma upd_nth_map {A B} (g : A -> B) (f : A -> A) (f' : B -> B) n l :
  (forall x, f' (g x) = g (f x)) -> upd_nth n f' (map g l) = map g (upd_nth n f l).
Proof.
  intros H. revert n. induction l as [|x t IH]; intros [|n]; cbn; try reflexivity.
  - now rewrite H.
  - now rewrite IH.
Qed.

Lemma upd_event_erase e f f' s :
  (forall ev, f' (erase_ev ev) = erase_ev (f ev)) -> upd_event e f' (erase s) = erase (upd_event e f s).
Proof. intros H. unfold upd_event, erase, set_events. cbn. f_equal. apply upd_nth_map, H. Qed.

Lemma set_out_erase e o s : upd_event e (ev_set_out o) (erase s) = erase (upd_event e (ev_set_out o) s).
Proof. apply upd_event_erase. reflexivity. Qed.
Lemma set_defused_erase e s : upd_event e ev_set_defused (erase s) = erase (upd_event e ev_set_defused s).
Proof. apply upd_event_erase. reflexivity. Qed.
Lemma set_kind_erase e k s : upd_event e (ev_set_kind k) (erase s) = erase (upd_event e (ev_set_kind k) s).
Proof. apply upd_event_erase. reflexivity. Qed.
Lemma set_cbs_none_erase e s : upd_event e (ev_set_cbs None) (erase s) = erase (upd_event e (ev_set_cbs None) s).
Proof. apply upd_event_erase. reflexivity. Qed.
Lemma set_cbs_some_erase e l s :
  upd_event e (ev_set_cbs (Some (erase_cbs l))) (erase s) = erase (upd_event e (ev_set_cbs (Some l)) s).
Proof. apply upd_event_erase. reflexivity. Qed.

Lemma add_callback_erase e c s : is_stop_cb c = false -> add_callback e c (erase s) = erase (add_callback e c s).
Proof.
  intros Hc. unfold add_callback. apply upd_event_erase. intros ev.
  destruct ev as [[l|] o d k]; unfold ev_add_cb, erase_ev, ev_set_cbs; cbn [cbs out defused kind option_map]; [|reflexivity].
  now rewrite erase_cbs_app.
Qed.

(* appending the stop callback is invisible *)
Lemma add_stop_erase e s : erase (add_callback e CbStop s) = erase s.
Proof.
  unfold add_callback, upd_event, erase, set_events. cbn. f_equal.
  generalize (events s). intros l. revert e. induction l as [|x t IH]; intros [|e]; cbn; try reflexivity.
  - f_equal. destruct x as [[cl|] o d k]; unfold ev_add_cb, erase_ev, ev_set_cbs; cbn [cbs out defused kind option_map]; [|reflexivity].
    unfold erase_cbs. rewrite filter_app. cbn. now rewrite app_nil_r.
  - now rewrite IH.
Qed.

Lemma new_event_erase ev s : new_event (erase_ev ev) (erase s) = (fst (new_event ev s), erase (snd (new_event ev s))).
Proof. unfold new_event, erase, set_events. cbn. rewrite map_length, map_app. reflexivity. Qed.

Lemma schedule_erase e p d s : schedule e p d (erase s) = erase (schedule e p d s).
Proof. reflexivity. Qed.

Lemma trigger_erase e o s : trigger_event e o (erase s) = erase (trigger_event e o s).
Proof. unfold trigger_event. rewrite set_out_erase. reflexivity. Qed.

Lemma set_active_erase a s : set_active a (erase s) = erase (set_active a s). Proof. reflexivity. Qed.
Lemma set_glob_erase g s : set_glob g (erase s) = erase (set_glob g s). Proof. reflexivity. Qed.
Lemma add_obs_erase o s : add_obs o (erase s) = erase (add_obs o s). Proof. reflexivity. Qed.
Lemma set_procs_erase ps s : set_procs ps (erase s) = erase (set_procs ps s). Proof. reflexivity. Qed.
Lemma upd_proc_erase p f s : upd_proc p f (erase s) = erase (upd_proc p f s). Proof. reflexivity. Qed.
Lemma get_proc_erase p s : get_proc p (erase s) = get_proc p s. Proof. reflexivity. Qed.

(* ---- conditions ---- *)

Lemma cond_check_erase c op s : cond_check c op (erase s) = erase (cond_check c op s).
Proof.
  unfold cond_check. rewrite !get_event_erase.
  destruct (get_event c s) as [cev|]; cbn [option_map]; [|reflexivity].
  destruct (get_event op s) as [oev|]; cbn [option_map]; [|reflexivity].
  cbn [erase_ev out kind]. destruct (out cev); [reflexivity|].
  destruct (kind cev) as [| | | | |all ops count|]; try reflexivity.
  rewrite set_kind_erase.
  destruct (out oev) as [[v|x]|].
  - destruct (cond_evaluate all (length ops) (S count)); [apply trigger_erase|reflexivity].
  - rewrite set_defused_erase. apply trigger_erase.
  - destruct (cond_evaluate all (length ops) (S count)); [apply trigger_erase|reflexivity].
Qed.

Lemma remove_check_from_erase c o s : remove_check_from c o (erase s) = erase (remove_check_from c o s).
Proof.
  unfold remove_check_from. rewrite get_event_erase.
  destruct (get_event o s) as [oev|]; cbn [option_map]; [|reflexivity].
  cbn [erase_ev cbs]. destruct (cbs oev) as [l|]; cbn [option_map]; [|reflexivity].
  rewrite mem_cb_erase by reflexivity. destruct (mem_cb (CbCheck c) l); [|reflexivity].
  rewrite remove_first_erase by reflexivity. apply set_cbs_some_erase.
Qed.

Lemma is_cond_erase ev : is_cond (erase_ev ev) = is_cond ev.
Proof. reflexivity. Qed.

Lemma remove_ops_erase rec c :
  (forall o s, rec o (erase s) = option_map erase (rec o s)) ->
  forall l s, remove_ops rec c l (erase s) = option_map erase (remove_ops rec c l s).
Proof.
  intros Hrec. induction l as [|o t IH]; intros s; cbn [remove_ops]; [reflexivity|].
  rewrite get_event_erase. destruct (get_event o s) as [oev|]; cbn [option_map]; [|reflexivity].
  rewrite is_cond_erase, remove_check_from_erase. destruct (is_cond oev).
  - rewrite Hrec. destruct (rec o (remove_check_from c o s)) as [s2|]; cbn [option_map]; [apply IH|reflexivity].
  - apply IH.
Qed.

Lemma remove_checks_erase fuel : forall c s, remove_checks fuel c (erase s) = option_map erase (remove_checks fuel c s).
Proof.
  induction fuel as [|f IH]; intros c s; cbn [remove_checks]; [reflexivity|].
  rewrite get_event_erase. destruct (get_event c s) as [cev|]; cbn [option_map]; [|reflexivity].
  cbn [erase_ev kind]. destruct (kind cev); try reflexivity. apply remove_ops_erase. exact IH.
Qed.

Lemma raw_value_erase ev : raw_value (erase_ev ev) = raw_value ev.
Proof. reflexivity. Qed.

Lemma populate_ops_erase rec evs : forall l, populate_ops rec (map erase_ev evs) l = populate_ops rec evs l.
Proof.
  induction l as [|o t IH]; cbn [populate_ops]; [reflexivity|].
  rewrite nth_error_map. destruct (nth_error evs o) as [oev|]; cbn [option_map]; [|reflexivity].
  cbn [erase_ev kind cbs]. rewrite IH, raw_value_erase.
  destruct (kind oev); destruct (cbs oev); reflexivity.
Qed.

Lemma populate_ops_ext rec1 rec2 evs :
  (forall l, rec1 l = rec2 l) -> forall l, populate_ops rec1 evs l = populate_ops rec2 evs l.
Proof.
  intros H. induction l as [|o t IH]; cbn [populate_ops]; [reflexivity|].
  destruct (nth_error evs o) as [oev|]; [|reflexivity]. rewrite IH. destruct (kind oev); try reflexivity. now rewrite H.
Qed.

Lemma populate_erase fuel : forall evs ops, populate fuel (map erase_ev evs) ops = populate fuel evs ops.
Proof.
  induction fuel as [|f IH]; intros evs ops; cbn [populate]; [reflexivity|].
  rewrite populate_ops_erase. apply populate_ops_ext. intros l. apply IH.
Qed.

Lemma cond_build_erase c s : cond_build c (erase s) = elift (cond_build c s).
Proof.
  unfold cond_build, elift. rewrite remove_checks_erase.
  destruct (remove_checks (S c) c s) as [s1|]; cbn [option_map]; [|reflexivity].
  rewrite get_event_erase. destruct (get_event c s1) as [cev|]; cbn [option_map]; [|reflexivity].
  cbn [erase_ev out kind]. destruct (out cev) as [[v|x]|]; try reflexivity.
  destruct (kind cev); try reflexivity.
  change (events (erase s1)) with (map erase_ev (events s1)). rewrite populate_erase.
  destruct (populate (S c) (events s1) ops); [|reflexivity]. cbn [fst snd]. now rewrite set_out_erase.
Qed.

(* ---- the API calls ---- *)

Lemma call_timeout_erase d v s : call_timeout d v (erase s) = elift (call_timeout d v s).
Proof.
  unfold call_timeout, elift. destruct (neg_delay d); [reflexivity|].
  change (mkEvent (Some []) (Some (Ok v)) false KTimeout) with (erase_ev (mkEvent (Some []) (Some (Ok v)) false KTimeout)) at 1.
  rewrite new_event_erase. destruct (new_event _ s) as [e s1]. reflexivity.
Qed.

Lemma call_event_erase s : call_event (erase s) = elift (call_event s).
Proof.
  unfold call_event, elift.
  change (mkEvent (Some []) None false KPlain) with (erase_ev (mkEvent (Some []) None false KPlain)) at 1.
  rewrite new_event_erase. destruct (new_event _ s) as [e s1]. reflexivity.
Qed.

Lemma call_succeed_erase e v s : call_succeed e v (erase s) = elift (call_succeed e v s).
Proof.
  unfold call_succeed, elift. rewrite get_event_erase. destruct (get_event e s) as [ev|]; cbn [option_map]; [|reflexivity].
  change (is_triggered (erase_ev ev)) with (is_triggered ev). destruct (is_triggered ev); [reflexivity|].
  cbn [fst snd]. now rewrite trigger_erase.
Qed.

Lemma call_fail_erase e x s : call_fail e x (erase s) = elift (call_fail e x s).
Proof.
  unfold call_fail, elift. rewrite get_event_erase. destruct (get_event e s) as [ev|]; cbn [option_map]; [|reflexivity].
  change (is_triggered (erase_ev ev)) with (is_triggered ev). destruct (is_triggered ev); [reflexivity|].
  destruct x; try reflexivity. cbn [fst snd]. now rewrite trigger_erase.
Qed.

Lemma call_spawn_erase codes code arg s : call_spawn codes code arg (erase s) = elift (call_spawn codes code arg s).
Proof.
  unfold call_spawn, elift. destruct (nth_error codes code) as [pr|]; [|reflexivity].
  change (procs (erase s)) with (procs s). set (p := length (procs s)).
  change (mkEvent (Some []) None false (KProcess p)) with (erase_ev (mkEvent (Some []) None false (KProcess p))) at 1.
  rewrite new_event_erase. destruct (new_event (mkEvent (Some []) None false (KProcess p)) s) as [pe s1]. cbn [fst snd].
  change (mkEvent (Some [CbResume p]) (Some (Ok VNone)) false (KInit p))
    with (erase_ev (mkEvent (Some [CbResume p]) (Some (Ok VNone)) false (KInit p))) at 1.
  rewrite new_event_erase. destruct (new_event (mkEvent (Some [CbResume p]) (Some (Ok VNone)) false (KInit p)) s1) as [ie s2].
  reflexivity.
Qed.

Lemma call_interrupt_erase e cause s : call_interrupt e cause (erase s) = elift (call_interrupt e cause s).
Proof.
  unfold call_interrupt, elift. rewrite get_event_erase. destruct (get_event e s) as [ev|]; cbn [option_map]; [|reflexivity].
  change (kind (erase_ev ev)) with (kind ev). destruct (kind ev); try reflexivity.
  change (is_triggered (erase_ev ev)) with (is_triggered ev).
  destruct (is_triggered ev); [reflexivity|]. change (active (erase s)) with (active s).
  destruct (match active s with Some a => Nat.eqb a p | None => false end); [reflexivity|].
  assert (L : length (events (erase s)) = length (events s)) by (cbn; apply map_length). rewrite L.
  set (EV := mkEvent (Some [CbInterrupt (length (events s))]) (Some (Fail (EInterrupt, [cause]))) true (KInterruption p)).
  change EV with (erase_ev EV) at 1. rewrite new_event_erase. destruct (new_event EV s) as [i s1]. reflexivity.
Qed.

Lemma cond_subscribe_erase c ops : forall s, cond_subscribe c ops (erase s) = erase (cond_subscribe c ops s).
Proof.
  induction ops as [|o t IH]; intros s; cbn [cond_subscribe]; [reflexivity|].
  rewrite get_event_erase. destruct (get_event o s) as [oev|]; cbn [option_map]; [|apply IH].
  change (is_processed (erase_ev oev)) with (match option_map erase_cbs (cbs oev) with None => true | Some _ => false end).
  unfold is_processed. destruct (cbs oev); cbn [option_map].
  - rewrite add_callback_erase by reflexivity. apply IH.
  - rewrite cond_check_erase. apply IH.
Qed.

Lemma all_valid_erase es s : all_valid es (erase s) = all_valid es s.
Proof.
  unfold all_valid. induction es as [|e t IH]; cbn [forallb]; [reflexivity|].
  rewrite IH, get_event_erase. destruct (get_event e s); reflexivity.
Qed.

Lemma call_cond_erase all es s : call_cond all es (erase s) = elift (call_cond all es s).
Proof.
  unfold call_cond, elift. rewrite all_valid_erase. destruct (negb (all_valid es s)); [reflexivity|].
  change (mkEvent (Some []) None false (KCond all es 0)) with (erase_ev (mkEvent (Some []) None false (KCond all es 0))) at 1.
  rewrite new_event_erase. destruct (new_event (mkEvent (Some []) None false (KCond all es 0)) s) as [c s1]. cbn [fst snd].
  destruct es as [|e0 es'].
  - cbn [fst snd]. now rewrite trigger_erase.
  - cbn [fst snd]. rewrite cond_subscribe_erase, add_callback_erase by reflexivity. reflexivity.
Qed.

Lemma call_probe_erase e n s : call_probe e n (erase s) = elift (call_probe e n s).
Proof.
  unfold call_probe, elift. rewrite get_event_erase. destruct (get_event e s) as [ev|]; cbn [option_map]; [|reflexivity].
  unfold is_processed. cbn [erase_ev cbs]. destruct (cbs ev); cbn [option_map]; [|reflexivity].
  cbn [fst snd]. now rewrite add_callback_erase by reflexivity.
Qed.

Lemma call_query_erase q e s : call_query q e (erase s) = elift (call_query q e s).
Proof.
  unfold call_query, elift. rewrite get_event_erase. destruct (get_event e s) as [ev|]; cbn [option_map]; [|reflexivity].
  destruct q; cbn [erase_ev out kind defused]; try reflexivity.
  - unfold is_processed. cbn [erase_ev cbs]. destruct (cbs ev); reflexivity.
  - destruct (out ev) as [[?|?]|]; reflexivity.
  - rewrite raw_value_erase. destruct (raw_value ev); reflexivity.
  - destruct (kind ev); reflexivity.
Qed.

Lemma do_call_erase codes c s : do_call codes c (erase s) = elift (do_call codes c s).
Proof.
  destruct c; cbn [do_call].
  - apply call_timeout_erase.
  - apply call_event_erase.
  - apply call_succeed_erase.
  - apply call_fail_erase.
  - apply call_spawn_erase.
  - apply call_interrupt_erase.
  - apply call_cond_erase.
  - apply call_cond_erase.
  - apply call_probe_erase.
  - apply call_query_erase.
  - reflexivity.
  - reflexivity.
  - reflexivity.
  - reflexivity.
  - reflexivity.
Qed.

(* ---- process bodies ---- *)

Lemma run_frag_erase {A} codes (f : frag A) : forall s, run_frag codes f (erase s) = elift (run_frag codes f s).
Proof.
  induction f as [v a|v|x|c k IH]; intros s; cbn [run_frag]; try reflexivity.
  rewrite do_call_erase. unfold elift at 1. destruct (do_call codes c s) as [s1 o]. cbn [fst snd]. apply IH.
Qed.

Lemma proc_finish_erase p pr o s : proc_finish p pr o (erase s) = erase (proc_finish p pr o s).
Proof. unfold proc_finish. rewrite trigger_erase. reflexivity. Qed.

Lemma proc_wait_erase p e s : proc_wait p e (erase s) = erase (proc_wait p e s).
Proof. unfold proc_wait. rewrite add_callback_erase by reflexivity. reflexivity. Qed.

Lemma put_proc_erase p pr s : put_proc p pr (erase s) = erase (put_proc p pr s).
Proof. reflexivity. Qed.

Lemma resume_loop_erase codes fuel : forall p e s, resume_loop fuel codes p e (erase s) = elift (resume_loop fuel codes p e s).
Proof.
  induction fuel as [|f IH]; intros p e s; cbn [resume_loop]; [reflexivity|].
  rewrite get_event_erase, get_proc_erase.
  destruct (get_event e s) as [ev|]; cbn [option_map]; [|reflexivity].
  destruct (get_proc p s) as [pr|]; [|reflexivity].
  change (out (erase_ev ev)) with (out ev). destruct (out ev) as [o|]; [|reflexivity].
  assert (E1 : match o with Fail _ => upd_event e ev_set_defused (erase s) | Ok _ => erase s end =
               erase (match o with Fail _ => upd_event e ev_set_defused s | Ok _ => s end))
    by (destruct o; [reflexivity|apply set_defused_erase]).
  rewrite E1, run_frag_erase. unfold elift at 1.
  destruct (run_frag codes (resume (pcode pr) (pst pr) o) _) as [s2 r]. cbn [fst snd].
  destruct r as [v a|v|x].
  - rewrite put_proc_erase. destruct v; try reflexivity.
    rewrite get_event_erase. destruct (get_event e0 (put_proc p (proc_set_st pr a) s2)) as [ev'|]; cbn [option_map]; [|reflexivity].
    unfold is_processed. cbn [erase_ev cbs]. destruct (cbs ev'); cbn [option_map].
    + unfold elift. cbn [fst snd]. now rewrite proc_wait_erase.
    + apply IH.
  - unfold elift. cbn [fst snd]. now rewrite proc_finish_erase.
  - unfold elift. cbn [fst snd]. now rewrite proc_finish_erase.
Qed.

Lemma resume_proc_erase fuel codes p e s : resume_proc fuel codes p e (erase s) = elift (resume_proc fuel codes p e s).
Proof. unfold resume_proc. rewrite set_active_erase. apply resume_loop_erase. Qed.

Lemma do_interruption_erase fuel codes i s : do_interruption fuel codes i (erase s) = elift (do_interruption fuel codes i s).
Proof.
  unfold do_interruption. rewrite get_event_erase. destruct (get_event i s) as [iev|]; cbn [option_map]; [|reflexivity].
  change (kind (erase_ev iev)) with (kind iev). destruct (kind iev); try reflexivity.
  rewrite get_proc_erase. destruct (get_proc p s) as [pr|]; [|reflexivity].
  rewrite get_event_erase. destruct (get_event (pev pr) s) as [pe|]; cbn [option_map]; [|reflexivity].
  change (is_triggered (erase_ev pe)) with (is_triggered pe). destruct (is_triggered pe); [reflexivity|].
  destruct (ptarget pr) as [t|]; [|reflexivity].
  rewrite get_event_erase. destruct (get_event t s) as [tev|]; cbn [option_map]; [|reflexivity].
  cbn [erase_ev cbs]. destruct (cbs tev) as [l|]; cbn [option_map]; [|reflexivity].
  rewrite mem_cb_erase by reflexivity. destruct (mem_cb (CbResume p) l); [|reflexivity].
  rewrite remove_first_erase by reflexivity. rewrite set_cbs_some_erase. apply resume_proc_erase.
Qed.

Lemma probe_cb_erase n e s : probe_cb n e (erase s) = erase (probe_cb n e s).
Proof.
  unfold probe_cb. rewrite get_event_erase. destruct (get_event e s) as [ev|]; reflexivity.
Qed.

(* every callback but the stop callback *)
Lemma run_cb_erase fuel codes e c s : is_stop_cb c = false -> run_cb fuel codes e c (erase s) = elift (run_cb fuel codes e c s).
Proof.
  destruct c; cbn [run_cb is_stop_cb]; intros H; try discriminate.
  - apply resume_proc_erase.
  - unfold elift. cbn [fst snd]. now rewrite cond_check_erase.
  - apply cond_build_erase.
  - apply do_interruption_erase.
  - unfold elift. cbn [fst snd]. now rewrite probe_cb_erase.
Qed.

(* ---- the callback loop ---- *)

(* the loop over the erased list from the erased state reaches the erased end state of the full loop; it answers what the full
   loop answers, or ROk where the full loop answers what a stop callback raised *)
Lemma run_callbacks_erase fuel codes e : forall l s,
  (exists ev, get_event e s = Some ev /\ out ev <> None) ->
  exists r0, run_callbacks fuel codes e (erase_cbs l) (erase s) = (erase (fst (run_callbacks fuel codes e l s)), r0) /\
             (r0 = snd (run_callbacks fuel codes e l s) \/
              (r0 = ROk /\ existsb is_stop_cb l = true /\ is_exit (snd (run_callbacks fuel codes e l s)) = true)).
Proof.
  induction l as [|c t IH]; intros s Tr.
  - exists ROk. split; [reflexivity|left; reflexivity].
  - destruct (is_stop_cb c) eqn:Sc.
    + rewrite (erase_cbs_cons_stop _ _ Sc). rewrite (is_stop_cb_eq _ Sc). cbn [run_callbacks run_cb].
      destruct Tr as (ev & G & O). rewrite (stop_cb_result _ _ _ G).
      destruct (IH s (ex_intro _ ev (conj G O))) as (r0 & E & D).
      destruct (run_callbacks fuel codes e t s) as [s2 r2]. cbn [fst snd] in E, D.
      exists r0. destruct (out ev) as [[v|x]|]; [| |contradiction]; cbn [is_stop_cb is_exit andb].
      * destruct r2; cbn [fst snd existsb is_stop_cb orb]; (split; [exact E|]);
          try (destruct D as [D|(D1 & D2 & D3)]; [left; exact D|right; auto]).
        right. destruct D as [->|(-> & _)]; auto.
      * destruct r2; cbn [fst snd existsb is_stop_cb orb]; (split; [exact E|]);
          try (destruct D as [D|(D1 & D2 & D3)]; [left; exact D|right; auto]).
        right. destruct D as [->|(-> & _)]; auto.
    + rewrite (erase_cbs_cons_keep _ _ Sc). cbn [run_callbacks]. rewrite (run_cb_erase _ _ _ _ _ Sc). unfold elift.
      pose proof (grows_run_cb fuel codes e c s) as Gr.
      destruct (run_cb fuel codes e c s) as [s1 r] eqn:R. cbn [fst snd] in *. rewrite Sc. cbn [andb].
      destruct r; try (eexists; split; [reflexivity|left; reflexivity]).
      destruct Tr as (ev & G & O). destruct (Gr _ _ G) as (ev' & G' & Le).
      destruct (IH s1 (ex_intro _ ev' (conj G' (le_out _ _ Le O)))) as (r0 & E & D).
      exists r0. split; [exact E|]. cbn [existsb]. rewrite Sc. exact D.
Qed.

Lemma check_failure_erase e s : check_failure e (erase s) = check_failure e s.
Proof. unfold check_failure. rewrite get_event_erase. destruct (get_event e s) as [ev|]; reflexivity. Qed.

Lemma pop_state_erase m rest s : pop_state m rest (erase s) = erase (pop_state m rest s).
Proof. reflexivity. Qed.

(* ---- step ---- *)

Lemma step_erase fuel codes s : uinv s -> fst (step fuel codes (erase s)) = erase (fst (step fuel codes s)).
Proof.
  intros U. unfold step. change (agenda (erase s)) with (agenda s).
  destruct (pop_min (agenda s)) as [[m rest]|] eqn:P; [|reflexivity].
  rewrite pop_state_erase, get_event_erase.
  destruct (get_event (e_ev m) (pop_state m rest s)) as [ev|] eqn:G; cbn [option_map]; [|reflexivity].
  cbn [erase_ev cbs]. destruct (cbs ev) as [l|] eqn:C; cbn [option_map]; [|reflexivity].
  rewrite set_cbs_none_erase.
  assert (Tr : exists ev0, get_event (e_ev m) (upd_event (e_ev m) (ev_set_cbs None) (pop_state m rest s)) = Some ev0 /\ out ev0 <> None).
  { exists (ev_set_cbs None ev). split; [apply get_upd_event_same, G|]. cbn.
    destruct (pop_min_spec _ _ _ P) as (Hm & _). destruct (proj1 U _ Hm) as (ev0 & H0 & O0).
    rewrite get_event_pop_state in G. rewrite G in H0. injection H0 as <-. exact O0. }
  destruct (run_callbacks_erase fuel codes (e_ev m) l _ Tr) as (r0 & E & _). rewrite E.
  destruct (run_callbacks fuel codes (e_ev m) l (upd_event (e_ev m) (ev_set_cbs None) (pop_state m rest s))) as [s2 r2].
  cbn [fst]. destruct r0, r2; reflexivity.
Qed.

Lemma erase_uinv s : uinv s -> uinv (erase s).
Proof.
  intros [U1 U2]. split.
  - intros x Hx. destruct (U1 x Hx) as (ev & H & O). exists (erase_ev ev). rewrite get_event_erase, H. auto.
  - intros p pr H. destruct (U2 p pr H) as (pe & Hp & K). exists (erase_ev pe). rewrite get_event_erase, Hp. auto.
Qed.

Lemma free_run_erase fuel codes : forall k s, uinv s -> free_run k fuel codes (erase s) = erase (free_run k fuel codes s).
Proof.
  induction k as [|k IH]; intros s U; [reflexivity|]. unfold free_run in *. cbn [free_run_sel]. change (step_sel true) with step.
  rewrite (step_erase _ _ _ U). apply IH, uinv_step, U.
Qed.

Lemma erase_obs s : obs (erase s) = obs s. Proof. reflexivity. Qed.
Lemma erase_agenda s : agenda (erase s) = agenda s. Proof. reflexivity. Qed.
Lemma erase_now s : now (erase s) = now s. Proof. reflexivity. Qed.
Lemma erase_procs s : procs (erase s) = procs s. Proof. reflexivity. Qed.
Lemma erase_glob s : glob (erase s) = glob s. Proof. reflexivity. Qed.

(* a state without stop callbacks is its own erasure *)
Lemma erase_cbs_id l : existsb is_stop_cb l = false -> erase_cbs l = l.
Proof.
  induction l as [|x t IH]; cbn [existsb]; [reflexivity|]. intros H. apply orb_false_iff in H. destruct H as [Hx Ht].
  rewrite (erase_cbs_cons_keep _ _ Hx), (IH Ht). reflexivity.
Qed.

Lemma erase_id s : (forall e ev, get_event e s = Some ev -> has_stop ev = false) -> erase s = s.
Proof.
  intros H. unfold erase, set_events. destruct s as [n a ne evs ps ac g ob]. cbn in *. f_equal.
  assert (H' : forall e ev, nth_error evs e = Some ev -> has_stop ev = false) by exact H. clear H.
  induction evs as [|x t IH]; [reflexivity|]. cbn [map]. f_equal.
  - pose proof (H' 0%nat x eq_refl) as Hx. destruct x as [[l|] o d k]; unfold erase_ev, has_stop in *; cbn in *; [|reflexivity].
    now rewrite erase_cbs_id.
  - apply IH. intros e ev He. exact (H' (S e) ev He).
Qed.
