(* Kernel/Model.v -- executable operational semantics of onl/sim/core.py (Environment: schedule, peek,
   step, run) and onl/sim/events.py (Event, Timeout, Initialize, Interruption, Process, Condition).
   NO proofs in this file (the model must still run when a proof breaks).

   Main definitions (in file order)
     val / exn / outcome          values, exceptions (class + args; copying an exception is the identity)
     cb / ekind / event           defunctionalised callbacks, event records {cbs; out; defused; kind}
     call / frag / prog           processes as automata {St; start; resume : St -> outcome -> frag St}
     entry / state                agenda entries (time, prio, eid, event), kernel state
     key_ltb min_entry remove_eid pop_min      the heap: minimum of the lexicographic key
     schedule peek new_event upd_event add_callback remove_first_cb
     trigger_event                Event.succeed / Event.fail without the guard (sets outcome, schedules NORMAL)
     call_timeout call_event call_succeed call_fail call_spawn call_interrupt call_cond call_query ... do_call
     cond_check cond_build remove_check_from remove_ops remove_checks populate_ops populate   Condition._check/_build_value/_remove_check_callbacks/_populate_value
     run_frag                     runs the synchronous calls of a fragment up to Yield/Return/Raise
     proc_finish proc_wait resume_loop resume_proc   Process._resume
     do_interruption stop_cb probe_cb run_cb run_callbacks
     pop_state step               Environment.step
     run_prelude run_loop run     Environment.run(until = None | number | event)
     run_callbacks_unfixed step_unfixed run_unfixed step_sel run_sel   the code as found before the C03 fix: (stop raised inside the callback loop)
     init_state exec_top          initial state; code executed outside any process (active = None)

   Conventions
     * ids are positions in append-only lists ([events], [procs]); a fresh id is a length.
     * every Python exception that can escape is an explicit [result]/[outcome]; [RFuel] is the explicit
       out-of-fuel result; [RBroken] marks internal inconsistencies (an agenda entry naming no event, ...)
       that Python would answer with some incidental TypeError: theorems must show they are not reached.
     * times are [Q]; stored times are [Qred]-normalised; comparisons use [Qcompare]/[Qle_bool].
     * URGENT = 0, NORMAL = 1 as in events.py.
     * not modelled: resources (extension point: add callbacks/kinds/calls), Event.trigger (public, unused),
       the mixed-environment ValueError of Condition (one environment only), tracebacks/__cause__/repr. *)
From Coq Require Import ZArith QArith List Bool.
Import ListNotations.

Definition evid := nat.
Definition pid := nat.

Definition URGENT : nat := 0%nat.
Definition NORMAL : nat := 1%nat.

(* ------------------------------------------------------------------------------------------------ *)
(* values, exceptions *)

Inductive ecls := EInterrupt | ERuntime | EValue | EAttribute | EType | EAssert | EUser (tag : Z).

Inductive val :=
| VNone
| VInt (z : Z)
| VNum (x : Q)
| VEv (e : evid)                              (* an Event object (Process objects are events) *)
| VCond (items : list (evid * val))           (* ConditionValue: processed leaves with their values, ordered *)
| VList (l : list val)
| VExn (c : ecls) (args : list val).          (* an exception object used as a value *)

Definition exn := (ecls * list val)%type.
Inductive outcome := Ok (v : val) | Fail (x : exn).

(* the messages of the kernel's own exceptions, as codes (the harness maps message patterns to them) *)
Definition M_already_triggered : Z := 1.   (* RuntimeError  '... has already been triggered' *)
Definition M_terminated : Z := 2.          (* RuntimeError  '... has terminated and cannot be interrupted.' *)
Definition M_self_interrupt : Z := 3.      (* RuntimeError  'A process is not allowed to interrupt itself.' *)
Definition M_invalid_yield : Z := 4.       (* RuntimeError  'Invalid yield value ...' *)
Definition M_until_not_triggered : Z := 5. (* RuntimeError  'No scheduled events left but "until" event was not triggered' *)
Definition M_negative_delay : Z := 6.      (* ValueError    'Negative delay ...' *)
Definition M_not_exception : Z := 7.       (* ValueError    '... is not an exception.' *)
Definition M_until_past : Z := 8.          (* ValueError    'until(=...) must be > the current simulation time.' *)
Definition M_value_pending : Z := 9.       (* AttributeError 'Value of ... is not yet available' / no attribute '_ok' *)
Definition M_not_an_event : Z := 10.       (* AttributeError: operand is not an event / process (None.succeed ...) *)
Definition M_not_a_generator : Z := 11.    (* ValueError    '... is not a generator.'  (unknown code index) *)
Definition M_target_processed : Z := 12.   (* AttributeError 'NoneType' object has no attribute 'remove' (in _interrupt) *)
Definition M_not_in_list : Z := 13.        (* ValueError    list.remove(x): x not in list (in _interrupt) *)
Definition M_none_not_iterable : Z := 14.  (* TypeError     'NoneType' object is not iterable (event processed twice) *)
Definition M_assert : Z := 15.             (* AssertionError  assert not until.triggered *)

Definition kexn (c : ecls) (m : Z) : exn := (c, [VInt m]).
Definition exn_val (x : exn) : val := VExn (fst x) (snd x).

(* ------------------------------------------------------------------------------------------------ *)
(* events *)

Inductive cb :=
| CbResume (p : pid)          (* Process._resume of process p *)
| CbCheck (c : evid)          (* Condition._check of condition c *)
| CbBuild (c : evid)          (* Condition._build_value of condition c *)
| CbInterrupt (i : evid)      (* Interruption._interrupt of interruption event i *)
| CbStop                      (* StopSimulation.callback *)
| CbProbe (n : nat).          (* recording callback appended by the harness *)

Definition cb_eqb (a b : cb) : bool :=
  match a, b with
  | CbResume p, CbResume q => Nat.eqb p q
  | CbCheck p, CbCheck q => Nat.eqb p q
  | CbBuild p, CbBuild q => Nat.eqb p q
  | CbInterrupt p, CbInterrupt q => Nat.eqb p q
  | CbStop, CbStop => true
  | CbProbe p, CbProbe q => Nat.eqb p q
  | _, _ => false
  end.

Inductive ekind :=
| KPlain | KTimeout | KInit (p : pid) | KInterruption (p : pid) | KProcess (p : pid)
| KCond (all : bool) (ops : list evid) (count : nat) | KSentinel.

Record event := mkEvent {
  cbs : option (list cb);        (* Event.callbacks; None once processed *)
  out : option outcome;          (* None = PENDING; Some (Ok v) / Some (Fail x) = _ok,_value *)
  defused : bool;
  kind : ekind }.

(* ------------------------------------------------------------------------------------------------ *)
(* processes *)

Inductive query := QTriggered | QProcessed | QOk | QValue | QAlive | QDefused.

Inductive call :=
| CTimeout (d : Q) (v : val)
| CEvent
| CSucceed (e : evid) (v : val)
| CFail (e : evid) (x : val)
| CSpawn (code : nat) (arg : val)
| CInterrupt (e : evid) (cause : val)          (* e: the Process event *)
| CAllOf (es : list evid)
| CAnyOf (es : list evid)
| CProbe (e : evid) (n : nat)                  (* e.callbacks.append(probe n)  (harness) *)
| CQuery (q : query) (e : evid)
| CNow
| CPeek
| CLog (v : val)                               (* harness: record v with env.now and env.active_process *)
| CGetG (g : nat)                              (* variables shared by closures *)
| CSetG (g : nat) (v : val).

Inductive frag (A : Type) :=
| FYield (v : val) (a : A)                     (* yield v  (v should be VEv e), continue in state a *)
| FRet (v : val)
| FRaise (x : exn)
| FCall (c : call) (k : outcome -> frag A).    (* k receives the result or the exception the call raised *)
Arguments FYield {A}. Arguments FRet {A}. Arguments FRaise {A}. Arguments FCall {A}.

Record prog := mkProg { St : Type; start : val -> St; resume : St -> outcome -> frag St }.

Record procrec := mkProc {
  pcode : prog;
  pst : St pcode;                 (* the suspended generator *)
  pev : evid;                     (* the Process event *)
  ptarget : option evid }.        (* Process._target *)

(* ------------------------------------------------------------------------------------------------ *)
(* state *)

Record entry := mkEntry { e_time : Q; e_prio : nat; e_eid : nat; e_ev : evid }.

Inductive observation :=
| OStep (e : evid) (t : Q)                                   (* step() popped event e and set now := t *)
| OProbe (n : nat) (e : evid) (t : Q) (o : option outcome)   (* probe n called for e *)
| OLog (p : option pid) (t : Q) (v : val).

Record state := mkState {
  now : Q;
  agenda : list entry;
  next_eid : nat;
  events : list event;
  procs : list procrec;
  active : option pid;
  glob : list val;
  obs : list observation }.       (* most recent first *)

Inductive result :=
| ROk                 (* step: processed one event; run: returned None *)
| REmpty              (* EmptySchedule *)
| RStop (v : val)     (* StopSimulation(v) / run returned v *)
| RRaise (x : exn)    (* an exception escaped *)
| RFuel
| RBroken.

Definition set_now t s := mkState t (agenda s) (next_eid s) (events s) (procs s) (active s) (glob s) (obs s).
Definition set_agenda a s := mkState (now s) a (next_eid s) (events s) (procs s) (active s) (glob s) (obs s).
Definition set_events ev s := mkState (now s) (agenda s) (next_eid s) ev (procs s) (active s) (glob s) (obs s).
Definition set_procs ps s := mkState (now s) (agenda s) (next_eid s) (events s) ps (active s) (glob s) (obs s).
Definition set_active a s := mkState (now s) (agenda s) (next_eid s) (events s) (procs s) a (glob s) (obs s).
Definition set_glob g s := mkState (now s) (agenda s) (next_eid s) (events s) (procs s) (active s) g (obs s).
Definition add_obs o s := mkState (now s) (agenda s) (next_eid s) (events s) (procs s) (active s) (glob s) (o :: obs s).

Fixpoint upd_nth {A : Type} (n : nat) (f : A -> A) (l : list A) : list A :=
  match l, n with
  | [], _ => []
  | x :: t, O => f x :: t
  | x :: t, S m => x :: upd_nth m f t
  end.

(* ------------------------------------------------------------------------------------------------ *)
(* the agenda: heappush / heappop on keys (time, priority, eid) that are pairwise distinct *)

Definition key_ltb (a b : entry) : bool :=
  match e_time a ?= e_time b with
  | Lt => true
  | Gt => false
  | Eq => Nat.ltb (e_prio a) (e_prio b) || (Nat.eqb (e_prio a) (e_prio b) && Nat.ltb (e_eid a) (e_eid b))
  end.

Fixpoint min_entry (l : list entry) : option entry :=
  match l with
  | [] => None
  | x :: t => match min_entry t with
              | None => Some x
              | Some m => if key_ltb m x then Some m else Some x
              end
  end.

Fixpoint remove_eid (id : nat) (l : list entry) : list entry :=
  match l with
  | [] => []
  | x :: t => if Nat.eqb (e_eid x) id then t else x :: remove_eid id t
  end.

Definition pop_min (l : list entry) : option (entry * list entry) :=
  match min_entry l with
  | None => None
  | Some m => Some (m, remove_eid (e_eid m) l)
  end.

(* Environment.schedule *)
Definition schedule (e : evid) (prio : nat) (delay : Q) (s : state) : state :=
  mkState (now s) (agenda s ++ [mkEntry (Qred (now s + delay)) prio (next_eid s) e]) (S (next_eid s))
          (events s) (procs s) (active s) (glob s) (obs s).

(* Environment.peek; None = Infinity *)
Definition peek (s : state) : option Q :=
  match min_entry (agenda s) with None => None | Some m => Some (e_time m) end.

(* ------------------------------------------------------------------------------------------------ *)
(* event store *)

Definition get_event (e : evid) (s : state) : option event := nth_error (events s) e.
Definition upd_event (e : evid) (f : event -> event) (s : state) : state :=
  set_events (upd_nth e f (events s)) s.
Definition new_event (ev : event) (s : state) : evid * state :=
  (length (events s), set_events (events s ++ [ev]) s).

Definition ev_set_cbs c (ev : event) := mkEvent c (out ev) (defused ev) (kind ev).
Definition ev_set_out o (ev : event) := mkEvent (cbs ev) o (defused ev) (kind ev).
Definition ev_set_defused (ev : event) := mkEvent (cbs ev) (out ev) true (kind ev).
Definition ev_set_kind k (ev : event) := mkEvent (cbs ev) (out ev) (defused ev) k.

Definition ev_add_cb (c : cb) (ev : event) : event :=
  match cbs ev with Some l => ev_set_cbs (Some (l ++ [c])) ev | None => ev end.
(* event.callbacks.append(c)  -- the caller has checked that callbacks is a list *)
Definition add_callback (e : evid) (c : cb) (s : state) : state := upd_event e (ev_add_cb c) s.

Fixpoint remove_first (c : cb) (l : list cb) : list cb :=
  match l with
  | [] => []
  | x :: t => if cb_eqb x c then t else x :: remove_first c t
  end.
Definition mem_cb (c : cb) (l : list cb) : bool := existsb (cb_eqb c) l.

(* sets _ok/_value and calls env.schedule(self)  (the tail of succeed / fail) *)
Definition trigger_event (e : evid) (o : outcome) (s : state) : state :=
  schedule e NORMAL 0 (upd_event e (ev_set_out (Some o)) s).

Definition is_triggered (ev : event) : bool := match out ev with Some _ => true | None => false end.
Definition is_processed (ev : event) : bool := match cbs ev with None => true | Some _ => false end.
Definition is_failed (ev : event) : bool := match out ev with Some (Fail _) => true | _ => false end.

(* Event._value of a triggered event as a Python object *)
Definition raw_value (ev : event) : option val :=
  match out ev with
  | Some (Ok v) => Some v
  | Some (Fail x) => Some (exn_val x)
  | None => None
  end.

(* ------------------------------------------------------------------------------------------------ *)
(* conditions *)

Definition cond_evaluate (all : bool) (n_ops count : nat) : bool :=
  if all then Nat.eqb n_ops count                       (* all_events: len(events) == count *)
  else Nat.ltb 0 count || Nat.eqb n_ops 0.              (* any_events: count > 0 or len(events) == 0 *)

(* Condition._check(op) of condition c *)
Definition cond_check (c op : evid) (s : state) : state :=
  match get_event c s, get_event op s with
  | Some cev, Some oev =>
      match out cev, kind cev with
      | None, KCond all ops count =>
          let s1 := upd_event c (ev_set_kind (KCond all ops (S count))) s in
          match out oev with
          | Some (Fail x) => trigger_event c (Fail x) (upd_event op ev_set_defused s1)
          | _ => if cond_evaluate all (length ops) (S count) then trigger_event c (Ok VNone) s1 else s1
          end
      | _, _ => s                                       (* self._value is not PENDING: return *)
      end
  | _, _ => s
  end.

(* Condition._remove_check_callbacks, recursively; fuel bounds the nesting depth (operands are older
   than their condition, so [S c] is enough); None = fuel exhausted or a dangling operand.
   [remove_ops rec c ops]: the loop over the operands of c; [rec] handles a nested condition. *)
Definition remove_check_from (c o : evid) (s : state) : state :=
  match get_event o s with
  | Some oev => match cbs oev with
                | Some l => if mem_cb (CbCheck c) l
                            then upd_event o (ev_set_cbs (Some (remove_first (CbCheck c) l))) s
                            else s
                | None => s
                end
  | None => s
  end.

Definition is_cond (ev : event) : bool := match kind ev with KCond _ _ _ => true | _ => false end.

Fixpoint remove_ops (rec : evid -> state -> option state) (c : evid) (l : list evid) (s : state) : option state :=
  match l with
  | [] => Some s
  | o :: t =>
      match get_event o s with
      | None => None
      | Some oev =>
          let s1 := remove_check_from c o s in
          if is_cond oev
          then match rec o s1 with Some s2 => remove_ops rec c t s2 | None => None end
          else remove_ops rec c t s1
      end
  end.

Fixpoint remove_checks (fuel : nat) (c : evid) (s : state) : option state :=
  match fuel with
  | O => None
  | S f =>
      match get_event c s with
      | Some cev => match kind cev with
                    | KCond _ ops _ => remove_ops (remove_checks f) c ops s
                    | _ => Some s
                    end
      | None => None
      end
  end.

(* Condition._populate_value: the processed leaves, left to right, nested conditions flattened *)
Fixpoint populate_ops (rec : list evid -> option (list (evid * val))) (evs : list event) (l : list evid)
  : option (list (evid * val)) :=
  match l with
  | [] => Some []
  | o :: t =>
      match nth_error evs o with
      | None => None
      | Some oev =>
          match kind oev with
          | KCond _ ops' _ =>
              match rec ops', populate_ops rec evs t with
              | Some inner, Some rest => Some (inner ++ rest)
              | _, _ => None
              end
          | _ =>
              match cbs oev with
              | None => match raw_value oev, populate_ops rec evs t with
                        | Some v, Some rest => Some ((o, v) :: rest)
                        | _, _ => None
                        end
              | Some _ => populate_ops rec evs t
              end
          end
      end
  end.

Fixpoint populate (fuel : nat) (evs : list event) (ops : list evid) : option (list (evid * val)) :=
  match fuel with
  | O => None
  | S f => populate_ops (populate f evs) evs ops
  end.

(* Condition._build_value (callback of the condition c itself) *)
Definition cond_build (c : evid) (s : state) : state * result :=
  match remove_checks (S c) c s with
  | None => (s, RBroken)
  | Some s1 =>
      match get_event c s1 with
      | Some cev =>
          match out cev, kind cev with
          | Some (Ok _), KCond _ ops _ =>
              match populate (S c) (events s1) ops with
              | Some items => (upd_event c (ev_set_out (Some (Ok (VCond items)))) s1, ROk)
              | None => (s1, RBroken)
              end
          | Some (Fail _), _ => (s1, ROk)
          | _, _ => (s1, RBroken)
          end
      | None => (s1, RBroken)
      end
  end.

(* ------------------------------------------------------------------------------------------------ *)
(* the synchronous API calls; each returns the new state and the value returned / exception raised *)

Definition neg_delay (d : Q) : bool := match d ?= 0 with Lt => true | _ => false end.

(* Timeout(env, delay, value) *)
Definition call_timeout (d : Q) (v : val) (s : state) : state * outcome :=
  if neg_delay d then (s, Fail (kexn EValue M_negative_delay))
  else let '(e, s1) := new_event (mkEvent (Some []) (Some (Ok v)) false KTimeout) s in
       (schedule e NORMAL d s1, Ok (VEv e)).

(* Event(env) *)
Definition call_event (s : state) : state * outcome :=
  let '(e, s1) := new_event (mkEvent (Some []) None false KPlain) s in (s1, Ok (VEv e)).

(* Event.succeed(value) *)
Definition call_succeed (e : evid) (v : val) (s : state) : state * outcome :=
  match get_event e s with
  | None => (s, Fail (kexn EAttribute M_not_an_event))
  | Some ev => if is_triggered ev then (s, Fail (kexn ERuntime M_already_triggered))
               else (trigger_event e (Ok v) s, Ok (VEv e))
  end.

(* Event.fail(exception) *)
Definition call_fail (e : evid) (x : val) (s : state) : state * outcome :=
  match get_event e s with
  | None => (s, Fail (kexn EAttribute M_not_an_event))
  | Some ev => if is_triggered ev then (s, Fail (kexn ERuntime M_already_triggered))
               else match x with
                    | VExn c args => (trigger_event e (Fail (c, args)) s, Ok (VEv e))
                    | _ => (s, Fail (kexn EValue M_not_exception))
                    end
  end.

(* Process(env, generator): the Process event, then Initialize (URGENT) with callbacks [_resume] *)
Definition call_spawn (codes : list prog) (code : nat) (arg : val) (s : state) : state * outcome :=
  match nth_error codes code with
  | None => (s, Fail (kexn EValue M_not_a_generator))
  | Some pr =>
      let p := length (procs s) in
      let '(pe, s1) := new_event (mkEvent (Some []) None false (KProcess p)) s in
      let '(ie, s2) := new_event (mkEvent (Some [CbResume p]) (Some (Ok VNone)) false (KInit p)) s1 in
      let s3 := schedule ie URGENT 0 s2 in
      (set_procs (procs s3 ++ [mkProc pr (start pr arg) pe (Some ie)]) s3, Ok (VEv pe))
  end.

(* Process.interrupt(cause) = Interruption(process, cause) *)
Definition call_interrupt (e : evid) (cause : val) (s : state) : state * outcome :=
  match get_event e s with
  | None => (s, Fail (kexn EAttribute M_not_an_event))
  | Some ev =>
      match kind ev with
      | KProcess p =>
          if is_triggered ev then (s, Fail (kexn ERuntime M_terminated))
          else if match active s with Some a => Nat.eqb a p | None => false end
               then (s, Fail (kexn ERuntime M_self_interrupt))
          else
            let i := length (events s) in
            let '(_, s1) := new_event (mkEvent (Some [CbInterrupt i]) (Some (Fail (EInterrupt, [cause]))) true
                                               (KInterruption p)) s in
            (schedule i URGENT 0 s1, Ok VNone)
      | _ => (s, Fail (kexn EAttribute M_not_an_event))
      end
  end.

(* the loop of Condition.__init__ over the operands *)
Fixpoint cond_subscribe (c : evid) (ops : list evid) (s : state) : state :=
  match ops with
  | [] => s
  | o :: t =>
      let s1 := match get_event o s with
                | Some oev => if is_processed oev then cond_check c o s else add_callback o (CbCheck c) s
                | None => s
                end in
      cond_subscribe c t s1
  end.

Definition all_valid (es : list evid) (s : state) : bool :=
  forallb (fun e => match get_event e s with Some _ => true | None => false end) es.

(* Condition(env, all_events | any_events, events) *)
Definition call_cond (all : bool) (es : list evid) (s : state) : state * outcome :=
  if negb (all_valid es s) then (s, Fail (kexn EAttribute M_not_an_event))
  else
    let '(c, s1) := new_event (mkEvent (Some []) None false (KCond all es 0)) s in
    match es with
    | [] => (trigger_event c (Ok (VCond [])) s1, Ok (VEv c))
    | _ => (add_callback c (CbBuild c) (cond_subscribe c es s1), Ok (VEv c))
    end.

Definition call_probe (e : evid) (n : nat) (s : state) : state * outcome :=
  match get_event e s with
  | Some ev => if is_processed ev then (s, Fail (kexn EAttribute M_target_processed))
               else (add_callback e (CbProbe n) s, Ok VNone)
  | None => (s, Fail (kexn EAttribute M_not_an_event))
  end.

Definition vbool (b : bool) : val := VInt (if b then 1 else 0).

Definition call_query (q : query) (e : evid) (s : state) : state * outcome :=
  match get_event e s with
  | None => (s, Fail (kexn EAttribute M_not_an_event))
  | Some ev =>
      match q with
      | QTriggered => (s, Ok (vbool (is_triggered ev)))
      | QProcessed => (s, Ok (vbool (is_processed ev)))
      | QDefused => (s, Ok (vbool (defused ev)))
      | QOk => match out ev with
               | Some (Ok _) => (s, Ok (vbool true))
               | Some (Fail _) => (s, Ok (vbool false))
               | None => (s, Fail (kexn EAttribute M_value_pending))
               end
      | QValue => match raw_value ev with
                  | Some v => (s, Ok v)
                  | None => (s, Fail (kexn EAttribute M_value_pending))
                  end
      | QAlive => match kind ev with
                  | KProcess _ => (s, Ok (vbool (negb (is_triggered ev))))
                  | _ => (s, Fail (kexn EAttribute M_not_an_event))
                  end
      end
  end.

Fixpoint set_nth_val (n : nat) (v : val) (l : list val) : list val :=
  match n, l with
  | O, [] => [v]
  | O, _ :: t => v :: t
  | S m, [] => VNone :: set_nth_val m v []
  | S m, x :: t => x :: set_nth_val m v t
  end.

Definition do_call (codes : list prog) (c : call) (s : state) : state * outcome :=
  match c with
  | CTimeout d v => call_timeout d v s
  | CEvent => call_event s
  | CSucceed e v => call_succeed e v s
  | CFail e x => call_fail e x s
  | CSpawn code arg => call_spawn codes code arg s
  | CInterrupt e cause => call_interrupt e cause s
  | CAllOf es => call_cond true es s
  | CAnyOf es => call_cond false es s
  | CProbe e n => call_probe e n s
  | CQuery q e => call_query q e s
  | CNow => (s, Ok (VNum (now s)))
  | CPeek => (s, Ok (match peek s with Some t => VNum t | None => VNone end))
  | CLog v => (add_obs (OLog (active s) (now s) v) s, Ok VNone)
  | CGetG g => (s, Ok (nth g (glob s) VNone))
  | CSetG g v => (set_glob (set_nth_val g v (glob s)) s, Ok VNone)
  end.

(* ------------------------------------------------------------------------------------------------ *)
(* running the code of a process between two yields *)

Inductive fres (A : Type) := FrYield (v : val) (a : A) | FrRet (v : val) | FrRaise (x : exn).
Arguments FrYield {A}. Arguments FrRet {A}. Arguments FrRaise {A}.

Fixpoint run_frag {A : Type} (codes : list prog) (f : frag A) (s : state) : state * fres A :=
  match f with
  | FYield v a => (s, FrYield v a)
  | FRet v => (s, FrRet v)
  | FRaise x => (s, FrRaise x)
  | FCall c k => let '(s1, o) := do_call codes c s in run_frag codes (k o) s1
  end.

Definition get_proc (p : pid) (s : state) : option procrec := nth_error (procs s) p.
Definition proc_set_st (pr : procrec) (a : St (pcode pr)) : procrec := mkProc (pcode pr) a (pev pr) (ptarget pr).
Definition proc_set_target (t : option evid) (pr : procrec) : procrec := mkProc (pcode pr) (pst pr) (pev pr) t.
Definition upd_proc (p : pid) (f : procrec -> procrec) (s : state) : state := set_procs (upd_nth p f (procs s)) s.
Definition put_proc (p : pid) (pr : procrec) (s : state) : state := upd_proc p (fun _ => pr) s.

(* generator exhausted (return / uncaught exception): trigger the Process event, _target = None, active = None *)
Definition proc_finish (p : pid) (pr : procrec) (o : outcome) (s : state) : state :=
  set_active None (upd_proc p (proc_set_target None) (trigger_event (pev pr) o s)).

(* the process waits for the pending event e: callbacks.append(_resume); _target = e; active = None *)
Definition proc_wait (p : pid) (e : evid) (s : state) : state :=
  set_active None (upd_proc p (proc_set_target (Some e)) (add_callback e (CbResume p) s)).

(* the `while True` of Process._resume; fuel bounds the number of already processed events yielded in a row *)
Fixpoint resume_loop (fuel : nat) (codes : list prog) (p : pid) (e : evid) (s : state) : state * result :=
  match fuel with
  | O => (s, RFuel)
  | S f =>
      match get_event e s, get_proc p s with
      | Some ev, Some pr =>
          match out ev with
          | None => (s, RBroken)
          | Some o =>
              let s1 := match o with Fail _ => upd_event e ev_set_defused s | Ok _ => s end in
              let '(s2, r) := run_frag codes (resume (pcode pr) (pst pr) o) s1 in
              match r with
              | FrRet v => (proc_finish p pr (Ok v) s2, ROk)
              | FrRaise x => (proc_finish p pr (Fail x) s2, ROk)
              | FrYield v a =>
                  let s3 := put_proc p (proc_set_st pr a) s2 in
                  match v with
                  | VEv e' =>
                      match get_event e' s3 with
                      | Some ev' => if is_processed ev' then resume_loop f codes p e' s3
                                    else (proc_wait p e' s3, ROk)
                      | None => (s3, RRaise (kexn ERuntime M_invalid_yield))
                      end
                  | _ => (s3, RRaise (kexn ERuntime M_invalid_yield))
                  end
              end
          end
      | _, _ => (s, RBroken)
      end
  end.

(* Process._resume(event) *)
Definition resume_proc (fuel : nat) (codes : list prog) (p : pid) (e : evid) (s : state) : state * result :=
  resume_loop fuel codes p e (set_active (Some p) s).

(* Interruption._interrupt *)
Definition do_interruption (fuel : nat) (codes : list prog) (i : evid) (s : state) : state * result :=
  match get_event i s with
  | Some iev =>
      match kind iev with
      | KInterruption p =>
          match get_proc p s with
          | Some pr =>
              match get_event (pev pr) s with
              | Some pe =>
                  if is_triggered pe then (s, ROk)                  (* dead: ignored *)
                  else match ptarget pr with
                       | Some t =>
                           match get_event t s with
                           | Some tev =>
                               match cbs tev with
                               | None => (s, RRaise (kexn EAttribute M_target_processed))
                               | Some l =>
                                   if mem_cb (CbResume p) l
                                   then resume_proc fuel codes p i
                                          (upd_event t (ev_set_cbs (Some (remove_first (CbResume p) l))) s)
                                   else (s, RRaise (kexn EValue M_not_in_list))
                               end
                           | None => (s, RBroken)
                           end
                       | None => (s, RBroken)
                       end
              | None => (s, RBroken)
              end
          | None => (s, RBroken)
          end
      | _ => (s, RBroken)
      end
  | None => (s, RBroken)
  end.

(* StopSimulation.callback(event) *)
Definition stop_cb (e : evid) (s : state) : state * result :=
  match get_event e s with
  | Some ev => match out ev with
               | Some (Ok v) => (s, RStop v)
               | Some (Fail x) => (s, RRaise x)       (* raise event._value: the object itself, not defused *)
               | None => (s, RBroken)
               end
  | None => (s, RBroken)
  end.

Definition probe_cb (n : nat) (e : evid) (s : state) : state :=
  add_obs (OProbe n e (now s) (match get_event e s with Some ev => out ev | None => None end)) s.

(* callback(event) *)
Definition run_cb (fuel : nat) (codes : list prog) (e : evid) (c : cb) (s : state) : state * result :=
  match c with
  | CbResume p => resume_proc fuel codes p e s
  | CbCheck c => (cond_check c e s, ROk)
  | CbBuild c => cond_build c s
  | CbInterrupt i => do_interruption fuel codes i s
  | CbStop => stop_cb e s
  | CbProbe n => (probe_cb n e s, ROk)
  end.

(* for callback in callbacks: callback(event)
   An exception raised by a callback ends the loop and the rest of the callbacks is lost -- except for
   StopSimulation.callback (repaired code, fix: commit in onl/sim/core.py): whatever the stop callback raises
   (StopSimulation(value), or the failure of a failed until-event) is remembered, the remaining callbacks of the
   event still run, and it is raised right after the loop.  If a later callback raises, that exception escapes.
   The code as found (stop raised from inside the loop, later waiters dropped) is [run_callbacks_unfixed]. *)
Definition is_stop_cb (c : cb) : bool := match c with CbStop => true | _ => false end.
Definition is_exit (r : result) : bool := match r with RStop _ | RRaise _ => true | _ => false end.

Fixpoint run_callbacks (fuel : nat) (codes : list prog) (e : evid) (l : list cb) (s : state) : state * result :=
  match l with
  | [] => (s, ROk)
  | c :: t => let '(s1, r) := run_cb fuel codes e c s in
              match r with
              | ROk => run_callbacks fuel codes e t s1
              | _ => if is_stop_cb c && is_exit r
                     then let '(s2, r2) := run_callbacks fuel codes e t s1 in
                          match r2 with ROk => (s2, r) | _ => (s2, r2) end
                     else (s1, r)
              end
  end.

(* after the loop: an undefused failure crashes the environment with a copy of the exception *)
Definition check_failure (e : evid) (s : state) : result :=
  match get_event e s with
  | Some ev => match out ev with
               | Some (Fail x) => if defused ev then ROk else RRaise x
               | Some (Ok _) => ROk
               | None => RBroken
               end
  | None => RBroken
  end.

(* self._now, _, _, event = heappop(self._queue) *)
Definition pop_state (m : entry) (rest : list entry) (s : state) : state :=
  add_obs (OStep (e_ev m) (e_time m)) (set_agenda rest (set_now (e_time m) s)).

(* Environment.step *)
Definition step (fuel : nat) (codes : list prog) (s : state) : state * result :=
  match pop_min (agenda s) with
  | None => (s, REmpty)
  | Some (m, rest) =>
      let e := e_ev m in
      let s1 := pop_state m rest s in
      match get_event e s1 with
      | None => (s1, RBroken)
      | Some ev =>
          match cbs ev with
          | None => (s1, RRaise (kexn EType M_none_not_iterable))
          | Some l =>
              let '(s2, r) := run_callbacks fuel codes e l (upd_event e (ev_set_cbs None) s1) in
              match r with
              | ROk => (s2, check_failure e s2)
              | _ => (s2, r)
              end
          end
      end
  end.

(* ------------------------------------------------------------------------------------------------ *)
(* Environment.run *)

Inductive until := UNone | UNum (t : Q) | UEv (e : evid).

(* the part of run() before the loop: inl = run returns/raises at once, inr = enter the loop *)
Definition run_prelude (u : until) (s : state) : (state * result) + state :=
  match u with
  | UNone => inr s
  | UNum t =>
      if Qle_bool t (now s) then inl (s, RRaise (kexn EValue M_until_past))
      else let '(e, s1) := new_event (mkEvent (Some []) (Some (Ok VNone)) false KSentinel) s in
           inr (add_callback e CbStop (schedule e URGENT (t - now s) s1))
  | UEv e =>
      match get_event e s with
      | None => inl (s, RRaise (kexn EAttribute M_not_an_event))
      | Some ev =>
          if is_processed ev
          then inl (s, match raw_value ev with Some v => RStop v | None => RRaise (kexn EAttribute M_value_pending) end)
          else inr (add_callback e CbStop s)
      end
  end.

(* what run() does when step() raised EmptySchedule *)
Definition run_empty (u : until) (s : state) : result :=
  match u with
  | UNone => ROk
  | UEv e =>
      match get_event e s with
      | Some ev => if is_triggered ev then RRaise (kexn EAssert M_assert) else RRaise (kexn ERuntime M_until_not_triggered)
      | None => RBroken
      end
  | UNum _ => RRaise (kexn EAssert M_assert)     (* the sentinel is triggered and scheduled: not reachable *)
  end.

(* while True: self.step()   -- [fuel] bounds the number of steps (and is the fuel of each step) *)
Fixpoint run_loop (n : nat) (fuel : nat) (codes : list prog) (u : until) (s : state) : state * result :=
  match n with
  | O => (s, RFuel)
  | S m =>
      let '(s1, r) := step fuel codes s in
      match r with
      | ROk => run_loop m fuel codes u s1
      | REmpty => (s1, run_empty u s1)
      | _ => (s1, r)                       (* RStop v: run returns v; RRaise x: x escapes run *)
      end
  end.

Definition run (fuel : nat) (codes : list prog) (u : until) (s : state) : state * result :=
  match run_prelude u s with
  | inl r => r
  | inr s1 => run_loop fuel fuel codes u s1
  end.

(* ------------------------------------------------------------------------------------------------ *)
(* The kernel as found at the pinned commit, before the fix: commit for C03: StopSimulation raised from inside
   the callback loop.  Executable copies used only to state and replay the refutation of the C03 split-transparency
   statement ([..._refuted_before_fix]); [step_sel]/[run_sel] select by a boolean (true = repaired code). *)
Fixpoint run_callbacks_unfixed (fuel : nat) (codes : list prog) (e : evid) (l : list cb) (s : state) : state * result :=
  match l with
  | [] => (s, ROk)
  | c :: t => let '(s1, r) := run_cb fuel codes e c s in
              match r with
              | ROk => run_callbacks_unfixed fuel codes e t s1
              | _ => (s1, r)
              end
  end.

Definition step_unfixed (fuel : nat) (codes : list prog) (s : state) : state * result :=
  match pop_min (agenda s) with
  | None => (s, REmpty)
  | Some (m, rest) =>
      let e := e_ev m in
      let s1 := pop_state m rest s in
      match get_event e s1 with
      | None => (s1, RBroken)
      | Some ev =>
          match cbs ev with
          | None => (s1, RRaise (kexn EType M_none_not_iterable))
          | Some l =>
              let '(s2, r) := run_callbacks_unfixed fuel codes e l (upd_event e (ev_set_cbs None) s1) in
              match r with
              | ROk => (s2, check_failure e s2)
              | _ => (s2, r)
              end
          end
      end
  end.

Fixpoint run_loop_unfixed (n : nat) (fuel : nat) (codes : list prog) (u : until) (s : state) : state * result :=
  match n with
  | O => (s, RFuel)
  | S m =>
      let '(s1, r) := step_unfixed fuel codes s in
      match r with
      | ROk => run_loop_unfixed m fuel codes u s1
      | REmpty => (s1, run_empty u s1)
      | _ => (s1, r)
      end
  end.

Definition run_unfixed (fuel : nat) (codes : list prog) (u : until) (s : state) : state * result :=
  match run_prelude u s with
  | inl r => r
  | inr s1 => run_loop_unfixed fuel fuel codes u s1
  end.

Definition step_sel (fixed_stop : bool) := if fixed_stop then step else step_unfixed.
Definition run_sel (fixed_stop : bool) := if fixed_stop then run else run_unfixed.

(* ------------------------------------------------------------------------------------------------ *)

Definition init_state (t0 : Q) : state := mkState (Qred t0) [] 0 [] [] None [] [].

(* code executed outside any process (module level): the calls of a fragment, active = None *)
Definition exec_top {A : Type} (codes : list prog) (f : frag A) (s : state) : state * fres A :=
  run_frag codes f s.
